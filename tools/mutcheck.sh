#!/bin/bash
# tools/mutcheck.sh <patch.diff> <prop> [<prop> ...]
# Applies a seeded change to /repo, confirms that it builds and that the repository's own tests
# still pass, runs the given checks (quick tier), and restores /repo. Prints one line per check.
set -u
patch="$1"; shift
export GOFLAGS=-mod=mod GOPROXY=off GOSUMDB=off GOTOOLCHAIN=local
# VERIF_HOME / VERIF_REPO: an isolated copy of the framework and its own worktree of the library (tools/isolate.sh);
# default: /verif and /repo themselves
V="${VERIF_HOME:-/verif}"; R="${VERIF_REPO:-/repo}"; export VERIF_REPO="$R"
cd "$R" || exit 2
if ! git diff --quiet; then echo "$R is dirty"; exit 2; fi
git apply "$patch" || { echo "patch does not apply"; exit 2; }
# evidence files written while /repo is mutated must not survive: keep the clean-tree ones
EV=/tmp/mutcheck.evidence.$$
rm -rf $EV $EV.extra && cp -r "$V/evidence" $EV
[ -d "$V/extra" ] && cp -r "$V/extra" $EV.extra   # evidence of EXTRA (DESIGN.md §9.5) lives outside evidence/
trap 'git -C "$R" checkout -- . ; git -C "$R" clean -fdq; rm -rf "$V/evidence"; mv $EV "$V/evidence"; if [ -d $EV.extra ]; then rm -rf "$V/extra"; mv $EV.extra "$V/extra"; fi' EXIT
if go build ./... 2>/tmp/mutcheck.build.$$.log && go test -vet=off -count=1 ./... >/tmp/mutcheck.test.$$.log 2>&1; then
  echo "build+tests: ok"
else
  echo "build+tests: FAIL"; tail -5 /tmp/mutcheck.test.$$.log
fi
rm -f /tmp/mutcheck.build.$$.log /tmp/mutcheck.test.$$.log
cd "$V"
for p in "$@"; do
  out=$(bin/check "$p" 2>&1); rc=$?
  echo "$p exit=$rc $(echo "$out" | grep -E 'VIOLATION' | head -1) $(echo "$out" | grep -E '^KNOWN-FINDING' | cut -c1-100 | tr '\n' ' ')"
  echo "    $(echo "$out" | grep -E '^\[' | tail -1)"
  if [ $rc -ne 0 ]; then
    rp=$(echo "$out" | sed -n 's/.*replay=\([^ ]*\).*/\1/p' | head -1)
    [ -n "$rp" ] && python3 - "$rp" <<'PY'
import json,sys
d=json.load(open(sys.argv[1]))
print("    replay:", {k:(str(v)[:160]) for k,v in d.items() if k in ("kind","key","op","detail","theorem","impl","model")})
PY
  fi
done
