#!/bin/bash
# tools/mutcheck.sh <patch.diff> <prop> [<prop> ...]
# Applies a seeded change to /repo, confirms that it builds and that the repository's own tests
# still pass, runs the given checks (quick tier), and restores /repo. Prints one line per check.
set -u
patch="$1"; shift
export GOFLAGS=-mod=mod GOPROXY=off GOSUMDB=off GOTOOLCHAIN=local
cd /repo || exit 2
if ! git diff --quiet; then echo "/repo is dirty"; exit 2; fi
git apply "$patch" || { echo "patch does not apply"; exit 2; }
# evidence files written while /repo is mutated must not survive: keep the clean-tree ones
rm -rf /tmp/mutcheck.evidence && cp -r /verif/evidence /tmp/mutcheck.evidence
trap 'git -C /repo checkout -- . ; git -C /repo clean -fdq; rm -rf /verif/evidence; mv /tmp/mutcheck.evidence /verif/evidence' EXIT
if go build ./... 2>/tmp/mutcheck.build.log && go test -vet=off -count=1 ./... >/tmp/mutcheck.test.log 2>&1; then
  echo "build+tests: ok"
else
  echo "build+tests: FAIL (see /tmp/mutcheck.*.log)"; tail -5 /tmp/mutcheck.test.log
fi
cd /verif
for p in "$@"; do
  out=$(bin/check "$p" 2>&1); rc=$?
  echo "$p exit=$rc $(echo "$out" | grep -E 'VIOLATION|KNOWN' | head -2 | tr '\n' ' ')"
  echo "    $(echo "$out" | grep -E '^\[' | tail -1)"
  if [ $rc -ne 0 ]; then
    rp=$(echo "$out" | sed -n 's/.*replay=\([^ ]*\).*/\1/p' | head -1)
    [ -n "$rp" ] && python3 - "$rp" <<'PY'
import json,sys
d=json.load(open(sys.argv[1]))
print("    replay:", {k:(str(v)[:160]) for k,v in d.items() if k in ("kind","key","op","detail","theorem","impl","model")})
PY
  fi
done
