#!/bin/bash
# tools/regress_parallel.sh [n-shards (default 4)] [name-filter]
# Runs tools/regress.sh over the corpus in n isolated copies of the framework (tools/isolate.sh: /tmp/regress.<i>/verif with
# its own Lean build and /tmp/regress.<i>/repo, a scratch worktree of the library), one shard each, in parallel; removes
# the copies afterwards. /verif and /repo themselves are not touched. Log: /tmp/regress.log
n="${1:-4}"; filter="${2:-}"
: > /tmp/regress.log
for i in $(seq 0 $((n-1))); do
  /verif/tools/isolate.sh --remove /tmp/regress.$i >/dev/null 2>&1
  /verif/tools/isolate.sh /tmp/regress.$i >/dev/null || exit 2
done
for i in $(seq 0 $((n-1))); do
  ( VERIF_HOME=/tmp/regress.$i/verif VERIF_REPO=/tmp/regress.$i/repo REGRESS_SHARD=$i/$n /tmp/regress.$i/verif/tools/regress.sh "$filter" > /tmp/regress.$i.log 2>&1 ) &
done
wait
for i in $(seq 0 $((n-1))); do cat /tmp/regress.$i.log >> /tmp/regress.log; rm -f /tmp/regress.$i.log; /verif/tools/isolate.sh --remove /tmp/regress.$i; done
grep -E '^(MISSED|ALARM)' /tmp/regress.log
echo "caught $(grep -c '^CAUGHT' /tmp/regress.log) (of which no-failing-input-found: $(grep -c 'no-failing-input-found' /tmp/regress.log)), missed $(grep -c '^MISSED' /tmp/regress.log), quiet $(grep -c '^QUIET' /tmp/regress.log), alarms $(grep -c '^ALARM' /tmp/regress.log)"
! grep -qE '^(MISSED|ALARM)' /tmp/regress.log
