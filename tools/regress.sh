#!/bin/bash
# tools/regress.sh [name-filter]
# Regression over the seeded corpus: every seeded/<name>/patch.diff must make the check of the property it
# breaks (meta.json: breaks_property) exit 1 with a VIOLATION line; every seeded-harmless/<name>/patch.diff
# (a behaviour-preserving refactoring) and every seeded-neutral/<name>/patch.diff (a behaviour change no property
# speaks about) must leave the checks of its package's properties at exit 0.
# Uses tools/mutcheck.sh (applies to the library tree, restores it and the evidence files). Do not run while a
# `vp run` sweep is active: those use /repo itself.
#   REGRESS_SHARD=i/n  only every n-th corpus entry, starting at i (0-based) — used by tools/regress_parallel.sh
#   VERIF_HOME / VERIF_REPO  an isolated copy made by tools/isolate.sh (default /verif and /repo)
V="${VERIF_HOME:-/verif}"
cd "$V" || exit 2
filter="${1:-}"
si=0; sn=1
if [ -n "${REGRESS_SHARD:-}" ]; then si=${REGRESS_SHARD%%/*}; sn=${REGRESS_SHARD##*/}; fi
pass=0; fail=0; k=0
for d in seeded/*/; do
  n=$(basename "$d"); [[ -n "$filter" && "$n" != *"$filter"* ]] && continue
  k=$((k+1)); [ $((k % sn)) -ne $si ] && continue
  prop=$(python3 -c "import json;print(json.load(open('$d/meta.json'))['breaks_property'])")
  out=$(tools/mutcheck.sh "$V/$d/patch.diff" "$prop" 2>&1)
  if echo "$out" | grep -q "^$prop exit=1 .*VIOLATION property=$prop"; then
    kind="with-input"; echo "$out" | grep -q "no-failing-input-found" && kind="no-failing-input-found"
    echo "CAUGHT   $n ($prop, $kind)"; pass=$((pass+1))
  else
    echo "MISSED   $n ($prop)"; echo "$out" | tail -3; fail=$((fail+1))
  fi
done
declare -A PK=( [date]="C01 C07 C09 C11 C15" [roman]="C02 C10" [sem]="C03 C06 C14" [size]="C04 C08 C12 C13" [uu]="C05 C19" [test]="C20" [internal]="C01 C05 C16" )
for d in seeded-harmless/*/ seeded-neutral/*/; do
  n=$(basename "$d"); [[ -n "$filter" && "$n" != *"$filter"* ]] && continue
  k=$((k+1)); [ $((k % sn)) -ne $si ] && continue
  pkg=${n%%-*}
  out=$(tools/mutcheck.sh "$V/$d/patch.diff" ${PK[$pkg]} C16 C17 C18 2>&1)
  if echo "$out" | grep -q "exit=1"; then
    echo "ALARM    $n: $(echo "$out" | grep 'exit=1' | cut -c1-120 | tr '\n' ';')"; fail=$((fail+1))
  else
    echo "QUIET    $n"; pass=$((pass+1))
  fi
done
echo "regression: $pass as expected, $fail not"
[ $fail -eq 0 ]
