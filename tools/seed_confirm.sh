#!/bin/bash
# tools/seed_confirm.sh <dir with patch.diff + demo_test.go + notes.md> <seed-name> <property> "<needs>"
# Confirms a seeded change in a scratch worktree of /repo (applies, builds, vets, repo tests pass, the
# demonstration fails with the change and passes without it) and files it under /verif/seeded/<name>/.
set -u
src="$1"; name="$2"; prop="$3"; needs="${4:-}"; tags="${5:-}"
export GOFLAGS=-mod=mod GOPROXY=off GOSUMDB=off GOTOOLCHAIN=local
wt=/tmp/seedconfirm.$$
git -C /repo worktree add -q "$wt" HEAD || exit 2
trap 'git -C /repo worktree remove --force "$wt" >/dev/null 2>&1' EXIT
cd "$wt"
pkg=$(grep -m1 '^+++ b/' "$src/patch.diff" | sed 's#+++ b/##; s#/.*##')
git apply "$src/patch.diff" || { echo "patch does not apply"; exit 1; }
b=ok; go build ./... >/dev/null 2>&1 || b=FAIL
v=ok; go vet ./... >/dev/null 2>&1 || v=FAIL
t=ok; go test -vet=off -count=1 ./... >/dev/null 2>&1 || t=FAIL
cp "$src/demo_test.go" "$pkg/zz_demo_test.go"
dw=FAILS; go test $tags -vet=off -count=1 -run Demo "./$pkg/" >/dev/null 2>&1 && dw=passes
git apply -R "$src/patch.diff"
dwo=passes; go test $tags -vet=off -count=1 -run Demo "./$pkg/" >/dev/null 2>&1 || dwo=FAILS
rm -f "$pkg/zz_demo_test.go"
echo "$name: build=$b vet=$v repo-tests=$t demo-with-change=$dw demo-without=$dwo"
if [ "$b$v$t$dw$dwo" = "okokokFAILSpasses" ]; then
  out=/verif/seeded/$name; mkdir -p "$out"
  cp "$src/patch.diff" "$src/demo_test.go" "$out/"; [ -f "$src/notes.md" ] && cp "$src/notes.md" "$out/"
  python3 - "$out" "$prop" "$needs" "$pkg" <<'PY'
import json,sys
out,prop,needs,pkg=sys.argv[1:5]
json.dump({"breaks_property":prop,"package":pkg,"needs_to_manifest":needs,
 "confirmed":{"applies":True,"go_build":"ok","go_vet":"ok","repo_test_suite":"passes","demo_with_change":"fails","demo_without_change":"passes",
  "how":"tools/seed_confirm.sh in a scratch worktree of /repo (removed afterwards); demo copied to %s/zz_demo_test.go, go test -run Demo ./%s/"%(pkg,pkg)},
 "source":"fresh sub-agent given only the property text and its own worktree"},open(out+"/meta.json","w"),indent=1)
PY
  echo "  filed under $out"
else
  echo "  NOT confirmed"
fi
