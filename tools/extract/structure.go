package main

// Structure facts about the input-limit guard (C18): is the limit test the first thing a parser does with
// its input? Purely syntactic; every shape that is not recognised makes the fact false (never true by default).

import (
	"go/ast"
	"go/token"
)

// paramName returns the name of the i-th (0-based, flattened) parameter.
func paramName(fd *ast.FuncDecl, i int) string {
	n := 0
	for _, f := range fd.Type.Params.List {
		for _, nm := range f.Names {
			if n == i {
				return nm.Name
			}
			n++
		}
	}
	return ""
}

func isIdent(e ast.Expr, name string) bool {
	id, ok := unparen(e).(*ast.Ident)
	return ok && id.Name == name
}

func isZeroLit(e ast.Expr) bool {
	l, ok := unparen(e).(*ast.BasicLit)
	return ok && l.Kind == token.INT && l.Value == "0"
}

func unparen(e ast.Expr) ast.Expr {
	for {
		p, ok := e.(*ast.ParenExpr)
		if !ok {
			return e
		}
		e = p.X
	}
}

func mentions(n ast.Node, name string) bool {
	found := false
	ast.Inspect(n, func(n ast.Node) bool {
		if id, ok := n.(*ast.Ident); ok && id.Name == name {
			found = true
		}
		return true
	})
	return found
}

// limitScan tracks which identifiers stand for the input and for its length.
type limitScan struct {
	input map[string]bool // the input parameter and `b := []byte(input)` copies
	lens  map[string]bool // `l := len(input)`
}

func (s *limitScan) isInput(e ast.Expr) bool {
	e = unparen(e)
	if id, ok := e.(*ast.Ident); ok {
		return s.input[id.Name]
	}
	// []byte(input), string(input)
	if c, ok := e.(*ast.CallExpr); ok && len(c.Args) == 1 {
		switch f := c.Fun.(type) {
		case *ast.ArrayType:
			return s.isInput(c.Args[0])
		case *ast.Ident:
			return f.Name == "string" && s.isInput(c.Args[0])
		}
	}
	return false
}

func (s *limitScan) isLen(e ast.Expr) bool {
	e = unparen(e)
	if id, ok := e.(*ast.Ident); ok {
		return s.lens[id.Name]
	}
	if c, ok := e.(*ast.CallExpr); ok && len(c.Args) == 1 && isIdent(c.Fun, "len") {
		return s.isInput(c.Args[0])
	}
	// uint64(len(input)), int(l)
	if c, ok := e.(*ast.CallExpr); ok && len(c.Args) == 1 {
		if id, ok := c.Fun.(*ast.Ident); ok && (id.Name == "int" || id.Name == "uint64" || id.Name == "int64" || id.Name == "uint") {
			return s.isLen(c.Args[0])
		}
	}
	return false
}

// binding records `x := len(input)` / `b := []byte(input)`; false if st is anything else.
func (s *limitScan) binding(st ast.Stmt) bool {
	as, ok := st.(*ast.AssignStmt)
	if !ok || as.Tok != token.DEFINE || len(as.Lhs) != 1 || len(as.Rhs) != 1 {
		return false
	}
	id, ok := as.Lhs[0].(*ast.Ident)
	if !ok {
		return false
	}
	switch {
	case s.isLen(as.Rhs[0]):
		s.lens[id.Name] = true
	case s.isInput(as.Rhs[0]):
		s.input[id.Name] = true
	default:
		return false
	}
	return true
}

// limitOn: `MaxInputLength != 0`, `0 != MaxInputLength`, `MaxInputLength > 0`, `0 < MaxInputLength`
func limitOn(e ast.Expr) bool {
	b, ok := unparen(e).(*ast.BinaryExpr)
	if !ok {
		return false
	}
	const m = "MaxInputLength"
	switch b.Op {
	case token.NEQ:
		return (isIdent(b.X, m) && isZeroLit(b.Y)) || (isZeroLit(b.X) && isIdent(b.Y, m))
	case token.GTR:
		return isIdent(b.X, m) && isZeroLit(b.Y)
	case token.LSS:
		return isZeroLit(b.X) && isIdent(b.Y, m)
	}
	return false
}

// tooLong: `len > MaxInputLength`, `MaxInputLength < len` (strict: an input of exactly the limit is accepted)
func (s *limitScan) tooLong(e ast.Expr) bool {
	b, ok := unparen(e).(*ast.BinaryExpr)
	if !ok {
		return false
	}
	const m = "MaxInputLength"
	switch b.Op {
	case token.GTR:
		return s.isLen(b.X) && isIdent(b.Y, m)
	case token.LSS:
		return isIdent(b.X, m) && s.isLen(b.Y)
	}
	return false
}

// returnsTooLong: the block ends in a return that mentions ErrInputTooLong (no other statement reads the input).
func (s *limitScan) returnsTooLong(b *ast.BlockStmt) bool {
	if b == nil || len(b.List) == 0 {
		return false
	}
	ret, ok := b.List[len(b.List)-1].(*ast.ReturnStmt)
	if !ok || !mentions(ret, "ErrInputTooLong") {
		return false
	}
	for _, st := range b.List {
		for in := range s.input {
			if mentions(st, in) {
				return false
			}
		}
	}
	return true
}

// guard: `if [l := len(input);] MaxInputLength != 0 && l > MaxInputLength { …; return … ErrInputTooLong … }`,
// the conjuncts in either order, or the two tests as nested ifs.
func (s *limitScan) guard(st ast.Stmt) bool {
	ifs, ok := st.(*ast.IfStmt)
	if !ok || ifs.Else != nil {
		return false
	}
	if ifs.Init != nil && !s.binding(ifs.Init) {
		return false
	}
	if b, ok := unparen(ifs.Cond).(*ast.BinaryExpr); ok && b.Op == token.LAND {
		if (limitOn(b.X) && s.tooLong(b.Y)) || (s.tooLong(b.X) && limitOn(b.Y)) {
			return s.returnsTooLong(ifs.Body)
		}
		return false
	}
	if limitOn(ifs.Cond) && len(ifs.Body.List) == 1 {
		in, ok := ifs.Body.List[0].(*ast.IfStmt)
		return ok && in.Init == nil && in.Else == nil && s.tooLong(in.Cond) && s.returnsTooLong(in.Body)
	}
	return false
}

// emptyCheck: `if l == 0 { … return … }` — decided by the length alone, and an empty input is never too long, so
// it may stand before the guard.
func (s *limitScan) emptyCheck(st ast.Stmt) bool {
	ifs, ok := st.(*ast.IfStmt)
	if !ok || ifs.Init != nil || ifs.Else != nil || len(ifs.Body.List) == 0 {
		return false
	}
	b, ok := unparen(ifs.Cond).(*ast.BinaryExpr)
	if !ok || b.Op != token.EQL || !((s.isLen(b.X) && isZeroLit(b.Y)) || (isZeroLit(b.X) && s.isLen(b.Y))) {
		return false
	}
	_, returns := ifs.Body.List[len(ifs.Body.List)-1].(*ast.ReturnStmt)
	return returns
}

// guardLike: an `if` whose body ends in a return mentioning ErrInputTooLong — the limit guard, whatever its condition.
func guardLike(st ast.Stmt) bool {
	ifs, ok := st.(*ast.IfStmt)
	if !ok || len(ifs.Body.List) == 0 {
		return false
	}
	last := ifs.Body.List[len(ifs.Body.List)-1]
	if in, ok := last.(*ast.IfStmt); ok && len(ifs.Body.List) == 1 {
		return guardLike(in)
	}
	ret, ok := last.(*ast.ReturnStmt)
	return ok && mentions(ret, "ErrInputTooLong")
}

// flatten: a tagless `switch { case c: … }` without init or default reads as a chain of `if c { … }` statements
// (every case the scan steps over ends in a return, so the implicit else changes nothing).
func flatten(list []ast.Stmt) []ast.Stmt {
	var out []ast.Stmt
	for _, st := range list {
		sw, ok := st.(*ast.SwitchStmt)
		if !ok || sw.Tag != nil || sw.Init != nil {
			out = append(out, st)
			continue
		}
		var ifs []ast.Stmt
		for _, c := range sw.Body.List {
			cc := c.(*ast.CaseClause)
			if len(cc.List) != 1 {
				ifs = nil
				break
			}
			ifs = append(ifs, &ast.IfStmt{Cond: cc.List[0], Body: &ast.BlockStmt{List: cc.Body}})
		}
		if ifs == nil {
			out = append(out, st)
		} else {
			out = append(out, ifs...)
		}
	}
	return out
}

// limitCheckedFirst: before the guard the function only declares constants, takes the length of the input (or a
// []byte copy of it) and returns on the empty input. Second result false = the shape is not recognised (reported as
// MISSING by the caller); a recognisable guard of the wrong form, or one that comes after a use of the input, is
// (false, true).
func limitCheckedFirst(fd *ast.FuncDecl, inputParam int) (holds, known bool) {
	if fd == nil || fd.Body == nil {
		return false, false
	}
	in := paramName(fd, inputParam)
	if in == "" {
		return false, false
	}
	s := &limitScan{input: map[string]bool{in: true}, lens: map[string]bool{}}
	list := flatten(fd.Body.List)
	for i, st := range list {
		if ds, ok := st.(*ast.DeclStmt); ok {
			if gd, ok := ds.Decl.(*ast.GenDecl); ok && gd.Tok == token.CONST {
				continue
			}
		}
		if s.binding(st) || s.emptyCheck(st) {
			continue
		}
		if s.guard(st) {
			return true, true
		}
		if guardLike(st) {
			return false, true // the guard, but not of an accepted form
		}
		// something else comes first: if it (or what follows, up to the guard) uses the input, the limit is not
		// checked first; if the input is not touched before a later guard, or no guard is found, the shape is unknown
		used := false
		for _, later := range list[i:] {
			if guardLike(later) {
				return false, used
			}
			for alias := range s.input {
				used = used || mentions(later, alias)
			}
		}
		return false, false
	}
	return false, false
}

// funnelsInto: every return of fd is `return callee(…)` and the input parameter is used nowhere else.
func funnelsInto(fd *ast.FuncDecl, inputParam int, callee string) bool {
	if fd == nil || fd.Body == nil {
		return false
	}
	in := paramName(fd, inputParam)
	ok, returns, uses, passed := true, 0, 0, 0
	ast.Inspect(fd.Body, func(n ast.Node) bool {
		switch n := n.(type) {
		case *ast.ReturnStmt:
			returns++
			if len(n.Results) != 1 {
				ok = false
				return true
			}
			c, isCall := n.Results[0].(*ast.CallExpr)
			if !isCall || calleeName(c) != callee {
				ok = false
				return true
			}
			for _, a := range c.Args {
				if isIdent(a, in) {
					passed++
				}
			}
		case *ast.Ident:
			if n.Name == in {
				uses++
			}
		}
		return true
	})
	return ok && in != "" && returns > 0 && uses == passed && passed == returns
}

func calleeName(c *ast.CallExpr) string {
	f := c.Fun
	if ix, ok := f.(*ast.IndexExpr); ok { // explicit instantiation f[T](…)
		f = ix.X
	}
	if id, ok := f.(*ast.Ident); ok {
		return id.Name
	}
	return ""
}

// checksThrough: after constant declarations the function starts with `…, err := callee(…, input, …)` immediately
// followed by `if err != nil { return …, err }`.
func checksThrough(fd *ast.FuncDecl, inputParam int, callee string) bool {
	if fd == nil || fd.Body == nil {
		return false
	}
	in := paramName(fd, inputParam)
	list := fd.Body.List
	for len(list) > 0 {
		ds, ok := list[0].(*ast.DeclStmt)
		if !ok {
			break
		}
		if gd, ok := ds.Decl.(*ast.GenDecl); !ok || gd.Tok != token.CONST {
			return false
		}
		list = list[1:]
	}
	if len(list) < 2 || in == "" {
		return false
	}
	as, ok := list[0].(*ast.AssignStmt)
	if !ok || as.Tok != token.DEFINE || len(as.Rhs) != 1 || len(as.Lhs) < 1 {
		return false
	}
	c, ok := as.Rhs[0].(*ast.CallExpr)
	if !ok || calleeName(c) != callee {
		return false
	}
	passed := false
	for _, a := range c.Args {
		passed = passed || isIdent(a, in)
	}
	errID, ok := as.Lhs[len(as.Lhs)-1].(*ast.Ident)
	if !ok || !passed || errID.Name == "_" {
		return false
	}
	ifs, ok := list[1].(*ast.IfStmt)
	if !ok || ifs.Init != nil || len(ifs.Body.List) != 1 {
		return false
	}
	cond, ok := unparen(ifs.Cond).(*ast.BinaryExpr)
	if !ok || cond.Op != token.NEQ || !((isIdent(cond.X, errID.Name) && isNil(cond.Y)) || (isNil(cond.X) && isIdent(cond.Y, errID.Name))) {
		return false
	}
	ret, ok := ifs.Body.List[0].(*ast.ReturnStmt)
	return ok && len(ret.Results) >= 1 && isIdent(ret.Results[len(ret.Results)-1], errID.Name)
}
