// Command extract reads bafko/util's source (go/parser, no type checker) and emits
// UtilModel/Gen/Facts.lean: the tables, constants and straight-line bit expressions that the
// Lean model imports. Usage: extract <repo> <out.lean>. Exit 2 if a declaration is not found in
// the expected shape (the orchestrator then falls back to the pinned copy, see DESIGN §2.2.a).
package main

import (
	"fmt"
	"go/ast"
	"go/build"
	"go/parser"
	"go/token"
	"math/big"
	"os"
	"path/filepath"
	"sort"
	"strconv"
	"strings"
)

type pkg struct {
	name    string
	files   map[string]*ast.File
	consts  map[string]ast.Expr // const name -> expression (iota substituted lazily)
	iotas   map[string]int
	ctype   map[string]string
	vars    map[string]ast.Expr
	funcs   map[string]*ast.FuncDecl
	structs map[string][]sfield // struct type → fields in declaration order
}

type sfield struct{ name, typ string }

var fset = token.NewFileSet()
var missing []string

// shipped: the build context of the library as it ships — no custom build tags
var shipped = func() build.Context { c := build.Default; c.BuildTags = nil; c.CgoEnabled = false; return c }()

func miss(format string, a ...any) { missing = append(missing, fmt.Sprintf(format, a...)) }

func load(repo, name string) *pkg {
	p := &pkg{name: name, files: map[string]*ast.File{}, consts: map[string]ast.Expr{}, iotas: map[string]int{},
		ctype: map[string]string{}, vars: map[string]ast.Expr{}, funcs: map[string]*ast.FuncDecl{}, structs: map[string][]sfield{}}
	matches, _ := filepath.Glob(filepath.Join(repo, name, "*.go"))
	sort.Strings(matches)
	for _, m := range matches {
		if strings.HasSuffix(m, "_test.go") || strings.HasSuffix(m, "verif_hooks.go") {
			continue
		}
		// only the files the compiler sees in the build that ships (default GOOS/GOARCH, no build tags): a file
		// excluded by a build constraint (`//go:build ignore`, `verif`, another platform) must not supply facts
		if ok, err := shipped.MatchFile(filepath.Dir(m), filepath.Base(m)); err == nil && !ok {
			fmt.Fprintln(os.Stderr, "note: "+name+"/"+filepath.Base(m)+" is excluded from the default build by a build constraint; ignored")
			continue
		}
		f, err := parser.ParseFile(fset, m, nil, 0)
		if err != nil {
			fmt.Fprintln(os.Stderr, "parse error:", err)
			os.Exit(3)
		}
		p.files[filepath.Base(m)] = f
		for _, d := range f.Decls {
			switch d := d.(type) {
			case *ast.FuncDecl:
				n := d.Name.Name
				if d.Recv != nil && len(d.Recv.List) == 1 {
					t := d.Recv.List[0].Type
					if s, ok := t.(*ast.StarExpr); ok {
						t = s.X
					}
					if id, ok := t.(*ast.Ident); ok {
						n = id.Name + "." + n
					}
				}
				p.funcs[n] = d
			case *ast.GenDecl:
				if d.Tok == token.TYPE {
					for _, sp := range d.Specs {
						ts := sp.(*ast.TypeSpec)
						if st, ok := ts.Type.(*ast.StructType); ok {
							fs := []sfield{}
							for _, f := range st.Fields.List {
								for _, nm := range f.Names {
									fs = append(fs, sfield{nm.Name, render(f.Type)})
								}
							}
							p.structs[ts.Name.Name] = fs
						}
					}
				}
				if d.Tok == token.CONST {
					var last []ast.Expr
					var lastType string
					for i, s := range d.Specs {
						vs := s.(*ast.ValueSpec)
						vals := vs.Values
						typ := lastType
						if len(vals) == 0 {
							vals = last
						} else {
							last = vals
							typ = ""
							if id, ok := vs.Type.(*ast.Ident); ok {
								typ = id.Name
							}
							lastType = typ
						}
						for j, nm := range vs.Names {
							if j < len(vals) {
								p.consts[nm.Name] = vals[j]
								p.iotas[nm.Name] = i
								p.ctype[nm.Name] = typ
							}
						}
					}
				}
				if d.Tok == token.VAR {
					for _, s := range d.Specs {
						vs := s.(*ast.ValueSpec)
						for j, nm := range vs.Names {
							if j < len(vs.Values) {
								p.vars[nm.Name] = vs.Values[j]
							}
						}
					}
				}
			}
		}
	}
	return p
}

// eval evaluates a constant expression to an integer or a string.
func (p *pkg) eval(e ast.Expr, iota int) (any, bool) {
	switch e := e.(type) {
	case *ast.BasicLit:
		switch e.Kind {
		case token.INT:
			n, ok := new(big.Int).SetString(e.Value, 0)
			return n, ok
		case token.CHAR:
			r, _, _, err := strconv.UnquoteChar(e.Value[1:len(e.Value)-1], '\'')
			return big.NewInt(int64(r)), err == nil
		case token.STRING:
			s, err := strconv.Unquote(e.Value)
			return s, err == nil
		}
	case *ast.Ident:
		if e.Name == "iota" {
			return big.NewInt(int64(iota)), true
		}
		if c, ok := p.consts[e.Name]; ok {
			return p.eval(c, p.iotas[e.Name])
		}
		if e.Name == "false" {
			return big.NewInt(0), true
		}
		if e.Name == "true" {
			return big.NewInt(1), true
		}
	case *ast.ParenExpr:
		return p.eval(e.X, iota)
	case *ast.CallExpr: // conversion T(x)
		if len(e.Args) == 1 {
			return p.eval(e.Args[0], iota)
		}
	case *ast.BinaryExpr:
		a, ok1 := p.eval(e.X, iota)
		b, ok2 := p.eval(e.Y, iota)
		if !ok1 || !ok2 {
			return nil, false
		}
		if as, ok := a.(string); ok {
			if bs, ok := b.(string); ok && e.Op == token.ADD {
				return as + bs, true
			}
			return nil, false
		}
		x, y := a.(*big.Int), b.(*big.Int)
		r := new(big.Int)
		switch e.Op {
		case token.ADD:
			return r.Add(x, y), true
		case token.SUB:
			return r.Sub(x, y), true
		case token.MUL:
			return r.Mul(x, y), true
		case token.SHL:
			return r.Lsh(x, uint(y.Int64())), true
		case token.SHR:
			return r.Rsh(x, uint(y.Int64())), true
		case token.OR:
			return r.Or(x, y), true
		case token.AND:
			return r.And(x, y), true
		}
	}
	return nil, false
}

func (p *pkg) intOf(e ast.Expr, what string) string {
	v, ok := p.eval(e, 0)
	if n, isInt := v.(*big.Int); ok && isInt {
		return n.String()
	}
	miss("%s.%s: not an integer constant", p.name, what)
	return "0"
}

func (p *pkg) constInt(name string) string {
	c, ok := p.consts[name]
	if !ok {
		miss("%s: const %s not found", p.name, name)
		return "0"
	}
	v, ok := p.eval(c, p.iotas[name])
	if n, isInt := v.(*big.Int); ok && isInt {
		return n.String()
	}
	miss("%s: const %s not an integer", p.name, name)
	return "0"
}

func (p *pkg) constStr(name string) string {
	c, ok := p.consts[name]
	if !ok {
		miss("%s: const %s not found", p.name, name)
		return ""
	}
	v, ok := p.eval(c, p.iotas[name])
	if s, isStr := v.(string); ok && isStr {
		return s
	}
	miss("%s: const %s not a string", p.name, name)
	return ""
}

func (p *pkg) varInt(name string) string {
	v, ok := p.vars[name]
	if !ok {
		miss("%s: var %s not found", p.name, name)
		return "0"
	}
	return p.intOf(v, name)
}

func bytesLit(s string) string {
	parts := make([]string, 0, len(s))
	for i := 0; i < len(s); i++ {
		parts = append(parts, strconv.Itoa(int(s[i])))
	}
	return "[" + strings.Join(parts, ", ") + "]"
}

func (p *pkg) strOf(e ast.Expr, what string) string {
	v, ok := p.eval(e, 0)
	if s, isStr := v.(string); ok && isStr {
		return s
	}
	miss("%s.%s: not a string constant", p.name, what)
	return ""
}

// stringSlice returns the elements of `var name = []string{...}`.
func (p *pkg) stringSlice(name string) []string {
	v, ok := p.vars[name]
	cl, isCL := v.(*ast.CompositeLit)
	if !ok || !isCL {
		miss("%s: var %s is not a composite literal", p.name, name)
		return nil
	}
	var out []string
	for _, el := range cl.Elts {
		out = append(out, p.strOf(el, name))
	}
	return out
}

func listOfBytes(ss []string) string {
	parts := make([]string, len(ss))
	for i, s := range ss {
		parts[i] = bytesLit(s)
	}
	return "[" + strings.Join(parts, ", ") + "]"
}

// exprLean prints a Go integer expression as a Lean term. Identifiers are renamed through ren.
// Operators: & | ^ << >> + - * and parentheses, integer literals, selector x.Field -> ren["x.Field"].
func exprLean(e ast.Expr, ren map[string]string, lit func(string) string, what string) string {
	switch e := e.(type) {
	case *ast.BasicLit:
		if e.Kind == token.INT {
			n, ok := new(big.Int).SetString(e.Value, 0)
			if ok {
				return lit(n.String())
			}
		}
	case *ast.Ident:
		if r, ok := ren[e.Name]; ok {
			return r
		}
	case *ast.SelectorExpr:
		if x, ok := e.X.(*ast.Ident); ok {
			if r, ok := ren[x.Name+"."+e.Sel.Name]; ok {
				return r
			}
		}
	case *ast.ParenExpr:
		return "(" + exprLean(e.X, ren, lit, what) + ")"
	case *ast.CallExpr: // conversions uint64(x), int(x)
		if len(e.Args) == 1 {
			if id, ok := e.Fun.(*ast.Ident); ok && (id.Name == "uint64" || id.Name == "int") {
				return exprLean(e.Args[0], ren, lit, what)
			}
		}
	case *ast.BinaryExpr:
		op := map[token.Token]string{token.AND: "&&&", token.OR: "|||", token.XOR: "^^^", token.SHL: "<<<", token.SHR: ">>>",
			token.ADD: "+", token.SUB: "-", token.MUL: "*"}[e.Op]
		if op != "" {
			y := exprLean(e.Y, ren, lit, what)
			if e.Op == token.SHL || e.Op == token.SHR {
				// shift amounts are plain Nat literals or Nat expressions
				y = exprLean(e.Y, ren, func(s string) string { return s }, what)
			}
			return "(" + exprLean(e.X, ren, lit, what) + " " + op + " " + y + ")"
		}
	}
	miss("%s: unsupported expression %T", what, e)
	return "0"
}

func bv(s string) string  { return s + "#64" }
func nat(s string) string { return s }

func findReturnStruct(fd *ast.FuncDecl) *ast.CompositeLit {
	var out *ast.CompositeLit
	ast.Inspect(fd, func(n ast.Node) bool {
		if r, ok := n.(*ast.ReturnStmt); ok && len(r.Results) >= 1 {
			if cl, ok := r.Results[0].(*ast.CompositeLit); ok {
				out = cl
			}
		}
		return true
	})
	return out
}

func kv(cl *ast.CompositeLit, key string) ast.Expr {
	for _, el := range cl.Elts {
		if k, ok := el.(*ast.KeyValueExpr); ok {
			if id, ok := k.Key.(*ast.Ident); ok && id.Name == key {
				return k.Value
			}
		}
	}
	return nil
}

func main() {
	if len(os.Args) != 3 {
		fmt.Fprintln(os.Stderr, "usage: extract <repo> <out.lean>")
		os.Exit(3)
	}
	repo, out := os.Args[1], os.Args[2]
	var b strings.Builder
	w := func(format string, a ...any) { fmt.Fprintf(&b, format+"\n", a...) }
	w("/-!")
	w("GENERATED by /verif/tools/extract from /repo's working tree — do not edit.")
	w("Tables, constants and straight-line bit expressions of bafko/util, re-extracted on every check.")
	w("-/")
	w("namespace U.Gen")

	// ---------------------------------------------------------------- roman
	r := load(repo, "roman")
	w("\n-- roman")
	w("def roman_thousand : Nat := %s", r.constInt("thousand"))
	w("def roman_hundreds : List (List Nat) := %s", listOfBytes(r.stringSlice("hundreds")))
	w("def roman_tens : List (List Nat) := %s", listOfBytes(r.stringSlice("tens")))
	w("def roman_units : List (List Nat) := %s", listOfBytes(r.stringSlice("units")))
	{
		var gs []string
		if cl, ok := r.vars["groups"].(*ast.CompositeLit); ok {
			for _, el := range cl.Elts {
				g, ok := el.(*ast.CompositeLit)
				if !ok {
					miss("roman.groups: element shape")
					continue
				}
				u, d5, d10 := kv(g, "Unit"), kv(g, "Digit5"), kv(g, "Digit10")
				if u == nil || d5 == nil || d10 == nil {
					miss("roman.groups: fields")
					continue
				}
				gs = append(gs, fmt.Sprintf("(%s, %s, %s)", r.intOf(u, "groups.Unit"), r.intOf(d5, "groups.Digit5"), r.intOf(d10, "groups.Digit10")))
			}
		} else {
			miss("roman.groups not found")
		}
		w("def roman_groups : List (Nat × Nat × Nat) := [%s]", strings.Join(gs, ", "))
	}
	for _, c := range []string{"FormatLong4", "FormatLong40", "FormatLong400", "FormatLong9", "FormatLong90", "FormatLong900", "FormatLowerCase", "FormatLong", "RuleDisableEmptyAsZero"} {
		w("def roman_%s : Nat := %s", c, r.constInt(c))
	}
	w("def roman_MaxInputLength : Nat := %s", r.varInt("MaxInputLength"))
	w("def roman_DefaultFormat : Nat := %s", r.varInt("DefaultFormat"))
	// long-form overrides: if value == V && f&FLAG != 0 { return "S" }
	for _, fn := range []string{"toHundreds", "toTens", "toUnits"} {
		var items []string
		fd := r.funcs[fn]
		if fd == nil {
			miss("roman.%s not found", fn)
		} else {
			for _, st := range fd.Body.List {
				ifs, ok := st.(*ast.IfStmt)
				if !ok {
					continue
				}
				cond, ok := ifs.Cond.(*ast.BinaryExpr)
				if !ok || cond.Op != token.LAND {
					miss("roman.%s: condition shape", fn)
					continue
				}
				eq, ok1 := cond.X.(*ast.BinaryExpr)
				ne, ok2 := cond.Y.(*ast.BinaryExpr)
				if !ok1 || !ok2 || eq.Op != token.EQL || ne.Op != token.NEQ {
					miss("roman.%s: condition shape", fn)
					continue
				}
				and, ok := ne.X.(*ast.BinaryExpr)
				if !ok || and.Op != token.AND {
					miss("roman.%s: flag test shape", fn)
					continue
				}
				ret, ok := ifs.Body.List[0].(*ast.ReturnStmt)
				if !ok {
					miss("roman.%s: return shape", fn)
					continue
				}
				items = append(items, fmt.Sprintf("(%s, %s, %s)", r.intOf(eq.Y, fn), r.intOf(and.Y, fn), bytesLit(r.strOf(ret.Results[0], fn))))
			}
			// the last statement must be `return table[value]`
			last, ok := fd.Body.List[len(fd.Body.List)-1].(*ast.ReturnStmt)
			tbl := ""
			if ok {
				if ix, ok := last.Results[0].(*ast.IndexExpr); ok {
					if id, ok := ix.X.(*ast.Ident); ok {
						tbl = id.Name
					}
				}
			}
			if tbl == "" || len(items) == 0 {
				miss("roman.%s: expected `if value == V && f&FLAG != 0 { return \"…\" }` statements followed by `return table[value]`", fn)
			}
			w("def roman_%s_table : String := %q", fn, tbl)
		}
		w("def roman_%s_long : List (Nat × Nat × List Nat) := [%s]", fn, strings.Join(items, ", "))
	}
	// toLower switch: case 'X': buf[i] = 'x'
	{
		var items []string
		if fd := r.funcs["toLower"]; fd != nil {
			ast.Inspect(fd, func(n ast.Node) bool {
				if cc, ok := n.(*ast.CaseClause); ok && len(cc.List) == 1 && len(cc.Body) == 1 {
					if as, ok := cc.Body[0].(*ast.AssignStmt); ok {
						items = append(items, fmt.Sprintf("(%s, %s)", r.intOf(cc.List[0], "toLower"), r.intOf(as.Rhs[0], "toLower")))
					}
				}
				return true
			})
		} else {
			miss("roman.toLower not found")
		}
		if len(items) == 0 {
			miss("roman.toLower: no `case 'X': buf[i] = 'x'` clauses found")
		}
		w("def roman_toLower : List (Nat × Nat) := [%s]", strings.Join(items, ", "))
	}
	// formatByVerb
	verbTable := func(p *pkg, prefix string) {
		var items []string
		def := "0"
		if fd := p.funcs["formatByVerb"]; fd != nil {
			ast.Inspect(fd, func(n ast.Node) bool {
				if cc, ok := n.(*ast.CaseClause); ok && len(cc.Body) == 1 {
					ret, ok := cc.Body[0].(*ast.ReturnStmt)
					if !ok {
						return true
					}
					val := ""
					if id, ok := ret.Results[0].(*ast.Ident); ok && p.vars[id.Name] != nil {
						val = "none" // a package variable (roman DefaultFormat)
					} else {
						val = "some " + p.intOf(ret.Results[0], "formatByVerb")
					}
					if cc.List == nil {
						def = val
					}
					for _, c := range cc.List {
						items = append(items, fmt.Sprintf("(%s, %s)", p.intOf(c, "formatByVerb"), val))
					}
				}
				return true
			})
		} else {
			miss("%s.formatByVerb not found", p.name)
		}
		if len(items) == 0 {
			miss("%s.formatByVerb: no `case 'x': return …` clauses found", p.name)
		}
		w("/-- verb ↦ flags; `none` = the package's DefaultFormat variable -/")
		w("def %s_verbs : List (Nat × Option Nat) := [%s]", prefix, strings.Join(items, ", "))
		w("def %s_verbDefault : Option Nat := %s", prefix, strings.Replace(def, "some ", "some ", 1))
	}
	verbTable(r, "roman")
	w("def roman_pattern : String := %q", patternOf(r, "pattern"))

	// ---------------------------------------------------------------- date
	d := load(repo, "date")
	w("\n-- date")
	w("def date_version : Nat := %s", d.constInt("version"))
	w("def date_MaxInputLength : Nat := %s", d.varInt("MaxInputLength"))
	w("def date_FormatBasic : Nat := %s", d.constInt("FormatBasic"))
	w("def date_RuleDisableBasic : Nat := %s", d.constInt("RuleDisableBasic"))
	{
		ext, basic := "", ""
		if fd := d.funcs["DefaultFormatter"]; fd != nil {
			ast.Inspect(fd, func(n ast.Node) bool {
				if as, ok := n.(*ast.AssignStmt); ok && len(as.Lhs) == 1 {
					if id, ok := as.Lhs[0].(*ast.Ident); ok && id.Name == "format" {
						s := d.strOf(as.Rhs[0], "DefaultFormatter.format")
						if as.Tok == token.DEFINE {
							ext = s
						} else {
							basic = s
						}
					}
				}
				return true
			})
		}
		if ext == "" || basic == "" {
			miss("date.DefaultFormatter: format strings")
		}
		w("def date_formatExtended : String := %q", ext)
		w("def date_formatBasic : String := %q", basic)
	}
	verbTable(d, "date")
	w("def date_pattern : String := %q", patternOf(d, "pattern"))

	// ---------------------------------------------------------------- sem
	s := load(repo, "sem")
	w("\n-- sem")
	w("def sem_tagPrefix : Nat := %s", s.constInt("tagPrefix"))
	w("def sem_MaxInputLength : Nat := %s", s.varInt("MaxInputLength"))
	w("def sem_FormatTag : Nat := %s", s.constInt("FormatTag"))
	w("def sem_RuleDisableTag : Nat := %s", s.constInt("RuleDisableTag"))
	w("def sem_formVersion : Nat := %s", s.constInt("formVersion"))
	w("def sem_formTag : Nat := %s", s.constInt("formTag"))
	verbTable(s, "sem")
	w("def sem_semverPattern : String := %q", s.constStr("semverPattern"))
	w("def sem_preReleasePattern : String := %q", s.constStr("preReleasePattern"))
	w("def sem_buildPattern : String := %q", s.constStr("buildPattern"))

	// ---------------------------------------------------------------- size
	z := load(repo, "size")
	w("\n-- size")
	for _, c := range []string{"Byte", "Kilobyte", "Megabyte", "Gigabyte", "Terabyte", "Petabyte", "Exabyte", "Zettabyte", "Yottabyte",
		"Kibibyte", "Mebibyte", "Gibibyte", "Tebibyte", "Pebibyte", "Exbibyte", "Zebibyte", "Yobibyte", "ObjectKeyValue", "ObjectKeyUnit"} {
		w("def size_%s : List Nat := %s", c, bytesLit(z.constStr(c)))
	}
	w("def size_shortenUnits : List (List Nat) := %s", listOfBytes(z.stringSlice("shortenUnits")))
	{
		var items []string
		if cl, ok := z.vars["unitToValues"].(*ast.CompositeLit); ok {
			for _, el := range cl.Elts {
				k := el.(*ast.KeyValueExpr)
				items = append(items, fmt.Sprintf("(%s, %s)", bytesLit(z.strOf(k.Key, "unitToValues")), z.intOf(k.Value, "unitToValues")))
			}
		} else {
			miss("size.unitToValues not found")
		}
		sort.Strings(items) // a Go map literal is unordered: emit its entries in a canonical order
		w("def size_unitToValues : List (List Nat × Nat) := [%s]", strings.Join(items, ", "))
		items = nil
		if cl, ok := z.vars["zeroUnits"].(*ast.CompositeLit); ok {
			for _, el := range cl.Elts {
				k := el.(*ast.KeyValueExpr)
				items = append(items, bytesLit(z.strOf(k.Key, "zeroUnits")))
			}
		} else {
			miss("size.zeroUnits not found")
		}
		sort.Strings(items)
		w("def size_zeroUnits : List (List Nat) := [%s]", strings.Join(items, ", "))
	}
	w("def size_MaxInputLength : Nat := %s", z.varInt("MaxInputLength"))
	w("def size_MaxObjectKeys : Nat := %s", z.varInt("MaxObjectKeys"))
	w("def size_DefaultRule : Nat := %s", z.varInt("DefaultRule"))
	for _, c := range []string{"RuleDisableUnit", "RuleEnableJSONStringForm", "RuleEnableJSONObjectForm", "RuleDisallowUnknownKeys",
		"ruleIsJSON", "ruleUnmarshalTextMask", "FormatPretty", "FormatHTML"} {
		w("def size_%s : Nat := %s", c, z.constInt(c))
	}
	// Shorten: mask, shift and final unit
	{
		mask, shift, last := "", "", ""
		if fd := z.funcs["Size.Shorten"]; fd != nil {
			ast.Inspect(fd, func(n ast.Node) bool {
				switch n := n.(type) {
				case *ast.BinaryExpr:
					if n.Op == token.AND {
						if l, ok := n.Y.(*ast.BasicLit); ok {
							mask = z.intOf(l, "Shorten.mask")
						}
					}
				case *ast.AssignStmt:
					if n.Tok == token.SHR_ASSIGN {
						shift = z.intOf(n.Rhs[0], "Shorten.shift")
					}
				}
				return true
			})
			if ret, ok := fd.Body.List[len(fd.Body.List)-1].(*ast.ReturnStmt); ok && len(ret.Results) == 2 {
				last = z.strOf(ret.Results[1], "Shorten.last")
			}
		}
		if mask == "" || shift == "" || last == "" {
			miss("size.Shorten: mask/shift/last unit")
		}
		w("def size_shortenMask : Nat := %s", orZero(mask))
		w("def size_shortenShift : Nat := %s", orZero(shift))
		w("def size_shortenLast : List Nat := %s", bytesLit(last))
	}
	// marshalJSONObject literals and appendSeparator literals
	{
		var lits []string
		if fd := z.funcs["Size.marshalJSONObject"]; fd != nil {
			ast.Inspect(fd, func(n ast.Node) bool {
				if c, ok := n.(*ast.CallExpr); ok {
					if id, ok := c.Fun.(*ast.Ident); ok && id.Name == "append" && c.Ellipsis != token.NoPos && len(c.Args) == 2 {
						if v, ok := z.eval(c.Args[1], 0); ok {
							if sv, ok := v.(string); ok {
								lits = append(lits, sv)
							}
						}
					}
				}
				return true
			})
		}
		if len(lits) != 3 {
			miss("size.marshalJSONObject: expected three literal pieces, got %d", len(lits))
			lits = []string{"", "", ""}
		}
		w("def size_jsonObjOpen : List Nat := %s", bytesLit(lits[0]))
		w("def size_jsonObjMid : List Nat := %s", bytesLit(lits[1]))
		w("def size_jsonObjClose : List Nat := %s", bytesLit(lits[2]))
		var seps []string
		if fd := z.funcs["appendSeparator"]; fd != nil {
			ast.Inspect(fd, func(n ast.Node) bool {
				if c, ok := n.(*ast.CallExpr); ok {
					if id, ok := c.Fun.(*ast.Ident); ok && id.Name == "append" && len(c.Args) == 2 {
						v, ok := z.eval(c.Args[1], 0)
						if !ok {
							return true
						}
						switch v := v.(type) {
						case string:
							seps = append(seps, bytesLit(v))
						case *big.Int:
							seps = append(seps, "["+v.String()+"]")
						}
					}
				}
				return true
			})
		}
		if len(seps) != 2 {
			miss("size.appendSeparator: expected two separators, got %d", len(seps))
			seps = []string{"[]", "[]"}
		}
		w("def size_sepPlain : List Nat := %s", seps[0])
		w("def size_sepHTML : List Nat := %s", seps[1])
	}

	// ---------------------------------------------------------------- uu
	u := load(repo, "uu")
	w("\n-- uu")
	w("def uu_IDLength : Nat := %s", u.constInt("IDLength"))
	w("def uu_URNPrefix : List Nat := %s", bytesLit(u.constStr("URNPrefix")))
	w("def uu_MaxInputLength : Nat := %s", u.varInt("MaxInputLength"))
	w("def uu_FormatURN : Nat := %s", u.constInt("FormatURN"))
	w("def uu_RuleDisableURN : Nat := %s", u.constInt("RuleDisableURN"))
	w("def uu_RuleDisableUpperCaseDigits : Nat := %s", u.constInt("RuleDisableUpperCaseDigits"))
	w("def uu_defaultFormat : String := %q", u.constStr("defaultFormat"))
	w("def uu_urnFormat : String := %q", u.constStr("urnFormat"))
	{
		var items []string
		if cl, ok := u.vars["starts"].(*ast.CompositeLit); ok {
			for _, el := range cl.Elts {
				items = append(items, u.intOf(el, "starts"))
			}
		} else {
			miss("uu.starts not found")
		}
		w("def uu_starts : List Nat := [%s]", strings.Join(items, ", "))
	}
	verbTable(u, "uu")
	// RandomID
	if fd := u.funcs["RandomID"]; fd != nil {
		cl := findReturnStruct(fd)
		if cl == nil || kv(cl, "Higher") == nil || kv(cl, "Lower") == nil {
			miss("uu.RandomID: return shape")
		} else {
			ren := map[string]string{"a": "a", "b": "b"}
			w("def uu_rndHigher (a b : BitVec 64) : BitVec 64 := %s", exprLean(kv(cl, "Higher"), ren, bv, "uu.RandomID.Higher"))
			w("def uu_rndLower (a b : BitVec 64) : BitVec 64 := %s", exprLean(kv(cl, "Lower"), ren, bv, "uu.RandomID.Lower"))
		}
	} else {
		miss("uu.RandomID not found")
	}
	idRen := map[string]string{"i.Higher": "hi", "i.Lower": "lo", "id.Higher": "hi", "id.Lower": "lo"}
	// ID.Version, ID.Variant: translated statement by statement below (uu_Version, uu_Variant)
	// DefaultFormatter: five field expressions
	if fd := u.funcs["DefaultFormatter"]; fd != nil {
		var call *ast.CallExpr
		ast.Inspect(fd, func(n ast.Node) bool {
			if c, ok := n.(*ast.CallExpr); ok {
				if sel, ok := c.Fun.(*ast.SelectorExpr); ok && sel.Sel.Name == "Bprintf" {
					call = c
				}
			}
			return true
		})
		if call == nil || len(call.Args) != 7 {
			miss("uu.DefaultFormatter: Bprintf call shape")
		} else {
			for k := 0; k < 5; k++ {
				w("def uu_field%d (hi lo : BitVec 64) : BitVec 64 := %s", k, exprLean(call.Args[2+k], idRen, bv, "uu.DefaultFormatter.field"))
			}
		}
	} else {
		miss("uu.DefaultFormatter not found")
	}
	// parser digit placement: x := 124 - (i*2+j)*4 ; n[x>>6] |= v << (x & 0x3f)
	if fd := u.funcs["DefaultParser"]; fd != nil {
		var xdef, idx, sh ast.Expr
		ast.Inspect(fd, func(n ast.Node) bool {
			if as, ok := n.(*ast.AssignStmt); ok && len(as.Lhs) == 1 {
				if id, ok := as.Lhs[0].(*ast.Ident); ok && id.Name == "x" && as.Tok == token.DEFINE {
					xdef = as.Rhs[0]
				}
				if ix, ok := as.Lhs[0].(*ast.IndexExpr); ok && as.Tok == token.OR_ASSIGN {
					idx = ix.Index
					if be, ok := as.Rhs[0].(*ast.BinaryExpr); ok && be.Op == token.SHL {
						sh = be.Y
					}
				}
			}
			return true
		})
		if xdef == nil || idx == nil || sh == nil {
			miss("uu.DefaultParser: digit placement shape")
		} else {
			ren := map[string]string{"i": "i", "j": "j", "x": "x"}
			w("def uu_digitPos (i j : Nat) : Nat := %s", exprLean(xdef, ren, nat, "uu.parse.x"))
			w("def uu_digitWord (x : Nat) : Nat := %s", exprLean(idx, ren, nat, "uu.parse.word"))
			w("def uu_digitShift (x : Nat) : Nat := %s", exprLean(sh, ren, nat, "uu.parse.shift"))
		}
		// hyphen offsets: input[offset+K] != '-'
		var hy []string
		ast.Inspect(fd, func(n ast.Node) bool {
			if be, ok := n.(*ast.BinaryExpr); ok && be.Op == token.NEQ {
				if ix, ok := be.X.(*ast.IndexExpr); ok {
					if add, ok := ix.Index.(*ast.BinaryExpr); ok && add.Op == token.ADD {
						if id, ok := add.X.(*ast.Ident); ok && id.Name == "offset" {
							if v, ok := u.eval(be.Y, 0); ok {
								if n, ok := v.(*big.Int); ok && n.Int64() == '-' {
									hy = append(hy, u.intOf(add.Y, "hyphen"))
								}
							}
						}
					}
				}
			}
			return true
		})
		if len(hy) == 0 {
			miss("uu.DefaultParser: no `input[offset+K] != '-'` tests found")
		}
		w("def uu_hyphens : List Nat := [%s]", strings.Join(hy, ", "))
	} else {
		miss("uu.DefaultParser not found")
	}
	// structure fact: every function that mentions `random` locks randomMutex first and defers the unlock
	{
		ok := true
		uses := 0
		for name, fd := range u.funcs {
			mentions := false
			ast.Inspect(fd, func(n ast.Node) bool {
				if id, ok := n.(*ast.Ident); ok && id.Name == "random" {
					mentions = true
				}
				return true
			})
			if !mentions {
				continue
			}
			uses++
			if len(fd.Body.List) < 2 || !isCall(fd.Body.List[0], "randomMutex", "Lock") || !isDeferCall(fd.Body.List[1], "randomMutex", "Unlock") {
				ok = false
				fmt.Fprintln(os.Stderr, "note: uu."+name+" uses `random` without lock/defer-unlock as its first two statements")
			}
		}
		w("def uu_randomUses : Nat := %d", uses)
		w("def uu_randomUnderMutex : Bool := %v", ok && uses > 0)
	}

	// ---------------------------------------------------------------- translated decision functions
	w("\n-- straight-line decision functions translated statement by statement (tools/extract/translate.go)")
	// receivers are `$r`, parameters `$1`, `$2`, … (translateFuncX), so renaming them in the source changes nothing
	dren := map[string]string{"$r.year": "dy", "$r.month": "dm", "$r.day": "dd", "$1.year": "ey", "$1.month": "em", "$1.day": "ed"}
	dsig := "(dy : Int) (dm dd : Nat) (ey : Int) (em ed : Nat) : Bool"
	w("%s", translateFunc(d, "Date.After", "date_After", dsig, dren, nil))
	w("%s", translateFunc(d, "Date.Before", "date_Before", dsig, dren, nil))
	w("%s", translateFunc(d, "Date.Equal", "date_Equal", dsig, dren, nil))
	w("%s", translateFunc(d, "Date.IsZero", "date_IsZero", "(dy : Int) (dm dd : Nat) : Bool", dren, nil))
	w("%s", translateFunc(d, "validDate", "date_validDate", "(year month day : Int) : Bool",
		map[string]string{"$1": "year", "$2": "month", "$3": "day"}, nil))
	// date filters: method calls on Date-valued fields map to the functions translated above
	{
		ymd := []string{"year", "month", "day"}
		dv := func(p string) sval { return sval{ymd, []string{p + "y", p + "m", p + "d"}} }
		dt := func(p string) string { return fmt.Sprintf("(%sy : Int) (%sm %sd : Nat)", p, p, p) }
		dm := map[string]method{"Equal": {"date_Equal", ymd}, "Before": {"date_Before", ymd}, "After": {"date_After", ymd}}
		w("%s", translateFuncX(d, "filterNo.Contains", "date_filterNo_Contains", dt("x")+" : Bool", nil, nil,
			trOpts{svals: map[string]sval{"$1": dv("x")}, methods: dm}))
		w("%s", translateFuncX(d, "filterDate.Contains", "date_filterDate_Contains", dt("d")+" "+dt("x")+" : Bool", nil, nil,
			trOpts{svals: map[string]sval{"$r.date": dv("d"), "$1": dv("x")}, methods: dm}))
		w("%s", translateFuncX(d, "filterFrom.Contains", "date_filterFrom_Contains", dt("f")+" "+dt("x")+" : Bool", nil, nil,
			trOpts{svals: map[string]sval{"$r.from": dv("f"), "$1": dv("x")}, methods: dm}))
		w("%s", translateFuncX(d, "filterTo.Contains", "date_filterTo_Contains", dt("t")+" "+dt("x")+" : Bool", nil, nil,
			trOpts{svals: map[string]sval{"$r.to": dv("t"), "$1": dv("x")}, methods: dm}))
		w("%s", translateFuncX(d, "filterFromTo.Contains", "date_filterFromTo_Contains", dt("f")+" "+dt("t")+" "+dt("x")+" : Bool", nil, nil,
			trOpts{svals: map[string]sval{"$r.from": dv("f"), "$r.to": dv("t"), "$1": dv("x")}, methods: dm}))
		// FilterFromTo(from, to *Date): nil tests are Booleans, the chosen filter is `(type name, [its Date fields])`
		w("%s", translateFuncX(d, "FilterFromTo", "date_FilterFromTo",
			"(fnil : Bool) "+dt("f")+" (tnil : Bool) "+dt("t")+" : Except String (String × List (Int × Nat × Nat))",
			map[string]string{"nil:$1": "fnil", "nil:$2": "tnil"}, nil,
			trOpts{svals: map[string]sval{"$1": dv("f"), "*$1": dv("f"), "$2": dv("t"), "*$2": dv("t")}, methods: dm, errRes: true,
				lits: map[string]bool{"filterNo": true, "filterDate": true, "filterFrom": true, "filterTo": true, "filterFromTo": true}}))
	}
	// date binary form: Go's fixed-width arithmetic over Int (typed.go); the receiver's fields and the bytes are Ints
	{
		wraps := map[string]string{"int32": "wrap_int32", "uint8": "wrap_uint8"}
		w("%s", wrapDefs("int32", "uint8"))
		dtypes := map[string]string{"$r.year": "int32", "$r.month": "uint8", "$r.day": "uint8", "$1": "[]byte"}
		dval := map[string]sval{"$r": {[]string{"year", "month", "day"}, []string{"dy", "dm", "dd"}}}
		w("%s", translateFuncX(d, "Date.MarshalBinary", "date_MarshalBinary", "(dy dm dd : Int) : Except String (List Int)", nil, nil,
			trOpts{wrap: wraps, types: dtypes, svals: dval, errRes: true}))
		w("%s", translateFuncX(d, "Date.UnmarshalBinary", "date_UnmarshalBinary", "(dy dm dd : Int) (data : List Nat) : Except String (Int × Int × Int)",
			map[string]string{"$1": "data"}, map[string]string{"validDate": "date_validDate"},
			trOpts{wrap: wraps, types: dtypes, svals: dval, errRes: true, recv: "$r"}))
	}
	w("%s", translateFunc(s, "Ver.Compare", "sem_Compare",
		"(cmpPre : List Nat → List Nat → Int) (vM vm vp : Nat) (vpre : List Nat) (wM wm wp : Nat) (wpre : List Nat) : Int",
		map[string]string{"$r.Major": "vM", "$r.Minor": "vm", "$r.Patch": "vp", "$r.PreRelease": "vpre",
			"$1.Major": "wM", "$1.Minor": "wm", "$1.Patch": "wp", "$1.PreRelease": "wpre"},
		map[string]string{"ComparePreRelease": "cmpPre"}))
	// sem: Ver values are (Major, Minor, Patch, PreRelease, Build); `panic` → none; bits.Add64 → the 65-bit sum split at 2^64
	{
		vf := []string{"Major", "Minor", "Patch", "PreRelease", "Build"}
		vv := sval{vf, []string{"vM", "vm", "vp", "vpre", "vbuild"}}
		wv := sval{vf, []string{"wM", "wm", "wp", "wpre", "wbuild"}}
		vsig := "(vM vm vp : Nat) (vpre vbuild : List Nat)"
		wsig := "(wM wm wp : Nat) (wpre wbuild : List Nat)"
		vt := "Nat × Nat × Nat × List Nat × List Nat"
		one := map[string]sval{"$r": vv}
		lits := map[string]bool{"Ver": false}
		w("%s", translateFuncX(s, "Ver.IsZero", "sem_IsZero", vsig+" : Bool", nil, nil, trOpts{svals: one}))
		w("%s", translateFuncX(s, "Ver.Core", "sem_Core", vsig+" : "+vt, nil, nil, trOpts{svals: one, lits: lits}))
		for _, f := range []string{"NextMajor", "NextMinor", "NextPatch"} {
			w("%s", translateFuncX(s, "Ver."+f, "sem_"+f, vsig+" : Option ("+vt+")", nil, nil, trOpts{svals: one, lits: lits, partial: true}))
		}
		w("%s", translateFuncX(s, "Ver.Latest", "sem_Latest", "(cmpPre : List Nat → List Nat → Int) "+vsig+" "+wsig+" : "+vt, nil, nil,
			trOpts{svals: map[string]sval{"$r": vv, "$1": wv}, lits: lits,
				methods: map[string]method{"Compare": {"sem_Compare cmpPre", vf[:4]}}}))
	}
	// uu: uint64 words as naturals below 2^64; only >> and & occur, which need no wrapping
	uren := map[string]string{"$r.Higher": "hi", "$r.Lower": "lo"}
	words := trOpts{forbid: []token.Token{token.SHL, token.ADD, token.SUB, token.MUL}}
	w("%s", translateFuncX(u, "ID.Version", "uu_Version", "(hi lo : Nat) : Nat", uren, nil, words))
	w("%s", translateFuncX(u, "ID.Variant", "uu_Variant", "(hi lo : Nat) : Nat", uren, nil, words))
	w("%s", translateFunc(u, "parseDigit", "uu_parseDigit", "(digit : Nat) (allowUpperCase : Bool) : Nat × Bool",
		map[string]string{"$1": "digit", "$2": "allowUpperCase"}, nil))
	w("%s", translateFunc(r, "parseGroup", "roman_parseGroup", "(input : List Nat) (unit digit5 digit10 : Nat) : Nat",
		map[string]string{"$1": "input", "$2": "unit", "$3": "digit5", "$4": "digit10"}, nil))
	tk := load(repo, "test")
	w("%s", translateFunc(tk, "isForMarshal", "test_isForMarshal", "(c : Nat) : Bool", map[string]string{"$1": "c"}, nil))
	w("%s", translateFunc(tk, "isForUnmarshal", "test_isForUnmarshal", "(c : Nat) : Bool", map[string]string{"$1": "c"}, nil))

	// structure facts for C17: unmarshal methods assign through the receiver only after every check
	{
		type m struct {
			p    *pkg
			name string
		}
		for _, x := range []m{{d, "Date.UnmarshalBinary"}, {d, "Date.UnmarshalText"}, {r, "Number.UnmarshalText"}, {s, "Ver.UnmarshalText"},
			{z, "Size.UnmarshalText"}, {z, "Size.UnmarshalJSON"}, {u, "ID.UnmarshalText"}} {
			fd := x.p.funcs[x.name]
			ok := fd != nil && assignsAfterChecks(fd)
			if fd == nil {
				miss("%s.%s not found", x.p.name, x.name)
			}
			w("def %s_%s_assignsAfterChecks : Bool := %v", x.p.name, strings.ReplaceAll(x.name, ".", "_"), ok)
		}
	}

	// structure facts for C18: the input-limit guard is the first thing done with the input (structure.go)
	{
		guard := func(p *pkg, fn string, inputParam int) bool {
			holds, known := limitCheckedFirst(p.funcs[fn], inputParam)
			if !known {
				miss("%s.%s: the input-limit guard is not in a recognised shape", p.name, fn)
			}
			return holds
		}
		semOK := guard(s, "unmarshalText", 1)
		for _, e := range []string{"DefaultParser", "ParseVersion", "ParseTag", "Parse"} {
			if !funnelsInto(s.funcs[e], 0, "unmarshalText") {
				miss("sem.%s: does not recognisably hand its input straight to unmarshalText", e)
			}
		}
		romanGuard := guard(r, "checkInputLength", 1)
		for _, e := range []string{"DefaultParser", "Valid"} {
			if !checksThrough(r.funcs[e], 0, "checkInputLength") {
				miss("roman.%s: does not recognisably begin with checkInputLength and return its error", e)
			}
		}
		w("def date_limitCheckedFirst : Bool := %v", guard(d, "DefaultParser", 0))
		w("def roman_limitCheckedFirst : Bool := %v", romanGuard)
		w("def roman_Valid_limitCheckedFirst : Bool := %v", romanGuard)
		w("def sem_limitCheckedFirst : Bool := %v", semOK)
		w("def size_limitCheckedFirst : Bool := %v", guard(z, "DefaultParser", 0))
		w("def uu_limitCheckedFirst : Bool := %v", guard(u, "DefaultParser", 0))
	}

	w("\nend U.Gen")

	if len(missing) > 0 {
		for _, m := range missing {
			fmt.Fprintln(os.Stderr, "MISSING:", m)
		}
		os.Exit(2)
	}
	if err := os.WriteFile(out, []byte(b.String()), 0o644); err != nil {
		fmt.Fprintln(os.Stderr, err)
		os.Exit(3)
	}
}

// recvName returns the receiver identifier of a method declaration ("" if none).
func recvName(fd *ast.FuncDecl) string {
	if fd.Recv == nil || len(fd.Recv.List) != 1 || len(fd.Recv.List[0].Names) != 1 {
		return ""
	}
	return fd.Recv.List[0].Names[0].Name
}

// isRecvAssign reports whether st assigns through the receiver: `*r = …` or `r.field = …`.
func isRecvAssign(st ast.Stmt, recv string) bool {
	as, ok := st.(*ast.AssignStmt)
	if !ok {
		return false
	}
	for _, l := range as.Lhs {
		switch l := l.(type) {
		case *ast.StarExpr:
			if id, ok := l.X.(*ast.Ident); ok && id.Name == recv {
				return true
			}
		case *ast.SelectorExpr:
			if id, ok := l.X.(*ast.Ident); ok && id.Name == recv {
				return true
			}
		}
	}
	return false
}

// assignsAfterChecks: every assignment through the receiver is a top-level statement of the method body
// and no `if` statement and no error return follows the first of them — i.e. a call that returns an
// error has not touched the receiver.
func assignsAfterChecks(fd *ast.FuncDecl) bool {
	recv := recvName(fd)
	if recv == "" || fd.Body == nil {
		return false
	}
	first := -1
	for i, st := range fd.Body.List {
		if isRecvAssign(st, recv) {
			if first < 0 {
				first = i
			}
			continue
		}
		nested := false
		ast.Inspect(st, func(n ast.Node) bool {
			if s, ok := n.(ast.Stmt); ok && s != st && isRecvAssign(s, recv) {
				nested = true
			}
			return true
		})
		if nested {
			return false
		}
		if first >= 0 {
			switch st := st.(type) {
			case *ast.IfStmt:
				return false
			case *ast.ReturnStmt:
				for _, r := range st.Results {
					if id, ok := r.(*ast.Ident); !ok || id.Name != "nil" {
						return false
					}
				}
			}
		}
	}
	return first >= 0
}

func orZero(s string) string {
	if s == "" {
		return "0"
	}
	return s
}

func isCall(st ast.Stmt, recv, method string) bool {
	es, ok := st.(*ast.ExprStmt)
	if !ok {
		return false
	}
	return isCallExpr(es.X, recv, method)
}

func isDeferCall(st ast.Stmt, recv, method string) bool {
	ds, ok := st.(*ast.DeferStmt)
	if !ok {
		return false
	}
	return isCallExpr(ds.Call, recv, method)
}

func isCallExpr(e ast.Expr, recv, method string) bool {
	c, ok := e.(*ast.CallExpr)
	if !ok {
		return false
	}
	sel, ok := c.Fun.(*ast.SelectorExpr)
	if !ok || sel.Sel.Name != method {
		return false
	}
	id, ok := sel.X.(*ast.Ident)
	return ok && id.Name == recv
}

// patternOf returns the string passed to regexp.MustCompile in `var name = regexp.MustCompile(...)`.
func patternOf(p *pkg, name string) string {
	if c, ok := p.vars[name].(*ast.CallExpr); ok && len(c.Args) == 1 {
		if v, ok := p.eval(c.Args[0], 0); ok {
			if s, ok := v.(string); ok {
				return s
			}
		}
	}
	miss("%s: regexp %s not found", p.name, name)
	return ""
}
