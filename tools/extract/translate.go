package main

// A small Go → Lean translator for straight-line decision functions: bodies made of
// `if … { return … }` chains, `switch` on a tag with constant cases, local `:=` bindings and `return` of
// expressions over integers, bytes, byte strings and booleans. The Lean signature and the mapping of Go identifiers
// to Lean variables are supplied by the caller; only the body is translated. Per function the caller can widen the
// fragment (trOpts): struct-valued expressions and method calls on them, composite literals as tuples, `x == nil`,
// `panic` → none, `bits.Add64`, error results (`fmt.Errorf("…%w…", ErrX)` → .error "ErrX"), assignments to the
// receiver's fields, and Go's fixed-width arithmetic (typed.go). Anything outside the fragment is reported as
// MISSING (the orchestrator then falls back to the pinned facts) — never a guessed or empty definition.

import (
	"fmt"
	"go/ast"
	"go/token"
	"math/big"
	"regexp"
	"strconv"
	"strings"
)

type trCtx struct {
	p     *pkg
	ren   map[string]string // Go ident or "x.Field" → Lean term; "nil:x" → Lean Bool for `x == nil`
	calls map[string]string // Go function name → Lean function (applied to translated args)
	what  string
	nat   map[string]bool // Lean variables of the signature typed `Nat` / `List Nat`: operands that cannot be negative
	trOpts
}

var natParam = regexp.MustCompile(`\(([A-Za-z0-9_' ]+?) : (?:List )?Nat\)`)

// unsignedOK: may a conversion to an unsigned Go type be read as the identity? Only when its operand is built from
// literals, `len(…)` and variables the Lean signature types as Nat (bytes, unsigned words, lengths) — a signed
// operand (`uint(year)`) wraps in Go and would not in the model.
func (t *trCtx) unsignedOK(e ast.Expr) bool {
	switch e := e.(type) {
	case *ast.BasicLit:
		return true
	case *ast.ParenExpr:
		return t.unsignedOK(e.X)
	case *ast.Ident:
		if r, ok := t.ren[e.Name]; ok {
			return t.nat[r]
		}
		_, isConst := t.p.consts[e.Name]
		return isConst
	case *ast.SelectorExpr:
		if x, ok := e.X.(*ast.Ident); ok {
			if r, ok := t.ren[x.Name+"."+e.Sel.Name]; ok {
				return t.nat[r]
			}
		}
		return false
	case *ast.IndexExpr:
		return t.unsignedOK(e.X)
	case *ast.BinaryExpr:
		return t.unsignedOK(e.X) && t.unsignedOK(e.Y)
	case *ast.CallExpr:
		if id, ok := e.Fun.(*ast.Ident); ok && id.Name == "len" {
			return true
		}
		if id, ok := e.Fun.(*ast.Ident); ok && len(e.Args) == 1 {
			switch id.Name {
			case "uint64", "uint", "uint8", "byte", "uint32", "uint16":
				return t.unsignedOK(e.Args[0])
			}
		}
	}
	return false
}

// sval is a struct-valued Go expression (`d.from`, `date`, `*to`, `v`): its fields and the Lean term of each.
type sval struct {
	fields []string
	terms  []string
}

// method maps a Go method `x.M(y…)` to a Lean function applied to the listed fields of the receiver and of
// every struct-valued argument (scalar arguments are passed as they are).
type method struct {
	lean   string
	fields []string
}

// trOpts widens the fragment for one function; the zero value is the original fragment.
type trOpts struct {
	svals   map[string]sval   // struct-valued expressions; keys as rendered by render()
	methods map[string]method // translated methods
	lits    map[string]bool   // struct types whose composite literals are translated (true: tagged `("T", [fields…])`)
	partial bool              // `panic(…)` → none, `return x` → some x
	errRes  bool              // the last result is an error: `…, nil` → .ok …, `fmt.Errorf("…%w…", ErrX, …)` → .error "ErrX"
	wrap    map[string]string // fixed-width Go type → Lean wrapping function (typed mode, see typed.go); nil = unbounded
	types   map[string]string // rendered Go expression → Go type (typed mode)
	recv    string            // errRes with no other result: key in svals of the receiver whose final state is returned
	forbid  []token.Token     // operators that would need fixed-width wrapping here: reported as MISSING
}

// render prints the small expressions that are used as keys of ren/svals.
func render(e ast.Expr) string {
	switch e := e.(type) {
	case *ast.Ident:
		return e.Name
	case *ast.SelectorExpr:
		return render(e.X) + "." + e.Sel.Name
	case *ast.StarExpr:
		return "*" + render(e.X)
	case *ast.ParenExpr:
		return render(e.X)
	}
	return "?"
}

func isNil(e ast.Expr) bool {
	id, ok := e.(*ast.Ident)
	return ok && id.Name == "nil"
}

func (sv sval) pick(fields []string, what string) []string {
	if fields == nil {
		return sv.terms
	}
	var out []string
	for _, f := range fields {
		found := false
		for i, g := range sv.fields {
			if g == f {
				out = append(out, sv.terms[i])
				found = true
			}
		}
		if !found {
			miss("%s: struct value has no field %s", what, f)
		}
	}
	return out
}

// constFold evaluates an expression built from literals and package constants only.
func (t *trCtx) constFold(e ast.Expr) (string, bool) {
	local := false
	ast.Inspect(e, func(n ast.Node) bool {
		if id, ok := n.(*ast.Ident); ok {
			if _, ok := t.ren[id.Name]; ok {
				local = true
			}
			if _, ok := t.svals[id.Name]; ok {
				local = true
			}
		}
		return true
	})
	if local {
		return "", false
	}
	if v, ok := t.p.eval(e, 0); ok {
		if n, ok := v.(*big.Int); ok && n.Sign() >= 0 {
			return n.String(), true
		}
	}
	return "", false
}

// zeroOf is the zero value of a Go type in the model's representation.
func (t *trCtx) zeroOf(typ string) string {
	switch typ {
	case "int", "int8", "int16", "int32", "int64", "uint", "uint8", "uint16", "uint32", "uint64", "byte":
		return "0"
	case "string":
		return "[]"
	}
	if fs, ok := t.p.structs[typ]; ok {
		parts := make([]string, len(fs))
		for i, f := range fs {
			parts[i] = t.zeroOf(f.typ)
		}
		return "(" + strings.Join(parts, ", ") + ")"
	}
	miss("%s: zero value of type %s", t.what, typ)
	return "default"
}

// compositeLit translates `T{…}` (keyed or positional) to the tuple of its field values in declaration order.
func (t *trCtx) compositeLit(cl *ast.CompositeLit) string {
	id, ok := cl.Type.(*ast.Ident)
	if !ok {
		miss("%s: composite literal of an unnamed type", t.what)
		return "default"
	}
	tagged, ok := t.lits[id.Name]
	fs, ok2 := t.p.structs[id.Name]
	if !ok || !ok2 {
		miss("%s: composite literal of type %s", t.what, id.Name)
		return "default"
	}
	vals := make([]string, len(fs))
	for i, el := range cl.Elts {
		if k, ok := el.(*ast.KeyValueExpr); ok {
			kid, _ := k.Key.(*ast.Ident)
			found := false
			for j, f := range fs {
				if kid != nil && f.name == kid.Name && vals[j] == "" {
					vals[j] = t.expr(k.Value)
					found = true
				}
			}
			if !found {
				miss("%s: field key of %s literal", t.what, id.Name)
			}
		} else if i < len(fs) && len(cl.Elts) == len(fs) {
			vals[i] = t.expr(el)
		} else {
			miss("%s: positional %s literal", t.what, id.Name)
		}
	}
	for j, f := range fs {
		if vals[j] == "" {
			vals[j] = t.zeroOf(f.typ)
		}
	}
	if tagged {
		return fmt.Sprintf("(%q, [%s])", id.Name, strings.Join(vals, ", "))
	}
	return "(" + strings.Join(vals, ", ") + ")"
}

// errName finds the sentinel error a returned error expression wraps: `ErrX` itself or the `%w` operand of fmt.Errorf.
func (t *trCtx) errName(e ast.Expr) string {
	if id, ok := e.(*ast.Ident); ok && strings.HasPrefix(id.Name, "Err") {
		return id.Name
	}
	if c, ok := e.(*ast.CallExpr); ok && render(c.Fun) == "fmt.Errorf" && len(c.Args) >= 2 {
		if v, ok := t.p.eval(c.Args[0], 0); ok {
			if f, ok := v.(string); ok {
				n := 0 // index of the operand the verb under the cursor consumes
				for i := 0; i < len(f); i++ {
					if f[i] != '%' {
						continue
					}
					i++
					for i < len(f) && strings.IndexByte("+-# 0123456789.", f[i]) >= 0 {
						i++
					}
					if i >= len(f) || f[i] == '%' {
						continue
					}
					if f[i] == 'w' && 1+n < len(c.Args) {
						if id, ok := c.Args[1+n].(*ast.Ident); ok && strings.HasPrefix(id.Name, "Err") {
							return id.Name
						}
					}
					n++
				}
			}
		}
	}
	miss("%s: returned error is neither a sentinel nor fmt.Errorf wrapping one with %%w", t.what)
	return "?"
}

func (t *trCtx) expr(e ast.Expr) string {
	if t.wrap != nil {
		if cl, ok := e.(*ast.CompositeLit); ok {
			if s, ok := t.byteSlice(cl); ok {
				return s
			}
		}
		s, _ := t.typed(e, "")
		return s
	}
	return t.exprU(e)
}

// exprU: expressions over the unbounded model types.
func (t *trCtx) exprU(e ast.Expr) string {
	switch e.(type) {
	case *ast.Ident, *ast.SelectorExpr, *ast.StarExpr:
		if sv, ok := t.svals[render(e)]; ok {
			return "(" + strings.Join(sv.terms, ", ") + ")"
		}
	}
	switch e := e.(type) {
	case *ast.CompositeLit:
		return t.compositeLit(e)
	case *ast.BasicLit:
		switch e.Kind {
		case token.STRING:
			if v, err := strconv.Unquote(e.Value); err == nil {
				return bytesLit(v)
			}
		case token.INT:
			if n, ok := new(big.Int).SetString(e.Value, 0); ok {
				return n.String()
			}
		case token.CHAR:
			if r, _, _, err := strconv.UnquoteChar(e.Value[1:len(e.Value)-1], '\''); err == nil {
				return strconv.Itoa(int(r))
			}
		}
	case *ast.Ident:
		if r, ok := t.ren[e.Name]; ok {
			return r
		}
		switch e.Name {
		case "true", "false":
			return e.Name
		}
		if c, ok := t.p.consts[e.Name]; ok {
			if v, ok := t.p.eval(c, t.p.iotas[e.Name]); ok {
				if n, ok := v.(*big.Int); ok {
					return n.String()
				}
			}
		}
	case *ast.SelectorExpr:
		if r, ok := t.ren[render(e)]; ok {
			return r
		}
		if sv, ok := t.svals[render(e.X)]; ok { // a field of a struct value
			if f := sv.pick([]string{e.Sel.Name}, t.what); len(f) == 1 {
				return f[0]
			}
			return "default"
		}
		if render(e) == "math.MaxUint64" {
			return "18446744073709551615"
		}
	case *ast.ParenExpr:
		return "(" + t.expr(e.X) + ")"
	case *ast.IndexExpr:
		return "(" + t.expr(e.X) + ".getD " + t.expr(e.Index) + " 0)"
	case *ast.UnaryExpr:
		if e.Op == token.NOT {
			return "(!" + t.expr(e.X) + ")"
		}
		if e.Op == token.SUB {
			return "(-" + t.expr(e.X) + ")"
		}
		if cl, ok := e.X.(*ast.CompositeLit); ok && e.Op == token.AND { // &T{…}: the model has no pointers
			return t.compositeLit(cl)
		}
	case *ast.CallExpr:
		if sel, ok := e.Fun.(*ast.SelectorExpr); ok {
			if m, ok := t.methods[sel.Sel.Name]; ok {
				recv, ok := t.svals[render(sel.X)]
				if !ok {
					miss("%s: receiver of .%s is not a known struct value", t.what, sel.Sel.Name)
					return "default"
				}
				args := recv.pick(m.fields, t.what)
				for _, a := range e.Args {
					if sv, ok := t.svals[render(a)]; ok {
						args = append(args, sv.pick(m.fields, t.what)...)
					} else {
						args = append(args, t.expr(a))
					}
				}
				return "(" + m.lean + " " + strings.Join(args, " ") + ")"
			}
		}
		if id, ok := e.Fun.(*ast.Ident); ok {
			if f, ok := t.calls[id.Name]; ok {
				args := make([]string, len(e.Args))
				for i, a := range e.Args {
					args[i] = t.expr(a)
				}
				return "(" + f + " " + strings.Join(args, " ") + ")"
			}
			if id.Name == "len" && len(e.Args) == 1 {
				return "(" + t.expr(e.Args[0]) + ").length"
			}
			// Numeric conversions: only the widening ones (`int`, `int64`, `Month` of a narrower or equally wide
			// signed operand, as the library uses them) are the identity on the unbounded model types. A conversion
			// that can wrap or change sign (`uint(x)`, `uint64(x)`, `uint8/byte(x)`, `int32/int16/int8(x)`,
			// `uint32/uint16(x)`) is outside the fragment: without type information the translation would be
			// unsound (`uint(year)%100` for a negative year), so the function is reported MISSING instead.
			switch id.Name {
			case "int", "int64", "Month":
				if len(e.Args) == 1 {
					return t.expr(e.Args[0])
				}
			case "uint64", "uint":
				// widening of an operand that cannot be negative (see unsignedOK); narrowing ones stay MISSING
				if len(e.Args) == 1 && t.unsignedOK(e.Args[0]) {
					return t.expr(e.Args[0])
				}
			}
		}
	case *ast.BinaryExpr:
		ops := map[token.Token]string{token.EQL: "==", token.NEQ: "!=", token.LSS: "<", token.GTR: ">", token.LEQ: "<=", token.GEQ: ">=",
			token.LAND: "&&", token.LOR: "||", token.ADD: "+", token.SUB: "-", token.MUL: "*", token.REM: "%", token.QUO: "/",
			token.AND: "&&&", token.OR: "|||", token.SHL: "<<<", token.SHR: ">>>"}
		if op, ok := ops[e.Op]; ok {
			if (e.Op == token.EQL || e.Op == token.NEQ) && (isNil(e.X) || isNil(e.Y)) {
				other := e.X
				if isNil(other) {
					other = e.Y
				}
				if r, ok := t.ren["nil:"+render(other)]; ok {
					if e.Op == token.NEQ {
						return "(!" + r + ")"
					}
					return r
				}
				miss("%s: nil test of %s", t.what, render(other))
				return "default"
			}
			if e.Op == token.EQL || e.Op == token.NEQ {
				// `a % k == 0` / `!= 0`: truncated and Euclidean remainders agree on being zero
				if rem, ok := e.X.(*ast.BinaryExpr); ok && rem.Op == token.REM {
					if lit, ok := e.Y.(*ast.BasicLit); ok && lit.Value == "0" {
						return "((" + t.expr(rem.X) + " % " + t.expr(rem.Y) + ") " + op + " 0)"
					}
				}
			}
			for _, f := range t.forbid {
				if e.Op == f {
					if n, ok := t.constFold(e); ok { // a constant expression (`1 << 63`) is exact
						return n
					}
					miss("%s: operator %s on fixed-width words is outside the fragment", t.what, e.Op)
				}
			}
			if e.Op == token.REM || e.Op == token.QUO {
				miss("%s: %% and / are only translated inside `x %% k == 0`", t.what)
			}
			x, y := t.expr(e.X), t.expr(e.Y)
			switch e.Op {
			case token.LSS, token.GTR, token.LEQ, token.GEQ:
				return "(decide (" + x + " " + op + " " + y + "))"
			}
			return "(" + x + " " + op + " " + y + ")"
		}
	}
	miss("%s: unsupported expression %T", t.what, e)
	return "default"
}

func (t *trCtx) results(rs []ast.Expr) string {
	if t.errRes {
		if len(rs) == 0 {
			miss("%s: bare return", t.what)
			return "default"
		}
		last := rs[len(rs)-1]
		if !isNil(last) {
			return fmt.Sprintf("(.error %q)", t.errName(last))
		}
		rs = rs[:len(rs)-1]
		if len(rs) == 0 {
			sv, ok := t.svals[t.recv]
			if !ok {
				miss("%s: no receiver state to return", t.what)
			}
			return "(.ok (" + strings.Join(sv.terms, ", ") + "))"
		}
		return "(.ok " + t.tuple(rs) + ")"
	}
	if t.partial {
		return "(some " + t.tuple(rs) + ")"
	}
	return t.tuple(rs)
}

func (t *trCtx) tuple(rs []ast.Expr) string {
	parts := make([]string, len(rs))
	for i, r := range rs {
		parts[i] = t.expr(r)
	}
	if len(parts) == 1 {
		return parts[0]
	}
	return "(" + strings.Join(parts, ", ") + ")"
}

// block translates a statement list whose control always ends in a return; `rest` produces what runs when
// the list falls through (nil = must not fall through). It is called lazily, so a `switch` with a
// default clause whose arms all return needs nothing after it.
func (t *trCtx) block(list []ast.Stmt, rest func() string, ind string) string {
	if len(list) == 0 {
		if rest == nil {
			miss("%s: control falls off the end", t.what)
			return "default"
		}
		return rest()
	}
	st, tail := list[0], list[1:]
	var cached *string
	after := func() string {
		if cached == nil {
			v := t.block(tail, rest, ind)
			cached = &v
		}
		return *cached
	}
	switch st := st.(type) {
	case *ast.ReturnStmt:
		return t.results(st.Results)
	case *ast.IfStmt:
		if st.Init != nil {
			miss("%s: if with init statement", t.what)
		}
		thenB := t.block(st.Body.List, after, ind+"  ")
		var elseB string
		switch el := st.Else.(type) {
		case nil:
			elseB = after()
		case *ast.BlockStmt:
			elseB = t.block(el.List, after, ind+"  ")
		case *ast.IfStmt:
			elseB = t.block([]ast.Stmt{el}, after, ind+"  ")
		}
		return "if " + t.expr(st.Cond) + "\n" + ind + "  then " + thenB + "\n" + ind + "  else " + elseB
	case *ast.SwitchStmt:
		if st.Init != nil || st.Tag == nil {
			miss("%s: unsupported switch form", t.what)
			return "default"
		}
		tag := t.expr(st.Tag)
		out := ""
		def := ""
		hasDef := false
		for _, c := range st.Body.List {
			cc := c.(*ast.CaseClause)
			body := t.block(cc.Body, after, ind+"  ")
			if cc.List == nil {
				def, hasDef = body, true
				continue
			}
			var conds []string
			for _, v := range cc.List {
				conds = append(conds, "("+tag+" == "+t.expr(v)+")")
			}
			out += "if " + strings.Join(conds, " || ") + "\n" + ind + "  then " + body + "\n" + ind + "  else "
		}
		if !hasDef {
			def = after()
		}
		return out + def
	case *ast.DeclStmt: // local constants: const name = expr
		if gd, ok := st.Decl.(*ast.GenDecl); ok && gd.Tok == token.CONST {
			for _, sp := range gd.Specs {
				vs := sp.(*ast.ValueSpec)
				for i, nm := range vs.Names {
					if i < len(vs.Values) {
						t.ren[nm.Name] = t.expr(vs.Values[i])
					}
				}
			}
			return after()
		}
	case *ast.ExprStmt:
		if c, ok := st.X.(*ast.CallExpr); ok && t.partial && render(c.Fun) == "panic" {
			return "none"
		}
	case *ast.AssignStmt:
		if st.Tok == token.DEFINE && len(st.Lhs) == 1 && len(st.Rhs) == 1 {
			if id, ok := st.Lhs[0].(*ast.Ident); ok {
				v := t.define(id.Name, st.Rhs[0])
				return "let " + id.Name + " := " + v + "\n" + ind + after()
			}
		}
		// sum, carry := bits.Add64(x, y, c) with a literal carry-in: the 65-bit sum split at 2^64
		if st.Tok == token.DEFINE && len(st.Lhs) == 2 && len(st.Rhs) == 1 && t.wrap == nil {
			c, ok := st.Rhs[0].(*ast.CallExpr)
			s, ok1 := st.Lhs[0].(*ast.Ident)
			o, ok2 := st.Lhs[1].(*ast.Ident)
			if ok && ok1 && ok2 && render(c.Fun) == "bits.Add64" && len(c.Args) == 3 {
				if lit, ok := c.Args[2].(*ast.BasicLit); ok && (lit.Value == "0" || lit.Value == "1") {
					sum := "(" + t.expr(c.Args[0]) + " + " + t.expr(c.Args[1]) + " + " + lit.Value + ")"
					t.ren[s.Name], t.ren[o.Name] = s.Name, o.Name
					return "let " + s.Name + " := " + sum + " % 18446744073709551616\n" + ind +
						"let " + o.Name + " := " + sum + " / 18446744073709551616\n" + ind + after()
				}
			}
		}
		// r.field = e: the receiver state returned by `return nil` (errRes with recv)
		if st.Tok == token.ASSIGN && len(st.Lhs) == 1 && len(st.Rhs) == 1 && t.recv != "" {
			if sel, ok := st.Lhs[0].(*ast.SelectorExpr); ok && render(sel.X) == t.recv {
				sv := t.svals[t.recv]
				for i, f := range sv.fields {
					if f == sel.Sel.Name {
						v := t.expr(st.Rhs[0])
						if t.wrap != nil {
							var typ string
							v, typ = t.typed(st.Rhs[0], t.types[render(sel)])
							if typ == "" || canon(typ) != canon(t.types[render(sel)]) {
								miss("%s: %s assigned a value of type %s", t.what, render(sel), typ)
							}
						}
						name := t.recv + "_" + f + "'"
						terms := append([]string{}, sv.terms...)
						terms[i] = name
						t.svals[t.recv] = sval{sv.fields, terms}
						t.ren[render(sel)] = name
						return "let " + name + " := " + v + "\n" + ind + after()
					}
				}
			}
		}
	}
	miss("%s: unsupported statement %T", t.what, st)
	return "default"
}

// define binds a local name (untyped mode: the value as it is).
func (t *trCtx) define(name string, rhs ast.Expr) string {
	if t.wrap != nil {
		v, typ := t.typed(rhs, "")
		t.types[name] = typ
		t.ren[name] = name
		return v
	}
	v := t.expr(rhs)
	t.ren[name] = name
	return v
}

// translateFunc emits `def <leanName> <sig> :=\n  <body>`.
func translateFunc(p *pkg, goName, leanName, sig string, ren, calls map[string]string) string {
	return translateFuncX(p, goName, leanName, sig, ren, calls, trOpts{})
}

// translateFuncX: keys of ren and o.svals may name the receiver as `$r` and the parameters as `$1`, `$2`, …
// so that renaming them in the source changes nothing.
func translateFuncX(p *pkg, goName, leanName, sig string, ren, calls map[string]string, o trOpts) string {
	fd := p.funcs[goName]
	if fd == nil || fd.Body == nil {
		miss("%s.%s not found", p.name, goName)
		return fmt.Sprintf("def %s %s := default", leanName, sig)
	}
	pos := map[string]string{"$r": "\x00unnamed receiver"}
	if r := recvName(fd); r != "" {
		pos["$r"] = r
	}
	n := 0
	for _, f := range fd.Type.Params.List {
		for _, nm := range f.Names {
			n++
			pos["$"+strconv.Itoa(n)] = nm.Name
		}
	}
	subst := func(k string) string {
		for i := 9; i >= 1; i-- {
			if v, ok := pos["$"+strconv.Itoa(i)]; ok {
				k = strings.ReplaceAll(k, "$"+strconv.Itoa(i), v)
			}
		}
		return strings.ReplaceAll(k, "$r", pos["$r"])
	}
	t := &trCtx{p: p, ren: map[string]string{}, calls: calls, what: p.name + "." + goName, trOpts: o, nat: map[string]bool{}}
	for _, m := range natParam.FindAllStringSubmatch(sig, -1) {
		for _, v := range strings.Fields(m[1]) {
			t.nat[v] = true
		}
	}
	for k, v := range ren {
		t.ren[subst(k)] = v
	}
	t.svals = map[string]sval{}
	for k, v := range o.svals {
		t.svals[subst(k)] = v
	}
	t.types = map[string]string{}
	for k, v := range o.types {
		t.types[subst(k)] = v
	}
	t.recv = subst(o.recv)
	body := t.block(fd.Body.List, nil, "  ")
	return fmt.Sprintf("def %s %s :=\n  %s", leanName, sig, body)
}
