package main

// A tiny Go → Lean translator for straight-line decision functions: bodies made of
// `if … { return … }` chains, `switch` on a tag with constant cases, and `return` of expressions
// over integers, bytes and booleans. The Lean signature and the mapping of Go identifiers to Lean
// variables are supplied by the caller; only the body is translated. Anything outside the fragment
// is reported as MISSING (the orchestrator then falls back to the pinned facts).

import (
	"fmt"
	"go/ast"
	"go/token"
	"math/big"
	"strconv"
	"strings"
)

type trCtx struct {
	p     *pkg
	ren   map[string]string // Go ident or "x.Field" → Lean term
	calls map[string]string // Go function name → Lean function (applied to translated args)
	what  string
}

func (t *trCtx) expr(e ast.Expr) string {
	switch e := e.(type) {
	case *ast.BasicLit:
		switch e.Kind {
		case token.INT:
			if n, ok := new(big.Int).SetString(e.Value, 0); ok {
				return n.String()
			}
		case token.CHAR:
			if r, _, _, err := strconv.UnquoteChar(e.Value[1:len(e.Value)-1], '\''); err == nil {
				return strconv.Itoa(int(r))
			}
		}
	case *ast.Ident:
		if r, ok := t.ren[e.Name]; ok {
			return r
		}
		switch e.Name {
		case "true", "false":
			return e.Name
		}
		if c, ok := t.p.consts[e.Name]; ok {
			if v, ok := t.p.eval(c, t.p.iotas[e.Name]); ok {
				if n, ok := v.(*big.Int); ok {
					return n.String()
				}
			}
		}
	case *ast.SelectorExpr:
		if x, ok := e.X.(*ast.Ident); ok {
			if r, ok := t.ren[x.Name+"."+e.Sel.Name]; ok {
				return r
			}
		}
	case *ast.ParenExpr:
		return "(" + t.expr(e.X) + ")"
	case *ast.IndexExpr:
		return "(" + t.expr(e.X) + ".getD " + t.expr(e.Index) + " 0)"
	case *ast.UnaryExpr:
		if e.Op == token.NOT {
			return "(!" + t.expr(e.X) + ")"
		}
		if e.Op == token.SUB {
			return "(-" + t.expr(e.X) + ")"
		}
	case *ast.CallExpr:
		if id, ok := e.Fun.(*ast.Ident); ok {
			if f, ok := t.calls[id.Name]; ok {
				args := make([]string, len(e.Args))
				for i, a := range e.Args {
					args[i] = t.expr(a)
				}
				return "(" + f + " " + strings.Join(args, " ") + ")"
			}
			if id.Name == "len" && len(e.Args) == 1 {
				return "(" + t.expr(e.Args[0]) + ").length"
			}
			// numeric conversions are the identity on the unbounded model types
			switch id.Name {
			case "int", "int32", "int64", "uint8", "uint64", "byte", "Month", "uint":
				if len(e.Args) == 1 {
					return t.expr(e.Args[0])
				}
			}
		}
	case *ast.BinaryExpr:
		ops := map[token.Token]string{token.EQL: "==", token.NEQ: "!=", token.LSS: "<", token.GTR: ">", token.LEQ: "<=", token.GEQ: ">=",
			token.LAND: "&&", token.LOR: "||", token.ADD: "+", token.SUB: "-", token.MUL: "*", token.REM: "%", token.QUO: "/",
			token.AND: "&&&", token.OR: "|||", token.SHL: "<<<", token.SHR: ">>>"}
		if op, ok := ops[e.Op]; ok {
			if e.Op == token.EQL || e.Op == token.NEQ {
				// `a % k == 0` / `!= 0`: truncated and Euclidean remainders agree on being zero
				if rem, ok := e.X.(*ast.BinaryExpr); ok && rem.Op == token.REM {
					if lit, ok := e.Y.(*ast.BasicLit); ok && lit.Value == "0" {
						return "((" + t.expr(rem.X) + " % " + t.expr(rem.Y) + ") " + op + " 0)"
					}
				}
			}
			if e.Op == token.REM || e.Op == token.QUO {
				miss("%s: %% and / are only translated inside `x %% k == 0`", t.what)
			}
			x, y := t.expr(e.X), t.expr(e.Y)
			switch e.Op {
			case token.LSS, token.GTR, token.LEQ, token.GEQ:
				return "(decide (" + x + " " + op + " " + y + "))"
			}
			return "(" + x + " " + op + " " + y + ")"
		}
	}
	miss("%s: unsupported expression %T", t.what, e)
	return "default"
}

func (t *trCtx) results(rs []ast.Expr) string {
	parts := make([]string, len(rs))
	for i, r := range rs {
		parts[i] = t.expr(r)
	}
	if len(parts) == 1 {
		return parts[0]
	}
	return "(" + strings.Join(parts, ", ") + ")"
}

// block translates a statement list whose control always ends in a return; `rest` produces what runs when
// the list falls through (nil = must not fall through). It is called lazily, so a `switch` with a
// default clause whose arms all return needs nothing after it.
func (t *trCtx) block(list []ast.Stmt, rest func() string, ind string) string {
	if len(list) == 0 {
		if rest == nil {
			miss("%s: control falls off the end", t.what)
			return "default"
		}
		return rest()
	}
	st, tail := list[0], list[1:]
	var cached *string
	after := func() string {
		if cached == nil {
			v := t.block(tail, rest, ind)
			cached = &v
		}
		return *cached
	}
	switch st := st.(type) {
	case *ast.ReturnStmt:
		return t.results(st.Results)
	case *ast.IfStmt:
		if st.Init != nil {
			miss("%s: if with init statement", t.what)
		}
		thenB := t.block(st.Body.List, after, ind+"  ")
		var elseB string
		switch el := st.Else.(type) {
		case nil:
			elseB = after()
		case *ast.BlockStmt:
			elseB = t.block(el.List, after, ind+"  ")
		case *ast.IfStmt:
			elseB = t.block([]ast.Stmt{el}, after, ind+"  ")
		}
		return "if " + t.expr(st.Cond) + "\n" + ind + "  then " + thenB + "\n" + ind + "  else " + elseB
	case *ast.SwitchStmt:
		if st.Init != nil || st.Tag == nil {
			miss("%s: unsupported switch form", t.what)
			return "default"
		}
		tag := t.expr(st.Tag)
		out := ""
		def := ""
		hasDef := false
		for _, c := range st.Body.List {
			cc := c.(*ast.CaseClause)
			body := t.block(cc.Body, after, ind+"  ")
			if cc.List == nil {
				def, hasDef = body, true
				continue
			}
			var conds []string
			for _, v := range cc.List {
				conds = append(conds, "("+tag+" == "+t.expr(v)+")")
			}
			out += "if " + strings.Join(conds, " || ") + "\n" + ind + "  then " + body + "\n" + ind + "  else "
		}
		if !hasDef {
			def = after()
		}
		return out + def
	case *ast.DeclStmt: // local constants: const name = expr
		if gd, ok := st.Decl.(*ast.GenDecl); ok && gd.Tok == token.CONST {
			for _, sp := range gd.Specs {
				vs := sp.(*ast.ValueSpec)
				for i, nm := range vs.Names {
					if i < len(vs.Values) {
						t.ren[nm.Name] = t.expr(vs.Values[i])
					}
				}
			}
			return after()
		}
	case *ast.AssignStmt:
		if st.Tok == token.DEFINE && len(st.Lhs) == 1 && len(st.Rhs) == 1 {
			if id, ok := st.Lhs[0].(*ast.Ident); ok {
				v := t.expr(st.Rhs[0])
				t.ren[id.Name] = id.Name
				return "let " + id.Name + " := " + v + "\n" + ind + after()
			}
		}
	}
	miss("%s: unsupported statement %T", t.what, st)
	return "default"
}

// translateFunc emits `def <leanName> <sig> :=\n  <body>`.
func translateFunc(p *pkg, goName, leanName, sig string, ren, calls map[string]string) string {
	fd := p.funcs[goName]
	if fd == nil || fd.Body == nil {
		miss("%s.%s not found", p.name, goName)
		return fmt.Sprintf("def %s %s := default", leanName, sig)
	}
	t := &trCtx{p: p, ren: map[string]string{}, calls: calls, what: p.name + "." + goName}
	for k, v := range ren {
		t.ren[k] = v
	}
	body := t.block(fd.Body.List, nil, "  ")
	return fmt.Sprintf("def %s %s :=\n  %s", leanName, sig, body)
}
