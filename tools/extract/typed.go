package main

// Typed mode of the translator (trOpts.wrap != nil): Go's fixed-width integer arithmetic over Lean's `Int`.
// Every integer expression is translated together with its Go type; a result that can leave the type's range is
// wrapped (`wrap_int32`, `wrap_uint8`, … — emitted by wrapDefs). The type of an expression is found syntactically:
// declared types of the parameters/fields given by the caller (trOpts.types), conversions, and untyped constants
// adopting the type of the other operand. Anything else is MISSING.

import (
	"fmt"
	"go/ast"
	"go/token"
	"math/big"
	"sort"
	"strings"
)

type intType struct {
	signed bool
	bits   int
}

var intTypes = map[string]intType{
	"int8": {true, 8}, "int16": {true, 16}, "int32": {true, 32}, "int64": {true, 64}, "int": {true, 64},
	"uint8": {false, 8}, "byte": {false, 8}, "uint16": {false, 16}, "uint32": {false, 32}, "uint64": {false, 64}, "uint": {false, 64},
}

func canon(t string) string {
	switch t {
	case "byte":
		return "uint8"
	case "int":
		return "int64"
	case "uint":
		return "uint64"
	}
	return t
}

// within: every value of type a is a value of type b.
func within(a, b intType) bool {
	if a.signed == b.signed {
		return a.bits <= b.bits
	}
	return !a.signed && a.bits < b.bits
}

// wrapDefs emits the wrapping functions of the fixed-width types.
func wrapDefs(types ...string) string {
	sort.Strings(types)
	var b strings.Builder
	for _, t := range types {
		it := intTypes[t]
		m := new(big.Int).Lsh(big.NewInt(1), uint(it.bits))
		if it.signed {
			h := new(big.Int).Rsh(m, 1)
			fmt.Fprintf(&b, "/-- Go `%s`: two's-complement wrap into [-2^%d, 2^%d) -/\ndef wrap_%s (x : Int) : Int := (x + %s) %% %s - %s\n", t, it.bits-1, it.bits-1, t, h, m, h)
		} else {
			fmt.Fprintf(&b, "/-- Go `%s`: wrap into [0, 2^%d) -/\ndef wrap_%s (x : Int) : Int := x %% %s\n", t, it.bits, t, m)
		}
	}
	return strings.TrimRight(b.String(), "\n")
}

func (t *trCtx) wrapTo(typ, s string) string {
	typ = canon(typ)
	if _, ok := t.wrap[typ]; !ok {
		miss("%s: fixed-width type %s", t.what, typ)
		return s
	}
	return "(" + t.wrap[typ] + " " + s + ")"
}

// constVal evaluates literals and named (untyped) integer constants.
func (t *trCtx) constVal(e ast.Expr) (*big.Int, bool) {
	switch e := unparen(e).(type) {
	case *ast.BasicLit:
		if e.Kind == token.INT || e.Kind == token.CHAR {
			if v, ok := t.p.eval(e, 0); ok {
				n, ok := v.(*big.Int)
				return n, ok
			}
		}
	case *ast.Ident:
		if _, shadowed := t.ren[e.Name]; shadowed {
			return nil, false
		}
		if c, ok := t.p.consts[e.Name]; ok && t.p.ctype[e.Name] == "" {
			if v, ok := t.p.eval(c, t.p.iotas[e.Name]); ok {
				n, ok := v.(*big.Int)
				return n, ok
			}
		}
	}
	return nil, false
}

func leanInt(n *big.Int) string {
	if n.Sign() < 0 {
		return "(" + n.String() + ")"
	}
	return n.String()
}

// typed translates an integer or Boolean expression; want is the type an untyped constant takes ("" = none known).
// It returns the Lean term and the Go type ("bool", "untyped", or a key of intTypes).
func (t *trCtx) typed(e ast.Expr, want string) (string, string) {
	if n, ok := t.constVal(e); ok {
		if want != "" {
			it := intTypes[want]
			lo, hi := big.NewInt(0), new(big.Int).Lsh(big.NewInt(1), uint(it.bits))
			if it.signed {
				hi.Rsh(hi, 1)
				lo.Neg(hi)
			}
			if n.Cmp(lo) < 0 || n.Cmp(hi) >= 0 {
				miss("%s: constant %s overflows %s", t.what, n, want)
			}
			return leanInt(n), want
		}
		return leanInt(n), "untyped"
	}
	switch e := e.(type) {
	case *ast.ParenExpr:
		s, typ := t.typed(e.X, want)
		return "(" + s + ")", typ
	case *ast.Ident:
		if e.Name == "true" || e.Name == "false" {
			return e.Name, "bool"
		}
		if r, ok := t.ren[e.Name]; ok {
			if typ, ok := t.types[e.Name]; ok {
				return r, typ
			}
		}
	case *ast.SelectorExpr:
		key := render(e)
		if typ, ok := t.types[key]; ok {
			if r, ok := t.ren[key]; ok {
				return r, typ
			}
			if sv, ok := t.svals[render(e.X)]; ok {
				if f := sv.pick([]string{e.Sel.Name}, t.what); len(f) == 1 {
					return f[0], typ
				}
			}
		}
	case *ast.IndexExpr: // b[k] of a []byte with a constant index (out of range reads as 0: the guards are part of the tie)
		if t.types[render(e.X)] == "[]byte" {
			if k, ok := t.constVal(e.Index); ok && k.Sign() >= 0 {
				return "(↑(" + t.ren[render(e.X)] + ".getD " + k.String() + " 0) : Int)", "uint8"
			}
		}
	case *ast.UnaryExpr:
		if e.Op == token.NOT {
			s, typ := t.typed(e.X, "")
			if typ == "bool" {
				return "(!" + s + ")", "bool"
			}
		}
		if e.Op == token.SUB {
			s, typ := t.typed(e.X, want)
			if _, ok := intTypes[typ]; ok {
				return t.wrapTo(typ, "(-"+s+")"), typ
			}
		}
	case *ast.CallExpr:
		if id, ok := e.Fun.(*ast.Ident); ok && len(e.Args) == 1 {
			if id.Name == "len" && t.types[render(e.Args[0])] == "[]byte" {
				return "(↑(" + t.ren[render(e.Args[0])] + ").length : Int)", "int"
			}
			if to, ok := intTypes[id.Name]; ok { // conversion
				if n, ok := t.constVal(e.Args[0]); ok {
					return t.typed(&ast.BasicLit{Kind: token.INT, Value: n.String()}, id.Name)
				}
				s, from := t.typed(e.Args[0], "")
				fi, ok := intTypes[from]
				if !ok {
					break
				}
				if within(fi, to) {
					return s, id.Name
				}
				return t.wrapTo(id.Name, s), id.Name
			}
		}
		if id, ok := e.Fun.(*ast.Ident); ok {
			if f, ok := t.calls[id.Name]; ok { // Boolean helper over `int` arguments
				args := make([]string, len(e.Args))
				for i, a := range e.Args {
					s, typ := t.typed(a, "int")
					if canon(typ) != "int64" {
						miss("%s: argument of %s is not an int", t.what, id.Name)
					}
					args[i] = s
				}
				return "(" + f + " " + strings.Join(args, " ") + ")", "bool"
			}
		}
	case *ast.BinaryExpr:
		return t.typedBinary(e, want)
	}
	miss("%s: unsupported typed expression %T", t.what, e)
	return "default", ""
}

func (t *trCtx) typedBinary(e *ast.BinaryExpr, want string) (string, string) {
	switch e.Op {
	case token.LAND, token.LOR:
		x, tx := t.typed(e.X, "")
		y, ty := t.typed(e.Y, "")
		if tx == "bool" && ty == "bool" {
			return "(" + x + map[token.Token]string{token.LAND: " && ", token.LOR: " || "}[e.Op] + y + ")", "bool"
		}
	case token.SHL, token.SHR: // constant shift counts only
		k, ok := t.constVal(e.Y)
		if !ok || k.Sign() < 0 || k.Cmp(big.NewInt(64)) > 0 {
			break
		}
		x, tx := t.typed(e.X, want)
		if _, ok := intTypes[tx]; !ok {
			break
		}
		p := new(big.Int).Lsh(big.NewInt(1), uint(k.Int64())).String()
		if e.Op == token.SHR { // arithmetic shift = floor division (`/` on Int with a positive divisor)
			return "(" + x + " / " + p + ")", tx
		}
		return t.wrapTo(tx, "("+x+" * "+p+")"), tx
	case token.OR: // only of bytes shifted to pairwise disjoint positions, where `|` is `+`
		var ops []ast.Expr
		var flat func(ast.Expr)
		flat = func(x ast.Expr) {
			if b, ok := unparen(x).(*ast.BinaryExpr); ok && b.Op == token.OR {
				flat(b.X)
				flat(b.Y)
				return
			}
			ops = append(ops, x)
		}
		flat(e)
		used := map[int64]bool{}
		var terms []string
		typ := ""
		for _, o := range ops {
			sh := int64(0)
			inner := unparen(o)
			if b, ok := inner.(*ast.BinaryExpr); ok && b.Op == token.SHL {
				k, ok := t.constVal(b.Y)
				if !ok || k.Sign() < 0 || k.Int64()%8 != 0 {
					miss("%s: `|` operand shifted by a non-constant or odd amount", t.what)
					return "default", ""
				}
				sh, inner = k.Int64(), unparen(b.X)
			}
			c, _ := inner.(*ast.CallExpr)
			var id *ast.Ident
			if c != nil {
				id, _ = c.Fun.(*ast.Ident)
			}
			if id == nil || len(c.Args) != 1 {
				miss("%s: `|` operand is not a converted byte", t.what)
				return "default", ""
			}
			it, isInt := intTypes[id.Name]
			_, from := t.typed(c.Args[0], "")
			if !isInt || canon(from) != "uint8" || used[sh] || int(sh)+8 > it.bits || (typ != "" && typ != id.Name) {
				miss("%s: `|` operands must be distinct bytes of one integer type", t.what)
				return "default", ""
			}
			used[sh], typ = true, id.Name
			s, _ := t.typed(o, "")
			terms = append(terms, s)
		}
		return t.wrapTo(typ, "("+strings.Join(terms, " + ")+")"), typ
	case token.ADD, token.SUB, token.MUL:
		x, y, typ, ok := t.operands(e, want)
		if !ok {
			break
		}
		s := "(" + x + " " + e.Op.String() + " " + y + ")"
		if typ == "untyped" {
			miss("%s: constant arithmetic outside a typed context", t.what)
		}
		return t.wrapTo(typ, s), typ
	case token.EQL, token.NEQ, token.LSS, token.GTR, token.LEQ, token.GEQ:
		x, y, typ, ok := t.operands(e, "")
		if !ok {
			break
		}
		if typ == "bool" && (e.Op == token.EQL || e.Op == token.NEQ) {
			return "(" + x + " " + e.Op.String() + " " + y + ")", "bool"
		}
		if _, isInt := intTypes[typ]; !isInt && typ != "untyped" {
			break
		}
		if e.Op == token.EQL || e.Op == token.NEQ {
			return "(" + x + " " + e.Op.String() + " " + y + ")", "bool"
		}
		return "(decide (" + x + " " + e.Op.String() + " " + y + "))", "bool"
	}
	miss("%s: unsupported typed operator %s", t.what, e.Op)
	return "default", ""
}

// operands translates both sides of a binary operator; an untyped constant takes the type of the other side.
func (t *trCtx) operands(e *ast.BinaryExpr, want string) (x, y, typ string, ok bool) {
	_, cx := t.constVal(e.X)
	_, cy := t.constVal(e.Y)
	var tx, ty string
	switch {
	case cx && !cy:
		y, ty = t.typed(e.Y, want)
		x, tx = t.typed(e.X, intKey(ty))
	case cy && !cx:
		x, tx = t.typed(e.X, want)
		y, ty = t.typed(e.Y, intKey(tx))
	default:
		x, tx = t.typed(e.X, want)
		y, ty = t.typed(e.Y, want)
	}
	if tx == "" || ty == "" {
		return x, y, "", false
	}
	if canon(tx) != canon(ty) {
		miss("%s: operands of %s have types %s and %s", t.what, e.Op, tx, ty)
		return x, y, "", false
	}
	return x, y, tx, true
}

func intKey(typ string) string {
	if _, ok := intTypes[typ]; ok {
		return typ
	}
	return ""
}

// byteSlice translates `[]byte{e0, e1, …}` to the list of its (wrapped) elements.
func (t *trCtx) byteSlice(cl *ast.CompositeLit) (string, bool) {
	at, ok := cl.Type.(*ast.ArrayType)
	if !ok || at.Len != nil || !(isIdent(at.Elt, "byte") || isIdent(at.Elt, "uint8")) {
		return "", false
	}
	parts := make([]string, len(cl.Elts))
	for i, el := range cl.Elts {
		if _, keyed := el.(*ast.KeyValueExpr); keyed {
			miss("%s: keyed []byte literal", t.what)
			return "default", true
		}
		s, typ := t.typed(el, "uint8")
		if canon(typ) != "uint8" {
			miss("%s: element %d of the []byte literal has type %s", t.what, i, typ)
		}
		parts[i] = s
	}
	return "[" + strings.Join(parts, ", ") + "]", true
}
