#!/bin/bash
# tools/isolate.sh <dir>          create an isolated copy of the framework (<dir>/verif, with its own Lean build) and a
#                                 scratch worktree of the library (<dir>/repo) for work that must not touch /verif or /repo
# tools/isolate.sh --remove <dir> remove both again
# Use with: VERIF_HOME=<dir>/verif VERIF_REPO=<dir>/repo <dir>/verif/bin/check Cxx   (or tools/mutcheck.sh, tools/regress.sh)
set -e
if [ "$1" = "--remove" ]; then
  git -C /repo worktree remove --force "$2/repo" 2>/dev/null || true
  git -C /repo worktree prune
  rm -rf "$2"
  exit 0
fi
d="$1"; mkdir -p "$d"
cp -a /verif "$d/verif"
rm -rf "$d/verif/work" "$d/verif/bin/.build" "$d/verif/replays"
git -C /repo worktree add --detach "$d/repo" HEAD >/dev/null
sed -i "s#=> /repo#=> $d/repo#" "$d/verif/harness/go.mod"
echo "isolated copy in $d"
