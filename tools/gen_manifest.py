#!/usr/bin/env python3
"""Regenerates /verif/MANIFEST.json from the table below (properties themselves are fixed)."""
import json, os, subprocess
V = os.path.dirname(os.path.dirname(os.path.abspath(__file__)))
props = [json.loads(l) for l in open(os.path.join(V, "properties.jsonl"))]

# id -> (what the theorems carry, what is checked on the implementation only)
CLAIMED = {
 "C01": ("formatter canonical text, parser∘formatter = id up to year 999,999,999 under every limit/rule, MarshalText/String/verbs/UnmarshalText as instances (verb table and flags generated from source)",
         "encoding/json and encoding/xml plumbing (harness only)"),
 "C07": ("trichotomy for all stored values; order = day-number order, exact Sub/DaysBetween with saturation, Add/AddDuration/FromTime land on the day number the calendar dictates, Time round trip — over a calendar model proved to be a monotone bijection (civil∘ordinal = id, ordinal∘civil = id)",
         "that Go's time package implements that calendar (correspondence on grids); float arithmetic in DaysBetween"),
 "C08": ("units_are_powers (generated unit table = the spec's multipliers), newSize_exact / newSize_refused_iff / newSize_never_wraps, New[N] for ints and exact floats (finToNat_exact, accepted/refused), the text grammar as an independent `render` spec with completeness (text_exact), separators_irrelevant, full soundness (text_sound) and text_invalid_iff, Bytes[N] for the ten integer kinds and float representability (roundToBits p s = s ⇔ ∃ m e, m < 2^p ∧ s = m·2^e)",
         "float conversions uint64(f) for f ≥ 2^64/NaN/Inf (amd64 result 2^63, platform fact), reflection on Kind, derived numeric types — exercised by the harness"),
 "C09": ("accepts_iff: acceptance ⇔ grammar ∧ limit ∧ rule ∧ calendar validity; components; error classes",
         "Go regexp (modelled by a hand scanner, validated exhaustively to length 8–9 over the alphabet)"),
 "C11": ("layout, round trip within ±999,999,999 years, strictness (three error cases), decodes only real dates",
         "—"),
 "C02": ("tables_are_forms (generated digit tables and long-form overrides are the specification's forms for every flag set), format_canonical, parse_format and valid for every n < 2^64, every flag value, every limit/rule, round trip along every fmt verb (verb table generated)",
         "MarshalText/String delegation through the global Formatter variable (one-line methods, exercised by the harness)"),
 "C03": ("the published BNF as an independent predicate; shape_iff / accepts_iff (acceptance ⇔ non-empty ∧ limit ∧ prefix rule ∧ BNF ∧ numbers < 2^64), unique decomposition, fields, reproduce (format ∘ parse = id byte for byte), overflow_typed, invalid_iff, error classes, never_panic, entry points and their generated constants, valid_iff_roundtrip under the (forced, explicit) length hypothesis",
         "Go regexp (modelled by the scanner; exhaustive to length 6/8 over the alphabet in the harness); the zero result next to an error (asserted by the harness on every parse op)"),
 "C04": ("text_roundtrip, json_roundtrip (object, string and number forms through the modelled encoding/json tokenizer), string_roundtrip, pretty_roundtrip for every s < 2^64 and all 8 switch settings under the generated default rules/limits (and any limit the output fits, any MaxObjectKeys that is 0 or ≥ 2); marshal_length_le (every output ≤ 43 bytes ≤ default limit)",
         "nesting in encoding/json containers (struct fields, slices, maps) — real encoding/json, harness only; the tokenizer model itself is validated by correspondence on the json.tokens lines of C12's check (also run by C18's)"),
 "C05": ("layout (length 36/45, hyphens, every digit position holds the lower-case hex digit of the big-endian nibble), roundtrip incl. upper-case digits and every casing of `urn`, accepts_iff (the exact acceptance set), strict (accepted ⇒ normalised text = canonical text), the error theorems (too_long, bad_length, urn_disabled, bad_prefix, bad_hyphen, bad_digit with the offending byte, error_classes), never_panic, version_field / variant_field as nibbles 12 and 16 of the text; starts_shape and the other generated constants — all kernel-only (no bv_decide)",
         "fmt's %0Nx (modelled by padHex, validated by correspondence); the zero ID next to an error (asserted by every uu.parse op)"),
 "C06": ("compare_is_spec: the comparator equals an independent statement of SemVer §11 on all versions outside the excluded region (validity not needed); the excluded region is exactly the property's; the specification's example chain in both spec and model; entry points = parse then compare",
         "Go regexp used by Valid/isNumeric (modelled by predicates, validated by correspondence)"),
 "C10": ("accepts_iff: acceptance ⇔ limit ∧ (empty ∧ rule) ∨ upper-cased text = M^k ++ three group forms, value = sum mod 2^64 (no mod needed below 2^54 bytes); case_invariant; valid_iff_parse; error classes; no panic",
         "Go regexp incl. (?i) Unicode folding (modelled by a hand scanner; 256-value foreign-byte and look-alike rune sweeps in the harness)"),
 "C12": ("tokenizer state lemmas (string key guaranteed, stack discipline, skip of unknown values of any nesting restores the state), no_panic, gating of the three forms, number/string forms = text rules, single_value (the whole input is consumed; trailing data rejected), the abstract object semantics evalMembers with accepts_iff_denotes, order_independent (+ rejection preserved), defects, too_many_members (0 = no maximum), unknown members inserted/deleted without effect, and the refinement object_loop_refinement / object_refinement: the token-level loop on rendered JSON (nested arrays/objects included) equals evalMembers",
         "the encoding/json decoder itself (transliterated model, validated by this check's json.tokens lines: every distinct generated document, about 42k token streams in the quick tier and more in the thorough tier, incl. invalid UTF-8, surrogates, truncations); well-formedness against an independent JSON grammar (oracle: json.Valid + generic decoding on the implementation); the refinement covers compact rendering with plain ASCII keys/strings and integer literals"),
 "C13": ("shorten_exact_maximal (value·1024^k = size, unit is the k-th binary unit, no larger unit divides, zero ↦ 0 B; mask/shift/unit list generated), plain and pretty renderings characterised digit by digit (a separator after exactly the digits with a multiple of three digits to their right, one before the unit, nothing else)",
         "—"),
 "C14": ("range, reflexivity, antisymmetry, build-irrelevance, equal-core-pre ⇒ 0, latest_choice for ALL versions (arbitrary field bytes), string helpers = parse-then-compare with the documented error precedence, Next* plain release strictly above, panic ⇔ 2^64−1",
         "transitivity is not claimed by the property (and fails inside C06's excluded region: a01 < a0x < a1, a01 = a1)"),
 "C16": ("append law for the five DefaultFormatter models for every value, flag and prefix (the roman model lower-cases only the appended numeral); URN = prefix ++ plain = URN-flag rendering",
         "in-place modification of the caller's backing array and spare capacity 0..64 (memory-level; harness compares the caller's array after every call)"),
 "C17": ("failed_step_keeps_state for every receiver type / call kind / input, failed_call_is_invisible in any history, final state = last successful call, independence from the old value; Date.UnmarshalBinary modelled statement by statement (checks precede the three assignments)",
         "input buffers neither modified nor retained (guard bytes, scribble); string/[]byte/named-type instantiations agree in value and message (asserted inside every parse op)"),
 "C18": ("no panic reachable in the date, sem, roman parsers and Date.UnmarshalBinary (each unguarded index modelled as a partial look-up); input-too-long ⇔ limit ≠ 0 ∧ length > limit for all five packages (so checked first, never within the limit, off at 0); termination by Lean's termination checker on the model",
         "uu and size no-panic are covered by their own properties' theorems where proved (C05, C12) and by the panic-capturing harness; message does not echo the input, allocation and time bounds, native fuzzing (thorough) — implementation only"),
 "C19": ("version4 for all draws, variant1 for 63-bit draws (as rand.Int63 yields; variant_needs_63bit shows the hypothesis is needed), free_bits_onto with explicit witnesses (all 122 remaining bits independent), fixed_bits, free_bit_flips — over the generated BitVec expressions of RandomID; protocol: mutual_exclusion, calls_get_consecutive_pairs, completed_calls_disjoint for every schedule of any number of threads (invariant proof over a small-step model), generator_only_under_mutex (generated structure fact), and the counter-model without the mutex",
         "the bit lemmas are kernel-only (bit extensionality, no bv_decide); data-race freedom in the Go memory model, sync.Mutex itself, and 'no duplicate within a run' (a property of math/rand's stream) are checked on the implementation only: the concurrent oracles run a second time under Go's race detector (go build -race), and concurrent draws through the verif hook must consume 2N positions as N consecutive pairs"),
 "C20": ("decision logic of the six helpers over scripted behaviours: per-case reported ⇔ ¬satisfied outside the K1 shape, list-level iff (reports_iff_partial), other direction ignored, custom_helper_asked (argument order and use of New pinned), marshal_ignores_helper, hooks that edit the case they are handed (reportsX_iff_partial, caseX_reported_iff, hook_constraint_ignored, runX_no_edits), FailNow ⇔ type lacks interface ∧ cases ≠ [], a verdict per case; the full statement is proved FALSE (errorMatch_silent / full_statement_is_false) — that is known finding K1",
         "testify/assert behaviour and reflection (castToFunc, helperNew) — modelled, validated by correspondence on generated scripted types; a custom TypeHelper is modelled as a scripted family (HelperBeh: New's start value, emptiness and asymmetric equality verdicts), theorems quantify over it"),
 "C15": ("construction error ⇔ both bounds ∧ from after to; membership ⇔ inclusive day-number interval for the five filter shapes",
         "caller-variable mutation after construction (copy semantics; harness mutates the variables on every filter op)"),
}
hook_commit = subprocess.run(["git", "-C", "/repo", "log", "--format=%h", "-1", "--", "uu/verif_hooks.go"], capture_output=True, text=True).stdout.strip() or "cc88377"
checks = []
for p in props:
    if p["id"] not in CLAIMED:
        continue
    carried, impl_only = CLAIMED[p["id"]]
    checks.append({
        "property_id": p["id"],
        "quick_cmd": f"bin/check {p['id']} --tier quick",
        "thorough_cmd": f"bin/check {p['id']} --tier thorough",
        "evidence_file": f"/verif/evidence/{p['id']}.json",
        "replay_cmd_template": f"bin/check {p['id']} --replay {{path}}",
        "engine": "lean4-model+correspondence",
        "level_claimed": {
            "category": "proof",
            "text": "Lean 4 theorems (lean/UtilModel/Props/%s.lean) about an executable model of the code, quantified over all inputs: %s. "
                    "The model is tied to /repo on every run by facts regenerated from the Go AST (tools/extract → Gen/Facts.lean) and by a differential "
                    "correspondence run of the compiled model against the real code; direct Go oracles search the implementation for a failing input." % (p["id"], carried),
            "design_ref": "DESIGN.md §4 " + p["id"]},
        "level_note": "Trusted: Lean 4.33 kernel; axioms propext, Classical.choice, Quot.sound (audited per theorem each run); tools/extract; the correspondence harness and its generators. "
                      "Go standard-library behaviour is modelled and validated by correspondence only. Implementation-side only: " + impl_only,
        "technique": "Lean 4 machine-checked proof over a model tied to the source by regenerated facts + differential correspondence",
    })
m = {
    "version": 1,
    "setup_cmd": "bin/setup",
    "hooks": {"guard": "verif", "enable": "go build -tags verif — used for C19's hooked oracles only (uu.VerifSetRandomSource); every other check, and a second run of C19, builds the harness WITHOUT the tag, i.e. against the library as it ships (harness module replaces go.lstv.dev/util => /repo)",
              "baseline_off_cmd": "cd /repo && go test -vet=off -count=1 ./...", "source_commits": [hook_commit], "add_only": True},
    "engines": [{"name": "lean4-model+correspondence", "path": "/verif/lean", "serves_properties": sorted(CLAIMED),
                 "kind_free_text": "Lean 4 model + theorems (lake), fact extractor (Go, go/parser), Go harness (correspondence + direct oracles), Python orchestrator bin/check"}],
    "checks": checks,
    "notes": "See DESIGN.md. All twenty properties are claimed (not_applicable is empty). The eight fix commits F1–F8 in /repo are recorded in known_findings.json as ten entries of kind fixed (they suppress nothing); K1 and K2 (both C20) are the known findings. EXTRA (DESIGN.md §9.5) is not a property and is deliberately not registered here.",
    "not_applicable": [{"property_id": p["id"], "reason": "check not built yet in this revision (planned at proof level, DESIGN.md §4)"} for p in props if p["id"] not in CLAIMED],
}
json.dump(m, open(os.path.join(V, "MANIFEST.json"), "w"), indent=1)
print("claimed:", sorted(CLAIMED))
