//go:build !extra

package main

// The EXTRA operations (props_extra.go, DESIGN.md §9.5) are not part of the harness that decides C01..C20.
func execExtra(c *Ctx, line string, f []string) string { return "bad-op" }
