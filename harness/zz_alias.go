package main

import (
	"fmt"
	"time"

	"go.lstv.dev/util/date"
	"go.lstv.dev/util/roman"
	"go.lstv.dev/util/sem"
	"go.lstv.dev/util/size"
	"go.lstv.dev/util/uu"
)

// Results of marshal/format calls must stay what they were when later calls are made: a library that
// renders into a shared package-level buffer passes every call-then-check-at-once test and still breaks
// any caller that keeps two results. aliasRun makes every call, keeps the returned slices together with
// an immediate copy, makes all the calls again in reverse order, and only then compares.
type aliasCall struct {
	name string
	f    func() []byte
}

func aliasRun(c *Ctx, key string, calls []aliasCall) {
	type kept struct {
		live []byte
		copy string
	}
	var ks []kept
	for _, cl := range calls {
		b := cl.f()
		ks = append(ks, kept{b, string(b)})
	}
	for i := len(calls) - 1; i >= 0; i-- {
		b := calls[i].f()
		ks = append(ks, kept{b, string(b)})
	}
	for i, k := range ks {
		c.Check("")
		if string(k.live) != k.copy {
			j := i
			if j >= len(calls) {
				j = 2*len(calls) - 1 - i
			}
			c.Fail(key, "", "%s: the returned bytes changed from %q to %q after later calls", calls[j].name, k.copy, string(k.live))
			return
		}
	}
	c.NT(int64(len(calls)))
}

func init() {
	wrap := func(id string, extra func(c *Ctx)) {
		old := props[id]
		props[id] = func(c *Ctx) {
			old(c)
			extra(c)
		}
	}
	sizes := []size.Size{0, 1, 5 * 1024, 7 * 1024, 1023, 1 << 20, 1<<64 - 1, 1<<63 + 1, 1000, 123456789, 3 << 40}
	wrap("C04", func(c *Ctx) {
		var calls []aliasCall
		for cfg := 0; cfg < 8; cfg++ {
			cfg := cfg
			for _, s := range sizes {
				s := s
				set := func() func() {
					o1, o2, o3 := size.DisableMarshalTextUnit, size.DisableMarshalJSONStringForm, size.DisableMarshalJSONObjectForm
					size.DisableMarshalTextUnit, size.DisableMarshalJSONStringForm, size.DisableMarshalJSONObjectForm = cfg&1 != 0, cfg&2 != 0, cfg&4 != 0
					return func() {
						size.DisableMarshalTextUnit, size.DisableMarshalJSONStringForm, size.DisableMarshalJSONObjectForm = o1, o2, o3
					}
				}
				calls = append(calls,
					aliasCall{fmt.Sprintf("Size(%d).MarshalJSON cfg %d", uint64(s), cfg), func() []byte { defer set()(); b, _ := s.MarshalJSON(); return b }},
					aliasCall{fmt.Sprintf("Size(%d).MarshalText cfg %d", uint64(s), cfg), func() []byte { defer set()(); b, _ := s.MarshalText(); return b }})
			}
		}
		for _, s := range sizes {
			s := s
			for _, fl := range []size.Format{0, size.FormatPretty, size.FormatPretty | size.FormatHTML} {
				fl := fl
				calls = append(calls, aliasCall{fmt.Sprintf("size.DefaultFormatter(nil, %d, %d)", uint64(s), int(fl)), func() []byte { b, _ := size.DefaultFormatter(nil, s, fl); return b }})
			}
		}
		aliasRun(c, "C04.alias", calls)
		// and the property itself on retained results: marshal everything first, unmarshal afterwards
		var outs [][]byte
		for _, s := range sizes {
			b, _ := s.MarshalJSON()
			outs = append(outs, b)
		}
		for i, s := range sizes {
			var back size.Size
			c.Check("")
			if err := back.UnmarshalJSON(outs[i]); err != nil || back != s {
				c.Fail("C04.retained", "", "MarshalJSON result of %d kept across later calls reads back as %d (%v): %q", uint64(s), uint64(back), err, outs[i])
				break
			}
		}
	})
	wrap("C01", func(c *Ctx) {
		var calls []aliasCall
		for _, d := range []date.Date{date.New(2024, 2, 29), date.New(1, 1, 1), date.New(9999, 12, 31), date.New(0, 6, 15), date.New(123456, 7, 8)} {
			d := d
			calls = append(calls, aliasCall{"Date.MarshalText " + d.String(), func() []byte { b, _ := d.MarshalText(); return b }},
				aliasCall{"date.DefaultFormatter(nil) " + d.String(), func() []byte { b, _ := date.DefaultFormatter(nil, d, date.FormatBasic); return b }})
		}
		aliasRun(c, "C01.alias", calls)
	})
	wrap("C11", func(c *Ctx) {
		var calls []aliasCall
		for _, d := range []date.Date{date.New(2024, 2, 29), date.New(1, 1, 1), date.New(-999999999, 12, 31), date.New(999999999, 1, 1)} {
			d := d
			calls = append(calls, aliasCall{"Date.MarshalBinary " + d.String(), func() []byte { b, _ := d.MarshalBinary(); return b }})
		}
		aliasRun(c, "C11.alias", calls)
	})
	wrap("C02", func(c *Ctx) {
		var calls []aliasCall
		for _, n := range []roman.Number{1, 4, 1994, 3999, 4949, 0, 88} {
			n := n
			for _, fl := range []roman.Format{0, roman.FormatLong, roman.FormatLowerCase} {
				fl := fl
				calls = append(calls, aliasCall{fmt.Sprintf("roman.DefaultFormatter(nil, %d, %d)", uint64(n), int(fl)), func() []byte { b, _ := roman.DefaultFormatter(nil, n, fl); return b }})
			}
			calls = append(calls, aliasCall{fmt.Sprintf("Number(%d).MarshalText", uint64(n)), func() []byte { b, _ := n.MarshalText(); return b }})
		}
		aliasRun(c, "C02.alias", calls)
	})
	wrap("C03", func(c *Ctx) {
		var calls []aliasCall
		for _, v := range []sem.Ver{sem.New(1, 2, 3), sem.New(0, 0, 0, "alpha.1"), sem.New(1<<64-1, 0, 9, "rc-1", "b.77"), sem.New(10, 20, 30, "", "x")} {
			v := v
			calls = append(calls, aliasCall{"Ver.MarshalText " + v.String(), func() []byte { b, _ := v.MarshalText(); return b }},
				aliasCall{"sem.DefaultFormatter(nil) " + v.String(), func() []byte { b, _ := sem.DefaultFormatter(nil, v, sem.FormatTag); return b }})
		}
		aliasRun(c, "C03.alias", calls)
	})
	wrap("C05", func(c *Ctx) {
		var calls []aliasCall
		for _, id := range []uu.ID{{}, {Higher: 1<<64 - 1, Lower: 1<<64 - 1}, {Higher: 0x0123456789abcdef, Lower: 0xfedcba9876543210}} {
			id := id
			calls = append(calls, aliasCall{"ID.MarshalText " + id.String(), func() []byte { b, _ := id.MarshalText(); return b }},
				aliasCall{"uu.DefaultFormatter(nil, URN) " + id.String(), func() []byte { b, _ := uu.DefaultFormatter(nil, id, uu.FormatURN); return b }})
		}
		aliasRun(c, "C05.alias", calls)
	})
	// secondary text paths (String, StringTag, Pretty*, BytesString, fmt verbs, MarshalText) through the model
	wrap("C03", func(c *Ctx) {
		for i := 0; i < 3000; i++ {
			pre := []string{"", "alpha", "alpha.1", "rc-1.0", "0", "x-y.z"}[c.R.Intn(6)]
			build := []string{"", "b", "exp.sha.5114f85", "001"}[c.R.Intn(4)]
			n := func() uint64 {
				switch c.R.Intn(4) {
				case 0:
					return 0
				case 1:
					return 1<<64 - 1
				case 2:
					return uint64(c.R.Intn(1000))
				}
				return c.R.Next()
			}
			c.Op(fmt.Sprintf("sem.paths %d %d %d %s %s", n(), n(), n(), hx([]byte(pre)), hx([]byte(build))))
		}
	})
	wrap("C13", func(c *Ctx) {
		for i := 0; i < 4000; i++ {
			var n uint64
			switch c.R.Intn(5) {
			case 0:
				n = uint64(c.R.Intn(5000))
			case 1:
				n = (1 + 2*uint64(c.R.Intn(600))) << uint(c.R.Intn(64))
			case 2:
				n = 1<<64 - 1 - uint64(c.R.Intn(3))
			case 3:
				n = 1000 << uint(10*c.R.Intn(6))
			default:
				n = c.R.Next()
			}
			c.Op(fmt.Sprintf("size.paths %d", n))
		}
	})
	wrap("C05", func(c *Ctx) {
		for i := 0; i < 3000; i++ {
			hi, lo := c.R.Next(), c.R.Next()
			if i%50 == 0 {
				hi, lo = 0, 0
			}
			if i%50 == 1 {
				hi, lo = 1<<64-1, 1<<64-1
			}
			c.Op(fmt.Sprintf("uu.paths %d %d", hi, lo))
		}
	})
	_ = time.January
}
