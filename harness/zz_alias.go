package main

import (
	"encoding/json"
	"fmt"
	"strconv"
	"strings"
	"sync"
	"time"

	"go.lstv.dev/util/date"
	"go.lstv.dev/util/roman"
	"go.lstv.dev/util/sem"
	"go.lstv.dev/util/size"
	"go.lstv.dev/util/uu"
)

// Results of marshal/format calls must stay what they were when later calls are made: a library that
// renders into a shared package-level buffer passes every call-then-check-at-once test and still breaks
// any caller that keeps two results. aliasRun makes every call, keeps the returned slices together with
// an immediate copy, makes all the calls again in reverse order, and only then compares.
type aliasCall struct {
	name string
	f    func() []byte
}

func aliasRun(c *Ctx, key string, calls []aliasCall) {
	type kept struct {
		live []byte
		copy string
	}
	var ks []kept
	for _, cl := range calls {
		b := cl.f()
		ks = append(ks, kept{b, string(b)})
	}
	for i := len(calls) - 1; i >= 0; i-- {
		b := calls[i].f()
		ks = append(ks, kept{b, string(b)})
	}
	for i, k := range ks {
		c.Check("")
		if string(k.live) != k.copy {
			j := i
			if j >= len(calls) {
				j = 2*len(calls) - 1 - i
			}
			c.Fail(key, "", "%s: the returned bytes changed from %q to %q after later calls", calls[j].name, k.copy, string(k.live))
			return
		}
	}
	// The returned slices are the caller's: it may overwrite them in place and append within their capacity. Every result kept so far
	// is scribbled over (its whole capacity), then every call is made again: the new results must be what the first ones were. A
	// library that hands out its own copy (a per-value cache, a table of pre-rendered texts) passes everything above and fails here.
	for _, k := range ks {
		b := k.live[:cap(k.live)]
		for i := range b {
			b[i] ^= 0xff
		}
	}
	for round := 0; round < 2; round++ {
		for i, cl := range calls {
			b := cl.f()
			c.Check("")
			if string(b) != ks[i].copy {
				c.Fail(key, "", "%s: after the caller overwrote the slices returned by earlier calls, the call returns %q instead of %q", cl.name, string(b), ks[i].copy)
				return
			}
			for j := range b { // and scribble again: the second round sees what the first one left behind
				b[j] = '#'
			}
		}
	}
	c.NT(int64(len(calls)))
}

// Concurrent use. Every other oracle of the value types runs on one goroutine, so state that lives in a package
// variable only *during* a call (a scratch buffer that is copied out before returning) is invisible to them and to
// aliasRun. concRun makes the same judged calls from 8 goroutines at once, each goroutine on its own values, and
// compares every result with the expectation computed beforehand (independently of the library). What is judged is
// deterministic (results only); a job whose sequential result already differs is left to the sequential oracles.
func errSuffix(err error) string {
	if err != nil {
		return " " + err.Error()
	}
	return ""
}

type concJob struct {
	name, want string
	f          func() string
}

const concGoroutines = 8

func concRun(c *Ctx, key string, jobs []concJob, rounds int) {
	var ok []concJob
	for _, j := range jobs {
		c.Check("")
		if got := concCall(j); got == j.want {
			ok = append(ok, j)
		}
	}
	if len(ok) != len(jobs) {
		c.Note("%s: %d of %d jobs already differ sequentially (left to the sequential oracles)", key, len(jobs)-len(ok), len(jobs))
	}
	if len(ok) < concGoroutines {
		return
	}
	type bad struct{ name, got, want string }
	var mu sync.Mutex
	var bads []bad
	nbad := 0
	var wg sync.WaitGroup
	for g := 0; g < concGoroutines; g++ {
		wg.Add(1)
		go func(g int) {
			defer wg.Done()
			for r := 0; r < rounds; r++ {
				for i := g; i < len(ok); i += concGoroutines {
					if got := concCall(ok[i]); got != ok[i].want {
						mu.Lock()
						nbad++
						n := nbad
						if len(bads) < 3 {
							bads = append(bads, bad{ok[i].name, got, ok[i].want})
						}
						mu.Unlock()
						if n > 100 {
							return
						}
					}
				}
			}
		}(g)
	}
	wg.Wait()
	for _, b := range bads {
		c.Fail(key, "", "%s gave %q while %d goroutines were working on other values (sequentially and expected: %q); %d wrong results in all", b.name, b.got, concGoroutines, b.want, nbad)
	}
	c.NT(int64(len(ok)))
}

func concCall(j concJob) (out string) {
	defer func() {
		if r := recover(); r != nil {
			out = fmt.Sprintf("panic: %v", r)
		}
	}()
	return j.f()
}

// concSizes: sizes of every digit count and unit, different for every goroutine slot.
func concSizes() []uint64 {
	out := []uint64{0, 1, 1000, 1023, 1024, 1234567, 98765 << 10, 1<<64 - 1, 7 << 40, 55555 << 20, 3, 1 << 60, 15 << 60, 999999999999, 123456789 << 30, 1<<63 + 1}
	for k := uint(0); k < 64; k += 3 {
		out = append(out, (uint64(2*k+1)*0x9E3779B97F4A7C15)>>k|1, uint64(1)<<k, (uint64(1)<<k)*999)
	}
	return out
}

func init() {
	wrap := func(id string, extra func(c *Ctx)) {
		old := props[id]
		props[id] = func(c *Ctx) {
			old(c)
			extra(c)
		}
	}
	sizes := []size.Size{0, 1, 5 * 1024, 7 * 1024, 1023, 1 << 20, 1<<64 - 1, 1<<63 + 1, 1000, 123456789, 3 << 40}
	wrap("C04", func(c *Ctx) {
		var calls []aliasCall
		for cfg := 0; cfg < 8; cfg++ {
			cfg := cfg
			for _, s := range sizes {
				s := s
				set := func() func() {
					o1, o2, o3 := size.DisableMarshalTextUnit, size.DisableMarshalJSONStringForm, size.DisableMarshalJSONObjectForm
					size.DisableMarshalTextUnit, size.DisableMarshalJSONStringForm, size.DisableMarshalJSONObjectForm = cfg&1 != 0, cfg&2 != 0, cfg&4 != 0
					return func() {
						size.DisableMarshalTextUnit, size.DisableMarshalJSONStringForm, size.DisableMarshalJSONObjectForm = o1, o2, o3
					}
				}
				calls = append(calls,
					aliasCall{fmt.Sprintf("Size(%d).MarshalJSON cfg %d", uint64(s), cfg), func() []byte { defer set()(); b, _ := s.MarshalJSON(); return b }},
					aliasCall{fmt.Sprintf("Size(%d).MarshalText cfg %d", uint64(s), cfg), func() []byte { defer set()(); b, _ := s.MarshalText(); return b }})
			}
		}
		for _, s := range sizes {
			s := s
			for _, fl := range []size.Format{0, size.FormatPretty, size.FormatPretty | size.FormatHTML} {
				fl := fl
				calls = append(calls, aliasCall{fmt.Sprintf("size.DefaultFormatter(nil, %d, %d)", uint64(s), int(fl)), func() []byte { b, _ := size.DefaultFormatter(nil, s, fl); return b }})
			}
		}
		aliasRun(c, "C04.alias", calls)
		// and the property itself on retained results: marshal everything first, unmarshal afterwards
		var outs [][]byte
		for _, s := range sizes {
			b, _ := s.MarshalJSON()
			outs = append(outs, b)
		}
		for i, s := range sizes {
			var back size.Size
			c.Check("")
			if err := back.UnmarshalJSON(outs[i]); err != nil || back != s {
				c.Fail("C04.retained", "", "MarshalJSON result of %d kept across later calls reads back as %d (%v): %q", uint64(s), uint64(back), err, outs[i])
				break
			}
		}
	})
	wrap("C01", func(c *Ctx) {
		var calls []aliasCall
		ds := []date.Date{date.New(2024, 2, 29), date.New(1, 1, 1), date.New(9999, 12, 31), date.New(0, 6, 15), date.New(123456, 7, 8)}
		// five dates are a sample a table of pre-rendered texts (the current century, the first of each month …) walks past:
		// the first and the last day of every month of one year, and 150 random dates of the years 1900 to 2100 and beyond
		for m := 1; m <= 12; m++ {
			ds = append(ds, date.New(1970+c.R.Intn(100), time.Month(m), 1), date.New(1970+c.R.Intn(100), time.Month(m), 28))
		}
		for i := 0; i < 150; i++ {
			y := 1900 + c.R.Intn(201)
			if i%5 == 0 {
				y = c.R.Intn(20000) - 5000
			}
			ds = append(ds, date.New(y, time.Month(1+c.R.Intn(12)), 1+c.R.Intn(28)))
		}
		for _, d := range ds {
			d := d
			calls = append(calls, aliasCall{"Date.MarshalText " + d.String(), func() []byte { b, _ := d.MarshalText(); return b }},
				aliasCall{"date.DefaultFormatter(nil) " + d.String(), func() []byte { b, _ := date.DefaultFormatter(nil, d, date.FormatBasic); return b }},
				aliasCall{"date.DefaultFormatter(nil, extended) " + d.String(), func() []byte { b, _ := date.DefaultFormatter(nil, d, 0); return b }},
				aliasCall{"date.DefaultFormatter(empty, extended) " + d.String(), func() []byte { b, _ := date.DefaultFormatter([]byte{}, d, 0); return b }},
				aliasCall{"Date.String " + d.String(), func() []byte { return []byte(d.String()) }},
				aliasCall{"json.Marshal(Date) " + d.String(), func() []byte { b, _ := json.Marshal(d); return b }},
				aliasCall{"Sprintf(%v %b, Date) " + d.String(), func() []byte { return []byte(fmt.Sprintf("%v %b", d, d)) }})
		}
		aliasRun(c, "C01.alias", calls)
	})
	wrap("C11", func(c *Ctx) {
		var calls []aliasCall
		for _, d := range []date.Date{date.New(2024, 2, 29), date.New(1, 1, 1), date.New(-999999999, 12, 31), date.New(999999999, 1, 1)} {
			d := d
			calls = append(calls, aliasCall{"Date.MarshalBinary " + d.String(), func() []byte { b, _ := d.MarshalBinary(); return b }},
				aliasCall{"Date.MarshalBinary (pointer) " + d.String(), func() []byte { b, _ := (&d).MarshalBinary(); return b }})
		}
		aliasRun(c, "C11.alias", calls)
	})
	wrap("C02", func(c *Ctx) {
		var calls []aliasCall
		for _, n := range []roman.Number{1, 4, 1994, 3999, 4949, 0, 88} {
			n := n
			for _, fl := range []roman.Format{0, roman.FormatLong, roman.FormatLowerCase} {
				fl := fl
				calls = append(calls, aliasCall{fmt.Sprintf("roman.DefaultFormatter(nil, %d, %d)", uint64(n), int(fl)), func() []byte { b, _ := roman.DefaultFormatter(nil, n, fl); return b }})
			}
			calls = append(calls, aliasCall{fmt.Sprintf("Number(%d).MarshalText", uint64(n)), func() []byte { b, _ := n.MarshalText(); return b }},
				aliasCall{fmt.Sprintf("Number(%d).String", uint64(n)), func() []byte { return []byte(n.String()) }},
				aliasCall{fmt.Sprintf("json.Marshal(Number(%d))", uint64(n)), func() []byte { b, _ := json.Marshal(n); return b }})
		}
		// seven numbers are a sample a table of pre-rendered numerals (for a range of numbers) walks past: every number up to
		// 1100 and 200 random ones up to 130,000 through MarshalText and the formatter, under the shipped DefaultFormat and
		// once more under another one (the closures read it when they are called)
		more := func(n roman.Number) {
			calls = append(calls, aliasCall{fmt.Sprintf("Number(%d).MarshalText", uint64(n)), func() []byte { b, _ := n.MarshalText(); return b }},
				aliasCall{fmt.Sprintf("roman.DefaultFormatter(nil, %d, DefaultFormat)", uint64(n)), func() []byte { b, _ := roman.DefaultFormatter(nil, n, roman.DefaultFormat); return b }})
		}
		for n := roman.Number(0); n <= 1100; n++ {
			more(n)
		}
		for i := 0; i < 200; i++ {
			more(roman.Number(c.R.Intn(130001)))
		}
		aliasRun(c, "C02.alias", calls)
		func() {
			defer ruSetDefaultFormat(roman.Format(1 + c.R.Intn(127)))()
			aliasRun(c, "C02.alias", calls)
		}()
	})
	wrap("C03", func(c *Ctx) {
		var calls []aliasCall
		for _, v := range []sem.Ver{sem.New(1, 2, 3), sem.New(0, 0, 0, "alpha.1"), sem.New(1<<64-1, 0, 9, "rc-1", "b.77"), sem.New(10, 20, 30, "", "x")} {
			v := v
			calls = append(calls, aliasCall{"Ver.MarshalText " + v.String(), func() []byte { b, _ := v.MarshalText(); return b }},
				aliasCall{"sem.DefaultFormatter(nil) " + v.String(), func() []byte { b, _ := sem.DefaultFormatter(nil, v, sem.FormatTag); return b }},
				aliasCall{"sem.DefaultFormatter(nil, 0) " + v.String(), func() []byte { b, _ := sem.DefaultFormatter(nil, v, 0); return b }},
				aliasCall{"Ver.String " + v.String(), func() []byte { return []byte(v.String()) }},
				aliasCall{"json.Marshal(Ver) " + v.String(), func() []byte { b, _ := json.Marshal(v); return b }})
		}
		aliasRun(c, "C03.alias", calls)
	})
	wrap("C05", func(c *Ctx) {
		var calls []aliasCall
		ids := []uu.ID{{}, {Higher: 1<<64 - 1, Lower: 1<<64 - 1}, {Higher: 0x0123456789abcdef, Lower: 0xfedcba9876543210}}
		// and IDs a cache or a table could be keyed on: small ones, version-4 ones, 100 random ones
		for i := 0; i < 100; i++ {
			id := uu.ID{Higher: c.R.Next(), Lower: c.R.Next()}
			switch i % 4 {
			case 1:
				id = uu.ID{Lower: uint64(c.R.Intn(300))}
			case 2:
				id.Higher = id.Higher&^0xf000 | 0x4000
				id.Lower = id.Lower&^(3<<62) | 1<<63
			}
			ids = append(ids, id)
		}
		for _, id := range ids {
			id := id
			calls = append(calls, aliasCall{"ID.MarshalText " + id.String(), func() []byte { b, _ := id.MarshalText(); return b }},
				aliasCall{"uu.DefaultFormatter(nil, URN) " + id.String(), func() []byte { b, _ := uu.DefaultFormatter(nil, id, uu.FormatURN); return b }},
				aliasCall{"uu.DefaultFormatter(nil, 0) " + id.String(), func() []byte { b, _ := uu.DefaultFormatter(nil, id, 0); return b }},
				aliasCall{"ID.String " + id.String(), func() []byte { return []byte(id.String()) }},
				aliasCall{"json.Marshal(ID) " + id.String(), func() []byte { b, _ := json.Marshal(id); return b }})
		}
		aliasRun(c, "C05.alias", calls)
	})
	// secondary text paths (String, StringTag, Pretty*, BytesString, fmt verbs, MarshalText) through the model
	wrap("C03", func(c *Ctx) {
		for i := 0; i < 3000; i++ {
			pre := []string{"", "alpha", "alpha.1", "rc-1.0", "0", "x-y.z"}[c.R.Intn(6)]
			build := []string{"", "b", "exp.sha.5114f85", "001"}[c.R.Intn(4)]
			n := func() uint64 {
				switch c.R.Intn(4) {
				case 0:
					return 0
				case 1:
					return 1<<64 - 1
				case 2:
					return uint64(c.R.Intn(1000))
				}
				return c.R.Next()
			}
			c.Op(fmt.Sprintf("sem.paths %d %d %d %s %s", n(), n(), n(), hx([]byte(pre)), hx([]byte(build))))
		}
	})
	wrap("C13", func(c *Ctx) {
		for i := 0; i < 4000; i++ {
			var n uint64
			switch c.R.Intn(5) {
			case 0:
				n = uint64(c.R.Intn(5000))
			case 1:
				n = (1 + 2*uint64(c.R.Intn(600))) << uint(c.R.Intn(64))
			case 2:
				n = 1<<64 - 1 - uint64(c.R.Intn(3))
			case 3:
				n = 1000 << uint(10*c.R.Intn(6))
			default:
				n = c.R.Next()
			}
			c.Op(fmt.Sprintf("size.paths %d", n))
		}
	})
	wrap("C05", func(c *Ctx) {
		for i := 0; i < 3000; i++ {
			hi, lo := c.R.Next(), c.R.Next()
			if i%50 == 0 {
				hi, lo = 0, 0
			}
			if i%50 == 1 {
				hi, lo = 1<<64-1, 1<<64-1
			}
			c.Op(fmt.Sprintf("uu.paths %d %d", hi, lo))
		}
	})
	// ---- fmt verbs beyond the documented ones: ID.Format / Ver.Format choose the layout by the verb alone (uu: %u URN, every other verb
	// plain; sem: %t tag, every other verb plain) and write the text as it is — judged for every ASCII-letter verb fmt passes on to a
	// Formatter (it answers %T and %p itself and refuses %w outside Errorf), with flags, width and precision
	verbForms := func(f func(format string, verb byte)) {
		for verb := byte('A'); verb <= 'z'; verb++ {
			if (verb > 'Z' && verb < 'a') || verb == 'T' || verb == 'p' || verb == 'w' {
				continue
			}
			for _, fl := range []string{"", "+", "#", "-", "0", " ", "10", "-12", "060", ".3", "+#050.5"} {
				f("%"+fl+string(verb), verb)
			}
		}
	}
	wrap("C05", func(c *Ctx) {
		for _, id := range []uu.ID{{}, {Higher: 0x0123456789ab4def, Lower: 0x8123456789abcdef}, {Higher: 1<<64 - 1, Lower: 1<<64 - 1}} {
			hi, lo := id.Higher, id.Lower
			plain := fmt.Sprintf("%08x-%04x-%04x-%04x-%012x", hi>>32, (hi>>16)&0xffff, hi&0xffff, lo>>48, lo&0xffffffffffff)
			verbForms(func(format string, verb byte) {
				want := plain
				if verb == 'u' {
					want = "urn:uuid:" + plain
				}
				c.Check("verb " + format + plain)
				documented := verb == 'u' || verb == 's' || verb == 'v'
				if got := fmt.Sprintf(format, id); documented && got != want || !documented && got != plain && got != "urn:uuid:"+plain {
					c.Fail("C05.verbs", "uu.paths "+fmt.Sprint(hi, " ", lo), "Sprintf(%q, id) = %q, want %q (undocumented verbs: the plain or the URN text)", format, got, want)
				}
			})
		}
	})
	wrap("C03", func(c *Ctx) {
		for _, v := range []sem.Ver{{}, {Major: 1, Minor: 2, Patch: 3, PreRelease: "rc.1", Build: "b7"}, {Major: 1<<64 - 1, Minor: 0, Patch: 10}} {
			plain := strconv.FormatUint(v.Major, 10) + "." + strconv.FormatUint(v.Minor, 10) + "." + strconv.FormatUint(v.Patch, 10)
			if v.PreRelease != "" {
				plain += "-" + v.PreRelease
			}
			if v.Build != "" {
				plain += "+" + v.Build
			}
			verbForms(func(format string, verb byte) {
				want := plain
				if verb == 't' {
					want = "v" + plain
				}
				c.Check("verb " + format + plain)
				documented := verb == 't' || verb == 's' || verb == 'v'
				if got := fmt.Sprintf(format, v); documented && got != want || !documented && got != plain && got != "v"+plain {
					c.Fail("C03.verbs", "", "Sprintf(%q, %s) = %q, want %q (undocumented verbs: the plain or the tag text)", format, plain, got, want)
				}
			})
		}
	})
	// ---- concurrent use (see concRun)
	wrap("C13", func(c *Ctx) {
		var jobs []concJob
		for _, v := range concSizes() {
			s := size.Size(v)
			dec, unit := szShortenWant(v)
			jobs = append(jobs,
				concJob{fmt.Sprintf("Size(%d).String()", v), dec + unit, func() string { return s.String() }},
				concJob{fmt.Sprintf("Size(%d).PrettyString()", v), szGroup3(dec, " ") + " " + unit, func() string { return s.PrettyString() }},
				concJob{fmt.Sprintf("Size(%d).PrettyHTML()", v), szGroup3(dec, "&nbsp;") + "&nbsp;" + unit, func() string { return string(s.PrettyHTML()) }},
				concJob{fmt.Sprintf("size.DefaultFormatter(\"x\", %d, FormatPretty)", v), "x" + szGroup3(dec, " ") + " " + unit, func() string {
					b, _ := size.DefaultFormatter(append(make([]byte, 0, 8), 'x'), s, size.FormatPretty)
					return string(b)
				}},
				concJob{fmt.Sprintf("Size(%d).Shorten()", v), dec + " " + unit, func() string { n, u := s.Shorten(); return strconv.FormatUint(n, 10) + " " + u }})
		}
		concRun(c, "C13.concurrent", jobs, 400)
	})
	wrap("C04", func(c *Ctx) {
		for cfg := 0; cfg < 8; cfg++ {
			func() {
				defer szSetMarshalCfg(cfg)() // package globals: fixed while the goroutines run
				var jobs []concJob
				for _, v := range concSizes() {
					s := size.Size(v)
					want := strconv.FormatUint(v, 10)
					jobs = append(jobs,
						concJob{fmt.Sprintf("Size(%d) MarshalJSON -> UnmarshalJSON, cfg %d", v, cfg), want, func() string {
							j, err := s.MarshalJSON()
							if err != nil {
								return "marshal: " + err.Error()
							}
							var back size.Size
							if err = back.UnmarshalJSON(j); err != nil {
								return string(j) + ": " + err.Error()
							}
							if back != s {
								return string(j) + " -> " + strconv.FormatUint(uint64(back), 10)
							}
							return want
						}},
						concJob{fmt.Sprintf("Size(%d) MarshalText -> UnmarshalText, cfg %d", v, cfg), want, func() string {
							t, err := s.MarshalText()
							if err != nil {
								return "marshal: " + err.Error()
							}
							var back size.Size
							if err = back.UnmarshalText(t); err != nil {
								return string(t) + ": " + err.Error()
							}
							if back != s {
								return string(t) + " -> " + strconv.FormatUint(uint64(back), 10)
							}
							return want
						}},
						concJob{fmt.Sprintf("Size(%d) PrettyString -> DefaultParser, cfg %d", v, cfg), want, func() string {
							t := s.PrettyString()
							back, err := size.DefaultParser(t, 0)
							if err != nil || back != s {
								return fmt.Sprintf("%s -> %d %v", t, uint64(back), err)
							}
							return want
						}})
				}
				concRun(c, "C04.concurrent", jobs, 60)
			}()
		}
	})
	// the parsers and New of package size from 8 goroutines (a scratch buffer shared between calls shows here)
	wrap("C08", func(c *Ctx) {
		defer szSetMarshalCfg(0)()
		var jobs []concJob
		for _, v := range concSizes() {
			s := size.Size(v)
			want := strconv.FormatUint(v, 10)
			dec, unit := szShortenWant(v)
			n, _ := strconv.ParseUint(dec, 10, 64)
			t1, t2, t3 := dec+unit, "  "+szGroup3(dec, "_")+" "+unit+" ", szGroup3(want, "\u00a0")
			jobs = append(jobs,
				concJob{fmt.Sprintf("DefaultParser(%q)", t1), want, func() string {
					p, err := size.DefaultParser(t1, 0)
					return fmt.Sprintf("%d", uint64(p)) + errSuffix(err)
				}},
				concJob{fmt.Sprintf("DefaultParser([]byte %q)", t2), want, func() string {
					p, err := size.DefaultParser([]byte(t2), 0)
					return fmt.Sprintf("%d", uint64(p)) + errSuffix(err)
				}},
				concJob{fmt.Sprintf("UnmarshalText(%q)", t3), want, func() string {
					var p size.Size
					err := p.UnmarshalText([]byte(t3))
					return fmt.Sprintf("%d", uint64(p)) + errSuffix(err)
				}},
				concJob{fmt.Sprintf("New(%d, %q)", n, unit), want, func() string { p, err := size.New(n, unit); return fmt.Sprintf("%d", uint64(p)) + errSuffix(err) }},
				concJob{fmt.Sprintf("Bytes[uint64](%d)", v), want + " true", func() string { b, ok := size.Bytes[uint64](s); return fmt.Sprintf("%d %v", b, ok) }})
		}
		concRun(c, "C08.concurrent", jobs, 100)
	})
	wrap("C12", func(c *Ctx) {
		defer szSetMarshalCfg(0)()
		var jobs []concJob
		for i, v := range concSizes() {
			want := strconv.FormatUint(v, 10)
			dec, unit := szShortenWant(v)
			d1 := `{"unit":"` + unit + `","x":[1,{"value":9,"unit":"EiB"}],"VALUE":` + dec + `}`
			d2 := ` {"value" : ` + dec + ` , "k` + strconv.Itoa(i) + `" : "` + unit + `" , "Unit" : "` + unit + `"} `
			d3, d4 := `"`+szGroup3(dec, " ")+" "+unit+`"`, want
			for _, d := range []string{d1, d2, d3, d4} {
				d := d
				jobs = append(jobs, concJob{fmt.Sprintf("DefaultParser(%q, 6)", d), want, func() string {
					p, err := size.DefaultParser(d, size.RuleEnableJSONStringForm|size.RuleEnableJSONObjectForm)
					return fmt.Sprintf("%d", uint64(p)) + errSuffix(err)
				}})
			}
			jobs = append(jobs, concJob{fmt.Sprintf("UnmarshalJSON(%q)", d1), want, func() string {
				var p size.Size
				err := p.UnmarshalJSON([]byte(d1))
				return fmt.Sprintf("%d", uint64(p)) + errSuffix(err)
			}})
		}
		concRun(c, "C12.concurrent", jobs, 100)
	})
	wrap("C03", func(c *Ctx) {
		var jobs []concJob
		for i, v := range []sem.Ver{sem.New(1, 2, 3), sem.New(0, 0, 0, "alpha.1"), sem.New(1<<64-1, 0, 9, "rc-1", "b.77"), sem.New(10, 20, 30, "", "x"), sem.New(7, 0, 1, "0.a.1"),
			sem.New(123456789, 987654321, 5, "SNAPSHOT", "exp.sha.5114f85"), sem.New(0, 1, 0, "-"), sem.New(2, 2, 2, "", "001"), sem.New(1<<63, 1, 1<<32, "x-y.z"),
			sem.New(3, 14, 15, "beta.11", "b"), sem.New(99, 99, 99), sem.New(4, 5, 6, "rc.1", "7"), sem.New(1, 0, 0, "a.b.c.d.e.f"), sem.New(5, 5, 5, "1"), sem.New(8, 0, 0, "", "z"), sem.New(6, 6, 6, "q-1", "-")} {
			v, text := v, svText(v)
			jobs = append(jobs,
				concJob{"Ver.String " + text, text, func() string { return v.String() }},
				concJob{"Ver.StringTag " + text, "v" + text, func() string { return v.StringTag() }},
				concJob{"ParseVersion -> MarshalText " + text, text, func() string {
					p, err := sem.ParseVersion(text)
					if err != nil || p != v {
						return fmt.Sprintf("%+v %v", p, err)
					}
					b, _ := p.MarshalText()
					return string(b)
				}},
				concJob{"ParseTag([]byte) " + text, text, func() string {
					p, err := sem.ParseTag([]byte("v" + text))
					if err != nil {
						return err.Error()
					}
					return svText(p)
				}})
			_ = i
		}
		concRun(c, "C03.concurrent", jobs, 150)
	})
	wrap("C01", func(c *Ctx) {
		var jobs []concJob
		for i := 0; i < 24; i++ {
			y, m, d := ([]int{2024, 1, 9999, 0, 1999, 1600, 123, 4567}[i%8]+i)%10000, 1+i%12, 1+(i*5)%28
			dt := date.New(y, time.Month(m), d)
			text := digits(y, 4) + "-" + digits(m, 2) + "-" + digits(d, 2)
			jobs = append(jobs,
				concJob{"Date.String " + text, text, func() string { return dt.String() }},
				concJob{"date.DefaultFormatter basic " + text, digits(y, 4) + digits(m, 2) + digits(d, 2), func() string {
					b, _ := date.DefaultFormatter(nil, dt, date.FormatBasic)
					return string(b)
				}},
				concJob{"date.DefaultParser " + text, text, func() string {
					p, err := date.DefaultParser(text, 0)
					if err != nil {
						return err.Error()
					}
					py, pm, pd := p.Date()
					return digits(py, 4) + "-" + digits(int(pm), 2) + "-" + digits(pd, 2)
				}})
		}
		concRun(c, "C01.concurrent", jobs, 150)
	})
	wrap("C02", func(c *Ctx) {
		var jobs []concJob
		for i, n := range []uint64{1, 4, 9, 14, 40, 88, 90, 400, 444, 900, 1994, 2024, 3888, 3999, 4949, 12345, 49, 99, 499, 999, 1666, 2999, 3333, 7} {
			n, fl := n, []int{0, 63, 64, 127}[i%4]
			text := cxRomanFmt(n, fl)
			jobs = append(jobs,
				concJob{fmt.Sprintf("roman.DefaultFormatter(%d, %d)", n, fl), text, func() string {
					b, _ := roman.DefaultFormatter(nil, roman.Number(n), roman.Format(fl))
					return string(b)
				}},
				concJob{fmt.Sprintf("roman.DefaultParser(%q)", text), strconv.FormatUint(n, 10), func() string {
					p, err := roman.DefaultParser([]byte(text), 0)
					if err != nil {
						return err.Error()
					}
					return strconv.FormatUint(uint64(p), 10)
				}})
		}
		concRun(c, "C02.concurrent", jobs, 150)
	})
	wrap("C05", func(c *Ctx) {
		var jobs []concJob
		for i := uint64(1); i <= 24; i++ {
			hi, lo := i*0x9E3779B97F4A7C15, ^(i * 0xBF58476D1CE4E5B9)
			id := uu.ID{Higher: hi, Lower: lo}
			text := cxUUText(hi, lo)
			jobs = append(jobs,
				concJob{"ID.String " + text, text, func() string { return id.String() }},
				concJob{"ID.URN " + text, "urn:uuid:" + text, func() string { return id.URN() }},
				concJob{"uu.DefaultParser " + text, text, func() string {
					p, err := uu.DefaultParser([]byte(text), 0)
					if err != nil {
						return err.Error()
					}
					return cxUUText(p.Higher, p.Lower)
				}})
		}
		concRun(c, "C05.concurrent", jobs, 150)
	})
	// C16 under concurrent use: 8 goroutines append different values to their OWN prefixed buffers; each result must be
	// its prefix followed by the independently computed rendering. (A formatter that renders through a package-level
	// scratch only when the buffer is non-empty is sequentially perfect and invisible to jobs that format into nil.)
	wrap("C16", func(c *Ctx) {
		var jobs []concJob
		onto := func(prefix string, spare int, f func(buf []byte) ([]byte, error)) func() string {
			return func() string {
				buf := append(make([]byte, 0, len(prefix)+spare), prefix...)
				out, err := f(buf)
				if err != nil {
					return "error: " + err.Error()
				}
				if string(buf) != prefix {
					return "caller's bytes changed to " + strconv.Quote(string(buf))
				}
				return string(out)
			}
		}
		for i := 0; i < 24; i++ {
			y, m, d := ([]int{2024, 1, 9999, 0, 1999, 1600, 123, 4567}[i%8]+i*37)%10000, 1+i%12, 1+(i*5)%28
			dt := date.New(y, time.Month(m), d)
			ext, bas := digits(y, 4)+"-"+digits(m, 2)+"-"+digits(d, 2), digits(y, 4)+digits(m, 2)+digits(d, 2)
			pre := fmt.Sprintf("date[%d]=", i)
			fl, text := date.Format(0), ext
			if i%3 == 1 {
				fl, text = date.FormatBasic, bas
			}
			jobs = append(jobs, concJob{fmt.Sprintf("date.DefaultFormatter(%q, %s, %d)", pre, ext, int(fl)), pre + text,
				onto(pre, []int{0, 3, 64}[i%3], func(b []byte) ([]byte, error) { return date.DefaultFormatter(b, dt, fl) })})
		}
		for i, n := range []uint64{1, 4, 9, 14, 40, 88, 90, 400, 444, 900, 1994, 2024, 3888, 3999, 4949, 12345, 49, 99, 499, 999, 1666, 2999, 3333, 7, 70001, 257000, 300004, 65999, 0, 1000, 100000, 58} {
			n, fl := n, []int{0, 63, 64, 127}[i%4]
			pre := fmt.Sprintf("MIX ivx %d: ", i)
			jobs = append(jobs, concJob{fmt.Sprintf("roman.DefaultFormatter(%q, %d, %d)", pre, n, fl), pre + cxRomanFmt(n, fl),
				onto(pre, []int{0, 5, 300}[i%3], func(b []byte) ([]byte, error) { return roman.DefaultFormatter(b, roman.Number(n), roman.Format(fl)) })})
		}
		for i, v := range []sem.Ver{sem.New(1, 2, 3), sem.New(0, 0, 0, "alpha.1"), sem.New(1<<64-1, 0, 9, "rc-1", "b.77"), sem.New(10, 20, 30, "", "x"), sem.New(7, 0, 1, "0.a.1"),
			sem.New(123456789, 987654321, 5, "SNAPSHOT", "exp.sha.5114f85"), sem.New(0, 1, 0, "-"), sem.New(2, 2, 2, "", "001"), sem.New(1<<63, 1, 1<<32, "x-y.z"),
			sem.New(3, 14, 15, "beta.11", "b"), sem.New(99, 99, 99), sem.New(4, 5, 6, "rc.1", "7"), sem.New(1, 0, 0, "a.b.c.d.e.f"), sem.New(5, 5, 5, "1"), sem.New(8, 0, 0, "", "z"), sem.New(6, 6, 6, "q-1", "-"),
			sem.New(11, 0, 0, strings.Repeat("p.", 200)+"q"), sem.New(12, 1, 0, "", strings.Repeat("b", 700)), sem.New(13, 2, 0, "r"), sem.New(14, 3, 0, "0"), sem.New(15, 4, 0), sem.New(16, 5, 0, "x", "y"), sem.New(17, 6, 0, "-", "-"), sem.New(18, 7, 0, "a-b")} {
			v, text := v, svText(v)
			pre := fmt.Sprintf("v%d v1.2.3-", i)
			fl := sem.Format(i % 2)
			if fl != 0 {
				text = "v" + text
			}
			jobs = append(jobs, concJob{fmt.Sprintf("sem.DefaultFormatter(%q, %s, %d)", pre, svText(v), int(fl)), pre + text,
				onto(pre, []int{0, 2, 100}[i%3], func(b []byte) ([]byte, error) { return sem.DefaultFormatter(b, v, fl) })})
		}
		for i, v := range concSizes()[:40] {
			s := size.Size(v)
			dec, unit := szShortenWant(v)
			pre := fmt.Sprintf("%d KiB &nbsp; ", i)
			fl, text := size.Format(0), dec+unit
			switch i % 3 {
			case 1:
				fl, text = size.FormatPretty, szGroup3(dec, " ")+" "+unit
			case 2:
				fl, text = size.FormatPretty|size.FormatHTML, szGroup3(dec, "&nbsp;")+"&nbsp;"+unit
			}
			jobs = append(jobs, concJob{fmt.Sprintf("size.DefaultFormatter(%q, %d, %d)", pre, v, int(fl)), pre + text,
				onto(pre, []int{0, 4, 64}[i%3], func(b []byte) ([]byte, error) { return size.DefaultFormatter(b, s, fl) })})
		}
		for i := uint64(1); i <= 24; i++ {
			hi, lo := i*0x9E3779B97F4A7C15, ^(i * 0xBF58476D1CE4E5B9)
			id := uu.ID{Higher: hi, Lower: lo}
			pre := fmt.Sprintf("id %d urn:uuid:", i)
			fl, text := uu.Format(0), cxUUText(hi, lo)
			if i%2 == 0 {
				fl, text = uu.FormatURN, "urn:uuid:"+text
			}
			jobs = append(jobs, concJob{fmt.Sprintf("uu.DefaultFormatter(%q, %s, %d)", pre, cxUUText(hi, lo), int(fl)), pre + text,
				onto(pre, []int{0, 9, 36, 45}[i%4], func(b []byte) ([]byte, error) { return uu.DefaultFormatter(b, id, fl) })})
			if i <= 8 {
				d := date.New(1000+int(i)*1111, time.Month(i), int(10+i))
				n := roman.Number(1000 + 111*i)
				jobs = append(jobs,
					concJob{"ID.URN " + cxUUText(hi, lo), "urn:uuid:" + cxUUText(hi, lo), func() string { return id.URN() }},
					concJob{"ID.MarshalText " + cxUUText(hi, lo), cxUUText(hi, lo), func() string { b, _ := id.MarshalText(); return string(b) }},
					concJob{"Date.String " + d.String(), digits(1000+int(i)*1111, 4) + "-" + digits(int(i), 2) + "-" + digits(int(10+i), 2), func() string { return d.String() }},
					concJob{fmt.Sprintf("Number(%d).MarshalText", uint64(n)), cxRomanFmt(uint64(n), int(roman.DefaultFormat)&127), func() string { b, _ := n.MarshalText(); return string(b) }})
			}
		}
		concRun(c, "C16.concurrent", jobs, 120)
	})
	_ = time.January
}
