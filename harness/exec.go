package main

import (
	"bytes"
	"encoding/json"
	"errors"
	"fmt"
	"io"
	"math"
	"math/big"
	"math/rand"
	"strconv"
	"strings"
	"time"

	"go.lstv.dev/util/date"
	"go.lstv.dev/util/roman"
	"go.lstv.dev/util/sem"
	"go.lstv.dev/util/size"
	"go.lstv.dev/util/uu"
)

type (
	namedString string
	namedBytes  []byte
)

// lineHash: a deterministic function of the protocol line (replays agree with the run).
func lineHash(line string) uint32 {
	h := uint32(2166136261)
	for i := 0; i < len(line); i++ {
		h = (h ^ uint32(line[i])) * 16777619
	}
	return h ^ h>>15
}

// crossRomanFormats: output settings under which the roman parser / validity check are also run (they must not care).
var crossRomanFormats = []roman.Format{0, roman.FormatLowerCase, roman.FormatLong, roman.FormatLong | roman.FormatLowerCase, roman.FormatLong4, roman.FormatLong9x | roman.FormatLowerCase, -1, 1 << 20}

// setSizeSwitches sets the three marshal switches of package size (bits 1, 2, 4 of cfg) and returns the restore function.
// Parsers, Shorten and the renderings of C13 are specified without them: every such op runs under a setting chosen by
// its own line, with the expectation unchanged.
func setSizeSwitches(cfg int) func() {
	o1, o2, o3 := size.DisableMarshalTextUnit, size.DisableMarshalJSONStringForm, size.DisableMarshalJSONObjectForm
	size.DisableMarshalTextUnit, size.DisableMarshalJSONStringForm, size.DisableMarshalJSONObjectForm = cfg&1 != 0, cfg&2 != 0, cfg&4 != 0
	return func() {
		size.DisableMarshalTextUnit, size.DisableMarshalJSONStringForm, size.DisableMarshalJSONObjectForm = o1, o2, o3
	}
}

func atoi(s string) int {
	n, err := strconv.Atoi(s)
	if err != nil {
		panic("bad int " + s)
	}
	return n
}
func atou(s string) uint64 {
	n, err := strconv.ParseUint(s, 10, 64)
	if err != nil {
		panic("bad uint " + s)
	}
	return n
}
func atoi64(s string) int64 {
	n, err := strconv.ParseInt(s, 10, 64)
	if err != nil {
		panic("bad int64 " + s)
	}
	return n
}
func mustHex(s string) []byte {
	b, ok := unhx(s)
	if !ok {
		panic("bad hex " + s)
	}
	return b
}

// execOp executes one protocol line on the implementation. A panic inside the implementation is
// reported as the result "panic".
func execOp(c *Ctx, line string) (out string) {
	defer func() {
		if r := recover(); r != nil {
			if s, ok := r.(string); ok && strings.HasPrefix(s, "bad ") {
				out = "bad-op"
				return
			}
			out = "panic"
		}
	}()
	f := strings.Split(line, " ")
	switch f[0] {
	// ------------------------------------------------------------------ date
	case "date.format":
		d := date.New(atoi(f[1]), time.Month(atoi(f[2])), atoi(f[3]))
		b, err := date.DefaultFormatter(mustHex(f[5]), d, date.Format(atoi(f[4])))
		if err != nil {
			return "err formatter"
		}
		return hx(b)
	case "date.paths":
		d := date.New(atoi(f[1]), time.Month(atoi(f[2])), atoi(f[3]))
		mt, err := d.MarshalText()
		if err != nil {
			return "err marshal"
		}
		return strings.Join([]string{hx(mt), hx([]byte(d.String())), hx([]byte(fmt.Sprintf("%s", d))), hx([]byte(fmt.Sprintf("%e", d))),
			hx([]byte(fmt.Sprintf("%b", d))), hx([]byte(fmt.Sprintf("%v", d)))}, " ")
	case "date.verb": // fmt.Sprintf(<format>, date): any verb, flag, width and precision fmt can deliver to Date.Format
		d := date.New(atoi(f[1]), time.Month(atoi(f[2])), atoi(f[3]))
		return hx([]byte(fmt.Sprintf(string(mustHex(f[4])), d)))
	case "date.parse":
		old := date.MaxInputLength
		date.MaxInputLength = atoi(f[1])
		defer func() { date.MaxInputLength = old }()
		in := mustHex(f[3])
		r := date.Rule(atoi(f[2]))
		d1, e1 := date.DefaultParser(string(in), r)
		d2, e2 := date.DefaultParser(append([]byte(nil), in...), r)
		d3, e3 := date.DefaultParser(namedString(in), r)
		d4, e4 := date.DefaultParser(namedBytes(append([]byte(nil), in...)), r)
		o1 := dateOutcome(d1, e1)
		for i, o := range []string{dateOutcome(d2, e2), dateOutcome(d3, e3), dateOutcome(d4, e4)} {
			if c.Owns("C17.date.types") && (o != o1 || errText([]error{e2, e3, e4}[i]) != errText(e1)) {
				c.Fail("C17.date.types", line, "string: %s %q; variant %d: %s %q", o1, errText(e1), i, o, errText([]error{e2, e3, e4}[i]))
				return "MISMATCH-input-types " + o1 + " / " + o
			}
		}
		if e1 != nil {
			if typed, _ := datePE(e1); c.Owns("C09.typed") && (!typed) {
				c.Fail("C09.typed", line, "error %T is not *date.ParseError", e1)
				return "UNTYPED " + o1
			}
			if c.Owns("C09.zero") && (!dateIsZeroValue(d1)) {
				c.Fail("C09.zero", line, "value %v next to error", d1)
				return "NONZERO " + o1
			}
		}
		if r == 0 && c.Owns("C09.entry") { // every input path: UnmarshalText is the parser under the default rule
			// … decoded onto a fresh variable and onto variables that already hold another date (one far away, one in the same
			// month as the parser's result): an accepted text sets the receiver to exactly the parsed date
			py, pm, pd := d1.Date()
			sn := dateSentinels(py, int(pm), pd)
			for _, u := range []date.Date{{}, sn[0], sn[1]} {
				u0 := u
				eu := u.UnmarshalText(append([]byte(nil), in...))
				typed := true
				if eu != nil {
					typed, _ = datePE(eu)
				}
				if ou := dateOutcome(u, eu); ou != o1 || !typed {
					c.Fail("C09.entry", line, "UnmarshalText onto %s: %s (typed %v), DefaultParser: %s", dateYMD(u0), ou, typed, o1)
					return "MISMATCH-entry " + o1 + " / " + ou
				}
			}
		}
		return o1
	case "date.unbin":
		d := date.New(1999, 9, 9)
		in := mustHex(f[1])
		err := d.UnmarshalBinary(in)
		if err != nil {
			if c.Owns("C17.date.unbin.recv") && (!d.Equal(date.New(1999, 9, 9))) {
				c.Fail("C17.date.unbin.recv", line, "receiver changed to %v on error", d)
				return "RECEIVER-CHANGED"
			}
			return "err " + dateErrClass(err)
		}
		return dateVal(d)
	case "date.bin":
		d := date.New(atoi(f[1]), time.Month(atoi(f[2])), atoi(f[3]))
		b, err := d.MarshalBinary()
		if err != nil {
			return "err marshal"
		}
		return hx(b)
	case "date.cmp":
		a := date.New(atoi(f[1]), time.Month(atoi(f[2])), atoi(f[3]))
		b := date.New(atoi(f[4]), time.Month(atoi(f[5])), atoi(f[6]))
		return b01(a.Before(b)) + " " + b01(a.Equal(b)) + " " + b01(a.After(b))
	case "date.sub":
		a := date.New(atoi(f[1]), time.Month(atoi(f[2])), atoi(f[3]))
		b := date.New(atoi(f[4]), time.Month(atoi(f[5])), atoi(f[6]))
		return fmt.Sprintf("%d %d", int64(a.Sub(b)), a.DaysBetween(b))
	case "date.add":
		a := date.New(atoi(f[1]), time.Month(atoi(f[2])), atoi(f[3]))
		return dateYMD(a.Add(atoi(f[4]), atoi(f[5]), atoi(f[6])))
	case "date.adddur":
		a := date.New(atoi(f[1]), time.Month(atoi(f[2])), atoi(f[3]))
		return dateYMD(a.AddDuration(time.Duration(atoi64(f[4]))))
	case "date.fromtime":
		t := time.Unix(atoi64(f[1]), atoi64(f[2])).In(time.FixedZone("z", atoi(f[3])))
		d := date.FromTime(t)
		if c.Owns("C07.fromtime.entry") { // every conversion entry point: the pointer method and Scan(time.Time)
			// on a fresh variable and on variables that already hold another date
			fy, fm, fd := d.Date()
			sn := dateSentinels(fy, int(fm), fd)
			for _, r := range []date.Date{{}, sn[0], sn[1]} {
				dp, ds := r, r
				dp.FromTime(t)
				if err := ds.Scan(t); err != nil || dateYMD(dp) != dateYMD(d) || dateYMD(ds) != dateYMD(d) {
					c.Fail("C07.fromtime.entry", line, "onto %s: FromTime %s, (*Date).FromTime %s, Scan %s (%v)", dateYMD(r), dateYMD(d), dateYMD(dp), dateYMD(ds), err)
					return "MISMATCH-entry " + dateYMD(d) + " / " + dateYMD(dp) + " / " + dateYMD(ds)
				}
			}
		}
		return dateYMD(d)
	case "date.new":
		return dateYMD(date.New(atoi(f[1]), time.Month(atoi(f[2])), atoi(f[3])))
	case "date.filter":
		var fp, tp *date.Date
		if f[1] != "-" {
			d := date.New(atoi(f[1]), time.Month(atoi(f[2])), atoi(f[3]))
			fp = &d
		}
		if f[4] != "-" {
			d := date.New(atoi(f[4]), time.Month(atoi(f[5])), atoi(f[6]))
			tp = &d
		}
		flt, err := date.FilterFromTo(fp, tp)
		if err != nil {
			if flt != nil {
				return "NONNIL-FILTER-ON-ERROR"
			}
			return "err " + dateErrClass(err)
		}
		// the filter must keep its bounds when the caller's variables change afterwards
		if fp != nil {
			*fp = date.New(1, 1, 1)
		}
		if tp != nil {
			*tp = date.New(9999, 12, 31)
		}
		return b01(flt.Contains(date.New(atoi(f[7]), time.Month(atoi(f[8])), atoi(f[9]))))
	// ------------------------------------------------------------------ roman
	case "roman.format":
		b, err := roman.DefaultFormatter(mustHex(f[3]), roman.Number(atou(f[1])), roman.Format(atoi(f[2])))
		if err != nil {
			return "err formatter"
		}
		return hx(b)
	case "roman.paths":
		old := roman.DefaultFormat
		roman.DefaultFormat = roman.Format(atoi(f[2]))
		defer func() { roman.DefaultFormat = old }()
		n := roman.Number(atou(f[1]))
		mt, err := n.MarshalText()
		if err != nil {
			return "err marshal"
		}
		return strings.Join([]string{hx(mt), hx([]byte(n.String())), hx([]byte(fmt.Sprintf("%R", n))), hx([]byte(fmt.Sprintf("%r", n))),
			hx([]byte(fmt.Sprintf("%L", n))), hx([]byte(fmt.Sprintf("%l", n))), hx([]byte(fmt.Sprintf("%s", n)))}, " ")
	case "roman.parse":
		old, oldDF := roman.MaxInputLength, roman.DefaultFormat
		roman.MaxInputLength = atoi(f[1])
		roman.DefaultFormat = crossRomanFormats[int(lineHash(line))%len(crossRomanFormats)]
		defer func() { roman.MaxInputLength, roman.DefaultFormat = old, oldDF }()
		in := mustHex(f[3])
		r := roman.Rule(atoi(f[2]))
		n1, e1 := roman.DefaultParser(string(in), r)
		n2, e2 := roman.DefaultParser(append([]byte(nil), in...), r)
		n3, e3 := roman.DefaultParser(namedString(in), r)
		n4, e4 := roman.DefaultParser(namedBytes(append([]byte(nil), in...)), r)
		o1 := romanOutcome(n1, e1)
		for i, o := range []string{romanOutcome(n2, e2), romanOutcome(n3, e3), romanOutcome(n4, e4)} {
			if c.Owns("C17.roman.types") && (o != o1 || errText([]error{e2, e3, e4}[i]) != errText(e1)) {
				c.Fail("C17.roman.types", line, "string: %s %q; variant %d: %s %q", o1, errText(e1), i, o, errText([]error{e2, e3, e4}[i]))
				return "MISMATCH-input-types " + o1 + " / " + o
			}
		}
		if e1 != nil {
			if typed, _ := romanPE(e1); c.Owns("C10.typed") && (!typed) {
				c.Fail("C10.typed", line, "error %T is not *roman.NumberFormatError", e1)
				return "UNTYPED " + o1
			}
			if c.Owns("C10.zero") && (n1 != 0) {
				c.Fail("C10.zero", line, "value %d next to error", n1)
				return "NONZERO " + o1
			}
		}
		if r == 0 && c.Owns("C10.entry") {
			// the receiver holds a non-zero sentinel, so that a call that decodes nothing (or skips the assignment for the
			// zero value) is visible; the empty text is passed as a nil slice and as an empty non-nil one
			const sentinel = roman.Number(987654321)
			datas := [][]byte{append([]byte(nil), in...)}
			if len(in) == 0 {
				datas = [][]byte{nil, {}, make([]byte, 0, 8)}
			}
			for _, data := range datas {
				u := sentinel
				eu := u.UnmarshalText(data)
				typed := true
				if eu != nil {
					typed, _ = romanPE(eu)
				}
				if ou := romanOutcome(u, eu); ou != o1 || !typed || eu != nil && u != sentinel {
					c.Fail("C10.entry", line, "UnmarshalText (nil data: %v) onto a receiver holding %d: %s (typed %v, receiver now %d), DefaultParser: %s", data == nil, uint64(sentinel), ou, typed, uint64(u), o1)
					return "MISMATCH-entry " + o1 + " / " + ou
				}
			}
		}
		return o1
	case "roman.valid":
		old, oldDF := roman.MaxInputLength, roman.DefaultFormat
		roman.MaxInputLength = atoi(f[1])
		roman.DefaultFormat = crossRomanFormats[int(lineHash(line))%len(crossRomanFormats)]
		defer func() { roman.MaxInputLength, roman.DefaultFormat = old, oldDF }()
		in := mustHex(f[3])
		r := roman.Rule(atoi(f[2]))
		e1 := roman.Valid(string(in), r)
		e2 := roman.Valid(append([]byte(nil), in...), r)
		e3 := roman.Valid(namedString(in), r)
		e4 := roman.Valid(namedBytes(append([]byte(nil), in...)), r)
		if c.Owns("C17.roman.valid.types") && (errText(e1) != errText(e2) || errText(e1) != errText(e3) || errText(e1) != errText(e4)) {
			c.Fail("C17.roman.valid.types", line, "%q vs %q vs %q vs %q", errText(e1), errText(e2), errText(e3), errText(e4))
			return "MISMATCH-input-types"
		}
		if e1 != nil {
			return "err " + romanErrClass(e1)
		}
		return "ok"
	// ------------------------------------------------------------------ sem
	case "sem.parse":
		old := sem.MaxInputLength
		sem.MaxInputLength = atoi(f[2])
		defer func() { sem.MaxInputLength = old }()
		in := mustHex(f[3])
		v1, e1 := semParse(f[1], string(in))
		buf2 := append([]byte(nil), in...)
		v2, e2 := semParse(f[1], buf2)
		v3, e3 := semParse(f[1], namedString(in))
		buf4 := namedBytes(append([]byte(nil), in...))
		v4, e4 := semParse(f[1], buf4)
		// a parsed value must not change when the caller overwrites the input buffer afterwards
		before2, before4 := semOutcome(v2, e2), semOutcome(v4, e4)
		// (error values may legitimately keep the caller's slice in ParseError.Input: freeze their texts first)
		t2, t3, t4 := errText(e2), errText(e3), errText(e4)
		for i := range buf2 {
			buf2[i], buf4[i] = 0xAA, 0x55
		}
		if c.Owns("C17.sem.retain") && (semOutcome(v2, e2) != before2 || semOutcome(v4, e4) != before4) {
			c.Fail("C17.sem.retain", line, "value parsed from []byte changed after the buffer was overwritten: %s -> %s", before2, semOutcome(v2, e2))
			return "RETAINS-INPUT " + before2
		}
		o1 := semOutcome(v1, e1)
		for i, o := range []string{before2, semOutcome(v3, e3), before4} {
			if c.Owns("C17.sem.types") && (o != o1 || []string{t2, t3, t4}[i] != errText(e1)) {
				c.Fail("C17.sem.types", line, "string: %s %q; variant %d: %s %q", o1, errText(e1), i, o, []string{t2, t3, t4}[i])
				return "MISMATCH-input-types " + o1 + " / " + o
			}
		}
		if e1 != nil {
			if typed, _ := semPE(e1); c.Owns("C03.typed") && (!typed) {
				c.Fail("C03.typed", line, "error %T is not *sem.ParseError", e1)
				return "UNTYPED " + o1
			}
			if c.Owns("C03.zero") && (v1 != (sem.Ver{})) {
				c.Fail("C03.zero", line, "value %v next to error", v1)
				return "NONZERO " + o1
			}
		}
		if f[1] == "Default" && c.Owns("C03.entry") {
			// onto a fresh variable and onto variables that already hold another version (0.0.0 is the zero value of Ver:
			// "did not assign" must not pass for "assigned 0.0.0"; a merge of old and new fields must show)
			for _, u := range []sem.Ver{{}, {Major: 9, Minor: 8, Patch: 7, PreRelease: "old.1", Build: "old"}, {Major: v1.Major + 1, Minor: v1.Minor, Patch: v1.Patch, PreRelease: "x", Build: v1.Build}} {
				u0 := u
				eu := u.UnmarshalText(append([]byte(nil), in...))
				typed := true
				if eu != nil {
					typed, _ = semPE(eu)
				}
				if ou := semOutcome(u, eu); ou != o1 || !typed {
					c.Fail("C03.entry", line, "UnmarshalText onto %v: %s (typed %v), DefaultParser: %s", u0, ou, typed, o1)
					return "MISMATCH-entry " + o1 + " / " + ou
				}
			}
			// the same onto a variable that already holds a version: a successful call yields exactly the decoded value
			if e1 == nil && c.Owns("C03.overwrite") {
				for _, w := range semLoadedReceivers {
					if err := w.UnmarshalText(append([]byte(nil), in...)); err != nil || w != v1 {
						c.Fail("C03.overwrite", line, "UnmarshalText onto a receiver holding a version gives %+v %v, the text denotes %+v", w, err, v1)
						return "MISMATCH-overwrite " + o1 + " / " + semOutcome(w, err)
					}
				}
			}
		}
		return o1
	case "sem.format":
		v := sem.Ver{Major: atou(f[1]), Minor: atou(f[2]), Patch: atou(f[3]), PreRelease: string(mustHex(f[4])), Build: string(mustHex(f[5]))}
		b, err := sem.DefaultFormatter(mustHex(f[7]), v, sem.Format(atoi(f[6])))
		if err != nil {
			return "err formatter"
		}
		return hx(b)
	case "sem.paths":
		v := sem.Ver{Major: atou(f[1]), Minor: atou(f[2]), Patch: atou(f[3]), PreRelease: string(mustHex(f[4])), Build: string(mustHex(f[5]))}
		mt, err := v.MarshalText()
		if err != nil {
			return "err marshal"
		}
		return strings.Join([]string{hx(mt), hx([]byte(v.String())), hx([]byte(v.StringTag())), hx([]byte(fmt.Sprintf("%s", v))),
			hx([]byte(fmt.Sprintf("%t", v))), hx([]byte(fmt.Sprintf("%v", v)))}, " ")
	case "sem.valid":
		v := sem.Ver{PreRelease: string(mustHex(f[1])), Build: string(mustHex(f[2]))}
		if err := v.Valid(); err != nil {
			return "err " + semErrClass(err)
		}
		return "ok"
	case "sem.cmppre":
		a, b := mustHex(f[1]), mustHex(f[2])
		r1 := sem.DefaultComparePreRelease(string(a), string(b))
		r2 := sem.DefaultComparePreRelease(a, b)
		r3 := sem.DefaultComparePreRelease(string(a), b)
		if c.Owns("C17.sem.cmppre.types") && (r1 != r2 || r1 != r3) {
			c.Fail("C17.sem.cmppre.types", line, "%d %d %d", r1, r2, r3)
			return "MISMATCH-input-types"
		}
		return strconv.Itoa(r1)
	case "sem.cmp":
		v := sem.Ver{Major: atou(f[1]), Minor: atou(f[2]), Patch: atou(f[3]), PreRelease: string(mustHex(f[4])), Build: string(mustHex(f[5]))}
		w := sem.Ver{Major: atou(f[6]), Minor: atou(f[7]), Patch: atou(f[8]), PreRelease: string(mustHex(f[9])), Build: string(mustHex(f[10]))}
		return strconv.Itoa(v.Compare(w)) + " " + semVal(v.Latest(w))
	case "sem.cmpstr":
		old := sem.MaxInputLength
		sem.MaxInputLength = atoi(f[2])
		defer func() { sem.MaxInputLength = old }()
		a, b := mustHex(f[3]), mustHex(f[4])
		var r1, r2 int
		var e1, e2 error
		switch f[1] {
		case "Parse":
			r1, e1 = sem.Compare(string(a), string(b))
			r2, e2 = sem.Compare(a, b)
		case "ParseVersion":
			r1, e1 = sem.CompareVersion[string, string](string(a), string(b))
			r2, e2 = r1, e1
		case "ParseTag":
			r1, e1 = sem.CompareTag(string(a), string(b))
			r2, e2 = sem.CompareTag(a, b)
		default:
			return "bad-op"
		}
		if c.Owns("C17.sem.cmpstr.types") && (r1 != r2 || errText(e1) != errText(e2)) {
			c.Fail("C17.sem.cmpstr.types", line, "%d %q vs %d %q", r1, errText(e1), r2, errText(e2))
			return "MISMATCH-input-types"
		}
		if e1 != nil {
			if r1 != 0 {
				return "NONZERO err " + semErrClass(e1)
			}
			return "err " + semErrClass(e1)
		}
		return "ok " + strconv.Itoa(r1)
	case "sem.latest":
		old := sem.MaxInputLength
		sem.MaxInputLength = atoi(f[2])
		defer func() { sem.MaxInputLength = old }()
		a, b := mustHex(f[3]), mustHex(f[4])
		var v1, v2 sem.Ver
		var e1, e2 error
		switch f[1] {
		case "Parse":
			v1, e1 = sem.Latest(string(a), string(b))
			v2, e2 = sem.Latest(a, b)
		case "ParseVersion":
			v1, e1 = sem.LatestVersion(string(a), string(b))
			v2, e2 = sem.LatestVersion(a, b)
		case "ParseTag":
			v1, e1 = sem.LatestTag(string(a), string(b))
			v2, e2 = sem.LatestTag(a, b)
		default:
			return "bad-op"
		}
		if e2 == nil {
			keep := semVal(v2)
			for i := range a {
				a[i] = 0xAA
			}
			for i := range b {
				b[i] = 0xAA
			}
			if c.Owns("C17.sem.retain") && (semVal(v2) != keep) {
				c.Fail("C17.sem.retain", line, "Latest* result changed after the input buffers were overwritten: %s -> %s", keep, semVal(v2))
				return "RETAINS-INPUT " + keep
			}
		}
		if c.Owns("C17.sem.latest.types") && (v1 != v2 || errText(e1) != errText(e2)) {
			c.Fail("C17.sem.latest.types", line, "%v %q vs %v %q", v1, errText(e1), v2, errText(e2))
			return "MISMATCH-input-types"
		}
		if e1 != nil && v1 != (sem.Ver{}) {
			return "NONZERO err " + semErrClass(e1)
		}
		return semOutcome(v1, e1)
	case "sem.next":
		v := sem.Ver{Major: atou(f[2]), Minor: atou(f[3]), Patch: atou(f[4]), PreRelease: string(mustHex(f[5])), Build: string(mustHex(f[6]))}
		switch f[1] {
		case "major":
			return semVal(v.NextMajor())
		case "minor":
			return semVal(v.NextMinor())
		case "patch":
			return semVal(v.NextPatch())
		}
		return "bad-op"
	// ------------------------------------------------------------------ size
	case "size.shorten":
		defer setSizeSwitches(int(lineHash(line)) & 7)()
		v, u := size.Size(atou(f[1])).Shorten()
		return fmt.Sprintf("%d %s", v, hx([]byte(u)))
	case "size.paths":
		defer setSizeSwitches(int(lineHash(line)) & 7)()
		z := size.Size(atou(f[1]))
		return strings.Join([]string{hx([]byte(z.String())), hx([]byte(z.PrettyString())), hx([]byte(z.PrettyHTML())), hx([]byte(z.BytesString())),
			hx([]byte(z.BytesJSONNumber()))}, " ")
	case "size.format":
		defer setSizeSwitches(int(lineHash(line)) & 7)()
		b, err := size.DefaultFormatter(mustHex(f[3]), size.Size(atou(f[1])), size.Format(atoi(f[2])))
		if err != nil {
			return "err formatter"
		}
		return hx(b)
	case "size.marshal":
		cfg := atoi(f[2])
		o1, o2, o3 := size.DisableMarshalTextUnit, size.DisableMarshalJSONStringForm, size.DisableMarshalJSONObjectForm
		size.DisableMarshalTextUnit, size.DisableMarshalJSONStringForm, size.DisableMarshalJSONObjectForm = cfg&1 != 0, cfg&2 != 0, cfg&4 != 0
		defer func() {
			size.DisableMarshalTextUnit, size.DisableMarshalJSONStringForm, size.DisableMarshalJSONObjectForm = o1, o2, o3
		}()
		s := size.Size(atou(f[1]))
		var b []byte
		var err error
		switch f[3] {
		case "text":
			b, err = s.MarshalText()
		case "json":
			b, err = s.MarshalJSON()
		default:
			return "bad-op"
		}
		if err != nil {
			return "err marshal"
		}
		return hx(b)
	case "size.parse":
		o1, o2 := size.MaxInputLength, size.MaxObjectKeys
		size.MaxInputLength, size.MaxObjectKeys = atoi(f[1]), atoi(f[2])
		defer func() { size.MaxInputLength, size.MaxObjectKeys = o1, o2 }()
		defer setSizeSwitches(int(lineHash(line)) & 7)()
		in := mustHex(f[4])
		r := size.Rule(atoi(f[3]))
		s1, e1 := size.DefaultParser(string(in), r)
		s2, e2 := size.DefaultParser(append([]byte(nil), in...), r)
		s3, e3 := size.DefaultParser(namedString(in), r)
		s4, e4 := size.DefaultParser(namedBytes(append([]byte(nil), in...)), r)
		out1 := sizeOutcome(s1, e1)
		for i, o := range []string{sizeOutcome(s2, e2), sizeOutcome(s3, e3), sizeOutcome(s4, e4)} {
			if c.Owns("C17.size.types") && (o != out1 || errText([]error{e2, e3, e4}[i]) != errText(e1)) {
				c.Fail("C17.size.types", line, "string: %s %q; variant %d: %s %q", out1, errText(e1), i, o, errText([]error{e2, e3, e4}[i]))
				return "MISMATCH-input-types " + out1 + " / " + o
			}
		}
		if e1 != nil {
			if typed, _ := sizePE(e1); c.Owns("C12.typed") && (!typed) {
				c.Fail("C12.typed", line, "error %T is not *size.ParseError", e1)
				return "UNTYPED " + out1
			}
			if c.Owns("C12.zero") && (s1 != 0) {
				c.Fail("C12.zero", line, "value %d next to error", s1)
				return "NONZERO " + out1
			}
		}
		const sizeSentinel = size.Size(9876543210987) // non-zero receiver: a decode that assigns nothing (e.g. for 0 B) is visible
		if r == size.DefaultRule&size.RuleDisableUnit && c.Owns("C08.entry") {
			u := sizeSentinel
			eu := u.UnmarshalText(append([]byte(nil), in...))
			typed := true
			if eu != nil {
				typed, _ = sizePE(eu)
				if u != sizeSentinel {
					c.Fail("C08.entry", line, "UnmarshalText returned %v and changed the receiver to %d", eu, uint64(u))
					return "MISMATCH-entry " + out1 + " / receiver changed"
				}
			}
			if ou := sizeOutcome(u, eu); ou != out1 || !typed {
				c.Fail("C08.entry", line, "UnmarshalText: %s (typed %v), DefaultParser: %s", ou, typed, out1)
				return "MISMATCH-entry " + out1 + " / " + ou
			}
		}
		if r == size.DefaultRule && c.Owns("C12.entry") {
			u := sizeSentinel
			eu := u.UnmarshalJSON(append([]byte(nil), in...))
			typed := true
			if eu != nil {
				typed, _ = sizePE(eu)
				if u != sizeSentinel {
					c.Fail("C12.entry", line, "UnmarshalJSON returned %v and changed the receiver to %d", eu, uint64(u))
					return "MISMATCH-entry " + out1 + " / receiver changed"
				}
			}
			if ou := sizeOutcome(u, eu); ou != out1 || !typed {
				c.Fail("C12.entry", line, "UnmarshalJSON: %s (typed %v), DefaultParser: %s", ou, typed, out1)
				return "MISMATCH-entry " + out1 + " / " + ou
			}
		}
		return out1
	case "size.new":
		defer setSizeSwitches(int(lineHash(line)) & 7)()
		return sizeNew(f[1], f[2], string(mustHex(f[3])))
	case "size.bytes":
		defer setSizeSwitches(int(lineHash(line)) & 7)()
		return sizeBytes(f[1], size.Size(atou(f[2])))
	case "json.tokens":
		return jsonTokens(mustHex(f[1]))
	// ------------------------------------------------------------------ uu
	case "uu.format":
		id := uu.ID{Higher: atou(f[1]), Lower: atou(f[2])}
		b, err := uu.DefaultFormatter(mustHex(f[4]), id, uu.Format(atoi(f[3])))
		if err != nil {
			return "err formatter"
		}
		return hx(b)
	case "uu.parse":
		old := uu.MaxInputLength
		uu.MaxInputLength = atoi(f[1])
		defer func() { uu.MaxInputLength = old }()
		in := mustHex(f[3])
		r := uu.Rule(atoi(f[2]))
		i1, e1 := uu.DefaultParser(string(in), r)
		i2, e2 := uu.DefaultParser(append([]byte(nil), in...), r)
		i3, e3 := uu.DefaultParser(namedString(in), r)
		i4, e4 := uu.DefaultParser(namedBytes(append([]byte(nil), in...)), r)
		o1 := uuOutcome(i1, e1)
		for i, o := range []string{uuOutcome(i2, e2), uuOutcome(i3, e3), uuOutcome(i4, e4)} {
			if c.Owns("C17.uu.types") && (o != o1 || errText([]error{e2, e3, e4}[i]) != errText(e1)) {
				c.Fail("C17.uu.types", line, "string: %s %q; variant %d: %s %q", o1, errText(e1), i, o, errText([]error{e2, e3, e4}[i]))
				return "MISMATCH-input-types " + o1 + " / " + o
			}
		}
		if e1 != nil {
			if typed, _ := uuPE(e1); c.Owns("C05.typed") && (!typed) {
				c.Fail("C05.typed", line, "error %T is not *uu.ParseError", e1)
				return "UNTYPED " + o1
			}
			if c.Owns("C05.zero") && (i1 != (uu.ID{})) {
				c.Fail("C05.zero", line, "value %v next to error", i1)
				return "NONZERO " + o1
			}
		}
		if r == 0 && c.Owns("C05.entry") {
			sentinel := uu.ID{Higher: 0x1111222233334444, Lower: 0x5555666677778888} // non-zero: a call that assigns nothing is visible
			u := sentinel
			eu := u.UnmarshalText(append([]byte(nil), in...))
			typed := true
			if eu != nil {
				typed, _ = uuPE(eu)
				if u != sentinel {
					c.Fail("C05.entry", line, "UnmarshalText returned %v and changed the receiver to %v", eu, u)
					return "MISMATCH-entry " + o1 + " / receiver changed"
				}
			}
			if ou := uuOutcome(u, eu); ou != o1 || !typed {
				c.Fail("C05.entry", line, "UnmarshalText: %s (typed %v), DefaultParser: %s", ou, typed, o1)
				return "MISMATCH-entry " + o1 + " / " + ou
			}
		}
		return o1
	case "uu.paths":
		id := uu.ID{Higher: atou(f[1]), Lower: atou(f[2])}
		mt, err := id.MarshalText()
		if err != nil {
			return "err marshal"
		}
		return strings.Join([]string{hx(mt), hx([]byte(id.String())), hx([]byte(id.URN())), hx([]byte(fmt.Sprintf("%s", id))),
			hx([]byte(fmt.Sprintf("%u", id))), hx([]byte(fmt.Sprintf("%v", id)))}, " ")
	case "uu.fields":
		id := uu.ID{Higher: atou(f[1]), Lower: atou(f[2])}
		return fmt.Sprintf("%d %d %s", id.Version(), id.Variant(), hx([]byte(id.URN())))
	case "uu.random":
		src := &fixedSource{vals: []int64{int64(atou(f[1])), int64(atou(f[2]))}}
		if !hookBuild {
			return "no-hook-in-this-build"
		}
		restore := setRandomSource(src)
		id := uu.RandomID()
		restore()
		if src.i != 2 {
			return fmt.Sprintf("DRAWS %d", src.i)
		}
		return fmt.Sprintf("%d %d", id.Higher, id.Lower)
	case "test.run":
		return testRun(f[1:])
	case "hist":
		return histRun(c, line, f[1:])
	}
	// operations outside the twenty properties (EXTRA, DESIGN.md §9.5): only in a harness built with -tags extra
	return execExtra(c, line, f)
}

type fixedSource struct {
	vals []int64
	i    int
}

func (s *fixedSource) Int63() int64 {
	v := s.vals[s.i%len(s.vals)]
	s.i++
	return v
}
func (s *fixedSource) Seed(int64) {}

var _ rand.Source = (*fixedSource)(nil)

func b01(b bool) string {
	if b {
		return "1"
	}
	return "0"
}

func errText(e error) string {
	if e == nil {
		return "<nil>"
	}
	return e.Error()
}

func dateYMD(d date.Date) string {
	y, m, dd := d.Date()
	return fmt.Sprintf("%d %d %d", y, int(m), dd)
}
func dateVal(d date.Date) string { return "ok " + dateYMD(d) }

func dateErrClass(err error) string {
	switch {
	case errors.Is(err, date.ErrInputTooLong):
		return "tooLong"
	case errors.Is(err, date.ErrBasicFormatDisabled):
		return "basicDisabled"
	case errors.Is(err, date.ErrInvalidLength):
		return "invalidLength"
	case errors.Is(err, date.ErrUnsupportedVersion):
		return "unsupportedVersion"
	case errors.Is(err, date.ErrInvalidDate):
		return "invalidDate"
	case errors.Is(err, date.ErrInvalidType):
		return "invalidType"
	case errors.Is(err, date.ErrInvalidFromOrTo):
		return "invalidFromOrTo"
	}
	if _, bare := datePE(err); bare {
		return "invalid"
	}
	return "other:" + err.Error()
}

func dateOutcome(d date.Date, err error) string {
	if err != nil {
		return "err " + dateErrClass(err)
	}
	return dateVal(d)
}

func romanErrClass(err error) string {
	if errors.Is(err, roman.ErrInputTooLong) {
		return "tooLong"
	}
	if _, bare := romanPE(err); bare {
		return "invalid"
	}
	return "other:" + err.Error()
}

func romanOutcome(n roman.Number, err error) string {
	if err != nil {
		return "err " + romanErrClass(err)
	}
	return fmt.Sprintf("ok %d", uint64(n))
}

func semParse[T ~string | ~[]byte](entry string, in T) (sem.Ver, error) {
	switch entry {
	case "Parse":
		return sem.Parse(in)
	case "ParseVersion":
		return sem.ParseVersion(in)
	case "ParseTag":
		return sem.ParseTag(in)
	case "Default":
		return sem.DefaultParser(in, 0)
	case "DefaultNoTag":
		return sem.DefaultParser(in, sem.RuleDisableTag)
	}
	if strings.HasPrefix(entry, "Default:") { // DefaultParser under an arbitrary rule value (a flag set)
		return sem.DefaultParser(in, sem.Rule(atoi(entry[8:])))
	}
	panic("bad entry " + entry)
}

// semLoadedReceivers: variables that already hold a version (every field non-zero; the zero version 0.0.0 with texts)
var semLoadedReceivers = []sem.Ver{{Major: 9, Minor: 8, Patch: 7, PreRelease: "old.1", Build: "old.b"}, {PreRelease: "0", Build: "0"}, {Major: 1<<64 - 1, Minor: 1, Build: "only.build"}, {Patch: 3, PreRelease: "only-pre"}}

func semVal(v sem.Ver) string {
	return fmt.Sprintf("ok %d %d %d %s %s", v.Major, v.Minor, v.Patch, hx([]byte(v.PreRelease)), hx([]byte(v.Build)))
}

func semErrClass(err error) string {
	for _, p := range []struct {
		e error
		n string
	}{{sem.ErrInputTooLong, "tooLong"}, {sem.ErrTagFormNotAllowed, "tagNotAllowed"}, {sem.ErrExpectedTagForm, "expectedTag"},
		{sem.ErrInvalidMajor, "invalidMajor"}, {sem.ErrInvalidMinor, "invalidMinor"}, {sem.ErrInvalidPatch, "invalidPatch"},
		{sem.ErrInvalidPreRelease, "invalidPreRelease"}, {sem.ErrInvalidBuild, "invalidBuild"}} {
		if errors.Is(err, p.e) {
			return p.n
		}
	}
	if _, bare := semPE(err); bare {
		return "invalid"
	}
	return "other:" + err.Error()
}

func semOutcome(v sem.Ver, err error) string {
	if err != nil {
		return "err " + semErrClass(err)
	}
	return semVal(v)
}

func sizeErrClass(err error) string {
	var ue *size.InvalidUnitError
	if errors.As(err, &ue) {
		return "invalidUnit"
	}
	for _, p := range []struct {
		e error
		n string
	}{{size.ErrInputTooLong, "tooLong"}, {size.ErrObjectTooBig, "tooBig"}, {size.ErrInvalidType, "invalidType"},
		{size.ErrUnexpectedData, "unexpectedData"}, {size.ErrUnitDisabled, "unitDisabled"}, {size.ErrExpectedObject, "expectedObject"},
		{size.ErrObjectFormDisabled, "objectDisabled"}, {size.ErrStringFormDisabled, "stringDisabled"},
		{size.ErrMissingValueKey, "missingValue"}, {size.ErrMissingUnitKey, "missingUnit"}, {size.ErrUnexpectedKey, "unexpectedKey"},
		{size.ErrDuplicatedValueKey, "dupValue"}, {size.ErrDuplicatedUnitKey, "dupUnit"},
		{strconv.ErrRange, "numRange"}, {strconv.ErrSyntax, "numSyntax"}, {io.ErrUnexpectedEOF, "jsonUnexpectedEOF"}, {io.EOF, "jsonEOF"}} {
		if errors.Is(err, p.e) {
			return p.n
		}
	}
	var se *json.SyntaxError
	if errors.As(err, &se) {
		return "jsonSyntax"
	}
	if isInvalidValueError(err) {
		return "invalidValue"
	}
	if _, bare := sizePE(err); bare {
		return "invalid"
	}
	return "other:" + err.Error()
}

func isInvalidValueError(err error) bool {
	var (
		e1  *size.InvalidValueError[int]
		e2  *size.InvalidValueError[int8]
		e3  *size.InvalidValueError[int16]
		e4  *size.InvalidValueError[int32]
		e5  *size.InvalidValueError[int64]
		e6  *size.InvalidValueError[uint]
		e7  *size.InvalidValueError[uint8]
		e8  *size.InvalidValueError[uint16]
		e9  *size.InvalidValueError[uint32]
		e10 *size.InvalidValueError[uint64]
		e11 *size.InvalidValueError[float32]
		e12 *size.InvalidValueError[float64]
		e13 *size.InvalidValueError[myInt16]
		e14 *size.InvalidValueError[myFloat64]
	)
	return errors.As(err, &e1) || errors.As(err, &e2) || errors.As(err, &e3) || errors.As(err, &e4) || errors.As(err, &e5) ||
		errors.As(err, &e6) || errors.As(err, &e7) || errors.As(err, &e8) || errors.As(err, &e9) || errors.As(err, &e10) ||
		errors.As(err, &e11) || errors.As(err, &e12) || errors.As(err, &e13) || errors.As(err, &e14)
}

type (
	myInt16   int16
	myFloat64 float64
)

func sizeOutcome(s size.Size, err error) string {
	if err != nil {
		return "err " + sizeErrClass(err)
	}
	return fmt.Sprintf("ok %d", uint64(s))
}

// numeric argument encodings: i:<int> or f:nan / f:+inf / f:-inf / f:<m>:<e> (value m·2^e)
func parseFloatEnc(enc string) float64 {
	p := strings.Split(enc, ":")
	switch {
	case len(p) == 2 && p[1] == "nan":
		return math.NaN()
	case len(p) == 2 && p[1] == "+inf":
		return math.Inf(1)
	case len(p) == 2 && p[1] == "-inf":
		return math.Inf(-1)
	case len(p) == 3:
		m, _ := new(big.Int).SetString(p[1], 10)
		f := new(big.Float).SetPrec(200).SetInt(m)
		f.SetMantExp(f, atoi(p[2]))
		v, acc := f.Float64()
		if acc != big.Exact {
			panic("bad float (inexact) " + enc)
		}
		return v
	}
	panic("bad float " + enc)
}

func newInt[N int | int8 | int16 | int32 | int64 | uint | uint8 | uint16 | uint32 | uint64 | myInt16](enc, unit string) string {
	p := strings.Split(enc, ":")
	if len(p) != 2 || p[0] != "i" {
		panic("bad int enc")
	}
	bi, ok := new(big.Int).SetString(p[1], 10)
	if !ok {
		panic("bad int enc")
	}
	var v N
	if bi.Sign() < 0 {
		v = N(bi.Int64())
		if big.NewInt(int64(v)).Cmp(bi) != 0 {
			panic("bad int enc (range)")
		}
	} else {
		v = N(bi.Uint64())
		if new(big.Int).SetUint64(uint64(v)).Cmp(bi) != 0 || v < 0 {
			panic("bad int enc (range)")
		}
	}
	s, err := size.New(v, unit)
	return sizeNewOutcome(s, err)
}

func sizeNewOutcome(s size.Size, err error) string {
	if err != nil {
		if s != 0 {
			return "NONZERO err " + sizeErrClass(err)
		}
		return "err " + sizeErrClass(err)
	}
	return fmt.Sprintf("ok %d", uint64(s))
}

func sizeNew(kind, enc, unit string) string {
	switch kind {
	case "int":
		return newInt[int](enc, unit)
	case "int8":
		return newInt[int8](enc, unit)
	case "int16":
		return newInt[int16](enc, unit)
	case "myInt16":
		return newInt[myInt16](enc, unit)
	case "int32":
		return newInt[int32](enc, unit)
	case "int64":
		return newInt[int64](enc, unit)
	case "uint":
		return newInt[uint](enc, unit)
	case "uint8":
		return newInt[uint8](enc, unit)
	case "uint16":
		return newInt[uint16](enc, unit)
	case "uint32":
		return newInt[uint32](enc, unit)
	case "uint64":
		return newInt[uint64](enc, unit)
	case "float64":
		return sizeNewOutcome(size.New(parseFloatEnc(enc), unit))
	case "myFloat64":
		return sizeNewOutcome(size.New(myFloat64(parseFloatEnc(enc)), unit))
	case "float32":
		v := parseFloatEnc(enc)
		if !math.IsNaN(v) && float64(float32(v)) != v {
			panic("bad float32 (inexact)")
		}
		return sizeNewOutcome(size.New(float32(v), unit))
	}
	panic("bad kind " + kind)
}

func bytesOut[N int | int8 | int16 | int32 | int64 | uint | uint8 | uint16 | uint32 | uint64](s size.Size) string {
	v, ok := size.Bytes[N](s)
	return fmt.Sprintf("%d %s", uint64(v), b01(ok))
}

func sizeBytes(kind string, s size.Size) string {
	switch kind {
	case "int":
		return bytesOut[int](s)
	case "int8":
		return bytesOut[int8](s)
	case "int16":
		return bytesOut[int16](s)
	case "int32":
		return bytesOut[int32](s)
	case "int64":
		return bytesOut[int64](s)
	case "uint":
		return bytesOut[uint](s)
	case "uint8":
		return bytesOut[uint8](s)
	case "uint16":
		return bytesOut[uint16](s)
	case "uint32":
		return bytesOut[uint32](s)
	case "uint64":
		return bytesOut[uint64](s)
	case "float32":
		v, ok := size.Bytes[float32](s)
		bi, _ := new(big.Float).SetFloat64(float64(v)).Int(nil)
		return bi.String() + " " + b01(ok)
	case "float64":
		v, ok := size.Bytes[float64](s)
		bi, _ := new(big.Float).SetFloat64(v).Int(nil)
		return bi.String() + " " + b01(ok)
	}
	panic("bad kind " + kind)
}

// jsonTokens drives the real encoding/json Decoder the way package size does (UseNumber, More
// before every Token) so that the GoJson model itself is validated.
func jsonTokens(in []byte) string {
	d := json.NewDecoder(bytes.NewReader(in))
	d.UseNumber()
	var parts []string
	for i := 0; i < len(in)+2; i++ {
		m := b01(d.More())
		t, err := d.Token()
		if err != nil {
			cls := "syntax"
			if err == io.EOF {
				cls = "eof"
			} else if err == io.ErrUnexpectedEOF {
				cls = "unexpectedEOF"
			} else {
				var se *json.SyntaxError
				if !errors.As(err, &se) {
					cls = "other:" + err.Error()
				}
			}
			parts = append(parts, m+"E:"+cls)
			return strings.Join(parts, " ")
		}
		switch v := t.(type) {
		case json.Delim:
			parts = append(parts, m+"D"+hx([]byte{byte(v)}))
		case string:
			parts = append(parts, m+"S"+hx([]byte(v)))
		case json.Number:
			parts = append(parts, m+"N"+hx([]byte(v)))
		case bool:
			if v {
				parts = append(parts, m+"T")
			} else {
				parts = append(parts, m+"F")
			}
		case nil:
			parts = append(parts, m+"Z")
		default:
			parts = append(parts, m+"?")
		}
	}
	parts = append(parts, "fuel")
	return strings.Join(parts, " ")
}

func uuOutcome(id uu.ID, err error) string {
	if err != nil {
		return "err " + uuErrClass(err)
	}
	return fmt.Sprintf("ok %d %d", id.Higher, id.Lower)
}

func uuErrClass(err error) string {
	if errors.Is(err, uu.ErrInputTooLong) {
		return "tooLong"
	}
	if errors.Is(err, uu.ErrURNFormatDisabled) {
		return "urnDisabled"
	}
	var de uu.InvalidDigitError
	if errors.As(err, &de) {
		return fmt.Sprintf("invalidDigit:%d", byte(de))
	}
	if _, bare := uuPE(err); bare {
		return "invalid"
	}
	return "other:" + err.Error()
}

// isPE reports whether err is (or wraps) the package's typed parse error in any instantiation of
// its input type parameter, and whether that error carries no inner error (the bare "invalid" case).
func datePE(err error) (typed, bare bool) {
	var a *date.ParseError[string]
	var b *date.ParseError[[]byte]
	var c *date.ParseError[namedString]
	var d *date.ParseError[namedBytes]
	switch {
	case errors.As(err, &a):
		return true, a.Err == nil
	case errors.As(err, &b):
		return true, b.Err == nil
	case errors.As(err, &c):
		return true, c.Err == nil
	case errors.As(err, &d):
		return true, d.Err == nil
	}
	return false, false
}

func romanPE(err error) (typed, bare bool) {
	var a *roman.NumberFormatError[string]
	var b *roman.NumberFormatError[[]byte]
	var c *roman.NumberFormatError[namedString]
	var d *roman.NumberFormatError[namedBytes]
	switch {
	case errors.As(err, &a):
		return true, a.Err == nil
	case errors.As(err, &b):
		return true, b.Err == nil
	case errors.As(err, &c):
		return true, c.Err == nil
	case errors.As(err, &d):
		return true, d.Err == nil
	}
	return false, false
}

func semPE(err error) (typed, bare bool) {
	var a *sem.ParseError[string]
	var b *sem.ParseError[[]byte]
	var c *sem.ParseError[namedString]
	var d *sem.ParseError[namedBytes]
	switch {
	case errors.As(err, &a):
		return true, a.Err == nil
	case errors.As(err, &b):
		return true, b.Err == nil
	case errors.As(err, &c):
		return true, c.Err == nil
	case errors.As(err, &d):
		return true, d.Err == nil
	}
	return false, false
}

func sizePE(err error) (typed, bare bool) {
	var a *size.ParseError[string]
	var b *size.ParseError[[]byte]
	var c *size.ParseError[namedString]
	var d *size.ParseError[namedBytes]
	switch {
	case errors.As(err, &a):
		return true, a.Err == nil
	case errors.As(err, &b):
		return true, b.Err == nil
	case errors.As(err, &c):
		return true, c.Err == nil
	case errors.As(err, &d):
		return true, d.Err == nil
	}
	return false, false
}

func uuPE(err error) (typed, bare bool) {
	var a *uu.ParseError[string]
	var b *uu.ParseError[[]byte]
	var c *uu.ParseError[namedString]
	var d *uu.ParseError[namedBytes]
	switch {
	case errors.As(err, &a):
		return true, a.Err == nil
	case errors.As(err, &b):
		return true, b.Err == nil
	case errors.As(err, &c):
		return true, c.Err == nil
	case errors.As(err, &d):
		return true, d.Err == nil
	}
	return false, false
}
