//go:build verif

package main

import (
	"math/rand"

	"go.lstv.dev/util/uu"
)

// hookBuild: this harness binary was built with the `verif` tag, i.e. against the library WITH uu/verif_hooks.go.
// Only C19's hooked oracles need that; everything else is judged on the library as it ships (no tag).
const hookBuild = true

func setRandomSource(src rand.Source) func() { return uu.VerifSetRandomSource(src) }
