package main

// Cross-package properties C16 (formatters append), C17 (failed parses leave receiver and input
// untouched; string and bytes agree) and C18 (parsers are total and enforce the input limit first),
// plus the `hist` protocol operation (a receiver under a history of unmarshal / scan calls).

import (
	"bytes"
	"encoding/json"
	"errors"
	"fmt"
	"math"
	"os"
	"os/exec"
	"path/filepath"
	"runtime"
	"strconv"
	"strings"
	"time"

	"go.lstv.dev/util/date"
	"go.lstv.dev/util/roman"
	"go.lstv.dev/util/sem"
	"go.lstv.dev/util/size"
	"go.lstv.dev/util/uu"
)

func init() {
	props["C16"] = propC16
	props["C17"] = propC17
	props["C18"] = propC18
}

// cxDef holds the package globals as the source initialises them (captured before anything changes them).
var cxDef = struct {
	dateML, romanML, semML, sizeML, sizeMK, uuML int
	sizeRule                                      size.Rule
}{date.MaxInputLength, roman.MaxInputLength, sem.MaxInputLength, size.MaxInputLength, size.MaxObjectKeys, uu.MaxInputLength, size.DefaultRule}

// cxSetLimits sets the five input limits and returns the restore function.
func cxSetLimits(d, r, s, z, u int) func() {
	od, or, os_, oz, ou := date.MaxInputLength, roman.MaxInputLength, sem.MaxInputLength, size.MaxInputLength, uu.MaxInputLength
	date.MaxInputLength, roman.MaxInputLength, sem.MaxInputLength, size.MaxInputLength, uu.MaxInputLength = d, r, s, z, u
	return func() {
		date.MaxInputLength, roman.MaxInputLength, sem.MaxInputLength, size.MaxInputLength, uu.MaxInputLength = od, or, os_, oz, ou
	}
}

// cxSetDefaults puts every parsing-related package global at its source default.
func cxSetDefaults() func() {
	r1 := cxSetLimits(cxDef.dateML, cxDef.romanML, cxDef.semML, cxDef.sizeML, cxDef.uuML)
	ok, orl := size.MaxObjectKeys, size.DefaultRule
	size.MaxObjectKeys, size.DefaultRule = cxDef.sizeMK, cxDef.sizeRule
	return func() {
		size.MaxObjectKeys, size.DefaultRule = ok, orl
		r1()
	}
}

// ------------------------------------------------------------------------------------- hist op

type cxHOp struct {
	kind      string // T J B St Sx
	data      []byte
	sec, nsec int64
	off       int
}

func cxLowerHex(s string) bool {
	for i := 0; i < len(s); i++ {
		if !(s[i] >= '0' && s[i] <= '9' || s[i] >= 'a' && s[i] <= 'f') {
			return false
		}
	}
	return true
}

func cxParseHOp(s string) (cxHOp, bool) {
	p := strings.Split(s, ":")
	switch {
	case len(p) == 2 && (p[0] == "T" || p[0] == "J" || p[0] == "B"):
		if p[1] != "-" && !cxLowerHex(p[1]) {
			return cxHOp{}, false
		}
		b, ok := unhx(p[1])
		return cxHOp{kind: p[0], data: b}, ok
	case len(p) == 5 && p[0] == "S" && p[1] == "t":
		sec, e1 := strconv.ParseInt(p[2], 10, 64)
		nsec, e2 := strconv.ParseInt(p[3], 10, 64)
		off, e3 := strconv.Atoi(p[4])
		return cxHOp{kind: "St", sec: sec, nsec: nsec, off: off}, e1 == nil && e2 == nil && e3 == nil
	case len(p) == 2 && p[0] == "S" && p[1] == "x":
		return cxHOp{kind: "Sx"}, true
	}
	return cxHOp{}, false
}

// cxRecv is one receiver variable of one of the five value types.
type cxRecv struct {
	typ string
	d   date.Date
	r   roman.Number
	s   sem.Ver
	z   size.Size
	u   uu.ID
}

// render prints the receiver the way the model driver does; the text owns fresh memory.
func (v *cxRecv) render() string {
	switch v.typ {
	case "date":
		return dateYMD(v.d)
	case "roman":
		return strconv.FormatUint(uint64(v.r), 10)
	case "sem":
		return strings.TrimPrefix(semVal(v.s), "ok ")
	case "size":
		return strconv.FormatUint(uint64(v.z), 10)
	case "uu":
		return fmt.Sprintf("%d %d", v.u.Higher, v.u.Lower)
	}
	return "?"
}

func (v *cxRecv) class(err error) string {
	switch v.typ {
	case "date":
		return dateErrClass(err)
	case "roman":
		return romanErrClass(err)
	case "sem":
		return semErrClass(err)
	case "size":
		return sizeErrClass(err)
	}
	return uuErrClass(err)
}

// cxNonTime returns the i-th value of a rotation of values that are not a time.Time.
func cxNonTime(i int) any {
	t := time.Date(2024, 2, 29, 12, 0, 0, 0, time.UTC)
	vals := []any{nil, 20240229, "2024-02-29", []byte("2024-02-29"), &t, int64(1709164800), 1.5, true, date.New(2024, 2, 29), struct{}{}, []any{t}}
	return vals[i%len(vals)]
}

// call performs the op on the receiver; supported=false when the type has no such entry point.
func (v *cxRecv) call(op cxHOp, buf []byte, idx int) (err error, supported, panicked bool) {
	defer func() {
		if r := recover(); r != nil {
			panicked = true
		}
	}()
	supported = true
	switch {
	case op.kind == "T":
		switch v.typ {
		case "date":
			err = v.d.UnmarshalText(buf)
		case "roman":
			err = v.r.UnmarshalText(buf)
		case "sem":
			err = v.s.UnmarshalText(buf)
		case "size":
			err = v.z.UnmarshalText(buf)
		case "uu":
			err = v.u.UnmarshalText(buf)
		}
	case op.kind == "J" && v.typ == "size":
		err = v.z.UnmarshalJSON(buf)
	case op.kind == "B" && v.typ == "date":
		err = v.d.UnmarshalBinary(buf)
	case op.kind == "St" && v.typ == "date":
		err = v.d.Scan(time.Unix(op.sec, op.nsec).In(time.FixedZone("z", op.off)))
	case op.kind == "Sx" && v.typ == "date":
		err = v.d.Scan(cxNonTime(idx))
	default:
		supported = false
	}
	return
}

const cxGuardLen = 8

// cxGuarded copies in into a fresh array followed by guard bytes; the returned slice's capacity
// reaches into the guard so that an append by the callee becomes visible.
func cxGuarded(in []byte) (buf, full []byte) {
	full = make([]byte, len(in)+cxGuardLen)
	copy(full, in)
	for j := len(in); j < len(full); j++ {
		full[j] = 0x55
	}
	return full[:len(in)], full
}

func cxIntact(in, full []byte) bool {
	if !bytes.Equal(full[:len(in)], in) {
		return false
	}
	for _, b := range full[len(in):] {
		if b != 0x55 {
			return false
		}
	}
	return true
}

func cxScribble(full []byte) {
	for i := range full {
		full[i] = 0xAA
	}
}

func cxClassKind(cls string) string {
	if i := strings.IndexByte(cls, ':'); i > 0 {
		return cls[:i]
	}
	return cls
}

// histRun executes `hist <type> <op>...` on one receiver starting at its zero value with all package
// globals at their defaults and prints, per op, `<res> = <receiver after the op>` joined by " | ".
func histRun(c *Ctx, line string, f []string) string {
	if len(f) == 0 {
		return "bad-op"
	}
	typ := f[0]
	switch typ {
	case "date", "roman", "sem", "size", "uu":
	default:
		return "bad-op"
	}
	ops := make([]cxHOp, 0, len(f)-1)
	for _, s := range f[1:] {
		op, ok := cxParseHOp(s)
		if !ok {
			return "bad-op"
		}
		ops = append(ops, op)
	}
	defer cxSetDefaults()()
	v := &cxRecv{typ: typ}
	zero := v.render()
	parts := make([]string, 0, len(ops))
	for i, op := range ops {
		before := v.render()
		buf, full := cxGuarded(op.data)
		if len(op.data) == 0 && i%2 == 1 {
			buf = nil
		}
		err, supported, panicked := v.call(op, buf, i)
		c.Check("")
		res := "ok"
		switch {
		case !supported:
			res = "unsupported"
		case panicked:
			res = "panic"
		case err != nil:
			res = "err " + v.class(err)
		}
		if c.Dist != nil {
			c.Dist["hist."+typ+"."+op.kind+" -> "+cxClassKind(res)]++
		}
		bad := ""
		if !cxIntact(op.data, full) {
			c.Fail("C17."+typ+".input", line, "op %d (%s): the call modified its input buffer: %x (guard %x), was %x", i, op.kind, full[:len(op.data)], full[len(op.data):], op.data)
			bad = "INPUT-MUTATED"
		}
		after := v.render()
		if res != "ok" && after != before {
			c.Fail("C17."+typ+".recv", line, "op %d (%s) returned %q but the receiver went from %q to %q", i, op.kind, res, before, after)
			bad = "RECEIVER-CHANGED"
		}
		if res != "ok" && res != "unsupported" && before != zero {
			c.NT(1) // a failing call on a receiver that holds an earlier decoded value
		}
		msg := errText(err)
		cxScribble(full)
		if again := v.render(); again != after {
			c.Fail("C17."+typ+".retain", line, "op %d (%s): receiver %q became %q when the input buffer was overwritten", i, op.kind, after, again)
			bad = "RECEIVER-ALIASES-INPUT"
		}
		if err != nil && errText(err) != msg && c.Dist != nil {
			c.Dist["hist."+typ+": error value aliases the caller's buffer (message changed after scribble)"]++
		}
		parts = append(parts, res+" = "+after)
		if bad != "" {
			return bad + " at op " + strconv.Itoa(i) + ": " + strings.Join(parts, " | ")
		}
	}
	return strings.Join(parts, " | ")
}
