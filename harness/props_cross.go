package main

// Cross-package properties C16 (formatters append), C17 (failed parses leave receiver and input
// untouched; string and bytes agree) and C18 (parsers are total and enforce the input limit first),
// plus the `hist` protocol operation (a receiver under a history of unmarshal / scan calls).

import (
	"bytes"
	"database/sql"
	"database/sql/driver"
	"encoding/json"
	"errors"
	"fmt"
	"math"
	"os"
	"os/exec"
	"path/filepath"
	"runtime"
	"strconv"
	"strings"
	"time"

	"go.lstv.dev/util/date"
	"go.lstv.dev/util/roman"
	"go.lstv.dev/util/sem"
	"go.lstv.dev/util/size"
	"go.lstv.dev/util/uu"
)

func init() {
	props["C16"] = propC16
	props["C17"] = propC17
	props["C18"] = propC18
}

// cxDef holds the package globals as the source initialises them (captured before anything changes them).
var cxDef = struct {
	dateML, romanML, semML, sizeML, sizeMK, uuML int
	sizeRule                                     size.Rule
}{date.MaxInputLength, roman.MaxInputLength, sem.MaxInputLength, size.MaxInputLength, size.MaxObjectKeys, uu.MaxInputLength, size.DefaultRule}

// cxSetLimits sets the five input limits and returns the restore function.
func cxSetLimits(d, r, s, z, u int) func() {
	od, or, os_, oz, ou := date.MaxInputLength, roman.MaxInputLength, sem.MaxInputLength, size.MaxInputLength, uu.MaxInputLength
	date.MaxInputLength, roman.MaxInputLength, sem.MaxInputLength, size.MaxInputLength, uu.MaxInputLength = d, r, s, z, u
	return func() {
		date.MaxInputLength, roman.MaxInputLength, sem.MaxInputLength, size.MaxInputLength, uu.MaxInputLength = od, or, os_, oz, ou
	}
}

// cxSetDefaults puts every parsing-related package global at its source default.
func cxSetDefaults() func() {
	r1 := cxSetLimits(cxDef.dateML, cxDef.romanML, cxDef.semML, cxDef.sizeML, cxDef.uuML)
	ok, orl := size.MaxObjectKeys, size.DefaultRule
	size.MaxObjectKeys, size.DefaultRule = cxDef.sizeMK, cxDef.sizeRule
	return func() {
		size.MaxObjectKeys, size.DefaultRule = ok, orl
		r1()
	}
}

// ------------------------------------------------------------------------------------- hist op

type cxHOp struct {
	kind      string // T J B St Sx
	data      []byte
	sec, nsec int64
	off       int
}

func cxLowerHex(s string) bool {
	for i := 0; i < len(s); i++ {
		if !(s[i] >= '0' && s[i] <= '9' || s[i] >= 'a' && s[i] <= 'f') {
			return false
		}
	}
	return true
}

func cxParseHOp(s string) (cxHOp, bool) {
	p := strings.Split(s, ":")
	switch {
	case len(p) == 2 && (p[0] == "T" || p[0] == "J" || p[0] == "B"):
		if p[1] != "-" && !cxLowerHex(p[1]) {
			return cxHOp{}, false
		}
		b, ok := unhx(p[1])
		return cxHOp{kind: p[0], data: b}, ok
	case len(p) == 5 && p[0] == "S" && p[1] == "t":
		sec, e1 := strconv.ParseInt(p[2], 10, 64)
		nsec, e2 := strconv.ParseInt(p[3], 10, 64)
		off, e3 := strconv.Atoi(p[4])
		return cxHOp{kind: "St", sec: sec, nsec: nsec, off: off}, e1 == nil && e2 == nil && e3 == nil
	case len(p) == 2 && p[0] == "S" && p[1] == "x":
		return cxHOp{kind: "Sx"}, true
	}
	return cxHOp{}, false
}

// cxRecv is one receiver variable of one of the five value types.
type cxRecv struct {
	typ string
	d   date.Date
	r   roman.Number
	s   sem.Ver
	z   size.Size
	u   uu.ID
}

// render prints the receiver the way the model driver does; the text owns fresh memory.
func (v *cxRecv) render() string {
	switch v.typ {
	case "date":
		return dateYMD(v.d)
	case "roman":
		return strconv.FormatUint(uint64(v.r), 10)
	case "sem":
		return strings.TrimPrefix(semVal(v.s), "ok ")
	case "size":
		return strconv.FormatUint(uint64(v.z), 10)
	case "uu":
		return fmt.Sprintf("%d %d", v.u.Higher, v.u.Lower)
	}
	return "?"
}

func (v *cxRecv) class(err error) string {
	switch v.typ {
	case "date":
		return dateErrClass(err)
	case "roman":
		return romanErrClass(err)
	case "sem":
		return semErrClass(err)
	case "size":
		return sizeErrClass(err)
	}
	return uuErrClass(err)
}

type (
	cxMyTime   time.Time
	cxTimeBox  struct{ time.Time }
	cxValuer   struct{ t time.Time }
	cxStringer struct{}
)

func (v cxValuer) Value() (driver.Value, error) { return v.t, nil }
func (cxStringer) String() string               { return "2024-02-29" }

// cxNonTimeVals: values that are not a time.Time - everything database/sql may hand to a Scanner (nil, int64, float64,
// bool, []byte, string), the wrappers people pass by mistake (sql.Null*, valid and not; pointers, nil and not; named
// and embedding types of time.Time; driver.Valuer; fmt.Stringer) and unrelated kinds. Date.Scan must refuse every one
// of them with an error and leave the receiver alone. (The first eleven are the original rotation, in their old places.)
func cxNonTimeVals() []any {
	t := time.Date(2024, 2, 29, 12, 0, 0, 0, time.UTC)
	d := date.New(2024, 2, 29)
	var nilT *time.Time
	var nilD *date.Date
	var nilNT *sql.NullTime
	return []any{nil, 20240229, "2024-02-29", []byte("2024-02-29"), &t, int64(1709164800), 1.5, true, date.New(2024, 2, 29), struct{}{}, []any{t},
		sql.NullTime{}, sql.NullTime{Time: t, Valid: true}, &sql.NullTime{Time: t, Valid: true}, &sql.NullTime{}, nilNT, nilT, nilD, &d,
		cxMyTime(t), cxTimeBox{t}, &cxTimeBox{t}, cxValuer{t}, cxStringer{}, sql.NullString{String: "2024-02-29", Valid: true}, sql.NullString{}, sql.NullInt64{Int64: 1709164800, Valid: true},
		sql.RawBytes("2024-02-29"), json.Number("20240229"), time.Duration(1709164800), uint64(20240229), int32(20240229), uint8(29), float32(1.5), "", []byte(nil), []byte{}, "0001-01-01",
		[]time.Time{t}, [1]time.Time{t}, map[string]time.Time{"t": t}, &[]byte{'x'}, func() time.Time { return t }, make(chan time.Time), complex(1, 2), errors.New("2024-02-29"), any(&nilT)}
}

// cxNonTime returns the i-th value of the rotation.
func cxNonTime(i int) any {
	vals := cxNonTimeVals()
	return vals[i%len(vals)]
}

// call performs the op on the receiver; supported=false when the type has no such entry point.
func (v *cxRecv) call(op cxHOp, buf []byte, idx int) (err error, supported, panicked bool) {
	defer func() {
		if r := recover(); r != nil {
			panicked = true
		}
	}()
	supported = true
	switch {
	case op.kind == "T":
		switch v.typ {
		case "date":
			err = v.d.UnmarshalText(buf)
		case "roman":
			err = v.r.UnmarshalText(buf)
		case "sem":
			err = v.s.UnmarshalText(buf)
		case "size":
			err = v.z.UnmarshalText(buf)
		case "uu":
			err = v.u.UnmarshalText(buf)
		}
	case op.kind == "J" && v.typ == "size":
		err = v.z.UnmarshalJSON(buf)
	case op.kind == "B" && v.typ == "date":
		err = v.d.UnmarshalBinary(buf)
	case op.kind == "St" && v.typ == "date":
		err = v.d.Scan(time.Unix(op.sec, op.nsec).In(time.FixedZone("z", op.off)))
	case op.kind == "Sx" && v.typ == "date":
		err = v.d.Scan(cxNonTime(idx))
	default:
		supported = false
	}
	return
}

const mxU64 = ^uint64(0)

const cxGuardLen = 8

// cxGuarded copies in into a fresh array followed by guard bytes; the returned slice's capacity
// reaches into the guard so that an append by the callee becomes visible.
func cxGuarded(in []byte) (buf, full []byte) {
	full = make([]byte, len(in)+cxGuardLen)
	copy(full, in)
	for j := len(in); j < len(full); j++ {
		full[j] = 0x55
	}
	return full[:len(in)], full
}

func cxIntact(in, full []byte) bool {
	if !bytes.Equal(full[:len(in)], in) {
		return false
	}
	for _, b := range full[len(in):] {
		if b != 0x55 {
			return false
		}
	}
	return true
}

func cxScribble(full []byte) {
	for i := range full {
		full[i] = 0xAA
	}
}

func cxClassKind(cls string) string {
	if i := strings.IndexByte(cls, ':'); i > 0 {
		return cls[:i]
	}
	return cls
}

// histRun executes `hist <type> <op>...` on one receiver starting at its zero value with all package
// globals at their defaults and prints, per op, `<res> = <receiver after the op>` joined by " | ".
func histRun(c *Ctx, line string, f []string) string {
	if len(f) == 0 {
		return "bad-op"
	}
	typ := f[0]
	switch typ {
	case "date", "roman", "sem", "size", "uu":
	default:
		return "bad-op"
	}
	ops := make([]cxHOp, 0, len(f)-1)
	for _, s := range f[1:] {
		op, ok := cxParseHOp(s)
		if !ok {
			return "bad-op"
		}
		ops = append(ops, op)
	}
	defer cxSetDefaults()()
	v := &cxRecv{typ: typ}
	zero := v.render()
	parts := make([]string, 0, len(ops))
	for i, op := range ops {
		before := v.render()
		buf, full := cxGuarded(op.data)
		if len(op.data) == 0 && i%2 == 1 {
			buf = nil
		}
		err, supported, panicked := v.call(op, buf, i)
		c.Check("")
		res := "ok"
		switch {
		case !supported:
			res = "unsupported"
		case panicked:
			res = "panic"
		case err != nil:
			res = "err " + v.class(err)
		}
		if c.Dist != nil {
			c.Dist["hist."+typ+"."+op.kind+" -> "+cxClassKind(res)]++
		}
		bad := ""
		if !cxIntact(op.data, full) {
			c.Fail("C17."+typ+".input", line, "op %d (%s): the call modified its input buffer: %x (guard %x), was %x", i, op.kind, full[:len(op.data)], full[len(op.data):], op.data)
			bad = "INPUT-MUTATED"
		}
		after := v.render()
		if res != "ok" && after != before {
			c.Fail("C17."+typ+".recv", line, "op %d (%s) returned %q but the receiver went from %q to %q", i, op.kind, res, before, after)
			bad = "RECEIVER-CHANGED"
		}
		if res != "ok" && res != "unsupported" && before != zero {
			c.NT(1) // a failing call on a receiver that holds an earlier decoded value
		}
		// a successful call yields exactly the decoded value, whatever the receiver held before: the same op on a
		// fresh variable must leave the same value
		if res == "ok" && before != zero {
			w := &cxRecv{typ: typ}
			wb, _ := cxGuarded(op.data)
			if werr, _, wp := w.call(op, wb, i); werr == nil && !wp && w.render() != after {
				c.Fail("C17."+typ+".overwrite", line, "op %d (%s) succeeded on a receiver holding %q and left %q; on a zero receiver the same input gives %q", i, op.kind, before, after, w.render())
				bad = "RECEIVER-NOT-REPLACED"
			}
		}
		msg := errText(err)
		cxScribble(full)
		if again := v.render(); again != after {
			c.Fail("C17."+typ+".retain", line, "op %d (%s): receiver %q became %q when the input buffer was overwritten", i, op.kind, after, again)
			bad = "RECEIVER-ALIASES-INPUT"
		}
		if err != nil && errText(err) != msg && c.Dist != nil {
			c.Dist["hist."+typ+": error value aliases the caller's buffer (message changed after scribble)"]++
		}
		parts = append(parts, res+" = "+after)
		if bad != "" {
			return bad + " at op " + strconv.Itoa(i) + ": " + strings.Join(parts, " | ")
		}
	}
	return strings.Join(parts, " | ")
}

// ------------------------------------------------------------------------------------- generators

func cxRandBytes(r *Rng, n int) []byte {
	b := make([]byte, n)
	for i := range b {
		b[i] = byte(r.Next())
	}
	return b
}

var (
	cxRomH = [10]string{"", "C", "CC", "CCC", "CD", "D", "DC", "DCC", "DCCC", "CM"}
	cxRomT = [10]string{"", "X", "XX", "XXX", "XL", "L", "LX", "LXX", "LXXX", "XC"}
	cxRomU = [10]string{"", "I", "II", "III", "IV", "V", "VI", "VII", "VIII", "IX"}
)

// cxRomanFmt is an independent numeral builder (flags as in roman.Format: long 4/40/400/9/90/900, lower case).
func cxRomanFmt(n uint64, flags int) string {
	if n == 0 {
		return ""
	}
	digit := func(tab *[10]string, d uint64, one, five string, long4, long9 bool) string {
		if d == 4 && long4 {
			return strings.Repeat(one, 4)
		}
		if d == 9 && long9 {
			return five + strings.Repeat(one, 4)
		}
		return tab[d]
	}
	s := strings.Repeat("M", int(n/1000)) +
		digit(&cxRomH, n/100%10, "C", "D", flags&4 != 0, flags&32 != 0) +
		digit(&cxRomT, n/10%10, "X", "L", flags&2 != 0, flags&16 != 0) +
		digit(&cxRomU, n%10, "I", "V", flags&1 != 0, flags&8 != 0)
	if flags&64 != 0 {
		b := []byte(s)
		for i := range b {
			b[i] += 'a' - 'A'
		}
		s = string(b)
	}
	return s
}

func cxRandCase(r *Rng, s string) string {
	b := []byte(s)
	mode := r.Intn(4)
	for i, ch := range b {
		isL := ch >= 'a' && ch <= 'z' || ch >= 'A' && ch <= 'Z'
		if !isL {
			continue
		}
		switch mode {
		case 1:
			b[i] = ch | 0x20
		case 2:
			b[i] = ch &^ 0x20
		case 3:
			if r.Bool() {
				b[i] = ch ^ 0x20
			}
		}
	}
	return string(b)
}

const cxHexDigits = "0123456789abcdef"

// cxUUText is an independent nibble-by-nibble rendering.
func cxUUText(hi, lo uint64) string {
	var b [36]byte
	pos := 0
	for k := 0; k < 32; k++ {
		if pos == 8 || pos == 13 || pos == 18 || pos == 23 {
			b[pos] = '-'
			pos++
		}
		var nib uint64
		if k < 16 {
			nib = hi >> uint(60-4*k) & 15
		} else {
			nib = lo >> uint(60-4*(k-16)) & 15
		}
		b[pos] = cxHexDigits[nib]
		pos++
	}
	return string(b[:])
}

func cxDateYMD(r *Rng) (y, m, d int) {
	if r.Intn(4) == 0 {
		y = boundaryYears[r.Intn(len(boundaryYears))]
	} else {
		y = r.Intn(10000)
	}
	m = 1 + r.Intn(12)
	switch r.Intn(4) {
	case 0:
		d = dim(y, m)
	case 1:
		d = 1
	default:
		d = 1 + r.Intn(dim(y, m))
	}
	return
}

func cxDateText(r *Rng) string {
	y, m, d := cxDateYMD(r)
	if r.Intn(3) == 0 {
		return digits(y, 4) + digits(m, 2) + digits(d, 2)
	}
	return digits(y, 4) + "-" + digits(m, 2) + "-" + digits(d, 2)
}

var (
	cxSemNums  = []string{"0", "1", "2", "3", "10", "99", "100", "123456", "18446744073709551615", "9223372036854775808"}
	cxSemPre   = []string{"alpha", "beta", "rc", "1", "0", "11", "rc-1", "x-y-z", "a1", "0a", "SNAPSHOT", "-", "2", "beta2"}
	cxSemBuild = []string{"b7", "001", "exp", "sha-5114f85", "20240229", "-", "0"}
)

func cxSemText(r *Rng) string {
	s := ""
	if r.Intn(3) == 0 {
		s = "v"
	}
	s += r.Pick(cxSemNums) + "." + r.Pick(cxSemNums) + "." + r.Pick(cxSemNums)
	if r.Intn(2) == 0 {
		s += "-" + r.Pick(cxSemPre)
		for k := r.Intn(3); k > 0; k-- {
			s += "." + r.Pick(cxSemPre)
		}
	}
	if r.Intn(3) == 0 {
		s += "+" + r.Pick(cxSemBuild)
		for k := r.Intn(2); k > 0; k-- {
			s += "." + r.Pick(cxSemBuild)
		}
	}
	return s
}

var cxUnits = []string{"", "", "B", "kB", "MB", "GB", "TB", "PB", "EB", "KiB", "MiB", "GiB", "TiB", "PiB", "EiB"}

func cxSizeNum(r *Rng) string {
	switch r.Intn(8) {
	case 0:
		return "0"
	case 1:
		return r.Pick([]string{"1", "7", "1023", "1024", "1000", "18446744073709551615", "16", "15"})
	}
	n := 1 + r.Intn(5)
	s := string(rune('1' + r.Intn(9)))
	for i := 1; i < n; i++ {
		s += string(rune('0' + r.Intn(10)))
	}
	return s
}

func cxSizeText(r *Rng) string {
	num := cxSizeNum(r)
	if r.Intn(4) == 0 && len(num) > 3 {
		sep := r.Pick([]string{"_", " ", " "})
		num = num[:len(num)-3] + sep + num[len(num)-3:]
	}
	s := strings.Repeat(" ", r.Intn(3)/2) + num
	u := r.Pick(cxUnits)
	if u != "" && r.Bool() {
		s += " "
	}
	s += u
	if r.Intn(4) == 0 {
		s += strings.Repeat(" ", 1+r.Intn(2))
	}
	return s
}

func cxJSONKey(r *Rng, k string) string {
	if r.Intn(4) == 0 {
		return `"` + cxRandCase(r, k) + `"`
	}
	return `"` + k + `"`
}

// cxSizeJSON builds a JSON document that package size accepts under the default rule.
func cxSizeJSON(r *Rng) string {
	u := r.Pick(cxUnits[1:])
	num := cxSizeNum(r)
	if len(num) > 12 {
		u = ""
	}
	switch r.Intn(6) {
	case 0:
		return num
	case 1:
		return `"` + num + r.Pick([]string{"", " "}) + u + `"`
	}
	ws := r.Pick([]string{"", "", " ", "\n\t"})
	mem := []string{cxJSONKey(r, "value") + ":" + ws + num, cxJSONKey(r, "unit") + ":" + ws + `"` + u + `"`}
	if r.Bool() {
		mem[0], mem[1] = mem[1], mem[0]
	}
	if r.Intn(3) == 0 {
		extra := `"x":` + r.Pick([]string{"1", "null", `"s"`, "[]", "{}", `[1,{"a":[true,null]}]`, `{"value":5}`, "-1.5e3"})
		p := r.Intn(3)
		mem = append(mem[:p], append([]string{extra}, mem[p:]...)...)
	}
	return ws + "{" + ws + strings.Join(mem, ","+ws) + ws + "}" + ws
}

var cxBadJSON = []string{`{"value":1,"unit":"KiB"`, `{"value":1,"unit":"KiB"} x`, `{"value":1,"unit":"KiB"}}`, `{"value":"1","unit":"B"}`, `{"value":1}`, `{"unit":"B"}`,
	`{"value":1,"value":2,"unit":"B"}`, `{"unit":"B","unit":"B","value":1}`, `[1]`, `true`, `null`, `{`, `}`, `{"value":1.5,"unit":"B"}`, `{"value":-1,"unit":"B"}`,
	`{"value":1e3,"unit":"B"}`, `{"value":18446744073709551616,"unit":"B"}`, `{"value":18014398509481984,"unit":"KiB"}`, `"1 XB"`, `"1KiB" x`, `12 34`, `01`, `"`, `"abc`,
	`{"value":1,"unit":5}`, `{"value":1 "unit":"B"}`, `{"value":1,,"unit":"B"}`, `{"x":[1,2,"value":1,"unit":"B"}`, `{"value":1,"unit":"kib"}`, `{"a":0,"b":0,"c":0,"d":0,"e":0,"f":0,"g":0,"h":0,"i":0,"j":0,"k":0,"l":0,"m":0,"n":0,"o":0,"p":0,"q":0}`,
	`{"value":2,"unit":"KiB","a":0,"b":0,"c":0,"d":0,"e":0,"f":0,"g":0,"h":0,"i":0,"j":0,"k":0,"l":0,"m":0,"n":0}`, `{"value":2,"unit":"KiB","a":0,"b":0,"c":0,"d":0,"e":0,"f":0,"g":0,"h":0,"i":0,"j":0,"k":0,"l":0,"m":0,"n":0,"o":0}`,
	`""`, `" "`, `{}`, `{"value":null,"unit":"B"}`, `{"VALUE":3,"Unit":"MB"}`, `"10 KiB"`, `{"value":1,"unit":"KiB"}`, "\xef\xbb\xbf1", `{"value":1,"unit":"B"}` + "\x00"}

func cxUUTextR(r *Rng) string {
	hi, lo := r.Next(), r.Next()
	switch r.Intn(8) {
	case 0:
		hi, lo = 0, 0
	case 1:
		hi, lo = ^uint64(0), ^uint64(0)
	}
	s := cxUUText(hi, lo)
	if r.Intn(3) == 0 {
		s = cxRandCase(r, s)
	}
	if r.Intn(3) == 0 {
		s = cxRandCase(r, "urn") + ":uuid:" + s
	}
	return s
}

// cxValidText returns a text the type's UnmarshalText accepts under the default settings.
func cxValidText(r *Rng, typ string) string {
	switch typ {
	case "date":
		return cxDateText(r)
	case "roman":
		n := uint64(r.Intn(4000))
		if r.Intn(5) == 0 {
			n = uint64(r.Intn(60000))
		}
		return cxRandCase(r, cxRomanFmt(n, []int{0, 0, 0, 63, 1, 8, 36}[r.Intn(7)]))
	case "sem":
		return cxSemText(r)
	case "size":
		return cxSizeText(r)
	case "uu":
		return cxUUTextR(r)
	}
	return ""
}

// cxLongText returns a text of exactly n bytes that the type's grammar accepts apart from the length
// limit, wherever the grammar has texts of that length.
func cxLongText(r *Rng, typ string, n int) string {
	if n <= 0 {
		return ""
	}
	switch typ {
	case "date":
		if n >= 10 && n <= 15 {
			return string(rune('1'+r.Intn(9))) + digits(r.Intn(100000000), n-7)[:n-7] + "-" + digits(1+r.Intn(12), 2) + "-" + digits(1+r.Intn(28), 2)
		}
		return strings.Repeat("2", n)
	case "roman":
		tail := r.Pick([]string{"", "CMXCIV", "XLII", "I", "DCCCLXXXVIII"})
		if len(tail) > n {
			tail = ""
		}
		return cxRandCase(r, strings.Repeat("M", n-len(tail))+tail)
	case "sem":
		if n < 7 {
			return "1.2.34567"[:max(n, 5)]
		}
		fill := []byte(strings.Repeat("a", n-6))
		for i := 2; i+2 < len(fill); i += 3 + r.Intn(40) {
			fill[i] = "."[0]
		}
		return "1.2.3-" + string(fill)
	case "size":
		if n < 5 {
			return strings.Repeat("7", n)
		}
		return strings.Repeat(" ", n-5) + "1 KiB"
	case "uu":
		switch {
		case n == 36:
			return cxUUText(r.Next(), r.Next())
		case n == 45:
			return "urn:uuid:" + cxUUText(r.Next(), r.Next())
		case n > 45:
			return "urn:uuid:" + cxUUText(r.Next(), r.Next()) + strings.Repeat("0", n-45)
		}
		if n > 36 {
			return cxUUText(r.Next(), r.Next()) + strings.Repeat("0", n-36)
		}
		return cxUUText(r.Next(), r.Next())[:n]
	}
	return ""
}

var cxNasty = []byte{0, ' ', '\n', '\t', '.', '-', '+', 'v', 'V', '0', '1', '9', 'a', 'f', 'g', 'F', 'Z', '_', '/', ':', '@', '[', '`', '{', '}', '"', ',', 0x7f, 0x80, 0xa0, 0xc2, 0xc3, 0xa9, 0xff, 'I', 'i', 'M', 'm', 'K', 'B'}

func cxMutate1(r *Rng, s string) string {
	if s == "" {
		return string(cxNasty[r.Intn(len(cxNasty))])
	}
	b := []byte(s)
	p := r.Intn(len(b))
	if r.Bool() {
		b[p] = byte(r.Next())
	} else {
		b[p] = cxNasty[r.Intn(len(cxNasty))]
	}
	return string(b)
}

func cxLimitOf(typ string) int {
	switch typ {
	case "date":
		return cxDef.dateML
	case "roman":
		return cxDef.romanML
	case "sem":
		return cxDef.semML
	case "size":
		return cxDef.sizeML
	}
	return cxDef.uuML
}

// cxGenText draws one text input for the type: about half valid, then near-valid mutations,
// truncations, empty, over-long (limit+1), exactly-at-limit and random bytes.
func cxGenText(r *Rng, typ string) string {
	valid := cxValidText(r, typ)
	lim := cxLimitOf(typ)
	p := r.Intn(100)
	if typ == "sem" && p >= 80 && p < 94 && r.Intn(4) != 0 { // kilobyte-long texts less often
		p = r.Intn(80)
	}
	switch {
	case p < 50:
		return valid
	case p < 65:
		return cxMutate1(r, valid)
	case p < 74:
		if valid == "" {
			return ""
		}
		return valid[:r.Intn(len(valid))]
	case p < 80:
		return ""
	case p < 88:
		if r.Intn(3) == 0 { // over-long without being otherwise valid
			return valid + strings.Repeat(r.Pick([]string{" ", "0", "x", "\xff"}), lim+1-min(len(valid), lim))
		}
		return cxLongText(r, typ, lim+1)
	case p < 94:
		return cxLongText(r, typ, lim)
	case p < 97:
		q := r.Intn(len(valid) + 1)
		return valid[:q] + string(cxNasty[r.Intn(len(cxNasty))]) + valid[q:]
	default:
		return string(cxRandBytes(r, r.Intn(20)))
	}
}

func cxDateBin(y int32, m, d byte) []byte {
	return []byte{1, byte(uint32(y) >> 24), byte(uint32(y) >> 16), byte(uint32(y) >> 8), byte(uint32(y)), m, d}
}

// cxGenBinary draws a binary date encoding: valid, bad version, bad length, month 13 / day 32 and the like.
func cxGenBinary(r *Rng) []byte {
	y, m, d := cxDateYMD(r)
	if r.Intn(6) == 0 {
		y = r.Intn(2*999999999+1) - 999999999
		d = 1 + r.Intn(dim(y, m))
	}
	b := cxDateBin(int32(y), byte(m), byte(d))
	switch p := r.Intn(100); {
	case p < 50:
	case p < 58:
		b[0] = []byte{0, 2, 255, byte(r.Next())}[r.Intn(4)]
	case p < 66:
		b = b[:r.Intn(7)]
	case p < 72:
		b = append(b, cxRandBytes(r, 1+r.Intn(5))...)
	case p < 80:
		b[5] = []byte{0, 13, 255, 12 + byte(r.Intn(200))}[r.Intn(4)]
	case p < 88:
		b[6] = []byte{0, 32, 255, byte(dim(y, m) + 1)}[r.Intn(4)]
	case p < 92:
		b[5], b[6] = 2, 30
	case p < 96:
		b = cxRandBytes(r, 7)
	default:
		b = nil
	}
	return b
}

const cxZeroUnix = -62135596800

func cxGenScanTime(r *Rng) string {
	sec := int64(r.Next()%uint64(253402300800-cxZeroUnix)) + cxZeroUnix
	switch r.Intn(8) {
	case 0:
		sec = cxZeroUnix
	case 1:
		sec = cxZeroUnix + int64(r.Intn(200000)) - 100000
	case 2:
		sec = []int64{0, 951868800, 1709164800, 1709251199, 1704067199, 4102444800, 253402300799}[r.Intn(7)] + int64(r.Intn(3)) - 1
	}
	nsec := []int64{0, 0, 1, 999999999, int64(r.Intn(1000000000))}[r.Intn(5)]
	off := (r.Intn(113) - 56) * 900
	switch r.Intn(6) {
	case 0:
		off = 0
	case 1:
		off = []int{1, -1, 3599, -3599, 86399, -86399}[r.Intn(6)]
	}
	return fmt.Sprintf("S:t:%d:%d:%d", sec, nsec, off)
}

// cxPool collects the distinct text inputs that the histories used.
type cxPool struct {
	seen map[string]struct{}
	list []string
	cap  int
}

func (p *cxPool) add(s string) {
	if len(p.list) >= p.cap || len(s) > 4096 {
		return
	}
	if _, ok := p.seen[s]; ok {
		return
	}
	p.seen[s] = struct{}{}
	p.list = append(p.list, s)
}

// cxGenHOp draws one history operation for the receiver type.
func cxGenHOp(r *Rng, typ string, pool *cxPool) string {
	switch typ {
	case "date":
		switch p := r.Intn(100); {
		case p < 25:
			return "B:" + hx(cxGenBinary(r))
		case p < 40:
			return cxGenScanTime(r)
		case p < 48:
			return "S:x"
		}
	case "size":
		var s string
		switch p := r.Intn(100); {
		case p < 30:
			s = cxSizeJSON(r)
		case p < 45:
			s = r.Pick(cxBadJSON)
		case p < 53:
			s = cxMutate1(r, cxSizeJSON(r))
		case p < 58:
			j := cxSizeJSON(r)
			s = j[:r.Intn(len(j)+1)]
		default:
			s = cxGenText(r, typ)
		}
		pool.add(s)
		if r.Bool() {
			return "J:" + hx([]byte(s))
		}
		return "T:" + hx([]byte(s))
	}
	s := cxGenText(r, typ)
	pool.add(s)
	return "T:" + hx([]byte(s))
}

// ---------------------------------------------------------------------------------------- C17

// cxUntouched runs every []byte-accepting entry point of the type on guarded copies of in (and in2 for
// the two-argument helpers): no call may modify its input, and no returned value may depend on the
// buffer afterwards. String and []byte instantiations must agree in error presence and message.
func cxUntouched(c *Ctx, typ string, in, in2 string) {
	type call struct {
		name string
		f    func(a, b []byte, sa, sb string) (vb, vs string, eb, es error)
	}
	var calls []call
	switch typ {
	case "date":
		for _, r := range []date.Rule{0, date.RuleDisableBasic} {
			r := r
			calls = append(calls, call{fmt.Sprintf("date.parse %d %d %s", cxDef.dateML, r, hx([]byte(in))), func(a, b []byte, sa, sb string) (string, string, error, error) {
				v1, e1 := date.DefaultParser(namedBytes(a), r)
				v2, e2 := date.DefaultParser(sa, r)
				return dateYMD(v1), dateYMD(v2), e1, e2
			}})
		}
	case "roman":
		for _, r := range []roman.Rule{0, roman.RuleDisableEmptyAsZero} {
			r := r
			calls = append(calls, call{fmt.Sprintf("roman.parse %d %d %s", cxDef.romanML, r, hx([]byte(in))), func(a, b []byte, sa, sb string) (string, string, error, error) {
				v1, e1 := roman.DefaultParser(a, r)
				v2, e2 := roman.DefaultParser(namedString(sa), r)
				return fmt.Sprint(uint64(v1)), fmt.Sprint(uint64(v2)), e1, e2
			}}, call{fmt.Sprintf("roman.valid %d %d %s", cxDef.romanML, r, hx([]byte(in))), func(a, b []byte, sa, sb string) (string, string, error, error) {
				e1 := roman.Valid(namedBytes(a), r)
				e2 := roman.Valid(namedString(sa), r)
				return "", "", e1, e2
			}})
		}
	case "sem":
		sv := func(v sem.Ver) string { return semVal(v) }
		for _, e := range []string{"Parse", "ParseVersion", "ParseTag", "Default", "DefaultNoTag"} {
			e := e
			calls = append(calls, call{fmt.Sprintf("sem.parse %s %d %s", e, cxDef.semML, hx([]byte(in))), func(a, b []byte, sa, sb string) (string, string, error, error) {
				v1, e1 := semParse(e, a)
				v2, e2 := semParse(e, sa)
				return sv(v1), sv(v2), e1, e2
			}})
		}
		two := fmt.Sprintf("%d %s %s", cxDef.semML, hx([]byte(in)), hx([]byte(in2)))
		calls = append(calls,
			call{"sem.cmpstr Parse " + two, func(a, b []byte, sa, sb string) (string, string, error, error) {
				r1, e1 := sem.Compare(a, namedBytes(b))
				r2, e2 := sem.Compare(namedString(sa), sb)
				return fmt.Sprint(r1), fmt.Sprint(r2), e1, e2
			}},
			call{"sem.cmpstr ParseTag " + two, func(a, b []byte, sa, sb string) (string, string, error, error) {
				r1, e1 := sem.CompareTag(a, b)
				r2, e2 := sem.CompareTag(sa, sb)
				return fmt.Sprint(r1), fmt.Sprint(r2), e1, e2
			}},
			call{"sem.latest Parse " + two, func(a, b []byte, sa, sb string) (string, string, error, error) {
				v1, e1 := sem.Latest(a, b)
				v2, e2 := sem.Latest(sa, sb)
				return sv(v1), sv(v2), e1, e2
			}},
			call{"sem.latest ParseVersion " + two, func(a, b []byte, sa, sb string) (string, string, error, error) {
				v1, e1 := sem.LatestVersion(namedBytes(a), b)
				v2, e2 := sem.LatestVersion(sa, namedString(sb))
				return sv(v1), sv(v2), e1, e2
			}},
			call{"sem.latest ParseTag " + two, func(a, b []byte, sa, sb string) (string, string, error, error) {
				v1, e1 := sem.LatestTag(a, b)
				v2, e2 := sem.LatestTag(sa, sb)
				return sv(v1), sv(v2), e1, e2
			}},
			call{"sem.cmppre " + hx([]byte(in)) + " " + hx([]byte(in2)), func(a, b []byte, sa, sb string) (string, string, error, error) {
				return fmt.Sprint(sem.DefaultComparePreRelease(a, namedBytes(b))), fmt.Sprint(sem.DefaultComparePreRelease(namedString(sa), sb)), nil, nil
			}})
	case "size":
		for _, r := range []size.Rule{0, 1, 2, 4, 6, 14, 15} {
			r := r
			calls = append(calls, call{fmt.Sprintf("size.parse %d %d %d %s", cxDef.sizeML, cxDef.sizeMK, r, hx([]byte(in))), func(a, b []byte, sa, sb string) (string, string, error, error) {
				v1, e1 := size.DefaultParser(a, r)
				v2, e2 := size.DefaultParser(sa, r)
				return fmt.Sprint(uint64(v1)), fmt.Sprint(uint64(v2)), e1, e2
			}})
		}
	case "uu":
		for r := uu.Rule(0); r < 4; r++ {
			r := r
			calls = append(calls, call{fmt.Sprintf("uu.parse %d %d %s", cxDef.uuML, r, hx([]byte(in))), func(a, b []byte, sa, sb string) (string, string, error, error) {
				v1, e1 := uu.DefaultParser(a, r)
				v2, e2 := uu.DefaultParser(sa, r)
				return fmt.Sprint(v1.Higher, v1.Lower), fmt.Sprint(v2.Higher, v2.Lower), e1, e2
			}})
		}
	}
	for _, cl := range calls {
		a, fa := cxGuarded([]byte(in))
		b, fb := cxGuarded([]byte(in2))
		var vb, vs string
		var eb, es error
		panicked := func() (p bool) {
			defer func() {
				if recover() != nil {
					p = true
				}
			}()
			vb, vs, eb, es = cl.f(a, b, in, in2)
			return
		}()
		c.Check("")
		if panicked {
			c.Fail("C17."+typ+".panic", cl.name, "panic")
			continue
		}
		if !cxIntact([]byte(in), fa) || !cxIntact([]byte(in2), fb) {
			c.Fail("C17."+typ+".input.parse", cl.name, "input modified: %x / %x", fa, fb)
		}
		if vb != vs || errText(eb) != errText(es) {
			c.Fail("C17."+typ+".types.direct", cl.name, "bytes: %s %q, string: %s %q", vb, errText(eb), vs, errText(es))
		}
	}
	if typ == "sem" { // a parsed version must own its strings
		a, fa := cxGuarded([]byte(in))
		if v, err := sem.Parse(a); err == nil {
			c.Check("")
			before := semVal(v)
			cxScribble(fa)
			if semVal(v) != before {
				c.Fail("C17.sem.retain.parse", "sem.parse Parse "+strconv.Itoa(cxDef.semML)+" "+hx([]byte(in)), "%s became %s", before, semVal(v))
			}
		}
	}
}

// cxHistOp records a `hist` line exactly as Ctx.Op does (ops.txt / impl.txt / counters). Ctx.Op derives
// its distribution key from the whole answer when the answer starts with "err", which for history
// answers would create one key per line; the per-call distribution is kept by histRun instead.
func cxHistOp(c *Ctx, line string) string {
	out := execOp(c, line)
	c.ops.WriteString(line)
	c.ops.WriteByte('\n')
	c.impl.WriteString(out)
	c.impl.WriteByte('\n')
	c.NOps++
	c.Evals++
	if len(c.Samples) < 12 && (c.NOps%9973 == 1 || c.NOps < 4) {
		smp := line + " => " + out
		if len(smp) > 600 {
			smp = smp[:600] + "…"
		}
		c.Samples = append(c.Samples, smp)
	}
	kind := "history"
	switch {
	case out == "bad-op" || out == "panic":
		kind = out
	case strings.HasPrefix(out, "INPUT-") || strings.HasPrefix(out, "RECEIVER-"):
		kind = out[:strings.IndexByte(out, ' ')]
	}
	c.Dist["hist -> "+kind]++
	return out
}

func propC17(c *Ctx) {
	defer cxSetDefaults()()
	types := []string{"date", "roman", "sem", "size", "uu"}
	nh, pcap, npairs := 4000, 2500, 1500
	if c.Thorough {
		nh, pcap, npairs = 60000, 9000, 6000
	}
	pools := map[string]*cxPool{}
	for _, t := range types {
		pools[t] = &cxPool{seen: map[string]struct{}{}, cap: pcap}
	}
	// 1. histories
	totalOps := 0
	for i := 0; i < nh; i++ {
		typ := types[i%len(types)]
		n := 1 + c.R.Intn(40)
		if i%7 == 0 {
			n = 1 + c.R.Intn(6)
		}
		ops := make([]string, n)
		for j := range ops {
			ops[j] = cxGenHOp(c.R, typ, pools[typ])
		}
		totalOps += n
		cxHistOp(c, "hist "+typ+" "+strings.Join(ops, " "))
	}
	// hand-written histories: a value decoded earlier survives every kind of failure
	for _, l := range []string{
		"hist date T:323032342d30322d3239 T:78 B:01000007e60d20 S:t:0:0:3600 S:x T:- T:3230323430323330 B:- B:02000007e80101 B:01000007e8021d B:01000007e8021e T:32303234303232393a",
		"hist date S:t:-62135596800:0:-3600 S:t:-62135596800:1:-3600 S:t:-62135596801:0:0 S:x B:0100000001010100 T:31323334352d30312d3031",
		"hist roman T:4d434d584349 T:4949494949 T:- T:6d6d78786976 T:6d6d78786976ff",
		"hist sem T:76312e322e332d72632e312b62 T:78 T:312e322e33 T:312e322e332d3031 T:- T:312e302e302d616c7068612b303031 T:76",
		"hist size T:31304b6942 J:7b2276616c7565223a312c22756e6974223a224b6942227d J:78 T:2d J:223132206b4222 T:223132206b4222 J:7b2276616c7565223a317d T:3132 J:3132",
		"hist uu T:65643730353966332d303030302d343030302d383030302d303030303030303030303030 T:78 T:- T:75726e3a757569643a65643730353966332d303030302d343030302d383030302d303030303030303030303031 T:65643730353966332d303030302d343030302d383030302d30303030303030303030303067",
		"hist uu B:00 J:00 S:x", "hist roman J:- S:t:0:0:0", "hist sem B:-", "hist size B:- S:x",
	} {
		cxHistOp(c, l)
	}
	// every Scan operand of cxNonTimeVals on a receiver that holds an earlier decoded value (the operand is chosen by the
	// position of the S:x call in the history), interleaved with successful scans, unmarshals and other failures
	nOper := len(cxNonTimeVals())
	for _, lead := range [][]string{{"T:323032342d30322d3239"}, {"S:t:951868800:0:3600", "B:01000007e8021d"}, {"B:0100001ec90901", "T:78", "S:t:-62135596800:0:-3600"}, {}} {
		ops := append([]string{}, lead...)
		for len(ops) < nOper+len(lead)+3 {
			ops = append(ops, "S:x")
			switch len(ops) % 7 {
			case 3:
				ops = append(ops, "S:t:1709164800:999999999:-43200")
			case 5:
				ops = append(ops, "T:313939392d31322d3331", "B:02000007e80101")
			}
		}
		cxHistOp(c, "hist date "+strings.Join(ops, " "))
		// direct: the same operands through Scan on a fresh holder of a known date
		for i, v := range cxNonTimeVals() {
			d := date.New(1999+len(lead), 12, 31)
			before := d
			var err error
			panicked := func() (p bool) {
				defer func() { p = recover() != nil }()
				err = d.Scan(v)
				return
			}()
			c.Check("")
			if panicked || err == nil || !d.Equal(before) || dateYMD(d) != dateYMD(before) {
				c.Fail("C17.date.recv", "", "Scan(%T) (operand %d): panic=%v err=%v, receiver %v -> %v", v, i, panicked, err, before, d)
			}
		}
	}
	c.Note("histories: %d with %d calls; distinct text inputs per type: date %d roman %d sem %d size %d uu %d", nh, totalOps,
		len(pools["date"].list), len(pools["roman"].list), len(pools["sem"].list), len(pools["size"].list), len(pools["uu"].list))
	// 2. the same inputs through every parser entry point (string, []byte, named types inside the ops)
	for _, s := range pools["date"].list {
		h := hx([]byte(s))
		c.Op(fmt.Sprintf("date.parse %d 0 %s", cxDef.dateML, h))
		c.Op(fmt.Sprintf("date.parse %d 1 %s", []int{cxDef.dateML, 0, cxDef.dateML + 1}[c.R.Intn(3)], h))
	}
	for _, s := range pools["roman"].list {
		h := hx([]byte(s))
		c.Op(fmt.Sprintf("roman.parse %d %d %s", cxDef.romanML, c.R.Intn(2), h))
		c.Op(fmt.Sprintf("roman.valid %d %d %s", cxDef.romanML, c.R.Intn(2), h))
	}
	sp := pools["sem"].list
	for _, s := range sp {
		h := hx([]byte(s))
		for _, e := range []string{"Parse", "ParseVersion", "ParseTag", "Default", "DefaultNoTag"} {
			c.Op(fmt.Sprintf("sem.parse %s %d %s", e, cxDef.semML, h))
		}
	}
	for i := 0; i < npairs && len(sp) > 1; i++ {
		a, b := sp[c.R.Intn(len(sp))], sp[c.R.Intn(len(sp))]
		if i%3 == 0 { // mostly-valid pairs so that the comparison itself runs
			a, b = cxSemText(c.R), cxSemText(c.R)
		}
		ha, hb := hx([]byte(a)), hx([]byte(b))
		for _, e := range []string{"Parse", "ParseVersion", "ParseTag"} {
			c.Op(fmt.Sprintf("sem.cmpstr %s %d %s %s", e, cxDef.semML, ha, hb))
			c.Op(fmt.Sprintf("sem.latest %s %d %s %s", e, cxDef.semML, ha, hb))
		}
		c.Op("sem.cmppre " + ha + " " + hb)
		pa, pb := c.R.Pick(cxSemPre)+"."+c.R.Pick(cxSemPre), c.R.Pick(cxSemPre)+"."+c.R.Pick(cxSemPre)
		c.Op("sem.cmppre " + hx([]byte(pa)) + " " + hx([]byte(pb)))
		cxUntouched(c, "sem", a, b)
	}
	for _, s := range pools["size"].list {
		h := hx([]byte(s))
		c.Op(fmt.Sprintf("size.parse %d %d %d %s", cxDef.sizeML, cxDef.sizeMK, c.R.Intn(16), h))
		c.Op(fmt.Sprintf("size.parse %d %d %d %s", cxDef.sizeML, cxDef.sizeMK, []int{0, 6, 2, 4, 14}[c.R.Intn(5)], h))
	}
	for _, s := range pools["uu"].list {
		h := hx([]byte(s))
		c.Op(fmt.Sprintf("uu.parse %d %d %s", cxDef.uuML, c.R.Intn(4), h))
		c.Op(fmt.Sprintf("uu.parse %d 0 %s", cxDef.uuML, h))
	}
	// 3. direct: no entry point touches its input; bytes and string agree
	for _, t := range types {
		l := pools[t].list
		for i, s := range l {
			cxUntouched(c, t, s, l[(i*7+1)%len(l)])
		}
		c.NT(int64(len(l)))
	}
	// 4. the same promises above the default limits
	cxLargeInputs(c)
	// 5. and under the other settings of size.DefaultRule / size.MaxObjectKeys (histories run under the shipped ones)
	cxSizeRuleReceivers(c)
}

// cxSizeHandTexts: texts for Size.UnmarshalText / UnmarshalJSON that succeed or fail differently depending on
// size.DefaultRule (unit on/off, JSON string form, JSON object form, unknown keys) and size.MaxObjectKeys.
var cxSizeHandTexts = []string{"10 KiB", "10KiB", "1 000 kB", "7", "0", "", " ", "x", "10 XB", "1.5 kB", "-1", "18446744073709551616", "17 EiB", "1 ZB",
	`"12 kB"`, `"12"`, `"x"`, `"12 kB`, `{"value":1,"unit":"KiB"}`, `{"value":1,"unit":"KiB","x":1}`, `{"x":{"value":[1,2]},"value":1,"unit":"KiB"}`, `{"value":1}`,
	`{"unit":"B"}`, `{"value":-1,"unit":"B"}`, `{"value":1,"unit":"KiB"`, `{"value":1,"unit":"KiB"} x`, `{"value":1,"value":2,"unit":"B"}`, `{"value":"1","unit":"B"}`,
	`[1]`, `null`, `true`, "12 ", " 12", "1e3", "12 B", `{"a":1,"b":2,"value":3,"unit":"B"}`, `{"a":1,"b":2,"c":3,"value":3,"unit":"kB"}`, `{"VALUE":18446744073709551615,"UNIT":"b"}`,
	`{"value":16,"unit":"EiB"}`, `{"value":1.5,"unit":"B"}`, "1\u00a0kB", "1_000", "12 kB\n"}

// cxSizeDefaultRules: every defined value of size.DefaultRule first, then values with unknown bits (extValues).
func cxSizeDefaultRules() (defined, unknown []size.Rule) {
	for _, v := range extValues(16) {
		if v >= 0 && v < 16 {
			defined = append(defined, size.Rule(v))
		} else {
			unknown = append(unknown, size.Rule(v))
		}
	}
	return
}

// cxSizeRuleReceivers: Size.UnmarshalText and Size.UnmarshalJSON read size.DefaultRule and size.MaxObjectKeys; the histories
// above run under the values the package ships with, so a failure path that exists only under another setting (unit
// disabled, JSON forms off, unknown keys disallowed, a smaller key maximum) was never taken on a receiver holding a value.
// Here every defined rule x five key maxima (and the rule values with unknown bits under the shipped maximum): a failing
// call leaves the receiver exactly as it was, a succeeding one gives what it gives on a zero receiver, no call modifies
// its input, and the value does not depend on the buffer afterwards.
func cxSizeRuleReceivers(c *Ctx) {
	defer cxSetDefaults()()
	texts := append([]string{}, cxSizeHandTexts...)
	nHand := len(texts)
	for i := 0; i < 150; i++ {
		t := cxSizeText(c.R)
		if i%3 == 0 {
			t = cxSizeJSON(c.R)
		}
		if i%2 == 0 {
			t = cxMutate1(c.R, t)
		}
		texts = append(texts, t)
	}
	defined, unknown := cxSizeDefaultRules()
	const sentinel = size.Size(0x1234567890ab)
	one := func(dr size.Rule, mk int, text string, entry string) {
		size.DefaultRule, size.MaxObjectKeys = dr, mk
		call := func(z *size.Size, buf []byte) (err error, panicked bool) {
			defer func() {
				if recover() != nil {
					panicked = true
				}
			}()
			if entry == "UnmarshalJSON" {
				return z.UnmarshalJSON(buf), false
			}
			return z.UnmarshalText(buf), false
		}
		z := sentinel
		buf, full := cxGuarded([]byte(text))
		err, panicked := call(&z, buf)
		c.Check("")
		where := fmt.Sprintf("size.DefaultRule = %d, size.MaxObjectKeys = %d, Size(%d).%s(%q)", int(dr), mk, uint64(sentinel), entry, text)
		switch {
		case panicked:
			c.Fail("C17.size.panic", "", "%s: panic", where)
		case !cxIntact([]byte(text), full):
			c.Fail("C17.size.input", "", "%s: the call modified its input buffer: %x", where, full)
		case err != nil && z != sentinel:
			c.Fail("C17.size.recv", "", "%s returned %q but the receiver is now %d", where, err.Error(), uint64(z))
		case err == nil:
			after := z
			cxScribble(full)
			var w size.Size
			wb, _ := cxGuarded([]byte(text))
			if werr, wp := call(&w, wb); werr != nil || wp || w != after || z != after {
				c.Fail("C17.size.overwrite", "", "%s succeeded and left %d (%d after the buffer was overwritten); on a zero receiver the same input gives %d %v", where, uint64(after), uint64(z), uint64(w), werr)
			}
		}
	}
	for _, dr := range defined {
		for _, mk := range []int{cxDef.sizeMK, 0, 1, 2, 3} {
			for _, text := range texts {
				one(dr, mk, text, "UnmarshalText")
				one(dr, mk, text, "UnmarshalJSON")
			}
		}
	}
	for _, dr := range unknown {
		for _, text := range texts[:nHand] {
			one(dr, cxDef.sizeMK, text, "UnmarshalText")
			one(dr, cxDef.sizeMK, text, "UnmarshalJSON")
		}
	}
	c.NT(int64(len(defined)*5*len(texts) + len(unknown)*nHand))
}

// cxLargeInputs: everything above ran under the globals the packages ship with, where no accepted input is longer
// than the default MaxInputLength. Here the limit is switched off or raised and ACCEPTED inputs of several KiB up to
// about 100 KiB go through every []byte-taking entry point on guarded copies: the input is not modified, the value is
// the independently expected one, it does not change when the caller overwrites the buffer afterwards, string and
// []byte agree, and a failing call (over a re-imposed limit, or a malformed long text) on a receiver that holds such
// a value leaves it alone.
func cxLargeInputs(c *Ctx) {
	defer cxSetDefaults()()
	type semCase struct {
		text string
		want sem.Ver
	}
	var sems []semCase
	for _, n := range []int{1100, 4097, 70000} {
		pre := strings.Repeat("a", n)
		ids := strings.Repeat("rc-1.", n/5) + "0"
		bld := strings.Repeat("b7.", n/3) + "x"
		sems = append(sems,
			semCase{"1.2.3-" + pre, sem.Ver{Major: 1, Minor: 2, Patch: 3, PreRelease: pre}},
			semCase{"v10.0.18446744073709551615+" + bld, sem.Ver{Major: 10, Patch: mxU64, Build: bld}},
			semCase{"0.0.1-" + ids + "+" + pre, sem.Ver{Patch: 1, PreRelease: ids, Build: pre}})
	}
	sems = append(sems, semCase{"1.2.3-" + strings.Repeat("z9-", 34000) + "0", sem.Ver{Major: 1, Minor: 2, Patch: 3, PreRelease: strings.Repeat("z9-", 34000) + "0"}}) // 100 KiB
	semEq := func(v sem.Ver, w sem.Ver) bool { return v == w }
	for _, limit := range []int{0, 1 << 20} {
		restore := cxSetLimits(limit, limit, limit, limit, limit)
		for ci, sc := range sems {
			name := fmt.Sprintf("sem: %d-byte version under MaxInputLength %d", len(sc.text), limit)
			repro := fmt.Sprintf("sem.parse Parse %d %s", limit, hx([]byte(sc.text)))
			parsers := []struct {
				n string
				f func(b []byte) (sem.Ver, error)
				s func(t string) (sem.Ver, error)
			}{
				{"Parse", func(b []byte) (sem.Ver, error) { return sem.Parse(b) }, func(t string) (sem.Ver, error) { return sem.Parse(t) }},
				{"DefaultParser", func(b []byte) (sem.Ver, error) { return sem.DefaultParser(namedBytes(b), 0) }, func(t string) (sem.Ver, error) { return sem.DefaultParser(namedString(t), 0) }},
				{"Latest", func(b []byte) (sem.Ver, error) { return sem.Latest(b, "0.0.0-0") }, func(t string) (sem.Ver, error) { return sem.Latest("0.0.0-0", t) }},
				{"UnmarshalText", func(b []byte) (v sem.Ver, err error) {
					v = sem.New(9, 9, 9, "keep", "keep")
					err = v.UnmarshalText(b)
					return
				}, nil},
			}
			if strings.HasPrefix(sc.text, "v") {
				parsers[0].n = "ParseTag"
				parsers[0].f = func(b []byte) (sem.Ver, error) { return sem.ParseTag(b) }
				parsers[0].s = func(t string) (sem.Ver, error) { return sem.ParseTag(t) }
			}
			for pi, p := range parsers {
				if limit != 0 && (pi+ci)%3 != 0 {
					continue // regexp needs milliseconds per 100 KiB: a third of the combinations under the second limit
				}
				buf, full := cxGuarded([]byte(sc.text))
				v, err := p.f(buf)
				c.Check("")
				if err != nil || !semEq(v, sc.want) {
					c.Fail("C17.sem.large.value", repro, "%s, %s: %v, value differs from the expected one: %v", name, p.n, err, !semEq(v, sc.want))
					continue
				}
				if !cxIntact([]byte(sc.text), full) {
					c.Fail("C17.sem.input.large", repro, "%s, %s modified its input", name, p.n)
				}
				cxScribble(full)
				if !semEq(v, sc.want) {
					c.Fail("C17.sem.retain.large", repro, "%s, %s: the parsed value changed when the input buffer was overwritten afterwards: PreRelease now %s, Build %s",
						name, p.n, cxClip([]byte(v.PreRelease)), cxClip([]byte(v.Build)))
				}
				if p.s != nil {
					vs, es := p.s(sc.text)
					if es != nil || !semEq(vs, sc.want) {
						c.Fail("C17.sem.types.large", repro, "%s, %s: the string instantiation gives %v (value equal: %v)", name, p.n, es, semEq(vs, sc.want))
					}
				}
			}
			// failing calls on a receiver that holds the large value
			if limit == 0 {
				var r sem.Ver
				buf, full := cxGuarded([]byte(sc.text))
				if err := r.UnmarshalText(buf); err != nil {
					c.Fail("C17.sem.large.value", repro, "%s, UnmarshalText: %v", name, err)
					continue
				}
				cxScribble(full)
				bad := []string{sc.text + "\n", sc.text[:len(sc.text)/2] + "..", "", "x"}
				for bi, b := range bad {
					err := r.UnmarshalText([]byte(b))
					c.Check("")
					if err == nil || !semEq(r, sc.want) {
						c.Fail("C17.sem.recv.large", repro, "%s: failing call %d (%d bytes) returned %v and the receiver still equals the large value: %v", name, bi, len(b), err, semEq(r, sc.want))
					}
				}
				sem.MaxInputLength = 1024
				err := r.UnmarshalText([]byte(sc.text))
				sem.MaxInputLength = 0
				if !errors.Is(err, sem.ErrInputTooLong) || !semEq(r, sc.want) {
					c.Fail("C17.sem.recv.large", repro, "%s: the same text under the limit 1024 again: %v, receiver intact: %v", name, err, semEq(r, sc.want))
				}
			}
		}
		// roman: thousands beyond the default limit, tails in every style
		for ri, k := range []int{129, 5000, 100000} {
			for ti, tail := range []string{"CMXCIV", "dccclxxxviii", "", "CdXlIv", "DCCCCLXXXXVIIII"} {
				if limit != 0 && (ri+ti)%3 != 0 || k == 100000 && ti%2 == 1 {
					continue
				}
				ms := strings.Repeat("M", k)
				if ti%2 == 1 {
					ms = strings.Repeat("m", k)
				}
				text := ms + tail
				want := uint64(k)*1000 + ruEvalSymbols(ruUpper(tail))
				name := fmt.Sprintf("roman: numeral of %d bytes under MaxInputLength %d", len(text), limit)
				repro := fmt.Sprintf("roman.parse %d 0 %s", limit, hx([]byte(text)))
				buf, full := cxGuarded([]byte(text))
				v1, e1 := roman.DefaultParser(buf, 0)
				v2, e2 := roman.DefaultParser(text, roman.RuleDisableEmptyAsZero)
				e3 := roman.Valid(namedBytes(buf), 0)
				r := roman.Number(987654321)
				e4 := r.UnmarshalText(buf)
				c.Check("")
				if e1 != nil || e2 != nil || e3 != nil || e4 != nil || uint64(v1) != want || uint64(v2) != want || uint64(r) != want {
					c.Fail("C17.roman.large.value", repro, "%s: %d %v / %d %v / %v / %d %v, want %d", name, uint64(v1), e1, uint64(v2), e2, e3, uint64(r), e4, want)
				}
				if !cxIntact([]byte(text), full) {
					c.Fail("C17.roman.input.large", repro, "%s: a call modified its input", name)
				}
				cxScribble(full)
				for bi, b := range []string{text + "Q", text + "M" + tail, "IIIII", strings.Repeat("i", k)} {
					err := r.UnmarshalText([]byte(b))
					if b == text+"M"+tail && tail == "" { // still a numeral
						if err != nil || uint64(r) != want+1000 {
							c.Fail("C17.roman.large.value", repro, "%s + M: %d %v", name, uint64(r), err)
						}
						r = roman.Number(want)
						continue
					}
					if err == nil || uint64(r) != want {
						c.Fail("C17.roman.recv.large", repro, "%s: failing call %d returned %v, receiver %d, want %d kept", name, bi, err, uint64(r), want)
					}
				}
			}
		}
		// size: long digit strings (leading zeros, separators of the three kinds) and kilobytes of blanks
		for zi, zc := range []struct {
			text string
			want uint64
		}{
			{strings.Repeat(" ", 3000) + "12 345 678 KiB" + strings.Repeat(" ", 2000), 12345678 << 10},
			{strings.Repeat("0", 5000) + "1_000_000\u00a0kB", 1000000000},
			{"1" + strings.Repeat("_", 70000) + "8446744073709551615", mxU64},
			{strings.Repeat("0_", 40000) + "7 EiB", 7 << 60},
			{"\"" + strings.Repeat(" ", 50000) + "16 MiB\"", 16 << 20},
			{"{" + strings.Repeat(" ", 30000) + "\"unit\":\"GB\",\"x\":[" + strings.Repeat("0,", 20000) + "0],\"value\":" + "3}", 3000000000},
		} {
			name := fmt.Sprintf("size: case %d, %d bytes under MaxInputLength %d", zi, len(zc.text), limit)
			rule := size.Rule(0)
			if zc.text[0] == '"' || zc.text[0] == '{' {
				rule = size.DefaultRule
			}
			repro := fmt.Sprintf("size.parse %d 0 %d %s", limit, int(rule), hx([]byte(zc.text)))
			omk := size.MaxObjectKeys
			size.MaxObjectKeys = 0
			buf, full := cxGuarded([]byte(zc.text))
			v1, e1 := size.DefaultParser(buf, rule)
			v2, e2 := size.DefaultParser(namedString(zc.text), rule)
			r := size.Size(9876543210987)
			var e3 error
			if rule == 0 {
				e3 = r.UnmarshalText(buf)
			} else {
				e3 = r.UnmarshalJSON(buf)
			}
			c.Check("")
			if e1 != nil || e2 != nil || e3 != nil || uint64(v1) != zc.want || uint64(v2) != zc.want || uint64(r) != zc.want {
				c.Fail("C17.size.large.value", repro, "%s: %d %v / %d %v / %d %v, want %d", name, uint64(v1), e1, uint64(v2), e2, uint64(r), e3, zc.want)
			}
			if !cxIntact([]byte(zc.text), full) {
				c.Fail("C17.size.input.large", repro, "%s: a call modified its input", name)
			}
			cxScribble(full)
			for bi, b := range []string{zc.text + "x", zc.text[:len(zc.text)-1] + "!", strings.Repeat("9", 30000), "{" + strings.Repeat(" ", 40000)} {
				var err error
				if bi%2 == 0 {
					err = r.UnmarshalText([]byte(b))
				} else {
					err = r.UnmarshalJSON([]byte(b))
				}
				if err == nil || uint64(r) != zc.want {
					c.Fail("C17.size.recv.large", repro, "%s: failing call %d returned %v, receiver %d, want %d kept", name, bi, err, uint64(r), zc.want)
				}
			}
			size.MaxObjectKeys = omk
		}
		restore()
	}
	c.NT(int64(2 * (len(sems) + 25 + 6)))
}

// ---------------------------------------------------------------------------------------- C16

// cxFV is one value of one of the five types together with its protocol line, its formatter call and
// an independent expectation of its rendering into an empty buffer (ok=false: no expectation).
type cxFV struct {
	typ       string
	line      func(flag int, prefix []byte) string
	call      func(buf []byte, flag int) ([]byte, error)
	want      func(flag int) (string, bool)
	lineFlags int // protocol lines use flags 0..lineFlags-1
}

func cxSizeWant(n uint64, flag int) string {
	units := []string{"B", "KiB", "MiB", "GiB", "TiB", "PiB", "EiB"}
	k := 0
	for n != 0 && k < 6 && n%1024 == 0 {
		n /= 1024
		k++
	}
	ds := strconv.FormatUint(n, 10)
	if flag&1 == 0 {
		return ds + units[k]
	}
	sep := " "
	if flag&2 != 0 {
		sep = "&nbsp;"
	}
	out := ""
	for i := 0; i < len(ds); i++ {
		out += ds[i : i+1]
		if (len(ds)-1-i)%3 == 0 {
			out += sep
		}
	}
	return out + units[k]
}

func cxDateFV(y, m, d int) cxFV {
	return cxFV{typ: "date", lineFlags: 4,
		line: func(flag int, prefix []byte) string {
			return fmt.Sprintf("date.format %d %d %d %d %s", y, m, d, flag, hx(prefix))
		},
		call: func(buf []byte, flag int) ([]byte, error) {
			return date.DefaultFormatter(buf, date.New(y, time.Month(m), d), date.Format(flag))
		},
		want: func(flag int) (string, bool) {
			if y < 0 || y > 9999 || m < 1 || m > 12 || d < 1 || d > dim(y, m) {
				return "", false
			}
			if flag&1 != 0 {
				return digits(y, 4) + digits(m, 2) + digits(d, 2), true
			}
			return digits(y, 4) + "-" + digits(m, 2) + "-" + digits(d, 2), true
		}}
}

func cxRomanFV(n uint64) cxFV {
	return cxFV{typ: "roman", lineFlags: 128,
		line: func(flag int, prefix []byte) string { return fmt.Sprintf("roman.format %d %d %s", n, flag, hx(prefix)) },
		call: func(buf []byte, flag int) ([]byte, error) {
			return roman.DefaultFormatter(buf, roman.Number(n), roman.Format(flag))
		},
		want: func(flag int) (string, bool) { return cxRomanFmt(n, flag), true }}
}

func cxSemFV(v sem.Ver) cxFV {
	return cxFV{typ: "sem", lineFlags: 2,
		line: func(flag int, prefix []byte) string {
			return fmt.Sprintf("sem.format %d %d %d %s %s %d %s", v.Major, v.Minor, v.Patch, hx([]byte(v.PreRelease)), hx([]byte(v.Build)), flag, hx(prefix))
		},
		call: func(buf []byte, flag int) ([]byte, error) { return sem.DefaultFormatter(buf, v, sem.Format(flag)) },
		want: func(flag int) (string, bool) {
			s := fmt.Sprintf("%d.%d.%d", v.Major, v.Minor, v.Patch)
			if flag&1 != 0 {
				s = "v" + s
			}
			if v.PreRelease != "" {
				s += "-" + v.PreRelease
			}
			if v.Build != "" {
				s += "+" + v.Build
			}
			return s, true
		}}
}

func cxSizeFV(n uint64) cxFV {
	return cxFV{typ: "size", lineFlags: 8,
		line: func(flag int, prefix []byte) string { return fmt.Sprintf("size.format %d %d %s", n, flag, hx(prefix)) },
		call: func(buf []byte, flag int) ([]byte, error) {
			return size.DefaultFormatter(buf, size.Size(n), size.Format(flag))
		},
		want: func(flag int) (string, bool) { return cxSizeWant(n, flag), true }}
}

func cxUUFV(hi, lo uint64) cxFV {
	return cxFV{typ: "uu", lineFlags: 4,
		line: func(flag int, prefix []byte) string {
			return fmt.Sprintf("uu.format %d %d %d %s", hi, lo, flag, hx(prefix))
		},
		call: func(buf []byte, flag int) ([]byte, error) {
			return uu.DefaultFormatter(buf, uu.ID{Higher: hi, Lower: lo}, uu.Format(flag))
		},
		want: func(flag int) (string, bool) {
			if flag&1 != 0 {
				return "urn:uuid:" + cxUUText(hi, lo), true
			}
			return cxUUText(hi, lo), true
		}}
}

func cxU64(r *Rng) uint64 {
	switch r.Intn(6) {
	case 0:
		return r.Next() >> uint(r.Intn(64))
	case 1:
		return uint64(1)<<uint(r.Intn(64)) - uint64(r.Intn(2))
	case 2:
		return uint64(r.Intn(1024)) << (10 * uint(r.Intn(7)))
	}
	return r.Next()
}

// cxFmtBoundary lists boundary values per type.
func cxFmtBoundary() map[string][]cxFV {
	m := map[string][]cxFV{}
	for _, d := range [][3]int{{1, 1, 1}, {0, 1, 1}, {0, 12, 31}, {9999, 12, 31}, {2024, 2, 29}, {1900, 2, 28}, {2000, 2, 29}, {999, 9, 9}, {10000, 1, 1}, {123456789, 12, 31}, {-1, 1, 1}, {-400, 2, 29},
		{2023, 13, 1}, {2023, 2, 30}, {2023, 0, 0}, {2023, 12, 32}} {
		m["date"] = append(m["date"], cxDateFV(d[0], d[1], d[2]))
	}
	for _, n := range []uint64{0, 1, 3, 4, 5, 9, 14, 19, 40, 44, 49, 90, 99, 400, 444, 449, 900, 949, 999, 1000, 1994, 2024, 3888, 3999, 4000, 4999, 9999, 12345} {
		m["roman"] = append(m["roman"], cxRomanFV(n))
	}
	mx := ^uint64(0)
	for _, v := range []sem.Ver{{}, {Major: 1}, {Minor: 1}, {Patch: 1}, {Major: 1, Minor: 2, Patch: 3, PreRelease: "rc.1", Build: "b.7"}, {Major: mx, Minor: mx, Patch: mx}, {Major: 10, Minor: 20, Patch: 30, PreRelease: "alpha"},
		{Patch: 9, Build: "001"}, {Major: 1, PreRelease: "-", Build: "-"}, {Major: 1, PreRelease: "v1.2.3", Build: "v"}, {Major: 2, PreRelease: "\xff\x00 +-", Build: "é"}, {Major: 3, PreRelease: strings.Repeat("a.", 40) + "z"}} {
		m["sem"] = append(m["sem"], cxSemFV(v))
	}
	for _, n := range []uint64{0, 1, 9, 10, 99, 100, 999, 1000, 1001, 1023, 1024, 1025, 2048, 123456, 999999, 1000000, 1 << 20, 1<<20 + 1, 1023 << 20, 1 << 30, 1 << 40, 1 << 50, 1 << 60, 15 << 60, 1000 << 50, 1023 << 50, mx, mx - 1023, 1 << 63, 123456789 << 10} {
		m["size"] = append(m["size"], cxSizeFV(n))
	}
	for _, id := range [][2]uint64{{0, 0}, {mx, mx}, {0x0123456789abcdef, 0xfedcba9876543210}, {1, 1}, {1 << 63, 1 << 63}, {0xed7059f300004000, 0x8000000000000000}, {0xabcdefabcdefabcd, 0xefabcdefabcdefab}, {0x00000000ffff0000, 0x0000ffffffffffff}} {
		m["uu"] = append(m["uu"], cxUUFV(id[0], id[1]))
	}
	return m
}

func cxFmtRandom(r *Rng, typ string) cxFV {
	switch typ {
	case "date":
		y, m, d := cxDateYMD(r)
		if r.Intn(8) == 0 {
			y = r.Intn(2000000) - 1000
			d = 1 + r.Intn(28)
		}
		return cxDateFV(y, m, d)
	case "roman":
		n := uint64(r.Intn(5000))
		if r.Intn(10) == 0 {
			n = uint64(r.Intn(70000))
		}
		return cxRomanFV(n)
	case "sem":
		v := sem.Ver{Major: cxU64(r), Minor: uint64(r.Intn(100)), Patch: cxU64(r) >> uint(r.Intn(64))}
		switch r.Intn(4) {
		case 0:
			v.PreRelease = r.Pick(cxSemPre) + "." + r.Pick(cxSemPre)
		case 1:
			v.PreRelease = string(cxRandBytes(r, 1+r.Intn(6)))
		}
		switch r.Intn(4) {
		case 0:
			v.Build = r.Pick(cxSemBuild)
		case 1:
			v.Build = string(cxRandBytes(r, 1+r.Intn(6)))
		}
		return cxSemFV(v)
	case "size":
		return cxSizeFV(cxU64(r))
	}
	return cxUUFV(r.Next(), r.Next())
}

var cxNamedPrefixes = []string{"", "MIX ", "ivxlcdm", "IVXLCDM", "0123456789", "-", "abcdefABCDEF", "urn:uuid:", "v", "1.2.3-", " &nbsp;KiB", "2024-02-", "x\x00\xff", "MMXXIV mmxxiv ", "B kB KiB EiB"}

const cxEmitAlpha = "IVXLCDMivxlcdm0123456789abcdefABCDEF-.+v BKiMGTPE&;nbsp:urn"

func cxRandPrefix(r *Rng) []byte {
	n := r.Intn(40)
	b := make([]byte, n)
	mode := r.Intn(3)
	for i := range b {
		if mode == 0 || mode == 1 && r.Bool() {
			b[i] = cxEmitAlpha[r.Intn(len(cxEmitAlpha))]
		} else {
			b[i] = byte(r.Next())
		}
	}
	return b
}

// cxClip quotes b for a failure message; long values are shown by length, head and tail.
func cxClip(b []byte) string {
	if len(b) <= 160 {
		return strconv.Quote(string(b))
	}
	return fmt.Sprintf("%d bytes %q…%q", len(b), b[:60], b[len(b)-40:])
}

// cxAppendCheck is the direct oracle: for every spare capacity in spares the result is prefix ++
// rendering-into-nil, and the caller's array still holds the prefix.
func cxAppendCheck(c *Ctx, fv *cxFV, flag int, prefix []byte, spares []int) {
	repro := ""
	if flag >= 0 && flag < fv.lineFlags {
		repro = fv.line(flag, prefix)
	}
	// a panic inside a formatter is a finding of its own (and must not end the run)
	rawCall := fv.call
	call := func(buf []byte, flag int) (out []byte, err error) {
		defer func() {
			if r := recover(); r != nil {
				c.Fail("C16."+fv.typ+".panic", repro, "flag %d, buffer of %d bytes (capacity %d): formatter panicked: %v", flag, len(buf), cap(buf), r)
				out, err = nil, fmt.Errorf("panic: %v", r)
			}
		}()
		return rawCall(buf, flag)
	}
	empty, err := call(nil, flag)
	if err != nil {
		c.Fail("C16."+fv.typ+".err", repro, "formatter returned %v", err)
		return
	}
	if w, ok := fv.want(flag); ok && string(empty) != w {
		c.Fail("C16."+fv.typ+".empty", repro, "flag %d: into nil: %s, independent rendering %s", flag, cxClip(empty), cxClip([]byte(w)))
	}
	pl := len(prefix)
	for _, spare := range spares {
		backing := make([]byte, pl, pl+spare)
		copy(backing, prefix)
		arr := backing[:pl+spare]
		out, err := call(backing, flag)
		c.Check("")
		if err != nil || len(out) != pl+len(empty) || !bytes.Equal(out[:pl], prefix) || !bytes.Equal(out[pl:], empty) {
			c.Fail("C16."+fv.typ+".append", repro, "flag %d spare %d prefix %s: got %s (%v), into nil %s", flag, spare, cxClip(prefix), cxClip(out), err, cxClip(empty))
		}
		if !bytes.Equal(arr[:pl], prefix) {
			c.Fail("C16."+fv.typ+".inplace", repro, "flag %d spare %d: caller's array went from %s to %s", flag, spare, cxClip(prefix), cxClip(arr[:pl]))
		}
		if spare >= len(empty) && len(out) > 0 && pl+spare > 0 && &out[0] == &arr[0] && !bytes.Equal(arr[pl:pl+len(empty)], empty) {
			c.Fail("C16."+fv.typ+".shared", repro, "flag %d spare %d: result shares the array but the array holds %s", flag, spare, cxClip(arr[:pl+len(empty)]))
		}
	}
	// a nil and an empty non-nil buffer behave alike
	out, _ := call([]byte{}, flag)
	if !bytes.Equal(out, empty) {
		c.Fail("C16."+fv.typ+".emptybuf", repro, "flag %d: %s vs %s", flag, cxClip(out), cxClip(empty))
	}
}

func propC16(c *Ctx) {
	types := []string{"date", "roman", "sem", "size", "uu"}
	bnd := cxFmtBoundary()
	allSpares := make([]int, 65)
	for i := range allSpares {
		allSpares[i] = i
	}
	someSpares := func() []int { return []int{0, 1 + c.R.Intn(8), 9 + c.R.Intn(56), 64} }
	directFlags := func(fv *cxFV) []int {
		return []int{c.R.Intn(fv.lineFlags), -1, 1 << 30, int(int32(c.R.Next())), math.MinInt64, fv.lineFlags | c.R.Intn(fv.lineFlags)}
	}
	nprefix := 0
	// 1. boundary values x every flag of the protocol range x named prefixes (rotating), all spare capacities
	for _, t := range types {
		for vi := range bnd[t] {
			fv := &bnd[t][vi]
			for flag := 0; flag < fv.lineFlags; flag++ {
				pre := []byte(cxNamedPrefixes[(vi+flag)%len(cxNamedPrefixes)])
				lf := flag
				if t == "sem" {
					lf = flag & 1
				}
				c.Op(fv.line(lf, pre))
				cxAppendCheck(c, fv, flag, pre, allSpares)
				nprefix++
			}
			for _, ps := range cxNamedPrefixes {
				for _, flag := range []int{0, 1, fv.lineFlags - 1, fv.lineFlags / 2} {
					if t == "sem" {
						flag &= 1
					}
					c.Op(fv.line(flag, []byte(ps)))
					cxAppendCheck(c, fv, flag, []byte(ps), someSpares())
					nprefix++
				}
			}
			for _, flag := range directFlags(fv) {
				cxAppendCheck(c, fv, flag, []byte(c.R.Pick(cxNamedPrefixes)), someSpares())
			}
		}
	}
	// 2. every single byte value as prefix
	for b := 0; b < 256; b++ {
		for _, t := range types {
			for k := 0; k < 2; k++ {
				fv := cxFmtRandom(c.R, t)
				if k == 0 {
					fv = bnd[t][c.R.Intn(len(bnd[t]))]
				}
				flag := c.R.Intn(fv.lineFlags)
				if t == "sem" {
					flag &= 1
				}
				pre := []byte{byte(b)}
				if k == 1 {
					pre = bytes.Repeat(pre, 1+c.R.Intn(5))
				}
				c.Op(fv.line(flag, pre))
				cxAppendCheck(c, &fv, flag, pre, allSpares)
				nprefix++
			}
		}
	}
	// 3. random values, flags and prefixes
	nr := 12000
	if c.Thorough {
		nr = 60000
	}
	for i := 0; i < nr; i++ {
		for _, t := range types {
			fv := cxFmtRandom(c.R, t)
			flag := c.R.Intn(fv.lineFlags)
			if t == "sem" {
				flag &= 1
			}
			pre := cxRandPrefix(c.R)
			c.Op(fv.line(flag, pre))
			sp := someSpares()
			if i%8 == 0 || c.Thorough {
				sp = allSpares
			}
			cxAppendCheck(c, &fv, flag, pre, sp)
			if i%4 == 0 {
				cxAppendCheck(c, &fv, directFlags(&fv)[c.R.Intn(6)], pre, someSpares())
			}
			nprefix++
		}
	}
	c.NT(int64(nprefix))
	// 3b. the way an append-style API is really called: a long-lived scratch buffer with hundreds or thousands of spare
	// bytes, and prefixes of hundreds of bytes (every formatter, boundary values, every line flag for the small flag sets)
	bigSpares := []int{65, 100, 127, 128, 129, 200, 255, 256, 257, 511, 512, 1000, 1024, 2048, 4096, 5000}
	longPrefixes := [][]byte{}
	for _, n := range []int{40, 63, 64, 65, 127, 128, 129, 255, 256, 257, 300} {
		pre := make([]byte, n)
		for i := range pre {
			if n%2 == 0 {
				pre[i] = cxEmitAlpha[c.R.Intn(len(cxEmitAlpha))]
			} else {
				pre[i] = byte(c.R.Next())
			}
		}
		longPrefixes = append(longPrefixes, pre)
	}
	nbig := 0
	for _, t := range types {
		for vi := range bnd[t] {
			if vi%3 != 0 && vi != len(bnd[t])-1 {
				continue
			}
			fv := &bnd[t][vi]
			flags := []int{0, 1, fv.lineFlags - 1, fv.lineFlags / 2}
			for fi, flag := range flags {
				if t == "sem" {
					flag &= 1
				}
				// short prefixes with a roomy buffer
				for _, ps := range []string{"", "ab:", cxNamedPrefixes[(vi+fi)%len(cxNamedPrefixes)]} {
					cxAppendCheck(c, fv, flag, []byte(ps), bigSpares)
					nbig++
				}
				// long prefixes with little, some and much room
				for pi, pre := range longPrefixes {
					cxAppendCheck(c, fv, flag, pre, []int{0, 1, 64, bigSpares[(pi+fi+vi)%len(bigSpares)], 4096})
					nbig++
					if (pi+fi+vi)%4 == 0 {
						c.Op(fv.line(flag, pre))
					}
				}
			}
		}
		for i := 0; i < 40; i++ {
			fv := cxFmtRandom(c.R, t)
			flag := c.R.Intn(fv.lineFlags)
			if t == "sem" {
				flag &= 1
			}
			cxAppendCheck(c, &fv, flag, longPrefixes[c.R.Intn(len(longPrefixes))], []int{0, bigSpares[c.R.Intn(len(bigSpares))], 4096})
			cxAppendCheck(c, &fv, flag, cxRandPrefix(c.R), bigSpares)
			nbig += 2
		}
	}
	c.NT(int64(nbig))
	// 3c. large renderings TOGETHER WITH a non-empty buffer: a rendering much longer than any spare capacity of the grid
	// and than the small-buffer sizes of bytes.Buffer / append (a "reserve everything at once" path that forgets the
	// caller's bytes shows up only there). roman numbers of 70 thousands up to 2^32+1 (a numeral of 4.3 MB; into a buffer
	// only, no parsing, so it is cheap), sem with kilobytes of identifiers and maximal numbers, the far ends of the
	// other three types. Prefix lengths 1..5000, spare 0, tight (one below, exactly, one above the rendering) and roomy.
	nlarge := 0
	largeFVs := []struct {
		fv    cxFV
		flags []int
		heavy bool // megabytes: fewer combinations
	}{
		{cxRomanFV(70001), []int{0, 63, 64, 127}, false}, {cxRomanFV(130999), []int{0, 127}, false}, {cxRomanFV(257000), []int{0, 64, 127}, false},
		{cxRomanFV(300004), []int{0, 63, 64}, false}, {cxRomanFV(1000000), []int{0, 127}, false}, {cxRomanFV(65536001), []int{0, 64}, false},
		{cxRomanFV(1 << 20 * 1000), []int{0, 127}, true}, {cxRomanFV(1<<32 - 1), []int{0}, true}, {cxRomanFV(1 << 32), []int{0, 64}, true}, {cxRomanFV(1<<32 + 1), []int{63}, true},
		{cxSemFV(sem.Ver{Major: mxU64, Minor: mxU64, Patch: mxU64, PreRelease: strings.Repeat("a1.", 100) + "z", Build: strings.Repeat("b-", 150)}), []int{0, 1}, false},
		{cxSemFV(sem.Ver{Major: 1, Minor: 1 << 40, Patch: 3, PreRelease: strings.Repeat("x", 5000), Build: strings.Repeat("0.", 2500) + "0"}), []int{0, 1}, false},
		{cxSemFV(sem.Ver{Major: mxU64, PreRelease: strings.Repeat("rc.", 30000) + "1"}), []int{0, 1}, false},
		{cxSemFV(sem.Ver{Patch: mxU64, Build: strings.Repeat("z", 70000)}), []int{1}, false},
		{cxSizeFV(mxU64), []int{0, 1, 3}, false}, {cxSizeFV(mxU64 - 1023), []int{1, 3}, false}, {cxSizeFV(1<<63 + 1), []int{0, 3}, false}, {cxSizeFV(999999999999999999), []int{1, 3}, false},
		{cxDateFV(999999999, 12, 31), []int{0, 1}, false}, {cxDateFV(-999999999, 1, 1), []int{0, 1}, false}, {cxDateFV(2147483647, 6, 15), []int{0, 1}, false}, {cxDateFV(-2147483647, 2, 28), []int{0}, false},
		{cxUUFV(mxU64, mxU64), []int{0, 1}, false}, {cxUUFV(1<<63, 1), []int{1}, false},
	}
	pre5000 := make([]byte, 5000)
	for i := range pre5000 {
		pre5000[i] = cxEmitAlpha[c.R.Intn(len(cxEmitAlpha))]
	}
	for li := range largeFVs {
		l := &largeFVs[li]
		for fi, flag := range l.flags {
			empty, err := l.fv.call(nil, flag)
			if err != nil {
				c.Fail("C16."+l.fv.typ+".err", "", "formatter returned %v", err)
				continue
			}
			n := len(empty)
			prefixes := [][]byte{[]byte("x"), []byte("ab:"), []byte(cxNamedPrefixes[(li+fi)%(len(cxNamedPrefixes)-1)+1]), longPrefixes[(li+fi)%len(longPrefixes)], pre5000}
			spares := []int{0, 1, 64, n - 1, n, n + 1, 4096, 2*n + 100}
			if l.heavy {
				prefixes = [][]byte{[]byte("ab:"), longPrefixes[(li+fi)%len(longPrefixes)]}
				spares = []int{0, n - 1, n + 1}
			}
			for _, pre := range prefixes {
				cxAppendCheck(c, &l.fv, flag, pre, spares)
				nlarge++
			}
		}
	}
	c.NT(int64(nlarge))
	// 4. URN = "urn:uuid:" ++ plain
	nu := 2000
	if c.Thorough {
		nu = 20000
	}
	for i := 0; i < nu; i++ {
		hi, lo := c.R.Next(), c.R.Next()
		if i < 128 {
			hi, lo = uint64(1)<<uint(i%64), 0
			if i >= 64 {
				hi, lo = 0, hi
			}
		}
		id := uu.ID{Higher: hi, Lower: lo}
		line := fmt.Sprintf("uu.fields %d %d", hi, lo)
		c.Op(line)
		plain, _ := uu.DefaultFormatter(nil, id, 0)
		urn, _ := uu.DefaultFormatter(nil, id, uu.FormatURN)
		c.Check("")
		if id.URN() != "urn:uuid:"+string(plain) || string(urn) != id.URN() || id.URN() != "urn:uuid:"+cxUUText(hi, lo) {
			c.Fail("C16.uu.urn", line, "URN %q, plain %q, formatter URN %q", id.URN(), plain, urn)
		}
		onto, _ := uu.DefaultFormatter([]byte(uu.URNPrefix), id, 0)
		if string(onto) != id.URN() {
			c.Fail("C16.uu.urn.prefix", line, "%q vs %q", onto, id.URN())
		}
		// the same under a replaced Formatter variable (black-box round 11: URN routed through the variable): the URN is
		// still the prefix followed by a plain rendering — the stock one or, on the other reading, the replacement's
		if i < 160 {
			for k, repl := range []func([]byte, uu.ID, uu.Format) ([]byte, error){
				func(buf []byte, v uu.ID, f uu.Format) ([]byte, error) { // upper-casing, ignores the URN flag
					b, err := uu.DefaultFormatter(nil, v, 0)
					return append(buf, bytes.ToUpper(b)...), err
				},
				func(buf []byte, v uu.ID, f uu.Format) ([]byte, error) { return buf, errors.New("scripted") },
			} {
				old := uu.Formatter
				uu.Formatter = repl
				got, viaVar := id.URN(), id.String()
				uu.Formatter = old
				c.Check("")
				if got != "urn:uuid:"+string(plain) && got != "urn:uuid:"+viaVar {
					c.Fail("C16.uu.urn.formatter-variable", line, "with replacement %d in uu.Formatter URN() = %q, want the prefix urn:uuid: followed by the plain rendering %q (or the replacement's %q)", k, got, plain, viaVar)
				}
			}
		}
	}
	c.NT(int64(nu))
}

// ---------------------------------------------------------------------------------------- C18

// cxG wraps every call of the totality oracle: a panic or a call longer than two seconds is a failure.
type cxG struct {
	c      *Ctx
	calls  int64
	panics int64
	big    bool // measure the allocation of every single call (inputs of several KiB)
	worst  uint64
	worstN string
	slow   time.Duration // a guarded call slower than this — twice — counts as runaway (0: 2 s)
}

func (g *cxG) run(name string, repro func() string, f func()) {
	var a0 uint64
	if g.big {
		a0 = cxTotalAlloc()
	}
	t0 := time.Now()
	defer func() {
		if g.big {
			d := cxTotalAlloc() - a0
			if d > g.worst {
				g.worst, g.worstN = d, name
			}
			if d > cxAllocLimit {
				g.c.Fail("C18.alloc."+name, repro(), "one call allocated %d bytes", d)
			}
		}
		if r := recover(); r != nil {
			g.panics++
			g.c.Fail("C18.panic."+name, repro(), "panic: %v", r)
		}
		lim := g.slow
		if lim == 0 {
			lim = 2 * time.Second
		}
		if d := time.Since(t0); d > lim {
			// wall time on a shared machine is noisy: a call counts as runaway only if it is slow again
			// when repeated on its own
			t1 := time.Now()
			func() {
				defer func() { _ = recover() }()
				f()
			}()
			if d2 := time.Since(t1); d2 > lim {
				g.c.Fail("C18.slow."+name, repro(), "one call took %v, and %v when repeated", d, d2)
			}
		}
	}()
	g.calls++
	g.c.Evals++
	f()
}

func cxTotalAlloc() uint64 {
	var m runtime.MemStats
	runtime.ReadMemStats(&m)
	return m.TotalAlloc
}

const cxAllocLimit = 64 << 20

var cxSeeds = []string{"2024-02-29", "20240229", "MCMXCIV", "mmxxiv", "v1.2.3-rc.1+b.7", "1.0.0", "10 KiB", `{"value":1,"unit":"KiB"}`, `"12kB"`, "ed7059f3-0000-4000-8000-000000000000",
	"urn:uuid:ed7059f3-0000-4000-8000-000000000000", "", "ééé", "\xff\xfe", "\x00", "a.b-c", "０１２", "é", "éa", "1.2.3-é", "1.2.3-ééé+ééé", "\xef\xbb\xbf", "\xed\xa0\x80", "\xf4\x90\x80\x80", "\xc0\xaf", "1 000 KiB", "1_000_000",
	"0000-00-00", "9999-99-99", "-", "--", "...", "1..2", "v", "vv1.2.3", "+", "1.2.3+", "1.2.3-", `{"value":`, `{"":`, `[[[[`, `"\ud800"`, `"\u0000"`, "18446744073709551616", "00", "IIII", "iiiii", "MMMMMMMMMM", "IM", "١٢٣", "𝟙𝟚𝟛", "K", "ſ", "K"}

var cxRunUnits = []string{"9", "0", "M", "m", "I", "{", "[", "é", "a.", "1.", "-", " ", "\xff", "_", "\xa0", " ", "\x00", "a", "f", "F-", "}", `"`, "\\", "1_", "v", ":", "日本"}

// cxMutateN applies a few random edits (replace, insert, delete, append another seed).
func cxMutateN(r *Rng, s string) string {
	b := []byte(s)
	for k := r.Intn(4); k >= 0; k-- {
		switch op := r.Intn(4); {
		case op == 0 && len(b) > 0:
			b[r.Intn(len(b))] = byte(r.Next())
		case op == 1:
			p := r.Intn(len(b) + 1)
			b = append(b[:p], append([]byte{cxNasty[r.Intn(len(cxNasty))]}, b[p:]...)...)
		case op == 2 && len(b) > 0:
			p := r.Intn(len(b))
			b = append(b[:p], b[p+1:]...)
		case op == 3:
			b = append(b, []byte(cxSeeds[r.Intn(len(cxSeeds))])...)
		}
	}
	return string(b)
}

var cxTypes = []string{"date", "roman", "sem", "size", "uu"}

// cxCorpus draws one structured or random byte string.
func cxCorpus(r *Rng) string {
	switch p := r.Intn(100); {
	case p < 12:
		return cxSeeds[r.Intn(len(cxSeeds))]
	case p < 24:
		return cxValidText(r, cxTypes[r.Intn(5)])
	case p < 27:
		return string(cxGenBinary(r))
	case p < 30:
		if r.Bool() {
			return cxSizeJSON(r)
		}
		return r.Pick(cxBadJSON)
	case p < 55:
		return cxMutateN(r, cxSeeds[r.Intn(len(cxSeeds))])
	case p < 68:
		return cxMutateN(r, cxValidText(r, cxTypes[r.Intn(5)]))
	case p < 78:
		return string(cxRandBytes(r, r.Intn(65)))
	case p < 86: // a run around one of the limits
		u := r.Pick(cxRunUnits)
		lim := cxLimitOf(cxTypes[r.Intn(5)])
		n := []int{lim - 1, lim, lim + 1, lim + 2, 10 * lim}[r.Intn(5)]
		if r.Intn(4) == 0 {
			n = r.Intn(300)
		}
		s := strings.Repeat(u, n/len(u)+1)[:n]
		if r.Intn(3) == 0 {
			s = cxValidText(r, cxTypes[r.Intn(5)]) + s
		}
		return s
	case p < 92:
		t := cxTypes[r.Intn(5)]
		lim := cxLimitOf(t)
		return cxLongText(r, t, []int{lim - 1, lim, lim + 1, 10 * lim}[r.Intn(4)])
	case p < 96:
		return cxValidText(r, cxTypes[r.Intn(5)]) + r.Pick([]string{" ", "\n", "\x00", "+", ".", "-"}) + cxValidText(r, cxTypes[r.Intn(5)])
	default: // ASCII-only random text over the characters the grammars use
		n := r.Intn(30)
		b := make([]byte, n)
		for i := range b {
			b[i] = cxEmitAlpha[r.Intn(len(cxEmitAlpha))]
		}
		return string(b)
	}
}

func cxAnyRule(r *Rng, n int) int {
	if r.Intn(8) == 0 {
		return int(int32(r.Next())) | n<<8
	}
	return r.Intn(n)
}

type cxHolder struct {
	D date.Date    `json:"d"`
	R roman.Number `json:"r"`
	V sem.Ver      `json:"v"`
	S size.Size    `json:"s"`
	U uu.ID        `json:"u"`
}

// cxLimCheck checks the limit contract for one answer.
func cxLimCheck(c *Ctx, name string, repro func() string, max, l int, err, tooLong error) {
	c.Evals++
	if max != 0 && l > max {
		if !errors.Is(err, tooLong) {
			c.Fail("C18.limit."+name, repro(), "length %d over limit %d but error is %v", l, max, err)
		}
	} else if errors.Is(err, tooLong) {
		c.Fail("C18.limitspurious."+name, repro(), "length %d within limit %d but error is %v", l, max, err)
	}
}

// cxTotality drives every public parsing / validating / comparing entry point with in (and in2) under
// the limit mode (0: limit 0, 1: limit 1, 2: default, 3: default+1) and emits up to emit protocol lines.
func cxTotality(c *Ctx, g *cxG, in, in2 string, mode int, emit int) {
	lim := func(def int) int {
		switch mode {
		case 0:
			return 0
		case 1:
			return 1
		case 2:
			return def
		}
		return def + 1
	}
	ld, lr, ls, lz, lu := lim(cxDef.dateML), lim(cxDef.romanML), lim(cxDef.semML), lim(cxDef.sizeML), lim(cxDef.uuML)
	restore := cxSetLimits(ld, lr, ls, lz, lu)
	mk := []int{0, 1, 2, 16}[c.R.Intn(4)]
	oldMK := size.MaxObjectKeys
	size.MaxObjectKeys = mk
	defer func() { size.MaxObjectKeys = oldMK; restore() }()
	h, h2 := hx([]byte(in)), hx([]byte(in2))
	bin, bin2 := []byte(in), []byte(in2)
	// small inputs: one allocation measurement around all calls; inputs of several KiB: one per call
	measure := len(in) < 4096 && len(in2) < 4096
	g.big = !measure && len(in) <= 100<<10 && len(in2) <= 100<<10
	defer func() { g.big = false }()
	var a0 uint64
	if measure {
		a0 = cxTotalAlloc()
	}
	var lines []string
	// date
	dr := cxAnyRule(c.R, 4)
	dline := fmt.Sprintf("date.parse %d %d %s", ld, dr, h)
	g.run("date", func() string { return dline }, func() {
		_, e1 := date.DefaultParser(in, date.Rule(dr))
		_, e2 := date.DefaultParser(bin, date.Rule(dr))
		cxLimCheck(c, "date", func() string { return dline }, ld, len(in), e1, date.ErrInputTooLong)
		cxLimCheck(c, "date.bytes", func() string { return dline }, ld, len(in), e2, date.ErrInputTooLong)
		var d date.Date
		e3 := d.UnmarshalText(bin)
		cxLimCheck(c, "date.UnmarshalText", func() string { return dline }, ld, len(in), e3, date.ErrInputTooLong)
	})
	g.run("date.UnmarshalBinary", func() string { return "date.unbin " + h }, func() {
		var d date.Date
		d.UnmarshalBinary(bin)
	})
	g.run("date.Scan", func() string { return "hist date S:x (value " + strconv.Quote(in) + ")" }, func() {
		var d date.Date
		d.Scan(in)
		d.Scan(bin)
		d.Scan(nil)
		d.Scan(len(in))
	})
	lines = append(lines, dline) // negative rule values too: the driver reads rule fields as two's-complement bit patterns
	lines = append(lines, "date.unbin "+h, "hist date T:"+h+" B:"+h2+" T:"+h2+" B:"+h)
	// roman
	rr := cxAnyRule(c.R, 2)
	rline := fmt.Sprintf("roman.parse %d %d %s", lr, rr, h)
	g.run("roman", func() string { return rline }, func() {
		_, e1 := roman.DefaultParser(in, roman.Rule(rr))
		_, e2 := roman.DefaultParser(bin, roman.Rule(rr))
		e3 := roman.Valid(in, roman.Rule(rr))
		e4 := roman.Valid(bin, roman.Rule(rr))
		var x roman.Number
		e5 := x.UnmarshalText(bin)
		for i, e := range []error{e1, e2, e3, e4, e5} {
			cxLimCheck(c, "roman."+strconv.Itoa(i), func() string { return rline }, lr, len(in), e, roman.ErrInputTooLong)
		}
	})
	lines = append(lines, rline, fmt.Sprintf("roman.valid %d %d %s", lr, rr, h))
	lines = append(lines, "hist roman T:"+h+" T:"+h2)
	// sem
	sr := cxAnyRule(c.R, 2)
	sline := fmt.Sprintf("sem.parse Default %d %s", ls, h)
	g.run("sem.parse", func() string { return sline }, func() {
		_, e0 := sem.DefaultParser(in, sem.Rule(sr))
		_, e1 := sem.DefaultParser(bin, sem.Rule(sr))
		_, e2 := sem.Parse(in)
		_, e3 := sem.Parse(bin)
		_, e4 := sem.ParseTag(in)
		_, e5 := sem.ParseTag(bin)
		_, e6 := sem.ParseVersion(in)
		_, e7 := sem.ParseVersion(bin)
		var x sem.Ver
		e8 := x.UnmarshalText(bin)
		for i, e := range []error{e0, e1, e2, e3, e4, e5, e6, e7, e8} {
			cxLimCheck(c, "sem."+strconv.Itoa(i), func() string { return sline }, ls, len(in), e, sem.ErrInputTooLong)
		}
	})
	cline := fmt.Sprintf("sem.cmpstr Parse %d %s %s", ls, h, h2)
	g.run("sem.compare", func() string { return cline }, func() {
		_, e1 := sem.Compare(in, in2)
		_, e2 := sem.CompareTag(bin, in2)
		_, e3 := sem.CompareVersion[string, string](in, in2)
		_, e4 := sem.Latest(in, bin2)
		_, e5 := sem.LatestTag(in, in2)
		_, e6 := sem.LatestVersion(bin, bin2)
		for i, e := range []error{e1, e2, e3, e4, e5, e6} {
			if ls != 0 && len(in) > ls || ls == 0 || len(in) <= ls && len(in2) <= ls {
				cxLimCheck(c, "sem.cmp."+strconv.Itoa(i), func() string { return cline }, ls, len(in), e, sem.ErrInputTooLong)
			}
		}
	})
	pline := "sem.cmppre " + h + " " + h2
	g.run("sem.cmppre", func() string { return pline }, func() {
		r1 := sem.DefaultComparePreRelease(in, in2)
		r2 := sem.DefaultComparePreRelease(bin2, in)
		r3 := sem.ComparePreRelease(in, in2)
		if r1 < -1 || r1 > 1 || r2 < -1 || r2 > 1 || r3 != r1 {
			c.Fail("C18.sem.cmppre.range", pline, "%d %d %d", r1, r2, r3)
		}
	})
	vline := fmt.Sprintf("sem.cmp 1 2 3 %s %s 1 2 3 %s %s", h, h2, h2, h)
	g.run("sem.Ver", func() string { return vline }, func() {
		v := sem.Ver{Major: 1, Minor: 2, Patch: 3, PreRelease: in, Build: in2}
		w := sem.Ver{Major: 1, Minor: 2, Patch: 3, PreRelease: in2, Build: in}
		if r := v.Compare(w); r < -1 || r > 1 {
			c.Fail("C18.sem.Compare.range", vline, "%d", r)
		}
		v.Valid()
		w.Valid()
		v.Latest(w)
		v.IsZero()
		_ = v.String()
	})
	lines = append(lines, sline, fmt.Sprintf("sem.parse %s %d %s", []string{"Parse", "ParseVersion", "ParseTag", "DefaultNoTag"}[c.R.Intn(4)], ls, h), cline,
		fmt.Sprintf("sem.cmpstr %s %d %s %s", []string{"ParseVersion", "ParseTag"}[c.R.Intn(2)], ls, h, h2),
		fmt.Sprintf("sem.latest %s %d %s %s", []string{"Parse", "ParseVersion", "ParseTag"}[c.R.Intn(3)], ls, h, h2),
		pline, vline, "sem.valid "+h+" "+h2, "hist sem T:"+h+" T:"+h2)
	// size
	zr := cxAnyRule(c.R, 16)
	zline := fmt.Sprintf("size.parse %d %d %d %s", lz, mk, zr, h)
	g.run("size", func() string { return zline }, func() {
		_, e1 := size.DefaultParser(in, size.Rule(zr))
		_, e2 := size.DefaultParser(bin, size.Rule(zr))
		var x size.Size
		e3 := x.UnmarshalText(bin)
		e4 := x.UnmarshalJSON(bin)
		for i, e := range []error{e1, e2, e3, e4} {
			cxLimCheck(c, "size."+strconv.Itoa(i), func() string { return zline }, lz, len(in), e, size.ErrInputTooLong)
		}
	})
	if zr >= 0 {
		lines = append(lines, zline)
	}
	lines = append(lines, fmt.Sprintf("size.parse %d %d %d %s", lz, mk, []int{6, 14, 2, 4}[c.R.Intn(4)], h), "hist size T:"+h+" J:"+h+" J:"+h2, "json.tokens "+h)
	// uu
	ur := cxAnyRule(c.R, 4)
	uline := fmt.Sprintf("uu.parse %d %d %s", lu, ur, h)
	g.run("uu", func() string { return uline }, func() {
		_, e1 := uu.DefaultParser(in, uu.Rule(ur))
		_, e2 := uu.DefaultParser(bin, uu.Rule(ur))
		var x uu.ID
		e3 := x.UnmarshalText(bin)
		for i, e := range []error{e1, e2, e3} {
			cxLimCheck(c, "uu."+strconv.Itoa(i), func() string { return uline }, lu, len(in), e, uu.ErrInputTooLong)
		}
	})
	lines = append(lines, uline)
	lines = append(lines, "hist uu T:"+h+" T:"+h2)
	g.run("encoding/json", func() string { return "json.Unmarshal " + h }, func() {
		var hd cxHolder
		json.Unmarshal(bin, &hd)
		json.Unmarshal([]byte(`{"d":`+strconv.Quote(in)+`,"r":`+strconv.Quote(in)+`,"v":`+strconv.Quote(in)+`,"s":`+strconv.Quote(in)+`,"u":`+strconv.Quote(in)+`}`), &hd)
	})
	if measure {
		if d := cxTotalAlloc() - a0; d > cxAllocLimit {
			c.Fail("C18.alloc", zline, "%d bytes allocated by one round of calls on inputs of %d and %d bytes", d, len(in), len(in2))
		}
	}
	if !bytes.Equal(bin, []byte(in)) || !bytes.Equal(bin2, []byte(in2)) {
		c.Fail("C18.inputmod", zline, "an entry point modified its input")
	}
	// correspondence lines: the limits travel as arguments; hist lines run under the defaults
	restore()
	size.MaxObjectKeys = oldMK
	for k := 0; k < emit && len(lines) > 0; k++ {
		i := c.R.Intn(len(lines))
		l := lines[i]
		lines = append(lines[:i], lines[i+1:]...)
		if strings.HasPrefix(l, "hist ") {
			cxHistOp(c, l)
		} else {
			c.Op(l)
		}
	}
}

const cxDistinctAlpha = "QZJXKWqzjxkw#@~^|`"

// cxDistinct builds n bytes none of whose 4-byte windows can occur in a library message by accident.
func cxDistinct(r *Rng, n int) string {
	b := make([]byte, n)
	for i := range b {
		b[i] = cxDistinctAlpha[r.Intn(len(cxDistinctAlpha))]
	}
	return string(b)
}

// cxEchoes reports a run of at least four consecutive input bytes inside msg.
func cxEchoes(msg, in string) (string, bool) {
	for i := 0; i+4 <= len(in); i++ {
		if i == 256 && len(in) > 600 {
			i = len(in) - 256
		}
		if strings.Contains(msg, in[i:i+4]) {
			return in[i : i+4], true
		}
	}
	return "", false
}

// cxEntry is one entry point taking text under a package's MaxInputLength.
type cxEntry struct {
	name string
	line func(ml int, in string) string // protocol line, "" if none
	call func(in string) error
}

func cxEntries(typ string) (entries []cxEntry, tooLong error, set func(int) func(), def int) {
	h := func(s string) string { return hx([]byte(s)) }
	switch typ {
	case "date":
		set = func(n int) func() { return setDateMax(n) }
		for _, r := range []date.Rule{0, 1} {
			r := r
			ln := func(ml int, in string) string { return fmt.Sprintf("date.parse %d %d %s", ml, r, h(in)) }
			entries = append(entries,
				cxEntry{fmt.Sprintf("DefaultParser[string] r%d", r), ln, func(in string) error { _, e := date.DefaultParser(in, r); return e }},
				cxEntry{fmt.Sprintf("DefaultParser[[]byte] r%d", r), ln, func(in string) error { _, e := date.DefaultParser([]byte(in), r); return e }},
				cxEntry{fmt.Sprintf("DefaultParser[named] r%d", r), ln, func(in string) error { _, e := date.DefaultParser(namedBytes(in), r); return e }})
		}
		entries = append(entries, cxEntry{"UnmarshalText", nil, func(in string) error { var d date.Date; return d.UnmarshalText([]byte(in)) }})
		return entries, date.ErrInputTooLong, set, cxDef.dateML
	case "roman":
		set = func(n int) func() { return ruSetRomanMaxCx(n) }
		for _, r := range []roman.Rule{0, 1} {
			r := r
			ln := func(ml int, in string) string { return fmt.Sprintf("roman.parse %d %d %s", ml, r, h(in)) }
			lv := func(ml int, in string) string { return fmt.Sprintf("roman.valid %d %d %s", ml, r, h(in)) }
			entries = append(entries,
				cxEntry{fmt.Sprintf("DefaultParser[string] r%d", r), ln, func(in string) error { _, e := roman.DefaultParser(in, r); return e }},
				cxEntry{fmt.Sprintf("DefaultParser[[]byte] r%d", r), ln, func(in string) error { _, e := roman.DefaultParser([]byte(in), r); return e }},
				cxEntry{fmt.Sprintf("Valid[string] r%d", r), lv, func(in string) error { return roman.Valid(in, r) }},
				cxEntry{fmt.Sprintf("Valid[[]byte] r%d", r), lv, func(in string) error { return roman.Valid([]byte(in), r) }})
		}
		entries = append(entries, cxEntry{"UnmarshalText", nil, func(in string) error { var x roman.Number; return x.UnmarshalText([]byte(in)) }})
		return entries, roman.ErrInputTooLong, set, cxDef.romanML
	case "sem":
		set = func(n int) func() {
			old := sem.MaxInputLength
			sem.MaxInputLength = n
			return func() { sem.MaxInputLength = old }
		}
		for _, e := range []string{"Parse", "ParseVersion", "ParseTag", "Default", "DefaultNoTag"} {
			e := e
			ln := func(ml int, in string) string { return fmt.Sprintf("sem.parse %s %d %s", e, ml, h(in)) }
			entries = append(entries,
				cxEntry{e + "[string]", ln, func(in string) error { _, err := semParse(e, in); return err }},
				cxEntry{e + "[[]byte]", ln, func(in string) error { _, err := semParse(e, []byte(in)); return err }})
		}
		const ok = "1.0.0"
		const okTag = "v1.0.0"
		l2 := func(op, e string, first bool) func(ml int, in string) string {
			return func(ml int, in string) string {
				o := ok
				if e == "ParseTag" {
					o = okTag
				}
				if first {
					return fmt.Sprintf("%s %s %d %s %s", op, e, ml, h(in), h(o))
				}
				return fmt.Sprintf("%s %s %d %s %s", op, e, ml, h(o), h(in))
			}
		}
		entries = append(entries,
			cxEntry{"Compare(in, ok)", l2("sem.cmpstr", "Parse", true), func(in string) error { _, e := sem.Compare(in, ok); return e }},
			cxEntry{"Compare(ok, in)", l2("sem.cmpstr", "Parse", false), func(in string) error { _, e := sem.Compare([]byte(ok), []byte(in)); return e }},
			cxEntry{"CompareVersion(in, ok)", l2("sem.cmpstr", "ParseVersion", true), func(in string) error { _, e := sem.CompareVersion[string, string](in, ok); return e }},
			cxEntry{"CompareVersion(ok, in)", l2("sem.cmpstr", "ParseVersion", false), func(in string) error { _, e := sem.CompareVersion[string, string](ok, in); return e }},
			cxEntry{"CompareTag(in, ok)", l2("sem.cmpstr", "ParseTag", true), func(in string) error { _, e := sem.CompareTag([]byte(in), okTag); return e }},
			cxEntry{"CompareTag(ok, in)", l2("sem.cmpstr", "ParseTag", false), func(in string) error { _, e := sem.CompareTag(okTag, in); return e }},
			cxEntry{"Latest(in, ok)", l2("sem.latest", "Parse", true), func(in string) error { _, e := sem.Latest(in, ok); return e }},
			cxEntry{"Latest(ok, in)", l2("sem.latest", "Parse", false), func(in string) error { _, e := sem.Latest(ok, []byte(in)); return e }},
			cxEntry{"LatestVersion(in, ok)", l2("sem.latest", "ParseVersion", true), func(in string) error { _, e := sem.LatestVersion([]byte(in), ok); return e }},
			cxEntry{"LatestVersion(ok, in)", l2("sem.latest", "ParseVersion", false), func(in string) error { _, e := sem.LatestVersion(ok, in); return e }},
			cxEntry{"LatestTag(in, ok)", l2("sem.latest", "ParseTag", true), func(in string) error { _, e := sem.LatestTag(in, okTag); return e }},
			cxEntry{"LatestTag(ok, in)", l2("sem.latest", "ParseTag", false), func(in string) error { _, e := sem.LatestTag([]byte(okTag), []byte(in)); return e }},
			cxEntry{"UnmarshalText", nil, func(in string) error { var x sem.Ver; return x.UnmarshalText([]byte(in)) }})
		return entries, sem.ErrInputTooLong, set, cxDef.semML
	case "size":
		set = func(n int) func() {
			old := size.MaxInputLength
			size.MaxInputLength = n
			return func() { size.MaxInputLength = old }
		}
		for r := size.Rule(0); r < 16; r++ {
			r := r
			ln := func(ml int, in string) string {
				return fmt.Sprintf("size.parse %d %d %d %s", ml, cxDef.sizeMK, r, h(in))
			}
			entries = append(entries,
				cxEntry{fmt.Sprintf("DefaultParser[string] r%d", r), ln, func(in string) error { _, e := size.DefaultParser(in, r); return e }},
				cxEntry{fmt.Sprintf("DefaultParser[[]byte] r%d", r), ln, func(in string) error { _, e := size.DefaultParser([]byte(in), r); return e }})
		}
		entries = append(entries,
			cxEntry{"UnmarshalText", nil, func(in string) error { var x size.Size; return x.UnmarshalText([]byte(in)) }},
			cxEntry{"UnmarshalJSON", nil, func(in string) error { var x size.Size; return x.UnmarshalJSON([]byte(in)) }})
		return entries, size.ErrInputTooLong, set, cxDef.sizeML
	}
	set = func(n int) func() {
		old := uu.MaxInputLength
		uu.MaxInputLength = n
		return func() { uu.MaxInputLength = old }
	}
	for r := uu.Rule(0); r < 4; r++ {
		r := r
		ln := func(ml int, in string) string { return fmt.Sprintf("uu.parse %d %d %s", ml, r, h(in)) }
		entries = append(entries,
			cxEntry{fmt.Sprintf("DefaultParser[string] r%d", r), ln, func(in string) error { _, e := uu.DefaultParser(in, r); return e }},
			cxEntry{fmt.Sprintf("DefaultParser[[]byte] r%d", r), ln, func(in string) error { _, e := uu.DefaultParser([]byte(in), r); return e }})
	}
	entries = append(entries, cxEntry{"UnmarshalText", nil, func(in string) error { var x uu.ID; return x.UnmarshalText([]byte(in)) }})
	return entries, uu.ErrInputTooLong, set, cxDef.uuML
}

func ruSetRomanMaxCx(n int) func() {
	old := roman.MaxInputLength
	roman.MaxInputLength = n
	return func() { roman.MaxInputLength = old }
}

// cxLimitContract: for every package, limit and length around it, every entry point rejects exactly
// the over-long inputs with the package's ErrInputTooLong and a message that does not depend on the input.
func cxLimitContract(c *Ctx, g *cxG) {
	for _, typ := range cxTypes {
		entries, tooLong, set, def := cxEntries(typ)
		limits := []int{0, 1, def, def + 1, 2, def - 1, 7 + c.R.Intn(300)}
		if c.Thorough {
			for k := 0; k < 12; k++ {
				limits = append(limits, 2+c.R.Intn(2*def+50))
			}
		}
		emitted := map[string]bool{}
		for _, L := range limits {
			lengths := []int{L - 1, L, L + 1, L + 2, 10 * L, 10*L + 1}
			if L == 0 {
				lengths = []int{1, def - 1, def, def + 1, 10 * def, 10*def + 1, 100 << 10}
			}
			for _, n := range lengths {
				if n <= 0 {
					continue
				}
				// inputs of length n: grammatical apart from the length, distinctive bytes, control for the message
				shaped := cxLongText(c.R, typ, n)
				inputs := []string{shaped, cxDistinct(c.R, n), strings.Repeat("\xff", n), cxValidText(c.R, typ)}
				if typ == "size" {
					inputs = append(inputs, strings.Repeat(" ", n-1)+"7", (`{"value":1,"unit":"B"` + strings.Repeat(" ", n))[:n-1]+"}")
				}
				for ii, in := range inputs {
					control := cxDistinct(c.R, len(in))
					for ei := range entries {
						e := &entries[ei]
						if L != 0 && L < 6 && strings.Contains(e.name, "ok") {
							continue // the fixed valid second argument of the two-argument helpers must fit
						}
						line := ""
						if e.line != nil {
							line = e.line(L, in)
						}
						var err, cerr error
						restore := set(L)
						g.run(typ+"."+e.name, func() string { return line }, func() { err = e.call(in) })
						over := L != 0 && len(in) > L
						if over {
							g.run(typ+"."+e.name, func() string { return line }, func() { cerr = e.call(control) })
						}
						restore()
						c.Evals++
						key := "C18.limit." + typ
						switch {
						case over && !errors.Is(err, tooLong):
							c.Fail(key, line, "%s: length %d over limit %d: %v", e.name, len(in), L, err)
						case !over && errors.Is(err, tooLong):
							c.Fail(key+".spurious", line, "%s: length %d within limit %d: %v", e.name, len(in), L, err)
						case over:
							if cerr == nil || cerr.Error() != err.Error() {
								c.Fail(key+".message", line, "%s: message depends on the input: %q vs %q", e.name, err, cerr)
							}
							if ii == 1 {
								if w, bad := cxEchoes(err.Error(), in); bad {
									c.Fail(key+".echo", line, "%s: message %q reproduces %q", e.name, err, w)
								}
							}
							if !strings.Contains(err.Error(), strconv.Itoa(len(in))+" > "+strconv.Itoa(L)) {
								c.Fail(key+".numbers", line, "%s: message %q does not state %d > %d", e.name, err, len(in), L)
							}
						case ii == 0 && (typ == "roman" || typ == "size" || typ == "sem" && n >= 7 || typ == "date" && n >= 10 && n <= 15) &&
							!strings.Contains(e.name, "Tag") && !(typ == "size" && (strings.HasSuffix(e.name, "JSON") || strings.Contains(e.name, " r") && !strings.HasSuffix(e.name, " r0"))):
							// a grammatical text within the limit is accepted whatever its length
							if err != nil {
								c.Fail(key+".reject", line, "%s: grammatical text of length %d rejected under limit %d: %v", e.name, len(in), L, err)
							}
						}
						if line != "" && len(in) <= 20000 && !emitted[line] && (ei%3 == ii%3 || L == def) {
							emitted[line] = true
							c.Op(line)
						}
					}
				}
				c.NT(1)
			}
		}
	}
}

// cxSizeRuleLimits: the limit contract of Size.UnmarshalText / Size.UnmarshalJSON under EVERY size.DefaultRule (cxEntries
// runs the two methods under the rule the package ships with; DefaultParser under all sixteen): whatever forms the rule
// enables, an input longer than a non-zero limit is refused as too long - judged on the bytes as given, padding included -
// with a message that states the two numbers, and nothing within the limit is refused for its length.
func cxSizeRuleLimits(c *Ctx, g *cxG) {
	defer cxSetDefaults()()
	defined, unknown := cxSizeDefaultRules()
	def := cxDef.sizeML
	for ri, dr := range append(defined, unknown...) {
		// totality first: the hand-picked texts (the empty one as nil and as an empty slice) under this rule, both methods
		for _, text := range cxSizeHandTexts {
			for _, entry := range []string{"UnmarshalText", "UnmarshalJSON", "UnmarshalText(nil)", "UnmarshalJSON(nil)"} {
				if strings.HasSuffix(entry, "(nil)") && text != "" {
					continue
				}
				size.DefaultRule, size.MaxInputLength = dr, def
				text, entry := text, entry
				g.run("size."+entry+".rule", func() string { return fmt.Sprintf("size.DefaultRule = %d, %s %q", int(dr), entry, text) }, func() {
					var x size.Size
					data := []byte(text)
					if strings.HasSuffix(entry, "(nil)") {
						data = nil
					}
					if strings.HasPrefix(entry, "UnmarshalJSON") {
						_ = x.UnmarshalJSON(data)
					} else {
						_ = x.UnmarshalText(data)
					}
				})
			}
		}
		limits := []int{def, 0, 1, 7 + c.R.Intn(300)}
		if ri >= len(defined) {
			limits = []int{def, 0}
		}
		for _, L := range limits {
			lengths := []int{L - 1, L, L + 1, L + 2, 10*L + 1}
			if L == 0 {
				lengths = []int{1, def, def + 1, 10*def + 1}
			}
			for _, n := range lengths {
				if n <= 0 {
					continue
				}
				inputs := []string{cxLongText(c.R, "size", n), strings.Repeat(" ", n-1) + "7", "7" + strings.Repeat(" ", n-1),
					strings.Repeat("\t", n/2) + "7" + strings.Repeat("\n", n-1-n/2), (`{"value":1,"unit":"B"` + strings.Repeat(" ", n))[:n-1] + "}",
					(strings.Repeat(" ", n) + `"1kB"`)[5:], (`"1kB"` + strings.Repeat("\r\n", n))[:n], strings.Repeat("\xff", n)}
				for _, in := range inputs {
					for _, entry := range []string{"UnmarshalText", "UnmarshalJSON"} {
						var err error
						size.DefaultRule, size.MaxInputLength = dr, L
						where := func() string {
							return fmt.Sprintf("size.DefaultRule = %d, size.MaxInputLength = %d, %s(%s)", int(dr), L, entry, ruClip(in))
						}
						g.run("size."+entry+".rule", where, func() {
							var x size.Size
							if entry == "UnmarshalJSON" {
								err = x.UnmarshalJSON([]byte(in))
							} else {
								err = x.UnmarshalText([]byte(in))
							}
						})
						over := L != 0 && len(in) > L
						switch {
						case over && !errors.Is(err, size.ErrInputTooLong):
							c.Fail("C18.limit.size.rule", "", "%s: length %d over limit %d: %v", where(), len(in), L, err)
						case !over && errors.Is(err, size.ErrInputTooLong):
							c.Fail("C18.limit.size.rule.spurious", "", "%s: length %d within limit %d: %v", where(), len(in), L, err)
						case over && !strings.Contains(err.Error(), strconv.Itoa(len(in))+" > "+strconv.Itoa(L)):
							c.Fail("C18.limit.size.rule.numbers", "", "%s: message %q does not state %d > %d", where(), err, len(in), L)
						}
					}
				}
				c.NT(1)
			}
		}
	}
}

// cxNearMissBases: one or two valid texts of every type (the bases of the near-miss stream of propC18).
var cxNearMissBases = []string{"2024-02-29", "20240229", "MCMXCIV", "mmxxiv", "v1.2.3-rc.1+b.7", "1.0.0", "10 KiB", "1 000 kB", `{"value":1,"unit":"KiB"}`, `"12kB"`,
	"ed7059f3-0000-4000-8000-000000000000", "URN:uuid:ED7059F3-0000-4000-8000-00000000ABCD"}

// cxHugeInputs: with the limit at 0, and with a limit above the input, a text of 2 MiB + 1 is never refused as too long
// (a hard cap hidden behind the configurable limit), a grammatical one is accepted, and the call stays quick and frugal.
// Package regexp needs a quarter of a second per mebibyte on the roman and sem patterns, so those two packages run a
// choice of entry points (string and []byte, one- and two-argument, UnmarshalText) instead of all of them.
func cxHugeInputs(c *Ctx, g *cxG) {
	const n = 2<<20 + 1
	// a 2 MiB input legitimately takes up to about half a second per regexp-based entry point on an idle machine;
	// on a loaded one many times that: runaway here means more than 20 s, twice in a row
	oldSlow := g.slow
	g.slow = 20 * time.Second
	defer func() { g.slow = oldSlow }()
	slowPick := map[string]bool{"DefaultParser[string] r0": true, "Valid[[]byte] r1": true, "Parse[string]": true, "Default[[]byte]": true, "Compare(ok, in)": true, "UnmarshalText": true}
	for _, typ := range cxTypes {
		entries, tooLong, set, _ := cxEntries(typ)
		shaped := cxLongText(c.R, typ, n)
		for ei := range entries {
			e := &entries[ei]
			slow := typ == "roman" || typ == "sem"
			if slow && !slowPick[e.name] {
				continue
			}
			for li, L := range []int{0, 2 * n} {
				if slow && li != ei%2 && e.name != "UnmarshalText" || slow && e.name == "UnmarshalText" && li == 1 {
					continue
				}
				var err error
				restore := set(L)
				a0 := cxTotalAlloc()
				name := fmt.Sprintf("%s.%s", typ, e.name)
				g.run(name, func() string { return fmt.Sprintf("%s: %d-byte input, limit %d", name, n, L) }, func() { err = e.call(shaped) })
				alloc := cxTotalAlloc() - a0
				restore()
				c.Evals++
				repro := fmt.Sprintf("%s on a grammatical %d-byte text under MaxInputLength %d", name, n, L)
				if errors.Is(err, tooLong) {
					c.Fail("C18.limit."+typ+".huge", repro, "refused as too long although the limit is %d: %v", L, err)
				} else if err != nil && (typ == "roman" || typ == "sem" && !strings.Contains(e.name, "Tag") || typ == "size" && (strings.HasSuffix(e.name, " r0") || e.name == "UnmarshalText")) {
					c.Fail("C18.limit."+typ+".huge.reject", repro, "%v", err)
				}
				if alloc > 96*n {
					c.Fail("C18.alloc."+typ+".huge", repro, "allocated %d bytes for %d input bytes", alloc, n)
				}
				// (time: the guarded call above counts as runaway only if it needs more than g.slow twice in a row)
			}
		}
		c.NT(1)
	}
}

// cxNegativeLimits: a negative MaxInputLength is non-zero, and every non-empty input is longer than it: all five
// packages refuse every non-empty input as too long then (the empty input is not used here: date, roman and sem look
// at it before the limit, size and uu after — the property does not say which).
func cxNegativeLimits(c *Ctx, g *cxG) {
	for _, typ := range cxTypes {
		entries, tooLong, set, _ := cxEntries(typ)
		for _, L := range []int{-1, -5, math.MinInt64} {
			inputs := []string{cxValidText(c.R, typ), cxSeedValid[typ], "x", cxDistinct(c.R, 5), "\xff"}
			for _, in := range inputs {
				if in == "" {
					continue
				}
				for ei := range entries {
					e := &entries[ei]
					var err error
					restore := set(L)
					name := fmt.Sprintf("%s.%s", typ, e.name)
					g.run(name, func() string { return fmt.Sprintf("%s(%q) under MaxInputLength %d", name, in, L) }, func() { err = e.call(in) })
					restore()
					c.Evals++
					if !errors.Is(err, tooLong) {
						c.Fail("C18.limit."+typ+".negative", fmt.Sprintf("%s(%q) under MaxInputLength %d", name, in, L), "a %d-byte input is longer than the non-zero limit %d, but: %v", len(in), L, err)
						continue
					}
					// the too-long message does not reproduce the input under a negative limit either: a control input of the
					// same length gives the same text, and a distinctive input leaves no four-byte run in it
					control := cxDistinct(c.R, len(in))
					var cerr error
					restore = set(L)
					g.run(name, func() string { return fmt.Sprintf("%s(%q) under MaxInputLength %d", name, control, L) }, func() { cerr = e.call(control) })
					restore()
					if cerr == nil || cerr.Error() != err.Error() {
						c.Fail("C18.limit."+typ+".negative.message", fmt.Sprintf("%s(%q) under MaxInputLength %d", name, in, L), "message depends on the input: %q vs %q for %q", err, cerr, control)
					} else if w, bad := cxEchoes(err.Error(), in); bad && len(in) >= 4 && !strings.Contains(cerr.Error(), w) {
						c.Fail("C18.limit."+typ+".negative.echo", fmt.Sprintf("%s(%q) under MaxInputLength %d", name, in, L), "message %q reproduces %q", err, w)
					}
				}
			}
		}
		c.NT(3)
	}
}

// cxLimitMagnitude: the VALUE of the limit. Callers who want "practically unlimited" set MaxInputLength to a huge number;
// a parser whose cost or arithmetic depends on the limit itself (a buffer pre-sized by it, a narrowing to int32 or
// uint16, limit+1 overflowing) misbehaves only there. For each package and each limit of the list every entry point is
// called with short inputs (valid, malformed, empty): no panic, no allocation beyond a few KiB, never "too long", and
// exactly the outcome (error presence and text) the same call has with the limit switched off; the valid text of the
// package is accepted by the plain entry points. The first finding per package ends that package's sweep, so that a
// parser that allocates by the limit is not asked for gigabytes again and again; the unrepresentable sizes come first
// (they panic instead of allocating).
func cxLimitMagnitude(c *Ctx, g *cxG) {
	limits := []int{math.MaxInt64, math.MaxInt64 - 1, 1 << 62, 1<<32 + 2, 1 << 32, 1<<32 - 1, 1 << 31, 1<<31 - 1, 1<<16 + 1, 1 << 24}
	for _, typ := range cxTypes {
		entries, tooLong, set, _ := cxEntries(typ)
		inputs := []string{cxSeedValid[typ], cxValidText(c.R, typ), "x", "", cxSeedValid[typ] + " ", "\xff\xfe"}
		if typ == "size" {
			inputs = append(inputs, "{\"value\":2,\"unit\":\"KiB\"}", "\"7 MB\"", "  1_000 kB ")
		}
		if typ == "sem" {
			inputs = append(inputs, "v1.2.3-rc.1+b.7")
		}
	sweep:
		for _, L := range limits {
			for ii, in := range inputs {
				for ei := range entries {
					e := &entries[ei]
					name := fmt.Sprintf("%s.%s", typ, e.name)
					repro := fmt.Sprintf("%s(%q) under MaxInputLength %d", name, in, L)
					if e.line != nil {
						repro = e.line(L, in)
					}
					var e0, eL error
					restore := set(0)
					g.run(name, func() string { return repro }, func() { e0 = e.call(in) })
					restore()
					before, fails := g.panics, len(c.Fails)
					restore = set(L)
					a0 := cxTotalAlloc()
					g.run(name, func() string { return repro }, func() { eL = e.call(in) })
					alloc := cxTotalAlloc() - a0
					restore()
					c.Evals++
					switch {
					case g.panics != before:
						// reported by g.run
					case alloc > 4<<20:
						c.Fail("C18.alloc."+typ+".hugelimit", repro, "a %d-byte input under the limit %d made the call allocate %d bytes", len(in), L, alloc)
					case errors.Is(eL, tooLong):
						c.Fail("C18.limit."+typ+".hugelimit", repro, "a %d-byte input is refused as too long under the limit %d: %v", len(in), L, eL)
					case (e0 == nil) != (eL == nil) || errText(e0) != errText(eL):
						c.Fail("C18.limit."+typ+".hugelimit.differs", repro, "limit off: %q, limit %d: %q", errText(e0), L, errText(eL))
					case ii == 0 && eL != nil && (strings.HasPrefix(e.name, "DefaultParser") && strings.HasSuffix(e.name, " r0") || e.name == "UnmarshalText" || strings.HasPrefix(e.name, "Valid") ||
						e.name == "Parse[string]" || e.name == "Parse[[]byte]" || e.name == "Default[string]" || e.name == "Default[[]byte]"):
						c.Fail("C18.limit."+typ+".hugelimit.reject", repro, "the valid text %q is rejected under the limit %d: %v", in, L, eL)
					}
					if len(c.Fails) != fails || g.panics != before {
						break sweep
					}
				}
			}
			c.NT(1)
		}
	}
}

var cxSeedValid = map[string]string{"date": "2024-02-29", "roman": "MCMXCIV", "sem": "1.2.3", "size": "10 KiB", "uu": "ed7059f3-0000-4000-8000-000000000000"}

var cxCmpStrings = []string{"", "ééé", "é", "éa", "aé", "a", "b", "1", "01", "001", "2", "10", "1a", "a1", "a01", "a.b", "a..b", ".", "..", "a.", ".a", "\xff", "\xff\xfe", "\x00", "-", "0", "00",
	"日本", "é.é", "é.1", "1.é", "ééé.ééé", "alpha", "alpha.1", "alpha.beta", "beta.2", "beta.11", "rc-1", "rc.1", "a-b", "A", "Z", "z", "١", "a\x00b", "9999999999999999999999", "99999999999999999999999",
	"18446744073709551615", "18446744073709551616", " ", "a b", "+", "a+b", "𝟙", "\xc3", "\xa9", "é\xc3", "0x1", "-1", "1-", "e", "ë", "é"}

// cxSpecific runs the hand-picked totality cases.
func cxSpecific(c *Ctx, g *cxG) {
	// comparison of arbitrary strings, multi-byte runes included
	strs := append([]string{}, cxCmpStrings...)
	strs = append(strs, strings.Repeat("9", 100), strings.Repeat("é", 50), strings.Repeat("a.", 60)+"a", strings.Repeat("0", 64)+"1")
	for i, a := range strs {
		for j, b := range strs {
			ha, hb := hx([]byte(a)), hx([]byte(b))
			pl := "sem.cmppre " + ha + " " + hb
			var r1, r2 int
			g.run("sem.DefaultComparePreRelease", func() string { return pl }, func() {
				r1 = sem.DefaultComparePreRelease(a, b)
				r2 = sem.DefaultComparePreRelease([]byte(a), []byte(b))
			})
			if r1 != r2 || r1 < -1 || r1 > 1 {
				c.Fail("C18.sem.cmppre.range", pl, "%d %d", r1, r2)
			}
			vl := fmt.Sprintf("sem.cmp 1 2 3 %s %s 1 2 3 %s %s", ha, hb, hb, ha)
			g.run("sem.Ver.Compare", func() string { return vl }, func() {
				v := sem.Ver{Major: 1, Minor: 2, Patch: 3, PreRelease: a, Build: b}
				w := sem.Ver{Major: 1, Minor: 2, Patch: 3, PreRelease: b, Build: a}
				v.Compare(w)
				v.Latest(w)
				v.Valid()
			})
			if (i*len(strs)+j)%3 == int(c.Seed%3) || i < 8 && j < 8 {
				c.Op(pl)
				c.Op(vl)
			}
			if j == (i*5+1)%len(strs) || j == i {
				c.Op("sem.valid " + ha + " " + hb)
				for _, e := range []string{"Parse", "ParseVersion", "ParseTag"} {
					c.Op(fmt.Sprintf("sem.cmpstr %s 0 %s %s", e, hx([]byte("1.0.0-"+a)), hx([]byte("v1.0.0-"+b))))
					c.Op(fmt.Sprintf("sem.latest %s 0 %s %s", e, hx([]byte("v1.0.0-"+a+"+"+b)), hx([]byte("v1.0.0-"+b))))
				}
			}
		}
	}
	c.NT(int64(len(strs) * len(strs)))
	// date.UnmarshalBinary on every length 0..20
	for l := 0; l <= 20; l++ {
		for _, first := range []int{-1, 0, 1, 2, 255} {
			for _, fill := range []int{0, 1, 12, 255, -1} {
				in := make([]byte, l)
				for i := range in {
					if fill < 0 {
						in[i] = byte(c.R.Next())
					} else {
						in[i] = byte(fill)
					}
				}
				if l > 0 && first >= 0 {
					in[0] = byte(first)
				}
				line := "date.unbin " + hx(in)
				var err error
				d := date.New(1999, 9, 9)
				g.run("date.UnmarshalBinary", func() string { return line }, func() { err = d.UnmarshalBinary(in) })
				switch {
				case l == 0:
					if !errors.Is(err, date.ErrInvalidLength) {
						c.Fail("C18.date.unbin", line, "%v", err)
					}
				case in[0] != 1:
					if !errors.Is(err, date.ErrUnsupportedVersion) {
						c.Fail("C18.date.unbin", line, "%v", err)
					}
				case l != 7:
					if !errors.Is(err, date.ErrInvalidLength) {
						c.Fail("C18.date.unbin", line, "%v", err)
					}
				}
				if err != nil && !d.Equal(date.New(1999, 9, 9)) {
					c.Fail("C18.date.unbin.recv", line, "receiver %v", d)
				}
				c.Op(line)
				cxHistOp(c, "hist date T:323032342d30322d3239 B:"+hx(in)+" B:01000007e8021d B:"+hx(in))
			}
		}
	}
	c.NT(21 * 25)
	// date.Scan with nil / int / string / []byte / time values
	tm := time.Date(2024, 2, 29, 23, 59, 59, 999999999, time.FixedZone("z", 3600))
	var nilT *time.Time
	var nilI any
	for i, v := range []any{nil, nilI, nilT, &tm, 0, int64(1709164800), uint8(1), "2024-02-29", "", []byte("2024-02-29"), []byte(nil), 1.5, true, struct{}{}, []any{tm}, map[string]any{}, date.New(2024, 2, 29), errors.New("x"),
		json.Number("1"), namedString("2024-02-29"), func() {}, make(chan int), time.Duration(5), time.UTC} {
		d := date.New(1999, 9, 9)
		var err error
		g.run("date.Scan", func() string { return fmt.Sprintf("hist date S:x (value #%d %T)", i, v) }, func() { err = d.Scan(v) })
		if !errors.Is(err, date.ErrInvalidType) || !d.Equal(date.New(1999, 9, 9)) {
			c.Fail("C18.date.scan.type", fmt.Sprintf("Scan(%T)", v), "err %v receiver %v", err, d)
		}
	}
	zones := []*time.Location{time.UTC, time.FixedZone("z", 3600), time.FixedZone("z", -12*3600), time.FixedZone("z", 14*3600), time.FixedZone("z", 1), time.FixedZone("z", -86399)}
	for _, sec := range []int64{0, -1, 1, cxZeroUnix, cxZeroUnix - 1, cxZeroUnix + 1, 1709164800, 253402300799, 253402300800, -62167219200, -62167219201, 1 << 40, -(1 << 40), 1 << 55, -(1 << 55), math.MaxInt64, math.MinInt64, math.MaxInt64 - 62135596800} {
		for _, nsec := range []int64{0, 1, 999999999} {
			for zi, z := range zones {
				t := time.Unix(sec, nsec).In(z)
				d := date.New(1999, 9, 9)
				var err error
				g.run("date.Scan", func() string {
					return fmt.Sprintf("hist date S:t:%d:%d:%d", sec, nsec, []int{0, 3600, -43200, 50400, 1, -86399}[zi])
				}, func() { err = d.Scan(t) })
				if err != nil {
					c.Fail("C18.date.scan.time", fmt.Sprint(t), "%v", err)
				}
				if y, m, dd := t.Date(); !t.IsZero() && y >= -999999999 && y <= 999999999 {
					if gy, gm, gd := d.Date(); gy != y || gm != m || gd != dd {
						c.Fail("C18.date.scan.value", fmt.Sprint(t), "%v", d)
					}
				}
				if sec > -(1<<40)-1 && sec < 1<<40+1 {
					cxHistOp(c, fmt.Sprintf("hist date S:t:%d:%d:%d S:x", sec, nsec, []int{0, 3600, -43200, 50400, 1, -86399}[zi]))
				}
			}
		}
	}
	// size: deep nesting and long runs with the limit switched off
	deep := []struct {
		in   string
		want string // "" = only totality
	}{
		{strings.Repeat("[", 10000), "err"},
		{strings.Repeat("{", 10000), "err"},
		{`{"x":` + strings.Repeat("[", 10000), "err"},
		{`{"x":` + strings.Repeat("[", 10000) + strings.Repeat("]", 10000) + `,"value":1,"unit":"B"}`, "1"},
		{`{"x":` + strings.Repeat(`{"a":`, 5000) + "1" + strings.Repeat("}", 5000) + `,"value":2,"unit":"KiB"}`, "2048"},
		{`{"x":` + strings.Repeat(`[{"a":`, 3000) + "null" + strings.Repeat("}]", 3000) + `,"unit":"MB","value":3}`, "3000000"},
		{strings.Repeat(`{"value":`, 3000), "err"},
		{`"` + strings.Repeat(`A`, 5000) + `"`, "err"},
		{`"` + strings.Repeat(" ", 30000) + `5 kB"`, "5000"},
		{strings.Repeat(" ", 50000) + "7", "7"},
		{`{"value":1,"unit":"B"` + strings.Repeat(" ", 20000) + "}", "1"},
		{`{"value":1,"unit":"B"}` + strings.Repeat("\n", 20000), "1"},
		{`{"value":1,"unit":"B"}` + strings.Repeat("]", 10000), "err"},
		{strings.Repeat("9", 100000), "err"},
		{strings.Repeat("0", 90000) + "12", ""},
		{`{` + strings.Repeat(`"k":[],`, 9000) + `"value":1,"unit":"B"}`, "1"},
		{`{"value":1,"unit":"` + strings.Repeat("K", 60000) + `"}`, "err"},
	}
	for di, dc := range deep {
		for _, r := range []size.Rule{6, 14, 2, 4, 0, 1} {
			line := fmt.Sprintf("size.parse 0 0 %d %s", r, hx([]byte(dc.in)))
			restore := cxSetLimits(0, 0, 0, 0, 0)
			omk := size.MaxObjectKeys
			size.MaxObjectKeys = 0
			a0 := cxTotalAlloc()
			var v size.Size
			var err error
			g.big = true
			g.run("size.deep", func() string { return fmt.Sprintf("size.parse 0 0 %d <deep case %d, %d bytes>", r, di, len(dc.in)) }, func() {
				v, err = size.DefaultParser(dc.in, r)
				var x size.Size
				x.UnmarshalJSON([]byte(dc.in))
				x.UnmarshalText([]byte(dc.in))
			})
			g.big = false
			alloc := cxTotalAlloc() - a0
			size.MaxObjectKeys = omk
			restore()
			if alloc > cxAllocLimit {
				c.Fail("C18.alloc.deep", fmt.Sprintf("deep case %d", di), "%d bytes allocated for %d input bytes", alloc, len(dc.in))
			}
			if errors.Is(err, size.ErrInputTooLong) || errors.Is(err, size.ErrObjectTooBig) {
				c.Fail("C18.limit.size.zero", fmt.Sprintf("deep case %d", di), "limits are off but: %v", err)
			}
			if r == 6 {
				switch {
				case dc.want == "err" && err == nil, dc.want != "err" && dc.want != "" && (err != nil || strconv.FormatUint(uint64(v), 10) != dc.want):
					c.Fail("C18.size.deep.value", fmt.Sprintf("deep case %d rule %d", di, r), "want %s, got %d %v", dc.want, v, err)
				}
			}
			if r == 6 && len(dc.in) <= 70000 {
				c.Op(line)
			}
		}
	}
	c.NT(int64(len(deep)))
	// long inputs into every package with the limits off: time and allocation stay linear
	pres := []string{"", "1.2.3-", "v1.2.3+", "1", "MM", `{"x":`, `"`}
	for ui, u := range cxRunUnits {
		for _, n := range []int{1000, 100 << 10} {
			in := strings.Repeat(u, n/len(u))
			for pi, pre := range pres {
				if n > 1000 && !c.Thorough && pi != (ui+int(c.Seed))%len(pres) {
					continue
				}
				s := pre + in
				if len(s) > 100<<10 {
					s = s[:100<<10]
				}
				cxTotality(c, g, s, pre+"a", 0, 0)
			}
		}
	}
}

func propC18(c *Ctx) {
	defer cxSetDefaults()()
	// ReadMemStats stops the world; with one P that costs microseconds instead of a millisecond
	defer runtime.GOMAXPROCS(runtime.GOMAXPROCS(1))
	g := &cxG{c: c}
	t0 := time.Now()
	iters, emit := 16000, 7
	if c.Thorough {
		iters, emit = 300000, 2
	}
	// 1. seeded random and structured byte strings into every entry point, limits in {0, 1, default, default+1}
	for i := 0; i < iters; i++ {
		in := cxCorpus(c.R)
		if i < len(cxSeeds) {
			in = cxSeeds[i]
		}
		in2 := cxCorpus(c.R)
		if c.R.Intn(5) == 0 {
			in2 = cxMutate1(c.R, in)
		}
		e := emit
		if len(in)+len(in2) > 3000 {
			e = 2
		}
		cxTotality(c, g, in, in2, i%4, e)
	}
	c.NT(int64(iters))
	// 1b. every hand-picked valid text with every near-miss affix (line terminator, CRLF, blank, NUL, BOM, doubled end byte …)
	// and every single look-alike substitution, through every entry point: no panic, the limit judged on the byte length
	nm := 0
	for _, base := range cxNearMissBases {
		for _, s := range affixTexts(base) {
			for mode := 0; mode < 4; mode++ {
				cxTotality(c, g, s, base, mode, 1)
			}
			nm++
		}
		for _, s := range lookalikeTexts(base) {
			cxTotality(c, g, s, base, nm%4, 1)
			nm++
		}
	}
	c.NT(int64(nm))
	t1 := time.Now()
	// 2. the limit contract on every entry point
	cxLimitContract(c, g)
	cxSizeRuleLimits(c, g)
	cxHugeInputs(c, g)
	cxNegativeLimits(c, g)
	cxLimitMagnitude(c, g)
	t2 := time.Now()
	// 3. hand-picked cases
	cxSpecific(c, g)
	c.Note("guarded calls: %d, panics: %d; largest allocation of one guarded call on an input of up to 100 KiB: %d bytes (%s)", g.calls, g.panics, g.worst, g.worstN)
	c.Note("seconds: random/structured %.1f, limit contract %.1f, specific %.1f", t1.Sub(t0).Seconds(), t2.Sub(t1).Seconds(), time.Since(t2).Seconds())
	if c.Thorough {
		cxNativeFuzz(c)
	} else {
		c.Note("native go test -fuzz runs in the thorough tier only")
	}
}

// cxFuzzSrc is the native fuzz harness: coverage-guided inputs into every public entry point; a panic is a
// crash the fuzzing engine reports by itself, the limit contract and the receiver rule are checked explicitly.
const cxFuzzSrc = `package fuzzcross

import (
	"bytes"
	"errors"
	"testing"
	"time"

	"go.lstv.dev/util/date"
	"go.lstv.dev/util/roman"
	"go.lstv.dev/util/sem"
	"go.lstv.dev/util/size"
	"go.lstv.dev/util/uu"
)

var def = [5]int{date.MaxInputLength, roman.MaxInputLength, sem.MaxInputLength, size.MaxInputLength, uu.MaxInputLength}

func lim(mode uint8, d int) int {
	switch mode % 4 {
	case 0:
		return 0
	case 1:
		return 1
	case 2:
		return d
	}
	return d + 1
}

func chk(t *testing.T, name string, max, l int, err, tooLong error) {
	if max != 0 && l > max {
		if !errors.Is(err, tooLong) {
			t.Fatalf("%s: length %d over limit %d: %v", name, l, max, err)
		}
	} else if errors.Is(err, tooLong) {
		t.Fatalf("%s: length %d within limit %d: %v", name, l, max, err)
	}
}

func same(t *testing.T, name string, e1, e2 error) {
	if (e1 == nil) != (e2 == nil) || e1 != nil && e1.Error() != e2.Error() {
		t.Fatalf("%s: string and bytes disagree: %v / %v", name, e1, e2)
	}
}

var seeds = []string{"2024-02-29", "20240229", "MCMXCIV", "mmxxiv", "v1.2.3-rc.1+b.7", "1.0.0", "10 KiB", "{\"value\":1,\"unit\":\"KiB\"}", "\"12kB\"",
	"ed7059f3-0000-4000-8000-000000000000", "urn:uuid:ed7059f3-0000-4000-8000-000000000000", "", "\xc3\xa9\xc3\xa9\xc3\xa9", "\xff\xfe", "\x00", "a.b-c", "1.2.3-\xc3\xa9",
	"\x01\x00\x00\x07\xe8\x02\x1d", "{\"x\":[[[1]]],\"value\":1,\"unit\":\"B\"}", "1_000 MB"}

func add(f *testing.F) {
	for i, s := range seeds {
		f.Add([]byte(s), []byte(seeds[(i*7+3)%len(seeds)]), i, uint8(i))
	}
}

func FuzzDate(f *testing.F) {
	add(f)
	f.Fuzz(func(t *testing.T, in, in2 []byte, r int, mode uint8) {
		date.MaxInputLength = lim(mode, def[0])
		keep := append([]byte(nil), in...)
		v1, e1 := date.DefaultParser(string(in), date.Rule(r))
		v2, e2 := date.DefaultParser(in, date.Rule(r))
		chk(t, "date", date.MaxInputLength, len(in), e1, date.ErrInputTooLong)
		same(t, "date", e1, e2)
		if !v1.Equal(v2) || e1 != nil && !v1.IsZero() {
			t.Fatalf("date: values %v %v err %v", v1, v2, e1)
		}
		v0, e0 := date.DefaultParser(in, 0)
		d := date.New(1999, 9, 9)
		if err := d.UnmarshalText(in); (err == nil) != (e0 == nil) || err != nil && !d.Equal(date.New(1999, 9, 9)) || err == nil && !d.Equal(v0) {
			t.Fatalf("date: UnmarshalText receiver %v err %v, parser %v %v", d, err, v0, e0)
		}
		d = date.New(1999, 9, 9)
		if err := d.UnmarshalBinary(in2); err != nil && !d.Equal(date.New(1999, 9, 9)) {
			t.Fatalf("date: UnmarshalBinary receiver %v err %v", d, err)
		} else if err == nil {
			if _, m, dd := d.Date(); len(in2) != 7 || m < 1 || m > 12 || dd < 1 || dd > 31 {
				t.Fatalf("date: UnmarshalBinary accepted %x as %v", in2, d)
			}
		}
		for _, v := range []any{in, string(in), nil, r} {
			d = date.New(1999, 9, 9)
			if err := d.Scan(v); !errors.Is(err, date.ErrInvalidType) || !d.Equal(date.New(1999, 9, 9)) {
				t.Fatalf("date: Scan(%T) %v %v", v, err, d)
			}
		}
		if err := d.Scan(time.Unix(int64(r), int64(mode))); err != nil {
			t.Fatalf("date: Scan(time) %v", err)
		}
		if !bytes.Equal(in, keep) {
			t.Fatalf("date: input modified")
		}
	})
}

func FuzzRoman(f *testing.F) {
	add(f)
	f.Fuzz(func(t *testing.T, in, in2 []byte, r int, mode uint8) {
		roman.MaxInputLength = lim(mode, def[1])
		keep := append([]byte(nil), in...)
		v1, e1 := roman.DefaultParser(string(in), roman.Rule(r))
		v2, e2 := roman.DefaultParser(in, roman.Rule(r))
		chk(t, "roman", roman.MaxInputLength, len(in), e1, roman.ErrInputTooLong)
		same(t, "roman", e1, e2)
		e3 := roman.Valid(string(in), roman.Rule(r))
		e4 := roman.Valid(in, roman.Rule(r))
		chk(t, "roman.Valid", roman.MaxInputLength, len(in), e3, roman.ErrInputTooLong)
		same(t, "roman.Valid", e3, e4)
		if (e1 == nil) != (e3 == nil) || v1 != v2 || e1 != nil && v1 != 0 {
			t.Fatalf("roman: parse %v %v %v valid %v", v1, v2, e1, e3)
		}
		x := roman.Number(77)
		if err := x.UnmarshalText(in); err != nil && x != 77 {
			t.Fatalf("roman: receiver %d err %v", x, err)
		}
		if !bytes.Equal(in, keep) {
			t.Fatalf("roman: input modified")
		}
	})
}

func FuzzSem(f *testing.F) {
	add(f)
	f.Fuzz(func(t *testing.T, in, in2 []byte, r int, mode uint8) {
		sem.MaxInputLength = lim(mode, def[2])
		keep, keep2 := append([]byte(nil), in...), append([]byte(nil), in2...)
		s, s2 := string(in), string(in2)
		v1, e1 := sem.DefaultParser(s, sem.Rule(r))
		v2, e2 := sem.DefaultParser(in, sem.Rule(r))
		chk(t, "sem", sem.MaxInputLength, len(in), e1, sem.ErrInputTooLong)
		same(t, "sem", e1, e2)
		if v1 != v2 || e1 != nil && v1 != (sem.Ver{}) {
			t.Fatalf("sem: %v %v %v", v1, v2, e1)
		}
		_, e3 := sem.Parse(s)
		_, e4 := sem.Parse(in)
		same(t, "sem.Parse", e3, e4)
		_, e5 := sem.ParseTag(s)
		_, e6 := sem.ParseVersion(in)
		for _, e := range []error{e3, e5, e6} {
			chk(t, "sem.Parse*", sem.MaxInputLength, len(in), e, sem.ErrInputTooLong)
		}
		c1, e7 := sem.Compare(s, s2)
		c2, e8 := sem.Compare(in, in2)
		same(t, "sem.Compare", e7, e8)
		if c1 != c2 || c1 < -1 || c1 > 1 {
			t.Fatalf("sem.Compare: %d %d", c1, c2)
		}
		sem.CompareTag(in, s2)
		sem.CompareVersion[string, string](s, s2)
		sem.Latest(s, in2)
		sem.LatestTag(in, in2)
		sem.LatestVersion(s, s2)
		if a, b := sem.DefaultComparePreRelease(s, s2), sem.DefaultComparePreRelease(in, in2); a != b || a < -1 || a > 1 {
			t.Fatalf("sem.DefaultComparePreRelease: %d %d", a, b)
		}
		v := sem.Ver{Major: uint64(r), PreRelease: s, Build: s2}
		w := sem.Ver{Major: uint64(r), PreRelease: s2, Build: s}
		v.Compare(w)
		v.Latest(w)
		v.Valid()
		x := sem.Ver{Major: 7, PreRelease: "keep"}
		if err := x.UnmarshalText(in); err != nil && x != (sem.Ver{Major: 7, PreRelease: "keep"}) {
			t.Fatalf("sem: receiver %v err %v", x, err)
		}
		if !bytes.Equal(in, keep) || !bytes.Equal(in2, keep2) {
			t.Fatalf("sem: input modified")
		}
	})
}

func FuzzSize(f *testing.F) {
	add(f)
	f.Fuzz(func(t *testing.T, in, in2 []byte, r int, mode uint8) {
		size.MaxInputLength = lim(mode, def[3])
		size.MaxObjectKeys = []int{0, 1, 2, 16}[mode>>2&3]
		keep := append([]byte(nil), in...)
		v1, e1 := size.DefaultParser(string(in), size.Rule(r))
		v2, e2 := size.DefaultParser(in, size.Rule(r))
		chk(t, "size", size.MaxInputLength, len(in), e1, size.ErrInputTooLong)
		same(t, "size", e1, e2)
		if v1 != v2 || e1 != nil && v1 != 0 {
			t.Fatalf("size: %d %d %v", v1, v2, e1)
		}
		x := size.Size(77)
		if err := x.UnmarshalText(in); err != nil && x != 77 {
			t.Fatalf("size: UnmarshalText receiver %d err %v", x, err)
		}
		x = 77
		if err := x.UnmarshalJSON(in); err != nil && x != 77 {
			t.Fatalf("size: UnmarshalJSON receiver %d err %v", x, err)
		}
		x.UnmarshalJSON(in2)
		if !bytes.Equal(in, keep) {
			t.Fatalf("size: input modified")
		}
	})
}

func FuzzUU(f *testing.F) {
	add(f)
	f.Fuzz(func(t *testing.T, in, in2 []byte, r int, mode uint8) {
		uu.MaxInputLength = lim(mode, def[4])
		keep := append([]byte(nil), in...)
		v1, e1 := uu.DefaultParser(string(in), uu.Rule(r))
		v2, e2 := uu.DefaultParser(in, uu.Rule(r))
		chk(t, "uu", uu.MaxInputLength, len(in), e1, uu.ErrInputTooLong)
		same(t, "uu", e1, e2)
		if v1 != v2 || e1 != nil && v1 != (uu.ID{}) {
			t.Fatalf("uu: %v %v %v", v1, v2, e1)
		}
		x := uu.ID{Higher: 7, Lower: 7}
		if err := x.UnmarshalText(in); err != nil && x != (uu.ID{Higher: 7, Lower: 7}) {
			t.Fatalf("uu: receiver %v err %v", x, err)
		}
		if !bytes.Equal(in, keep) {
			t.Fatalf("uu: input modified")
		}
	})
}
`

// cxNativeFuzz runs go's coverage-guided fuzzing offline in a scratch module under <verif>/work and removes
// it afterwards. If the toolchain cannot build the scratch module the step is skipped with a note.
func cxNativeFuzz(c *Ctx) {
	repo := os.Getenv("VERIF_REPO")
	if repo == "" {
		repo = "/repo"
	}
	work := "/verif/work"
	if exe, err := os.Executable(); err == nil {
		if d := filepath.Join(filepath.Dir(filepath.Dir(exe)), "work"); strings.HasPrefix(exe, "/verif/") {
			work = d
		}
	}
	if err := os.MkdirAll(work, 0o755); err != nil {
		c.Note("native fuzzing skipped: %v", err)
		return
	}
	dir, err := os.MkdirTemp(work, "fuzz_cross_")
	if err != nil {
		c.Note("native fuzzing skipped: %v", err)
		return
	}
	defer os.RemoveAll(dir)
	gomod := "module fuzzcross\n\ngo 1.21\n\nrequire go.lstv.dev/util v0.0.0\n\nreplace go.lstv.dev/util => " + repo + "\n"
	sum, _ := os.ReadFile(filepath.Join(repo, "go.sum"))
	for name, content := range map[string][]byte{"go.mod": []byte(gomod), "go.sum": sum, "fuzz_test.go": []byte(cxFuzzSrc)} {
		if err := os.WriteFile(filepath.Join(dir, name), content, 0o644); err != nil {
			c.Note("native fuzzing skipped: %v", err)
			return
		}
	}
	env := append(os.Environ(), "GOFLAGS=-mod=mod", "GOPROXY=off", "GOSUMDB=off", "GOTOOLCHAIN=local", "CGO_ENABLED=0")
	build := exec.Command("go", "test", "-c", "-fuzz=Fuzz", "-o", "fuzz.test", ".")
	build.Dir, build.Env = dir, env
	if out, err := build.CombinedOutput(); err != nil {
		c.Note("native fuzzing skipped: building the fuzz binary failed: %v: %s", err, strings.TrimSpace(string(out)))
		return
	}
	fuzztime := os.Getenv("VERIF_FUZZTIME")
	if fuzztime == "" {
		fuzztime = "20s"
	}
	for _, target := range []string{"FuzzDate", "FuzzRoman", "FuzzSem", "FuzzSize", "FuzzUU"} {
		cmd := exec.Command(filepath.Join(dir, "fuzz.test"), "-test.run=^$", "-test.fuzz=^"+target+"$", "-test.fuzztime="+fuzztime, "-test.fuzzcachedir="+filepath.Join(dir, "cache"))
		cmd.Dir, cmd.Env = dir, env
		done := make(chan struct{})
		var out []byte
		var runErr error
		t0 := time.Now()
		go func() { out, runErr = cmd.CombinedOutput(); close(done) }()
		select {
		case <-done:
		case <-time.After(5 * time.Minute):
			cmd.Process.Kill()
			<-done
			c.Fail("C18.fuzz."+target, "", "fuzzing did not finish within five minutes (fuzztime %s)", fuzztime)
			continue
		}
		text := string(out)
		execs := int64(0)
		for _, ln := range strings.Split(text, "\n") {
			if i := strings.Index(ln, "execs: "); i >= 0 {
				rest := ln[i+7:]
				if j := strings.IndexByte(rest, ' '); j > 0 {
					if n, err := strconv.ParseInt(rest[:j], 10, 64); err == nil && n > execs {
						execs = n
					}
				}
			}
		}
		c.Evals += execs
		if runErr != nil || !strings.Contains(text, "PASS") {
			crash := ""
			if files, _ := filepath.Glob(filepath.Join(dir, "testdata", "fuzz", target, "*")); len(files) > 0 {
				b, _ := os.ReadFile(files[0])
				crash = string(b)
			}
			tail := text
			if len(tail) > 1500 {
				tail = tail[len(tail)-1500:]
			}
			c.Fail("C18.fuzz."+target, crash, "go test -fuzz reported: %v: %s", runErr, tail)
			continue
		}
		c.Note("native fuzz %s: %d executions in %.0f s, no crash, no contract violation", target, execs, time.Since(t0).Seconds())
	}
}
