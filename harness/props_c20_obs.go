package main

// C20, direct oracle only (no protocol lines, nothing on the model side): what the scripted world of props_c20.go cannot
// observe because its scripts are addressed by the case index - WHICH value the helper hands to the marshaler, WHICH bytes it
// hands to the unmarshaler, WHEN the hooks run relative to the call, which index the hooks are given, and a Value written by
// the After hook (Unmarshal direction). The types here answer with what they were given, so the verdict of the helper depends
// on it.

import (
	"encoding"
	"encoding/json"
	"fmt"
	"strings"

	"go.lstv.dev/util/test"
)

type tkCount struct{ n int }

func (r *tkCount) Errorf(string, ...any) { r.n++ }
func (r *tkCount) FailNow()              {}
func (r *tkCount) Helper()               {}

// tkObsPhase: 0 before the Before hook of the running case, 1 after it, 2 after the After hook
var tkObsPhase int

// tkObsGot: the byte strings the unmarshalers were handed, in call order
var tkObsGot []string

// tkObs marshals to "<X>@<phase>" and unmarshals by storing the text it is given.
type tkObs struct {
	X int
	S string
}

// tkObsMarshalCalls: how often a marshaler of tkObs was called (reset by the oracle that reads it)
var tkObsMarshalCalls int

func (v tkObs) render() ([]byte, error) {
	tkObsMarshalCalls++
	return []byte(fmt.Sprintf("%d@%d", v.X, tkObsPhase)), nil
}
func (v tkObs) MarshalText() ([]byte, error)   { return v.render() }
func (v tkObs) MarshalBinary() ([]byte, error) { return v.render() }
func (v tkObs) MarshalJSON() ([]byte, error)   { return v.render() }
func (v *tkObs) store(d []byte) error {
	tkObsGot = append(tkObsGot, string(d))
	if strings.HasPrefix(string(d), "refuse") {
		return fmt.Errorf("refused %q", d)
	}
	v.S = fmt.Sprintf("%s@%d", d, tkObsPhase)
	return nil
}
func (v *tkObs) UnmarshalText(d []byte) error   { return v.store(d) }
func (v *tkObs) UnmarshalBinary(d []byte) error { return v.store(d) }
func (v *tkObs) UnmarshalJSON(d []byte) error   { return v.store(d) }

// tkObsCase is one case in a family-independent form; the hooks get setters for the fields of the *Case they are handed.
type tkObsCase struct {
	before, after func(index int, setValue func(tkObs), setData func(string)) error
	// beforeX / afterX (used when the plain hook is nil) get setters for every field of the *Case a hook can write,
	// the hook fields themselves included
	beforeX, afterX tkObsHookX
	constraint      test.Constraint
	data            string
	value           tkObs
	wantErr         bool
}

// tkObsSet: setters for the fields of the *Case a hook is handed (family-independent)
type tkObsSet struct {
	Value  func(tkObs)
	Data   func(string)
	Before func(tkObsHookX)
	After  func(tkObsHookX)
}

type tkObsHookX func(index int, s tkObsSet) error

// tkObsRun runs the cases through one helper (fam T/B/J, marshal or unmarshal) and returns the number of Errorf calls.
func tkObsRun(fam byte, marshal bool, cs []tkObsCase) int {
	rec := &tkCount{}
	tkObsPhase = 0
	pred := func(x tkObsCase) test.AssertErrorFunc {
		if x.wantErr {
			return test.AnyError
		}
		return nil
	}
	switch fam {
	case 'T':
		var l []test.CaseText[tkObs]
		for _, x := range cs {
			x := x
			wrap := func(h func(int, func(tkObs), func(string)) error) func(int, *test.CaseText[tkObs]) error {
				if h == nil {
					return nil
				}
				return func(i int, c *test.CaseText[tkObs]) error {
					return h(i, func(v tkObs) { c.Value = v }, func(d string) { c.Data = d })
				}
			}
			var wrapX func(h tkObsHookX) func(int, *test.CaseText[tkObs]) error
			wrapX = func(h tkObsHookX) func(int, *test.CaseText[tkObs]) error {
				if h == nil {
					return nil
				}
				return func(i int, c *test.CaseText[tkObs]) error {
					return h(i, tkObsSet{Value: func(v tkObs) { c.Value = v }, Data: func(d string) { c.Data = d },
						Before: func(h2 tkObsHookX) { c.Before = wrapX(h2) }, After: func(h2 tkObsHookX) { c.After = wrapX(h2) }})
				}
			}
			bh, ah := wrap(x.before), wrap(x.after)
			if bh == nil {
				bh = wrapX(x.beforeX)
			}
			if ah == nil {
				ah = wrapX(x.afterX)
			}
			l = append(l, test.CaseText[tkObs]{Constraint: x.constraint, Before: bh, After: ah, Data: x.data, Value: x.value, Error: pred(x)})
		}
		if marshal {
			test.MarshalText(rec, l)
		} else {
			test.UnmarshalText(rec, l, nil)
		}
	case 'B':
		var l []test.CaseBinary[tkObs]
		for _, x := range cs {
			x := x
			wrap := func(h func(int, func(tkObs), func(string)) error) func(int, *test.CaseBinary[tkObs]) error {
				if h == nil {
					return nil
				}
				return func(i int, c *test.CaseBinary[tkObs]) error {
					return h(i, func(v tkObs) { c.Value = v }, func(d string) { c.Data = []byte(d) })
				}
			}
			var wrapX func(h tkObsHookX) func(int, *test.CaseBinary[tkObs]) error
			wrapX = func(h tkObsHookX) func(int, *test.CaseBinary[tkObs]) error {
				if h == nil {
					return nil
				}
				return func(i int, c *test.CaseBinary[tkObs]) error {
					return h(i, tkObsSet{Value: func(v tkObs) { c.Value = v }, Data: func(d string) { c.Data = []byte(d) },
						Before: func(h2 tkObsHookX) { c.Before = wrapX(h2) }, After: func(h2 tkObsHookX) { c.After = wrapX(h2) }})
				}
			}
			bh, ah := wrap(x.before), wrap(x.after)
			if bh == nil {
				bh = wrapX(x.beforeX)
			}
			if ah == nil {
				ah = wrapX(x.afterX)
			}
			l = append(l, test.CaseBinary[tkObs]{Constraint: x.constraint, Before: bh, After: ah, Data: []byte(x.data), Value: x.value, Error: pred(x)})
		}
		if marshal {
			test.MarshalBinary(rec, l)
		} else {
			test.UnmarshalBinary(rec, l, nil)
		}
	default:
		var l []test.CaseJSON[tkObs]
		for _, x := range cs {
			x := x
			wrap := func(h func(int, func(tkObs), func(string)) error) func(int, *test.CaseJSON[tkObs]) error {
				if h == nil {
					return nil
				}
				return func(i int, c *test.CaseJSON[tkObs]) error {
					return h(i, func(v tkObs) { c.Value = v }, func(d string) { c.Data = d })
				}
			}
			var wrapX func(h tkObsHookX) func(int, *test.CaseJSON[tkObs]) error
			wrapX = func(h tkObsHookX) func(int, *test.CaseJSON[tkObs]) error {
				if h == nil {
					return nil
				}
				return func(i int, c *test.CaseJSON[tkObs]) error {
					return h(i, tkObsSet{Value: func(v tkObs) { c.Value = v }, Data: func(d string) { c.Data = d },
						Before: func(h2 tkObsHookX) { c.Before = wrapX(h2) }, After: func(h2 tkObsHookX) { c.After = wrapX(h2) }})
				}
			}
			bh, ah := wrap(x.before), wrap(x.after)
			if bh == nil {
				bh = wrapX(x.beforeX)
			}
			if ah == nil {
				ah = wrapX(x.afterX)
			}
			l = append(l, test.CaseJSON[tkObs]{Constraint: x.constraint, Before: bh, After: ah, Data: x.data, Value: x.value, Error: pred(x)})
		}
		if marshal {
			test.MarshalJSON(rec, l)
		} else {
			test.UnmarshalJSON(rec, l, nil)
		}
	}
	return rec.n
}

func init() {
	old := props["C20"]
	props["C20"] = func(c *Ctx) {
		old(c)
		propC20Observed(c)
	}
}

func propC20Observed(c *Ctx) {
	type hook = func(int, func(tkObs), func(string)) error
	phase := func(p int) hook {
		return func(int, func(tkObs), func(string)) error { tkObsPhase = p; return nil }
	}
	n := int64(0)
	expect := func(key string, fam byte, marshal bool, cs []tkObsCase, wantReported bool, what string) {
		defer func() {
			if r := recover(); r != nil {
				c.Fail("C20.escape", "", "%s: a panic escaped: %v", what, r)
			}
		}()
		got := tkObsRun(fam, marshal, cs)
		c.Check("")
		n++
		dir := map[bool]string{true: "Marshal", false: "Unmarshal"}[marshal]
		if (got > 0) != wantReported {
			c.Fail(key, "", "%s helper of family %c: %s: %d failure reports, expected reported=%v", dir, fam, what, got, wantReported)
		}
	}
	for _, fam := range []byte{'T', 'B', 'J'} {
		// ---- Marshal direction: the value marshaled is Value as it stands after Before, and the call happens between the two hooks
		setV := func(x int) hook {
			return func(_ int, sv func(tkObs), _ func(string)) error { tkObsPhase = 1; sv(tkObs{X: x}); return nil }
		}
		expect("C20.marshal.value", fam, true, []tkObsCase{{before: setV(7), after: phase(2), data: "7@1", value: tkObs{X: 1}}}, false, "Before writes Value 7 (literal 1), Data is what 7 marshals to")
		expect("C20.marshal.value", fam, true, []tkObsCase{{before: setV(7), after: phase(2), data: "1@1", value: tkObs{X: 1}}}, true, "Before writes Value 7 (literal 1), Data is what the stale literal marshals to")
		expect("C20.order", fam, true, []tkObsCase{{before: phase(1), after: phase(2), data: "5@1", value: tkObs{X: 5}}}, false, "the marshaler reads a switch that Before sets and After resets; Data is what it writes while the switch is set")
		expect("C20.order", fam, true, []tkObsCase{{before: phase(1), after: phase(2), data: "5@2", value: tkObs{X: 5}}}, true, "Data is what the marshaler would write after the After hook")
		expect("C20.order", fam, true, []tkObsCase{{before: phase(1), after: phase(2), data: "5@0", value: tkObs{X: 5}}}, true, "Data is what the marshaler would write before the Before hook")
		expect("C20.order", fam, true, []tkObsCase{{before: phase(1), after: phase(0), data: "1@1", value: tkObs{X: 1}}, {data: "2@0", value: tkObs{X: 2}}, {before: phase(1), data: "3@1", value: tkObs{X: 3}}}, false, "three cases, the first resets the switch in After")
		// ---- Unmarshal direction: the bytes handed over are the case's Data, exactly
		for _, payload := range []string{"12", " 12", "12 ", "12\n", "\t12\r\n", "\xef\xbb\xbf12", "AbC", "a\r\nb", "é", "é", "\x00", "", "  ", "{ \"a\" : 1 }", "\xff\xfe", "refuse", " refuse"} {
			tkObsGot = nil
			wantErr := strings.HasPrefix(payload, "refuse")
			val := tkObs{S: payload + "@1"}
			if wantErr {
				val = tkObs{}
			}
			expect("C20.unmarshal.data", fam, false, []tkObsCase{{before: phase(1), after: phase(2), data: payload, value: val, wantErr: wantErr}}, false, fmt.Sprintf("Data %q, the unmarshaler stores (or refuses) exactly what it is given", payload))
			c.Check("")
			if len(tkObsGot) != 1 || tkObsGot[0] != payload {
				c.Fail("C20.unmarshal.data", "", "Unmarshal helper of family %c: Data %q, the unmarshaler was handed %q", fam, payload, tkObsGot)
			}
		}
		expect("C20.order", fam, false, []tkObsCase{{before: phase(1), after: phase(2), data: "x", value: tkObs{S: "x@2"}}}, true, "Value is what the unmarshaler would store after the After hook")
		// ---- a Value written by After is the expected value (the case is judged as it stands after its hooks)
		afterV := func(s string) hook {
			return func(_ int, sv func(tkObs), _ func(string)) error { tkObsPhase = 2; sv(tkObs{S: s}); return nil }
		}
		expect("C20.after.value", fam, false, []tkObsCase{{before: phase(1), after: afterV("abc@1"), data: "abc"}}, false, "After supplies the expected Value (the literal is the zero value)")
		expect("C20.after.value", fam, false, []tkObsCase{{before: phase(1), after: afterV("xyz@1"), data: "abc", value: tkObs{S: "abc@1"}}}, true, "After replaces a right literal Value by a wrong one")
		// ---- the hooks are fields of the case too: an After hook written (or removed) by Before is the After hook of the case
		for _, marshal := range []bool{true, false} {
			okCase := func(bx tkObsHookX, ax tkObsHookX) tkObsCase {
				if marshal {
					return tkObsCase{beforeX: bx, afterX: ax, data: "5@1", value: tkObs{X: 5}}
				}
				return tkObsCase{beforeX: bx, afterX: ax, data: "abc", value: tkObs{S: "abc@1"}}
			}
			failing := func(int, tkObsSet) error { tkObsPhase = 2; return fmt.Errorf("after failed") }
			panicking := func(int, tkObsSet) error { tkObsPhase = 2; panic("after panicked") }
			quiet := func(int, tkObsSet) error { tkObsPhase = 2; return nil }
			install := func(h tkObsHookX) tkObsHookX {
				return func(_ int, s tkObsSet) error { tkObsPhase = 1; s.After(h); return nil }
			}
			expect("C20.hook.installed", fam, marshal, []tkObsCase{okCase(install(failing), nil)}, true, "Before installs a failing After hook (the literal has none)")
			expect("C20.hook.installed", fam, marshal, []tkObsCase{okCase(install(panicking), nil)}, true, "Before installs a panicking After hook (the literal has none)")
			expect("C20.hook.installed", fam, marshal, []tkObsCase{okCase(install(failing), quiet)}, true, "Before replaces a quiet After hook by a failing one")
			expect("C20.hook.installed", fam, marshal, []tkObsCase{okCase(install(nil), failing)}, false, "Before removes the failing After hook of the literal")
			expect("C20.hook.installed", fam, marshal, []tkObsCase{okCase(install(quiet), failing)}, false, "Before replaces the failing After hook of the literal by a quiet one")
			expect("C20.hook.installed", fam, marshal, []tkObsCase{okCase(install(quiet), nil), okCase(nil, nil), okCase(install(failing), nil)}, true, "three cases, the last one's Before installs a failing After hook")
			if !marshal {
				// the installed After hook supplies the expected Value
				supply := func(sv string) tkObsHookX {
					return func(_ int, s tkObsSet) error { tkObsPhase = 2; s.Value(tkObs{S: sv}); return nil }
				}
				expect("C20.hook.installed", fam, false, []tkObsCase{{beforeX: install(supply("abc@1")), data: "abc"}}, false, "Before installs an After hook that supplies the expected Value (the literal is the zero value)")
				expect("C20.hook.installed", fam, false, []tkObsCase{{beforeX: install(supply("xyz@1")), data: "abc", value: tkObs{S: "abc@1"}}}, true, "Before installs an After hook that replaces a right literal Value by a wrong one")
			}
		}
		// ---- Unmarshal direction: Data written by Before is the Data of the case - the unmarshaler is handed it
		{
			setD := func(d string) tkObsHookX {
				return func(_ int, s tkObsSet) error { tkObsPhase = 1; s.Data(d); return nil }
			}
			for _, payload := range []string{"right", "12", " 12", "12\n", "", "\x00", "{ \"a\" : 1 }", "stale", "a much longer text than the literal, written by the Before hook of the case"} {
				tkObsGot = nil
				expect("C20.unmarshal.data.hook", fam, false, []tkObsCase{{beforeX: setD(payload), afterX: func(int, tkObsSet) error { tkObsPhase = 2; return nil }, data: "stale", value: tkObs{S: payload + "@1"}}}, false,
					fmt.Sprintf("Before writes Data %q over the literal \"stale\", Value is what the unmarshaler stores for the written Data", payload))
				c.Check("")
				if len(tkObsGot) != 1 || tkObsGot[0] != payload {
					c.Fail("C20.unmarshal.data.hook", "", "Unmarshal helper of family %c: Before wrote Data %q over the literal \"stale\", the unmarshaler was handed %q", fam, payload, tkObsGot)
				}
				if payload != "right" {
					expect("C20.unmarshal.data.hook", fam, false, []tkObsCase{{beforeX: setD(payload), data: "right", value: tkObs{S: "right@1"}}}, true,
						fmt.Sprintf("Before spoils the right literal Data by writing %q, Value is what the literal would have given", payload))
				}
			}
			tkObsGot = nil
			expect("C20.unmarshal.data.hook", fam, false, []tkObsCase{{beforeX: setD("refuse it"), data: "fine", wantErr: true}}, false, "Before writes a Data the unmarshaler refuses, an error is expected")
			expect("C20.unmarshal.data.hook", fam, false, []tkObsCase{{beforeX: setD("fine"), data: "refuse it", value: tkObs{S: "fine@1"}}}, false, "Before replaces a Data the unmarshaler would refuse by one it takes")
		}
		// ---- cases restricted to the other direction are ignored: neither their hooks nor the (un)marshaler run for them, whatever
		// the hooks would have done (succeed, fail, panic), and the remaining cases keep their own index
		for _, marshal := range []bool{true, false} {
			other := test.OnlyUnmarshal
			if !marshal {
				other = test.OnlyMarshal
			}
			for hk, hookKind := range []string{"succeeds", "fails", "panics"} {
				var calls []string
				rec := func(tag string) tkObsHookX {
					return func(i int, _ tkObsSet) error {
						calls = append(calls, fmt.Sprintf("%s%d", tag, i))
						tkObsPhase = 1
						switch hk {
						case 1:
							return fmt.Errorf("hook of an ignored case failed")
						case 2:
							panic("hook of an ignored case panicked")
						}
						return nil
					}
				}
				live := func(tag string) tkObsHookX {
					return func(i int, _ tkObsSet) error {
						calls = append(calls, fmt.Sprintf("%s%d", tag, i))
						tkObsPhase = 1
						return nil
					}
				}
				var cs []tkObsCase
				if marshal {
					cs = []tkObsCase{{constraint: other, beforeX: rec("b"), afterX: rec("a"), data: "wrong", value: tkObs{X: 1}},
						{beforeX: live("B"), afterX: live("A"), data: "2@1", value: tkObs{X: 2}},
						{constraint: other, beforeX: rec("b"), afterX: rec("a"), data: "wrong", value: tkObs{X: 3}}}
				} else {
					cs = []tkObsCase{{constraint: other, beforeX: rec("b"), afterX: rec("a"), data: "ignored-0", value: tkObs{S: "wrong"}},
						{beforeX: live("B"), afterX: live("A"), data: "two", value: tkObs{S: "two@1"}},
						{constraint: other, beforeX: rec("b"), afterX: rec("a"), data: "ignored-2", value: tkObs{S: "wrong"}}}
				}
				tkObsGot, tkObsMarshalCalls = nil, 0
				expect("C20.ignored", fam, marshal, cs, false, "cases 0 and 2 are for the other direction (their hook "+hookKind+", their data is wrong), case 1 is satisfied")
				c.Check("")
				wantCalls, ncalls := "[B1 A1]", tkObsMarshalCalls
				if !marshal {
					ncalls = len(tkObsGot)
				}
				if fmt.Sprint(calls) != wantCalls || ncalls != 1 {
					c.Fail("C20.ignored", "", "family %c marshal=%v: cases 0 and 2 are restricted to the other direction (hook %s) yet were not ignored: hooks called %v (expected %s: Before and After of case 1 only), %d calls of the type's method (expected 1), data handed over %q",
						fam, marshal, hookKind, calls, wantCalls, ncalls, tkObsGot)
				}
			}
		}
		// ---- the index handed to the hooks is the position of the case
		for _, marshal := range []bool{true, false} {
			var seen []int
			rec := func(tag int) hook {
				return func(i int, _ func(tkObs), _ func(string)) error {
					seen = append(seen, tag*100+i)
					tkObsPhase = 1
					return nil
				}
			}
			mk := func(k int) tkObsCase {
				if marshal {
					return tkObsCase{before: rec(1), after: rec(2), data: fmt.Sprintf("%d@1", k), value: tkObs{X: k}}
				}
				return tkObsCase{before: rec(1), after: rec(2), data: fmt.Sprint(k), value: tkObs{S: fmt.Sprintf("%d@1", k)}}
			}
			expect("C20.hook.index", fam, marshal, []tkObsCase{mk(0), mk(1), mk(2), mk(3)}, false, "four satisfied cases with recording hooks")
			c.Check("")
			if fmt.Sprint(seen) != "[100 200 101 201 102 202 103 203]" {
				c.Fail("C20.hook.index", "", "family %c marshal=%v: hooks were called as (100*hook + index) %v, expected Before/After of case 0, 1, 2, 3 in turn with their own index", fam, marshal, seen)
			}
		}
	}
	// ---- K2 (known finding): T is an interface type and a LATER case carries a nil Value. The interface check only
	// looks at case 0; `any(c.Value).(encoding.TextMarshaler)` of the later case is evaluated outside the recovering
	// wrapper, so the panic escapes the Marshal helper ("never lets a panic escape"). Reported under its own key.
	for _, fam := range []byte{'T', 'B', 'J'} {
		c.Check("")
		n++
		rec := &tkCount{}
		escaped := func() (r any) {
			defer func() { r = recover() }()
			switch fam {
			case 'T':
				test.MarshalText[encoding.TextMarshaler](rec, []test.CaseText[encoding.TextMarshaler]{{Data: "1@0", Value: tkObs{X: 1}}, {Data: "b", Value: nil}})
			case 'B':
				test.MarshalBinary[encoding.BinaryMarshaler](rec, []test.CaseBinary[encoding.BinaryMarshaler]{{Data: []byte("1@0"), Value: tkObs{X: 1}}, {Data: []byte("b"), Value: nil}})
			case 'J':
				test.MarshalJSON[json.Marshaler](rec, []test.CaseJSON[json.Marshaler]{{Data: "1@0", Value: tkObs{X: 1}}, {Data: "b", Value: nil}})
			}
			return nil
		}()
		if escaped != nil {
			c.Fail("C20.K2", "", "Marshal helper of family %c with T an interface type: case 1 has a nil Value and the panic escapes the helper: %v", fam, escaped)
		} else if rec.n == 0 {
			c.Fail("C20.K2.silent", "", "Marshal helper of family %c with T an interface type: case 1 has a nil Value (no marshaler) and nothing was reported", fam)
		}
	}
	c.NT(n)
	c.Note("observed-world oracle (direct only, not in the model): %d helper runs - marshaled value, unmarshaled bytes, hook order, After-written Value, hook index, hooks written by hooks, Data written by Before (Unmarshal), ignored cases left alone", n)
}
