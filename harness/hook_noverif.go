//go:build !verif

package main

import "math/rand"

const hookBuild = false

func setRandomSource(src rand.Source) func() { return func() {} }
