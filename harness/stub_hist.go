package main

// temporary: replaced by the real histRun in props_cross.go (delete this file then)
func histRun(c *Ctx, line string, f []string) string { return "bad-op" }
