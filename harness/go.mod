module verif/harness

go 1.21

require (
	github.com/stretchr/testify v1.7.1
	go.lstv.dev/util v0.0.0
)

replace go.lstv.dev/util => /repo
