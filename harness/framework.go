package main

import (
	"bufio"
	"encoding/hex"
	"encoding/json"
	"fmt"
	"os"
	"path/filepath"
	"runtime"
	"sort"
	"strconv"
	"strings"
	"sync/atomic"
)

// SplitMix64: every random choice of a run derives from one state seeded by VERIF_SEED.
type Rng struct{ s uint64 }

func (r *Rng) Next() uint64 {
	r.s += 0x9e3779b97f4a7c15
	z := r.s
	z = (z ^ (z >> 30)) * 0xbf58476d1ce4e5b9
	z = (z ^ (z >> 27)) * 0x94d049bb133111eb
	return z ^ (z >> 31)
}
func (r *Rng) Intn(n int) int {
	if n <= 0 {
		return 0
	}
	return int(r.Next() % uint64(n))
}
func (r *Rng) Bool() bool { return r.Next()&1 == 1 }
func (r *Rng) Pick(ss []string) string {
	return ss[r.Intn(len(ss))]
}

type Failure struct {
	Key    string `json:"key"`
	Input  string `json:"input"`
	Detail string `json:"detail"`
}

type Ctx struct {
	Prop, Tier  string
	Seed        uint64
	R           *Rng
	ops, impl   *bufio.Writer
	opsF, implF *os.File
	NOps        int64
	Evals       int64
	Nontrivial  int64
	distinct    map[string]struct{}
	Dist        map[string]int64
	Fails       []Failure
	FailCounts  map[string]int64
	Samples     []string
	Notes       []string
	Thorough    bool
	failTotal   int64
	mainG       int64 // goroutine running the property function (set by main.go)
}

// keyOwners: the operation lines are shared by several properties and carry embedded checks (typed error, zero result,
// string/[]byte agreement, input not retained). An embedded check belongs to the properties whose statement makes that
// promise; it fires — and changes the line's answer — only in the runs of those properties, so that the check of a
// property that still holds stays quiet when a sibling property is broken. Keys not listed belong to the property
// named by their prefix. (In `exec` mode, used for replays, every check fires.)
var keyOwners = map[string][]string{
	"C17.date.types":        {"C17", "C09", "C01"},
	"C17.roman.types":       {"C17", "C10", "C02"},
	"C17.roman.valid.types": {"C17", "C10", "C02"},
	"C17.sem.types":         {"C17", "C03"},
	"C17.sem.retain":        {"C17", "C03", "C14"},
	"C03.overwrite":         {"C03", "C17"},
	"C17.sem.cmppre.types":  {"C17", "C06", "C14"},
	"C17.sem.cmpstr.types":  {"C17", "C06", "C14"},
	"C17.sem.latest.types":  {"C17", "C06", "C14"},
	"C17.size.types":        {"C17", "C08", "C12", "C04"},
	"C17.uu.types":          {"C17", "C05"},
	"C12.typed":             {"C12", "C08"},
	"C12.zero":              {"C12", "C08"},
	"C12.entry":             {"C12", "C08", "C04"},
	"C08.entry":             {"C08", "C04"},
	"C09.entry":             {"C09", "C01"},
	"C10.entry":             {"C10", "C02"},
}

// Owns reports whether an embedded check with this key belongs to the property being run.
func (c *Ctx) Owns(key string) bool {
	if c.Prop == "" {
		return true
	}
	if o, ok := keyOwners[key]; ok {
		for _, p := range o {
			if p == c.Prop {
				return true
			}
		}
		return false
	}
	return strings.HasPrefix(key, c.Prop+".")
}

func NewCtx(prop, tier string, seed uint64, outdir string) *Ctx {
	c := &Ctx{Prop: prop, Tier: tier, Seed: seed, R: &Rng{s: seed*0x2545F4914F6CDD1D + 0x1234567}, Dist: map[string]int64{},
		FailCounts: map[string]int64{}, distinct: map[string]struct{}{}, Thorough: tier == "thorough", Fails: []Failure{}, Samples: []string{}, Notes: []string{}}
	var err error
	if c.opsF, err = os.Create(filepath.Join(outdir, "ops.txt")); err != nil {
		panic(err)
	}
	if c.implF, err = os.Create(filepath.Join(outdir, "impl.txt")); err != nil {
		panic(err)
	}
	c.ops = bufio.NewWriterSize(c.opsF, 1<<20)
	c.impl = bufio.NewWriterSize(c.implF, 1<<20)
	return c
}

// Op runs one protocol line against the implementation and records line and result for the
// model-side run. It returns the implementation's answer.
func (c *Ctx) Op(line string) string {
	out := execOp(c, line)
	c.ops.WriteString(line)
	c.ops.WriteByte('\n')
	c.impl.WriteString(out)
	c.impl.WriteByte('\n')
	c.NOps++
	c.Evals++
	if len(c.Samples) < 12 && (c.NOps%9973 == 1 || c.NOps < 4) {
		c.Samples = append(c.Samples, line+" => "+out)
	}
	// distribution by operation and by outcome kind
	op := line
	if i := strings.IndexByte(line, ' '); i > 0 {
		op = line[:i]
	}
	kind := out
	if i := strings.IndexByte(out, ' '); i > 0 {
		kind = out[:i]
		if kind == "err" {
			kind = out
			if j := strings.IndexByte(kind, ':'); j > 0 {
				kind = kind[:j] // invalidDigit:N -> invalidDigit
			}
		}
	}
	switch {
	case strings.HasPrefix(kind, "err"), kind == "ok", kind == "panic", kind == "bad-op", len(kind) <= 2:
	default:
		kind = "value"
	}
	c.Dist[op+" -> "+kind]++
	return out
}

// Check counts one direct-oracle evaluation of the property on the implementation.
// nontrivialKey, if non-empty, names the distinct non-trivial case this evaluation stands for.
func (c *Ctx) Check(nontrivialKey string) {
	c.Evals++
	if nontrivialKey != "" {
		if len(c.distinct) < 2_000_000 {
			if _, ok := c.distinct[nontrivialKey]; !ok {
				c.distinct[nontrivialKey] = struct{}{}
				c.Nontrivial++
			}
		}
	}
}

// NT counts n distinct non-trivial cases that the caller enumerated without repetition.
func (c *Ctx) NT(n int64) { c.Nontrivial += n }

func (c *Ctx) Fail(key, input, format string, a ...any) {
	c.FailCounts[key]++
	if c.FailCounts[key] <= 5 {
		c.Fails = append(c.Fails, Failure{Key: key, Input: input, Detail: fmt.Sprintf(format, a...)})
	}
	// A property that fails on hundreds of thousands of inputs is decided: stop generating (a run with the thorough
	// generators on a badly broken tree would otherwise spend most of an hour formatting failure lines). Only the
	// goroutine running the property function unwinds; main.go recovers the sentinel and finishes normally.
	c.failTotal++
	if c.failTotal > stopEarlyAfter {
		atomic.StoreInt32(&stopFlag, 1) // parallel sweeps poll this and wind down
		if c.mainG != 0 && goid() == c.mainG {
			panic(stopEarly{})
		}
	}
}

const stopEarlyAfter = 200000

// stopFlag: set once the property is decided by sheer number of failures; worker goroutines of parallel sweeps skip
// the rest of their work when they see it
var stopFlag int32

func stopped() bool { return atomic.LoadInt32(&stopFlag) != 0 }

type stopEarly struct{}

// goid: the current goroutine's number, read from the first line of its stack ("goroutine 17 [running]:")
func goid() int64 {
	var buf [64]byte
	n := runtime.Stack(buf[:], false)
	f := strings.Fields(string(buf[:n]))
	if len(f) < 2 {
		return 0
	}
	id, _ := strconv.ParseInt(f[1], 10, 64)
	return id
}

func (c *Ctx) Note(format string, a ...any) { c.Notes = append(c.Notes, fmt.Sprintf(format, a...)) }

func (c *Ctx) Finish(outdir string) {
	c.ops.Flush()
	c.impl.Flush()
	c.opsF.Close()
	c.implF.Close()
	keys := make([]string, 0, len(c.Dist))
	for k := range c.Dist {
		keys = append(keys, k)
	}
	sort.Strings(keys)
	res := map[string]any{
		"property": c.Prop, "tier": c.Tier, "seed": c.Seed, "ops": c.NOps, "evaluations": c.Evals,
		"distinct_nontrivial": c.Nontrivial, "dist": c.Dist, "failures": c.Fails, "fail_counts": c.FailCounts,
		"samples": c.Samples, "notes": c.Notes,
	}
	b, _ := json.MarshalIndent(res, "", " ")
	os.WriteFile(filepath.Join(outdir, "oracle.json"), b, 0o644)
}

func hx(b []byte) string {
	if len(b) == 0 {
		return "-"
	}
	return hex.EncodeToString(b)
}

func unhx(s string) ([]byte, bool) {
	if s == "-" {
		return []byte{}, true
	}
	b, err := hex.DecodeString(s)
	return b, err == nil
}
