package main

import (
	"bytes"
	"encoding/json"
	"errors"
	"fmt"
	"math"
	"math/big"
	"regexp"
	"strings"
	"unicode"

	"go.lstv.dev/util/constraint"
	"go.lstv.dev/util/size"
)

// ---------------------------------------------------------------------------------------- shared

const szNBSP = "\u00a0" // C2 A0 in UTF-8

var (
	szTwo64    = new(big.Int).Lsh(big.NewInt(1), 64)
	szMaxU     = new(big.Int).Sub(new(big.Int).Lsh(big.NewInt(1), 64), big.NewInt(1))
	szDecUnits = []string{"kB", "MB", "GB", "TB", "PB", "EB", "ZB", "YB"}
	szBinUnits = []string{"KiB", "MiB", "GiB", "TiB", "PiB", "EiB", "ZiB", "YiB"}
	// the 18 units of the property text: no unit, B, 8 decimal, 8 binary
	szUnits18  = []string{"", "B", "kB", "MB", "GB", "TB", "PB", "EB", "ZB", "YB", "KiB", "MiB", "GiB", "TiB", "PiB", "EiB", "ZiB", "YiB"}
	szBadUnits = []string{"kb", "KB", "b", "Kib", "kiB", "iB", "XB", "B5", "K iB", "BB", "KiBB", " B", "k", "i", "Bytes", "KIB"}
	szUnitMult = map[string]*big.Int{}
	// Shorten may only ever answer with one of these (B .. EiB), smallest first
	szShortUnits = []string{"B", "KiB", "MiB", "GiB", "TiB", "PiB", "EiB"}
)

func init() {
	szUnitMult[""] = big.NewInt(1)
	szUnitMult["B"] = big.NewInt(1)
	d, b := big.NewInt(1), big.NewInt(1)
	for i := 0; i < 8; i++ {
		d = new(big.Int).Mul(d, big.NewInt(1000))
		b = new(big.Int).Mul(b, big.NewInt(1024))
		szUnitMult[szDecUnits[i]] = d
		szUnitMult[szBinUnits[i]] = b
	}
	props["C04"] = propC04
	props["C08"] = propC08
	props["C12"] = propC12
	props["C13"] = propC13
}

func szU(v uint64) *big.Int { return new(big.Int).SetUint64(v) }

// szGroup3 groups decimal digits in threes from the right (independent of the formatter's
// index arithmetic: it cuts the string from the end).
func szGroup3(d, sep string) string {
	var parts []string
	for len(d) > 3 {
		parts = append([]string{d[len(d)-3:]}, parts...)
		d = d[:len(d)-3]
	}
	parts = append([]string{d}, parts...)
	return strings.Join(parts, sep)
}

// szArith is the arithmetic rule of the property text: number x multiplier. class "" means
// "any error" (several readings of the documentation are possible).
func szArith(v *big.Int, unit string) (ok bool, val uint64, class string) {
	m, known := szUnitMult[unit]
	if !known {
		return false, 0, "invalidUnit"
	}
	if v.Sign() == 0 {
		return true, 0, ""
	}
	if v.Sign() < 0 {
		return false, 0, "invalidValue"
	}
	if m.Cmp(szTwo64) >= 0 {
		return false, 0, "" // ZB, YB, ZiB, YiB: only with zero
	}
	p := new(big.Int).Mul(v, m)
	if p.Cmp(szTwo64) >= 0 {
		return false, 0, "invalidValue"
	}
	return true, p.Uint64(), ""
}

// szTextRe is the text grammar as a regular expression: spaces, a digit, then digits and ignored
// separators (space, underscore, U+00A0), then the unit (anything, starting with none of these),
// then spaces.
var szTextRe = regexp.MustCompile(`(?s)^ *([0-9][0-9 _\x{A0}]*)(.*?) *$`)

// szTextOracle is the independent reading of the text grammar plus szArith.
func szTextOracle(s string, disableUnit bool) (ok bool, val uint64, class string) {
	m := szTextRe.FindStringSubmatch(s)
	if m == nil {
		return false, 0, ""
	}
	var ds []byte
	for i := 0; i < len(m[1]); i++ {
		if m[1][i] >= '0' && m[1][i] <= '9' {
			ds = append(ds, m[1][i])
		}
	}
	v, good := new(big.Int).SetString(string(ds), 10)
	if !good || v.Cmp(szTwo64) >= 0 {
		return false, 0, ""
	}
	unit := m[2]
	if unit == "" {
		return true, v.Uint64(), ""
	}
	if disableUnit {
		return false, 0, "unitDisabled"
	}
	return szArith(v, unit)
}

// szJudge compares an implementation outcome with an expectation; returns "" when it conforms.
func szJudge(got size.Size, err error, ok bool, val uint64, class string) string {
	cls := ""
	if err != nil {
		cls = sizeErrClass(err)
	}
	return szJudgeCls(got, err, cls, ok, val, class)
}

// szJudgeCls is szJudge with the error class determined by the caller (generic error types).
func szJudgeCls(got size.Size, err error, cls string, ok bool, val uint64, class string) string {
	switch {
	case ok && err != nil:
		return fmt.Sprintf("rejected (%v), want %d", err, val)
	case ok && uint64(got) != val:
		return fmt.Sprintf("got %d, want %d", uint64(got), val)
	case !ok && err == nil:
		return fmt.Sprintf("accepted as %d, want an error %s", uint64(got), class)
	case !ok && got != 0:
		return fmt.Sprintf("value %d next to error %v", uint64(got), err)
	case !ok && class != "" && cls != class:
		return fmt.Sprintf("error class %s (%v), want %s", cls, err, class)
	}
	return ""
}

// szParse calls the parser with the package limits set as the protocol line would set them.
func szParse(in string, ml, mk int, r size.Rule) (size.Size, error) {
	o1, o2, o3 := size.MaxInputLength, size.MaxObjectKeys, size.DefaultRule
	size.MaxInputLength, size.MaxObjectKeys = ml, mk
	// cross-talk: DefaultParser is specified by its arguments and the two limits alone - it runs under every setting of
	// the three marshal switches and under other DefaultRule values in turn, the expectation stays what it is
	szCross++
	size.DefaultRule = szCrossRules[szCross/8%len(szCrossRules)]
	restore := setSizeSwitches(szCross & 7)
	defer func() { restore(); size.MaxInputLength, size.MaxObjectKeys, size.DefaultRule = o1, o2, o3 }()
	return size.DefaultParser(in, r)
}

var (
	szCross      int
	szCrossRules = []size.Rule{size.DefaultRule, 0, size.RuleDisableUnit, 15, size.RuleDisallowUnknownKeys, size.RuleEnableJSONStringForm}
)

// szCrossDetail names the setting the last szParse call ran under (for failure messages).
func szCrossDetail() string {
	return fmt.Sprintf("[marshal switches %03b, DefaultRule %d]", szCross&7, int(szCrossRules[szCross/8%len(szCrossRules)]))
}

func szParseLine(in string, ml, mk int, r size.Rule) string {
	return fmt.Sprintf("size.parse %d %d %d %s", ml, mk, int(r), hx([]byte(in)))
}

// szSamples is the stratified size sample of C04/C13: all 65 trailing-zero counts, all 20 decimal
// lengths, the neighbourhoods of 1000^k, 1024^k and 2^64-1, every value below `below`, random values.
func szSamples(c *Ctx, below uint64, nrand int) []uint64 {
	seen := map[uint64]struct{}{}
	var out []uint64
	add := func(v uint64) {
		if _, ok := seen[v]; !ok {
			seen[v] = struct{}{}
			out = append(out, v)
		}
	}
	add(0) // 64 trailing zero bits
	for k := uint(0); k < 64; k++ {
		for _, odd := range []uint64{1, 3, 5, 7, 999, 1023, 1025, 12345677, ^uint64(0) >> k, c.R.Next(), c.R.Next() >> uint(c.R.Intn(64))} {
			add((odd | 1) << k)
		}
		add(uint64(1)<<k - 1)
		add(uint64(1)<<k + 1)
	}
	p10 := uint64(1)
	for l := 1; l <= 20; l++ {
		// p10 = 10^(l-1): smallest number of l digits (except l=1: 0 handled above)
		add(p10)
		add(p10 - 1)
		add(p10 + 1)
		add(p10 + p10/3)
		hi := uint64(math.MaxUint64)
		if l < 20 {
			hi = p10*10 - 1
		}
		add(hi)
		for i := 0; i < 3; i++ {
			add(p10 + c.R.Next()%(hi-p10+1))
		}
		if l < 20 {
			p10 *= 10
		}
	}
	for _, base := range []uint64{1000, 1024} {
		v := uint64(1)
		for k := 0; k < 6; k++ {
			v *= base
			for d := -3; d <= 3; d++ {
				add(v + uint64(d))
				add(v*15 + uint64(d))
				add(v*2 + uint64(d))
			}
			add(v * 1000)
			add(v * 1023)
		}
	}
	for d := uint64(0); d < 40; d++ {
		add(math.MaxUint64 - d)
	}
	for i := uint64(0); i < below; i++ {
		add(i)
	}
	for i := 0; i < nrand; i++ {
		add(c.R.Next() >> uint(c.R.Intn(64)))
	}
	return out
}

// szShortenWant computes the exact, maximal shortening with math/big.
func szShortenWant(s uint64) (string, string) {
	if s == 0 {
		return "0", "B"
	}
	bs := szU(s)
	best := "B"
	for _, u := range szShortUnits[1:] {
		if new(big.Int).Mod(bs, szUnitMult[u]).Sign() == 0 {
			best = u
		}
	}
	return new(big.Int).Div(bs, szUnitMult[best]).String(), best
}

// szAliasUnits: plausible spellings of units that are NOT units of this package, near misses of the valid names
// (case, blanks, plural, punctuation, dropped/doubled letters, look-alike and full-width letters) and spellings other
// tools use. Hand-picked plus derived from every valid name; whether one of them is acceptable in a given place (the
// text form ignores blanks around the unit) is decided by the oracles, not here.
func szAliasUnits() []string {
	seen := map[string]bool{}
	var out []string
	add := func(u string) {
		if !seen[u] {
			seen[u] = true
			out = append(out, u)
		}
	}
	for _, u := range []string{"bytes", "byte", "b", "Bytes", "BYTES", "Byte", "bytes ", "kb", "KB", "Kb", "kib", "KIB", "Kib", "kiB", "KIb", "k", "K", "M", "m", "G", "T", "P", "E", "Z", "Y",
		"Ki", "Mi", "Gi", "Ti", "Pi", "Ei", "iB", "i", "kilobyte", "kilobytes", "kibibyte", "kibibytes", "KiloByte", "Kbyte", "kByte", "kbyte", "Kbit", "kbit", "Mbit", "Mb", "mb", "gb", "tb", "Gb",
		"MB/s", "MiB/s", "KiBps", "o", "Ko", "Mo", "Go", "octets", "KiB.", "KiBs", "KiB,", "KiB;", "(KiB)", "KiB)", "[KiB]", "\"KiB\"", "'KiB'", "Ki B", "K iB", "K_iB", "Ki_B", "KiB_", "_KiB", "-KiB", "+KiB", "KiB-", "/KiB",
		" KiB", "KiB ", "KiB  ", "\u00a0KiB", "KiB\u00a0", "\u3000KiB", "KiB\u3000", "\u2009KiB", "\ufeffKiB", "KiB\ufeff", "KiB\x00", "\x00KiB", "KiB\n", "\nKiB", "KiB\r\n", "KiB\t", "\tKiB", "KiB\v",
		"ＫiB", "ＫｉＢ", "Ｂ", "ｋＢ", "КiB", "ΚiB", "KіB", "KiВ", "KіB", "KiB́", "ℬ", "㎅", "㎆", "B.", "B ", " B", "  B", "B  ", "BB", "Bi", "B/s", "Bs", "1", "0", "1B", "-", "_", ".", "µB", "mB", "kBB", "kkB",
		"KiKiB", "KiBKiB", "K", "KiloB", "kiloB", "KibiB", "XiB", "XB", "RB", "QB", "RiB", "QiB", "ZB ", "zb", "yb", "ZiB ", "Zi", "zib", "YIB", "e", "EiBs", "eib", "EB ", " EB"} {
		add(u)
	}
	for _, u := range szUnits18 {
		if u == "" {
			continue
		}
		add(strings.ToLower(u))
		add(strings.ToUpper(u))
		sw := []byte(u)
		for i := range sw {
			sw[i] ^= 0x20
		}
		add(string(sw))
		for _, w := range []string{" ", "  ", "\t", "\n", "\r\n", "\x00", " ", "_", "s", ".", "B", "i"} {
			add(u + w)
			add(w + u)
		}
		add(u + u[len(u)-1:])
		add(u[:1] + u)
		add(u[:len(u)-1])
		add(u[1:])
		add(string(rune(0xFF00+int(u[0])-0x20)) + u[1:]) // full-width first letter
		if len(u) == 3 {
			add(u[:1] + u[2:])       // KB
			add(u[:1] + "I" + u[2:]) // KIB
			add(u[:2] + "b")         // Kib
			add(u[:2] + " " + u[2:]) // Ki B
		}
	}
	return out
}

// szRoundSizes: "round" sizes people configure - k x 10^j and k x 1024^j for small and odd k. The stratified sample
// takes them only for a handful of k.
func szRoundSizes() []uint64 {
	seen := map[uint64]struct{}{}
	var out []uint64
	add := func(v *big.Int) {
		if v.Cmp(szTwo64) >= 0 {
			return
		}
		if _, ok := seen[v.Uint64()]; !ok {
			seen[v.Uint64()] = struct{}{}
			out = append(out, v.Uint64())
		}
	}
	ks := []int64{25, 50, 75, 100, 125, 150, 200, 250, 256, 300, 400, 500, 512, 600, 700, 750, 768, 800, 900, 1000, 1023, 1024, 1025, 1100, 1500, 2000, 2048, 2500, 4095, 4096, 5000, 8192, 9000, 9999, 10000, 65535, 65536}
	for k := int64(1); k <= 128; k++ {
		ks = append(ks, k)
	}
	for _, k := range ks {
		p10, p2 := big.NewInt(1), big.NewInt(1)
		for j := 0; j <= 19; j++ {
			add(new(big.Int).Mul(big.NewInt(k), p10))
			p10 = new(big.Int).Mul(p10, big.NewInt(10))
			if j <= 6 {
				add(new(big.Int).Mul(big.NewInt(k), p2))
				p2 = new(big.Int).Mul(p2, big.NewInt(1024))
			}
		}
	}
	return out
}

// ---------------------------------------------------------------------------------------- C13
func propC13(c *Ctx) {
	flags := []size.Format{0, size.FormatPretty, size.FormatHTML, size.FormatPretty | size.FormatHTML}
	check := func(s uint64) {
		sz := size.Size(s)
		in := fmt.Sprintf("size.shorten %d", s)
		// Shorten and the renderings do not depend on the marshal switches: each size under one of the 8 settings
		defer setSizeSwitches(int(s^s>>7^s>>23) & 7)()
		v, u := sz.Shorten()
		c.Check("")
		// exact
		m, known := szUnitMult[u]
		idx := -1
		for i, bu := range szShortUnits {
			if bu == u {
				idx = i
			}
		}
		if !known || idx < 0 {
			c.Fail("C13.unit", in, "%d -> %d %q: not a unit from B to EiB", s, v, u)
			return
		}
		if new(big.Int).Mul(szU(v), m).Cmp(szU(s)) != 0 {
			c.Fail("C13.exact", in, "%d -> %d %s: product differs", s, v, u)
		}
		// maximal
		if s == 0 {
			if v != 0 || u != "B" {
				c.Fail("C13.zero", in, "0 -> %d %s", v, u)
			}
		} else {
			for _, bigger := range szShortUnits[idx+1:] {
				if new(big.Int).Mod(szU(s), szUnitMult[bigger]).Sign() == 0 {
					c.Fail("C13.max", in, "%d -> %s but %s divides it", s, u, bigger)
				}
			}
		}
		// renderings against math/big quotient and the independent grouping routine
		dec, wu := szShortenWant(s)
		for _, f := range flags {
			want := dec + wu
			if f&size.FormatPretty != 0 {
				sep := " "
				if f&size.FormatHTML != 0 {
					sep = "&nbsp;"
				}
				want = szGroup3(dec, sep) + sep + wu
			}
			b, err := size.DefaultFormatter(nil, sz, f)
			if err != nil || string(b) != want {
				c.Fail("C13.render", fmt.Sprintf("size.format %d %d -", s, int(f)), "%q want %q (%v)", b, want, err)
			}
		}
		if sz.String() != dec+wu {
			c.Fail("C13.String", fmt.Sprintf("size.format %d 0 -", s), "%q under marshal switches %03b", sz.String(), int(s^s>>7^s>>23)&7)
		}
		if sz.PrettyString() != szGroup3(dec, " ")+" "+wu {
			c.Fail("C13.PrettyString", fmt.Sprintf("size.format %d 1 -", s), "%q under marshal switches %03b", sz.PrettyString(), int(s^s>>7^s>>23)&7)
		}
		if string(sz.PrettyHTML()) != szGroup3(dec, "&nbsp;")+"&nbsp;"+wu {
			c.Fail("C13.PrettyHTML", fmt.Sprintf("size.format %d 3 -", s), "%q under marshal switches %03b", sz.PrettyHTML(), int(s^s>>7^s>>23)&7)
		}
	}
	// odd x 2^k for every k, boundary and random odd parts
	n := int64(0)
	nodd := 6
	if c.Thorough {
		nodd = 200
	}
	seen := map[uint64]struct{}{}
	visit := func(s uint64, ops bool) {
		if _, dup := seen[s]; dup {
			return
		}
		seen[s] = struct{}{}
		check(s)
		n++
		if ops {
			c.Op(fmt.Sprintf("size.shorten %d", s))
			for f := 0; f < 4; f++ {
				pre := "-"
				if c.R.Intn(16) == 0 {
					pre = hx([]byte([]string{"x", "size: ", "1 ", "\x00\xff"}[c.R.Intn(4)]))
				}
				c.Op(fmt.Sprintf("size.format %d %d %s", s, f, pre))
			}
		}
	}
	for k := uint(0); k < 64; k++ {
		top := ^uint64(0) >> k // largest odd part that fits
		odds := []uint64{1, 3, 5, 7, 9, 511, 513, 999, 1001, 1023, 1025, 1048575, 1048577, top, top - 2, top >> 1, top>>10 | 1}
		for i := 0; i < nodd; i++ {
			odds = append(odds, c.R.Next()>>uint(c.R.Intn(64)), c.R.Next())
		}
		for _, o := range odds {
			o = (o | 1) & top
			visit(o<<k, true)
		}
	}
	// the stratified sample (all decimal lengths, neighbours of 1024^k and 1000^k, random)
	nr := 1500
	if c.Thorough {
		nr = 30000
	}
	for _, s := range szSamples(c, 4096, nr) {
		visit(s, true)
	}
	for i, s := range szRoundSizes() {
		visit(s, i%8 == int(c.Seed%8))
	}
	// every decimal length of the shortened value itself and of the pretty groups: 10^l - 1, 10^l, 10^l + 1 are odd/even mixes
	// prefix buffers are kept
	for _, s := range []uint64{0, 1, 1023, 1024, 1025, 999999, 1000000, 1 << 20, 123456789, math.MaxUint64, 1 << 63} {
		for _, pre := range []string{"", "x", "abc ", "\x00", "1"} {
			for _, f := range flags {
				plain, _ := size.DefaultFormatter(nil, size.Size(s), f)
				buf := append(make([]byte, 0, 64), pre...)
				got, err := size.DefaultFormatter(buf, size.Size(s), f)
				c.Check("")
				if err != nil || string(got) != pre+string(plain) {
					c.Fail("C13.prefix", fmt.Sprintf("size.format %d %d %s", s, int(f), hx([]byte(pre))), "%q", got)
				}
				c.Op(fmt.Sprintf("size.format %d %d %s", s, int(f), hx([]byte(pre))))
			}
		}
	}
	// every switch setting for a handful of sizes (check() picks one setting per size)
	for cfg := 0; cfg < 8; cfg++ {
		for _, s := range []uint64{0, 1, 1000, 1023, 1024, 1536, 3 << 20, 999999, 1 << 40, 123456789 << 10, math.MaxUint64, 1 << 63} {
			for d := uint64(0); d < 8; d++ { // some s+d lands on this setting
				if int((s+d)^(s+d)>>7^(s+d)>>23)&7 == cfg {
					delete(seen, s+d)
					visit(s+d, false)
					break
				}
			}
			func() {
				defer setSizeSwitches(cfg)()
				sz := size.Size(s)
				dec, wu := szShortenWant(s)
				c.Check("")
				if v, u := sz.Shorten(); fmt.Sprint(v) != dec || u != wu || sz.String() != dec+wu || sz.PrettyString() != szGroup3(dec, " ")+" "+wu ||
					string(sz.PrettyHTML()) != szGroup3(dec, "&nbsp;")+"&nbsp;"+wu || sz.BytesString() != fmt.Sprint(s) || fmt.Sprint(sz) != dec+wu {
					c.Fail("C13.switches", fmt.Sprintf("size.paths %d", s), "under marshal switches %03b: Shorten %d %s, String %q, PrettyString %q, PrettyHTML %q, BytesString %q", cfg, v, u, sz.String(), sz.PrettyString(), sz.PrettyHTML(), sz.BytesString())
				}
			}()
		}
	}
	// all values below 2^20 (direct oracle; correspondence for a stripe of them)
	stripe := uint64(97)
	if c.Thorough {
		stripe = 13
	}
	off := c.Seed % stripe
	for s := uint64(0); s < 1<<20; s++ {
		visit(s, s%stripe == off && s >= 4096)
	}
	c.NT(n)
	c.Note("C13 visited %d distinct sizes", n)
}

// ---------------------------------------------------------------------------------------- C04
type szInner struct {
	G size.Size `json:"g"`
}

// szIndentBudget: a value that occupies up to this many bytes of a document (its own text plus the white space encoding/json puts
// inside it when indenting) must unmarshal under the limits the package ships with. 128 is the shipped MaxInputLength the property
// was written against; beyond it the unchanged library refuses the value (input too long), which is recorded, not asserted.
const szIndentBudget = 128

// szNest: a configuration-file shaped document with sizes depth levels down (struct field, slice element, map value)
type szNest struct {
	N *szNest              `json:"n,omitempty"`
	S *size.Size           `json:"s,omitempty"`
	L []size.Size          `json:"l,omitempty"`
	M map[string]size.Size `json:"m,omitempty"`
}

type szHolder struct {
	A size.Size            `json:"a"`
	B []size.Size          `json:"b"`
	C map[string]size.Size `json:"c"`
	D *size.Size           `json:"d"`
	E [2]size.Size         `json:"e"`
	F szInner              `json:"f"`
	H map[string][]size.Size
	I []map[string]size.Size
	J any
}

// the library's own defaults, captured before anything changes them: "unmarshals under the default rule" means the
// DefaultRule, MaxInputLength and MaxObjectKeys the package ships with, not values the harness would like them to have
var szInitRule, szInitMaxLen, szInitMaxKeys = size.DefaultRule, size.MaxInputLength, size.MaxObjectKeys

func szSetMarshalCfg(cfg int) func() {
	o1, o2, o3 := size.DisableMarshalTextUnit, size.DisableMarshalJSONStringForm, size.DisableMarshalJSONObjectForm
	o4, o5, o6 := size.DefaultRule, size.MaxInputLength, size.MaxObjectKeys
	size.DisableMarshalTextUnit, size.DisableMarshalJSONStringForm, size.DisableMarshalJSONObjectForm = cfg&1 != 0, cfg&2 != 0, cfg&4 != 0
	size.DefaultRule, size.MaxInputLength, size.MaxObjectKeys = szInitRule, szInitMaxLen, szInitMaxKeys
	return func() {
		size.DisableMarshalTextUnit, size.DisableMarshalJSONStringForm, size.DisableMarshalJSONObjectForm = o1, o2, o3
		size.DefaultRule, size.MaxInputLength, size.MaxObjectKeys = o4, o5, o6
	}
}

func propC04(c *Ctx) {
	checkStrings := func(s uint64) {
		sz := size.Size(s)
		defer setSizeSwitches(int(s^s>>5^s>>19) & 7)() // renderings and parsers do not depend on the marshal switches
		for i, txt := range []string{sz.String(), sz.PrettyString(), sz.BytesString()} {
			p, err := szParse(txt, 128, 16, 0)
			c.Check("")
			if err != nil || p != sz {
				c.Fail("C04.strparse", szParseLine(txt, 128, 16, 0), "rendering %d of %d: %q -> %d %v", i, s, txt, uint64(p), err)
			}
			var u size.Size = 77
			if err := u.UnmarshalText([]byte(txt)); err != nil || u != sz {
				c.Fail("C04.strunmarshal", szParseLine(txt, 128, 16, 0), "rendering %d of %d: %q -> %d %v", i, s, txt, uint64(u), err)
			}
		}
	}
	checkCfg := func(s uint64, cfg int, nested bool) {
		sz := size.Size(s)
		restore := szSetMarshalCfg(cfg)
		defer restore()
		c.Check("")
		t, err := sz.MarshalText()
		var back size.Size = 77
		if err != nil {
			c.Fail("C04.text.marshal", fmt.Sprintf("size.marshal %d %d text", s, cfg), "%v", err)
		} else if e := back.UnmarshalText(t); e != nil || back != sz {
			c.Fail("C04.text", fmt.Sprintf("size.marshal %d %d text", s, cfg), "%q -> %d %v", t, uint64(back), e)
		}
		if cfg&1 != 0 && string(t) != szU(s).String() {
			c.Fail("C04.text.nounit", fmt.Sprintf("size.marshal %d %d text", s, cfg), "%q is not the plain byte count", t)
		}
		j, err := sz.MarshalJSON()
		back = 77
		if err != nil || !json.Valid(j) {
			c.Fail("C04.json.marshal", fmt.Sprintf("size.marshal %d %d json", s, cfg), "%q %v", j, err)
		} else if e := back.UnmarshalJSON(j); e != nil || back != sz {
			c.Fail("C04.json", fmt.Sprintf("size.marshal %d %d json", s, cfg), "%q -> %d %v", j, uint64(back), e)
		}
		// what was marshalled under these switches unmarshals under any other setting of them too
		if err == nil && t != nil {
			other := (cfg + 1 + int(s%7)) & 7
			func() {
				defer setSizeSwitches(other)()
				var b1, b2 size.Size = 77, 77
				if e1, e2 := b1.UnmarshalText(t), b2.UnmarshalJSON(j); e1 != nil || e2 != nil || b1 != sz || b2 != sz {
					c.Fail("C04.switches", fmt.Sprintf("size.marshal %d %d json", s, cfg), "marshalled under switches %03b (%q, %q), unmarshalled under %03b: %d %v / %d %v", cfg, t, j, other, uint64(b1), e1, uint64(b2), e2)
				}
			}()
		}
		// the form is the configured one (generic decoding)
		if err == nil {
			d := json.NewDecoder(bytes.NewReader(j))
			d.UseNumber()
			var g any
			_ = d.Decode(&g)
			formOK := false
			switch x := g.(type) {
			case map[string]any:
				vn, ok1 := x["value"].(json.Number)
				un, ok2 := x["unit"].(string)
				if cfg&4 == 0 && len(x) == 2 && ok1 && ok2 {
					if bv, ok := new(big.Int).SetString(string(vn), 10); ok {
						if m, known := szUnitMult[un]; known && new(big.Int).Mul(bv, m).Cmp(szU(s)) == 0 {
							formOK = true
						}
					}
				}
			case string:
				formOK = cfg&4 != 0 && cfg&2 == 0 && x == string(t)
			case json.Number:
				formOK = cfg&4 != 0 && cfg&2 != 0 && string(x) == szU(s).String()
			}
			if !formOK {
				c.Fail("C04.json.form", fmt.Sprintf("size.marshal %d %d json", s, cfg), "%q is not the configured form", j)
			}
		}
		if nested {
			// a later round trip under another setting of the three switches, with the parser configuration (DefaultRule and the two
			// limits) left exactly as the calls above left it: a Marshal* / Unmarshal* call that rewrites package configuration as a
			// side effect breaks the NEXT round trip, which a harness that sets every global before every call never sees
			later := (cfg + 3 + int(s%5)) & 7
			func() {
				defer setSizeSwitches(later)()
				c.Check("")
				j2, e1 := sz.MarshalJSON()
				t2, e2 := sz.MarshalText()
				var b1, b2 size.Size = 77, 77
				var e3, e4 error
				if e1 == nil && e2 == nil {
					e3, e4 = b1.UnmarshalJSON(j2), b2.UnmarshalText(t2)
				}
				if e1 != nil || e2 != nil || e3 != nil || e4 != nil || b1 != sz || b2 != sz {
					c.Fail("C04.sequence", fmt.Sprintf("size.marshal %d %d json", s, later), "size %d: after a round trip under switches %03b, the round trip under switches %03b (shipped DefaultRule %d and limits set before the first one, not touched since; DefaultRule is now %d, MaxInputLength %d, MaxObjectKeys %d): JSON %q -> %d %v %v, text %q -> %d %v %v",
						s, cfg, later, int(szInitRule), int(size.DefaultRule), size.MaxInputLength, size.MaxObjectKeys, j2, uint64(b1), e1, e3, t2, uint64(b2), e2, e4)
				}
			}()
			c.Check("")
			h := szHolder{A: sz, B: []size.Size{sz, 0, sz}, C: map[string]size.Size{"k": sz, "": 1}, D: &sz, E: [2]size.Size{sz, sz}, F: szInner{G: sz},
				H: map[string][]size.Size{"x": {sz}}, I: []map[string]size.Size{{"y": sz}}, J: sz}
			doc, err := json.Marshal(h)
			// pre-filled with a value that is not sz: a decode that skips an assignment (e.g. for 0 B) is visible
			other, otherD := sz^0x55, sz^0x55
			hb := szHolder{A: other, D: &otherD, E: [2]size.Size{other, other}, F: szInner{G: other}}
			var e2 error
			if err == nil {
				e2 = json.Unmarshal(doc, &hb)
			}
			if err != nil || !json.Valid(doc) || e2 != nil || hb.A != sz || len(hb.B) != 3 || hb.B[0] != sz || hb.B[1] != 0 || hb.B[2] != sz || hb.C["k"] != sz || hb.C[""] != 1 ||
				hb.D == nil || *hb.D != sz || hb.E != [2]size.Size{sz, sz} || hb.F.G != sz || len(hb.H["x"]) != 1 || hb.H["x"][0] != sz || len(hb.I) != 1 || hb.I[0]["y"] != sz {
				c.Fail("C04.nested", fmt.Sprintf("size.marshal %d %d json", s, cfg), "%s %v %v", doc, err, e2)
			}
			// the standalone JSON form is what the containers embed
			if err == nil && !bytes.Contains(doc, append([]byte(`"a":`), j...)) {
				c.Fail("C04.nested.form", fmt.Sprintf("size.marshal %d %d json", s, cfg), "%s does not embed %s", doc, j)
			}
			// indented documents (whitespace inside the object form) unmarshal too
			ind, err := json.MarshalIndent(map[string]any{"s": sz, "l": []size.Size{sz}}, " ", "\t")
			var mb struct {
				S size.Size
				L []size.Size
			}
			mb.S = sz ^ 0x55
			if err != nil || json.Unmarshal(ind, &mb) != nil || mb.S != sz || len(mb.L) != 1 || mb.L[0] != sz {
				c.Fail("C04.nested.indent", fmt.Sprintf("size.marshal %d %d json", s, cfg), "%s %v", ind, err)
			}
		}
	}
	ops := func(s uint64) {
		for cfg := 0; cfg < 8; cfg++ {
			out := c.Op(fmt.Sprintf("size.marshal %d %d text", s, cfg))
			c.Op("size.parse 128 16 0 " + out)
			out = c.Op(fmt.Sprintf("size.marshal %d %d json", s, cfg))
			c.Op("size.parse 128 16 6 " + out)
		}
		for f := 0; f < 2; f++ {
			out := c.Op(fmt.Sprintf("size.format %d %d -", s, f))
			c.Op("size.parse 128 16 0 " + out)
		}
	}
	below, nrand := uint64(1536), 1200
	if c.Thorough {
		below, nrand = 1<<12, 6000
	}
	samples := szSamples(c, below, nrand)
	for i, s := range samples {
		ops(s)
		checkStrings(s)
		for cfg := 0; cfg < 8; cfg++ {
			checkCfg(s, cfg, c.Thorough || i%4 == 0 || s >= 1<<62)
		}
	}
	n := int64(len(samples))
	// round sizes (k x 10^j, k x 1024^j): every one, all configurations
	for i, s := range szRoundSizes() {
		checkStrings(s)
		for cfg := 0; cfg < 8; cfg++ {
			checkCfg(s, cfg, i%8 == 0)
		}
		if i%16 == int(c.Seed%16) {
			ops(s)
		}
		n++
	}
	// more random and small values for the direct oracle only
	extra := 20000
	if c.Thorough {
		extra = 200000
	}
	for i := 0; i < extra; i++ {
		s := c.R.Next() >> uint(c.R.Intn(64))
		checkStrings(s)
		for cfg := 0; cfg < 8; cfg++ {
			checkCfg(s, cfg, i%16 == 0)
		}
	}
	n += int64(extra)
	if c.Thorough {
		off := c.Seed % 5
		for s := uint64(0); s < 1<<20; s++ {
			checkStrings(s)
			for cfg := 0; cfg < 8; cfg++ {
				checkCfg(s, cfg, s%5 == off)
			}
		}
		n += 1 << 20
	} else {
		// a seeded stripe of the values below 2^20
		off := c.Seed % 61
		for s := off; s < 1<<20; s += 61 {
			checkStrings(s)
			for cfg := 0; cfg < 8; cfg++ {
				checkCfg(s, cfg, s%7 == 0)
			}
			n++
		}
	}
	// ---- nested AND indented, as configuration files are: encoding/json re-indents the object form, so UnmarshalJSON is handed the value
	// with white space inside it - how much depends on depth and indent width. Judged under the shipped limits wherever the value as
	// it stands in the document fits the shipped MaxInputLength (beyond that the recorded interpretation of the limit applies).
	nInd, nOver, firstOver := 0, 0, ""
	for _, cfg := range []int{0, 1, 4, 5, 6} {
		func() {
			defer szSetMarshalCfg(cfg)()
			for _, s := range []uint64{0, 1500, 1 << 30, 3 << 40, math.MaxUint64} {
				sz := size.Size(s)
				for _, ind := range [][2]string{{"", ""}, {"", " "}, {"", "  "}, {"", "    "}, {"", "        "}, {"", "\t"}, {"  ", "  "}, {"\t", "\t"}} {
					for _, depth := range []int{1, 2, 3, 4, 5, 6, 7, 8, 10, 12, 16, 24, 32, 40} {
						root := &szNest{}
						cur := root
						for i := 1; i < depth; i++ {
							cur.N = &szNest{}
							cur = cur.N
						}
						cur.S, cur.L, cur.M = &sz, []size.Size{sz}, map[string]size.Size{"k": sz}
						doc, err := json.MarshalIndent(root, ind[0], ind[1])
						if err != nil {
							c.Fail("C04.indent", fmt.Sprintf("size.marshal %d %d json", s, cfg), "MarshalIndent: %v", err)
							continue
						}
						// the bytes of the value as they stand in the document
						raw := json.RawMessage(doc)
						for i := 1; i < depth; i++ {
							var m map[string]json.RawMessage
							json.Unmarshal(raw, &m)
							raw = m["n"]
						}
						var m map[string]json.RawMessage
						json.Unmarshal(raw, &m)
						var lst []json.RawMessage
						json.Unmarshal(m["l"], &lst)
						longest := len(m["s"])
						if len(lst) == 1 && len(lst[0]) > longest {
							longest = len(lst[0])
						}
						c.Check("")
						nInd++
						if longest > szIndentBudget {
							nOver++
							if firstOver == "" {
								firstOver = fmt.Sprintf("cfg %d, prefix %q indent %q, depth %d: the value occupies %d bytes of the document", cfg, ind[0], ind[1], depth, longest)
							}
							continue
						}
						var back szNest
						e := json.Unmarshal(doc, &back)
						b := &back
						for i := 1; i < depth && b != nil; i++ {
							b = b.N
						}
						if e != nil || b == nil || b.S == nil || *b.S != sz || len(b.L) != 1 || b.L[0] != sz || b.M["k"] != sz {
							c.Fail("C04.indent", fmt.Sprintf("size.marshal %d %d json", s, cfg), "size %d, switches %03b, MarshalIndent(prefix %q, indent %q), nesting depth %d (the value occupies %d bytes of the document; shipped MaxInputLength %d): %v", s, cfg, ind[0], ind[1], depth, longest, szInitMaxLen, e)
						}
					}
				}
			}
		}()
	}
	c.NT(n*8 + int64(nInd))
	c.Note("C04 visited %d sizes x 8 configurations (%d of them also as correspondence lines)", n, len(samples))
	c.Note("indented nested documents: %d judged, %d not judged because the re-indented value alone exceeds %d bytes (first: %s)", nInd-nOver, nOver, szIndentBudget, firstOver)
}

// ---------------------------------------------------------------------------------------- C08
type (
	szInts interface {
		constraint.Ints | constraint.Uints
	}
	szFloats interface{ constraint.Floats }
	szMyU8   uint8
	szMyInt  int
	szMyU64  uint64
	szMyF32  float32
)

// szNewWant is the expectation for New(value, unit); exact == nil stands for NaN and the infinities.
func szNewWant(exact *big.Rat, unit string) (bool, uint64, string) {
	m, known := szUnitMult[unit]
	if exact != nil && exact.Sign() == 0 {
		if known {
			return true, 0, ""
		}
		return false, 0, "invalidUnit"
	}
	badValue := exact == nil || exact.Sign() < 0 || !exact.IsInt() || exact.Num().Cmp(szTwo64) >= 0
	switch {
	case badValue && (!known || m.Cmp(szTwo64) >= 0):
		return false, 0, ""
	case badValue:
		return false, 0, "invalidValue"
	}
	return szArith(exact.Num(), unit)
}

func szNewErrClass[N constraint.Numbers](err error) string {
	if err == nil {
		return ""
	}
	var iv *size.InvalidValueError[N]
	if errors.As(err, &iv) {
		return "invalidValue"
	}
	return sizeErrClass(err)
}

func szJudgeNew(c *Ctx, kind, enc, unit string, exact *big.Rat, got size.Size, err error, cls string, emit bool) {
	c.Check("")
	line := fmt.Sprintf("size.new %s %s %s", kind, enc, hx([]byte(unit)))
	ok, val, class := szNewWant(exact, unit)
	if err != nil && !strings.HasPrefix(err.Error(), "size.New: ") {
		c.Fail("C08.new.wrap", line, "error %q does not name size.New", err)
	}
	if msg := szJudgeCls(got, err, cls, ok, val, class); msg != "" {
		c.Fail("C08.new", line, "New[%s](%s, %q): %s", kind, enc, unit, msg)
	}
	if emit {
		c.Op(line)
	}
}

func szFloatEnc(f float64) string {
	switch {
	case math.IsNaN(f):
		return "f:nan"
	case math.IsInf(f, 1):
		return "f:+inf"
	case math.IsInf(f, -1):
		return "f:-inf"
	case f == 0:
		return "f:0:0"
	}
	fr, e := math.Frexp(f)
	m := int64(fr * (1 << 53))
	e -= 53
	for m%2 == 0 {
		m /= 2
		e++
	}
	return fmt.Sprintf("f:%d:%d", m, e)
}

// szNewIntKind runs New[N] over the values (which must fit N) and units; emit = 0: no
// correspondence lines (kind unknown to the protocol), k: one line every k-th combination.
func szNewIntKind[N szInts](c *Ctx, kind string, emit int, vals []*big.Int, units []string) {
	i := 0
	for _, bi := range vals {
		var v N
		if bi.Sign() < 0 {
			v = N(bi.Int64())
		} else {
			v = N(bi.Uint64())
		}
		if fmt.Sprint(v) != bi.String() {
			continue // does not fit the kind
		}
		for _, u := range units {
			got, err := size.New(v, u)
			i++
			szJudgeNew(c, kind, "i:"+bi.String(), u, new(big.Rat).SetInt(bi), got, err, szNewErrClass[N](err), emit != 0 && i%emit == 0)
		}
	}
}

func szNewFloatKind[N szFloats](c *Ctx, kind string, emit int, vals []float64, units []string) {
	i := 0
	for _, f := range vals {
		v := N(f)
		if !math.IsNaN(f) && float64(v) != f {
			continue // not exactly representable in the kind
		}
		var exact *big.Rat
		if !math.IsNaN(f) && !math.IsInf(f, 0) {
			exact = new(big.Rat).SetFloat64(f)
		}
		for _, u := range units {
			got, err := size.New(v, u)
			i++
			szJudgeNew(c, kind, szFloatEnc(f), u, exact, got, err, szNewErrClass[N](err), emit != 0 && i%emit == 0)
		}
	}
}

func szIntVals(c *Ctx, nrand int) []*big.Int {
	seen := map[string]bool{}
	var out []*big.Int
	add := func(b *big.Int) {
		if !seen[b.String()] {
			seen[b.String()] = true
			out = append(out, b)
		}
	}
	for _, v := range []int64{0, 1, 2, 3, 7, 9, 10, 99, 100, 126, 127, 128, 129, 254, 255, 256, 257, 999, 1000, 1001, 1023, 1024, 1025, 32766, 32767, 32768, 65535, 65536, 65537} {
		add(big.NewInt(v))
		add(big.NewInt(-v))
	}
	for k := uint(0); k <= 64; k++ {
		p := new(big.Int).Lsh(big.NewInt(1), k)
		for d := int64(-2); d <= 2; d++ {
			x := new(big.Int).Add(p, big.NewInt(d))
			add(x)
			add(new(big.Int).Neg(x))
		}
	}
	p := big.NewInt(1)
	for k := 0; k <= 19; k++ {
		for d := int64(-1); d <= 1; d++ {
			add(new(big.Int).Add(p, big.NewInt(d)))
		}
		p = new(big.Int).Mul(p, big.NewInt(10))
	}
	for _, u := range szUnits18 {
		lim := new(big.Int).Div(szMaxU, szUnitMult[u])
		for d := int64(-2); d <= 2; d++ {
			add(new(big.Int).Add(lim, big.NewInt(d)))
		}
	}
	for i := 0; i < nrand; i++ {
		v := c.R.Next() >> uint(c.R.Intn(64))
		add(szU(v))
		add(big.NewInt(-int64(v >> 1)))
	}
	return out
}

var szBytesKinds = []struct {
	kind string
	max  uint64 // integer kinds
	mant int    // float kinds: mantissa bits
	op   bool
	call func(size.Size) (*big.Int, bool)
}{
	{"int", math.MaxInt64, 0, true, szBytesI[int]}, {"int8", math.MaxInt8, 0, true, szBytesI[int8]}, {"int16", math.MaxInt16, 0, true, szBytesI[int16]},
	{"int32", math.MaxInt32, 0, true, szBytesI[int32]}, {"int64", math.MaxInt64, 0, true, szBytesI[int64]},
	{"uint", math.MaxUint64, 0, true, szBytesI[uint]}, {"uint8", math.MaxUint8, 0, true, szBytesI[uint8]}, {"uint16", math.MaxUint16, 0, true, szBytesI[uint16]},
	{"uint32", math.MaxUint32, 0, true, szBytesI[uint32]}, {"uint64", math.MaxUint64, 0, true, szBytesI[uint64]},
	{"float32", 0, 24, true, szBytesF[float32]}, {"float64", 0, 53, true, szBytesF[float64]},
	{"myInt16", math.MaxInt16, 0, false, szBytesI[myInt16]}, {"szMyU8", math.MaxUint8, 0, false, szBytesI[szMyU8]}, {"szMyInt", math.MaxInt64, 0, false, szBytesI[szMyInt]},
	{"szMyU64", math.MaxUint64, 0, false, szBytesI[szMyU64]}, {"myFloat64", 0, 53, false, szBytesF[myFloat64]}, {"szMyF32", 0, 24, false, szBytesF[szMyF32]},
}

func szBytesI[N szInts](s size.Size) (*big.Int, bool) {
	v, ok := size.Bytes[N](s)
	if v < 0 {
		return big.NewInt(int64(v)), ok
	}
	return szU(uint64(v)), ok
}

func szBytesF[N szFloats](s size.Size) (*big.Int, bool) {
	v, ok := size.Bytes[N](s)
	bi, _ := new(big.Float).SetFloat64(float64(v)).Int(nil)
	return bi, ok
}

// szGaps calls f with ds and every assignment of the separators to the gaps between its digits.
func szGaps(ds string, seps []string, f func(string)) {
	var rec func(i int, acc string)
	rec = func(i int, acc string) {
		acc += ds[i : i+1]
		if i == len(ds)-1 {
			f(acc)
			return
		}
		for _, s := range seps {
			rec(i+1, acc+s)
		}
	}
	rec(0, "")
}

func propC08(c *Ctx) {
	// (a) every unit around its overflow boundary and around zero, powers, random values
	nrand := 1500
	if c.Thorough {
		nrand = 30000
	}
	for _, u := range szUnits18 {
		mult := szUnitMult[u]
		lim := new(big.Int).Div(szMaxU, mult).Uint64() // 0 for ZB, YB, ZiB, YiB
		var cands []uint64
		var near []bool
		addc := func(v uint64, n bool) { cands = append(cands, v); near = append(near, n) }
		for d := uint64(0); d <= 1000; d++ {
			if lim >= d {
				addc(lim-d, d <= 12)
			}
			if lim+d >= lim && d > 0 {
				addc(lim+d, d <= 12)
			}
			addc(d, d <= 12)
		}
		for k := uint(0); k < 64; k++ {
			addc(uint64(1)<<k, true)
			addc(uint64(1)<<k-1, false)
			addc(uint64(1)<<k+1, false)
		}
		for p := uint64(1); ; p *= 10 {
			addc(p, true)
			addc(p-1, false)
			addc(p+1, false)
			if p > math.MaxUint64/10 {
				break
			}
		}
		addc(math.MaxUint64, true)
		for i := 0; i < nrand; i++ {
			addc(c.R.Next()>>uint(c.R.Intn(64)), i%40 == 0)
		}
		for idx, v := range cands {
			ok, val, class := szArith(szU(v), u)
			emit := near[idx] || idx%41 == 0
			enc := fmt.Sprintf("i:%d", v)
			got, err := size.New(v, u)
			szJudgeNew(c, "uint64", enc, u, new(big.Rat).SetInt(szU(v)), got, err, szNewErrClass[uint64](err), emit)
			if v <= math.MaxInt64 {
				got, err = size.New(int64(v), u)
				szJudgeNew(c, "int64", enc, u, new(big.Rat).SetInt(szU(v)), got, err, szNewErrClass[int64](err), emit && idx%3 == 0)
			}
			if f := float64(v); f < 18446744073709551616.0 && uint64(f) == v {
				got, err = size.New(f, u)
				szJudgeNew(c, "float64", szFloatEnc(f), u, new(big.Rat).SetInt(szU(v)), got, err, szNewErrClass[float64](err), emit && idx%3 == 1)
			}
			ds := szU(v).String()
			texts := []string{ds + u, "  " + ds + " " + u + " ", szGroup3(ds, " ") + "_" + u + "   ", " " + szGroup3(ds, "_ ") + "  _" + u, szGroup3(ds, szNBSP) + szNBSP + u + " "}
			for ti, txt := range texts {
				for _, r := range []size.Rule{0, size.RuleDisableUnit} {
					wok, wval, wclass := ok, val, class
					if r != 0 && u != "" {
						wok, wval, wclass = false, 0, "unitDisabled"
					}
					c.Check("")
					line := szParseLine(txt, 128, 16, r)
					p, perr := szParse(txt, 128, 16, r)
					if msg := szJudge(p, perr, wok, wval, wclass); msg != "" {
						c.Fail("C08.text", line, "%q rule %d: %s %s", txt, int(r), msg, szCrossDetail())
					}
					// the regular-expression reading of the grammar must agree with the construction
					ook, oval, _ := szTextOracle(txt, r != 0)
					if ook != wok || oval != wval {
						c.Fail("C08.selfcheck", line, "%q: grammar oracle %v %d, construction %v %d", txt, ook, oval, wok, wval)
					}
					if emit && (ti+idx)%5 == 0 {
						c.Op(line)
					}
				}
			}
		}
		c.NT(int64(len(cands)))
	}
	// unknown units never give a value, with zero or not
	for _, bad := range szBadUnits {
		for _, v := range []uint64{0, 1, 1024, math.MaxUint64} {
			got, err := size.New(v, bad)
			szJudgeNew(c, "uint64", fmt.Sprintf("i:%d", v), bad, new(big.Rat).SetInt(szU(v)), got, err, szNewErrClass[uint64](err), true)
		}
	}
	// (b) New over all numeric kinds and derived types
	nr := 60
	if c.Thorough {
		nr = 1500
	}
	ivals := szIntVals(c, nr)
	units := append(append([]string{}, szUnits18...), "kb", "KB", "b", " B", "XB")
	e := 7
	if c.Thorough {
		e = 11
	}
	szNewIntKind[int](c, "int", e, ivals, units)
	szNewIntKind[int8](c, "int8", 2, ivals, units)
	szNewIntKind[int16](c, "int16", 3, ivals, units)
	szNewIntKind[myInt16](c, "myInt16", 3, ivals, units)
	szNewIntKind[int32](c, "int32", 4, ivals, units)
	szNewIntKind[int64](c, "int64", e, ivals, units)
	szNewIntKind[uint](c, "uint", e, ivals, units)
	szNewIntKind[uint8](c, "uint8", 2, ivals, units)
	szNewIntKind[uint16](c, "uint16", 3, ivals, units)
	szNewIntKind[uint32](c, "uint32", 4, ivals, units)
	szNewIntKind[uint64](c, "uint64", e, ivals, units)
	szNewIntKind[szMyU8](c, "szMyU8", 0, ivals, units)
	szNewIntKind[szMyInt](c, "szMyInt", 0, ivals, units)
	szNewIntKind[szMyU64](c, "szMyU64", 0, ivals, units)
	p2 := func(k int) float64 { return math.Ldexp(1, k) }
	fvals := []float64{0, math.Copysign(0, -1), 1, 2, 3, 0.5, 1.5, 0.25, -1, -0.5, -1024, 1e-300, math.SmallestNonzeroFloat64, math.SmallestNonzeroFloat32, math.NaN(), math.Inf(1), math.Inf(-1),
		999, 1000, 1023, 1024, 1024.5, 1e6, 1e15, 1e18, 1e19, 1e20, p2(24) - 1, p2(24), p2(24) + 1, p2(24) + 2, p2(32), p2(52) + 0.5, p2(53) - 1, p2(53), p2(53) + 2, p2(54) - 2, p2(54), p2(54) + 4,
		p2(60), p2(62), p2(63) - 1024, p2(63), p2(63) + 2048, p2(64) - 2048, p2(64) - p2(40), p2(64) - p2(41), p2(64), p2(64) + 4096, p2(65), p2(100), p2(127), math.MaxFloat32, math.MaxFloat64, -math.MaxFloat64,
		-p2(63), -p2(64), 18446744073709.5, 18014398509481983, 18446744073709552, 18446744073709551}
	for _, u := range szUnits18 {
		lim, _ := new(big.Float).SetInt(new(big.Int).Div(szMaxU, szUnitMult[u])).Float64()
		fvals = append(fvals, lim, math.Nextafter(lim, 0), math.Nextafter(lim, math.Inf(1)), float64(float32(lim)), float64(math.Nextafter32(float32(lim), 0)))
	}
	for i := 0; i < nr; i++ {
		fvals = append(fvals, math.Ldexp(float64(c.R.Next()>>11), c.R.Intn(80)-60), float64(float32(math.Ldexp(float64(c.R.Next()>>40), c.R.Intn(60)-20))))
	}
	szNewFloatKind[float64](c, "float64", 2, fvals, units)
	szNewFloatKind[myFloat64](c, "myFloat64", 3, fvals, units)
	szNewFloatKind[float32](c, "float32", 2, fvals, units)
	szNewFloatKind[szMyF32](c, "szMyF32", 0, fvals, units)

	// (c) grammar-generated texts
	nText := int64(0)
	checkText := func(txt string, emit bool) {
		ml := 128
		if len(txt) > 128 {
			ml = 0
		}
		nText++
		for _, r := range []size.Rule{0, size.RuleDisableUnit} {
			ok, val, class := szTextOracle(txt, r != 0)
			p, err := szParse(txt, ml, 16, r)
			c.Check("")
			line := szParseLine(txt, ml, 16, r)
			if msg := szJudge(p, err, ok, val, class); msg != "" {
				c.Fail("C08.grammar", line, "%q rule %d: %s %s", txt, int(r), msg, szCrossDetail())
			}
			if emit {
				c.Op(line)
			}
		}
	}
	// the separators never change the value: compare with the separator-free text
	sameAsPlain := func(txt, ds, unit string) {
		ok, val, _ := szArith(func() *big.Int { b, _ := new(big.Int).SetString(ds, 10); return b }(), unit)
		if b, _ := new(big.Int).SetString(ds, 10); b.Cmp(szTwo64) >= 0 {
			ok, val = false, 0
		}
		p, err := szParse(txt, 0, 16, 0)
		c.Check("")
		if (err == nil) != ok || uint64(p) != val {
			c.Fail("C08.separators", szParseLine(txt, 0, 16, 0), "%q -> %d %v, want %v %d as for %q", txt, uint64(p), err, ok, val, ds+unit)
		}
	}
	gapSeps := []string{"", " ", "_", szNBSP}
	preUnit := []string{"", " ", "_", szNBSP, "  ", "_ ", " _ ", szNBSP + " "}
	fewUnits := []string{"", "B", "KiB", "kB", "EiB", "ZB", "kb"}
	k := 0
	gapDigits := []string{"7", "10", "42", "007", "1000", "1024", "9999"}
	if c.Thorough {
		gapDigits = append(gapDigits, "65536", "00000", "18446", "123456")
		fewUnits = append(append([]string{}, szUnits18...), "kb", "K iB")
	}
	for _, ds := range gapDigits {
		szGaps(ds, gapSeps, func(body string) {
			for _, ps := range preUnit {
				for _, u := range fewUnits {
					for _, lead := range []string{"", "  "} {
						for _, trail := range []string{"", "  "} {
							txt := lead + body + ps + u + trail
							k++
							checkText(txt, k%23 == int(c.Seed%23))
							sameAsPlain(txt, ds, u)
						}
					}
				}
			}
		})
	}
	longDigits := []string{"0", "000", "18446744073709551615", "18446744073709551616", "99999999999999999999", "018446744073709551615", "18014398509481983", "18014398509481984",
		"18446744073709551", "18446744073709552", "16", "17", "15", "1152921504606846976", "340282366920938463463374607431768211456"}
	styles := []func(string) string{
		func(d string) string { return d },
		func(d string) string { return szGroup3(d, " ") },
		func(d string) string { return szGroup3(d, "_") },
		func(d string) string { return szGroup3(d, szNBSP) },
		func(d string) string { return strings.Join(strings.Split(d, ""), "_ "+szNBSP) },
	}
	for _, ds := range longDigits {
		for si, st := range styles {
			for _, ps := range preUnit[:5] {
				for _, u := range append(append([]string{}, szUnits18...), szBadUnits...) {
					for li, lt := range [][2]string{{"", ""}, {" ", " "}, {"   ", "     "}} {
						txt := lt[0] + st(ds) + ps + u + lt[1]
						k++
						checkText(txt, k%29 == int(c.Seed%29))
						if li == 0 && !strings.HasPrefix(u, " ") {
							sameAsPlain(txt, ds, u)
						}
						_ = si
					}
				}
			}
		}
	}
	// things that are not ignorable: separators before the first digit, other white space, signs, fractions
	for _, bad := range []string{"_1", szNBSP + "1", "\t1", "1\t", "1\t000", "\n1", "1\n", "+1", "-1", "-0", "1.0", "1.5KiB", "1e3", "0x10", "1,000", "1'000", "1.000", "\uff11\uff12", "\u0663", "1\u2009000", "1\u202f000", "1\u3000KiB",
		"1 KiB x", "1 KiB_", "1 KiB" + szNBSP, "KiB", "", " ", "   ", "_", szNBSP, "B", " 1", "1 ", "1_", "1" + szNBSP, "1__" + szNBSP + szNBSP + "  2", "1\xa0000", "1\xc2", "1\xc2KiB", "\xc2\xa01", "1 \xff", "12\x00", "\x0012",
		"1 K iB", "1 KiB 2", "1KiB2", "1 2 3 B", "1B B", "0 anything", "0 ", "00 ZiB", "0_YB", "0kb", "1ZB", "1 YiB", "18446744073709551615 B", "18446744073709551616 B", "18446744073709551616"} {
		checkText(bad, true)
		checkText(" "+bad, true)
		checkText(bad+" ", true)
	}
	// unit aliases and near misses of the valid names: New, the text grammar, the JSON object form
	aliases := szAliasUnits()
	for ai, u := range aliases {
		for vi, v := range []uint64{0, 1, 10, 1024, math.MaxUint64} {
			got, err := size.New(v, u)
			szJudgeNew(c, "uint64", fmt.Sprintf("i:%d", v), u, new(big.Rat).SetInt(szU(v)), got, err, szNewErrClass[uint64](err), vi < 3)
		}
		gotI, errI := size.New(int(5), u)
		szJudgeNew(c, "int", "i:5", u, big.NewRat(5, 1), gotI, errI, szNewErrClass[int](errI), ai%4 == 0)
		gotF, errF := size.New(float64(0), u)
		szJudgeNew(c, "float64", "f:0:0", u, new(big.Rat), gotF, errF, szNewErrClass[float64](errF), ai%4 == 1)
		for _, ds := range []string{"0", "10"} {
			checkText(ds+u, true)
			checkText(ds+" "+u, true)
			checkText(" "+ds+"_"+u+" ", ai%2 == 0)
		}
		ub, _ := json.Marshal(u)
		for di, doc := range []string{`{"value":10,"unit":` + string(ub) + `}`, `{"UNIT":` + string(ub) + `,"value":0}`, `{"unit":` + string(ub) + `,"Value":18446744073709551615}`} {
			d := szAnalyse(doc)
			for _, r := range []size.Rule{size.RuleEnableJSONObjectForm, size.RuleEnableJSONStringForm | size.RuleEnableJSONObjectForm} {
				nText++
				got, err := szParse(doc, 0, 16, r)
				c.Check("")
				line := szParseLine(doc, 0, 16, r)
				if msg := szJudge12(got, err, d.szExpectFor(doc, 0, 16, r)); msg != "" {
					c.Fail("C08.json", line, "%q rule %d: %s", doc, int(r), msg)
				}
				if di == 0 || (ai+di)%3 == 0 {
					c.Op(line)
				}
			}
		}
	}
	// single-byte mutations, deletions and insertions of valid texts
	for _, base := range []string{"1 000 KiB", "12_345" + szNBSP + "kB", " 16 EiB ", "0ZB", "18446744073709551615", "7B"} {
		for pos := 0; pos < len(base); pos++ {
			for b := 0; b < 256; b++ {
				mut := []byte(base)
				mut[pos] = byte(b)
				checkText(string(mut), b%4 == int(c.Seed%4) || b == ' ' || b == '_' || b == 0xc2 || b == 0xa0 || (b >= '0' && b <= '9'))
			}
			checkText(base[:pos]+base[pos+1:], true)
			for _, ins := range []string{" ", "_", szNBSP, "0", "\xa0", "\xc2", "B", "i", "\t"} {
				checkText(base[:pos]+ins+base[pos:], true)
			}
		}
	}
	// (c') the same number x unit arithmetic through the JSON number and object forms: a fractional, negative,
	// exponent-form or overflowing JSON number is refused, never truncated, rounded or wrapped
	jsonVals := []string{"0", "1", "7", "15", "16", "17", "1024", "18446744073709551615", "18446744073709551616", "18446744073709552", "18014398509481984",
		"1.5", "1.0", "0.5", "0.0", "1.000", "2e3", "1E2", "1e-1", "1e0", "1e19", "1.8446744073709552e19", "0.9999999999999999", "1.0000000000000002",
		"-1", "-0", "-1.5", "9007199254740993", "12345678901234567890123", "1e400", "00", "01", "+1", ".5", "1.", "0x10", "NaN", "Infinity", "\"1\"", "null", "true", "[1]"}
	jsonUnits := append(append([]string{}, szUnits18...), "", "kb", "b", "KiB ", " KiB", "kib", "KIB", "kB ", " B", "B ", "bytes", "MiB\n", "Ki")
	nJ := 0
	for _, v := range jsonVals {
		var docs []string
		for _, u := range jsonUnits {
			docs = append(docs, `{"value":`+v+`,"unit":"`+u+`"}`, `{ "unit" : "`+u+`" , "VALUE" : `+v+` }`)
		}
		docs = append(docs, v, " "+v+" ")
		for _, doc := range docs {
			d := szAnalyse(doc)
			for _, r := range []size.Rule{size.RuleEnableJSONObjectForm, size.RuleEnableJSONStringForm | size.RuleEnableJSONObjectForm, size.RuleEnableJSONStringForm} {
				nJ++
				nText++
				got, err := szParse(doc, 0, 16, r)
				c.Check("")
				line := szParseLine(doc, 0, 16, r)
				if msg := szJudge12(got, err, d.szExpectFor(doc, 0, 16, r)); msg != "" {
					c.Fail("C08.json", line, "%q rule %d: %s", doc, int(r), msg)
				}
				if nJ%7 == int(c.Seed%7) {
					c.Op(line)
				}
			}
		}
	}
	c.NT(nText)
	// (d) Bytes[N]
	seen := map[uint64]struct{}{}
	var bvals []uint64
	addb := func(v uint64) {
		if _, ok := seen[v]; !ok {
			seen[v] = struct{}{}
			bvals = append(bvals, v)
		}
	}
	for _, kd := range szBytesKinds {
		if kd.mant == 0 {
			for d := uint64(0); d <= 2; d++ {
				addb(kd.max - d)
				addb(kd.max + d) // wraps to 0, 1 for the 64-bit kinds: harmless
			}
		}
	}
	for _, kbits := range []uint{24, 25, 53, 54, 63} {
		for d := uint64(0); d <= 4; d++ {
			addb(uint64(1)<<kbits + d)
			addb(uint64(1)<<kbits - d)
		}
		addb(uint64(1)<<kbits + 1024)
		addb(uint64(1)<<kbits + 2048)
	}
	for v := uint64(math.MaxUint64 - 2048); v != 0; v++ {
		addb(v)
	}
	for _, v := range []uint64{1<<40 - 1, 1 << 40, 1<<41 - 1, 1 << 41, 1<<41 + 1} {
		addb(math.MaxUint64 - v + 1) // 2^64 - v: the largest float32 below 2^64 is 2^64 - 2^40
		addb(math.MaxUint64 - v)
		addb(math.MaxUint64 - v + 2)
	}
	nb := 300
	if c.Thorough {
		nb = 20000
	}
	for _, v := range szSamples(c, 300, nb) {
		addb(v)
	}
	// random values with short odd parts (exactly representable floats) and their neighbours
	for i := 0; i < nb; i++ {
		bits := []uint{24, 53}[i%2]
		odd := c.R.Next()>>(64-bits) | 1
		sh := uint(c.R.Intn(int(64 - bits + 1)))
		addb(odd << sh)
		addb(odd<<sh + 1)
		addb((odd<<1 | 1) << (sh / 2))
	}
	for i, s := range bvals {
		for _, kd := range szBytesKinds {
			v, ok := kd.call(size.Size(s))
			want := s <= kd.max
			if kd.mant != 0 {
				want = s == 0 || szU(s).BitLen()-int(szU(s).TrailingZeroBits()) <= kd.mant
			}
			c.Check("")
			line := fmt.Sprintf("size.bytes %s %d", kd.kind, s)
			if ok != want || (ok && v.Cmp(szU(s)) != 0) {
				c.Fail("C08.bytes", line, "Bytes[%s](%d) = %v %v, want ok=%v", kd.kind, s, v, ok, want)
			}
			if kd.op && (c.Thorough || i%2 == 0 || s > 1<<62) {
				c.Op(line)
			}
		}
	}
	c.NT(int64(len(bvals) * len(szBytesKinds)))
	c.Note("C08: 18 units x boundary/power/random values, New over 18 numeric types, %d grammar texts x 2 rules, Bytes over %d values x %d types", nText, len(bvals), len(szBytesKinds))
}

// ---------------------------------------------------------------------------------------- C12

type szMember struct{ key, raw string }

// szDoc is the rule-independent analysis of one input, built on json.Valid and generic decoding.
type szDoc struct {
	valid   bool
	kind    byte // 'n' number, 's' string, 'o' object, 'a' array, 'l' true/false/null
	num     string
	str     string
	n       int      // members of the object
	nunk    int      // members that are neither value nor unit
	defects []string // defects of the object that do not depend on rule or limit
	aok     bool     // arithmetic result for the value-unit pair (only when defects is empty)
	aval    uint64
	aclass  string
}

func szLowerKey(k string) string {
	var sb strings.Builder
	for _, r := range k {
		sb.WriteRune(unicode.ToLower(r))
	}
	return sb.String()
}

func szAllDigits(s string) bool {
	if s == "" {
		return false
	}
	for i := 0; i < len(s); i++ {
		if s[i] < '0' || s[i] > '9' {
			return false
		}
	}
	return true
}

func szAnalyse(doc string) szDoc {
	if !json.Valid([]byte(doc)) {
		return szDoc{}
	}
	dec := json.NewDecoder(strings.NewReader(doc))
	dec.UseNumber()
	var g any
	if err := dec.Decode(&g); err != nil {
		return szDoc{}
	}
	switch x := g.(type) {
	case json.Number:
		return szDoc{valid: true, kind: 'n', num: string(x)}
	case string:
		return szDoc{valid: true, kind: 's', str: x}
	case []any:
		return szDoc{valid: true, kind: 'a'}
	case map[string]any:
	default:
		return szDoc{valid: true, kind: 'l'}
	}
	d := szDoc{valid: true, kind: 'o'}
	// ordered members with duplicates: top-level tokens and raw values
	d2 := json.NewDecoder(strings.NewReader(doc))
	d2.UseNumber()
	d2.Token()
	var nv, nu int
	var val *big.Int
	var unit string
	add := func(s string) { d.defects = append(d.defects, s) }
	for d2.More() {
		kt, _ := d2.Token()
		var raw json.RawMessage
		d2.Decode(&raw)
		d.n++
		var a any
		dd := json.NewDecoder(bytes.NewReader(raw))
		dd.UseNumber()
		dd.Decode(&a)
		switch szLowerKey(kt.(string)) {
		case "value":
			nv++
			if num, ok := a.(json.Number); !ok {
				add("invalidType")
			} else if !szAllDigits(string(num)) {
				add("numSyntax")
			} else if b, _ := new(big.Int).SetString(string(num), 10); b.Cmp(szTwo64) >= 0 {
				add("numRange")
			} else if nv == 1 {
				val = b
			}
		case "unit":
			nu++
			if s, ok := a.(string); !ok {
				add("invalidType")
			} else if nu == 1 {
				unit = s
			}
		default:
			d.nunk++
		}
	}
	if nv == 0 {
		add("missingValue")
	}
	if nu == 0 {
		add("missingUnit")
	}
	if nv > 1 {
		add("dupValue")
	}
	if nu > 1 {
		add("dupUnit")
	}
	if len(d.defects) == 0 {
		d.aok, d.aval, d.aclass = szArith(val, unit)
	}
	return d
}

type szExpect struct {
	ok      bool
	val     uint64
	classes []string // acceptable error classes; nil: any error
}

func szClassList(class string) []string {
	if class == "" {
		return nil
	}
	return []string{class}
}

// szExpectFor is the oracle of C12 for one input under one configuration.
func (d *szDoc) szExpectFor(doc string, ml, mk int, r size.Rule) szExpect {
	if ml != 0 && len(doc) > ml {
		return szExpect{classes: []string{"tooLong"}}
	}
	if r&(size.RuleEnableJSONStringForm|size.RuleEnableJSONObjectForm) == 0 {
		ok, val, class := szTextOracle(doc, r&size.RuleDisableUnit != 0)
		return szExpect{ok: ok, val: val, classes: szClassList(class)}
	}
	if !d.valid {
		return szExpect{}
	}
	switch d.kind {
	case 'n':
		if !szAllDigits(d.num) {
			return szExpect{}
		}
		b, _ := new(big.Int).SetString(d.num, 10)
		if b.Cmp(szTwo64) >= 0 {
			return szExpect{classes: []string{"numRange"}}
		}
		return szExpect{ok: true, val: b.Uint64()}
	case 's':
		if r&size.RuleEnableJSONStringForm == 0 {
			return szExpect{classes: []string{"stringDisabled"}}
		}
		ok, val, class := szTextOracle(d.str, false)
		return szExpect{ok: ok, val: val, classes: szClassList(class)}
	case 'a':
		return szExpect{classes: []string{"expectedObject"}}
	case 'l':
		return szExpect{classes: []string{"invalidType"}}
	}
	if r&size.RuleEnableJSONObjectForm == 0 {
		return szExpect{classes: []string{"objectDisabled"}}
	}
	defects := append([]string{}, d.defects...)
	if d.nunk > 0 && r&size.RuleDisallowUnknownKeys != 0 {
		defects = append(defects, "unexpectedKey")
	}
	if mk != 0 && d.n > mk {
		defects = append(defects, "tooBig")
	}
	if len(defects) > 0 {
		return szExpect{classes: defects}
	}
	return szExpect{ok: d.aok, val: d.aval, classes: szClassList(d.aclass)}
}

func szJudge12(got size.Size, err error, ex szExpect) string {
	switch {
	case ex.ok && err != nil:
		return fmt.Sprintf("rejected (%s: %v), want %d", sizeErrClass(err), err, ex.val)
	case ex.ok && uint64(got) != ex.val:
		return fmt.Sprintf("got %d, want %d", uint64(got), ex.val)
	case ex.ok:
		return ""
	case err == nil:
		return fmt.Sprintf("accepted as %d, want an error %v", uint64(got), ex.classes)
	case got != 0:
		return fmt.Sprintf("value %d next to error %v", uint64(got), err)
	}
	if typed, _ := sizePE(err); !typed {
		return fmt.Sprintf("error %T is not a *size.ParseError", err)
	}
	if ex.classes == nil {
		return ""
	}
	cls := sizeErrClass(err)
	for _, k := range ex.classes {
		if k == cls {
			return ""
		}
	}
	return fmt.Sprintf("error class %s (%v) is not in the defect set %v", cls, err, ex.classes)
}

func szBuildObj(ms []szMember, ws int) string {
	var sb strings.Builder
	sb.WriteString("{")
	for i, m := range ms {
		if i > 0 {
			sb.WriteString(",")
		}
		switch ws {
		case 1:
			sb.WriteString(" \n")
		case 2:
			sb.WriteString("\t\r ")
		}
		kb, _ := json.Marshal(m.key)
		sb.Write(kb)
		if ws == 2 {
			sb.WriteString(" ")
		}
		sb.WriteString(":")
		if ws != 0 {
			sb.WriteString("\t")
		}
		sb.WriteString(m.raw)
	}
	if ws == 2 {
		sb.WriteString("\n")
	}
	sb.WriteString("}")
	return sb.String()
}

func szPermutations(ms []szMember, f func([]szMember)) {
	var rec func(int)
	rec = func(k int) {
		if k == len(ms) {
			f(ms)
			return
		}
		for i := k; i < len(ms); i++ {
			ms[k], ms[i] = ms[i], ms[k]
			rec(k + 1)
			ms[k], ms[i] = ms[i], ms[k]
		}
	}
	rec(0)
}

// szRandJSON generates a well-formed JSON value of bounded depth; nested members called value and
// unit are included on purpose (they must be skipped without effect).
func szRandJSON(c *Ctx, depth int) string {
	scalars := []string{"1", "0", "-2.5e3", "1E+2", `"s"`, "true", "false", "null", `"value"`, `"unit"`, `""`, `"é\n"`, `"}"`, `"]"`, `"\""`, `"\\"`, "18446744073709551616", `"KiB"`, "0.0"}
	n := c.R.Intn(10)
	if depth <= 0 || n < 4 {
		return scalars[c.R.Intn(len(scalars))]
	}
	sp := []string{"", "", " ", "\n\t"}[c.R.Intn(4)]
	cnt := c.R.Intn(4)
	var parts []string
	if n < 7 {
		for i := 0; i < cnt; i++ {
			parts = append(parts, sp+szRandJSON(c, depth-1))
		}
		return "[" + strings.Join(parts, ",") + sp + "]"
	}
	keys := []string{"a", "value", "unit", "", "k\"q", "VALUE", "x y", "é"}
	for i := 0; i < cnt; i++ {
		kb, _ := json.Marshal(keys[c.R.Intn(len(keys))])
		parts = append(parts, sp+string(kb)+":"+sp+szRandJSON(c, depth-1))
	}
	return "{" + strings.Join(parts, ",") + sp + "}"
}

func propC12(c *Ctx) {
	mks := []int{0, 1, 2, 3, 16}
	seen := map[string]struct{}{}
	nDocs, nTok := int64(0), int64(0)
	tokSeen := map[string]struct{}{}
	tokens := func(doc string) {
		if _, dup := tokSeen[doc]; dup {
			return
		}
		tokSeen[doc] = struct{}{}
		nTok++
		c.Op("json.tokens " + hx([]byte(doc)))
	}
	// visit judges one input under all 16 rule sets x 5 limits and emits correspondence lines:
	// mode 0 none, 1 the default rule set, one random configuration and the token stream, 2 all 80.
	visit := func(doc string, mode int) {
		if _, dup := seen[doc]; dup {
			return
		}
		seen[doc] = struct{}{}
		nDocs++
		d := szAnalyse(doc)
		for r := size.Rule(0); r < 16; r++ {
			for _, mk := range mks {
				got, err := szParse(doc, 0, mk, r)
				c.Check("")
				if msg := szJudge12(got, err, d.szExpectFor(doc, 0, mk, r)); msg != "" {
					c.Fail("C12.parse", szParseLine(doc, 0, mk, r), "%q rule %d max %d: %s %s", doc, int(r), mk, msg, szCrossDetail())
				}
				if mode == 2 {
					c.Op(szParseLine(doc, 0, mk, r))
				}
			}
		}
		// the input limit comes first, whatever the input is
		for _, ml := range []int{len(doc) - 1, len(doc), 128} {
			if ml <= 0 {
				continue
			}
			r := size.Rule(c.R.Intn(16))
			got, err := szParse(doc, ml, 16, r)
			c.Check("")
			if msg := szJudge12(got, err, d.szExpectFor(doc, ml, 16, r)); msg != "" {
				c.Fail("C12.limit", szParseLine(doc, ml, 16, r), "%q rule %d input limit %d: %s", doc, int(r), ml, msg)
			}
			if mode == 2 || (mode == 1 && c.R.Intn(8) == 0) {
				c.Op(szParseLine(doc, ml, 16, r))
			}
		}
		if mode >= 1 {
			tokens(doc)
		}
		if mode == 1 {
			c.Op(szParseLine(doc, 0, 16, 6))
			c.Op(szParseLine(doc, 0, mks[c.R.Intn(5)], size.Rule(c.R.Intn(16))))
			// accepted inputs are the rarer case: give them more configurations, around their own member count too
			if d.szExpectFor(doc, 0, 16, 6).ok {
				c.Op(szParseLine(doc, 0, 0, 14))
				c.Op(szParseLine(doc, 0, d.n, size.Rule(4+c.R.Intn(4))))
				if d.n > 1 {
					c.Op(szParseLine(doc, 0, d.n-1, 6))
				}
				c.Op(szParseLine(doc, len(doc), 16, size.Rule(2+2*c.R.Intn(3))))
			}
		}
	}
	pick := func(every int) int {
		if c.R.Intn(every) == 0 {
			return 2
		}
		return 1
	}

	// ---- scalars: numbers, strings with escapes, literals, arrays
	scalars := []string{`0`, `1`, `7`, `10`, `123`, `1024`, `18446744073709551615`, `18446744073709551616`, `99999999999999999999999`, `-0`, `-1`, `1.0`, `1.5`, `0.0`, `1e3`, `1E3`, `1e+3`, `1e-3`, `0e0`, `-1e3`,
		`01`, `00`, `1.`, `.5`, `1e`, `+1`, `0x10`, `1_000`, `1 000`, ` 5 `, "\t12\n", "\r\n 0 \r\n", `true`, `false`, `null`, `[]`, `[1]`, `[{"value":1,"unit":"B"}]`, `{}`, ` { } `, `""`, `" "`, `"x"`, `"0"`, `"12"`, `"12 KiB"`, `"1 000"`, `"1_000_000 B"`,
		`"16EiB"`, `"15 EiB"`, `"0 ZB"`, `"1 ZB"`, `"1 kb"`, `"  7  "`, `"7 B  "`, `"10 KiB"`, `"1 000"`, `"1 000 kB"`, "\"1 000 kB\"", `"12"`, `"12 KiB"`, `"1\t0"`, `"1\n"`, `"1\/2"`, `"KiB"`,
		`"1 KiB"`, `"😀"`, `"1\ud800"`, `"5 \"B\""`, `"5\\"`, `"_1"`, `" 1"`, `"-1"`, `"1.0"`, `"1e3"`, `"18446744073709551615"`, `"18446744073709551616"`, `"18446744073709551615B"`, `"18014398509481984KiB"`,
		`"18014398509481983 KiB"`, "\"\xff\"", "\"1\xc2\"", "\"1\xa0\"", `"😀"`, `"1` + "\x00" + `"`, `"1\x"`, `"1\u00g0"`, `'1'`, `"1`, `1"`, `{"value":10,"unit":"KiB"}`, `{"unit":"B","x":[1,{"a":null}],"value":7}`}
	garbage := []string{" ", "x", "}", "]", ",", ":", " 1", "1", "{}", `""`, "\n\n", "\x00", "//c", "[", "{", "\"", "null", "\xff", "\t"}
	for _, b := range scalars {
		visit(b, 2)
		for i := 0; i < len(b); i++ {
			visit(b[:i], 1)
		}
		for _, g := range garbage {
			visit(b+g, 1)
			visit(g+b, 1)
		}
	}

	// ---- objects: value x unit x unknown members in every order
	valueMembers := []szMember{{"value", "10"}, {"VALUE", "0"}, {"Value", "18446744073709551615"}, {"vAlUe", "1024"}, {"value", "18014398509481984"}, {"value", `"10"`}, {"value", "1.5"}, {"value", "-1"}, {"value", "1e2"},
		{"value", "null"}, {"value", "18446744073709551616"}, {"value", "[1]"}, {"value", "true"}, {"value", `{"value":1}`}, {"value", "1.0"}, {"value", "-0"}, {"VALUE", "1"}}
	unitMembers := []szMember{{"unit", `"KiB"`}, {"UNIT", `"B"`}, {"Unit", `""`}, {"unit", `"kB"`}, {"unit", `5`}, {"unit", `"ZB"`}, {"unit", `null`}, {"unit", `"MB"`}, {"unİt", `"B"`}, {"unit", `{"a":1}`},
		{"unit", `"EiB"`}, {"unit", `"kib"`}, {"unit", `"KiB"`}, {"unit", `["B"]`}, {"uNiT", `"YiB"`}, {"unit", `" KiB"`}, {"unit", `false`}, {"UNİT", `"KiB"`}}
	unknown := []szMember{{"x", "1"}, {"y", `{"value":5,"unit":["B",{"q":[[]]}]}`}, {"", `[1,[2,[3,[4]]]]`}, {"valu", `true`}, {"units", `"x"`}, {"z", `"}"`}, {"n", "null"}, {"vaİue", "1"}, {"unıt", `"B"`},
		{"o", `{"a":{"b":{"c":{"d":[]}}}}`}, {"e", "1e-2"}, {"s", `"😀\n"`}, {" value", "3"}, {"value ", "3"}, {"Kib", "1"}, {"a", `[{"unit":"KiB"},{"value":1}]`}, {"b", `[[],{},[{}],"]"]`}}
	permSet := func(ms []szMember, every int) {
		type out struct {
			ok  bool
			val uint64
		}
		first := map[[2]int]out{}
		base := ""
		ws := 0
		if c.R.Intn(4) == 0 {
			ws = 1 + c.R.Intn(2)
		}
		szPermutations(ms, func(p []szMember) {
			doc := szBuildObj(p, ws)
			visit(doc, pick(every))
			// the outcome never depends on the member order
			for _, r := range []size.Rule{6, 14, 4} {
				for _, mk := range []int{0, 2, 16} {
					got, err := szParse(doc, 0, mk, r)
					o := out{err == nil, uint64(got)}
					c.Check("")
					if f, have := first[[2]int{int(r), mk}]; !have {
						first[[2]int{int(r), mk}] = o
						base = doc
					} else if f != o {
						c.Fail("C12.order", szParseLine(doc, 0, mk, r), "%q -> %v, but %q -> %v", doc, o, base, f)
					}
				}
			}
		})
	}
	for vi, vm := range valueMembers {
		for ui, um := range unitMembers {
			for nu := 0; nu <= 3; nu++ {
				if nu == 2 && !c.Thorough && (vi+ui+int(c.Seed))%4 != 0 {
					continue
				}
				if nu == 3 && (!c.Thorough || (vi+ui+int(c.Seed))%9 != 0) {
					continue
				}
				ms := []szMember{vm, um}
				for k := 0; k < nu; k++ {
					if c.R.Intn(5) == 0 {
						ms = append(ms, szMember{[]string{"r", "value2", "Unit_", "é"}[c.R.Intn(4)], szRandJSON(c, 4)})
					} else {
						ms = append(ms, unknown[c.R.Intn(len(unknown))])
					}
				}
				permSet(ms, 60)
			}
		}
	}
	// ---- missing and duplicated members, type confusions between the two
	v0, v1, u0, u1 := valueMembers[0], valueMembers[1], unitMembers[0], unitMembers[1]
	for _, ms := range [][]szMember{{v0}, {u0}, {v0, v1, u0}, {v0, u0, u1}, {v0, v0, u0}, {v0, u0, u0}, {v0, v1, u0, u1}, {}, {unknown[0]}, {unknown[0], unknown[1], unknown[2], unknown[3]},
		{v0, u0, unknown[0], unknown[1], unknown[2]}, {v0, unknown[0]}, {u0, unknown[1]}, {v0, v1}, {u0, u1}, {v0, valueMembers[5], u0}, {v0, u0, unitMembers[4]}, {valueMembers[5], v0, u0}, {unitMembers[4], u0, v0},
		{{"value", `"KiB"`}, {"unit", "10"}}, {{"value", "10"}, {"unit", "10"}}, {{"value", `"10"`}, {"unit", `"KiB"`}}, {v0, u0, {"unit", "null"}}, {v0, u0, {"value", "null"}}, {v0, unitMembers[8], u0}, {v0, unitMembers[8], unknown[8]},
		{v0, u0, unknown[0], unknown[0]}, {v0, u0, {"x", "1"}, {"X", "2"}, {"x", "3"}}} {
		permSet(ms, 6)
	}
	// ---- key-case variants
	caseVariants := func(w string) []string {
		var out []string
		for m := 0; m < 1<<len(w); m++ {
			b := []byte(w)
			for i := range b {
				if m>>i&1 != 0 {
					b[i] -= 32
				}
			}
			out = append(out, string(b))
		}
		return out
	}
	for i, vk := range caseVariants("value") {
		uk := caseVariants("unit")[i%16]
		visit(szBuildObj([]szMember{{vk, "3"}, {uk, `"MiB"`}}, 0), 1)
		visit(szBuildObj([]szMember{{uk, `"MiB"`}, {vk, "3"}, {"value", "4"}}, 0), 1)
	}
	for _, k := range []string{"unİt", "UNİT", "unıt", "unİt", "uni̇t", "ｕnit", "vаlue", "valuЕ", "unİT", "İ", "unit\u0000", "value�"} {
		visit(szBuildObj([]szMember{{"value", "2"}, {k, `"KiB"`}}, 0), 2)
		visit(szBuildObj([]szMember{{"value", "2"}, {k, `"KiB"`}, {"unit", `"B"`}}, 0), 2)
		visit(szBuildObj([]szMember{{k, "5"}, {"unit", `"B"`}}, 0), 1)
	}
	// ---- member counts around the limit
	for _, n := range []int{0, 1, 2, 3, 4, 5, 15, 16, 17, 18, 19} {
		for variant := 0; variant < 8; variant++ {
			var ms []szMember
			for i := 0; i < n; i++ {
				ms = append(ms, szMember{fmt.Sprintf("k%d", i), []string{"1", `"s"`, "[]", `{"value":1}`}[i%4]})
			}
			place := func(m szMember, where int) {
				if len(ms) == 0 {
					return
				}
				pos := []int{0, len(ms) / 2, len(ms) - 1}[where]
				ms[pos] = m
			}
			switch variant {
			case 0:
				place(v0, 0)
				if n > 1 {
					place(u0, 2)
				}
			case 1:
				place(u0, 0)
				if n > 1 {
					place(v0, 2)
				}
			case 2:
				if n > 2 {
					place(v0, 1)
					place(u0, 2)
				} else {
					continue
				}
			case 3:
				place(v0, 2) // unit missing
			case 4:
				place(u0, 0) // value missing
			case 5: // only unknown members
			case 6:
				if n > 2 {
					place(v0, 0)
					place(u0, 1)
					place(v1, 2) // duplicate at the very end
				} else {
					continue
				}
			case 7:
				if n > 1 {
					place(valueMembers[5], 2) // wrongly typed value at the very end
					place(u0, 0)
				} else {
					continue
				}
			}
			visit(szBuildObj(ms, 0), 2)
		}
	}
	// ---- generated well-formed documents, their truncations, trailing bytes and single-byte mutations
	nGen := 150
	if c.Thorough {
		nGen = 2500
	}
	var pool []string
	const mutA, mutB = "{}[],:\"\\ 019.eE-+tfnu\x00\xff", "{}[],:\"\\ 0"
	for i := 0; i < nGen; i++ {
		var doc string
		switch c.R.Intn(3) {
		case 0:
			doc = szRandJSON(c, 4)
		default:
			ms := []szMember{valueMembers[c.R.Intn(len(valueMembers))], unitMembers[c.R.Intn(len(unitMembers))]}
			for k := c.R.Intn(4); k > 0; k-- {
				ms = append(ms, szMember{[]string{"r", "q", "value2", "é"}[c.R.Intn(4)], szRandJSON(c, 4)})
			}
			for j := len(ms) - 1; j > 0; j-- {
				k := c.R.Intn(j + 1)
				ms[j], ms[k] = ms[k], ms[j]
			}
			doc = szBuildObj(ms, c.R.Intn(3))
		}
		pool = append(pool, doc)
		visit(doc, 1)
	}
	for i, doc := range pool {
		if len(doc) > 160 {
			continue
		}
		for t := 0; t < len(doc); t++ {
			visit(doc[:t], 1)
		}
		for _, g := range garbage {
			visit(doc+g, 1)
		}
		muts := 24
		if i%10 == 0 {
			muts = 240
		}
		if c.Thorough {
			muts *= 2
		}
		for m := 0; m < muts; m++ {
			mut := []byte(doc)
			pos := c.R.Intn(len(mut))
			switch c.R.Intn(4) {
			case 0:
				mut[pos] = byte(c.R.Next())
			case 1:
				mut[pos] = mutA[c.R.Intn(len(mutA))]
			case 2:
				mut = append(mut[:pos], mut[pos+1:]...)
			default:
				mut = append(mut[:pos], append([]byte{mutB[c.R.Intn(len(mutB))]}, mut[pos:]...)...)
			}
			visit(string(mut), 1)
		}
	}
	for _, base := range []string{`{"value":10,"unit":"KiB"}`, `{"a":[1,"b\n"],"Value":1,"UNIT":"B"}`, ` "12 kB" `} {
		for pos := 0; pos < len(base); pos++ {
			for b := 0; b < 256; b++ {
				mut := []byte(base)
				mut[pos] = byte(b)
				if c.Thorough || b%6 == int(c.Seed%6) || b < 0x30 || (b >= 0x5b && b <= 0x5d) || b >= 0x7b && b <= 0x7f {
					visit(string(mut), 1)
				} else {
					visit(string(mut), 0)
				}
			}
		}
	}

	// ---- the tokenizer itself: escapes, surrogates, invalid UTF-8, token soup
	strDoc := func(body string) {
		for _, doc := range []string{`"` + body + `"`, `{"` + body + `":1,"value":1,"unit":"B"}`} {
			tokens(doc)
			visit(doc, 0)
			c.Op(szParseLine(doc, 0, 16, 6))
		}
	}
	for x := 0; x < 256; x++ {
		strDoc("\\" + string([]byte{byte(x)}))
		strDoc(string([]byte{byte(x)}))
		strDoc("a\\" + string([]byte{byte(x)}) + "b")
		tokens(string([]byte{byte(x)}))
		tokens("[" + string([]byte{byte(x)}) + "]")
		tokens("[1" + string([]byte{byte(x)}) + "2]")
		tokens(`{"a"` + string([]byte{byte(x)}) + `1}`)
		tokens("1" + string([]byte{byte(x)}))
		tokens("-" + string([]byte{byte(x)}))
		tokens("1." + string([]byte{byte(x)}))
		tokens("1e" + string([]byte{byte(x)}))
		tokens("tru" + string([]byte{byte(x)}))
		tokens("nul" + string([]byte{byte(x)}) + "l")
	}
	hex4 := []string{"0000", "0009", "0022", "005c", "005C", "002f", "007f", "0080", "00a0", "00A0", "00e9", "0130", "07ff", "0800", "d7ff", "D7FF", "d800", "D800", "dbff", "dc00", "DC00", "dfff", "e000", "fffd", "FFFF", "d83d", "de00", "0031"}
	for _, a := range hex4 {
		strDoc(`\u` + a)
		strDoc(`x\u` + a + `y`)
		for _, b := range hex4 {
			if c.Thorough || c.R.Intn(3) == 0 || a[0] == 'd' || a[0] == 'D' {
				strDoc(`\u` + a + `\u` + b)
			}
		}
		for _, tail := range []string{`\n`, `\`, `\u`, `\u12`, `\ud`, `\udc0`, `\udc0g`, `\x`, "\xff", "é", " "} {
			tokens(`"\u` + a + tail + `"`)
			tokens(`"\u` + a + tail)
		}
		for cut := 0; cut < 4; cut++ {
			tokens(`"\u` + a[:cut])
			tokens(`"\u` + a[:cut] + `"`)
			tokens(`"\u` + a[:cut] + `g"`)
		}
	}
	ib := []byte{0x00, 0x1f, 0x20, 0x22, 0x5c, 0x7f, 0x80, 0x8f, 0x90, 0x9f, 0xa0, 0xbf, 0xc0, 0xc1, 0xc2, 0xdf, 0xe0, 0xe1, 0xed, 0xee, 0xef, 0xf0, 0xf1, 0xf4, 0xf5, 0xff, 0x41}
	for _, b1 := range ib {
		for _, b2 := range ib {
			strDoc(string([]byte{b1, b2}))
			for _, b3 := range ib {
				if c.Thorough || c.R.Intn(12) == 0 {
					tokens(`"` + string([]byte{b1, b2, b3}) + `"`)
					if b1 >= 0xf0 {
						for _, b4 := range []byte{0x80, 0xbf, 0x41, 0xc0} {
							tokens(`"` + string([]byte{b1, b2, b3, b4}) + `x"`)
						}
					}
				}
			}
		}
	}
	pieces := []string{"{", "}", "[", "]", ",", ":", `"a"`, `"value"`, "1", "-1.5e3", "0", "true", "false", "null", " ", "\n", "\t", "\r", `"é"`, "tru", `"abc`, "01", ".5", "\\", "'", "-", "1e", "1.", `"😀"`,
		`"\ud800"`, "nul", "\x00", "\xff", "+1", "e", "E5", "//", "{}", "[]", `{"a":`, `[1,`, `""`, "\x0c", "\v", "\xc2\xa0", "\xef\xbb\xbf"}
	soup := 6000
	if c.Thorough {
		soup = 80000
	}
	for i := 0; i < soup; i++ {
		var sb strings.Builder
		for k := 1 + c.R.Intn(9); k > 0; k-- {
			// bias towards structure so that deep states are reached
			if c.R.Intn(3) == 0 {
				sb.WriteString(pieces[c.R.Intn(14)])
			} else {
				sb.WriteString(pieces[c.R.Intn(len(pieces))])
			}
		}
		doc := sb.String()
		tokens(doc)
		if i%4 == 0 {
			visit(doc, 0)
			c.Op(szParseLine(doc, 0, 16, size.Rule(2+c.R.Intn(14))))
		}
	}
	// unit members that are aliases or near misses of the valid names
	for ai, u := range szAliasUnits() {
		ub, _ := json.Marshal(u)
		visit(`{"value":2,"unit":`+string(ub)+`}`, 1)
		if ai%2 == 0 {
			visit(`{"unit":`+string(ub)+`,"x":[],"VALUE":0}`, 1)
		}
	}
	// deep nesting and long inputs: skipped unknown members of every depth 1..64, then sparse up to 5000
	// (arrays, objects, alternating), before / between / after the known members
	var depths []int
	for d := 1; d <= 64; d++ {
		depths = append(depths, d)
	}
	depths = append(depths, 100, 127, 128, 129, 200, 255, 256, 257, 300, 511, 512, 513, 1000, 1023, 1024, 1025, 2000, 4096, 5000)
	for di, depth := range depths {
		open, closeB := strings.Repeat("[", depth), strings.Repeat("]", depth)
		oopen, oclose := strings.Repeat(`{"a":`, depth), strings.Repeat("}", depth)
		var mo, mc strings.Builder // alternating [ {"k": [ {"k": ...
		for i := 0; i < depth; i++ {
			if i%2 == 0 {
				mo.WriteString("[")
			} else {
				mo.WriteString(`{"k":`)
			}
		}
		for i := depth - 1; i >= 0; i-- {
			if i%2 == 0 {
				mc.WriteString("]")
			} else {
				mc.WriteString("}")
			}
		}
		mode, side := 1, 1
		if depth <= 8 || depth == 40 || depth == 64 || depth == 200 || depth == 256 || depth == 257 {
			mode = 2
		}
		if depth > 600 {
			// the model's decoder is quadratic in the depth: judge these on the implementation only and
			// send one line each to the model
			mode, side = 0, 0
			c.Op(szParseLine(`{"x":`+open+closeB+`,"value":3,"unit":"kB"}`, 0, 16, 6))
		}
		if depth <= 300 || depth == 1000 {
			tokens(open + closeB)
			tokens(open + "1" + closeB)
			tokens(open + closeB[1:])
			tokens(oopen + "1" + oclose)
		}
		doc := `{"x":` + open + `{"value":1,"unit":"B"}` + closeB + `,"value":3,"unit":"kB"}`
		visit(doc, mode)
		visit(`{"x":`+open+closeB[1:]+`,"value":3,"unit":"kB"}`, side)
		switch di % 3 {
		case 0:
			visit(`{"value":3,"o":`+oopen+`{"value":1,"unit":"B"}`+oclose+`,"unit":"kB"}`, side)
			visit(`{"value":3,"unit":"kB","m":`+mo.String()+`null`+mc.String()+`}`, side)
		case 1:
			visit(`{"value":3,"unit":"kB","o":`+oopen+`[]`+oclose+`}`, side)
			visit(`{"m":`+mo.String()+`"unit"`+mc.String()+`,"value":3,"unit":"kB"}`, side)
		default:
			visit(`{"o":`+oopen+`"value"`+oclose+`,"value":3,"unit":"kB"}`, side)
			visit(`{"value":3,"m":`+mo.String()+`{"value":7,"unit":"EiB"}`+mc.String()+`,"unit":"kB"}`, side)
		}
		if depth > 64 {
			visit(`{"value":3,"unit":"kB","o":`+oopen+`1`+oclose[1:]+`}`, side)
		}
	}
	// ---- wide objects: many members (a hard cap hidden behind MaxObjectKeys would show here), value / unit first, in the
	// middle, last; limits 0, n-1, n, n+1, 1000, 5000
	nWide := int64(0)
	for wi, n := range []int{20, 33, 64, 65, 100, 128, 255, 256, 257, 500, 1000, 1024, 1025, 3000} {
		for variant := 0; variant < 4; variant++ {
			ms := make([]szMember, 0, n)
			for i := 0; i < n; i++ {
				ms = append(ms, szMember{fmt.Sprintf("k%d", i), []string{"1", `"s"`, "[]", `{"value":1}`, "null"}[i%5]})
			}
			vp, up := [][2]int{{0, n - 1}, {n - 1, 0}, {n / 2, n/2 + 1}, {n - 2, n - 1}}[variant][0], [][2]int{{0, n - 1}, {n - 1, 0}, {n / 2, n/2 + 1}, {n - 2, n - 1}}[variant][1]
			ms[vp] = szMember{[]string{"value", "VALUE"}[variant%2], "3"}
			ms[up] = szMember{"unit", `"KiB"`}
			if variant == 3 {
				ms[0] = szMember{"Unit", `"B"`} // a duplicate far away from its twin
			}
			doc := szBuildObj(ms, 0)
			d := szAnalyse(doc)
			for _, mk := range []int{0, n - 1, n, n + 1, 1000, 5000} {
				for _, r := range []size.Rule{4, 6, 12} {
					got, err := szParse(doc, 0, mk, r)
					c.Check("")
					nWide++
					line := fmt.Sprintf("size.parse 0 %d %d <object with %d members, variant %d>", mk, int(r), n, variant)
					if n <= 300 {
						line = szParseLine(doc, 0, mk, r)
					}
					if msg := szJudge12(got, err, d.szExpectFor(doc, 0, mk, r)); msg != "" {
						c.Fail("C12.wide", line, "object with %d members (value at %d, unit at %d), rule %d, MaxObjectKeys %d: %s %s", n, vp, up, int(r), mk, msg, szCrossDetail())
					}
					if n <= 300 && (variant+wi+mk)%3 == 0 {
						c.Op(line)
					}
				}
			}
		}
	}
	// an unknown member that is wide itself (skipped arrays / objects with many elements, long keys and strings)
	for _, n := range []int{100, 1000, 20000} {
		elems := strings.Repeat("1,", n) + "2"
		longKey := strings.Repeat("k", n)
		for _, doc := range []string{`{"x":[` + elems + `],"value":3,"unit":"kB"}`, `{"value":3,"x":{"a":[` + elems + `],"b":"` + longKey + `"},"unit":"kB"}`, `{"` + longKey + `":1,"value":3,"unit":"kB"}`,
			`{"value":3,"unit":"kB","s":"` + longKey + `"}`, `"` + strings.Repeat(" ", n) + `3 kB"`} {
			d := szAnalyse(doc)
			for _, r := range []size.Rule{6, 14} {
				got, err := szParse(doc, 0, 16, r)
				c.Check("")
				nWide++
				if msg := szJudge12(got, err, d.szExpectFor(doc, 0, 16, r)); msg != "" {
					c.Fail("C12.wide", fmt.Sprintf("size.parse 0 16 %d <%d-element unknown member / long key or string>", int(r), n), "%.60s...: rule %d: %s", doc, int(r), msg)
				}
			}
			if n <= 100 {
				c.Op(szParseLine(doc, 0, 16, 6))
			}
		}
	}
	// ---- escaped spellings: any JSON writer may escape any character. Member names and unit / string-form texts with
	// \uXXXX (both hex cases), \/, escaped quotes and backslashes, surrogate pairs; the reference is encoding/json's own decoding
	esc := func(t string, mode int) string { // JSON string literal of t with some / all characters escaped
		var sb strings.Builder
		sb.WriteByte('"')
		for i, r := range t {
			switch {
			case r == '"' || r == '\\':
				sb.WriteByte('\\')
				sb.WriteRune(r)
			case r == '/' && mode != 3:
				sb.WriteString(`\/`)
			case r > 0xffff && mode != 3:
				r -= 0x10000
				fmt.Fprintf(&sb, `\u%04x\u%04X`, 0xd800+(r>>10), 0xdc00+(r&0x3ff))
			case r < 0x20 || mode == 0 || mode == 1 && i == 0 || mode == 2 && i == len(t)-1:
				if (i+mode)%2 == 0 {
					fmt.Fprintf(&sb, `\u%04x`, r)
				} else {
					fmt.Fprintf(&sb, `\u%04X`, r)
				}
			default:
				sb.WriteRune(r)
			}
		}
		sb.WriteByte('"')
		return sb.String()
	}
	nEsc := 0
	for ui, u := range append(append([]string{}, szUnits18...), "kb", "Ki", "KiB ", "MB/s", "K\"iB", "Ki\\B", "😀B", "k\u00a0B", "B\n", "bytes") {
		for mode := 0; mode < 4; mode++ {
			nEsc++
			docs := []string{`{"value":3,"unit":` + esc(u, mode) + `}`, `{` + esc("unit", mode) + `:` + esc(u, (mode+1)%4) + `,` + esc("value", mode) + `:0}`,
				`{` + esc("VALUE", mode) + `:7,` + esc("Unit", 3-mode) + `:` + esc(u, mode) + `,` + esc("x/😀", mode) + `:` + esc("unit", mode) + `}`, esc("12 "+u, mode), esc("1 000"+u, (mode+2)%4)}
			for di, doc := range docs {
				m := 0
				if (ui+mode+di)%3 == 0 {
					m = 1
				}
				visit(doc, m)
			}
		}
	}
	for mode := 0; mode < 3; mode++ { // escaped spellings of names that only look like value / unit
		for _, k := range []string{"valu", "value ", "units", "v\u0430lue", "unit\x00", "un/it"} {
			visit(`{"value":2,`+esc(k, mode)+`:"KiB","unit":"B"}`, 1)
			visit(`{`+esc(k, mode)+`:5,"unit":"B"}`, 0)
		}
	}
	c.NT(nDocs*80 + nWide)
	c.Note("C12 judged %d distinct inputs x 80 configurations; %d token-stream lines; %d wide-object evaluations; %d escaped spellings of units", nDocs, nTok, nWide, nEsc)
}
