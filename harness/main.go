package main

import (
	"bufio"
	"fmt"
	"os"
	"runtime/debug"
	"strconv"
	"strings"
)

var props = map[string]func(*Ctx){}

func main() {
	if len(os.Args) >= 2 && os.Args[1] == "exec" {
		c := &Ctx{Dist: map[string]int64{}, FailCounts: map[string]int64{}, distinct: map[string]struct{}{}, R: &Rng{}}
		sc := bufio.NewScanner(os.Stdin)
		sc.Buffer(make([]byte, 1<<20), 1<<26)
		w := bufio.NewWriter(os.Stdout)
		defer w.Flush()
		for sc.Scan() {
			w.WriteString(execOp(c, sc.Text()))
			w.WriteByte('\n')
		}
		return
	}
	if len(os.Args) != 6 || os.Args[1] != "run" {
		fmt.Fprintln(os.Stderr, "usage: harness run <prop> <quick|thorough> <seed> <outdir> | harness exec")
		os.Exit(2)
	}
	prop, tier, outdir := os.Args[2], os.Args[3], os.Args[5]
	seed, _ := strconv.ParseUint(os.Args[4], 10, 64)
	f, ok := props[prop]
	if !ok {
		fmt.Fprintln(os.Stderr, "unknown property", prop)
		os.Exit(2)
	}
	c := NewCtx(prop, tier, seed, outdir)
	func() {
		// a panic that escapes the library into a direct oracle is a finding, not a reason to lose the run
		defer func() {
			if r := recover(); r != nil {
				if _, ok := r.(stopEarly); ok {
					c.Note("stopped generating after %d oracle failures: the property is decided", c.failTotal)
					return
				}
				st := string(debug.Stack())
				if i := strings.Index(st, "go.lstv.dev/util/"); i >= 0 {
					st = st[i:]
				}
				if len(st) > 700 {
					st = st[:700]
				}
				c.Fail(prop+".oracle.panic", "", "panic while a direct oracle was calling the library: %v; at %s", r, st)
			}
		}()
		c.mainG = goid()
		f(c)
	}()
	c.Finish(outdir)
}
