package main

func testRun(f []string) string { return "bad-op" }
