package main

func testRun(f []string) string             { return "bad-op" }
func histRun(c *Ctx, line string, f []string) string { return "bad-op" }
