package main

// Properties of package sem: C03 (grammar and round trip), C06 (SemVer §11 precedence),
// C14 (coherence of the order, latest, string helpers, next).
//
// Every top-level identifier of this file starts with sv (sibling property files share package main).

import (
	"errors"
	"fmt"
	"math/big"
	"runtime"
	"runtime/debug"
	"strconv"
	"strings"
	"sync"

	"go.lstv.dev/util/sem"
)

func init() {
	props["C03"] = propC03
	props["C06"] = propC06
	props["C14"] = propC14
}

// ------------------------------------------------------------------------- independent recogniser

func svDigit(b byte) bool     { return b >= '0' && b <= '9' }
func svLetter(b byte) bool    { return b >= 'a' && b <= 'z' || b >= 'A' && b <= 'Z' }
func svIdentByte(b byte) bool { return svDigit(b) || svLetter(b) || b == '-' }
func svAllDigits(s string) bool {
	for i := 0; i < len(s); i++ {
		if !svDigit(s[i]) {
			return false
		}
	}
	return true
}

// svNum scans <numeric identifier> ("0" or a digit run without leading zero) at s[i:]; end index or -1.
func svNum(s string, i int) int {
	j := i
	for j < len(s) && svDigit(s[j]) {
		j++
	}
	if j == i || (s[i] == '0' && j-i > 1) {
		return -1
	}
	return j
}

// svIdents scans <dot-separated identifiers> at s[i:]; pre selects the pre-release flavour (numeric
// identifiers without leading zeros). It returns the index of the first byte that is neither an
// identifier character nor a separating dot, or -1 when an identifier is empty or ill-formed.
func svIdents(s string, i int, pre bool) int {
	for {
		j := i
		for j < len(s) && svIdentByte(s[j]) {
			j++
		}
		if j == i {
			return -1
		}
		if pre && s[i] == '0' && j-i > 1 && svAllDigits(s[i:j]) {
			return -1
		}
		if j < len(s) && s[j] == '.' {
			i = j + 1
			continue
		}
		return j
	}
}

type svParts struct{ M, m, p, pre, build string }

// svBNF recognises <valid semver> of SemVer 2.0.0 (no leading v) and returns its five texts.
func svBNF(s string) (svParts, bool) {
	var r svParts
	a := svNum(s, 0)
	if a < 0 || a >= len(s) || s[a] != '.' {
		return r, false
	}
	b := svNum(s, a+1)
	if b < 0 || b >= len(s) || s[b] != '.' {
		return r, false
	}
	e := svNum(s, b+1)
	if e < 0 {
		return r, false
	}
	r.M, r.m, r.p = s[:a], s[a+1:b], s[b+1:e]
	i := e
	if i < len(s) && s[i] == '-' {
		j := svIdents(s, i+1, true)
		if j < 0 {
			return r, false
		}
		r.pre = s[i+1 : j]
		i = j
	}
	if i < len(s) && s[i] == '+' {
		j := svIdents(s, i+1, false)
		if j < 0 {
			return r, false
		}
		r.build = s[i+1 : j]
		i = j
	}
	return r, i == len(s)
}

func svPreOK(s string) bool   { return s != "" && svIdents(s, 0, true) == len(s) }
func svBuildOK(s string) bool { return s != "" && svIdents(s, 0, false) == len(s) }

var svMax64 = new(big.Int).SetUint64(^uint64(0))

// svFits: the decimal text (no leading zeros) is at most 2^64-1.
func svFits(num string) bool {
	if len(num) < 19 {
		return true
	}
	n, ok := new(big.Int).SetString(num, 10)
	return ok && n.Cmp(svMax64) <= 0
}

type svEntry struct {
	name     string // protocol name
	tag, ver bool   // accepts the v form / the plain form
}

// svRuleValues: rule values for sem.DefaultParser beyond 0 and RuleDisableTag (unknown extra bits, all ones, negative)
var svRuleValues = extValues(2)

var svEntries = []svEntry{{"Parse", true, true}, {"ParseVersion", false, true}, {"ParseTag", true, false}, {"Default", true, true}, {"DefaultNoTag", false, true}}

func svCall[T ~string | ~[]byte](ei int, in T) (sem.Ver, error) {
	switch ei {
	case 0:
		return sem.Parse(in)
	case 1:
		return sem.ParseVersion(in)
	case 2:
		return sem.ParseTag(in)
	case 3:
		return sem.DefaultParser(in, 0)
	}
	return sem.DefaultParser(in, sem.RuleDisableTag)
}

// svExpect is the expected outcome class of entry e on s under input limit ml ("ok" or an error class
// named as in the protocol), with the recognised parts when ok.
func svExpect(e *svEntry, ml int, s string) (string, svParts) {
	if len(s) == 0 {
		return "invalid", svParts{}
	}
	if ml != 0 && len(s) > ml {
		return "tooLong", svParts{}
	}
	body := s
	if s[0] == 'v' {
		if !e.tag {
			return "tagNotAllowed", svParts{}
		}
		body = s[1:]
	} else if !e.ver {
		return "expectedTag", svParts{}
	}
	p, ok := svBNF(body)
	switch {
	case !ok:
		return "invalid", svParts{}
	case !svFits(p.M):
		return "invalidMajor", svParts{}
	case !svFits(p.m):
		return "invalidMinor", svParts{}
	case !svFits(p.p):
		return "invalidPatch", svParts{}
	}
	return "ok", p
}

// svErrClass classifies a parser error; typed reports that it is the package's *ParseError.
func svErrClass(err error) (class string, typed bool) {
	var inner error
	switch e := err.(type) {
	case *sem.ParseError[string]:
		inner = e.Err
	case *sem.ParseError[[]byte]:
		inner = e.Err
	default:
		return "untyped", false
	}
	switch inner {
	case nil:
		return "invalid", true
	case sem.ErrTagFormNotAllowed:
		return "tagNotAllowed", true
	case sem.ErrExpectedTagForm:
		return "expectedTag", true
	case sem.ErrInvalidMajor:
		return "invalidMajor", true
	case sem.ErrInvalidMinor:
		return "invalidMinor", true
	case sem.ErrInvalidPatch:
		return "invalidPatch", true
	}
	if errors.Is(inner, sem.ErrInputTooLong) {
		return "tooLong", true
	}
	return "other:" + inner.Error(), true
}

// svAcc lets oracle code run on several goroutines: failures go through one mutex, evaluation
// counts are kept locally and added to the Ctx by the sequential caller (svCount).
type svAcc struct {
	c     *Ctx
	mu    *sync.Mutex
	evals int64
}

func (a *svAcc) fail(key, input, format string, args ...any) {
	if stopped() {
		return
	}
	a.mu.Lock()
	a.c.Fail(key, input, format, args...)
	a.mu.Unlock()
}

// svCount books n oracle evaluations that enumerated n distinct cases (c.Check("") n times + c.NT(n)).
func svCount(c *Ctx, n int64) {
	c.Evals += n
	c.NT(n)
}

// svTuneGC: the parallel sweeps allocate small short-lived objects on every core (regexp captures,
// error values); with the default GOGC the tiny live heap makes the collector run hundreds of times.
func svTuneGC() func() {
	old := debug.SetGCPercent(1600)
	return func() { debug.SetGCPercent(old) }
}

func svSetMax(n int) func() {
	old := sem.MaxInputLength
	sem.MaxInputLength = n
	return func() { sem.MaxInputLength = old }
}

// svText is the harness's own rendering of a version value.
func svText(v sem.Ver) string {
	s := strconv.FormatUint(v.Major, 10) + "." + strconv.FormatUint(v.Minor, 10) + "." + strconv.FormatUint(v.Patch, 10)
	if v.PreRelease != "" {
		s += "-" + v.PreRelease
	}
	if v.Build != "" {
		s += "+" + v.Build
	}
	return s
}

func svParseLine(entry string, ml int, s string) string {
	return "sem.parse " + entry + " " + strconv.Itoa(ml) + " " + hx([]byte(s))
}

// svCheckParse judges s on all five entry points × {string, []byte} under the current
// sem.MaxInputLength against the recogniser. It reports whether some entry point must accept s.
func svCheckParse(a *svAcc, s string, full bool) bool {
	ml := sem.MaxInputLength
	accepted := false
	for ei := range svEntries {
		e := &svEntries[ei]
		want, parts := svExpect(e, ml, s)
		if want == "ok" {
			accepted = true
		}
		if full && ei == 3 {
			// the secondary input path: UnmarshalText accepts exactly what the parser's grammar accepts (default rule)
			var u sem.Ver
			uerr := u.UnmarshalText([]byte(s))
			if (uerr == nil) != (want == "ok") {
				a.fail("C03.unmarshaltext.exact", svParseLine(e.name, ml, s), "%q: UnmarshalText -> %+v %v, expected %s", s, u, uerr, want)
			} else if uerr != nil {
				if typed, _ := semPE(uerr); !typed {
					a.fail("C03.typed", svParseLine(e.name, ml, s), "%q: UnmarshalText error %T does not wrap *sem.ParseError", s, uerr)
				}
				if u != (sem.Ver{}) {
					a.fail("C03.zero", svParseLine(e.name, ml, s), "%q: UnmarshalText left %+v next to its error", s, u)
				}
			}
		}
		if full && ei == 3 {
			// onto variables that already hold a version: a successful call yields exactly the decoded value
			if want == "ok" {
				exp := svPartsVer(parts)
				for _, w0 := range semLoadedReceivers {
					w := w0
					if werr := w.UnmarshalText([]byte(s)); werr != nil || w != exp {
						a.fail("C03.overwrite", svParseLine(e.name, ml, s), "%q: UnmarshalText onto %+v gives %+v %v, expected %+v", s, w0, w, werr, exp)
					}
				}
			}
			// the rule is a flag set: DefaultParser under rule values with unknown extra bits (bit test on RuleDisableTag)
			for _, n := range svRuleValues {
				re := svEntry{"Default:" + strconv.Itoa(n), n&1 == 0, true}
				rwant, rparts := svExpect(&re, ml, s)
				rv, rerr := sem.DefaultParser(s, sem.Rule(n))
				switch {
				case rerr != nil && rwant == "ok":
					a.fail("C03.rule", svParseLine(re.name, ml, s), "%q rejected under rule %d: %v", s, n, rerr)
				case rerr == nil && rwant != "ok":
					a.fail("C03.rule", svParseLine(re.name, ml, s), "%q accepted under rule %d as %+v, expected %s", s, n, rv, rwant)
				case rerr == nil && rv != svPartsVer(rparts):
					a.fail("C03.rule", svParseLine(re.name, ml, s), "%q under rule %d -> %+v, expected %+v", s, n, rv, rparts)
				case rerr != nil:
					if cls, typed := svErrClass(rerr); !typed || cls != rwant || rv != (sem.Ver{}) {
						a.fail("C03.rule", svParseLine(re.name, ml, s), "%q under rule %d: error class %s (typed %v), value %+v, expected %s", s, n, cls, typed, rv, rwant)
					}
				}
			}
		}
		for variant := 0; variant < 2; variant++ {
			var v sem.Ver
			var err error
			if variant == 0 {
				v, err = svCall(ei, s)
			} else {
				b := []byte(s)
				v, err = svCall(ei, b)
				if string(b) != s {
					a.fail("C03.input.modified", svParseLine(e.name, ml, s), "%q became %q", s, b)
				}
			}
			if err != nil {
				cls, typed := svErrClass(err)
				if !typed {
					a.fail("C03.typed", svParseLine(e.name, ml, s), "%q: error %T is not *sem.ParseError", s, err)
				}
				if v != (sem.Ver{}) {
					a.fail("C03.zero", svParseLine(e.name, ml, s), "%q: value %+v next to error", s, v)
				}
				if want == "ok" {
					a.fail("C03.reject", svParseLine(e.name, ml, s), "%q (variant %d) rejected: %v", s, variant, err)
				} else if typed && cls != want {
					a.fail("C03.errclass", svParseLine(e.name, ml, s), "%q: error class %s, expected %s", s, cls, want)
				}
				continue
			}
			if want != "ok" {
				a.fail("C03.accept", svParseLine(e.name, ml, s), "%q (variant %d) accepted as %+v, expected %s", s, variant, v, want)
				continue
			}
			if strconv.FormatUint(v.Major, 10) != parts.M || strconv.FormatUint(v.Minor, 10) != parts.m || strconv.FormatUint(v.Patch, 10) != parts.p ||
				v.PreRelease != parts.pre || v.Build != parts.build {
				a.fail("C03.fields", svParseLine(e.name, ml, s), "%q -> %+v, expected %+v", s, v, parts)
			}
			tag := s[0] == 'v'
			var ff sem.Format
			if tag {
				ff = sem.FormatTag
			}
			out, ferr := sem.DefaultFormatter(nil, v, ff)
			if ferr != nil || string(out) != s {
				a.fail("C03.repro", fmt.Sprintf("sem.format %d %d %d %s %s %s -", v.Major, v.Minor, v.Patch, hx([]byte(v.PreRelease)), hx([]byte(v.Build)), b01(tag)),
					"%q formats back as %q (%v)", s, out, ferr)
			}
			if verr := v.Valid(); verr != nil {
				a.fail("C03.valid", "sem.valid "+hx([]byte(v.PreRelease))+" "+hx([]byte(v.Build)), "%q parsed but Valid: %v", s, verr)
			}
			if full && variant == 0 {
				body := s
				if tag {
					body = s[1:]
				}
				mt, merr := v.MarshalText()
				if v.String() != body || v.StringTag() != "v"+body || merr != nil || string(mt) != body ||
					fmt.Sprintf("%s|%t|%v", v, v, v) != body+"|v"+body+"|"+body {
					a.fail("C03.repro.paths", svParseLine(e.name, ml, s), "%q: String %q StringTag %q MarshalText %q %v verbs %q", s, v.String(), v.StringTag(), mt, merr, fmt.Sprintf("%s|%t|%v", v, v, v))
				}
				if ei == 3 {
					var u sem.Ver
					if uerr := u.UnmarshalText([]byte(s)); uerr != nil || u != v {
						a.fail("C03.unmarshaltext", svParseLine(e.name, ml, s), "%q -> %+v %v", s, u, uerr)
					}
				}
			}
		}
	}
	a.evals++
	return accepted
}

func svCheckParseML(a *svAcc, s string, ml int) bool {
	defer svSetMax(ml)()
	return svCheckParse(a, s, true)
}

// ------------------------------------------------------------------------- parallel enumeration

type svShard struct {
	_           [128]byte // shards are written by different cores: keep them on separate cache lines
	acc         svAcc
	n, accepted int64
	ops         []string
	_           [128]byte
}

// svParallelEnum visits every string over alpha of length ≤ maxLen. Shard 0 holds the strings shorter
// than two bytes, shard 1+k those starting with the k-th two-byte prefix; shards run on all cores and
// are returned in a fixed order, so whatever visit stores in them is deterministic.
func svParallelEnum(c *Ctx, alpha string, maxLen int, visit func(sh *svShard, s []byte)) []*svShard {
	n := len(alpha)
	mu := &sync.Mutex{}
	shards := make([]*svShard, 1+n*n)
	for i := range shards {
		shards[i] = &svShard{acc: svAcc{c: c, mu: mu}}
	}
	visit(shards[0], nil)
	if maxLen >= 1 {
		for i := 0; i < n; i++ {
			visit(shards[0], []byte{alpha[i]})
		}
	}
	if maxLen < 2 {
		return shards[:1]
	}
	jobs := make(chan int, n*n)
	for k := 0; k < n*n; k++ {
		jobs <- k
	}
	close(jobs)
	var wg sync.WaitGroup
	for w := 0; w < runtime.NumCPU(); w++ {
		wg.Add(1)
		go func() {
			defer wg.Done()
			for k := range jobs {
				sh := shards[1+k]
				buf := make([]byte, 0, maxLen+1)
				buf = append(buf, alpha[k/n], alpha[k%n])
				var rec func()
				rec = func() {
					if stopped() {
						return
					}
					visit(sh, buf)
					if len(buf) >= maxLen {
						return
					}
					for i := 0; i < n; i++ {
						buf = append(buf, alpha[i])
						rec()
						buf = buf[:len(buf)-1]
					}
				}
				rec()
			}
		}()
	}
	wg.Wait()
	return shards
}

// svRows runs visit(row) for row = 0..n-1 on all cores.
func svRows(n int, visit func(row int)) {
	jobs := make(chan int, n)
	for i := 0; i < n; i++ {
		jobs <- i
	}
	close(jobs)
	var wg sync.WaitGroup
	for w := 0; w < runtime.NumCPU(); w++ {
		wg.Add(1)
		go func() {
			defer wg.Done()
			for i := range jobs {
				if stopped() {
					continue
				}
				visit(i)
			}
		}()
	}
	wg.Wait()
}

// ------------------------------------------------------------------------- generators

const svIdentChars = "0123456789abcdefghijklmnopqrstuvwxyzABCDEFGHIJKLMNOPQRSTUVWXYZ-"

var svBoundaryNums = []string{"0", "1", "9", "10", "18446744073709551615", "18446744073709551616", "18446744073709551614", "9223372036854775807",
	"9223372036854775808", "10000000000000000000", "9999999999999999999", "99999999999999999999", "18446744073709551625", "28446744073709551615",
	"184467440737095516150", "1000000000000000000000000", "4294967295", "4294967296"}

func svGenDigits(r *Rng, n int) string {
	b := make([]byte, n)
	for i := range b {
		b[i] = byte('0' + r.Intn(10))
	}
	if b[0] == '0' && n > 1 {
		b[0] = byte('1' + r.Intn(9))
	}
	return string(b)
}

// svGenNum: a numeric identifier of 1..25 digits, biased to small values and to the 2^64 boundary.
func svGenNum(r *Rng) string {
	switch r.Intn(12) {
	case 0:
		return "0"
	case 1, 2:
		return svBoundaryNums[r.Intn(len(svBoundaryNums))]
	case 3, 4:
		return svGenDigits(r, 19+r.Intn(3))
	case 5:
		return svGenDigits(r, 22+r.Intn(4))
	case 6:
		return svGenDigits(r, 5+r.Intn(14))
	}
	return svGenDigits(r, 1+r.Intn(4))
}

func svGenAlnum(r *Rng) string {
	n := 1 + r.Intn(8)
	b := make([]byte, n)
	for i := range b {
		switch r.Intn(4) {
		case 0:
			b[i] = byte('0' + r.Intn(10))
		case 1:
			b[i] = "abrc-xZ"[r.Intn(7)]
		default:
			b[i] = svIdentChars[r.Intn(len(svIdentChars))]
		}
	}
	if svAllDigits(string(b)) {
		b[r.Intn(n)] = "a-Zrcx"[r.Intn(6)]
	}
	if r.Intn(12) == 0 { // a word with a digit tail of 1..25 digits (boundary numbers included)
		return string(b) + svGenNum(r)
	}
	return string(b)
}

var svWords = []string{"alpha", "beta", "rc", "rc1", "rc10", "rc9", "a", "a1", "a01", "a0x", "x", "-", "--", "SNAPSHOT", "0a", "00a", "1-1", "pre"}

func svGenPreIdent(r *Rng) string {
	switch r.Intn(6) {
	case 0, 1:
		return svGenNum(r)
	case 2:
		return svWords[r.Intn(len(svWords))]
	}
	return svGenAlnum(r)
}

func svGenBuildIdent(r *Rng) string {
	switch r.Intn(5) {
	case 0:
		return svGenNum(r)
	case 1:
		return strings.Repeat("0", 1+r.Intn(3)) + svGenDigits(r, 1+r.Intn(6))
	case 2:
		return svWords[r.Intn(len(svWords))]
	}
	return svGenAlnum(r)
}

func svGenList(r *Rng, n int, ident func(*Rng) string) string {
	ids := make([]string, n)
	for i := range ids {
		ids[i] = ident(r)
	}
	return strings.Join(ids, ".")
}

func svListLen(r *Rng) int {
	switch r.Intn(8) {
	case 0:
		return 8 + r.Intn(30)
	case 1, 2:
		return 3 + r.Intn(6)
	}
	return 1 + r.Intn(3)
}

// svGenVersionText: a string of the grammar (numbers may exceed 2^64-1), with or without v.
func svGenVersionText(r *Rng) string {
	s := svGenNum(r) + "." + svGenNum(r) + "." + svGenNum(r)
	if r.Intn(3) != 0 {
		s += "-" + svGenList(r, svListLen(r), svGenPreIdent)
	}
	if r.Intn(3) == 0 {
		s += "+" + svGenList(r, svListLen(r), svGenBuildIdent)
	}
	if r.Intn(3) == 0 {
		s = "v" + s
	}
	return s
}

var svNasty = []byte{0, ' ', '\n', '\t', '.', '-', '+', 'v', 'V', '0', '1', '9', 'a', 'Z', '_', '/', ':', '@', '[', '`', '{', 0x7f, 0x80, 0xc3, 0xa9, 0xff, '*', ','}

func svMutate(r *Rng, s string) string {
	b := []byte(s)
	pick := func() byte {
		if r.Intn(3) == 0 {
			return byte(r.Next())
		}
		return svNasty[r.Intn(len(svNasty))]
	}
	pos := func(extra int) int {
		// separators and their neighbourhood are the interesting places
		if r.Bool() {
			var seps []int
			for i := range b {
				if b[i] == '.' || b[i] == '-' || b[i] == '+' {
					seps = append(seps, i)
				}
			}
			if len(seps) > 0 {
				p := seps[r.Intn(len(seps))] + r.Intn(3) - 1
				if p >= 0 && p < len(b)+extra {
					return p
				}
			}
		}
		return r.Intn(len(b) + extra)
	}
	if len(b) == 0 {
		return string([]byte{pick()})
	}
	switch r.Intn(6) {
	case 0: // substitute
		b[pos(0)] = pick()
	case 1: // delete
		p := pos(0)
		b = append(b[:p], b[p+1:]...)
	case 2: // insert
		p := pos(1)
		b = append(b[:p], append([]byte{pick()}, b[p:]...)...)
	case 3: // truncate
		b = b[:r.Intn(len(b))]
	case 4: // leading zero in front of some digit run
		p := pos(0)
		b = append(b[:p], append([]byte{'0'}, b[p:]...)...)
	case 5: // surround / prefix
		switch r.Intn(4) {
		case 0:
			b = append([]byte{'v'}, b...)
		case 1:
			b = append(b, ' ')
		case 2:
			b = append([]byte{' '}, b...)
		case 3:
			b = append(b, '.')
		}
	}
	return string(b)
}

func svGenU64(r *Rng) uint64 {
	switch r.Intn(10) {
	case 0:
		return 0
	case 1:
		return ^uint64(0)
	case 2:
		return ^uint64(0) - 1
	case 3:
		return 1
	case 4, 5:
		return r.Next()
	case 6:
		return 1 << 63
	}
	return uint64(r.Intn(12))
}

// ------------------------------------------------------------------------- C03

func svEmitParse(c *Ctx, s string, k int) {
	inLang := false
	for ei := range svEntries {
		if w, _ := svExpect(&svEntries[ei], 1024, s); w == "ok" {
			inLang = true
		}
	}
	if inLang {
		for ei := range svEntries {
			c.Op(svParseLine(svEntries[ei].name, 1024, s))
		}
		return
	}
	c.Op(svParseLine(svEntries[k%5].name, 1024, s))
}

func propC03(c *Ctx) {
	defer svSetMax(1024)()
	defer svTuneGC()()
	acc := &svAcc{c: c, mu: &sync.Mutex{}}

	// 1. every string over the alphabet up to a length, on all cores
	maxLen, stripe := 6, int64(20)
	if c.Thorough {
		maxLen, stripe = 8, 70
	}
	off := int64(c.Seed % uint64(stripe))
	shards := svParallelEnum(c, "019aZ-.+v", maxLen, func(sh *svShard, b []byte) {
		s := string(b)
		sh.n++
		if svCheckParse(&sh.acc, s, false) {
			sh.accepted++
			sh.ops = append(sh.ops, s)
		} else if sh.n%stripe == off {
			sh.ops = append(sh.ops, s)
		}
	})
	var total, accepted int64
	k := 0
	for _, sh := range shards {
		total += sh.n
		accepted += sh.accepted
		for _, s := range sh.ops {
			k++
			svEmitParse(c, s, k)
		}
	}
	svCount(c, total)
	c.Note("exhaustive: %d strings over {0,1,9,a,Z,-,.,+,v} up to length %d, %d of them in the language of some entry point; each on 5 entry points x {string,[]byte}", total, maxLen, accepted)

	// 2. fixed heads followed by every tail up to a length (reaches pre-release and build lists)
	tailLen, tstripe := 5, int64(9)
	if c.Thorough {
		tailLen, tstripe = 6, 12
	}
	toff := int64(c.Seed % uint64(tstripe))
	heads := []string{"1.0.9", "v0.1.10"}
	shards = svParallelEnum(c, "019aZ-.+", tailLen, func(sh *svShard, b []byte) {
		for _, h := range heads {
			s := h + string(b)
			sh.n++
			if svCheckParse(&sh.acc, s, false) {
				sh.accepted++
				if !c.Thorough || sh.accepted%2 == 0 {
					sh.ops = append(sh.ops, s)
				}
			} else if sh.n%tstripe == toff {
				sh.ops = append(sh.ops, s)
			}
		}
	})
	total, accepted = 0, 0
	for _, sh := range shards {
		total += sh.n
		accepted += sh.accepted
		for _, s := range sh.ops {
			k++
			c.Op(svParseLine(svEntries[k%5].name, 1024, s))
			if c.Thorough || k%2 == 0 {
				c.Op(svParseLine(svEntries[(k+1+k/5%3)%5].name, 1024, s))
			}
		}
	}
	svCount(c, total)
	c.Note("tails: %d strings = {1.0.9, v0.1.10} + every tail over {0,1,9,a,Z,-,.,+} up to length %d, %d accepted", total, tailLen, accepted)

	// 3. numeric components at and above 2^64-1
	for _, n := range svBoundaryNums {
		for pos := 0; pos < 3; pos++ {
			for _, tail := range []string{"", "-rc.1", "+b", "-0+0"} {
				for _, v := range []string{"", "v"} {
					parts := []string{"1", "2", "3"}
					parts[pos] = n
					s := v + strings.Join(parts, ".") + tail
					c.Check("u64 " + s)
					svCheckParse(acc, s, true)
					for ei := range svEntries {
						c.Op(svParseLine(svEntries[ei].name, 1024, s))
					}
				}
			}
		}
		s := n + "." + n + "." + n
		c.Check("u64 " + s)
		svCheckParse(acc, s, true)
		c.Op(svParseLine("Parse", 1024, s))
	}

	// 4. random strings of the grammar (1-25 digit numbers, long identifier lists) and mutations of them
	nRand := 12000
	if c.Thorough {
		nRand = 250000
	}
	for i := 0; i < nRand; i++ {
		s := svGenVersionText(c.R)
		for m := c.R.Intn(4) - 1; m > 0; m-- {
			s = svMutate(c.R, s)
		}
		ml := 1024
		switch c.R.Intn(10) {
		case 0:
			ml = 0
		case 1:
			ml = len(s) - c.R.Intn(2)
			if ml <= 0 {
				ml = 1
			}
		case 2:
			ml = 1 + c.R.Intn(40)
		}
		c.Check("rand " + strconv.Itoa(ml) + " " + s)
		svCheckParseML(acc, s, ml)
		if i < 9000 || i%4 == 0 {
			c.Op(svParseLine(svEntries[c.R.Intn(5)].name, ml, s))
		}
	}

	// 5. all 256 values at every position of some seeds, insertions and deletions
	chk := func(s string, full bool) {
		c.Check("mut " + s)
		svCheckParse(acc, s, full)
	}
	seeds := []string{"1.2.3-a.1+b.01", "v10.0.9-rc.1", "0.0.0", "v1.0.0+0", "18446744073709551615.0.1-0"}
	for _, v := range seeds {
		for pos := 0; pos < len(v); pos++ {
			for b := 0; b < 256; b++ {
				mut := []byte(v)
				mut[pos] = byte(b)
				chk(string(mut), b%16 == 0)
				if b%6 == int(c.Seed%6) || (b >= '+' && b <= ':') {
					c.Op(svParseLine(svEntries[(pos+b)%5].name, 1024, string(mut)))
				}
			}
			del := v[:pos] + v[pos+1:]
			chk(del, true)
			c.Op(svParseLine(svEntries[pos%5].name, 1024, del))
			for _, ins := range []byte{'0', '.', '-', '+', 'v', ' ', 'a'} {
				x := v[:pos] + string(ins) + v[pos:]
				chk(x, true)
				c.Op(svParseLine(svEntries[(pos+int(ins))%5].name, 1024, x))
			}
		}
	}
	c.Op(svParseLine("Parse", 1024, ""))
	c.Op(svParseLine("ParseTag", 1024, ""))
	c.Op(svParseLine("ParseTag", 1024, "v"))
	c.Op(svParseLine("DefaultNoTag", 1024, "v"))
	for _, s := range []string{"", "v", "vv1.0.0", "V1.0.0"} {
		c.Check("edge " + s)
		svCheckParse(acc, s, true)
	}
	// the input limit itself: 1024 is accepted, 1025 is not, 0 disables the limit
	for _, n := range []int{1018, 1019, 1020, 2000} {
		s := "1.0.0-" + strings.Repeat("a", n) // length n+6
		for _, ml := range []int{1024, 0, n + 6, n + 5} {
			c.Check(fmt.Sprintf("limit %d %d", n, ml))
			svCheckParseML(acc, s, ml)
			c.Op(svParseLine("Parse", ml, s))
			c.Op(svParseLine("ParseTag", ml, "v"+s))
		}
	}

	// 6. Valid <=> the formatted text parses back to an equal value (within MaxInputLength)
	checkValid := func(v sem.Ver, emit bool) {
		text := svText(v)
		wantValid := "ok"
		if v.PreRelease != "" && !svPreOK(v.PreRelease) {
			wantValid = "invalidPreRelease"
		} else if v.Build != "" && !svBuildOK(v.Build) {
			wantValid = "invalidBuild"
		}
		vline := "sem.valid " + hx([]byte(v.PreRelease)) + " " + hx([]byte(v.Build))
		fline := fmt.Sprintf("sem.format %d %d %d %s %s 0 -", v.Major, v.Minor, v.Patch, hx([]byte(v.PreRelease)), hx([]byte(v.Build)))
		verr := v.Valid()
		got := "ok"
		switch {
		case verr == nil:
		case errors.Is(verr, sem.ErrInvalidPreRelease):
			got = "invalidPreRelease"
		case errors.Is(verr, sem.ErrInvalidBuild):
			got = "invalidBuild"
		default:
			got = "other:" + verr.Error()
		}
		if got != wantValid {
			acc.fail("C03.valid.class", vline, "%+v: Valid %s, expected %s", v, got, wantValid)
		}
		out, ferr := sem.DefaultFormatter(nil, v, 0)
		outT, ferrT := sem.DefaultFormatter([]byte("x"), v, sem.FormatTag)
		if ferr != nil || ferrT != nil || string(out) != text || string(outT) != "xv"+text || v.String() != text || v.StringTag() != "v"+text {
			acc.fail("C03.format", fline, "%+v formats as %q / %q, expected %q", v, out, outT, text)
		}
		if len(text)+1 <= sem.MaxInputLength || sem.MaxInputLength == 0 {
			back, perr := sem.ParseVersion(text)
			backT, perrT := sem.ParseTag([]byte("v" + text))
			rt := perr == nil && back == v
			rtT := perrT == nil && backT == v
			if (verr == nil) != rt || rt != rtT {
				acc.fail("C03.valid.roundtrip", vline, "%+v: Valid=%v but %q parses to %+v %v (tag form: %+v %v)", v, verr, text, back, perr, backT, perrT)
			}
		}
		if emit {
			c.Op(vline)
			c.Op(fmt.Sprintf("sem.format %d %d %d %s %s %d %s", v.Major, v.Minor, v.Patch, hx([]byte(v.PreRelease)), hx([]byte(v.Build)), c.R.Intn(2), []string{"-", "78", "7631"}[c.R.Intn(3)]))
			c.Op(svParseLine([]string{"ParseVersion", "Parse", "Default"}[c.R.Intn(3)], 1024, text))
		}
	}
	// 6a. every pre-release × build over a small alphabet
	var fields []string
	var recF func(p []byte)
	recF = func(p []byte) {
		fields = append(fields, string(p))
		if len(p) == 3 {
			return
		}
		for _, ch := range []byte("01a-.+") {
			recF(append(p, ch))
		}
	}
	recF(nil)
	nv := 0
	for i, pre := range fields {
		for j, bld := range fields {
			nv++
			checkValid(sem.Ver{Major: uint64(i % 3), Minor: 2, Patch: ^uint64(0) - uint64(j%2), PreRelease: pre, Build: bld}, (i*len(fields)+j)%37 == int(c.Seed%37))
		}
	}
	svCount(c, int64(nv))
	// 6b. random values with arbitrary field texts
	arbitrary := []string{"", "a", "0", "01", "a.b", "a..b", "a+b", "-", ".", "a.", ".a", "\xc3\xa9", "1.2", "a b", "0a", "00", "+", "x-y.1", "a\x00", " ", "1.01", "1.0a", "v1", "A.B-c", "--.--", "0.0.0", "é.é"}
	nVal := 15000
	if c.Thorough {
		nVal = 200000
	}
	field := func(ident func(*Rng) string) string {
		switch c.R.Intn(8) {
		case 0:
			return ""
		case 1, 2:
			return arbitrary[c.R.Intn(len(arbitrary))]
		case 3:
			return svMutate(c.R, svGenList(c.R, svListLen(c.R), ident))
		case 4:
			b := make([]byte, c.R.Intn(6))
			for i := range b {
				b[i] = byte(c.R.Next())
			}
			return string(b)
		}
		return svGenList(c.R, svListLen(c.R), ident)
	}
	for i := 0; i < nVal; i++ {
		v := sem.Ver{Major: svGenU64(c.R), Minor: svGenU64(c.R), Patch: svGenU64(c.R), PreRelease: field(svGenPreIdent), Build: field(svGenBuildIdent)}
		if len(svText(v)) >= 1024 {
			continue
		}
		c.Check("valid " + svText(v) + "|" + v.Build)
		checkValid(v, i < 2500 || i%40 == 0)
	}
	// 6b'. long fields (lists of 37..400 identifiers, identifiers of 9..1000 bytes) in either field
	for _, v := range svLongFieldValues() {
		c.Check("valid.long " + svText(v))
		if len(svText(v))+1 > 1024 {
			func() {
				defer svSetMax(0)()
				checkValid(v, false)
			}()
			continue
		}
		checkValid(v, true)
	}
	// 7. deterministic tables: near misses of hand-picked texts and long inputs, every entry point
	svNearAndLongC03(c, acc)
	// 6c. the recorded interpretation: a valid value whose text exceeds MaxInputLength does not round-trip
	// under the default limit (ErrInputTooLong) and does with the limit disabled. Not a violation.
	long := sem.Ver{Major: 1, PreRelease: strings.Repeat("a.", 520) + "a"}
	ltext := svText(long)
	_, lerr := sem.ParseVersion(ltext)
	c.Check("valid.long")
	if long.Valid() != nil || !errors.Is(lerr, sem.ErrInputTooLong) {
		acc.fail("C03.valid.long", svParseLine("ParseVersion", 1024, ltext), "Valid=%v parse=%v", long.Valid(), lerr)
	}
	func() {
		defer svSetMax(0)()
		checkValid(long, false)
	}()
	c.Op("sem.valid " + hx([]byte(long.PreRelease)) + " -")
	c.Op(svParseLine("ParseVersion", 1024, ltext))
	c.Op(svParseLine("ParseVersion", 0, ltext))
	c.Op(svParseLine("ParseVersion", len(ltext), ltext))
	c.Note("interpretation: Valid <=> round-trip is claimed and tested for texts within sem.MaxInputLength (1024); excluded point recorded: valid value with a %d-byte text -> ParseVersion: input too long (round-trips with MaxInputLength=0)", len(ltext))
}

// ------------------------------------------------------------------------- §11 oracle (math/big)

type svIdent struct {
	s string
	n *big.Int // nil for an alphanumeric identifier
}

type svPre struct {
	s   string
	ids []svIdent
}

func svParsePre(s string) svPre {
	p := svPre{s: s}
	if s == "" {
		return p
	}
	for _, id := range strings.Split(s, ".") {
		x := svIdent{s: id}
		if svAllDigits(id) {
			x.n, _ = new(big.Int).SetString(id, 10)
		}
		p.ids = append(p.ids, x)
	}
	return p
}

// svSpecCmpPre is SemVer 2.0.0 §11.3/11.4 on two valid pre-release texts. excluded reports the region
// the property leaves out: the first differing identifiers are both alphanumeric and, after their
// common prefix, both remainders are non-empty digit runs.
func svSpecCmpPre(a, b *svPre) (cmp int, excluded bool) {
	if a.s == "" || b.s == "" {
		switch {
		case a.s == "" && b.s == "":
			return 0, false
		case a.s == "":
			return 1, false
		}
		return -1, false
	}
	for i := 0; i < len(a.ids) && i < len(b.ids); i++ {
		x, y := &a.ids[i], &b.ids[i]
		if x.s == y.s {
			continue
		}
		switch {
		case x.n != nil && y.n != nil:
			if r := x.n.Cmp(y.n); r != 0 {
				return r, false
			}
			continue // cannot happen for valid (leading-zero free) identifiers
		case x.n != nil:
			return -1, false
		case y.n != nil:
			return 1, false
		}
		k := 0
		for k < len(x.s) && k < len(y.s) && x.s[k] == y.s[k] {
			k++
		}
		excl := k < len(x.s) && k < len(y.s) && svAllDigits(x.s[k:]) && svAllDigits(y.s[k:])
		return strings.Compare(x.s, y.s), excl
	}
	switch {
	case len(a.ids) < len(b.ids):
		return -1, false
	case len(a.ids) > len(b.ids):
		return 1, false
	}
	return 0, false
}

func svCmpU(a, b uint64) int {
	switch {
	case a < b:
		return -1
	case a > b:
		return 1
	}
	return 0
}

func svSpecCmpVer(ca, cb [3]uint64, a, b *svPre) (int, bool) {
	for k := 0; k < 3; k++ {
		if r := svCmpU(ca[k], cb[k]); r != 0 {
			return r, false
		}
	}
	return svSpecCmpPre(a, b)
}

const svM = ^uint64(0)

var svCores = [][3]uint64{{0, 0, 0}, {0, 0, 1}, {0, 1, 0}, {1, 0, 0}, {1, 2, 3}, {svM, 0, 0}, {svM, svM, svM}, {svM - 1, svM, 0}, {1, 0, svM},
	{0, svM, svM - 1}, {svM, svM, svM - 1}, {1 << 63, 1<<63 - 1, 1 << 32}}

var svBuilds = []string{"", "b1", "zz.9", "001", "a-b.0", "exp.sha.5114f85", "-", "7", "12", "20240101120000", "18446744073709551616"}

// svBuildPairs: pairs of build texts every comparison is repeated with ("ignores build metadata" is a statement about all
// build texts): two different numbers of every size, number against word, a text against its prefix, late differences.
var svBuildPairs = [][2]string{{"1", "2"}, {"2", "1"}, {"7", "12"}, {"001", "1"}, {"0", "00"}, {"20240101120000", "20240202120000"}, {"20240202120000", "20231231235959"},
	{"18446744073709551615", "18446744073709551616"}, {"18446744073709551617", "18446744073709551616"}, {"99999999999999999999999999", "99999999999999999999999998"}, {"1", "a"}, {"a", "1"},
	{"a", "b"}, {"b", "a"}, {"a.1", "a.2"}, {"a.2", "a.10"}, {"a", "a.1"}, {"a.b", "a"}, {"", "1"}, {"2", ""}, {"", "a"}, {"rc1", "rc2"}, {"A", "a"},
	{"exp.sha.5114f85", "exp.sha.5114f86"}, {"build.1.2.3.4.5.6.7.8.9.10.11.12", "build.1.2.3.4.5.6.7.8.9.10.11.13"}, {"x20240101120000", "x20240202120000"}, {"-", "--"}, {"5", "5"}}

// svCheckBuildPairs: the comparison of va and vb (r) must not move when the two build texts are replaced. all = every pair of the
// pool (used where core and pre-release are equal: the place a tie-break would bite), otherwise the k-th pair.
func svCheckBuildPairs(a *svAcc, key string, va, vb sem.Ver, r int, k int, all bool) {
	lo, hi := k%len(svBuildPairs), k%len(svBuildPairs)+1
	if all {
		lo, hi = 0, len(svBuildPairs)
	}
	for _, p := range svBuildPairs[lo:hi] {
		xa, xb := va, vb
		xa.Build, xb.Build = p[0], p[1]
		if x := xa.Compare(xb); x != r {
			a.fail(key, svCmpLine(xa, xb), "%v vs %v: %d, with build metadata %q / %q: %d", va, vb, r, p[0], p[1], x)
		}
	}
}

func svSameCorePre(va, vb sem.Ver) bool {
	return va.Major == vb.Major && va.Minor == vb.Minor && va.Patch == vb.Patch && va.PreRelease == vb.PreRelease
}

// svUniverse: "" followed by every valid pre-release text over {0,1,2,9,a,B,-,.} up to maxLen, then extras.
func svUniverse(maxLen int, extras []string) []svPre {
	uni := []svPre{svParsePre("")}
	seen := map[string]bool{"": true}
	const alpha = "0129aB-."
	var rec func(p []byte)
	rec = func(p []byte) {
		if len(p) > 0 && svPreOK(string(p)) {
			uni = append(uni, svParsePre(string(p)))
			seen[string(p)] = true
		}
		if len(p) == maxLen {
			return
		}
		for i := 0; i < len(alpha); i++ {
			rec(append(p, alpha[i]))
		}
	}
	rec(nil)
	for _, e := range extras {
		if !seen[e] {
			if !svPreOK(e) {
				panic("bad extra " + e)
			}
			seen[e] = true
			uni = append(uni, svParsePre(e))
		}
	}
	return uni
}

var svSpecChainPre = []string{"alpha", "alpha.1", "alpha.beta", "beta", "beta.2", "beta.11", "rc.1", ""}

var svExtras = []string{"alpha", "alpha.1", "alpha.beta", "beta", "beta.2", "beta.11", "rc.1", "rc-1", "1a", "a-b", "a.b",
	"18446744073709551615", "18446744073709551616", "99999999999999999999999", "100000000000000000000000", "99999999999999999999998",
	"a.99999999999999999999999.b", "a.100000000000000000000000", "a.18446744073709551616.b", "x.7.z.92", "x.7.z.100", "x.7.z", "x.7.z.-"}

var svMixed = []string{"a01", "a1", "a0x", "rc10", "rc9", "rc09", "a001", "a10", "a9", "a09", "a1x", "a00", "rc1", "rc01", "rc.a01", "rc.a1", "rc.a1.0", "rc.a01.1",
	"x-1", "x-01", "x-10", "x-9",
	// a word with a long digit tail (build numbers, timestamps): 19..30 digits, around 2^64, equal and different lengths, leading zeros
	"rc18446744073709551615", "rc18446744073709551616", "rc18446744073709551617", "rc28446744073709551616", "rc018446744073709551616", "rc1844674407370955161", "rc184467440737095516160",
	"rc9999999999999999999", "rc10000000000000000000", "rc99999999999999999999", "rc100000000000000000000", "b20240101120000", "b20240202120000", "b020240101120000",
	"x-999999999999999999999999999999", "x-999999999999999999999999999998", "x-1000000000000000000000000000000", "rc.a18446744073709551616", "rc.a28446744073709551616", "rc.a18446744073709551616.1"}

func svVer(core [3]uint64, pre, build string) sem.Ver {
	return sem.Ver{Major: core[0], Minor: core[1], Patch: core[2], PreRelease: pre, Build: build}
}

func svCmpLine(a, b sem.Ver) string {
	return fmt.Sprintf("sem.cmp %d %d %d %s %s %d %d %d %s %s", a.Major, a.Minor, a.Patch, hx([]byte(a.PreRelease)), hx([]byte(a.Build)),
		b.Major, b.Minor, b.Patch, hx([]byte(b.PreRelease)), hx([]byte(b.Build)))
}

// svCheckAllCmp: every comparison entry point on two valid versions against the expected sign.
// The texts must fit the current sem.MaxInputLength.
func svCheckAllCmp(a *svAcc, key string, va, vb sem.Ver, want int) {
	if r := va.Compare(vb); r != want {
		a.fail(key+".Ver.Compare", svCmpLine(va, vb), "%v vs %v: %d, expected %d", va, vb, r, want)
	}
	svCheckBuildPairs(a, key+".build", va, vb, want, len(va.PreRelease)*7+len(vb.PreRelease)*3+int(va.Patch%5), svSameCorePre(va, vb))
	// latest-of-two: the higher one; on equal precedence either argument (the property says "one of its two
	// arguments and never the lower one")
	wantL := va
	if want == -1 {
		wantL = vb
	}
	okL := func(l sem.Ver) bool { return l == wantL || (want == 0 && (l == va || l == vb)) }
	if l := va.Latest(vb); !okL(l) {
		a.fail(key+".Ver.Latest", svCmpLine(va, vb), "%v vs %v: %+v, expected %+v", va, vb, l, wantL)
	}
	ta, tb := svText(va), svText(vb)
	type res struct {
		name string
		r    int
		err  error
	}
	var rs []res
	r, err := sem.Compare(ta, "v"+tb)
	rs = append(rs, res{"Compare", r, err})
	r, err = sem.Compare([]byte("v"+ta), tb)
	rs = append(rs, res{"Compare.bytes", r, err})
	r, err = sem.CompareVersion[string, string](ta, tb)
	rs = append(rs, res{"CompareVersion", r, err})
	r, err = sem.CompareTag("v"+ta, []byte("v"+tb))
	rs = append(rs, res{"CompareTag", r, err})
	for _, x := range rs {
		if x.err != nil || x.r != want {
			a.fail(key+"."+x.name, "sem.cmpstr Parse "+strconv.Itoa(sem.MaxInputLength)+" "+hx([]byte(ta))+" "+hx([]byte(tb)), "%q vs %q: %d %v, expected %d", ta, tb, x.r, x.err, want)
		}
	}
	type lres struct {
		name string
		v    sem.Ver
		err  error
	}
	var ls []lres
	l, err := sem.Latest(ta, "v"+tb)
	ls = append(ls, lres{"Latest", l, err})
	l, err = sem.LatestVersion(ta, []byte(tb))
	ls = append(ls, lres{"LatestVersion", l, err})
	l, err = sem.LatestTag("v"+ta, "v"+tb)
	ls = append(ls, lres{"LatestTag", l, err})
	for _, x := range ls {
		if x.err != nil || !okL(x.v) {
			a.fail(key+"."+x.name, "sem.latest Parse "+strconv.Itoa(sem.MaxInputLength)+" "+hx([]byte(ta))+" "+hx([]byte(tb)), "%q vs %q: %+v %v, expected %+v", ta, tb, x.v, x.err, wantL)
		}
	}
}

var svHelperEntries = []string{"Parse", "ParseVersion", "ParseTag"}

// svEmitCmp emits one of the comparison protocol lines for the pair, rotating with k.
func svEmitCmp(c *Ctx, va, vb sem.Ver, k int, ml int) {
	switch k % 4 {
	case 0:
		c.Op("sem.cmppre " + hx([]byte(va.PreRelease)) + " " + hx([]byte(vb.PreRelease)))
	case 1:
		c.Op(svCmpLine(va, vb))
	default:
		op := "sem.cmpstr "
		if k%4 == 3 {
			op = "sem.latest "
		}
		ta, tb := svText(va), svText(vb)
		e := svHelperEntries[k/4%3]
		switch e {
		case "Parse":
			if k/12%2 == 0 {
				ta = "v" + ta
			} else {
				tb = "v" + tb
			}
		case "ParseTag":
			ta, tb = "v"+ta, "v"+tb
		}
		c.Op(op + e + " " + strconv.Itoa(ml) + " " + hx([]byte(ta)) + " " + hx([]byte(tb)))
	}
}

type svRow struct {
	n, excl, helpers int64
	ops              []int32
}

func svPairVers(uni []svPre, i, j int) (sem.Ver, sem.Ver) {
	core := svCores[(i+3*j)%len(svCores)]
	return svVer(core, uni[i].s, svBuilds[(i+j)%len(svBuilds)]), svVer(core, uni[j].s, svBuilds[(5*i+3*j+1)%len(svBuilds)])
}

// svRelatedPre derives from a valid pre-release text another valid one that shares a prefix of identifiers.
func svRelatedPre(r *Rng, s string) string {
	if s == "" {
		return svGenList(r, svListLen(r), svGenPreIdent)
	}
	ids := strings.Split(s, ".")
	p := r.Intn(len(ids))
	if r.Intn(3) == 0 {
		p = len(ids) - 1
	}
	switch r.Intn(9) {
	case 0:
		return s
	case 1:
		return strings.Join(ids[:1+p], ".")
	case 2:
		return s + "." + svGenPreIdent(r)
	case 3:
		ids = append([]string{}, ids...)
		ids[p] = svGenPreIdent(r)
	case 4, 5: // numeric neighbour: ±1, one more digit, or a digit changed
		ids = append([]string{}, ids...)
		if svAllDigits(ids[p]) {
			n, _ := new(big.Int).SetString(ids[p], 10)
			switch r.Intn(4) {
			case 0:
				n.Add(n, big.NewInt(1))
			case 1:
				if n.Sign() > 0 {
					n.Sub(n, big.NewInt(1))
				}
			case 2:
				n.Mul(n, big.NewInt(10))
				n.Add(n, big.NewInt(int64(r.Intn(10))))
			case 3:
				n.Add(n, new(big.Int).Exp(big.NewInt(10), big.NewInt(int64(r.Intn(len(ids[p])))), nil))
			}
			ids[p] = n.String()
		} else {
			ids[p] = svGenNum(r)
		}
	case 6: // alphanumeric neighbour: change, append or drop one byte (kept alphanumeric)
		ids = append([]string{}, ids...)
		b := []byte(ids[p])
		switch r.Intn(3) {
		case 0:
			b[r.Intn(len(b))] = svIdentChars[r.Intn(len(svIdentChars))]
		case 1:
			b = append(b, svIdentChars[r.Intn(len(svIdentChars))])
		case 2:
			if len(b) > 1 {
				b = b[:len(b)-1]
			}
		}
		if svAllDigits(string(b)) {
			b = append(b, 'a')
		}
		ids[p] = string(b)
	case 7:
		return strings.Join(ids[:1+p], ".") + "." + svGenList(r, 1+r.Intn(3), svGenPreIdent)
	case 8:
		return svGenList(r, svListLen(r), svGenPreIdent)
	}
	return strings.Join(ids, ".")
}

// ------------------------------------------------------------------------- C06

func propC06(c *Ctx) {
	defer svSetMax(1024)()
	defer svTuneGC()()
	acc := &svAcc{c: c, mu: &sync.Mutex{}}
	maxLen, opStripe, helperStripe := 4, 90, 40
	if c.Thorough {
		maxLen, opStripe, helperStripe = 5, 560, 300
	}
	uni := svUniverse(maxLen, svExtras)
	n := len(uni)
	opOff, helperOff := int(c.Seed%uint64(opStripe)), int(c.Seed*7%uint64(helperStripe))

	// 1. all ordered pairs of the universe (same core, varying build metadata)
	rows := make([]svRow, n)
	svRows(n, func(i int) {
		var local svRow
		row := &local
		defer func() { rows[i] = local }()
		a := &uni[i]
		for j := 0; j < n; j++ {
			b := &uni[j]
			row.n++
			want, excl := svSpecCmpPre(a, b)
			h := i*131 + j
			if h%opStripe == opOff {
				row.ops = append(row.ops, int32(j))
			}
			if excl {
				row.excl++
				continue
			}
			if got := sem.DefaultComparePreRelease(a.s, b.s); got != want {
				acc.fail("C06.pre", "sem.cmppre "+hx([]byte(a.s))+" "+hx([]byte(b.s)), "%q vs %q: %d, expected %d", a.s, b.s, got, want)
			}
			va, vb := svPairVers(uni, i, j)
			if (len(a.s) <= 3 && len(b.s) <= 3) || h%helperStripe == helperOff {
				row.helpers++
				svCheckAllCmp(acc, "C06", va, vb, want)
				continue
			}
			if r := va.Compare(vb); r != want {
				acc.fail("C06.Ver.Compare", svCmpLine(va, vb), "%v vs %v: %d, expected %d", va, vb, r, want)
			}
			if i == j || h%3 == 0 {
				svCheckBuildPairs(acc, "C06.build", va, vb, want, h/3, i == j)
			}
			wantL := va
			if want == -1 {
				wantL = vb
			}
			if l := va.Latest(vb); l != wantL && !(want == 0 && l == vb) { // equal precedence: either argument
				acc.fail("C06.Ver.Latest", svCmpLine(va, vb), "%v vs %v: %+v, expected %+v", va, vb, l, wantL)
			}
		}
	})
	var pairs, excl, helpers int64
	k := 0
	for i := range rows {
		pairs += rows[i].n
		excl += rows[i].excl
		helpers += rows[i].helpers
		for _, j := range rows[i].ops {
			k++
			va, vb := svPairVers(uni, i, int(j))
			svEmitCmp(c, va, vb, k, 1024)
		}
	}
	svCount(c, pairs)
	c.Note("universe: %d pre-release texts (every valid one over {0,1,2,9,a,B,-,.} up to length %d, the empty one, %d extras); %d ordered pairs, %d in the excluded region (skipped), %d through all string helpers",
		n, maxLen, len(svExtras), pairs, excl, helpers)

	// 2. cores × cores × sample pre-releases × build metadata, every entry point
	sample := []string{"", "alpha", "alpha.1", "beta.2", "beta.11", "1", "0", "a-b", "a.b", "rc.1", "18446744073709551616", "a.0", "-"}
	sp := make([]svPre, len(sample))
	for i, s := range sample {
		sp[i] = svParsePre(s)
	}
	nc := 0
	for ia, ca := range svCores {
		for ib, cb := range svCores {
			for i := range sp {
				for j := range sp {
					want, ex := svSpecCmpVer(ca, cb, &sp[i], &sp[j])
					if ex {
						continue
					}
					va, vb := svVer(ca, sample[i], svBuilds[(ia+i)%len(svBuilds)]), svVer(cb, sample[j], svBuilds[(ib+2*j+3)%len(svBuilds)])
					nc++
					svCheckAllCmp(acc, "C06.cores", va, vb, want)
					if (nc+int(c.Seed))%3 == 0 {
						k++
						svEmitCmp(c, va, vb, k, 1024)
					}
				}
			}
		}
	}
	svCount(c, int64(nc))

	// 3. the specification's own chains
	chainN := 0
	for i := range svSpecChainPre {
		for j := range svSpecChainPre {
			pi, pj := svParsePre(svSpecChainPre[i]), svParsePre(svSpecChainPre[j])
			want := svCmpU(uint64(i), uint64(j))
			if w, _ := svSpecCmpPre(&pi, &pj); w != want {
				acc.fail("C06.oracle", "", "oracle disagrees with the specification's chain at %q %q", pi.s, pj.s)
			}
			va, vb := svVer([3]uint64{1, 0, 0}, pi.s, ""), svVer([3]uint64{1, 0, 0}, pj.s, "")
			chainN++
			svCheckAllCmp(acc, "C06.chain", va, vb, want)
			k++
			svEmitCmp(c, va, vb, k, 1024)
			c.Op(svCmpLine(va, vb))
		}
	}
	coreChain := [][3]uint64{{1, 0, 0}, {2, 0, 0}, {2, 1, 0}, {2, 1, 1}}
	for i := range coreChain {
		for j := range coreChain {
			va, vb := svVer(coreChain[i], "", ""), svVer(coreChain[j], "", "")
			chainN++
			svCheckAllCmp(acc, "C06.chain", va, vb, svCmpU(uint64(i), uint64(j)))
			c.Op(svCmpLine(va, vb))
		}
	}
	svCount(c, int64(chainN))

	// 3'. late differences: long identifiers (9..256 bytes), 19..300-digit numbers, lists of 37..400 identifiers
	lateN := 0
	for i, p := range svLatePairs() {
		pa, pb := svParsePre(p.a), svParsePre(p.b)
		want, ex := svSpecCmpPre(&pa, &pb)
		if ex {
			continue
		}
		lateN++
		if got := sem.DefaultComparePreRelease(p.a, []byte(p.b)); got != want {
			acc.fail("C06.pre", "sem.cmppre "+hx([]byte(p.a))+" "+hx([]byte(p.b)), "%q vs %q: %d, expected %d", p.a, p.b, got, want)
		}
		va, vb := svLateVers(p, i)
		ml := 1024
		if len(svText(va))+1 > 1024 || len(svText(vb))+1 > 1024 {
			ml = 0
		}
		func() {
			defer svSetMax(ml)()
			svCheckAllCmp(acc, "C06.late", va, vb, want)
		}()
		for d := 0; d < 2; d++ {
			k++
			svEmitCmp(c, va, vb, k, ml)
		}
	}
	svCount(c, int64(lateN))

	// 4. random pairs of long identifier lists with 1-25 digit numeric identifiers (limit disabled)
	restore := svSetMax(0)
	nRand := 20000
	if c.Thorough {
		nRand = 400000
	}
	nEx := 0
	for t := 0; t < nRand; t++ {
		pa := svGenList(c.R, svListLen(c.R), svGenPreIdent)
		pb := svRelatedPre(c.R, pa)
		if c.R.Intn(2) == 0 {
			pa, pb = pb, pa
		}
		if c.R.Intn(40) == 0 {
			pa = ""
		}
		ca := [3]uint64{svGenU64(c.R), svGenU64(c.R), svGenU64(c.R)}
		cb := ca
		if c.R.Intn(4) == 0 {
			cb[c.R.Intn(3)] = svGenU64(c.R)
		}
		a, b := svParsePre(pa), svParsePre(pb)
		va, vb := svVer(ca, pa, svBuilds[c.R.Intn(len(svBuilds))]), svVer(cb, pb, svBuilds[c.R.Intn(len(svBuilds))])
		if t < 6000 || t%8 == 0 {
			k++
			svEmitCmp(c, va, vb, k, 0)
		}
		want, ex := svSpecCmpVer(ca, cb, &a, &b)
		if ex {
			nEx++
			continue
		}
		c.Check("rand " + svText(va) + " " + svText(vb))
		if ca == cb {
			if got := sem.DefaultComparePreRelease([]byte(pa), pb); got != want {
				acc.fail("C06.pre", "sem.cmppre "+hx([]byte(pa))+" "+hx([]byte(pb)), "%q vs %q: %d, expected %d", pa, pb, got, want)
			}
		}
		svCheckAllCmp(acc, "C06.rand", va, vb, want)
	}
	restore()
	c.Note("random related pairs: %d, of them %d in the excluded region (skipped by the oracle, still sent through the model)", nRand, nEx)
}

// ------------------------------------------------------------------------- C14

func svNext(which int, v sem.Ver) (n sem.Ver, panicked bool) {
	defer func() {
		if recover() != nil {
			panicked = true
		}
	}()
	switch which {
	case 0:
		return v.NextMajor(), false
	case 1:
		return v.NextMinor(), false
	}
	return v.NextPatch(), false
}

var svNextNames = []string{"major", "minor", "patch"}

func svCheckNext(a *svAcc, v sem.Ver, pre *svPre) {
	comp := [3]uint64{v.Major, v.Minor, v.Patch}
	for which := 0; which < 3; which++ {
		n, panicked := svNext(which, v)
		line := func() string {
			return fmt.Sprintf("sem.next %s %d %d %d %s %s", svNextNames[which], v.Major, v.Minor, v.Patch, hx([]byte(v.PreRelease)), hx([]byte(v.Build)))
		}
		if panicked {
			if comp[which] != svM {
				a.fail("C14.next.panic", line(), "%v: panic although the component is %d", v, comp[which])
			}
			continue
		}
		if n.PreRelease != "" || n.Build != "" {
			a.fail("C14.next.plain", line(), "%v -> %+v is not a plain release", v, n)
		}
		empty := svPre{}
		above, _ := svSpecCmpVer([3]uint64{n.Major, n.Minor, n.Patch}, comp, &empty, pre)
		if n.Compare(v) != 1 || v.Compare(n) != -1 || (n.PreRelease == "" && above != 1) {
			a.fail("C14.next.above", line(), "%v -> %v: Compare %d / %d, §11 says %d", v, n, n.Compare(v), v.Compare(n), above)
		}
	}
}

// svCheckOrder: the coherence claims of C14 on one ordered pair of valid versions. spec/known is the
// independent expectation when the pair is outside C06's excluded region.
func svCheckOrder(a *svAcc, va, vb sem.Ver, alt string, sel int, spec int, known bool) {
	r, rr := va.Compare(vb), vb.Compare(va)
	if r < -1 || r > 1 {
		a.fail("C14.range", svCmpLine(va, vb), "%v vs %v: %d", va, vb, r)
	}
	if rr != -r {
		a.fail("C14.antisym", svCmpLine(va, vb), "%v vs %v: %d, reversed %d", va, vb, r, rr)
	}
	if known && r != spec {
		a.fail("C14.spec", svCmpLine(va, vb), "%v vs %v: %d, §11 says %d", va, vb, r, spec)
	}
	// build metadata never matters (one of three variants per pair); reflexivity once per element
	va2, vb2 := va, vb
	va2.Build, vb2.Build = alt, alt+".x"
	if sel%8 == 0 || (va.PreRelease == vb.PreRelease && va.Build == vb.Build) {
		if va.Compare(va) != 0 || va.Compare(va2) != 0 || va2.Compare(va) != 0 {
			a.fail("C14.refl", svCmpLine(va, va2), "%v vs itself / %v: %d %d %d", va, va2, va.Compare(va), va.Compare(va2), va2.Compare(va))
		}
	}
	var x int
	switch sel % 3 {
	case 0:
		x = va2.Compare(vb)
	case 1:
		x = va.Compare(vb2)
	default:
		x = va2.Compare(vb2)
	}
	if x != r {
		a.fail("C14.build", svCmpLine(va2, vb2), "%v vs %v: %d, with other build metadata (variant %d of %v / %v) %d", va, vb, r, sel%3, va2, vb2, x)
	}
	svCheckBuildPairs(a, "C14.build", va, vb, r, sel, svSameCorePre(va, vb))
	if va.Major == vb.Major && va.Minor == vb.Minor && va.Patch == vb.Patch && va.PreRelease == vb.PreRelease && r != 0 {
		a.fail("C14.equal", svCmpLine(va, vb), "%v vs %v: %d", va, vb, r)
	}
	l := va.Latest(vb)
	if l != va && l != vb {
		a.fail("C14.latest.arg", svCmpLine(va, vb), "%v vs %v: Latest %+v is neither", va, vb, l)
	}
	if (r == -1 && l != vb) || (r == 1 && l != va) {
		a.fail("C14.latest.lower", svCmpLine(va, vb), "%v vs %v (compare %d): Latest %+v", va, vb, r, l)
	}
}

func svHelperCall(kind, ei int, ta, tb string, bytesForm bool) (int, sem.Ver, error) {
	if kind == 0 {
		var r int
		var err error
		switch {
		case ei == 0 && bytesForm:
			r, err = sem.Compare([]byte(ta), tb)
		case ei == 0:
			r, err = sem.Compare(ta, tb)
		case ei == 1:
			r, err = sem.CompareVersion[string, string](ta, tb)
		case bytesForm:
			r, err = sem.CompareTag(ta, []byte(tb))
		default:
			r, err = sem.CompareTag(ta, tb)
		}
		return r, sem.Ver{}, err
	}
	var v sem.Ver
	var err error
	switch {
	case ei == 0 && bytesForm:
		v, err = sem.Latest([]byte(ta), []byte(tb))
	case ei == 0:
		v, err = sem.Latest(ta, tb)
	case ei == 1 && bytesForm:
		v, err = sem.LatestVersion(ta, []byte(tb))
	case ei == 1:
		v, err = sem.LatestVersion(ta, tb)
	case bytesForm:
		v, err = sem.LatestTag([]byte(ta), tb)
	default:
		v, err = sem.LatestTag(ta, tb)
	}
	return 0, v, err
}

func svPartsVer(p svParts) sem.Ver {
	M, _ := strconv.ParseUint(p.M, 10, 64)
	m, _ := strconv.ParseUint(p.m, 10, 64)
	pp, _ := strconv.ParseUint(p.p, 10, 64)
	return sem.Ver{Major: M, Minor: m, Patch: pp, PreRelease: p.pre, Build: p.build}
}

// svCheckHelpers: each string helper on two arbitrary texts returns what comparing the values the texts
// denote returns, or an error (result zero) exactly when a text is invalid for that helper.
func svCheckHelpers(a *svAcc, ta, tb string, bytesForm bool) {
	ml := sem.MaxInputLength
	for ei := 0; ei < 3; ei++ {
		e := &svEntries[ei]
		ca, pa := svExpect(e, ml, ta)
		cb, pb := svExpect(e, ml, tb)
		wantErr := ""
		if ca != "ok" {
			wantErr = ca
		} else if cb != "ok" {
			wantErr = cb
		}
		for kind := 0; kind < 2; kind++ {
			op := []string{"sem.cmpstr ", "sem.latest "}[kind]
			line := op + e.name + " " + strconv.Itoa(ml) + " " + hx([]byte(ta)) + " " + hx([]byte(tb))
			r, l, err := svHelperCall(kind, ei, ta, tb, bytesForm)
			if wantErr != "" {
				if err == nil {
					a.fail("C14.helper.accept", line, "%q %q: no error, expected %s", ta, tb, wantErr)
				} else {
					if cls := semErrClass(err); cls != wantErr {
						a.fail("C14.helper.errclass", line, "%q %q: %s, expected %s", ta, tb, cls, wantErr)
					}
					if r != 0 || l != (sem.Ver{}) {
						a.fail("C14.helper.zero", line, "%q %q: %d %+v next to error", ta, tb, r, l)
					}
				}
				continue
			}
			if err != nil {
				a.fail("C14.helper.reject", line, "%q %q: %v", ta, tb, err)
				continue
			}
			va, vb := svPartsVer(pa), svPartsVer(pb)
			if kind == 0 && r != va.Compare(vb) {
				a.fail("C14.helper.cmp", line, "%q %q: %d, values compare %d", ta, tb, r, va.Compare(vb))
			}
			if kind == 1 {
				cmp := va.Compare(vb)
				if (l != va && l != vb) || (cmp == -1 && l != vb) || (cmp == 1 && l != va) {
					a.fail("C14.helper.latest", line, "%q %q: %+v, values compare %d (Ver.Latest gives %+v)", ta, tb, l, cmp, va.Latest(vb))
				}
			}
		}
	}
}

// svSpoil makes a version text that is (usually) invalid for some or all helpers.
func svSpoil(r *Rng, t string) string {
	switch r.Intn(12) {
	case 0:
		return ""
	case 1:
		return "v" + t
	case 2:
		return strings.TrimPrefix(t, "v")
	case 3:
		return strings.Replace(t, ".", "", 1)
	case 4:
		return strings.Replace(t, ".", ".0", 1) // leading zero unless the component is followed by nothing
	case 5:
		return t + "."
	case 6:
		return "18446744073709551616" + t[strings.IndexByte(t, '.'):]
	case 7:
		return t + "+"
	case 8:
		return " " + t
	case 9:
		i := strings.IndexByte(t, '.')
		return t[:i+1] + "18446744073709551616" + t[i+1+strings.IndexByte(t[i+1:], '.'):]
	}
	return svMutate(r, t)
}

func propC14(c *Ctx) {
	defer svSetMax(1024)()
	defer svTuneGC()()
	acc := &svAcc{c: c, mu: &sync.Mutex{}}
	maxLen, opStripe, helperStripe := 4, 110, 60
	if c.Thorough {
		maxLen, opStripe, helperStripe = 5, 640, 500
	}
	uni := svUniverse(maxLen, append(append([]string{}, svExtras...), svMixed...))
	n := len(uni)
	opOff, helperOff := int(c.Seed%uint64(opStripe)), int(c.Seed*5%uint64(helperStripe))
	// pair (i, j): same core for most pairs, a neighbouring core for the rest
	vers := func(i, j int) (sem.Ver, sem.Ver) {
		ca := svCores[(i+3*j)%len(svCores)]
		cb := ca
		if (i+j)%5 == 0 {
			cb = svCores[(i+3*j+1+j%3)%len(svCores)]
		}
		return svVer(ca, uni[i].s, svBuilds[(i+j)%len(svBuilds)]), svVer(cb, uni[j].s, svBuilds[(5*i+3*j+1)%len(svBuilds)])
	}

	// 1. all ordered pairs, including the mixed alphanumeric identifiers C06 leaves out
	rows := make([]svRow, n)
	svRows(n, func(i int) {
		var local svRow
		row := &local
		defer func() { rows[i] = local }()
		for j := 0; j < n; j++ {
			row.n++
			va, vb := vers(i, j)
			spec, ex := svSpecCmpVer([3]uint64{va.Major, va.Minor, va.Patch}, [3]uint64{vb.Major, vb.Minor, vb.Patch}, &uni[i], &uni[j])
			if ex {
				row.excl++
			}
			svCheckOrder(acc, va, vb, svBuilds[(i+2*j+2)%len(svBuilds)], i+j, spec, !ex)
			h := i*131 + j
			if h%helperStripe == helperOff {
				row.helpers++
				ta, tb := svText(va), svText(vb)
				if h/helperStripe%2 == 0 {
					ta = "v" + ta
				}
				if h/helperStripe%3 == 0 {
					tb = "v" + tb
				}
				svCheckHelpers(acc, ta, tb, h/helperStripe%4 == 1)
			}
			if h%opStripe == opOff {
				row.ops = append(row.ops, int32(j))
			}
		}
	})
	var pairs, excl, helpers int64
	k := 0
	for i := range rows {
		pairs += rows[i].n
		excl += rows[i].excl
		helpers += rows[i].helpers
		for _, j := range rows[i].ops {
			k++
			va, vb := vers(i, int(j))
			svEmitCmp(c, va, vb, k, 1024)
		}
	}
	svCount(c, pairs)
	c.Note("universe: %d pre-release texts (C06 universe up to length %d + %d mixed identifiers); %d ordered pairs (%d inside C06's excluded region, checked for coherence only), %d pairs through the six string helpers",
		n, maxLen, len(svMixed), pairs, excl, helpers)

	// 2. the mixed identifiers against each other, every core pair of a small set, all helpers, all ops
	mixed := append([]string{"", "a", "rc", "a0", "a2"}, svMixed...)
	mp := make([]svPre, len(mixed))
	for i, s := range mixed {
		mp[i] = svParsePre(s)
	}
	small := [][3]uint64{{1, 0, 0}, {1, 0, 1}, {svM, svM, svM}}
	nm := 0
	for i := range mixed {
		for j := range mixed {
			for ia, ca := range small {
				for ib, cb := range small {
					if ia != ib && (i+j)%4 != 0 {
						continue
					}
					va, vb := svVer(ca, mixed[i], svBuilds[(i+ia)%len(svBuilds)]), svVer(cb, mixed[j], svBuilds[(j+ib+1)%len(svBuilds)])
					spec, ex := svSpecCmpVer(ca, cb, &mp[i], &mp[j])
					nm++
					svCheckOrder(acc, va, vb, "q", i+j+ia, spec, !ex)
					svCheckOrder(acc, va, vb, "q.0", i+j+ia+1, spec, !ex)
					svCheckOrder(acc, va, vb, "-", 8*(i+j+ia)+2, spec, !ex)
					svCheckHelpers(acc, svText(va), svText(vb), false)
					svCheckHelpers(acc, "v"+svText(va), "v"+svText(vb), true)
					svCheckHelpers(acc, "v"+svText(va), svText(vb), false)
					k++
					svEmitCmp(c, va, vb, k, 1024)
					if ia == ib {
						c.Op("sem.cmppre " + hx([]byte(mixed[i])) + " " + hx([]byte(mixed[j])))
					}
				}
			}
		}
	}
	svCount(c, int64(nm))

	// 2'. late differences (long identifiers, long numbers, long lists): coherence, helpers, ops
	for i, p := range svLatePairs() {
		pa, pb := svParsePre(p.a), svParsePre(p.b)
		va, vb := svLateVers(p, i)
		spec, ex := svSpecCmpVer([3]uint64{va.Major, va.Minor, va.Patch}, [3]uint64{vb.Major, vb.Minor, vb.Patch}, &pa, &pb)
		c.Check("late " + p.a + " " + p.b)
		svCheckOrder(acc, va, vb, "q.0", i, spec, !ex)
		if i%3 == 0 {
			ml := 1024
			if len(svText(va))+1 > 1024 || len(svText(vb))+1 > 1024 {
				ml = 0
			}
			func() {
				defer svSetMax(ml)()
				svCheckHelpers(acc, svText(va), "v"+svText(vb), i%2 == 0)
			}()
			svCheckNext(acc, va, &pa)
			k++
			svEmitCmp(c, va, vb, k, ml)
		}
	}
	// 2''. near misses of hand-picked texts through every string helper
	svHelperNearMisses(c, acc)

	// 3. string helpers on invalid texts: an error exactly when a text is invalid for the helper
	nSp := 6000
	if c.Thorough {
		nSp = 120000
	}
	for t := 0; t < nSp; t++ {
		i, j := c.R.Intn(n), c.R.Intn(n)
		va, vb := vers(i, j)
		ta, tb := svText(va), svText(vb)
		if c.R.Bool() {
			ta, tb = "v"+ta, "v"+tb
		}
		switch c.R.Intn(4) {
		case 0:
			ta = svSpoil(c.R, ta)
		case 1:
			tb = svSpoil(c.R, tb)
		case 2:
			ta, tb = svSpoil(c.R, ta), svSpoil(c.R, tb)
		}
		ml := 1024
		if c.R.Intn(8) == 0 {
			ml = []int{0, len(ta), len(tb), len(ta) - 1, len(tb) - 1, 5}[c.R.Intn(6)]
			if ml < 0 {
				ml = 0
			}
		}
		c.Check("spoil " + strconv.Itoa(ml) + " " + ta + " " + tb)
		func() {
			defer svSetMax(ml)()
			svCheckHelpers(acc, ta, tb, t%2 == 0)
		}()
		if t < 12000 || t%6 == 0 {
			k++
			c.Op([]string{"sem.cmpstr ", "sem.latest "}[k%2] + svHelperEntries[k/2%3] + " " + strconv.Itoa(ml) + " " + hx([]byte(ta)) + " " + hx([]byte(tb)))
		}
	}

	// 4. random valid versions with full-range components (limit disabled: long identifier lists)
	restore := svSetMax(0)
	nRand := 20000
	if c.Thorough {
		nRand = 300000
	}
	for t := 0; t < nRand; t++ {
		pa := ""
		if c.R.Intn(5) != 0 {
			pa = svGenList(c.R, svListLen(c.R), svGenPreIdent)
		}
		pb := svRelatedPre(c.R, pa)
		if c.R.Intn(6) == 0 {
			pb = ""
		}
		ca := [3]uint64{svGenU64(c.R), svGenU64(c.R), svGenU64(c.R)}
		cb := ca
		switch c.R.Intn(6) {
		case 0:
			cb[c.R.Intn(3)] = svGenU64(c.R)
		case 1:
			cb[c.R.Intn(3)]++
		case 2:
			cb[c.R.Intn(3)]--
		}
		ba, bb := "", ""
		if c.R.Bool() {
			ba = svGenList(c.R, 1+c.R.Intn(3), svGenBuildIdent)
		}
		if c.R.Bool() {
			bb = svGenList(c.R, 1+c.R.Intn(3), svGenBuildIdent)
		}
		va, vb := svVer(ca, pa, ba), svVer(cb, pb, bb)
		a, b := svParsePre(pa), svParsePre(pb)
		spec, ex := svSpecCmpVer(ca, cb, &a, &b)
		c.Check("rand " + svText(va) + " " + svText(vb))
		svCheckOrder(acc, va, vb, "alt.1", t, spec, !ex)
		if t%4 == 0 {
			svCheckHelpers(acc, svText(va), svText(vb), t%8 == 0)
			svCheckHelpers(acc, "v"+svText(va), "v"+svText(vb), t%8 != 0)
		}
		svCheckNext(acc, va, &a)
		if t < 5000 || t%10 == 0 {
			k++
			svEmitCmp(c, va, vb, k, 0)
			c.Op(fmt.Sprintf("sem.next %s %d %d %d %s %s", svNextNames[t%3], va.Major, va.Minor, va.Patch, hx([]byte(pa)), hx([]byte(ba))))
		}
	}
	restore()

	// 5. Next* on every version of the universe, at 2^64-1 and 2^64-2 in every position
	nextCores := append([][3]uint64{{svM - 1, svM - 1, svM - 1}, {svM, svM - 1, 0}, {0, svM, svM - 1}, {svM - 1, 0, svM}, {0, 0, svM}, {0, svM, 0}}, svCores...)
	nn := 0
	for i := range uni {
		for ci, core := range nextCores {
			if !c.Thorough && i >= 64 && (i+ci)%6 != int(c.Seed%6) {
				continue
			}
			v := svVer(core, uni[i].s, svBuilds[(i+ci)%len(svBuilds)])
			nn++
			svCheckNext(acc, v, &uni[i])
			if i < 40 || (i*len(nextCores)+ci)%29 == int(c.Seed%29) {
				c.Op(fmt.Sprintf("sem.next %s %d %d %d %s %s", svNextNames[(i+ci)%3], v.Major, v.Minor, v.Patch, hx([]byte(v.PreRelease)), hx([]byte(v.Build))))
			}
		}
	}
	for _, core := range nextCores {
		for which := 0; which < 3; which++ {
			c.Op(fmt.Sprintf("sem.next %s %d %d %d - -", svNextNames[which], core[0], core[1], core[2]))
			c.Op(fmt.Sprintf("sem.next %s %d %d %d 7263 62", svNextNames[which], core[0], core[1], core[2]))
		}
	}
	svCount(c, int64(nn)*3)
	c.Note("Next*: %d versions x {major, minor, patch}, cores include 2^64-1 and 2^64-2 in every position", nn)
}

// ------------------------------------------------------------------------- long inputs, late differences, near misses
//
// Deterministic tables (never behind a stride or a probability): (1) identifier lists and single identifiers of every
// part of the grammar at lengths up to the 1024-byte input limit and beyond it with the limit lifted; (2) pre-release
// pairs whose first difference comes late (byte 10, 11, 31, 63, last; identifier 37, 64, 65, last); (3) the near misses
// a lenient implementation would forgive, applied to every hand-picked base text, for every parser entry point and every
// string helper.

var svNearBases = []string{"1.2.3", "v1.2.3", "0.0.0", "v0.0.0", "1.0.0-alpha.1", "v10.20.30-rc.1+build.5", "1.0.0+001", "18446744073709551615.0.0-0",
	"v0.1.0-x-y.z+exp.sha.5114f85", "1.0.0-rc-1", "v2.0.0+b"}

// svFullWidth replaces the first (or every) ASCII digit by its full-width form U+FF10..U+FF19.
func svFullWidth(t string, all bool) string {
	var sb strings.Builder
	done := false
	for i := 0; i < len(t); i++ {
		if svDigit(t[i]) && (all || !done) {
			sb.WriteString(string(rune(0xFF10 + int(t[i]-'0'))))
			done = true
			continue
		}
		sb.WriteByte(t[i])
	}
	return sb.String()
}

// svNearMisses: texts one forgiving step away from t (some of them are valid again: the recogniser decides).
func svNearMisses(t string) []string {
	seen := map[string]bool{t: true}
	var out []string
	add := func(s string) {
		if !seen[s] {
			seen[s] = true
			out = append(out, s)
		}
	}
	for _, w := range []string{"\n", "\r\n", " ", "\t", "\x00", "\r", "\xef\xbb\xbf", " ", "\v", "\f"} {
		add(t + w)
		add(w + t)
		add(w + t + w)
	}
	body := strings.TrimPrefix(t, "v")
	for _, p := range []string{"V", "vv", "vV", "Vv", "v", "", "=", "v ", "v.", "ｖ", "version", "v=", "^", "~"} {
		add(p + body)
	}
	add(svFullWidth(t, false))
	add(svFullWidth(t, true))
	add(t + t[len(t)-1:])
	add(t[:len(t)-1])
	add(strings.ToUpper(t))
	add(strings.ToLower(t))
	add(`"` + t + `"`)
	add("'" + t + "'")
	add(strings.Replace(t, ".", ". ", 1))
	add(strings.Replace(t, ".", ",", 1))
	add(strings.Replace(t, ".", "..", 1))
	add(strings.Replace(t, "-", "_", 1))
	add(strings.Replace(t, "-", "--", 1))
	add(strings.Replace(t, "+", " ", 1))
	add(strings.Replace(t, "+", "++", 1))
	add(t + ".")
	add(t + "-")
	add(t + "+")
	add(t + ".0")
	add("0" + t)
	add("+" + t)
	add("-" + t)
	return out
}

var svLongCyc = []string{"a", "7", "b2", "-", "0", "x-y", "10", "Z"}

// svLongList: n identifiers, valid for a pre-release and for build metadata.
func svLongList(n int) string {
	ids := make([]string, n)
	for i := range ids {
		ids[i] = svLongCyc[i%len(svLongCyc)]
	}
	return strings.Join(ids, ".")
}

const svLongAlpha = "feature-login-page-abcdefghijklmnopqrstuvwxyzABCDEFGHIJKLMNOPQRSTUVWXYZ-"

// svLongIdent: an alphanumeric identifier of n bytes (starts with a letter, no digits at all).
func svLongIdent(n int) string {
	b := make([]byte, n)
	for i := range b {
		b[i] = svLongAlpha[i%len(svLongAlpha)]
	}
	return string(b)
}

var (
	svListLens  = []int{37, 38, 63, 64, 65, 66, 100, 127, 128, 129, 200, 255, 256, 257, 300, 400}
	svIdentLens = []int{9, 10, 11, 12, 15, 16, 17, 31, 32, 33, 63, 64, 65, 100, 127, 128, 129, 200, 255, 256, 257, 500, 1000}
)

// svLongTexts: version texts (no v) whose pre-release / build lists or single identifiers / core numbers are long.
// Valid and invalid ones; the recogniser decides. Texts above 1024 bytes are meant for a lifted limit.
func svLongTexts() []string {
	var out []string
	for _, n := range svListLens {
		l := svLongList(n)
		out = append(out, "1.2.3-"+l, "1.2.3+"+l, "1.2.3-rc.1+"+l, "1.2.3-"+l+"+b", "1.2.3-"+svLongList(n/2)+"+"+svLongList(n-n/2),
			"1.2.3-"+l+".01", "1.2.3+"+l+".01", "1.2.3-"+l+".", "1.2.3+"+l+"..a", "1.2.3+"+svLongList(n-1)+".é", "1.2.3-"+l+"+")
	}
	for _, n := range svIdentLens {
		a, z, nine := svLongIdent(n), strings.Repeat("0", n), strings.Repeat("9", n)
		out = append(out, "1.2.3-"+a, "1.2.3+"+a, "1.2.3-x."+a, "1.2.3+x."+a, "1.2.3+"+z, "1.2.3-"+z, "1.2.3-1"+z[1:], "1.2.3+"+nine, "1.2.3-"+nine,
			"1.2.3-"+a+"_", "1.2.3+"+a+"_", "1"+z[1:]+".2.3", "1.1"+z[1:]+".3", "1.2.1"+z[1:], "0"+nine+".2.3")
	}
	return out
}

// svNearAndLongC03 runs the tables through the five parser entry points (and UnmarshalText, inside svCheckParse).
func svNearAndLongC03(c *Ctx, acc *svAcc) {
	nrule := 0
	all := func(s string, ml int) {
		c.Check("table " + strconv.Itoa(ml) + " " + s)
		svCheckParseML(acc, s, ml)
		for ei := range svEntries {
			c.Op(svParseLine(svEntries[ei].name, ml, s))
		}
		nrule++
		for k := 0; k < 2; k++ {
			c.Op(svParseLine("Default:"+strconv.Itoa(svRuleValues[(2*nrule+k)%len(svRuleValues)]), ml, s))
		}
	}
	for _, b := range svNearBases {
		all(b, 1024)
		for _, s := range svNearMisses(b) {
			all(s, 1024)
		}
	}
	k := 0
	for _, s := range svLongTexts() {
		for _, t := range []string{s, "v" + s} {
			k++
			ml := 1024
			if len(t) > 1024 {
				ml = 0
			}
			c.Check("long " + t)
			svCheckParseML(acc, t, ml)
			c.Op(svParseLine(svEntries[k%5].name, ml, t))
			c.Op(svParseLine("Default", ml, t))
			if len(t) <= 1024 && k%3 == 0 {
				svCheckParseML(acc, t, 0)
				svCheckParseML(acc, t, len(t))
			}
		}
	}
}

// svLongFieldValues: version values whose PreRelease / Build are long (for Valid <=> round trip).
func svLongFieldValues() []sem.Ver {
	var out []sem.Ver
	for _, n := range svListLens {
		l := svLongList(n)
		out = append(out, sem.Ver{Major: 1, Build: l}, sem.Ver{Minor: 2, PreRelease: l}, sem.Ver{Patch: 3, PreRelease: "rc.1", Build: l},
			sem.Ver{Major: 1, Build: l + ".01"}, sem.Ver{Major: 1, PreRelease: l + ".01"}, sem.Ver{Major: 1, Build: l + "."}, sem.Ver{Major: 1, PreRelease: "a", Build: l + "..b"})
	}
	for _, n := range svIdentLens {
		a, z := svLongIdent(n), strings.Repeat("0", n)
		out = append(out, sem.Ver{Major: 1, Build: a}, sem.Ver{Major: 1, PreRelease: a}, sem.Ver{Major: 1, Build: z}, sem.Ver{Major: 1, PreRelease: z},
			sem.Ver{Major: 1, PreRelease: "1" + z[1:]}, sem.Ver{Major: 1, Build: a + "_"}, sem.Ver{Major: 1, PreRelease: "x." + a + ".y", Build: "x." + a})
	}
	return out
}

type svPrePair struct{ a, b string }

// svLatePairs: valid pre-release pairs whose first difference comes late.
func svLatePairs() []svPrePair {
	var out []svPrePair
	add := func(a, b string) {
		out = append(out, svPrePair{a, b}, svPrePair{b, a})
	}
	for _, n := range svIdentLens {
		if n > 300 {
			continue
		}
		a := svLongIdent(n)
		for _, pos := range []int{9, 10, 11, 15, 16, 30, 31, 32, 62, 63, 64, n - 2, n - 1} {
			if pos < 1 || pos >= n {
				continue
			}
			b := []byte(a)
			if b[pos] == 'q' {
				b[pos] = 'Q'
			} else {
				b[pos] = 'q' // letters on both sides: outside the excluded departure
			}
			add(a, string(b))
			add("rc."+a+".1", "rc."+string(b)+".1")
		}
		add(a, a+"x")
		add(a, a+"-")
		add(a, a[:n-1])
		add(a+".1", a+".2")
		add(a, a)
	}
	for _, d := range []int{19, 20, 21, 26, 27, 28, 30, 38, 39, 40, 64, 100, 300} {
		n1 := "1" + strings.Repeat("0", d-1)
		n2 := n1[:d-1] + "1"
		n3 := n1[:d/2] + "1" + n1[d/2+1:]
		add(n1, n2)
		add(n1, n3)
		add(n2, n3)
		add(n1, n1+"0")
		add(strings.Repeat("9", d), n1+"0")
		add(strings.Repeat("9", d), n1)
		add("x."+n1+".y", "x."+n2+".y")
		add(n1, n1+"a")
		add(n1, "a")
	}
	for _, n := range svListLens {
		l := svLongList(n)
		ids := strings.Split(l, ".")
		for _, at := range []int{36, 37, 63, 64, 65, n - 1} {
			if at >= n {
				continue
			}
			m := append([]string{}, ids...)
			if m[at] == "0" {
				m[at] = "1"
			} else if svAllDigits(m[at]) {
				m[at] = m[at] + "1"
			} else {
				m[at] = m[at] + "q"
			}
			add(l, strings.Join(m, "."))
		}
		add(l, l+".0")
		add(l, l+".a")
		add(l, strings.Join(ids[:n-1], "."))
		add(l, l)
	}
	return out
}

// svLateVers builds the two versions of the k-th late pair (same core, varying build metadata).
func svLateVers(p svPrePair, k int) (sem.Ver, sem.Ver) {
	core := svCores[k%5] // small cores: the texts stay below 1024 bytes for the 1024-limit runs
	return svVer(core, p.a, svBuilds[k%len(svBuilds)]), svVer(core, p.b, svBuilds[(k+3)%len(svBuilds)])
}

// svHelperNearMisses: every near miss of every base text through the six string helpers, in both argument positions.
func svHelperNearMisses(c *Ctx, acc *svAcc) {
	k := 0
	for _, base := range svNearBases {
		for _, nm := range append([]string{base}, svNearMisses(base)...) {
			for _, other := range []string{"1.0.0-rc.1", "v1.0.0-rc.1"} {
				c.Check("helper-near " + nm + " " + other)
				svCheckHelpers(acc, nm, other, false)
				svCheckHelpers(acc, other, nm, true)
				svCheckHelpers(acc, nm, nm, false)
				for _, e := range svHelperEntries {
					k++
					ha, hb := hx([]byte(nm)), hx([]byte(other))
					if k%2 == 0 {
						ha, hb = hb, ha
					}
					c.Op("sem.cmpstr " + e + " 1024 " + ha + " " + hb)
					c.Op("sem.latest " + e + " 1024 " + hb + " " + ha)
				}
			}
		}
	}
}
