//go:build extra

package main

// EXTRA: exported behaviour outside the twenty properties (DESIGN.md §9.5). This file is compiled only into the
// harness that `bin/check EXTRA` builds (-tags verif,extra); the harness of C01..C20 does not contain it (extra_stub.go).
//
//   sem.new M m p [hex…]                 New with 0..n extra strings          -> ok M m p pre build | panic
//   sem.misc M m p pre build             Core, IsZero, Compare with the core  -> M m p - - iszero cmp(v,core) cmp(core,v)
//   sem.consts                           ZeroString ZeroStringTag             -> hex hex
//   date.acc y m d                       Year Month Day, Date(), Time(), Value()
//   fmtvar <pkg> <value…> <script>       every entry point that reads the package's Formatter variable
//   parservar <pkg> <receiver…> <script> <datahex>   UnmarshalText / UnmarshalJSON under a replaced Parser variable
//   constraint.info <kind>               IsFloat IsSigned Min Max SmallestNonzero SizeBytes SizeBits
//   errmsg <pkg> <funchex> <inputhex> nil|l:<len>:<max>|t:<hex>   Error() and Unwrap() of the package's parse-error type -> hex 1
//   errmsg.digit <byte>                 uu.InvalidDigitError(byte).Error()  -> hex
//   errmsg.real <pkg> <funchex> <inputhex> <max>   the error UnmarshalText returns for an input longer than the limit -> hex
//
// script (formatter): `d` = the variable keeps DefaultFormatter; `s:<outhex>:<mode>:<tag>` = a replacement that appends
// <out> and the decimal flags to the buffer, or returns the error <tag> (mode 0 never, 1 always, 2 iff flags == 0,
// 3 iff flags != 0). script (parser): `d` or `s:<v1,v2,…>:<mode>:<tag>` (mode decides on the rule argument).

import (
	"errors"
	"fmt"
	"math"
	"reflect"
	"strconv"
	"strings"
	"time"

	"go.lstv.dev/util/constraint"
	"go.lstv.dev/util/date"
	"go.lstv.dev/util/roman"
	"go.lstv.dev/util/sem"
	"go.lstv.dev/util/size"
	"go.lstv.dev/util/uu"
)

func init() { props["EXTRA"] = propEXTRA }

type scriptErr struct{ tag int }

func (e *scriptErr) Error() string { return "scripted error " + strconv.Itoa(e.tag) }

func xErrsOn(mode, arg int) bool {
	switch mode {
	case 0:
		return false
	case 1:
		return true
	case 2:
		return arg == 0
	}
	return arg != 0
}

type xScript struct {
	deflt     bool
	out       []byte
	vals      []string
	mode, tag int
	badArg    string // set by the replacement when it is called with something unexpected
}

func xParseScript(s string) *xScript {
	if s == "d" {
		return &xScript{deflt: true}
	}
	p := strings.Split(s, ":")
	if len(p) != 4 || p[0] != "s" {
		panic("bad script " + s)
	}
	return &xScript{vals: strings.Split(p[1], ","), mode: atoi(p[2]), tag: atoi(p[3])}
}

func xParseFmtScript(s string) *xScript {
	sc := xParseScript(s)
	if !sc.deflt {
		sc.out = mustHex(sc.vals[0])
	}
	return sc
}

// run is the body of a scripted formatter
func (sc *xScript) run(buf []byte, same bool, flags int) ([]byte, error) {
	if len(buf) != 0 {
		sc.badArg = "BUF"
	}
	if !same {
		sc.badArg = "VALUE"
	}
	if xErrsOn(sc.mode, flags) {
		return []byte("junk next to an error"), &scriptErr{sc.tag}
	}
	return append(append(buf, sc.out...), strconv.Itoa(flags)...), nil
}

// xField evaluates one entry point; a panic inside is the field "P"
func xField(fn func() string) (out string) {
	defer func() {
		if r := recover(); r != nil {
			out = "P"
		}
	}()
	return fn()
}

// xMarshal renders the result of MarshalText / MarshalJSON: hex, or E<tag> for the (wrapped) scripted error
func xMarshal(c *Ctx, line, prefix string, b []byte, err error) string {
	if err == nil {
		return hx(b)
	}
	var se *scriptErr
	if !errors.As(err, &se) {
		return "Eother:" + err.Error()
	}
	if b != nil {
		c.Fail("EXTRA.marshal.bytes", line, "%s returned %d bytes next to the error", prefix, len(b))
		return "E" + strconv.Itoa(se.tag) + "!BYTES"
	}
	if !strings.HasPrefix(err.Error(), prefix+": ") {
		c.Fail("EXTRA.marshal.wrap", line, "error text %q does not start with %q", err.Error(), prefix+": ")
		return "E" + strconv.Itoa(se.tag) + "!PREFIX"
	}
	return "E" + strconv.Itoa(se.tag)
}

func xUnmarshalRes(c *Ctx, line, prefix string, class func(error) string, call func() error) (res string) {
	defer func() {
		if r := recover(); r != nil {
			res = "panic"
		}
	}()
	err := call()
	if err == nil {
		return "ok"
	}
	var se *scriptErr
	if errors.As(err, &se) {
		if !strings.HasPrefix(err.Error(), prefix+": ") {
			c.Fail("EXTRA.unmarshal.wrap", line, "error text %q does not start with %q", err.Error(), prefix+": ")
			return "err custom:" + strconv.Itoa(se.tag) + "!PREFIX"
		}
		return "err custom:" + strconv.Itoa(se.tag)
	}
	return "err " + class(err)
}

func xSemVer(f []string) sem.Ver {
	return sem.Ver{Major: atou(f[0]), Minor: atou(f[1]), Patch: atou(f[2]), PreRelease: string(mustHex(f[3])), Build: string(mustHex(f[4]))}
}

func xSemStr(v sem.Ver) string {
	return fmt.Sprintf("%d %d %d %s %s", v.Major, v.Minor, v.Patch, hx([]byte(v.PreRelease)), hx([]byte(v.Build)))
}

func xJoin(sc *xScript, fields ...string) string {
	if sc != nil && sc.badArg != "" {
		return "BADARG-" + sc.badArg + " " + strings.Join(fields, " ")
	}
	return strings.Join(fields, " ")
}

// numeric constants: integers as i:<v>, floats exactly as f:<m>:<e> (value m·2^e, m odd)
func xFloatStr(x float64) string {
	if x == 0 {
		return "f:0:0"
	}
	fr, exp := math.Frexp(x)
	m := int64(fr * (1 << 53))
	e := exp - 53
	for m%2 == 0 {
		m /= 2
		e++
	}
	return fmt.Sprintf("f:%d:%d", m, e)
}

func xNumStr(v any) string {
	r := reflect.ValueOf(v)
	switch r.Kind() {
	case reflect.Float32, reflect.Float64:
		return xFloatStr(r.Float())
	case reflect.Int, reflect.Int8, reflect.Int16, reflect.Int32, reflect.Int64:
		return fmt.Sprintf("i:%d", r.Int())
	}
	return fmt.Sprintf("i:%d", r.Uint())
}

func xInfo[N constraint.Numbers]() string {
	return strings.Join([]string{b01(constraint.IsFloat[N]()), b01(constraint.IsSigned[N]()), xNumStr(constraint.Min[N]()), xNumStr(constraint.Max[N]()),
		xNumStr(constraint.SmallestNonzero[N]()), strconv.Itoa(constraint.SizeBytes[N]()), strconv.Itoa(constraint.SizeBits[N]())}, " ")
}

func xInfoKind(kind string) string {
	switch kind {
	case "int":
		return xInfo[int]()
	case "int8":
		return xInfo[int8]()
	case "int16":
		return xInfo[int16]()
	case "myInt16":
		return xInfo[myInt16]()
	case "int32":
		return xInfo[int32]()
	case "int64":
		return xInfo[int64]()
	case "uint":
		return xInfo[uint]()
	case "uint8":
		return xInfo[uint8]()
	case "uint16":
		return xInfo[uint16]()
	case "uint32":
		return xInfo[uint32]()
	case "uint64":
		return xInfo[uint64]()
	case "float32":
		return xInfo[float32]()
	case "float64":
		return xInfo[float64]()
	case "myFloat64":
		return xInfo[myFloat64]()
	}
	panic("bad kind " + kind)
}

func execExtra(c *Ctx, line string, f []string) string {
	switch f[0] {
	case "sem.new":
		if len(f) < 4 {
			return "bad-op"
		}
		var extra []string
		for _, h := range f[4:] {
			extra = append(extra, string(mustHex(h)))
		}
		return "ok " + xSemStr(sem.New(atou(f[1]), atou(f[2]), atou(f[3]), extra...))
	case "sem.misc":
		if len(f) != 6 {
			return "bad-op"
		}
		v := xSemVer(f[1:])
		keep := v
		core := v.Core()
		if v != keep {
			return "RECEIVER-CHANGED"
		}
		return fmt.Sprintf("%s %s %d %d", xSemStr(core), b01(v.IsZero()), v.Compare(core), core.Compare(v))
	case "sem.consts":
		return hx([]byte(sem.ZeroString)) + " " + hx([]byte(sem.ZeroStringTag))
	case "errmsg":
		if len(f) != 5 {
			return "bad-op"
		}
		return xErrMsg(f[1], string(mustHex(f[2])), mustHex(f[3]), f[4])
	case "errmsg.digit":
		if len(f) != 2 {
			return "bad-op"
		}
		return hx([]byte(uu.InvalidDigitError(byte(atoi(f[1]))).Error()))
	case "errmsg.real":
		if len(f) != 5 {
			return "bad-op"
		}
		msg, fn := xRealTooLong(f[1], mustHex(f[3]), atoi(f[4]))
		if fn != string(mustHex(f[2])) {
			return "FUNC-CHANGED " + fn
		}
		return hx([]byte(msg))
	case "date.acc":
		if len(f) != 4 {
			return "bad-op"
		}
		d := date.New(atoi(f[1]), time.Month(atoi(f[2])), atoi(f[3]))
		t := d.Time()
		ty, tm, td := t.Date()
		if t.Location() != time.UTC || t.Hour() != 0 || t.Minute() != 0 || t.Second() != 0 || t.Nanosecond() != 0 {
			c.Fail("EXTRA.date.time.midnight", line, "Time() = %v is not midnight UTC", t)
			return "NOT-MIDNIGHT-UTC"
		}
		val := "ok"
		v, err := d.Value()
		if tv, ok := v.(time.Time); err != nil || !ok {
			val = fmt.Sprintf("err %T %v", v, err)
		} else {
			if tv.Location() != time.UTC {
				val = "VALUE-NOT-UTC"
			}
			val += " " + strconv.FormatInt(tv.Unix(), 10)
		}
		return fmt.Sprintf("%d %d %d %s %d %d %d %d %s", d.Year(), int(d.Month()), d.Day(), dateYMD(d), t.Unix(), ty, int(tm), td, val)
	case "fmtvar":
		if len(f) < 3 {
			return "bad-op"
		}
		return execFmtVar(c, line, f)
	case "parservar":
		if len(f) < 4 {
			return "bad-op"
		}
		return execParserVar(c, line, f)
	case "constraint.info":
		if len(f) != 2 {
			return "bad-op"
		}
		return xInfoKind(f[1])
	}
	return "bad-op"
}

func execFmtVar(c *Ctx, line string, f []string) string {
	sc := xParseFmtScript(f[len(f)-1])
	sp := func(format string, v any) func() string {
		return func() string { return hx([]byte(fmt.Sprintf(format, v))) }
	}
	switch f[1] {
	case "date":
		d := date.New(atoi(f[2]), time.Month(atoi(f[3])), atoi(f[4]))
		if !sc.deflt {
			old := date.Formatter
			date.Formatter = func(buf []byte, v date.Date, fl date.Format) ([]byte, error) { return sc.run(buf, v == d, int(fl)) }
			defer func() { date.Formatter = old }()
		}
		return xJoin(sc, xField(func() string { b, err := d.MarshalText(); return xMarshal(c, line, "date.Date.MarshalText", b, err) }),
			xField(func() string { return hx([]byte(d.String())) }), xField(sp("%s", d)), xField(sp("%e", d)), xField(sp("%b", d)), xField(sp("%v", d)))
	case "roman":
		n := roman.Number(atou(f[2]))
		oldDF := roman.DefaultFormat
		roman.DefaultFormat = roman.Format(atoi(f[3]))
		defer func() { roman.DefaultFormat = oldDF }()
		if !sc.deflt {
			old := roman.Formatter
			roman.Formatter = func(buf []byte, v roman.Number, fl roman.Format) ([]byte, error) { return sc.run(buf, v == n, int(fl)) }
			defer func() { roman.Formatter = old }()
		}
		return xJoin(sc, xField(func() string { b, err := n.MarshalText(); return xMarshal(c, line, "roman.Number.MarshalText", b, err) }),
			xField(func() string { return hx([]byte(n.String())) }), xField(sp("%R", n)), xField(sp("%r", n)), xField(sp("%L", n)), xField(sp("%l", n)), xField(sp("%s", n)))
	case "sem":
		v := xSemVer(f[2:7])
		if !sc.deflt {
			old := sem.Formatter
			sem.Formatter = func(buf []byte, w sem.Ver, fl sem.Format) ([]byte, error) { return sc.run(buf, w == v, int(fl)) }
			defer func() { sem.Formatter = old }()
		}
		return xJoin(sc, xField(func() string { b, err := v.MarshalText(); return xMarshal(c, line, "sem.Ver.MarshalText", b, err) }),
			xField(func() string { return hx([]byte(v.String())) }), xField(func() string { return hx([]byte(v.StringTag())) }),
			xField(sp("%s", v)), xField(sp("%t", v)), xField(sp("%v", v)))
	case "size":
		s := size.Size(atou(f[2]))
		cfg := atoi(f[3])
		o1, o2, o3 := size.DisableMarshalTextUnit, size.DisableMarshalJSONStringForm, size.DisableMarshalJSONObjectForm
		size.DisableMarshalTextUnit, size.DisableMarshalJSONStringForm, size.DisableMarshalJSONObjectForm = cfg&1 != 0, cfg&2 != 0, cfg&4 != 0
		defer func() {
			size.DisableMarshalTextUnit, size.DisableMarshalJSONStringForm, size.DisableMarshalJSONObjectForm = o1, o2, o3
		}()
		if !sc.deflt {
			old := size.Formatter
			size.Formatter = func(buf []byte, v size.Size, fl size.Format) ([]byte, error) { return sc.run(buf, v == s, int(fl)) }
			defer func() { size.Formatter = old }()
		}
		return xJoin(sc, xField(func() string { return hx([]byte(s.String())) }), xField(func() string { return hx([]byte(s.PrettyString())) }),
			xField(func() string { return hx([]byte(s.PrettyHTML())) }),
			xField(func() string { b, err := s.MarshalText(); return xMarshal(c, line, "size.Size.MarshalText", b, err) }),
			xField(func() string { b, err := s.MarshalJSON(); return xMarshal(c, line, "size.Size.MarshalJSON", b, err) }),
			xField(func() string { return hx([]byte(s.BytesString())) }))
	case "uu":
		id := uu.ID{Higher: atou(f[2]), Lower: atou(f[3])}
		if !sc.deflt {
			old := uu.Formatter
			uu.Formatter = func(buf []byte, v uu.ID, fl uu.Format) ([]byte, error) { return sc.run(buf, v == id, int(fl)) }
			defer func() { uu.Formatter = old }()
		}
		return xJoin(sc, xField(func() string { b, err := id.MarshalText(); return xMarshal(c, line, "uu.ID.MarshalText", b, err) }),
			xField(func() string { return hx([]byte(id.String())) }), xField(func() string { return hx([]byte(id.URN())) }),
			xField(sp("%s", id)), xField(sp("%u", id)), xField(sp("%v", id)))
	}
	return "bad-op"
}

func execParserVar(c *Ctx, line string, f []string) string {
	sc := xParseScript(f[len(f)-2])
	data := mustHex(f[len(f)-1])
	sent := append([]byte(nil), data...)
	seen := func(got []byte) {
		if string(got) != string(data) {
			sc.badArg = "DATA"
		}
	}
	fail := func(r int) error {
		if xErrsOn(sc.mode, r) {
			return &scriptErr{sc.tag}
		}
		return nil
	}
	switch f[1] {
	case "date":
		recv := date.New(atoi(f[2]), time.Month(atoi(f[3])), atoi(f[4]))
		if !sc.deflt {
			val := date.New(atoi(sc.vals[0]), time.Month(atoi(sc.vals[1])), atoi(sc.vals[2]))
			old := date.Parser
			date.Parser = func(in []byte, r date.Rule) (date.Date, error) { seen(in); return val, fail(int(r)) }
			defer func() { date.Parser = old }()
		}
		res := xUnmarshalRes(c, line, "date.Date.UnmarshalText", dateErrClass, func() error { return recv.UnmarshalText(sent) })
		return xJoin(sc, res, "=", dateYMD(recv))
	case "roman":
		recv := roman.Number(atou(f[2]))
		if !sc.deflt {
			val := atou(sc.vals[0])
			old := roman.Parser
			roman.Parser = func(in []byte, r roman.Rule) (roman.Number, error) {
				seen(in)
				return roman.Number(val + 1000*uint64(r) + uint64(len(in))), fail(int(r))
			}
			defer func() { roman.Parser = old }()
		}
		res := xUnmarshalRes(c, line, "roman.Number.UnmarshalText", romanErrClass, func() error { return recv.UnmarshalText(sent) })
		return xJoin(sc, res, "=", strconv.FormatUint(uint64(recv), 10))
	case "sem":
		recv := xSemVer(f[2:7])
		if !sc.deflt {
			val := xSemVer(sc.vals)
			old := sem.Parser
			sem.Parser = func(in []byte, r sem.Rule) (sem.Ver, error) { seen(in); return val, fail(int(r)) }
			defer func() { sem.Parser = old }()
		}
		res := xUnmarshalRes(c, line, "sem.Ver.UnmarshalText", semErrClass, func() error { return recv.UnmarshalText(sent) })
		return xJoin(sc, res, "=", xSemStr(recv))
	case "size":
		oldDR := size.DefaultRule
		size.DefaultRule = size.Rule(atoi(f[3]))
		defer func() { size.DefaultRule = oldDR }()
		recv := size.Size(atou(f[4]))
		if !sc.deflt {
			val := atou(sc.vals[0])
			old := size.Parser
			size.Parser = func(in []byte, r size.Rule) (size.Size, error) {
				seen(in)
				return size.Size(val + 1000*uint64(r) + uint64(len(in))), fail(int(r))
			}
			defer func() { size.Parser = old }()
		}
		var res string
		switch f[2] {
		case "t":
			res = xUnmarshalRes(c, line, "size.Size.UnmarshalText", sizeErrClass, func() error { return recv.UnmarshalText(sent) })
		case "j":
			res = xUnmarshalRes(c, line, "size.Size.UnmarshalJSON", sizeErrClass, func() error { return recv.UnmarshalJSON(sent) })
		default:
			return "bad-op"
		}
		return xJoin(sc, res, "=", strconv.FormatUint(uint64(recv), 10))
	case "uu":
		recv := uu.ID{Higher: atou(f[2]), Lower: atou(f[3])}
		if !sc.deflt {
			val := uu.ID{Higher: atou(sc.vals[0]), Lower: atou(sc.vals[1])}
			old := uu.Parser
			uu.Parser = func(in []byte, r uu.Rule) (uu.ID, error) { seen(in); return val, fail(int(r)) }
			defer func() { uu.Parser = old }()
		}
		res := xUnmarshalRes(c, line, "uu.ID.UnmarshalText", uuErrClass, func() error { return recv.UnmarshalText(sent) })
		return xJoin(sc, res, "=", fmt.Sprintf("%d %d", recv.Higher, recv.Lower))
	}
	return "bad-op"
}

// xErrMsg builds the package's exported parse-error value (string and []byte instantiation must agree) and renders it
func xErrMsg(pkg, fn string, input []byte, cause string) string {
	var base, err error
	switch p := strings.Split(cause, ":"); p[0] {
	case "nil":
	case "l":
		switch pkg {
		case "date":
			base = date.ErrInputTooLong
		case "sem":
			base = sem.ErrInputTooLong
		case "roman":
			base = roman.ErrInputTooLong
		case "uu":
			base = uu.ErrInputTooLong
		case "size":
			base = size.ErrInputTooLong
		}
		err = fmt.Errorf("%w: %d > %d", base, atoi(p[1]), atoi(p[2]))
	case "t":
		err = errors.New(string(mustHex(p[1])))
	default:
		return "bad-op"
	}
	var es, eb error
	switch pkg {
	case "date":
		es, eb = &date.ParseError[string]{Func: fn, Input: string(input), Err: err}, &date.ParseError[[]byte]{Func: fn, Input: input, Err: err}
	case "sem":
		es, eb = &sem.ParseError[string]{Func: fn, Input: string(input), Err: err}, &sem.ParseError[[]byte]{Func: fn, Input: input, Err: err}
	case "roman":
		es, eb = &roman.NumberFormatError[string]{Func: fn, Input: string(input), Err: err}, &roman.NumberFormatError[[]byte]{Func: fn, Input: input, Err: err}
	case "uu":
		es, eb = &uu.ParseError[string]{Func: fn, Input: string(input), Err: err}, &uu.ParseError[[]byte]{Func: fn, Input: input, Err: err}
	case "size":
		es, eb = &size.ParseError[string]{Func: fn, Input: string(input), Err: err}, &size.ParseError[[]byte]{Func: fn, Input: input, Err: err}
	default:
		return "bad-op"
	}
	if es.Error() != eb.Error() {
		return "STRING-BYTES-DIFFER " + hx([]byte(es.Error())) + " " + hx([]byte(eb.Error()))
	}
	unwrapOK := errors.Unwrap(es) == err && errors.Unwrap(eb) == err && (base == nil || (errors.Is(es, base) && errors.Is(eb, base)))
	return hx([]byte(es.Error())) + " " + b01(unwrapOK)
}

// xRealTooLong runs UnmarshalText of the package on an input longer than the limit max and returns the message and
// the Func field of the typed error it gets
func xRealTooLong(pkg string, input []byte, max int) (msg, fn string) {
	var err error
	switch pkg {
	case "date":
		old := date.MaxInputLength
		date.MaxInputLength = max
		var v date.Date
		err = v.UnmarshalText(input)
		date.MaxInputLength = old
		var e *date.ParseError[[]byte]
		if errors.As(err, &e) && errors.Is(err, date.ErrInputTooLong) && len(e.Input) == 0 {
			fn = e.Func
		}
	case "sem":
		old := sem.MaxInputLength
		sem.MaxInputLength = max
		var v sem.Ver
		err = v.UnmarshalText(input)
		sem.MaxInputLength = old
		var e *sem.ParseError[[]byte]
		if errors.As(err, &e) && errors.Is(err, sem.ErrInputTooLong) && len(e.Input) == 0 {
			fn = e.Func
		}
	case "roman":
		old := roman.MaxInputLength
		roman.MaxInputLength = max
		var v roman.Number
		err = v.UnmarshalText(input)
		roman.MaxInputLength = old
		var e *roman.NumberFormatError[[]byte]
		if errors.As(err, &e) && errors.Is(err, roman.ErrInputTooLong) && len(e.Input) == 0 {
			fn = e.Func
		}
	case "uu":
		old := uu.MaxInputLength
		uu.MaxInputLength = max
		var v uu.ID
		err = v.UnmarshalText(input)
		uu.MaxInputLength = old
		var e *uu.ParseError[[]byte]
		if errors.As(err, &e) && errors.Is(err, uu.ErrInputTooLong) && len(e.Input) == 0 {
			fn = e.Func
		}
	case "size":
		old := size.MaxInputLength
		size.MaxInputLength = max
		var v size.Size
		err = v.UnmarshalText(input)
		size.MaxInputLength = old
		var e *size.ParseError[[]byte]
		if errors.As(err, &e) && errors.Is(err, size.ErrInputTooLong) && len(e.Input) == 0 {
			fn = e.Func
		}
	}
	if err == nil {
		return "NO-ERROR", "?"
	}
	if fn == "" {
		return err.Error(), "?untyped"
	}
	return err.Error(), fn
}

// ------------------------------------------------------------------------------------------------ generators and direct oracles

// xExpect runs one op line and compares the implementation's answer with an expectation computed here
func xExpect(c *Ctx, key, line, want string) {
	got := c.Op(line)
	c.Check(line)
	if got != want {
		c.Fail(key, line, "implementation: %s; expected: %s", got, want)
	}
}

var xU64 = []uint64{0, 1, 2, 9, 10, 255, 65535, 1<<32 - 1, 1 << 32, 1<<63 - 1, 1 << 63, math.MaxUint64 - 1, math.MaxUint64}

// strings for the PreRelease / Build fields: valid, invalid, empty, with the separators of the text form
var xIdents = []string{"", "a", "alpha", "alpha.1", "0", "01", "1.2.3", "-", "rc-1", "+", "a+b", "a-b", ".", "..", "x.", "v", "0.0.0", "\x00", "\xff\xfe", "ä", "A.B", "1-", "b c"}

// xN is the number of random draws of a loop: q in the quick tier, t in the thorough one
func xN(c *Ctx, q, t int) int {
	if c.Thorough {
		return t
	}
	return q
}

func propEXTRA(c *Ctx) {
	xSem(c)
	xDate(c)
	xFmtVars(c)
	xParserVars(c)
	xConstraint(c)
	xErrMsgs(c)
}

// xErrMsgs: the exported error types with every kind of cause and ASCII inputs (control bytes, quotes, backslashes), and the
// real too-long errors of UnmarshalText under several limits; a direct oracle checks that the real message does not
// contain the input and is the same for two different inputs of one length
func xErrMsgs(c *Ctx) {
	for b := 0; b < 256; b++ { // uu.InvalidDigitError: every byte value
		c.Op(fmt.Sprintf("errmsg.digit %d", b))
	}
	pkgs := []string{"date", "sem", "roman", "uu", "size"}
	inputs := [][]byte{nil, []byte("x"), []byte("2024-02-30"), []byte("a\"b\\c"), []byte("\x00\x01\a\b\f\n\r\t\v\x1f\x7f"), []byte(" ~!'`"), []byte("1.2.3-rc+b")}
	n := xN(c, 40, 2000)
	for i := 0; i < n; i++ {
		b := make([]byte, c.R.Intn(12)+1)
		for j := range b {
			b[j] = byte(c.R.Intn(128))
		}
		inputs = append(inputs, b)
	}
	funcs := []string{"Parse", "DefaultParser", "", "Date.UnmarshalText", "x y"}
	causes := []string{"nil", "l:11:10", "l:0:0", "l:9223372036854775807:1", "t:" + hx([]byte("boom")), "t:-", "t:" + hx([]byte("a: \"q\""))}
	for _, p := range pkgs {
		for i, in := range inputs {
			for k, cause := range causes {
				if i >= 7 && k != i%len(causes) {
					continue
				}
				c.Op(fmt.Sprintf("errmsg %s %s %s %s", p, hxOrDash([]byte(funcs[(i+k)%len(funcs)])), hxOrDash(in), cause))
			}
		}
		for _, max := range []int{1, 2, 9, 10, 45, 128, 1024} {
			for _, over := range []int{1, 2, 7, 100} {
				mk := func() []byte {
					b := make([]byte, max+over)
					for j := range b {
						b[j] = byte('!' + c.R.Intn(90))
					}
					return b
				}
				in1, in2 := mk(), mk()
				m1, fn := xRealTooLong(p, in1, max)
				m2, _ := xRealTooLong(p, in2, max)
				line := fmt.Sprintf("errmsg.real %s %s %s %d", p, hxOrDash([]byte(fn)), hx(in1), max)
				c.Op(line)
				c.Check(line)
				if m1 != m2 {
					c.Fail("EXTRA.errmsg.content", line, "two inputs of length %d get different messages: %q / %q", max+over, m1, m2)
				}
				if len(in1) >= 4 && strings.Contains(m1, string(in1[:4])) {
					c.Fail("EXTRA.errmsg.echo", line, "the too-long message reproduces the input: %q", m1)
				}
			}
		}
	}
}

func hxOrDash(b []byte) string {
	if len(b) == 0 {
		return "-"
	}
	return hx(b)
}

func xSem(c *Ctx) {
	// New: 0..4 extra strings; the first is PreRelease, the second Build, a third one panics
	nums := append([]uint64{}, xU64...)
	for i := 0; i < xN(c, 6, 60); i++ {
		nums = append(nums, c.R.Next())
	}
	pick := func(i int) uint64 { return nums[(i*7+3)%len(nums)] }
	n := 0
	for _, ma := range nums {
		for k := 0; k <= 4; k++ {
			for rep := 0; rep < 6; rep++ {
				n++
				mi, pa := pick(n), pick(n*3+1)
				if rep == 0 {
					mi, pa = ma, ma
				}
				extra := make([]string, k)
				for j := range extra {
					extra[j] = xIdents[(n*5+j*11+rep)%len(xIdents)]
					if rep == 1 {
						extra[j] = ""
					}
				}
				line := fmt.Sprintf("sem.new %d %d %d", ma, mi, pa)
				for _, e := range extra {
					line += " " + hx([]byte(e))
				}
				want := "panic"
				if k <= 2 {
					pre, build := "", ""
					if k >= 1 {
						pre = extra[0]
					}
					if k == 2 {
						build = extra[1]
					}
					want = fmt.Sprintf("ok %d %d %d %s %s", ma, mi, pa, hx([]byte(pre)), hx([]byte(build)))
				}
				xExpect(c, "EXTRA.sem.new", line, want)
			}
		}
	}
	// Core, IsZero, the core against the original: one component away from zero, every identifier pair
	small := []uint64{0, 1, 2, math.MaxUint64}
	for _, ma := range small {
		for _, mi := range small {
			for _, pa := range small {
				for i, pre := range xIdents {
					for j, build := range xIdents {
						if !(ma == 0 && mi == 0 && pa == 0) && (i*len(xIdents)+j)%7 != int(ma+mi+pa)%7 && pre != "" && build != "" {
							continue
						}
						zero := ma == 0 && mi == 0 && pa == 0 && pre == "" && build == ""
						cmp, cmpBack := 0, 0
						if pre != "" {
							cmp, cmpBack = -1, 1 // a pre-release precedes its core version (semver.org §11.3)
						}
						xExpect(c, "EXTRA.sem.core", fmt.Sprintf("sem.misc %d %d %d %s %s", ma, mi, pa, hx([]byte(pre)), hx([]byte(build))),
							fmt.Sprintf("%d %d %d - - %s %d %d", ma, mi, pa, b01(zero), cmp, cmpBack))
					}
				}
			}
		}
	}
	xExpect(c, "EXTRA.sem.consts", "sem.consts", hx([]byte("0.0.0"))+" "+hx([]byte("v0.0.0")))
	// the constants are the text of the zero version
	c.Check("sem.zero.text")
	if z := (sem.Ver{}); z.String() != sem.ZeroString || z.StringTag() != sem.ZeroStringTag || !z.IsZero() || sem.New(0, 0, 0) != z {
		c.Fail("EXTRA.sem.consts", "sem.consts", "zero version renders as %q / %q", z.String(), z.StringTag())
	}
}

func xDate(c *Ctx) {
	epoch := ordinal(1970, 1, 1)
	valid := func(y, m, d int) {
		u := (ordinal(y, m, d) - epoch) * 86400
		xExpect(c, "EXTRA.date.acc", fmt.Sprintf("date.acc %d %d %d", y, m, d), fmt.Sprintf("%d %d %d %d %d %d %d %d %d %d ok %d", y, m, d, y, m, d, u, y, m, d, u))
	}
	years := append([]int{}, boundaryYears...)
	years = append(years, -1, -4, -100, -400, -9999, 10000, 99999, 292277026, -292277022, math.MaxInt32, math.MinInt32+1, math.MinInt32+2)
	for i := 0; i < xN(c, 12, 400); i++ {
		years = append(years, c.R.Intn(20000)-5000)
	}
	for i := 0; i < xN(c, 4, 100); i++ {
		years = append(years, int(int32(c.R.Next()))) // anywhere in int32
	}
	for _, y := range years {
		for m := 1; m <= 12; m++ {
			for _, d := range []int{1, 2, 15, 28, 29, 30, 31} {
				if d <= dim(y, m) {
					valid(y, m, d)
				}
			}
		}
	}
	// unnormalised arguments and years beyond int32: judged by package time (year kept within int32 for the expectation)
	for _, y := range []int{-1, 0, 1, 1999, 2024, 9999, math.MaxInt32 - 1, math.MinInt32 + 3} {
		for _, m := range []int{-25, -12, -1, 0, 1, 12, 13, 14, 24, 25} {
			for _, d := range []int{-366, -31, -1, 0, 1, 31, 32, 60, 366, 100000} {
				t := time.Date(y, time.Month(m), d, 0, 0, 0, 0, time.UTC)
				ty, tm, td := t.Date()
				line := fmt.Sprintf("date.acc %d %d %d", y, m, d)
				if int(int32(ty)) != ty {
					c.Op(line)
					continue
				}
				xExpect(c, "EXTRA.date.acc.norm", line, fmt.Sprintf("%d %d %d %d %d %d %d %d %d %d ok %d", ty, int(tm), td, ty, int(tm), td, t.Unix(), ty, int(tm), td, t.Unix()))
			}
		}
	}
	for _, y := range []int64{math.MaxInt32 + 1, math.MaxInt32 + 2, math.MinInt32, math.MinInt32 - 1, 1 << 33, -(1 << 33)} {
		c.Op(fmt.Sprintf("date.acc %d 1 1", y))
		c.Op(fmt.Sprintf("date.acc %d 12 31", y))
		c.Op(fmt.Sprintf("date.acc %d 14 -3", y))
	}
}

// the scripted replacements of a Formatter variable
var xFmtScripts = []string{"d", "s:-:0:1", "s:414243:0:2", "s:-:1:3", "s:58:1:4", "s:2d:2:5", "s:2d:3:6", "s:c3a4220a:0:7", "s:00:2:8"}

// xFmtWant is what an entry point returns for flags fl: the script's text, or the fallback when the script errs
func xFmtWant(script string, fl int, fallback string) string {
	sc := xParseFmtScript(script)
	if sc.deflt || xErrsOn(sc.mode, fl) {
		return fallback
	}
	return hx(append(append([]byte{}, sc.out...), strconv.Itoa(fl)...))
}

func xTag(script string) string { return strconv.Itoa(xParseFmtScript(script).tag) }

func xFmtVars(c *Ctx) {
	// ---- date: MarshalText String %s %e %b %v; flags 0 except %b (FormatBasic)
	for _, d := range [][3]int{{1, 1, 1}, {0, 12, 31}, {-1, 1, 1}, {1999, 12, 31}, {2024, 2, 29}, {9999, 12, 31}, {10000, 1, 1}, {123456789, 10, 5}, {-2024, 3, 4}, {c.R.Intn(9999) + 1, c.R.Intn(12) + 1, c.R.Intn(28) + 1}} {
		dd := date.New(d[0], time.Month(d[1]), d[2])
		def := map[int]string{}
		for _, fl := range []int{0, 1} {
			b, _ := date.DefaultFormatter(nil, dd, date.Format(fl))
			def[fl] = hx(b)
		}
		for _, s := range xFmtScripts {
			mt := xFmtWant(s, 0, "E"+xTag(s))
			if s == "d" {
				mt = def[0]
			}
			w := func(fl int) string { return xFmtWant(s, fl, def[fl]) }
			xExpect(c, "EXTRA.fmtvar.date", fmt.Sprintf("fmtvar date %d %d %d %s", d[0], d[1], d[2], s), strings.Join([]string{mt, w(0), w(0), w(0), w(1), w(0)}, " "))
		}
	}
	// ---- roman: MarshalText String %R %r %L %l %s under every DefaultFormat of a small set
	for _, n := range []uint64{0, 1, 4, 9, 14, 40, 90, 400, 900, 1994, 3999, 4000, uint64(c.R.Intn(5000))} {
		for _, df := range []int{0, 1, 8, 63, 64, 127, 36} {
			def := func(fl int) string {
				b, _ := roman.DefaultFormatter(nil, roman.Number(n), roman.Format(fl))
				return hx(b)
			}
			for _, s := range xFmtScripts {
				mt := xFmtWant(s, df, "E"+xTag(s))
				if s == "d" {
					mt = def(df)
				}
				w := func(fl int) string { return xFmtWant(s, fl, def(fl)) }
				xExpect(c, "EXTRA.fmtvar.roman", fmt.Sprintf("fmtvar roman %d %d %s", n, df, s), strings.Join([]string{mt, w(df), w(0), w(64), w(63), w(127), w(df)}, " "))
			}
		}
	}
	// ---- sem: MarshalText String StringTag %s %t %v
	for i, ma := range []uint64{0, 1, 10, math.MaxUint64} {
		for j, pre := range []string{"", "alpha.1", "01", "\xff"} {
			for k, build := range []string{"", "b.7", "+"} {
				v := sem.Ver{Major: ma, Minor: uint64(i + j), Patch: uint64(k) * 1000, PreRelease: pre, Build: build}
				def := func(fl int) string {
					b, _ := sem.DefaultFormatter(nil, v, sem.Format(fl))
					return hx(b)
				}
				for _, s := range xFmtScripts {
					mt := xFmtWant(s, 0, "E"+xTag(s))
					if s == "d" {
						mt = def(0)
					}
					w := func(fl int) string { return xFmtWant(s, fl, def(fl)) }
					xExpect(c, "EXTRA.fmtvar.sem", fmt.Sprintf("fmtvar sem %s %s", xSemStr(v), s), strings.Join([]string{mt, w(0), w(1), w(0), w(1), w(0)}, " "))
				}
			}
		}
	}
	// ---- uu: MarshalText String URN %s %u %v; URN never reads the variable
	for _, id := range []uu.ID{{}, {Higher: 1, Lower: 2}, {Higher: math.MaxUint64, Lower: math.MaxUint64}, {Higher: 0x0123456789ab4def, Lower: 0x8123456789abcdef}, {Higher: c.R.Next(), Lower: c.R.Next()}} {
		def := func(fl int) string {
			b, _ := uu.DefaultFormatter(nil, id, uu.Format(fl))
			return hx(b)
		}
		for _, s := range xFmtScripts {
			mt := xFmtWant(s, 0, "E"+xTag(s))
			if s == "d" {
				mt = def(0)
			}
			w := func(fl int) string { return xFmtWant(s, fl, def(fl)) }
			xExpect(c, "EXTRA.fmtvar.uu", fmt.Sprintf("fmtvar uu %d %d %s", id.Higher, id.Lower, s), strings.Join([]string{mt, w(0), def(1), w(0), w(1), w(0)}, " "))
		}
	}
	// ---- size: String PrettyString PrettyHTML MarshalText MarshalJSON BytesString under the three Disable* switches
	for _, n := range []uint64{0, 1, 999, 1000, 1023, 1024, 1025, 1536, 1 << 20, 1234567, 1 << 40, 1<<63 + 1024, math.MaxUint64, c.R.Next()} {
		plain := strconv.FormatUint(n, 10)
		def := func(fl int) string {
			b, _ := size.DefaultFormatter(nil, size.Size(n), size.Format(fl))
			return hx(b)
		}
		v, u := size.Size(n).Shorten()
		object := fmt.Sprintf(`{"value":%d,"unit":"%s"}`, v, u)
		for cfg := 0; cfg < 8; cfg++ {
			for _, s := range xFmtScripts {
				str := xFmtWant(s, 0, hx([]byte(plain)))
				if s == "d" {
					str = def(0)
				}
				pretty := func(fl int) string {
					if s == "d" {
						return def(fl)
					}
					return xFmtWant(s, fl, "P")
				}
				mtRaw, mtErr := []byte(nil), ""
				switch {
				case cfg&1 != 0:
					mtRaw = []byte(plain)
				case s == "d":
					mtRaw = mustHex(def(0))
				default:
					if w := xFmtWant(s, 0, "E"); w == "E" {
						mtErr = "E" + xTag(s)
					} else {
						mtRaw = mustHex(w)
					}
				}
				mt, mj := mtErr, mtErr
				if mtErr == "" {
					mt = hx(mtRaw)
					mj = hx([]byte(`"` + string(mtRaw) + `"`))
				}
				if cfg&4 == 0 {
					mj = hx([]byte(object))
				} else if cfg&2 != 0 {
					mj = hx([]byte(plain))
				}
				xExpect(c, "EXTRA.fmtvar.size", fmt.Sprintf("fmtvar size %d %d %s", n, cfg, s),
					strings.Join([]string{str, pretty(1), pretty(3), mt, mj, hx([]byte(plain))}, " "))
			}
		}
	}
}

func xParserVars(c *Ctx) {
	modes := []int{0, 1, 2, 3}
	res := func(mode, rule, tag int) string {
		if xErrsOn(mode, rule) {
			return "err custom:" + strconv.Itoa(tag)
		}
		return "ok"
	}
	inputs := []string{"", "x", "2024-02-29", "20240229", "MMXXIV", "1.2.3-rc.1+b", "v1.2.3", "1536", "1 KiB", `"1 KiB"`, `{"value":1,"unit":"KiB"}`,
		"00000000-0000-0001-0000-000000000002", "urn:uuid:00000000-0000-0001-0000-000000000002", "\x00", strings.Repeat("9", 200)}
	// ---- date
	for _, r := range [][3]int{{1, 1, 1}, {2000, 1, 1}, {9999, 12, 31}} {
		recv := fmt.Sprintf("%d %d %d", r[0], r[1], r[2])
		for _, in := range inputs {
			h := hx([]byte(in))
			d, err := date.DefaultParser([]byte(in), 0)
			want := "ok = " + dateYMD(d)
			if err != nil {
				want = "err " + dateErrClass(err) + " = " + recv
			}
			xExpect(c, "EXTRA.parservar.date", fmt.Sprintf("parservar date %s d %s", recv, h), want)
			for _, m := range modes {
				after := recv
				if !xErrsOn(m, 0) {
					after = "1987 6 5"
				}
				xExpect(c, "EXTRA.parservar.date", fmt.Sprintf("parservar date %s s:1987,6,5:%d:%d %s", recv, m, 40+m, h), res(m, 0, 40+m)+" = "+after)
			}
		}
	}
	// ---- roman
	for _, r := range []uint64{0, 7, 3999, math.MaxUint64} {
		for _, in := range inputs {
			h := hx([]byte(in))
			n, err := roman.DefaultParser([]byte(in), 0)
			want := fmt.Sprintf("ok = %d", uint64(n))
			if err != nil {
				want = fmt.Sprintf("err %s = %d", romanErrClass(err), r)
			}
			xExpect(c, "EXTRA.parservar.roman", fmt.Sprintf("parservar roman %d d %s", r, h), want)
			for _, m := range modes {
				after := r
				if !xErrsOn(m, 0) {
					after = 500 + uint64(len(in))
				}
				xExpect(c, "EXTRA.parservar.roman", fmt.Sprintf("parservar roman %d s:500:%d:%d %s", r, m, 50+m, h), fmt.Sprintf("%s = %d", res(m, 0, 50+m), after))
			}
		}
	}
	// ---- sem
	for _, r := range []string{"0 0 0 - -", "1 2 3 " + hx([]byte("rc.1")) + " " + hx([]byte("b")), fmt.Sprintf("%d 0 0 - -", uint64(math.MaxUint64))} {
		for _, in := range inputs {
			h := hx([]byte(in))
			v, err := sem.DefaultParser([]byte(in), 0)
			want := "ok = " + xSemStr(v)
			if err != nil {
				want = "err " + semErrClass(err) + " = " + r
			}
			xExpect(c, "EXTRA.parservar.sem", fmt.Sprintf("parservar sem %s d %s", r, h), want)
			for _, m := range modes {
				after := r
				if !xErrsOn(m, 0) {
					after = "9 8 7 3031 2b"
				}
				xExpect(c, "EXTRA.parservar.sem", fmt.Sprintf("parservar sem %s s:9,8,7,3031,2b:%d:%d %s", r, m, 60+m, h), res(m, 0, 60+m)+" = "+after)
			}
		}
	}
	// ---- uu
	for _, r := range []string{"0 0", "1 2", fmt.Sprintf("%d %d", uint64(math.MaxUint64), uint64(math.MaxUint64))} {
		for _, in := range inputs {
			h := hx([]byte(in))
			id, err := uu.DefaultParser([]byte(in), 0)
			want := fmt.Sprintf("ok = %d %d", id.Higher, id.Lower)
			if err != nil {
				want = "err " + uuErrClass(err) + " = " + r
			}
			xExpect(c, "EXTRA.parservar.uu", fmt.Sprintf("parservar uu %s d %s", r, h), want)
			for _, m := range modes {
				after := r
				if !xErrsOn(m, 0) {
					after = "77 88"
				}
				xExpect(c, "EXTRA.parservar.uu", fmt.Sprintf("parservar uu %s s:77,88:%d:%d %s", r, m, 70+m, h), res(m, 0, 70+m)+" = "+after)
			}
		}
	}
	// ---- size: UnmarshalText passes DefaultRule & RuleDisableUnit, UnmarshalJSON passes DefaultRule
	for _, r := range []uint64{0, 5, math.MaxUint64} {
		for _, dr := range []int{0, 1, 2, 4, 6, 7, 8, 15} {
			for _, which := range []string{"t", "j"} {
				rule := dr
				if which == "t" {
					rule = dr & 1
				}
				for _, in := range inputs {
					h := hx([]byte(in))
					s, err := size.DefaultParser([]byte(in), size.Rule(rule))
					want := fmt.Sprintf("ok = %d", uint64(s))
					if err != nil {
						want = fmt.Sprintf("err %s = %d", sizeErrClass(err), r)
					}
					xExpect(c, "EXTRA.parservar.size", fmt.Sprintf("parservar size %s %d %d d %s", which, dr, r, h), want)
					if len(in) > 12 && in != inputs[len(inputs)-1] {
						continue
					}
					for _, m := range modes {
						after := r
						if !xErrsOn(m, rule) {
							after = 300 + 1000*uint64(rule) + uint64(len(in))
						}
						xExpect(c, "EXTRA.parservar.size", fmt.Sprintf("parservar size %s %d %d s:300:%d:%d %s", which, dr, r, m, 80+m, h), fmt.Sprintf("%s = %d", res(m, rule, 80+m), after))
					}
				}
			}
		}
	}
}

func xConstraint(c *Ctx) {
	i := func(v int64) string { return fmt.Sprintf("i:%d", v) }
	u := func(v uint64) string { return fmt.Sprintf("i:%d", v) }
	want := map[string]string{
		"int":       "0 1 " + i(math.MinInt64) + " " + i(math.MaxInt64) + " i:1 8 64",
		"int8":      "0 1 " + i(math.MinInt8) + " " + i(math.MaxInt8) + " i:1 1 8",
		"int16":     "0 1 " + i(math.MinInt16) + " " + i(math.MaxInt16) + " i:1 2 16",
		"int32":     "0 1 " + i(math.MinInt32) + " " + i(math.MaxInt32) + " i:1 4 32",
		"int64":     "0 1 " + i(math.MinInt64) + " " + i(math.MaxInt64) + " i:1 8 64",
		"uint":      "0 0 i:0 " + u(math.MaxUint64) + " i:1 8 64",
		"uint8":     "0 0 i:0 " + u(math.MaxUint8) + " i:1 1 8",
		"uint16":    "0 0 i:0 " + u(math.MaxUint16) + " i:1 2 16",
		"uint32":    "0 0 i:0 " + u(math.MaxUint32) + " i:1 4 32",
		"uint64":    "0 0 i:0 " + u(math.MaxUint64) + " i:1 8 64",
		"float32":   "1 1 " + xFloatStr(-math.MaxFloat32) + " " + xFloatStr(math.MaxFloat32) + " " + xFloatStr(math.SmallestNonzeroFloat32) + " 4 32",
		"float64":   "1 1 " + xFloatStr(-math.MaxFloat64) + " " + xFloatStr(math.MaxFloat64) + " " + xFloatStr(math.SmallestNonzeroFloat64) + " 8 64",
		"myInt16":   "",
		"myFloat64": "",
	}
	want["myInt16"], want["myFloat64"] = want["int16"], want["float64"]
	for _, k := range []string{"int", "int8", "int16", "int32", "int64", "uint", "uint8", "uint16", "uint32", "uint64", "float32", "float64", "myInt16", "myFloat64"} {
		xExpect(c, "EXTRA.constraint", "constraint.info "+k, want[k])
	}
	// Max is the bound `size.Bytes[N]` accepts up to (integer kinds): at the bound, one above it
	for _, k := range []string{"int", "int8", "int16", "int32", "int64", "uint", "uint8", "uint16", "uint32", "uint64"} {
		max, _ := strconv.ParseUint(strings.TrimPrefix(strings.Fields(want[k])[3], "i:"), 10, 64)
		xExpect(c, "EXTRA.constraint.bytes", fmt.Sprintf("size.bytes %s %d", k, max), fmt.Sprintf("%d 1", max))
		if max != math.MaxUint64 {
			xExpect(c, "EXTRA.constraint.bytes", fmt.Sprintf("size.bytes %s %d", k, max+1), "0 0")
		}
	}
}
