package main

// Shared near-miss material for the parser streams (C01/C09 date, C02/C10 roman, C05 uu, C18 all):
//
//   * affixTexts:     valid text + suffix and prefix + valid text for line terminators, blanks, NUL, a
//                     letter, a digit, a repeated first/last byte, a BOM, a no-break space …
//   * lookalikeTexts: one ASCII digit / letter / separator of the valid text replaced by a multi-byte
//                     look-alike (Arabic-Indic, full-width, mathematical, superscript digits; full-width,
//                     Cyrillic, Greek, dotless/dotted i, Roman-numeral code points; Unicode hyphens).
//   * extRules / extFlags: rule and format values with unknown extra bits (the properties say "disabled by
//                     rule" / "selected by flag", i.e. a bit test).
//   * shipped:        the package-level defaults as the library initialises them (captured by package-level
//                     initialisers, which run before anything in the harness changes a global).
//
// Every hand-picked base text of a stream gets ALL of these (no stride, no probability); the expectation
// always comes from the stream's own independent recogniser.

import (
	"strings"
	"time"

	"go.lstv.dev/util/date"
	"go.lstv.dev/util/roman"
	"go.lstv.dev/util/sem"
	"go.lstv.dev/util/size"
	"go.lstv.dev/util/uu"
)

// shipped holds the package globals exactly as the source initialises them.
var shipped = struct {
	dateML, romanML, semML, sizeML, sizeMK, uuML int
	romanDF                                      roman.Format
	sizeRule                                     size.Rule
}{date.MaxInputLength, roman.MaxInputLength, sem.MaxInputLength, size.MaxInputLength, size.MaxObjectKeys, uu.MaxInputLength, roman.DefaultFormat, size.DefaultRule}

// affixTokens are glued after and before every valid base text.
var affixTokens = []string{"\n", "\r\n", "\r", " ", "\t", "\x00", "Z", "z", "0", "\n\n", "\r\n\r\n", "  ", "\x00\x00", "\xef\xbb\xbf", "\u00a0", "\u2028", "\u200b", "\v", "\f", ",", ";", "\"", "\\n", "0x", "+", "-", "\xff"}

// affixTexts returns base+tok and tok+base for every affix token, base with its last byte doubled, base
// with its first byte doubled, and base with a line terminator on both sides. (For the empty base the
// tokens themselves.)
func affixTexts(base string) []string {
	seen := map[string]bool{base: true}
	var out []string
	add := func(s string) {
		if !seen[s] {
			seen[s] = true
			out = append(out, s)
		}
	}
	for _, t := range affixTokens {
		add(base + t)
		add(t + base)
	}
	if base != "" {
		add(base + base[len(base)-1:])
		add(base[:1] + base)
		add("\n" + base + "\n")
		add(" " + base + " ")
		add(base + base)
		// two-sided forms: a lenient reader that strips a MATCHING pair (quotes, brackets, a token on both sides)
		// never sees its trigger in the one-sided forms above
		for _, t := range affixTokens {
			add(t + base + t)
		}
		for _, p := range affixPairs {
			add(p[0] + base + p[1])
		}
	}
	return out
}

// affixPairs are opening / closing delimiters put around every valid base text.
var affixPairs = [][2]string{{"'", "'"}, {"\"", "\""}, {"`", "`"}, {"(", ")"}, {"[", "]"}, {"{", "}"}, {"<", ">"}, {"\u00ab", "\u00bb"}, {"\u2018", "\u2019"}, {"\u201c", "\u201d"},
	{"''", "''"}, {"\\\"", "\\\""}, {"[\"", "\"]"}, {"{d '", "'}"}, {"DATE '", "'"}, {"/", "/"}, {"*", "*"}, {"_", "_"}, {"|", "|"}, {"#", "#"}}

// digit look-alikes: code point of the zero of each decimal block
var lookalikeDigitZeros = []rune{0x0660, 0x06F0, 0x0966, 0xFF10, 0x1D7CE, 0x1D7D8, 0x07C0}

var lookalikeSuper = map[byte]rune{'0': 0x2070, '1': 0x00B9, '2': 0x00B2, '3': 0x00B3, '4': 0x2074, '5': 0x2075, '6': 0x2076, '7': 0x2077, '8': 0x2078, '9': 0x2079}

// letter look-alikes beyond the full-width forms
var lookalikeLetters = map[byte][]rune{
	'I': {0x0130, 0x2160, 0x0399, 0x0406, 0x04C0}, 'i': {0x0131, 0x2170, 0x0456, 0x00ED},
	'V': {0x2164, 0x0474}, 'v': {0x2174, 0x03BD},
	'X': {0x2169, 0x0425, 0x03A7}, 'x': {0x2179, 0x0445},
	'L': {0x216C}, 'l': {0x217C, 0x04CF},
	'C': {0x216D, 0x0421, 0x03F9}, 'c': {0x217D, 0x0441},
	'D': {0x216E}, 'd': {0x217E, 0x0501},
	'M': {0x216F, 0x041C, 0x039C}, 'm': {0x217F},
	'a': {0x0430}, 'A': {0x0410, 0x0391}, 'b': {0x042C}, 'B': {0x0412, 0x0392}, 'e': {0x0435}, 'E': {0x0415, 0x0395}, 'f': {0x017F}, 'F': {0x03DC},
	'u': {0x03C5}, 'U': {0x054D}, 'r': {0x0433}, 'R': {0x01A6}, 'n': {0x0578}, 'N': {0x039D}, 'K': {0x212A}, 'k': {0x212A}, 's': {0x017F}, 'S': {0x0405},
}

var lookalikeSeparators = map[byte][]rune{
	'-': {0x2010, 0x2011, 0x2012, 0x2013, 0x2212, 0xFF0D, 0x00AD},
	':': {0xFF1A, 0x02D0, 0xA789},
	'.': {0xFF0E, 0x2024},
	'+': {0xFF0B},
}

// lookalikeTexts returns every text obtained from base by replacing exactly one ASCII digit, letter or
// separator by one of its multi-byte look-alikes.
func lookalikeTexts(base string) []string {
	var out []string
	for i := 0; i < len(base); i++ {
		ch := base[i]
		var rs []rune
		switch {
		case ch >= '0' && ch <= '9':
			for _, z := range lookalikeDigitZeros {
				rs = append(rs, z+rune(ch-'0'))
			}
			rs = append(rs, lookalikeSuper[ch])
		case ch >= 'A' && ch <= 'Z':
			rs = append(rs, 0xFF21+rune(ch-'A'))
			rs = append(rs, lookalikeLetters[ch]...)
		case ch >= 'a' && ch <= 'z':
			rs = append(rs, 0xFF41+rune(ch-'a'))
			rs = append(rs, lookalikeLetters[ch]...)
		default:
			rs = lookalikeSeparators[ch]
		}
		for _, r := range rs {
			out = append(out, base[:i]+string(r)+base[i+1:])
		}
	}
	return out
}

// nearMissTexts = affixTexts ++ lookalikeTexts.
func nearMissTexts(base string) []string {
	return append(affixTexts(base), lookalikeTexts(base)...)
}

// extBits are unknown extra bits OR-ed onto every defined rule / flag value; -1 and -2 (all bits set, all
// but the lowest) come on top.
var extBits = []int{0x100, 0x1000, 1 << 20, 1 << 40, 1 << 62}

// extValues returns, for the defined values 0..n-1 (n a power of two: the defined bits are n-1), every
// defined value alone, with each unknown extra bit, with the first unknown bit n, with all unknown low bits
// up to 0xff, and the negative patterns.
func extValues(n int) []int {
	seen := map[int]bool{}
	var out []int
	add := func(v int) {
		if !seen[v] {
			seen[v] = true
			out = append(out, v)
		}
	}
	for v := 0; v < n; v++ {
		add(v)
	}
	for v := 0; v < n; v++ {
		add(v | n)
		if n <= 0x80 {
			add(v | (0xff &^ (n - 1)))
		}
		for _, b := range extBits {
			add(v | b)
		}
		add(v | ^(n - 1)) // negative: every unknown bit set
	}
	return out
}

// dateIs reports whether d has exactly the components (y, m, dd) — judged on the accessor triple, never
// with the library's own Equal / IsZero.
func dateIs(d date.Date, y, m, dd int) bool {
	gy, gm, gd := d.Date()
	return gy == y && int(gm) == m && gd == dd
}

// dateSentinels are non-zero receivers for a decode whose expected result is (y, m, d): one far from it and one that
// shares its year and month (a partial assignment or a merge then shows), both different from the expected value and from
// the zero Date. A decode judged on a fresh zero variable cannot tell "assigned 0001-01-01" from "did not assign".
func dateSentinels(y, m, d int) [2]date.Date {
	a := date.New(1999, 9, 9)
	if y == 1999 && m == 9 && d == 9 {
		a = date.New(2001, 2, 3)
	}
	nd := d%28 + 1 // another existing day of the same month
	return [2]date.Date{a, date.New(y, time.Month(m), nd)}
}

// longYearsFixed: 5 to 9 digit years every leap rule must be tried on — non-leap centuries, multiples of 400, ordinary leap and
// non-leap years, and the values around the widths a narrowed integer could have (2^15, 2^16, 2^31/500, 2^32/1000 …).
var longYearsFixed = []int{10000, 10001, 10004, 10100, 10400, 12345, 32767, 32768, 32772, 32800, 32900, 65535, 65536, 65540, 65600, 65636, 70000, 70100,
	99999, 100000, 100100, 102400, 102500, 123456, 999999, 1000000, 1234567, 4294964, 4294967, 4294968, 4294900, 16777216, 16777300, 99999999, 123456789,
	400000000, 400000100, 999999600, 999999900, 999999996, 999999999}

// longYears returns the fixed list plus, per run, a random 5-9 digit year of each kind: any, multiple of 4, century, multiple of 400.
func longYears(c *Ctx) []int {
	out := append([]int{}, longYearsFixed...)
	for i := 0; i < 3; i++ {
		out = append(out, 10000+c.R.Intn(999990000), 4*(2500+c.R.Intn(247497500)), 100*(100+c.R.Intn(9999900)), 400*(25+c.R.Intn(2499975)))
	}
	return out
}

// dateIsZeroValue: the zero Date is 0001-01-01.
func dateIsZeroValue(d date.Date) bool { return dateIs(d, 1, 1, 1) }

// floorDiv / floorMod on ints (Go's / and % truncate).
func floorDiv(a, b int) int {
	q := a / b
	if a%b != 0 && (a < 0) != (b < 0) {
		q--
	}
	return q
}

// civilFromOrdinal inverts ordinal (props_date.go): the proleptic Gregorian (y, m, d) of a day number,
// by search on the year and a walk over the months — independent of package time.
func civilFromOrdinal(n int64) (int, int, int) {
	// estimate the year, then correct
	y := int(floorDiv64(n*400, 146097)) + 1
	for ordinal(y, 1, 1) > n {
		y--
	}
	for ordinal(y+1, 1, 1) <= n {
		y++
	}
	rest := int(n - ordinal(y, 1, 1))
	m := 1
	for rest >= dim(y, m) {
		rest -= dim(y, m)
		m++
	}
	return y, m, rest + 1
}

func floorDiv64(a, b int64) int64 {
	q := a / b
	if a%b != 0 && (a < 0) != (b < 0) {
		q--
	}
	return q
}

var _ = strings.Repeat
var _ = time.January
