package main

import (
	"encoding/json"
	"encoding/xml"
	"errors"
	"fmt"
	"strings"
	"time"

	"go.lstv.dev/util/date"
)

func isLeap(y int) bool { return y%4 == 0 && (y%100 != 0 || y%400 == 0) }
func dim(y, m int) int {
	switch m {
	case 4, 6, 9, 11:
		return 30
	case 2:
		if isLeap(y) {
			return 29
		}
		return 28
	}
	return 31
}

// ordinal is a Rata-Die style day number, independent of package time.
func ordinal(y, m, d int) int64 {
	p := int64(y - 1)
	fl := func(a, b int64) int64 {
		q := a / b
		if a%b != 0 && (a < 0) != (b < 0) {
			q--
		}
		return q
	}
	n := 365*p + fl(p, 4) - fl(p, 100) + fl(p, 400)
	for i := 1; i < m; i++ {
		n += int64(dim(y, i))
	}
	return n + int64(d)
}

func digits(n, w int) string {
	s := ""
	for n > 0 {
		s = string(rune('0'+n%10)) + s
		n /= 10
	}
	for len(s) < w {
		s = "0" + s
	}
	return s
}

type xw struct {
	XMLName xml.Name  `xml:"w"`
	D       date.Date `xml:"d"`
	A       date.Date `xml:"a,attr"`
}

var boundaryYears = []int{0, 1, 3, 4, 5, 99, 100, 101, 399, 400, 401, 1582, 1599, 1600, 1899, 1900, 1901, 1999, 2000, 2001, 2023, 2024, 2100, 9998, 9999}

func boundaryDates() [][3]int {
	var bs [][3]int
	for _, y := range boundaryYears {
		for m := 1; m <= 12; m++ {
			for _, d := range []int{1, 2, 15, 28, 29, 30, 31} {
				if d <= dim(y, m) {
					bs = append(bs, [3]int{y, m, d})
				}
			}
		}
	}
	return bs
}

func setDateMax(n int) func() {
	old := date.MaxInputLength
	date.MaxInputLength = n
	return func() { date.MaxInputLength = old }
}

// forEachDate visits the dates of years 0..9999 whose year is in the seed's stripe (all in thorough).
func forEachDate(c *Ctx, stripe int, f func(y, m, d int)) {
	off := int(c.Seed % uint64(stripe))
	for y := 0; y <= 9999; y++ {
		if !c.Thorough && y%stripe != off && y != 0 && y != 9999 && y%400 != 0 {
			continue
		}
		for m := 1; m <= 12; m++ {
			for d := 1; d <= dim(y, m); d++ {
				f(y, m, d)
			}
		}
	}
}

func init() {
	props["C01"] = propC01
	props["C07"] = propC07
	props["C09"] = propC09
	props["C11"] = propC11
	props["C15"] = propC15
}

// ---------------------------------------------------------------------------------------- C01
func propC01(c *Ctx) {
	defer setDateMax(10)()
	// correspondence: every day of chosen years through format, paths and parse
	years := append([]int{}, boundaryYears...)
	for i := 0; i < 20; i++ {
		years = append(years, c.R.Intn(10000))
	}
	for _, y := range years {
		for m := 1; m <= 12; m++ {
			for d := 1; d <= dim(y, m); d++ {
				for _, flag := range []int{0, 1} {
					out := c.Op(fmt.Sprintf("date.format %d %d %d %d -", y, m, d, flag))
					c.Op(fmt.Sprintf("date.parse 10 0 %s", out))
				}
				if d%7 == 1 {
					c.Op(fmt.Sprintf("date.paths %d %d %d", y, m, d))
				}
			}
		}
	}
	// long years under raised or disabled limits
	for _, y := range []int{10000, 12345, 99999, 100000, 999999, 1234567, 99999999, 123456789, 999999999, 10000 + c.R.Intn(999990000)} {
		for _, md := range [][2]int{{1, 1}, {2, 28}, {2, 29}, {12, 31}, {6, 30}} {
			if md[1] > dim(y, md[0]) {
				continue
			}
			for _, flag := range []int{0, 1} {
				out := c.Op(fmt.Sprintf("date.format %d %d %d %d -", y, md[0], md[1], flag))
				for _, ml := range []int{0, 11, 12, 13, 14, 15} {
					c.Op(fmt.Sprintf("date.parse %d 0 %s", ml, out))
				}
				// oracle: parses back whenever the text fits the limit
				b := mustHex(out)
				for _, ml := range []int{0, 11, 12, 13, 14, 15} {
					restore := setDateMax(ml)
					p, err := date.DefaultParser(b, 0)
					restore()
					c.Check(fmt.Sprintf("long %s %d", b, ml))
					fits := ml == 0 || len(b) <= ml
					if fits && (err != nil || !p.Equal(date.New(y, time.Month(md[0]), md[1]))) {
						c.Fail("C01.long", fmt.Sprintf("date.parse %d 0 %s", ml, out), "%s under limit %d -> %v %v", b, ml, p, err)
					}
					if !fits && !errors.Is(err, date.ErrInputTooLong) {
						c.Fail("C01.long.limit", fmt.Sprintf("date.parse %d 0 %s", ml, out), "%s under limit %d -> %v %v", b, ml, p, err)
					}
				}
			}
		}
	}
	// direct oracle over the date space
	n := 0
	forEachDate(c, 16, func(y, m, d int) {
		n++
		dt := date.New(y, time.Month(m), d)
		key := fmt.Sprintf("%04d%02d%02d", y, m, d)
		ext := digits(y, 4) + "-" + digits(m, 2) + "-" + digits(d, 2)
		bas := digits(y, 4) + digits(m, 2) + digits(d, 2)
		c.Check("")
		c.NT(1)
		if yy, mm, dd := dt.Date(); yy != y || int(mm) != m || dd != d {
			c.Fail("C01.new", "date.new "+fmt.Sprint(y, m, d), "New -> %v", dt)
		}
		b, _ := date.DefaultFormatter(nil, dt, 0)
		if string(b) != ext {
			c.Fail("C01.fmt", fmt.Sprintf("date.format %d %d %d 0 -", y, m, d), "%s vs %s", b, ext)
		}
		b2, _ := date.DefaultFormatter(nil, dt, date.FormatBasic)
		if string(b2) != bas {
			c.Fail("C01.fmtb", fmt.Sprintf("date.format %d %d %d 1 -", y, m, d), "%s vs %s", b2, bas)
		}
		if dt.String() != ext {
			c.Fail("C01.String", fmt.Sprintf("date.paths %d %d %d", y, m, d), "%s", dt.String())
		}
		if mt, err := dt.MarshalText(); err != nil || string(mt) != ext {
			c.Fail("C01.MarshalText", fmt.Sprintf("date.paths %d %d %d", y, m, d), "%s %v", mt, err)
		}
		for _, in := range []string{ext, bas} {
			p, err := date.DefaultParser(in, 0)
			if err != nil || !p.Equal(dt) {
				c.Fail("C01.parse", "date.parse 10 0 "+hx([]byte(in)), "%s -> %v %v", in, p, err)
			}
			p, err = date.DefaultParser([]byte(in), 0)
			if err != nil || !p.Equal(dt) {
				c.Fail("C01.parseb", "date.parse 10 0 "+hx([]byte(in)), "%s -> %v %v", in, p, err)
			}
			var u date.Date
			if err := u.UnmarshalText([]byte(in)); err != nil || !u.Equal(dt) {
				c.Fail("C01.UnmarshalText", "date.parse 10 0 "+hx([]byte(in)), "%s -> %v %v", in, u, err)
			}
		}
		if n%29 == 0 || c.Thorough {
			if s := fmt.Sprintf("%s|%e|%b|%v", dt, dt, dt, dt); s != ext+"|"+ext+"|"+bas+"|"+ext {
				c.Fail("C01.verbs", fmt.Sprintf("date.paths %d %d %d", y, m, d), "%s", s)
			}
			j, err := json.Marshal(dt)
			if err != nil || string(j) != `"`+ext+`"` {
				c.Fail("C01.json", key, "%s %v", j, err)
			}
			var back date.Date
			if err := json.Unmarshal(j, &back); err != nil || !back.Equal(dt) {
				c.Fail("C01.unjson", key, "%v %v", back, err)
			}
			if err := json.Unmarshal([]byte(`"`+bas+`"`), &back); err != nil || !back.Equal(dt) {
				c.Fail("C01.unjson.basic", key, "%v %v", back, err)
			}
			x, err := xml.Marshal(xw{D: dt, A: dt})
			var xb xw
			if err != nil || !strings.Contains(string(x), ">"+ext+"<") || !strings.Contains(string(x), `"`+ext+`"`) || xml.Unmarshal(x, &xb) != nil || !xb.D.Equal(dt) || !xb.A.Equal(dt) {
				c.Fail("C01.xml", key, "%s %v", x, err)
			}
		}
	})
	c.Note("direct oracle visited %d dates", n)
}

// ---------------------------------------------------------------------------------------- C07
func propC07(c *Ctx) {
	defer setDateMax(10)()
	bs := boundaryDates()
	// correspondence: order, sub, add, adddur, fromtime, new on boundary dates and grids
	for i := 0; i < 6000; i++ {
		a, b := bs[c.R.Intn(len(bs))], bs[c.R.Intn(len(bs))]
		c.Op(fmt.Sprintf("date.cmp %d %d %d %d %d %d", a[0], a[1], a[2], b[0], b[1], b[2]))
		c.Op(fmt.Sprintf("date.sub %d %d %d %d %d %d", a[0], a[1], a[2], b[0], b[1], b[2]))
	}
	grid := []int{-400, -100, -13, -12, -1, 0, 1, 11, 12, 13, 24, 25, 100, 365, 366, 1000}
	for i := 0; i < 6000; i++ {
		a := bs[c.R.Intn(len(bs))]
		c.Op(fmt.Sprintf("date.add %d %d %d %d %d %d", a[0], a[1], a[2], grid[c.R.Intn(len(grid))], grid[c.R.Intn(len(grid))], grid[c.R.Intn(len(grid))]))
	}
	// order far outside years 0000-9999: every date New can build (|year| up to 999,999,999 and the int32
	// extremes of the stored year) must still order chronologically
	far := [][3]int{{-2147483647, 1, 1}, {-999999999, 12, 31}, {-5000000, 6, 15}, {-4194305, 1, 1}, {-4194304, 12, 31}, {-4194303, 1, 1},
		{-70000, 2, 28}, {-1, 12, 31}, {0, 1, 1}, {1, 1, 1}, {2020, 8, 7}, {9999, 12, 31}, {10000, 1, 1}, {32767, 6, 1}, {32768, 6, 1}, {65536, 1, 1},
		{4194303, 12, 31}, {4194304, 12, 31}, {4194305, 1, 1}, {5000000, 1, 1}, {16777216, 3, 3}, {999999999, 12, 31}, {2147483647, 12, 31}}
	for i := 0; i < 12; i++ {
		y := int(int32(c.R.Next()))
		if y == -2147483648 {
			y++
		}
		far = append(far, [3]int{y, 1 + c.R.Intn(12), 1 + c.R.Intn(28)})
	}
	for _, a := range far {
		da := date.New(a[0], time.Month(a[1]), a[2])
		oa := ordinal(a[0], a[1], a[2])
		for _, b := range far {
			db := date.New(b[0], time.Month(b[1]), b[2])
			ob := ordinal(b[0], b[1], b[2])
			line := fmt.Sprintf("date.cmp %d %d %d %d %d %d", a[0], a[1], a[2], b[0], b[1], b[2])
			c.Op(line)
			c.Check(line)
			if da.Before(db) != (oa < ob) || da.After(db) != (oa > ob) || da.Equal(db) != (oa == ob) {
				c.Fail("C07.order.far", line, "%v vs %v: before=%v equal=%v after=%v", da, db, da.Before(db), da.Equal(db), da.After(db))
			}
			if diff := oa - ob; diff < 106751 && diff > -106751 {
				if int64(da.DaysBetween(db)) != diff {
					c.Fail("C07.days.far", "date.sub "+line[9:], "%d, want %d", da.DaysBetween(db), diff)
				}
			}
		}
	}
	// structured Add: one component at a time from month ends and leap days (AddDate normalisation:
	// 29 Feb + 1 year = 1 Mar, 31 Jan + 1 month = 2/3 Mar …), against the independent ordinal
	for _, a := range bs {
		if a[2] < 28 {
			continue
		}
		for _, dy := range []int{-400, -100, -4, -1, 1, 2, 4, 100, 400} {
			addOracle(c, a, dy, 0, 0)
		}
		for _, dm := range []int{-13, -12, -1, 1, 11, 12, 13, 25} {
			addOracle(c, a, 0, dm, 0)
		}
		for _, dd := range []int{-366, -31, -1, 1, 28, 365, 366} {
			addOracle(c, a, 0, 0, dd)
		}
	}
	for i := 0; i < 4000; i++ {
		a := bs[c.R.Intn(len(bs))]
		days := int64(c.R.Intn(2001) - 1000)
		ns := days*86400e9 + []int64{0, 1, -1, 86399999999999, -86399999999999, 43200e9, int64(c.R.Intn(86400)) * 1e9}[c.R.Intn(7)]
		c.Op(fmt.Sprintf("date.adddur %d %d %d %d", a[0], a[1], a[2], ns))
	}
	for i := 0; i < 3000; i++ {
		c.Op(fmt.Sprintf("date.new %d %d %d", c.R.Intn(12000)-1000, c.R.Intn(60)-24, c.R.Intn(800)-400))
	}
	for off := -12 * 3600; off <= 14*3600; off += 1800 {
		for _, base := range []int64{0, 1709164800, 1704067199, -62135596800, -62135596799, 951868800, 4102444800} {
			for _, dl := range []int64{-1, 0, 1, 43200, 86399, 86400} {
				for _, ns := range []int64{0, 1, 999999999} {
					c.Op(fmt.Sprintf("date.fromtime %d %d %d", base+dl-int64(off), ns, off))
					c.Op(fmt.Sprintf("date.fromtime %d %d %d", base+dl, ns, off))
				}
			}
		}
	}
	// direct oracles
	var prev date.Date
	havePrev := false
	n := 0
	forEachDate(c, 8, func(y, m, d int) {
		n++
		dt := date.New(y, time.Month(m), d)
		in := fmt.Sprintf("%d %d %d", y, m, d)
		c.Check("")
		c.NT(1)
		tm := dt.Time()
		if ty, tmm, td := tm.Date(); ty != y || int(tmm) != m || td != d || tm.Location() != time.UTC || tm.Hour() != 0 || tm.Minute() != 0 || tm.Second() != 0 || tm.Nanosecond() != 0 {
			c.Fail("C07.time", "date.new "+in, "%v", tm)
		}
		if !date.FromTime(tm).Equal(dt) {
			c.Fail("C07.time.roundtrip", "date.new "+in, "%v", tm)
		}
		if dt.Before(dt) || dt.After(dt) || !dt.Equal(dt) {
			c.Fail("C07.refl", "date.cmp "+in+" "+in, "%v", dt)
		}
		if havePrev {
			py, pm, pd := prev.Date()
			pin := fmt.Sprintf("%d %d %d", py, int(pm), pd)
			contiguous := ordinal(y, m, d) == ordinal(py, int(pm), pd)+1
			if !prev.Before(dt) || prev.After(dt) || prev.Equal(dt) || dt.Before(prev) || !dt.After(prev) {
				c.Fail("C07.order", "date.cmp "+pin+" "+in, "%v %v", prev, dt)
			}
			if contiguous {
				if dt.DaysBetween(prev) != 1 || prev.DaysBetween(dt) != -1 || dt.Sub(prev) != 24*time.Hour {
					c.Fail("C07.days", "date.sub "+in+" "+pin, "%v %v %d", prev, dt, dt.DaysBetween(prev))
				}
				if !prev.Add(0, 0, 1).Equal(dt) || !dt.Add(0, 0, -1).Equal(prev) || !prev.AddDuration(24*time.Hour).Equal(dt) ||
					!prev.AddDuration(47*time.Hour+59*time.Minute).Equal(dt) || !dt.AddDuration(-time.Nanosecond).Equal(prev) {
					c.Fail("C07.add", "date.add "+pin+" 0 0 1", "%v %v", prev, dt)
				}
			}
		}
		prev, havePrev = dt, true
	})
	for _, a := range bs {
		da := date.New(a[0], time.Month(a[1]), a[2])
		oa := ordinal(a[0], a[1], a[2])
		for _, b := range bs {
			db := date.New(b[0], time.Month(b[1]), b[2])
			ob := ordinal(b[0], b[1], b[2])
			in := fmt.Sprintf("%d %d %d %d %d %d", a[0], a[1], a[2], b[0], b[1], b[2])
			c.Check("")
			nb := 0
			for _, x := range []bool{da.Before(db), da.Equal(db), da.After(db)} {
				if x {
					nb++
				}
			}
			if nb != 1 || da.Before(db) != (oa < ob) || da.After(db) != (oa > ob) || da.Equal(db) != (oa == ob) {
				c.Fail("C07.pairs", "date.cmp "+in, "%v %v", da, db)
			}
			diff := oa - ob
			if diff < 106751 && diff > -106751 {
				if int64(da.DaysBetween(db)) != diff || da.Sub(db) != time.Duration(diff)*24*time.Hour {
					c.Fail("C07.pairdays", "date.sub "+in, "%v %v %d %d", da, db, da.DaysBetween(db), diff)
				}
			}
		}
	}
	c.NT(int64(len(bs) * len(bs)))
	// Add against the ordinal oracle: adding days moves the ordinal by exactly that many days
	for i := 0; i < 20000; i++ {
		a := bs[c.R.Intn(len(bs))]
		k := c.R.Intn(20001) - 10000
		r := date.New(a[0], time.Month(a[1]), a[2]).Add(0, 0, k)
		ry, rm, rd := r.Date()
		c.Check("")
		if ordinal(ry, int(rm), rd) != ordinal(a[0], a[1], a[2])+int64(k) || rd > dim(ry, int(rm)) || rd < 1 {
			c.Fail("C07.add.days", fmt.Sprintf("date.add %d %d %d 0 0 %d", a[0], a[1], a[2], k), "-> %v", r)
		}
		// months: AddDate normalisation = New(y, m+k, d)
		km := c.R.Intn(61) - 30
		ky := c.R.Intn(21) - 10
		r2 := date.New(a[0], time.Month(a[1]), a[2]).Add(ky, km, 0)
		ty := a[0] + ky
		tm := a[1] + km
		for tm > 12 {
			tm -= 12
			ty++
		}
		for tm < 1 {
			tm += 12
			ty--
		}
		want := ordinal(ty, tm, 1) + int64(a[2]-1)
		r2y, r2m, r2d := r2.Date()
		if ordinal(r2y, int(r2m), r2d) != want {
			c.Fail("C07.add.months", fmt.Sprintf("date.add %d %d %d %d %d 0", a[0], a[1], a[2], ky, km), "-> %v", r2)
		}
	}
	// FromTime in fixed zones against t.Date()
	for off := -12 * 3600; off <= 14*3600; off += 1800 {
		z := time.FixedZone("z", off)
		for _, base := range []time.Time{time.Date(2024, 2, 29, 0, 0, 0, 0, time.UTC), time.Date(2023, 12, 31, 23, 59, 59, 999, time.UTC), time.Date(1, 1, 1, 0, 0, 1, 0, time.UTC), time.Date(2000, 3, 1, 0, 0, 0, 0, z)} {
			for _, dl := range []time.Duration{-time.Second, 0, time.Second, 12 * time.Hour} {
				t := base.Add(dl).In(z)
				if t.IsZero() {
					continue
				}
				c.Check("")
				// independent expectation: shift the UTC instant by the offset and split into days
				sec := t.Unix() + int64(off) + 62135596800
				dayNo := sec / 86400
				if sec < 0 && sec%86400 != 0 {
					dayNo--
				}
				d := date.FromTime(t)
				dy, dm, dd := d.Date()
				if ordinal(dy, int(dm), dd) != dayNo+1 {
					c.Fail("C07.fromtime", fmt.Sprintf("date.fromtime %d %d %d", t.Unix(), t.Nanosecond(), off), "%v -> %v", t, d)
				}
			}
		}
	}
}

// addOracle checks one Add call against time.AddDate's documented rule computed independently:
// normalise (year+dy, month+dm) into a year and a month 1..12, take day 1 of that month, move d-1+dd days.
func addOracle(c *Ctx, a [3]int, dy, dm, dd int) {
	line := fmt.Sprintf("date.add %d %d %d %d %d %d", a[0], a[1], a[2], dy, dm, dd)
	c.Op(line)
	r := date.New(a[0], time.Month(a[1]), a[2]).Add(dy, dm, dd)
	ty, tm := a[0]+dy, a[1]+dm
	for tm > 12 {
		tm -= 12
		ty++
	}
	for tm < 1 {
		tm += 12
		ty--
	}
	want := ordinal(ty, tm, 1) + int64(a[2]-1) + int64(dd)
	ry, rm, rd := r.Date()
	c.Check(line)
	if int(rm) < 1 || int(rm) > 12 || rd < 1 || rd > dim(ry, int(rm)) {
		c.Fail("C07.add.notadate", line, "-> %v is not a calendar date", r)
		return
	}
	if ordinal(ry, int(rm), rd) != want {
		c.Fail("C07.add.normalise", line, "-> %v", r)
	}
	if !date.FromTime(r.Time()).Equal(r) {
		c.Fail("C07.add.time", line, "-> %v does not survive Time()", r)
	}
}

// ---------------------------------------------------------------------------------------- C09

// dateRecognise is the independent recogniser: (valid, y, m, d).
func dateRecognise(s string) (bool, int, int, int) {
	allDigits := func(t string) bool {
		if t == "" {
			return false
		}
		for i := 0; i < len(t); i++ {
			if t[i] < '0' || t[i] > '9' {
				return false
			}
		}
		return true
	}
	var ys, ms, ds string
	if len(s) >= 10 && s[len(s)-3] == '-' && s[len(s)-6] == '-' {
		ys, ms, ds = s[:len(s)-6], s[len(s)-5:len(s)-3], s[len(s)-2:]
	} else if len(s) >= 8 {
		ys, ms, ds = s[:len(s)-4], s[len(s)-4:len(s)-2], s[len(s)-2:]
	} else {
		return false, 0, 0, 0
	}
	if !allDigits(ys) || !allDigits(ms) || !allDigits(ds) || len(ys) < 4 || len(ys) > 9 {
		return false, 0, 0, 0
	}
	num := func(t string) int {
		n := 0
		for i := 0; i < len(t); i++ {
			n = n*10 + int(t[i]-'0')
		}
		return n
	}
	y, m, d := num(ys), num(ms), num(ds)
	if m < 1 || m > 12 || d < 1 || d > dim(y, m) {
		return false, 0, 0, 0
	}
	return true, y, m, d
}

func isBasic(s string) bool { return !strings.Contains(s, "-") }

func checkDateParse(c *Ctx, s string, ml int, rule date.Rule) {
	restore := setDateMax(ml)
	p, err := date.DefaultParser(s, rule)
	restore()
	valid, y, m, d := dateRecognise(s)
	in := fmt.Sprintf("date.parse %d %d %s", ml, int(rule), hx([]byte(s)))
	c.Check("")
	tooLong := ml != 0 && len(s) > ml
	switch {
	case s != "" && tooLong:
		if !errors.Is(err, date.ErrInputTooLong) {
			c.Fail("C09.toolong", in, "%q -> %v %v", s, p, err)
		}
	case valid && isBasic(s) && rule&date.RuleDisableBasic != 0:
		if !errors.Is(err, date.ErrBasicFormatDisabled) {
			c.Fail("C09.basicDisabled", in, "%q -> %v %v", s, p, err)
		}
	case valid:
		if err != nil {
			c.Fail("C09.reject", in, "%q rejected: %v", s, err)
		} else if py, pm, pd := p.Date(); py != y || int(pm) != m || pd != d {
			c.Fail("C09.components", in, "%q -> %v", s, p)
		}
	default:
		if err == nil {
			c.Fail("C09.accept", in, "%q accepted as %v", s, p)
		}
	}
	if err != nil {
		if typed, _ := datePE(err); !typed {
			c.Fail("C09.typed", in, "%T", err)
		}
		if !p.IsZero() {
			c.Fail("C09.zero", in, "%v", p)
		}
	}
}

func propC09(c *Ctx) {
	defer setDateMax(10)()
	years := []int{0, 1, 4, 100, 400, 1900, 2000, 2023, 2024, 9999}
	if c.Thorough {
		years = append(years, boundaryYears...)
		for i := 0; i < 30; i++ {
			years = append(years, c.R.Intn(10000))
		}
	} else {
		for i := 0; i < 6; i++ {
			years = append(years, c.R.Intn(10000))
		}
	}
	for yi, y := range years {
		for mm := 0; mm < 100; mm++ {
			for dd := 0; dd < 100; dd++ {
				layouts := []string{digits(y, 4) + "-" + digits(mm, 2) + "-" + digits(dd, 2), digits(y, 4) + digits(mm, 2) + digits(dd, 2),
					digits(y, 4) + "-" + digits(mm, 2) + digits(dd, 2), digits(y, 4) + digits(mm, 2) + "-" + digits(dd, 2)}
				for li, in := range layouts {
					for _, rule := range []date.Rule{0, date.RuleDisableBasic} {
						checkDateParse(c, in, 10, rule)
					}
					if yi < 4 && (mm < 14 || mm%10 == 0) && (dd < 33 || dd%10 == 0) {
						c.Op(fmt.Sprintf("date.parse 10 %d %s", li%2, hx([]byte(in))))
					}
				}
			}
		}
	}
	c.NT(int64(len(years)) * 100 * 100 * 4)
	// 5-9 digit years
	// year digit counts around the grammar's 4..9 window (3 and 10 digits must be refused)
	for _, ys := range []string{"999", "0999", "1234567890", "0000002024", "12345678901", "99999999999", "000"} {
		for _, rest := range []string{"-01-01", "0101", "-12-31", "1231"} {
			for _, ml := range []int{0, 15, 20} {
				in := ys + rest
				checkDateParse(c, in, ml, 0)
				c.Op(fmt.Sprintf("date.parse %d 0 %s", ml, hx([]byte(in))))
			}
		}
	}
	for _, y := range []int{10000, 99999, 123456, 1000000, 99999999, 999999999, 400000000} {
		for _, md := range [][2]int{{0, 1}, {1, 0}, {1, 1}, {2, 28}, {2, 29}, {2, 30}, {4, 31}, {12, 31}, {12, 32}, {13, 1}} {
			for _, ml := range []int{0, 8, 10, 15} {
				for _, in := range []string{digits(y, 4) + "-" + digits(md[0], 2) + "-" + digits(md[1], 2), digits(y, 4) + digits(md[0], 2) + digits(md[1], 2)} {
					checkDateParse(c, in, ml, 0)
					checkDateParse(c, in, ml, date.RuleDisableBasic)
					c.Op(fmt.Sprintf("date.parse %d %d %s", ml, c.R.Intn(2), hx([]byte(in))))
				}
			}
		}
	}
	// every string over the alphabet up to a length
	alpha := "01239-"
	maxLen := 8
	if c.Thorough {
		maxLen = 9
	}
	var rec func(prefix []byte)
	cnt := 0
	rec = func(prefix []byte) {
		if len(prefix) >= 7 {
			s := string(prefix)
			checkDateParse(c, s, 10, 0)
			cnt++
			if ok, _, _, _ := dateRecognise(s); ok || cnt%211 == 0 {
				c.Op("date.parse 10 0 " + hx(prefix))
			}
		}
		if len(prefix) == maxLen {
			return
		}
		for i := 0; i < len(alpha); i++ {
			rec(append(prefix, alpha[i]))
		}
	}
	rec(nil)
	c.NT(int64(cnt))
	// longer strings: valid shapes with the alphabet in the year part handled by mutation below
	valids := []string{"2024-02-29", "20240229", "0000-01-01", "99991231", "2023-12-31", "1900-02-28", "2000-02-29"}
	for _, v := range valids {
		for pos := 0; pos < len(v); pos++ {
			for b := 0; b < 256; b++ {
				mut := []byte(v)
				mut[pos] = byte(b)
				for _, ml := range []int{0, 8, 10, 15} {
					checkDateParse(c, string(mut), ml, 0)
				}
				checkDateParse(c, string(mut), 10, date.RuleDisableBasic)
				if b%5 == int(c.Seed%5) || (b >= '-' && b <= ':') {
					c.Op(fmt.Sprintf("date.parse 10 %d %s", b&1, hx(mut)))
				}
			}
			// insertion and deletion
			del := append(append([]byte{}, v[:pos]...), v[pos+1:]...)
			checkDateParse(c, string(del), 10, 0)
			c.Op("date.parse 10 0 " + hx(del))
			for _, ins := range []byte{'0', '-', '9', ' '} {
				x := append(append(append([]byte{}, v[:pos]...), ins), v[pos:]...)
				checkDateParse(c, string(x), 15, 0)
				c.Op("date.parse 15 0 " + hx(x))
			}
		}
	}
	c.Op("date.parse 10 0 -")
	checkDateParse(c, "", 10, 0)
}

// ---------------------------------------------------------------------------------------- C11
func propC11(c *Ctx) {
	check := func(y, m, d int) {
		dt := date.New(y, time.Month(m), d)
		in := fmt.Sprintf("date.bin %d %d %d", y, m, d)
		bin, err := dt.MarshalBinary()
		c.Check("")
		if err != nil || len(bin) != 7 || bin[0] != 1 || int(int32(uint32(bin[1])<<24|uint32(bin[2])<<16|uint32(bin[3])<<8|uint32(bin[4]))) != y || int(bin[5]) != m || int(bin[6]) != d {
			c.Fail("C11.layout", in, "%v %v", bin, err)
		}
		var ub date.Date
		if err := ub.UnmarshalBinary(bin); err != nil || !ub.Equal(dt) {
			c.Fail("C11.roundtrip", "date.unbin "+hx(bin), "%v %v", ub, err)
		}
	}
	lo := -400
	step := 1
	if !c.Thorough {
		step = 7
	}
	n := 0
	for y := lo + int(c.Seed%uint64(step)); y <= 9999; y += step {
		for m := 1; m <= 12; m++ {
			for d := 1; d <= dim(y, m); d++ {
				check(y, m, d)
				n++
			}
		}
	}
	c.NT(int64(n))
	for i := 0; i < 20000; i++ {
		y := c.R.Intn(2*999999999+1) - 999999999
		m := 1 + c.R.Intn(12)
		d := 1 + c.R.Intn(dim(y, m))
		check(y, m, d)
		if i < 1500 {
			out := c.Op(fmt.Sprintf("date.bin %d %d %d", y, m, d))
			c.Op("date.unbin " + out)
		}
	}
	for _, y := range []int{-999999999, 999999999, -1, 0, 1, -400, 2147483647, -2147483648 + 1} {
		if y >= -999999999 && y <= 999999999 {
			check(y, 1, 1)
			check(y, 12, 31)
			check(y, 2, 28)
		}
		out := c.Op(fmt.Sprintf("date.bin %d 2 28", y))
		c.Op("date.unbin " + out)
	}
	for _, y := range boundaryYears {
		for m := 1; m <= 12; m++ {
			for _, d := range []int{1, 28, dim(y, m)} {
				out := c.Op(fmt.Sprintf("date.bin %d %d %d", y, m, d))
				c.Op("date.unbin " + out)
			}
		}
	}
	// all (month, day) bytes for several years: never yields a non-date
	ys := []int{2023, 2024, 1900, 2000}
	if c.Thorough {
		ys = append(ys, 0, -4, -100, 999999999, -999999999, 1+c.R.Intn(9999))
	}
	for yi, y := range ys {
		for mb := 0; mb < 256; mb++ {
			for db := 0; db < 256; db++ {
				in := []byte{1, byte(uint32(y) >> 24), byte(uint32(y) >> 16), byte(uint32(y) >> 8), byte(uint32(y)), byte(mb), byte(db)}
				ub := date.New(1999, 9, 9)
				err := ub.UnmarshalBinary(in)
				valid := mb >= 1 && mb <= 12 && db >= 1 && db <= dim(y, mb)
				c.Check("")
				if (err == nil) != valid {
					c.Fail("C11.bytes", "date.unbin "+hx(in), "%d %d %d %v -> %v", y, mb, db, err, ub)
				}
				if err == nil {
					if uy, um, ud := ub.Date(); uy != y || int(um) != mb || ud != db {
						c.Fail("C11.bytes.value", "date.unbin "+hx(in), "-> %v", ub)
					}
				} else if !ub.Equal(date.New(1999, 9, 9)) {
					c.Fail("C11.bytes.recv", "date.unbin "+hx(in), "receiver changed to %v", ub)
				}
				if yi < 2 && (mb < 15 || mb > 250) && (db < 34 || db > 250) {
					c.Op("date.unbin " + hx(in))
				}
			}
		}
	}
	c.NT(int64(len(ys)) * 65536)
	// versions and lengths
	good := []byte{1, 0, 0, 7, 232, 2, 29}
	for v := 0; v < 256; v++ {
		in := append([]byte{}, good...)
		in[0] = byte(v)
		var ub date.Date
		err := ub.UnmarshalBinary(in)
		c.Check("")
		if v == 1 && err != nil || v != 1 && !errors.Is(err, date.ErrUnsupportedVersion) {
			c.Fail("C11.version", "date.unbin "+hx(in), "%v", err)
		}
		c.Op("date.unbin " + hx(in))
	}
	for l := 0; l <= 16; l++ {
		for _, first := range []byte{1, 0, 2} {
			in := make([]byte, l)
			for i := range in {
				in[i] = byte(1 + i%12)
			}
			if l > 0 {
				in[0] = first
			}
			var ub date.Date
			err := ub.UnmarshalBinary(in)
			c.Check("")
			switch {
			case l == 0:
				if !errors.Is(err, date.ErrInvalidLength) {
					c.Fail("C11.length", "date.unbin "+hx(in), "%v", err)
				}
			case first != 1:
				if !errors.Is(err, date.ErrUnsupportedVersion) {
					c.Fail("C11.length.version", "date.unbin "+hx(in), "%v", err)
				}
			case l != 7:
				if !errors.Is(err, date.ErrInvalidLength) {
					c.Fail("C11.length", "date.unbin "+hx(in), "%v", err)
				}
			}
			c.Op("date.unbin " + hx(in))
		}
	}
	for i := 0; i < 4000; i++ {
		in := make([]byte, 7)
		for j := range in {
			in[j] = byte(c.R.Next())
		}
		if i%2 == 0 {
			in[0] = 1
			in[5] = byte(c.R.Intn(14))
			in[6] = byte(c.R.Intn(33))
		}
		c.Op("date.unbin " + hx(in))
		var ub date.Date
		if err := ub.UnmarshalBinary(in); err == nil {
			y, m, d := ub.Date()
			c.Check("")
			if int(m) < 1 || int(m) > 12 || d < 1 || d > dim(y, int(m)) {
				c.Fail("C11.random", "date.unbin "+hx(in), "-> %v", ub)
			}
		}
	}
}

// ---------------------------------------------------------------------------------------- C15
func propC15(c *Ctx) {
	bs := boundaryDates()
	start := 400
	if c.Seed != 0 {
		start = c.R.Intn(len(bs) - 60)
	}
	win := bs[start : start+60]
	// a window that really spans day, month, year and leap boundaries
	// the zero value of Date (0001-01-01) and its neighbours must behave like any other bound
	win = append(append([][3]int{}, win...), [3]int{1, 1, 1}, [3]int{1, 1, 2}, [3]int{0, 12, 31}, [3]int{0, 1, 1}, [3]int{9999, 12, 31}, [3]int{2023, 12, 31}, [3]int{2024, 1, 1}, [3]int{2024, 2, 28}, [3]int{2024, 2, 29}, [3]int{2024, 3, 1}, [3]int{2023, 2, 28}, [3]int{2023, 3, 1})
	stepF := 3
	if c.Thorough {
		stepF = 1
	}
	mk := func(a [3]int) *date.Date { d := date.New(a[0], time.Month(a[1]), a[2]); return &d }
	tok := func(i int) string {
		if i < 0 {
			return "- - -"
		}
		return fmt.Sprintf("%d %d %d", win[i][0], win[i][1], win[i][2])
	}
	// bound indices: the stepped grid plus, always, every special date appended above (the zero value of Date, year 0,
	// leap-day neighbours) — in the quick tier the step must not skip them
	var idx []int
	for i := -1; i < len(win); i += stepF {
		idx = append(idx, i)
	}
	for i := len(win) - 12; i < len(win); i++ {
		if (i+1)%stepF != 0 {
			idx = append(idx, i)
		}
	}
	for _, fi := range idx {
		for _, ti := range idx {
			var fp, tp *date.Date
			var fo, to int64
			if fi >= 0 {
				fp, fo = mk(win[fi]), ordinal(win[fi][0], win[fi][1], win[fi][2])
			}
			if ti >= 0 {
				tp, to = mk(win[ti]), ordinal(win[ti][0], win[ti][1], win[ti][2])
			}
			flt, err := date.FilterFromTo(fp, tp)
			wantErr := fp != nil && tp != nil && fo > to
			in := "date.filter " + tok(fi) + " " + tok(ti) + " " + tok(0)
			c.Check("")
			if (err != nil) != wantErr || (err != nil && !errors.Is(err, date.ErrInvalidFromOrTo)) {
				c.Fail("C15.err", in, "%v %v %v", fp, tp, err)
				continue
			}
			if err != nil {
				c.Op(in)
				continue
			}
			if fp != nil {
				*fp = date.New(1, 1, 1)
			}
			if tp != nil {
				*tp = date.New(9999, 1, 1)
			}
			for pi, p := range win {
				po := ordinal(p[0], p[1], p[2])
				want := (fi < 0 || po >= fo) && (ti < 0 || po <= to)
				c.Check("")
				line := "date.filter " + tok(fi) + " " + tok(ti) + " " + tok(pi)
				if flt.Contains(date.New(p[0], time.Month(p[1]), p[2])) != want {
					c.Fail("C15.contains", line, "want %v", want)
				}
				if (pi+fi+ti)%5 == 0 {
					c.Op(line)
				}
			}
		}
	}
	c.NT(int64(len(idx) * len(idx) * len(win)))
	// random triples over years 0000-9999
	for i := 0; i < 20000; i++ {
		rd := func() [3]int {
			y, m := c.R.Intn(10000), 1+c.R.Intn(12)
			return [3]int{y, m, 1 + c.R.Intn(dim(y, m))}
		}
		a, b, p := rd(), rd(), rd()
		if i%3 == 0 {
			b = [3]int{a[0], a[1], 1 + c.R.Intn(dim(a[0], a[1]))}
		}
		switch i % 37 {
		case 3:
			a = [3]int{-5000000, 3, 1}
		case 4:
			b = [3]int{5000000, 3, 1}
		case 5:
			p = [3]int{4194305 * (1 - 2*(i%2)), 1, 1}
		case 0:
			a = [3]int{1, 1, 1}
		case 1:
			b = [3]int{1, 1, 1}
		case 2:
			p = [3]int{1, 1, 1}
		}
		if i%4 == 0 {
			p = [3]int{a[0], a[1], 1 + c.R.Intn(dim(a[0], a[1]))}
		}
		if i%37 == 0 && i%2 == 0 { // a zero-valued lower bound is still a bound: probe just before it
			p = [][3]int{{0, 12, 31}, {0, 1, 1}, {-500, 3, 1}, {1, 1, 1}}[(i/74)%4]
		}
		if i%37 == 1 && i%2 == 0 { // and a zero-valued upper bound
			p = [][3]int{{1, 1, 2}, {1, 2, 1}, {2024, 2, 29}, {1, 1, 1}}[(i/74)%4]
		}
		mode := c.R.Intn(4)
		var fp, tp *date.Date
		ft, tt := "- - -", "- - -"
		if mode&1 != 0 {
			fp, ft = mk(a), fmt.Sprintf("%d %d %d", a[0], a[1], a[2])
		}
		if mode&2 != 0 {
			tp, tt = mk(b), fmt.Sprintf("%d %d %d", b[0], b[1], b[2])
		}
		line := fmt.Sprintf("date.filter %s %s %d %d %d", ft, tt, p[0], p[1], p[2])
		if i < 6000 {
			c.Op(line)
		}
		flt, err := date.FilterFromTo(fp, tp)
		oa, ob, op := ordinal(a[0], a[1], a[2]), ordinal(b[0], b[1], b[2]), ordinal(p[0], p[1], p[2])
		wantErr := fp != nil && tp != nil && oa > ob
		c.Check("")
		if (err != nil) != wantErr {
			c.Fail("C15.err", line, "%v", err)
			continue
		}
		if err == nil {
			want := (fp == nil || op >= oa) && (tp == nil || op <= ob)
			if flt.Contains(date.New(p[0], time.Month(p[1]), p[2])) != want {
				c.Fail("C15.contains", line, "want %v", want)
			}
		}
	}
}
