package main

import (
	"encoding/json"
	"encoding/xml"
	"errors"
	"fmt"
	"math"
	"strings"
	"time"

	"go.lstv.dev/util/date"
)

func isLeap(y int) bool { return y%4 == 0 && (y%100 != 0 || y%400 == 0) }
func dim(y, m int) int {
	switch m {
	case 4, 6, 9, 11:
		return 30
	case 2:
		if isLeap(y) {
			return 29
		}
		return 28
	}
	return 31
}

// ordinal is a Rata-Die style day number, independent of package time.
func ordinal(y, m, d int) int64 {
	p := int64(y - 1)
	fl := func(a, b int64) int64 {
		q := a / b
		if a%b != 0 && (a < 0) != (b < 0) {
			q--
		}
		return q
	}
	n := 365*p + fl(p, 4) - fl(p, 100) + fl(p, 400)
	for i := 1; i < m; i++ {
		n += int64(dim(y, i))
	}
	return n + int64(d)
}

func digits(n, w int) string {
	s := ""
	for n > 0 {
		s = string(rune('0'+n%10)) + s
		n /= 10
	}
	for len(s) < w {
		s = "0" + s
	}
	return s
}

type xw struct {
	XMLName xml.Name  `xml:"w"`
	D       date.Date `xml:"d"`
	A       date.Date `xml:"a,attr"`
}

var boundaryYears = []int{0, 1, 3, 4, 5, 99, 100, 101, 399, 400, 401, 1582, 1599, 1600, 1899, 1900, 1901, 1999, 2000, 2001, 2023, 2024, 2100, 9998, 9999}

func boundaryDates() [][3]int {
	var bs [][3]int
	for _, y := range boundaryYears {
		for m := 1; m <= 12; m++ {
			for _, d := range []int{1, 2, 15, 28, 29, 30, 31} {
				if d <= dim(y, m) {
					bs = append(bs, [3]int{y, m, d})
				}
			}
		}
	}
	return bs
}

func setDateMax(n int) func() {
	old := date.MaxInputLength
	date.MaxInputLength = n
	return func() { date.MaxInputLength = old }
}

// alwaysYears are visited by forEachDate whatever the seed's stripe is: the zero Date's year, year 0, the ends
// of the 0000-9999 range and the hand-picked leap / century / 400-multiple years.
var alwaysYears = map[int]bool{0: true, 1: true, 2: true, 4: true, 100: true, 400: true, 1582: true, 1600: true, 1900: true, 1970: true, 2000: true,
	2023: true, 2024: true, 2100: true, 9996: true, 9998: true, 9999: true}

// visitYear: the seed's stripe of years, every century year (so every 400-multiple too), the hand-picked
// years, and the stripe taken over the ordinary leap years as well (with an odd offset the plain stripe
// `y%stripe == off` of an even stripe would never contain a leap year).
func visitYear(c *Ctx, stripe, y int) bool {
	if c.Thorough {
		return true
	}
	off := int(c.Seed % uint64(stripe))
	return y%stripe == off || y%100 == 0 || alwaysYears[y] || (y%4 == 0 && (y/4)%stripe == off)
}

// forEachDate visits the dates of years 0..9999 whose year visitYear selects (all in thorough).
func forEachDate(c *Ctx, stripe int, f func(y, m, d int)) {
	for y := 0; y <= 9999; y++ {
		if !visitYear(c, stripe, y) {
			continue
		}
		for m := 1; m <= 12; m++ {
			for d := 1; d <= dim(y, m); d++ {
				f(y, m, d)
			}
		}
	}
}

// dateDecodeOnto runs one decode (UnmarshalText, JSON, XML …) whose expected result is (y, m, d) on receivers that already hold a value —
// the two sentinels of dateSentinels — and on a fresh zero Date. It returns the first receiver that does not end up as exactly (y, m, d).
func dateDecodeOnto(y, m, d int, dec func(r *date.Date) error) (date.Date, error, bool) {
	sn := dateSentinels(y, m, d)
	for _, r := range []date.Date{sn[0], sn[1], {}} {
		r := r
		if err := dec(&r); err != nil || !dateIs(r, y, m, d) {
			return r, err, false
		}
	}
	return date.Date{}, nil, true
}

func init() {
	props["C01"] = propC01
	props["C07"] = propC07
	props["C09"] = propC09
	props["C11"] = propC11
	props["C15"] = propC15
}

// ---------------------------------------------------------------------------------------- C01

// c01Special: hand-picked dates whose secondary paths are judged on every run, never behind the n%29 sample:
// every leap day, and the month ends / month starts of the alwaysYears (zero Date 0001-01-01, year 0, 9999 …).
func c01Special(y, m, d int) bool {
	return (m == 2 && d == 29) || (alwaysYears[y] && (d == 1 || d == dim(y, m)))
}

// c01Secondary judges the secondary output paths (fmt verbs, JSON, XML — String and MarshalText as well) and
// the secondary input paths (UnmarshalText, JSON, XML; extended and basic text) of one date against the
// independent texts ext / bas. The caller has set the input limit. full = false (the thorough tier's pass over every
// date that is neither sampled nor hand-picked) leaves out the nested / pointer / slice renderings and the second XML round.
func c01Secondary(c *Ctx, y, m, d int, ext, bas string, full bool) {
	dt := date.New(y, time.Month(m), d)
	key := fmt.Sprintf("%04d%02d%02d", y, m, d)
	paths := fmt.Sprintf("date.paths %d %d %d", y, m, d)
	c.Check("")
	if dt.String() != ext {
		c.Fail("C01.String", paths, "%s, want %s", dt.String(), ext)
	}
	if mt, err := dt.MarshalText(); err != nil || string(mt) != ext {
		c.Fail("C01.MarshalText", paths, "%s %v, want %s", mt, err, ext)
	}
	if s := fmt.Sprintf("%s|%e|%b|%v", dt, dt, dt, dt); s != ext+"|"+ext+"|"+bas+"|"+ext {
		c.Fail("C01.verbs", paths, "%s", s)
	}
	if s := fmt.Sprint(dt) + "|" + fmt.Sprintf("%v", &dt) + "|" + fmt.Sprintf("%s", []date.Date{dt}); full && s != ext+"|"+ext+"|["+ext+"]" {
		c.Fail("C01.verbs", paths, "Sprint / pointer / slice: %s", s)
	}
	j, err := json.Marshal(dt)
	if err != nil || string(j) != `"`+ext+`"` {
		c.Fail("C01.json", key, "%s %v, want %q", j, err, ext)
	}
	if !full {
		back := dateSentinels(y, m, d)[0] // a variable that already holds another date
		if err := json.Unmarshal(j, &back); err != nil || !dateIs(back, y, m, d) {
			c.Fail("C01.unjson", key, "%v %v", back, err)
		}
		back = dateSentinels(y, m, d)[1]
		if err := json.Unmarshal([]byte(`"`+bas+`"`), &back); err != nil || !dateIs(back, y, m, d) {
			c.Fail("C01.unjson.basic", key, "%v %v", back, err)
		}
		x, err := xml.Marshal(xw{D: dt, A: dt})
		var xb xw
		if err != nil || string(x) != `<w a="`+ext+`"><d>`+ext+`</d></w>` || xml.Unmarshal(x, &xb) != nil || !dateIs(xb.D, y, m, d) || !dateIs(xb.A, y, m, d) {
			c.Fail("C01.xml", key, "%s %v", x, err)
		}
		return
	}
	if jn, err := json.Marshal(struct {
		D date.Date  `json:"d"`
		P *date.Date `json:"p"`
		L []date.Date
		M map[string]date.Date
	}{dt, &dt, []date.Date{dt}, map[string]date.Date{"k": dt}}); err != nil || string(jn) != `{"d":"`+ext+`","p":"`+ext+`","L":["`+ext+`"],"M":{"k":"`+ext+`"}}` {
		c.Fail("C01.json", key, "nested: %s %v", jn, err)
	}
	for _, in := range []string{ext, bas} {
		// every decode lands on variables that already hold another date (and on a fresh one): the result is the decoded date,
		// never the old value, a merge of the two, or a no-op (0001-01-01 is the zero value of Date)
		if back, err, ok := dateDecodeOnto(y, m, d, func(r *date.Date) error { return json.Unmarshal([]byte(`"`+in+`"`), r) }); !ok {
			c.Fail("C01.unjson", key, "%q -> %v %v", in, back, err)
		}
		if u, err, ok := dateDecodeOnto(y, m, d, func(r *date.Date) error { return r.UnmarshalText([]byte(in)) }); !ok {
			c.Fail("C01.UnmarshalText", "date.parse "+fmt.Sprint(date.MaxInputLength)+" 0 "+hx([]byte(in)), "%s -> %v %v", in, u, err)
		}
		sns := dateSentinels(y, m, d)
		for _, sn := range []date.Date{sns[0], sns[1], {}} {
			xin := xw{D: sn, A: sn}
			if err := xml.Unmarshal([]byte(`<w a="`+in+`"><d>`+in+`</d></w>`), &xin); err != nil || !dateIs(xin.D, y, m, d) || !dateIs(xin.A, y, m, d) {
				c.Fail("C01.unxml", key, "%q onto %v -> %v %v %v", in, sn, xin.D, xin.A, err)
			}
		}
	}
	x, err := xml.Marshal(xw{D: dt, A: dt})
	var xb xw
	if err != nil || string(x) != `<w a="`+ext+`"><d>`+ext+`</d></w>` || xml.Unmarshal(x, &xb) != nil || !dateIs(xb.D, y, m, d) || !dateIs(xb.A, y, m, d) {
		c.Fail("C01.xml", key, "%s %v", x, err)
	}
}

func propC01(c *Ctx) {
	defer setDateMax(10)()
	// correspondence: every day of chosen years through format, paths and parse
	years := append([]int{}, boundaryYears...)
	for i := 0; i < 20; i++ {
		years = append(years, c.R.Intn(10000))
	}
	for _, y := range years {
		for m := 1; m <= 12; m++ {
			for d := 1; d <= dim(y, m); d++ {
				for _, flag := range []int{0, 1} {
					out := c.Op(fmt.Sprintf("date.format %d %d %d %d -", y, m, d, flag))
					c.Op(fmt.Sprintf("date.parse 10 0 %s", out))
				}
				if d%7 == 1 || d == dim(y, m) {
					c.Op(fmt.Sprintf("date.paths %d %d %d", y, m, d))
				}
			}
		}
	}
	// format flags are tested bit by bit: unknown extra bits change nothing
	for _, ymd := range [][3]int{{1, 1, 1}, {0, 1, 1}, {2024, 2, 29}, {9999, 12, 31}, {10000, 1, 1}, {123456789, 12, 31}} {
		y, m, d := ymd[0], ymd[1], ymd[2]
		ext := digits(y, 4) + "-" + digits(m, 2) + "-" + digits(d, 2)
		bas := digits(y, 4) + digits(m, 2) + digits(d, 2)
		for _, flag := range extValues(2) {
			line := fmt.Sprintf("date.format %d %d %d %d -", y, m, d, flag)
			c.Op(line)
			want := ext
			if flag&1 != 0 {
				want = bas
			}
			b, err := date.DefaultFormatter(nil, date.New(y, time.Month(m), d), date.Format(flag))
			c.Check(line)
			if err != nil || string(b) != want {
				c.Fail("C01.fmt.flagbits", line, "flag %d: %q %v, want %q", flag, b, err, want)
			}
		}
	}
	// fmt verbs. Date implements fmt.Formatter, so every verb, flag, width and precision reaches Date.Format. Its documented table
	// (date/date.go) is: %b basic; %e and %s extended; formatByVerb sends every other verb to the default, i.e. extended as well, and
	// Format writes the text as it is (flags, width and precision have no effect). That reading is judged for every ASCII-letter verb
	// fmt passes on (fmt answers %T and %p itself and refuses %w outside Errorf) with the flags and widths fmt can deliver.
	for _, ymd := range [][3]int{{1, 1, 1}, {2024, 2, 29}, {9999, 12, 31}, {0, 6, 5}, {123456, 7, 8}} {
		y, m, d := ymd[0], ymd[1], ymd[2]
		dt := date.New(y, time.Month(m), d)
		ext := digits(y, 4) + "-" + digits(m, 2) + "-" + digits(d, 2)
		bas := digits(y, 4) + digits(m, 2) + digits(d, 2)
		for verb := byte('A'); verb <= 'z'; verb++ {
			if (verb > 'Z' && verb < 'a') || verb == 'T' || verb == 'p' || verb == 'w' {
				continue
			}
			for _, fl := range []string{"", "+", "#", "-", "0", " ", "10", "-12", "012", ".3", "15.4", "+#020.5", "+ #-0"} {
				format := "%" + fl + string(verb)
				want := ext
				if verb == 'b' {
					want = bas
				}
				line := fmt.Sprintf("date.verb %d %d %d %s", y, m, d, hx([]byte(format)))
				// the verbs the documentation names (%b basic; %e, %s extended; %v through fmt's default) are judged
				// exactly and compared with the model; any other verb must give one of the two documented texts and
				// nothing else (a new alias for either form changes nothing the property speaks about)
				documented := verb == 'b' || verb == 'e' || verb == 's' || verb == 'v'
				if documented {
					c.Op(line)
				}
				c.Check(line)
				for _, got := range []string{fmt.Sprintf(format, dt), fmt.Sprintf(format, &dt)} {
					if documented && got != want || !documented && got != ext && got != bas {
						c.Fail("C01.verbs", line, "Sprintf(%q, %s) = %q, want %q (documented table: %%b basic, %%e %%s %%v extended; every other verb one of the two; flags and width have no effect)", format, ext, got, want)
					}
				}
			}
		}
	}
	// long years under raised or disabled limits
	// (leap days of non-leap centuries do not exist and are skipped; those of 400-multiples and of ordinary leap years must round-trip)
	for _, y := range longYears(c) {
		for _, md := range [][2]int{{1, 1}, {2, 28}, {2, 29}, {3, 1}, {12, 31}, {6, 30}} {
			if md[1] > dim(y, md[0]) {
				continue
			}
			if !dateIs(date.New(y, time.Month(md[0]), md[1]), y, md[0], md[1]) {
				c.Fail("C01.new", fmt.Sprintf("date.new %d %d %d", y, md[0], md[1]), "New -> %v", date.New(y, time.Month(md[0]), md[1]))
			}
			for _, flag := range []int{0, 1} {
				out := c.Op(fmt.Sprintf("date.format %d %d %d %d -", y, md[0], md[1], flag))
				for _, ml := range []int{0, 11, 12, 13, 14, 15} {
					c.Op(fmt.Sprintf("date.parse %d 0 %s", ml, out))
				}
				// oracle: parses back whenever the text fits the limit
				b := mustHex(out)
				want := digits(y, 4) + "-" + digits(md[0], 2) + "-" + digits(md[1], 2)
				if flag == 1 {
					want = digits(y, 4) + digits(md[0], 2) + digits(md[1], 2)
				}
				if string(b) != want {
					c.Fail("C01.long.fmt", fmt.Sprintf("date.format %d %d %d %d -", y, md[0], md[1], flag), "%s, want %s", b, want)
				}
				for _, ml := range []int{0, 11, 12, 13, 14, 15} {
					restore := setDateMax(ml)
					p, err := date.DefaultParser(b, 0)
					restore()
					c.Check(fmt.Sprintf("long %s %d", b, ml))
					fits := ml == 0 || len(b) <= ml
					if fits && (err != nil || !dateIs(p, y, md[0], md[1])) {
						c.Fail("C01.long", fmt.Sprintf("date.parse %d 0 %s", ml, out), "%s under limit %d -> %v %v", b, ml, p, err)
					}
					if !fits && !errors.Is(err, date.ErrInputTooLong) {
						c.Fail("C01.long.limit", fmt.Sprintf("date.parse %d 0 %s", ml, out), "%s under limit %d -> %v %v", b, ml, p, err)
					}
				}
			}
			// every secondary output and input path as well, with the limit disabled and raised
			c.Op(fmt.Sprintf("date.paths %d %d %d", y, md[0], md[1]))
			ext := digits(y, 4) + "-" + digits(md[0], 2) + "-" + digits(md[1], 2)
			bas := digits(y, 4) + digits(md[0], 2) + digits(md[1], 2)
			for _, ml := range []int{0, 15} {
				restore := setDateMax(ml)
				c01Secondary(c, y, md[0], md[1], ext, bas, true)
				restore()
			}
		}
	}
	// near misses of valid texts (line terminators, blanks, look-alike digits …) through the model
	for _, base := range []string{"2024-02-29", "20240229", "0001-01-01", "99991231", "10000-01-01"} {
		for _, s := range nearMissTexts(base) {
			c.Op("date.parse 0 0 " + hx([]byte(s)))
			c.Op("date.parse 20 0 " + hx([]byte(s)))
		}
	}
	// direct oracle over the date space
	n := 0
	nSecondary := 0
	forEachDate(c, 16, func(y, m, d int) {
		n++
		dt := date.New(y, time.Month(m), d)
		ext := digits(y, 4) + "-" + digits(m, 2) + "-" + digits(d, 2)
		bas := digits(y, 4) + digits(m, 2) + digits(d, 2)
		c.Check("")
		c.NT(1)
		if !dateIs(dt, y, m, d) {
			c.Fail("C01.new", "date.new "+fmt.Sprint(y, m, d), "New -> %v", dt)
		}
		b, _ := date.DefaultFormatter(nil, dt, 0)
		if string(b) != ext {
			c.Fail("C01.fmt", fmt.Sprintf("date.format %d %d %d 0 -", y, m, d), "%s vs %s", b, ext)
		}
		b2, _ := date.DefaultFormatter(nil, dt, date.FormatBasic)
		if string(b2) != bas {
			c.Fail("C01.fmtb", fmt.Sprintf("date.format %d %d %d 1 -", y, m, d), "%s vs %s", b2, bas)
		}
		if dt.String() != ext {
			c.Fail("C01.String", fmt.Sprintf("date.paths %d %d %d", y, m, d), "%s", dt.String())
		}
		if mt, err := dt.MarshalText(); err != nil || string(mt) != ext {
			c.Fail("C01.MarshalText", fmt.Sprintf("date.paths %d %d %d", y, m, d), "%s %v", mt, err)
		}
		for _, in := range []string{ext, bas} {
			p, err := date.DefaultParser(in, 0)
			if err != nil || !dateIs(p, y, m, d) {
				c.Fail("C01.parse", "date.parse 10 0 "+hx([]byte(in)), "%s -> %v %v", in, p, err)
			}
			p, err = date.DefaultParser([]byte(in), 0)
			if err != nil || !dateIs(p, y, m, d) {
				c.Fail("C01.parseb", "date.parse 10 0 "+hx([]byte(in)), "%s -> %v %v", in, p, err)
			}
			var u date.Date
			if err := u.UnmarshalText([]byte(in)); err != nil || !dateIs(u, y, m, d) {
				c.Fail("C01.UnmarshalText", "date.parse 10 0 "+hx([]byte(in)), "%s -> %v %v", in, u, err)
			}
			us := dateSentinels(y, m, d)[n%2] // … and onto a variable that already holds another date
			if err := us.UnmarshalText([]byte(in)); err != nil || !dateIs(us, y, m, d) {
				c.Fail("C01.UnmarshalText", "date.parse 10 0 "+hx([]byte(in)), "%s onto %v -> %v %v", in, dateSentinels(y, m, d)[n%2], us, err)
			}
		}
		// the hand-picked dates always, the others on a sample
		if n%29 == 0 || c.Thorough || c01Special(y, m, d) {
			nSecondary++
			c01Secondary(c, y, m, d, ext, bas, n%29 == 0 || c01Special(y, m, d))
		}
	})
	c.Note("direct oracle visited %d dates, %d of them with every secondary path", n, nSecondary)
	// MaxInputLength limits the parser's INPUT; the output paths are promised without condition. Every output path of hand-picked and
	// random dates of years 0000-9999 under limits BELOW the length of the text (and a negative one): a parse-side setting leaking
	// into an output path (refusing, truncating or switching to the shorter basic form) shows only there.
	func() {
		low := [][3]int{{1, 1, 1}, {0, 1, 1}, {0, 12, 31}, {2024, 2, 29}, {1900, 2, 28}, {2000, 2, 29}, {999, 9, 9}, {9999, 12, 31}}
		for i := 0; i < 8; i++ {
			y, m := c.R.Intn(10000), 1+c.R.Intn(12)
			low = append(low, [3]int{y, m, 1 + c.R.Intn(dim(y, m))})
		}
		for _, ymd := range low {
			y, m, d := ymd[0], ymd[1], ymd[2]
			dt := date.New(y, time.Month(m), d)
			ext := digits(y, 4) + "-" + digits(m, 2) + "-" + digits(d, 2)
			bas := digits(y, 4) + digits(m, 2) + digits(d, 2)
			for _, ml := range []int{9, 8, 7, 5, 1, -1, 10} {
				restore := setDateMax(ml)
				var got []string
				b0, e0 := date.DefaultFormatter(nil, dt, 0)
				b1, e1 := date.DefaultFormatter([]byte("x:"), dt, date.FormatBasic)
				mt, e2 := dt.MarshalText()
				j, e3 := json.Marshal(dt)
				x, e4 := xml.Marshal(xw{D: dt, A: dt})
				got = append(got, string(b0), string(b1), string(mt), dt.String(), fmt.Sprintf("%s|%e|%b|%v", dt, dt, dt, &dt), string(j), string(x))
				restore()
				want := []string{ext, "x:" + bas, ext, ext, ext + "|" + ext + "|" + bas + "|" + ext, `"` + ext + `"`, `<w a="` + ext + `"><d>` + ext + `</d></w>`}
				c.Check(fmt.Sprintf("lowlimit %s %d", bas, ml))
				errs := []error{e0, e1, e2, nil, nil, e3, e4}
				for i, what := range []string{"DefaultFormatter(0)", "DefaultFormatter(prefix, basic)", "MarshalText", "String", "Sprintf(%s|%e|%b|%v)", "json.Marshal", "xml.Marshal"} {
					if got[i] != want[i] || errs[i] != nil {
						c.Fail("C01.lowlimit", fmt.Sprintf("date.paths %d %d %d", y, m, d), "with MaxInputLength = %d: %s of %s = %q, %v; want %q (the limit is the parser's)", ml, what, ext, got[i], errs[i], want[i])
						break
					}
				}
			}
		}
	}()
	// the property's first sentence names no setting: the canonical texts parse back under the input limit the
	// package ships with (captured before anything changed it)
	func() {
		defer setDateMax(shipped.dateML)()
		for _, ymd := range [][3]int{{1, 1, 1}, {0, 1, 1}, {0, 12, 31}, {2024, 2, 29}, {1900, 2, 28}, {9999, 12, 31}, {c.R.Intn(10000), 1 + c.R.Intn(12), 1 + c.R.Intn(28)}} {
			y, m, d := ymd[0], ymd[1], ymd[2]
			for _, in := range []string{digits(y, 4) + "-" + digits(m, 2) + "-" + digits(d, 2), digits(y, 4) + digits(m, 2) + digits(d, 2)} {
				line := fmt.Sprintf("date.parse %d 0 %s", shipped.dateML, hx([]byte(in)))
				c.Check(line)
				p, err := date.DefaultParser(in, 0)
				sn := dateSentinels(y, m, d)
				u, j := sn[0], sn[1]
				eu := u.UnmarshalText([]byte(in))
				ej := json.Unmarshal([]byte(`"`+in+`"`), &j)
				if err != nil || eu != nil || ej != nil || !dateIs(p, y, m, d) || !dateIs(u, y, m, d) || !dateIs(j, y, m, d) {
					c.Fail("C01.shipped", line, "under the shipped MaxInputLength %d: %q -> %v %v / %v %v / %v %v", shipped.dateML, in, p, err, u, eu, j, ej)
				}
			}
		}
	}()
}

// ---------------------------------------------------------------------------------------- C07
func propC07(c *Ctx) {
	defer setDateMax(10)()
	bs := boundaryDates()
	// correspondence: order, sub, add, adddur, fromtime, new on boundary dates and grids
	for i := 0; i < 6000; i++ {
		a, b := bs[c.R.Intn(len(bs))], bs[c.R.Intn(len(bs))]
		c.Op(fmt.Sprintf("date.cmp %d %d %d %d %d %d", a[0], a[1], a[2], b[0], b[1], b[2]))
		c.Op(fmt.Sprintf("date.sub %d %d %d %d %d %d", a[0], a[1], a[2], b[0], b[1], b[2]))
	}
	grid := []int{-400, -100, -13, -12, -1, 0, 1, 11, 12, 13, 24, 25, 100, 365, 366, 1000}
	for i := 0; i < 6000; i++ {
		a := bs[c.R.Intn(len(bs))]
		c.Op(fmt.Sprintf("date.add %d %d %d %d %d %d", a[0], a[1], a[2], grid[c.R.Intn(len(grid))], grid[c.R.Intn(len(grid))], grid[c.R.Intn(len(grid))]))
	}
	// order far outside years 0000-9999: every date New can build (|year| up to 999,999,999 and the int32
	// extremes of the stored year) must still order chronologically
	far := [][3]int{{-2147483647, 1, 1}, {-999999999, 12, 31}, {-5000000, 6, 15}, {-4194305, 1, 1}, {-4194304, 12, 31}, {-4194303, 1, 1},
		{-70000, 2, 28}, {-1, 12, 31}, {0, 1, 1}, {1, 1, 1}, {2020, 8, 7}, {9999, 12, 31}, {10000, 1, 1}, {32767, 6, 1}, {32768, 6, 1}, {65536, 1, 1},
		{4194303, 12, 31}, {4194304, 12, 31}, {4194305, 1, 1}, {5000000, 1, 1}, {16777216, 3, 3}, {999999999, 12, 31}, {2147483647, 12, 31}}
	for i := 0; i < 12; i++ {
		y := int(int32(c.R.Next()))
		if y == -2147483648 {
			y++
		}
		far = append(far, [3]int{y, 1 + c.R.Intn(12), 1 + c.R.Intn(28)})
	}
	for _, a := range far {
		da := date.New(a[0], time.Month(a[1]), a[2])
		oa := ordinal(a[0], a[1], a[2])
		c07TimeOracle(c, da, a[0], a[1], a[2], fmt.Sprintf("date.new %d %d %d", a[0], a[1], a[2]))
		for _, b := range far {
			db := date.New(b[0], time.Month(b[1]), b[2])
			ob := ordinal(b[0], b[1], b[2])
			line := fmt.Sprintf("date.cmp %d %d %d %d %d %d", a[0], a[1], a[2], b[0], b[1], b[2])
			c.Op(line)
			c.Check(line)
			if da.Before(db) != (oa < ob) || da.After(db) != (oa > ob) || da.Equal(db) != (oa == ob) {
				c.Fail("C07.order.far", line, "%v vs %v: before=%v equal=%v after=%v", da, db, da.Before(db), da.Equal(db), da.After(db))
			}
			if diff := oa - ob; diff < 106751 && diff > -106751 {
				if int64(da.DaysBetween(db)) != diff {
					c.Fail("C07.days.far", "date.sub "+line[9:], "%d, want %d", da.DaysBetween(db), diff)
				}
			}
		}
	}
	// structured Add: one component at a time from month ends and leap days (AddDate normalisation:
	// 29 Feb + 1 year = 1 Mar, 31 Jan + 1 month = 2/3 Mar …), against the independent ordinal
	for _, a := range bs {
		if a[2] < 28 {
			continue
		}
		for _, dy := range []int{-400, -100, -4, -1, 1, 2, 4, 100, 400} {
			addOracle(c, a, dy, 0, 0)
		}
		for _, dm := range []int{-13, -12, -1, 1, 11, 12, 13, 25} {
			addOracle(c, a, 0, dm, 0)
		}
		for _, dd := range []int{-366, -31, -1, 1, 28, 365, 366} {
			addOracle(c, a, 0, 0, dd)
		}
	}
	// deltas far beyond a human life: Add is not limited to time.Duration's range (only Sub / DaysBetween are), and the
	// AddDate-style normalisation holds for any number of days, months and years, alone and combined
	for _, a := range bs {
		if a[2] < 28 || !c07FarReceiver[a[0]] {
			continue
		}
		for _, dd := range []int{106751, -106751, 106752, -106752, 1000000, -1000000, 4000000, -4000000} {
			addOracle(c, a, 0, 0, dd)
		}
		for _, dm := range []int{12000, -12000, 119999, -119999, 120000, -120000} {
			addOracle(c, a, 0, dm, 0)
		}
		for _, dy := range []int{10000, -10000, 1000000, -1000000} {
			addOracle(c, a, dy, 0, 0)
		}
		for _, t := range [][3]int{{1000000, 120000, 4000000}, {-1000000, -120000, -4000000}, {1000000, -120000, 4000000}, {-9999, 119999, -106752}, {1, -13, 106752}} {
			addOracle(c, a, t[0], t[1], t[2])
		}
		for _, ns := range []int64{106751 * 86400000000000, -106751 * 86400000000000, 106751*86400000000000 + 80000000000000, -106751*86400000000000 - 80000000000001, math.MaxInt64, math.MinInt64, math.MinInt64 + 1,
			40000 * 86400000000000, -40000*86400000000000 - 1} {
			addDurOracle(c, a, ns)
		}
	}
	for i := 0; i < 300; i++ {
		a := bs[c.R.Intn(len(bs))]
		addOracle(c, a, c.R.Intn(2000001)-1000000, c.R.Intn(240001)-120000, c.R.Intn(8000001)-4000000)
		addDurOracle(c, a, int64(c.R.Next()))
	}
	// receivers from the whole range a Date is promised for (negative, 5-9 digit and +-999,999,999 years), not only years 0000-9999:
	// the same one-component, combined and far deltas, and durations, against the same independent expectation
	wide := [][3]int{{-999999999, 1, 1}, {-999999999, 12, 31}, {-5000000, 6, 15}, {-4194305, 1, 31}, {-70000, 2, 28}, {-500, 3, 15}, {-400, 2, 29}, {-100, 2, 28}, {-100, 3, 1}, {-4, 2, 29},
		{-1, 12, 31}, {-1, 1, 31}, {0, 1, 1}, {0, 2, 29}, {10000, 1, 1}, {10100, 2, 28}, {32768, 6, 1}, {65636, 2, 29}, {70100, 3, 1}, {100000, 2, 29}, {4294967, 12, 31}, {16777216, 3, 31},
		{999999996, 2, 29}, {999999999, 12, 31}, {999999999, 1, 1}}
	for i := 0; i < 6; i++ {
		y := c.R.Intn(2*999999999+1) - 999999999
		m := 1 + c.R.Intn(12)
		wide = append(wide, [3]int{y, m, 1 + c.R.Intn(dim(y, m))})
	}
	for _, a := range wide {
		for _, t := range [][3]int{{0, 0, 1}, {0, 0, -1}, {0, 0, 31}, {0, 0, 366}, {0, 0, -366}, {0, 1, 0}, {0, -1, 0}, {0, 12, 0}, {0, -13, 0}, {1, 0, 0}, {-1, 0, 0}, {4, 0, 0}, {-100, 0, 0}, {400, 0, 0},
			{0, 0, 106752}, {0, 0, -4000000}, {0, 119999, 0}, {1000000, 0, 0}, {-1000000, 0, 0}, {1, -13, 106752}, {-9999, 119999, -106752},
			{c.R.Intn(2001) - 1000, c.R.Intn(241) - 120, c.R.Intn(80001) - 40000}} {
			addOracle(c, a, t[0], t[1], t[2])
		}
		for _, ns := range []int64{1, -1, 86400e9, -86400e9, 86400e9 - 1, -86400e9 - 1, 40000 * 86400e9, -40000*86400e9 - 1, math.MaxInt64, math.MinInt64, int64(c.R.Next())} {
			addDurOracle(c, a, ns)
		}
	}
	// Sub / DaysBetween by DISTANCE, from receivers of the whole range: every distance up to the edge of time.Duration's range
	// (max Duration = 106751 days 23:47:16.854775807, so 106751 whole days are the last exact value) must be exact on both sides.
	// Outside the range the property promises nothing: nothing is asserted here, the lines only go to the model (which
	// saturates like time.Time.Sub) for the correspondence.
	subRecv := append([][3]int{{1700, 1, 1}, {1960, 1, 1}, {2000, 1, 1}, {2024, 2, 29}, {1, 1, 1}, {9999, 12, 31}, {1582, 10, 15}}, wide...)
	for i := 0; i < 6; i++ {
		subRecv = append(subRecv, bs[c.R.Intn(len(bs))])
	}
	for _, a := range subRecv {
		da := date.New(a[0], time.Month(a[1]), a[2])
		oa := ordinal(a[0], a[1], a[2])
		for _, k0 := range []int64{0, 1, 28, 365, 366, 36524, 53375, 53376, 73414, 73800, 80000, 90000, 94962, 100000, 106000, 106650, 106651, 106750, 106751, 106752, 106753, 110000, 146097, 1000000,
			73800 + int64(c.R.Intn(32951))} {
			for _, k := range []int64{k0, -k0} {
				by, bm, bd := civilFromOrdinal(oa - k)
				if by < -999999999 || by > 999999999 {
					continue
				}
				db := date.New(by, time.Month(bm), bd)
				line := fmt.Sprintf("date.sub %d %d %d %d %d %d", a[0], a[1], a[2], by, bm, bd)
				c.Op(line)
				c.Check(line)
				if !dateIs(db, by, bm, bd) {
					c.Fail("C07.new", fmt.Sprintf("date.new %d %d %d", by, bm, bd), "New -> %v", db)
					continue
				}
				if k <= 106751 && k >= -106751 {
					if got := int64(da.DaysBetween(db)); got != k {
						c.Fail("C07.days.distance", line, "DaysBetween = %d, want %d (inside time.Duration's range)", got, k)
					}
					if got := da.Sub(db); got != time.Duration(k)*24*time.Hour {
						c.Fail("C07.sub.distance", line, "Sub = %d ns, want %d days", int64(got), k)
					}
				}
			}
		}
	}
	for i := 0; i < 4000; i++ {
		a := bs[c.R.Intn(len(bs))]
		days := int64(c.R.Intn(2001) - 1000)
		ns := days*86400e9 + []int64{0, 1, -1, 86399999999999, -86399999999999, 43200e9, int64(c.R.Intn(86400)) * 1e9}[c.R.Intn(7)]
		c.Op(fmt.Sprintf("date.adddur %d %d %d %d", a[0], a[1], a[2], ns))
	}
	for i := 0; i < 3000; i++ {
		c.Op(fmt.Sprintf("date.new %d %d %d", c.R.Intn(12000)-1000, c.R.Intn(60)-24, c.R.Intn(800)-400))
	}
	for off := -12 * 3600; off <= 14*3600; off += 1800 {
		for _, base := range []int64{0, 1709164800, 1704067199, -62135596800, -62135596799, 951868800, 4102444800} {
			for _, dl := range []int64{-1, 0, 1, 43200, 86399, 86400} {
				for _, ns := range []int64{0, 1, 999999999} {
					c.Op(fmt.Sprintf("date.fromtime %d %d %d", base+dl-int64(off), ns, off))
					c.Op(fmt.Sprintf("date.fromtime %d %d %d", base+dl, ns, off))
				}
			}
		}
	}
	// the same conversions at far instants (years 10000, 12345, 0, -1, -5, +-999,999,999 …) in zones on both sides of UTC
	for _, fy := range c07FarZoneYears {
		base := (ordinal(fy[0], fy[1], fy[2])-1)*86400 - 62135596800 // Unix second of that day's midnight UTC
		for _, off := range []int{-12 * 3600, -3600, -1, 0, 59, 5400, 7200, 14 * 3600, 3464, -17762, c.R.Intn(2*86399+1) - 86399} {
			for _, dl := range []int64{-1, 0, 1, 1800, 43200, 86399} {
				c.Op(fmt.Sprintf("date.fromtime %d %d %d", base+dl-int64(off), []int64{0, 999999999}[dl&1], off))
				c.Op(fmt.Sprintf("date.fromtime %d 0 %d", base+dl, off))
			}
		}
	}
	// zones are not all multiples of 30 minutes: any number of seconds in (-86400, 86400) is a legal offset (the
	// local-mean-time zones of the tz database have offsets like +0:57:44); instants within a minute of the local midnight
	oddOffsets := c07OddOffsets(c)
	for _, off := range oddOffsets {
		for _, base := range []int64{0, 1709164800, 1704067199, -62135596799, 951868800} {
			for _, dl := range []int64{-61, -1, 0, 1, 20, 59, 60, 86399} {
				c.Op(fmt.Sprintf("date.fromtime %d %d %d", base+dl-int64(off), []int64{0, 999999999}[(dl&1+1)&1], off))
				c.Op(fmt.Sprintf("date.fromtime %d 0 %d", base+dl, off))
			}
		}
	}
	// direct oracles
	var prev date.Date
	havePrev := false
	n := 0
	forEachDate(c, 8, func(y, m, d int) {
		n++
		dt := date.New(y, time.Month(m), d)
		in := fmt.Sprintf("%d %d %d", y, m, d)
		c.Check("")
		c.NT(1)
		tm := dt.Time()
		if ty, tmm, td := tm.Date(); ty != y || int(tmm) != m || td != d || tm.Location() != time.UTC || tm.Hour() != 0 || tm.Minute() != 0 || tm.Second() != 0 || tm.Nanosecond() != 0 {
			c.Fail("C07.time", "date.new "+in, "%v", tm)
		}
		if !date.FromTime(tm).Equal(dt) {
			c.Fail("C07.time.roundtrip", "date.new "+in, "%v", tm)
		}
		if dt.Before(dt) || dt.After(dt) || !dt.Equal(dt) {
			c.Fail("C07.refl", "date.cmp "+in+" "+in, "%v", dt)
		}
		if havePrev {
			py, pm, pd := prev.Date()
			pin := fmt.Sprintf("%d %d %d", py, int(pm), pd)
			contiguous := ordinal(y, m, d) == ordinal(py, int(pm), pd)+1
			if !prev.Before(dt) || prev.After(dt) || prev.Equal(dt) || dt.Before(prev) || !dt.After(prev) {
				c.Fail("C07.order", "date.cmp "+pin+" "+in, "%v %v", prev, dt)
			}
			if contiguous {
				if dt.DaysBetween(prev) != 1 || prev.DaysBetween(dt) != -1 || dt.Sub(prev) != 24*time.Hour {
					c.Fail("C07.days", "date.sub "+in+" "+pin, "%v %v %d", prev, dt, dt.DaysBetween(prev))
				}
				if !prev.Add(0, 0, 1).Equal(dt) || !dt.Add(0, 0, -1).Equal(prev) || !prev.AddDuration(24*time.Hour).Equal(dt) ||
					!prev.AddDuration(47*time.Hour+59*time.Minute).Equal(dt) || !dt.AddDuration(-time.Nanosecond).Equal(prev) {
					c.Fail("C07.add", "date.add "+pin+" 0 0 1", "%v %v", prev, dt)
				}
			}
		}
		prev, havePrev = dt, true
	})
	for _, a := range bs {
		da := date.New(a[0], time.Month(a[1]), a[2])
		oa := ordinal(a[0], a[1], a[2])
		for _, b := range bs {
			db := date.New(b[0], time.Month(b[1]), b[2])
			ob := ordinal(b[0], b[1], b[2])
			in := fmt.Sprintf("%d %d %d %d %d %d", a[0], a[1], a[2], b[0], b[1], b[2])
			c.Check("")
			nb := 0
			for _, x := range []bool{da.Before(db), da.Equal(db), da.After(db)} {
				if x {
					nb++
				}
			}
			if nb != 1 || da.Before(db) != (oa < ob) || da.After(db) != (oa > ob) || da.Equal(db) != (oa == ob) {
				c.Fail("C07.pairs", "date.cmp "+in, "%v %v", da, db)
			}
			diff := oa - ob
			if diff < 106751 && diff > -106751 {
				if int64(da.DaysBetween(db)) != diff || da.Sub(db) != time.Duration(diff)*24*time.Hour {
					c.Fail("C07.pairdays", "date.sub "+in, "%v %v %d %d", da, db, da.DaysBetween(db), diff)
				}
			}
		}
	}
	c.NT(int64(len(bs) * len(bs)))
	// Add against the ordinal oracle: adding days moves the ordinal by exactly that many days
	for i := 0; i < 20000; i++ {
		a := bs[c.R.Intn(len(bs))]
		k := c.R.Intn(20001) - 10000
		r := date.New(a[0], time.Month(a[1]), a[2]).Add(0, 0, k)
		ry, rm, rd := r.Date()
		c.Check("")
		if ordinal(ry, int(rm), rd) != ordinal(a[0], a[1], a[2])+int64(k) || rd > dim(ry, int(rm)) || rd < 1 {
			c.Fail("C07.add.days", fmt.Sprintf("date.add %d %d %d 0 0 %d", a[0], a[1], a[2], k), "-> %v", r)
		}
		// months: AddDate normalisation = New(y, m+k, d)
		km := c.R.Intn(61) - 30
		ky := c.R.Intn(21) - 10
		r2 := date.New(a[0], time.Month(a[1]), a[2]).Add(ky, km, 0)
		ty := a[0] + ky
		tm := a[1] + km
		for tm > 12 {
			tm -= 12
			ty++
		}
		for tm < 1 {
			tm += 12
			ty--
		}
		want := ordinal(ty, tm, 1) + int64(a[2]-1)
		r2y, r2m, r2d := r2.Date()
		if ordinal(r2y, int(r2m), r2d) != want {
			c.Fail("C07.add.months", fmt.Sprintf("date.add %d %d %d %d %d 0", a[0], a[1], a[2], ky, km), "-> %v", r2)
		}
	}
	// FromTime in fixed zones against an independent expectation — through every entry point the clause covers: the
	// function FromTime, the pointer method (*Date).FromTime and Scan(time.Time)
	var offs []int
	for off := -12 * 3600; off <= 14*3600; off += 1800 {
		offs = append(offs, off)
	}
	offs = append(offs, oddOffsets...)
	for _, off := range offs {
		z := time.FixedZone("z", off)
		bases := []time.Time{time.Date(2024, 2, 29, 0, 0, 0, 0, time.UTC), time.Date(2023, 12, 31, 23, 59, 59, 999, time.UTC), time.Date(1, 1, 1, 0, 0, 1, 0, time.UTC), time.Date(2000, 3, 1, 0, 0, 0, 0, z),
			time.Date(2024, 3, 1, 0, 0, 20, 0, z), time.Date(1900, 2, 28, 23, 59, 40, 0, z)}
		// "shown in that time's own location" for every year a Date can hold, not only 0001-2100: local and UTC midnights of far,
		// five-digit, zero and negative years (a conversion that falls back to UTC outside 0000-9999 shows only there)
		for _, fy := range c07FarZoneYears {
			bases = append(bases, time.Date(fy[0], time.Month(fy[1]), fy[2], 0, 0, 0, 0, z), time.Date(fy[0], time.Month(fy[1]), fy[2], 0, 0, 0, 0, time.UTC))
		}
		for _, base := range bases {
			for _, dl := range []time.Duration{-time.Second, 0, time.Second, 12 * time.Hour, -61 * time.Second, 59 * time.Second} {
				t := base.Add(dl).In(z)
				if t.IsZero() {
					continue
				}
				c.Check("")
				// independent expectation: shift the UTC instant by the offset and split into days
				sec := t.Unix() + int64(off) + 62135596800
				dayNo := floorDiv64(sec, 86400)
				line := fmt.Sprintf("date.fromtime %d %d %d", t.Unix(), t.Nanosecond(), off)
				d := date.FromTime(t)
				// the pointer method and Scan on a fresh variable and on variables that already hold another date (far away / same month)
				wy, wm, wd := civilFromOrdinal(dayNo + 1)
				sn := dateSentinels(wy, wm, wd)
				for _, r0 := range []date.Date{{}, sn[0], sn[1]} {
					dp, ds := r0, r0
					dp.FromTime(t)
					serr := ds.Scan(t)
					for i, g := range []date.Date{d, dp, ds} {
						gy, gm, gd := g.Date()
						if ordinal(gy, int(gm), gd) != dayNo+1 || gd < 1 || gd > dim(gy, int(gm)) {
							c.Fail([]string{"C07.fromtime", "C07.fromtime.method", "C07.fromtime.scan"}[i], line, "%v (offset %d s) onto %v -> %v", t, off, r0, g)
						}
					}
					if serr != nil {
						c.Fail("C07.fromtime.scan", line, "Scan(%v): %v", t, serr)
					}
				}
			}
		}
	}
}

// c07FarZoneYears: days outside years 0001-2100 on which the zone conversions are judged (year ends, leap days, mid-year).
var c07FarZoneYears = [][3]int{{10000, 1, 1}, {9999, 12, 31}, {12345, 6, 15}, {65536, 2, 29}, {999999999, 12, 31}, {0, 1, 1}, {0, 2, 29}, {-1, 12, 31}, {-5, 3, 1}, {-400, 2, 29}, {-999999999, 1, 1}}

// c07FarReceiver: the receiver years of the far Add / AddDuration deltas.
var c07FarReceiver = map[int]bool{0: true, 4: true, 1900: true, 2000: true, 2024: true, 9999: true}

// c07OddOffsets are zone offsets that are not multiples of 30 minutes: the hand-picked ones always, a few random ones.
func c07OddOffsets(c *Ctx) []int {
	offs := []int{1, -1, 59, -59, 61, -61, 3599, -3599, 3601, -3601, 3464, -17762, 20700, 45900, 86399, -86399, 43200 + 30, -(43200 + 30)}
	for i := 0; i < 8; i++ {
		offs = append(offs, c.R.Intn(2*86399+1)-86399)
	}
	return offs
}

// addDurOracle checks one AddDuration call: the date moves by floor(ns / 24h) days when the receiver is midnight.
func addDurOracle(c *Ctx, a [3]int, ns int64) {
	line := fmt.Sprintf("date.adddur %d %d %d %d", a[0], a[1], a[2], ns)
	c.Op(line)
	r := date.New(a[0], time.Month(a[1]), a[2]).AddDuration(time.Duration(ns))
	want := ordinal(a[0], a[1], a[2]) + floorDiv64(ns, 86400e9)
	ry, rm, rd := r.Date()
	c.Check(line)
	if int(rm) < 1 || int(rm) > 12 || rd < 1 || rd > dim(ry, int(rm)) || ordinal(ry, int(rm), rd) != want {
		wy, wm, wd := civilFromOrdinal(want)
		c.Fail("C07.adddur", line, "-> %v, want %04d-%02d-%02d", r, wy, wm, wd)
		return
	}
	c07TimeOracle(c, r, ry, int(rm), rd, line)
}

// c07TimeOracle: d, whose components are (y, m, dd), converts to midnight UTC of the same year-month-day — through Time() and through
// Value() (the database/sql conversion) — for any year, not only 0000-9999; and that time converts back to the same date.
func c07TimeOracle(c *Ctx, d date.Date, y, m, dd int, line string) {
	c.Check("")
	check := func(what string, tm time.Time) {
		if ty, tmm, td := tm.Date(); ty != y || int(tmm) != m || td != dd || tm.Location() != time.UTC || tm.Hour() != 0 || tm.Minute() != 0 || tm.Second() != 0 || tm.Nanosecond() != 0 {
			c.Fail("C07.time", line, "%s of %04d-%02d-%02d = %v (location %v), want midnight UTC of the same day", what, y, m, dd, tm, tm.Location())
		}
	}
	check("Time()", d.Time())
	if v, err := d.Value(); err != nil {
		c.Fail("C07.time", line, "Value(): %v", err)
	} else if tv, ok := v.(time.Time); !ok {
		c.Fail("C07.time", line, "Value() is %T", v)
	} else {
		check("Value()", tv)
	}
	if back := date.FromTime(d.Time()); !dateIs(back, y, m, dd) {
		c.Fail("C07.time.roundtrip", line, "FromTime(Time()) = %v", back)
	}
}

// addOracle checks one Add call against time.AddDate's documented rule computed independently:
// normalise (year+dy, month+dm) into a year and a month 1..12, take day 1 of that month, move d-1+dd days.
func addOracle(c *Ctx, a [3]int, dy, dm, dd int) {
	line := fmt.Sprintf("date.add %d %d %d %d %d %d", a[0], a[1], a[2], dy, dm, dd)
	c.Op(line)
	r := date.New(a[0], time.Month(a[1]), a[2]).Add(dy, dm, dd)
	months := (a[0]+dy)*12 + (a[1] - 1 + dm) // months since year 0, January
	ty := floorDiv(months, 12)
	tm := months - ty*12 + 1
	want := ordinal(ty, tm, 1) + int64(a[2]-1) + int64(dd)
	ry, rm, rd := r.Date()
	c.Check(line)
	if int(rm) < 1 || int(rm) > 12 || rd < 1 || rd > dim(ry, int(rm)) {
		c.Fail("C07.add.notadate", line, "-> %v is not a calendar date", r)
		return
	}
	if ordinal(ry, int(rm), rd) != want {
		wy, wm, wd := civilFromOrdinal(want)
		c.Fail("C07.add.normalise", line, "-> %v, want %04d-%02d-%02d", r, wy, wm, wd)
	}
	if !date.FromTime(r.Time()).Equal(r) {
		c.Fail("C07.add.time", line, "-> %v does not survive Time()", r)
	}
	c07TimeOracle(c, r, ry, int(rm), rd, line)
}

// ---------------------------------------------------------------------------------------- C09

// dateRecognise is the independent recogniser: (valid, y, m, d).
func dateRecognise(s string) (bool, int, int, int) {
	allDigits := func(t string) bool {
		if t == "" {
			return false
		}
		for i := 0; i < len(t); i++ {
			if t[i] < '0' || t[i] > '9' {
				return false
			}
		}
		return true
	}
	var ys, ms, ds string
	if len(s) >= 10 && s[len(s)-3] == '-' && s[len(s)-6] == '-' {
		ys, ms, ds = s[:len(s)-6], s[len(s)-5:len(s)-3], s[len(s)-2:]
	} else if len(s) >= 8 {
		ys, ms, ds = s[:len(s)-4], s[len(s)-4:len(s)-2], s[len(s)-2:]
	} else {
		return false, 0, 0, 0
	}
	if !allDigits(ys) || !allDigits(ms) || !allDigits(ds) || len(ys) < 4 || len(ys) > 9 {
		return false, 0, 0, 0
	}
	num := func(t string) int {
		n := 0
		for i := 0; i < len(t); i++ {
			n = n*10 + int(t[i]-'0')
		}
		return n
	}
	y, m, d := num(ys), num(ms), num(ds)
	if m < 1 || m > 12 || d < 1 || d > dim(y, m) {
		return false, 0, 0, 0
	}
	return true, y, m, d
}

// dateAltNotations writes the day (y, m, d) in notations other than the two of the grammar.
func dateAltNotations(y, m, d int) []string {
	ys, ms, ds := digits(y, 4), digits(m, 2), digits(d, 2)
	ext, bas := ys+"-"+ms+"-"+ds, ys+ms+ds
	mon := []string{"Jan", "Feb", "Mar", "Apr", "May", "Jun", "Jul", "Aug", "Sep", "Oct", "Nov", "Dec"}[m-1]
	yday := int(ordinal(y, m, d) - ordinal(y, 1, 1) + 1)
	var out []string
	for _, base := range []string{ext, bas} {
		for _, tod := range []string{"T00:00:00Z", "T00:00:00", "T00:00", " 00:00:00", " 00:00", "T12:34:56+02:00", "T23:59:59.999Z", "T00:00:00.000000-07:00", " 00:00:00 +0000 UTC", "T000000Z", "T00", "Z", "+00:00",
			" 12:00 AM", "T24:00:00", "t00:00:00z", "_00:00:00", "T00:00:00+0000"} {
			out = append(out, base+tod)
		}
		out = append(out, "D:"+base, "date:"+base, base+" AD", base+" CE", "AD "+base, base+"/P1D", base+"/"+base, base+".", "@"+base)
	}
	for _, sep := range []string{"-", ".", "/", " ", ""} {
		out = append(out, ds+sep+ms+sep+ys, ms+sep+ds+sep+ys, ys+sep+ds+sep+ms, ds+sep+ms+sep+ys[len(ys)-2:], ys[len(ys)-2:]+sep+ms+sep+ds,
			fmt.Sprint(y)+sep+fmt.Sprint(m)+sep+fmt.Sprint(d), ys+sep+mon+sep+ds, ds+sep+mon+sep+ys, ys+sep+ms, ys+sep+digits(yday, 3), ys+sep+"W"+digits((yday+6)/7, 2)+sep+"1")
	}
	// … and in its OTHER encoding: the seven bytes of MarshalBinary, raw, hex-spelled and followed by a newline
	bin := []byte{1, byte(uint32(y) >> 24), byte(uint32(y) >> 16), byte(uint32(y) >> 8), byte(uint32(y)), byte(m), byte(d)}
	out = append(out, string(bin), hx(bin), string(bin)+"\n", string(bin[1:]), "\x01"+bas)
	out = append(out, mon+" "+fmt.Sprint(d)+", "+ys, fmt.Sprint(d)+" "+mon+" "+ys, "Mon, "+ds+" "+mon+" "+ys, ys, ys+ms, "--"+ms+"-"+ds, "+"+digits(y, 6)+"-"+ms+"-"+ds, digits(y, 4)+"年"+ms+"月"+ds+"日")
	return out
}

func isBasic(s string) bool { return !strings.Contains(s, "-") }

func checkDateParse(c *Ctx, s string, ml int, rule date.Rule) {
	restore := setDateMax(ml)
	p, err := date.DefaultParser(s, rule)
	restore()
	valid, y, m, d := dateRecognise(s)
	in := fmt.Sprintf("date.parse %d %d %s", ml, int(rule), hx([]byte(s)))
	c.Check("")
	tooLong := ml != 0 && len(s) > ml
	switch {
	case s != "" && tooLong:
		if !errors.Is(err, date.ErrInputTooLong) {
			c.Fail("C09.toolong", in, "%q -> %v %v", s, p, err)
		}
	case valid && isBasic(s) && rule&date.RuleDisableBasic != 0:
		if !errors.Is(err, date.ErrBasicFormatDisabled) {
			c.Fail("C09.basicDisabled", in, "%q -> %v %v", s, p, err)
		}
	case valid:
		if err != nil {
			c.Fail("C09.reject", in, "%q rejected: %v", s, err)
		} else if py, pm, pd := p.Date(); py != y || int(pm) != m || pd != d {
			c.Fail("C09.components", in, "%q -> %v", s, p)
		} else if p.Year() != y || int(p.Month()) != m || p.Day() != d {
			// "has exactly the written year, month and day" whichever accessor reads them: the single accessors as well as the triple
			c.Fail("C09.components", in, "%q -> Date() = %d %d %d but Year() Month() Day() = %d %d %d", s, py, int(pm), pd, p.Year(), int(p.Month()), p.Day())
		}
	default:
		if err == nil {
			c.Fail("C09.accept", in, "%q accepted as %v", s, p)
		}
	}
	if err != nil {
		if typed, _ := datePE(err); !typed {
			c.Fail("C09.typed", in, "%T", err)
		}
		if !dateIsZeroValue(p) { // judged on the accessor triple, not with the library's own IsZero
			c.Fail("C09.zero", in, "%v", p)
		}
	}
}

func propC09(c *Ctx) {
	defer setDateMax(10)()
	years := []int{0, 1, 4, 100, 400, 1900, 2000, 2023, 2024, 9999}
	if c.Thorough {
		years = append(years, boundaryYears...)
		for i := 0; i < 30; i++ {
			years = append(years, c.R.Intn(10000))
		}
	} else {
		for i := 0; i < 6; i++ {
			years = append(years, c.R.Intn(10000))
		}
	}
	for yi, y := range years {
		for mm := 0; mm < 100; mm++ {
			for dd := 0; dd < 100; dd++ {
				layouts := []string{digits(y, 4) + "-" + digits(mm, 2) + "-" + digits(dd, 2), digits(y, 4) + digits(mm, 2) + digits(dd, 2),
					digits(y, 4) + "-" + digits(mm, 2) + digits(dd, 2), digits(y, 4) + digits(mm, 2) + "-" + digits(dd, 2)}
				for li, in := range layouts {
					for _, rule := range []date.Rule{0, date.RuleDisableBasic} {
						checkDateParse(c, in, 10, rule)
					}
					if yi < 4 && (mm < 14 || mm%10 == 0) && (dd < 33 || dd%10 == 0) {
						c.Op(fmt.Sprintf("date.parse 10 %d %s", li%2, hx([]byte(in))))
					}
				}
			}
		}
	}
	c.NT(int64(len(years)) * 100 * 100 * 4)
	// 5-9 digit years
	// year digit counts around the grammar's 4..9 window (3 and 10 digits must be refused)
	for _, ys := range []string{"999", "0999", "1234567890", "0000002024", "12345678901", "99999999999", "000"} {
		for _, rest := range []string{"-01-01", "0101", "-12-31", "1231"} {
			for _, ml := range []int{0, 15, 20} {
				in := ys + rest
				checkDateParse(c, in, ml, 0)
				c.Op(fmt.Sprintf("date.parse %d 0 %s", ml, hx([]byte(in))))
			}
		}
	}
	// long years of every kind (non-leap centuries, multiples of 400, ordinary leap and non-leap years, values around 2^15, 2^16, 2^32/1000 …,
	// a few random ones per run): the leap day is accepted exactly when the year has one, and the components are the written ones
	for _, y := range longYears(c) {
		for _, md := range [][2]int{{0, 1}, {1, 0}, {1, 1}, {1, 31}, {2, 28}, {2, 29}, {2, 30}, {3, 1}, {4, 30}, {4, 31}, {6, 31}, {9, 31}, {11, 31}, {12, 31}, {12, 32}, {13, 1}} {
			for _, ml := range []int{0, 8, 10, 15} {
				for _, in := range []string{digits(y, 4) + "-" + digits(md[0], 2) + "-" + digits(md[1], 2), digits(y, 4) + digits(md[0], 2) + digits(md[1], 2)} {
					checkDateParse(c, in, ml, 0)
					checkDateParse(c, in, ml, date.RuleDisableBasic)
					c.Op(fmt.Sprintf("date.parse %d %d %s", ml, c.R.Intn(2), hx([]byte(in))))
				}
			}
		}
	}
	// "separators both present or both absent" for EVERY year width: the two half-separated layouts of long years (the shortest,
	// 12345-0101, has ten bytes and so fits the shipped limit), under the limits 0 / 10 / 15 and both rules, and through the model
	for _, y := range longYears(c) {
		for _, md := range [][2]int{{1, 1}, {2, 28}, {2, 29}, {12, 31}} {
			for _, in := range []string{digits(y, 4) + "-" + digits(md[0], 2) + digits(md[1], 2), digits(y, 4) + digits(md[0], 2) + "-" + digits(md[1], 2)} {
				for _, ml := range []int{0, 10, 15} {
					checkDateParse(c, in, ml, 0)
					checkDateParse(c, in, ml, date.RuleDisableBasic)
				}
				if md[0] != 2 {
					c.Op(fmt.Sprintf("date.parse %d %d %s", []int{0, 10, 15}[(y+md[0])%3], y&1, hx([]byte(in))))
				}
			}
		}
	}
	c.NT(int64(len(longYears(c))) * 8)
	// consistent edits at BOTH separator positions (every single-position edit is made below): both separators replaced by the same
	// byte — all 255 others —, and every pair out of the separators people write (slash, dot, colon, blank, underscore, en dash, minus
	// sign, nothing, the hyphen itself). The hyphen is the only separator of the grammar.
	for _, ymd := range [][3]int{{2024, 2, 29}, {0, 1, 1}, {9999, 12, 31}, {1900, 2, 28}, {12345, 1, 1}, {123456789, 12, 31}} {
		ys, ms, ds := digits(ymd[0], 4), digits(ymd[1], 2), digits(ymd[2], 2)
		for b := 0; b < 256; b++ {
			if b == '-' {
				continue
			}
			sep := string([]byte{byte(b)})
			x := ys + sep + ms + sep + ds
			for _, ml := range []int{0, 10, 15} {
				checkDateParse(c, x, ml, 0)
			}
			checkDateParse(c, x, 15, date.RuleDisableBasic)
			if b < '0' || b > '9' && b < 'A' || b == '_' || b == 0x7f || b == 0xad || b == 0xff {
				c.Op(fmt.Sprintf("date.parse %d %d %s", []int{0, 15}[b&1], b>>1&1, hx([]byte(x))))
			}
		}
		seps := []string{"-", "", "/", ".", ":", " ", "_", "\u2013", "\u2212", "\u00ad"}
		for _, s1 := range seps {
			for _, s2 := range seps {
				if s1 == s2 && (s1 == "-" || s1 == "") {
					continue
				}
				x := ys + s1 + ms + s2 + ds
				for _, ml := range []int{0, 15, 20} {
					checkDateParse(c, x, ml, 0)
					checkDateParse(c, x, ml, date.RuleDisableBasic)
				}
				c.Op(fmt.Sprintf("date.parse %d %d %s", []int{0, 20}[len(x)&1], len(s1)&1, hx([]byte(x))))
			}
		}
	}
	c.NT(6 * (255 + 98))
	// the same day in OTHER well-known notations (a "helpful" reader accepts them; the grammar does not): timestamps with a complete
	// time of day and zone, reversed and US orders, month names, ordinal and week dates, two-digit years, unpadded components, eras.
	// The recogniser decides (a few of them may be valid basic texts of another date); limits 0, exactly the length, and 40.
	nalt := 0
	for _, ymd := range [][3]int{{2024, 2, 29}, {1, 1, 1}, {9999, 12, 31}, {2023, 10, 5}, {12345, 1, 1}, {c.R.Intn(10000), 1 + c.R.Intn(12), 1 + c.R.Intn(28)}} {
		for _, x := range dateAltNotations(ymd[0], ymd[1], ymd[2]) {
			for _, ml := range []int{0, len(x), 40} {
				checkDateParse(c, x, ml, 0)
				checkDateParse(c, x, ml, date.RuleDisableBasic)
			}
			c.Op(fmt.Sprintf("date.parse %d %d %s", []int{0, 40}[nalt&1], nalt>>1&1, hx([]byte(x))))
			nalt++
		}
	}
	c.NT(int64(nalt))
	// every string over the alphabet up to a length
	alpha := "01239-"
	maxLen := 8
	if c.Thorough {
		maxLen = 9
	}
	var rec func(prefix []byte)
	cnt := 0
	rec = func(prefix []byte) {
		if len(prefix) >= 7 {
			s := string(prefix)
			checkDateParse(c, s, 10, 0)
			cnt++
			if ok, _, _, _ := dateRecognise(s); ok || cnt%211 == 0 {
				c.Op("date.parse 10 0 " + hx(prefix))
			}
		}
		if len(prefix) == maxLen {
			return
		}
		for i := 0; i < len(alpha); i++ {
			rec(append(prefix, alpha[i]))
		}
	}
	rec(nil)
	c.NT(int64(cnt))
	// longer strings: valid shapes with the alphabet in the year part handled by mutation below
	// (two long-year texts as well: every single-position edit is made on five-digit years too, not only on four-digit ones)
	valids := []string{"2024-02-29", "20240229", "0000-01-01", "99991231", "2023-12-31", "1900-02-28", "2000-02-29", "12345-01-01", "100000229"}
	for _, v := range valids {
		for pos := 0; pos < len(v); pos++ {
			for b := 0; b < 256; b++ {
				mut := []byte(v)
				mut[pos] = byte(b)
				for _, ml := range []int{0, 8, 10, 15} {
					checkDateParse(c, string(mut), ml, 0)
				}
				checkDateParse(c, string(mut), 10, date.RuleDisableBasic)
				if b%5 == int(c.Seed%5) || (b >= '-' && b <= ':') {
					c.Op(fmt.Sprintf("date.parse 10 %d %s", b&1, hx(mut)))
				}
			}
			// insertion and deletion
			del := append(append([]byte{}, v[:pos]...), v[pos+1:]...)
			checkDateParse(c, string(del), 10, 0)
			c.Op("date.parse 10 0 " + hx(del))
			for _, ins := range []byte{'0', '-', '9', ' '} {
				x := append(append(append([]byte{}, v[:pos]...), ins), v[pos:]...)
				checkDateParse(c, string(x), 15, 0)
				c.Op("date.parse 15 0 " + hx(x))
			}
		}
		// every byte value before the first and after the last byte of the valid text
		for b := 0; b < 256; b++ {
			for _, x := range []string{string([]byte{byte(b)}) + v, v + string([]byte{byte(b)})} {
				for _, ml := range []int{0, 10, 15} {
					checkDateParse(c, x, ml, 0)
				}
				checkDateParse(c, x, 15, date.RuleDisableBasic)
				if b < 0x30 || b > 0x7e || b == ':' || b == 'Z' {
					c.Op(fmt.Sprintf("date.parse 15 %d %s", b&1, hx([]byte(x))))
				}
			}
		}
		// near misses a lenient parser would forgive: line terminators, blanks, NUL, BOM, a doubled end byte … glued
		// to the valid text, and one digit / hyphen replaced by a multi-byte look-alike (the grammar is ASCII)
		for _, x := range nearMissTexts(v) {
			for _, ml := range []int{0, 10, 15, 20, len(x)} {
				for _, rule := range []date.Rule{0, date.RuleDisableBasic} {
					checkDateParse(c, x, ml, rule)
				}
			}
			c.Op("date.parse 0 0 " + hx([]byte(x)))
			c.Op(fmt.Sprintf("date.parse %d 1 %s", len(x), hx([]byte(x))))
			c.Op("date.parse 10 0 " + hx([]byte(x)))
		}
	}
	// the rule is a set of flags: "disabled by rule" is a test of the RuleDisableBasic bit, whatever other bits are set
	for _, v := range append(append([]string{}, valids...), "2023-02-29", "20230229", "2024-0229", "202402-29", "20241301", "123456789-01-01", "1234567890101", "", "2024-02-29\n", "x") {
		for _, r := range extValues(2) {
			for _, ml := range []int{10, 0} {
				checkDateParse(c, v, ml, date.Rule(r))
			}
			c.Op(fmt.Sprintf("date.parse 0 %d %s", r, hx([]byte(v))))
		}
	}
	c.Op("date.parse 10 0 -")
	checkDateParse(c, "", 10, 0)
}

// ---------------------------------------------------------------------------------------- C11
func propC11(c *Ctx) {
	check := func(y, m, d int) {
		dt := date.New(y, time.Month(m), d)
		in := fmt.Sprintf("date.bin %d %d %d", y, m, d)
		bin, err := dt.MarshalBinary()
		c.Check("")
		if err != nil || len(bin) != 7 || bin[0] != 1 || int(int32(uint32(bin[1])<<24|uint32(bin[2])<<16|uint32(bin[3])<<8|uint32(bin[4]))) != y || int(bin[5]) != m || int(bin[6]) != d {
			c.Fail("C11.layout", in, "%v %v", bin, err)
		}
		var ub date.Date
		if err := ub.UnmarshalBinary(bin); err != nil || !ub.Equal(dt) || !dateIs(ub, y, m, d) {
			c.Fail("C11.roundtrip", "date.unbin "+hx(bin), "%v %v", ub, err)
		}
		us := dateSentinels(y, m, d)[(y+d)&1] // … and onto a variable that already holds another date
		if err := us.UnmarshalBinary(bin); err != nil || !dateIs(us, y, m, d) {
			c.Fail("C11.roundtrip", "date.unbin "+hx(bin), "onto a used variable: %v %v", us, err)
		}
	}
	lo := -400
	step := 1
	if !c.Thorough {
		step = 7
	}
	n := 0
	for y := lo + int(c.Seed%uint64(step)); y <= 9999; y += step {
		for m := 1; m <= 12; m++ {
			for d := 1; d <= dim(y, m); d++ {
				check(y, m, d)
				n++
			}
		}
	}
	c.NT(int64(n))
	for i := 0; i < 20000; i++ {
		y := c.R.Intn(2*999999999+1) - 999999999
		m := 1 + c.R.Intn(12)
		d := 1 + c.R.Intn(dim(y, m))
		check(y, m, d)
		if i < 1500 {
			out := c.Op(fmt.Sprintf("date.bin %d %d %d", y, m, d))
			c.Op("date.unbin " + out)
		}
	}
	for _, y := range []int{-999999999, 999999999, -1, 0, 1, -400, 2147483647, -2147483648 + 1} {
		if y >= -999999999 && y <= 999999999 {
			check(y, 1, 1)
			check(y, 12, 31)
			check(y, 2, 28)
			check(y, 2, dim(y, 2)) // a hand-picked year brings its special day: the leap day when it has one
			check(y, 3, 1)
		}
		out := c.Op(fmt.Sprintf("date.bin %d 2 28", y))
		c.Op("date.unbin " + out)
	}
	for _, y := range boundaryYears {
		for m := 1; m <= 12; m++ {
			for _, d := range []int{1, 28, dim(y, m)} {
				out := c.Op(fmt.Sprintf("date.bin %d %d %d", y, m, d))
				c.Op("date.unbin " + out)
			}
		}
	}
	// the special days of long and negative years of every kind: the last day of February and 1 March round-trip
	specialYears := append(longYears(c), 0, -1, -4, -100, -400, -1900, -2000, -65636, -70100, -999999600, -999999900, -999999996, -999999999)
	for i := 0; i < 4; i++ {
		specialYears = append(specialYears, -4*(1+c.R.Intn(249999999)), -100*(1+c.R.Intn(9999999)), -400*(1+c.R.Intn(2499999)), -1-c.R.Intn(999999999))
	}
	for _, y := range specialYears {
		check(y, 2, 28)
		check(y, 2, dim(y, 2))
		check(y, 3, 1)
		check(y, 12, 31)
		out := c.Op(fmt.Sprintf("date.bin %d 2 %d", y, dim(y, 2)))
		c.Op("date.unbin " + out)
	}
	// all (month, day) bytes for several years: never yields a non-date. In the quick tier too the years include negative ones
	// (century, multiple of 400, ordinary leap year, -1, the lower end of the range) and long ones (non-leap century, leap year beyond 2^16)
	ys := []int{2023, 2024, 1900, 2000, -100, -400, -4, -1, 0, -999999999, 70100, 65636}
	if c.Thorough {
		ys = append(ys, 999999999, 100000, -1900, 1+c.R.Intn(9999))
	}
	// … and, for every special year, the (month, day) bytes around the real ones (0..14 x 0..34 and the top of the byte range)
	for _, y := range specialYears {
		for mb := 0; mb < 256; mb++ {
			if mb > 14 && mb < 250 {
				continue
			}
			for db := 0; db < 256; db++ {
				if db > 34 && db < 250 {
					continue
				}
				in := []byte{1, byte(uint32(y) >> 24), byte(uint32(y) >> 16), byte(uint32(y) >> 8), byte(uint32(y)), byte(mb), byte(db)}
				ub := date.New(1999, 9, 9)
				err := ub.UnmarshalBinary(in)
				valid := mb >= 1 && mb <= 12 && db >= 1 && db <= dim(y, mb)
				c.Check("")
				if (err == nil) != valid {
					c.Fail("C11.bytes", "date.unbin "+hx(in), "%d %d %d %v -> %v", y, mb, db, err, ub)
				} else if err == nil {
					if uy, um, ud := ub.Date(); uy != y || int(um) != mb || ud != db {
						c.Fail("C11.bytes.value", "date.unbin "+hx(in), "-> %v", ub)
					}
				} else if !dateIs(ub, 1999, 9, 9) {
					c.Fail("C11.bytes.recv", "date.unbin "+hx(in), "receiver changed to %v", ub)
				}
				if mb == 2 && db >= 28 && db <= 30 {
					c.Op("date.unbin " + hx(in))
				}
			}
		}
	}
	c.NT(int64(len(specialYears)) * 21 * 41)
	for yi, y := range ys {
		for mb := 0; mb < 256; mb++ {
			for db := 0; db < 256; db++ {
				in := []byte{1, byte(uint32(y) >> 24), byte(uint32(y) >> 16), byte(uint32(y) >> 8), byte(uint32(y)), byte(mb), byte(db)}
				ub := date.New(1999, 9, 9)
				err := ub.UnmarshalBinary(in)
				valid := mb >= 1 && mb <= 12 && db >= 1 && db <= dim(y, mb)
				c.Check("")
				if (err == nil) != valid {
					c.Fail("C11.bytes", "date.unbin "+hx(in), "%d %d %d %v -> %v", y, mb, db, err, ub)
				}
				if err == nil {
					if uy, um, ud := ub.Date(); uy != y || int(um) != mb || ud != db {
						c.Fail("C11.bytes.value", "date.unbin "+hx(in), "-> %v", ub)
					}
				} else if !ub.Equal(date.New(1999, 9, 9)) {
					c.Fail("C11.bytes.recv", "date.unbin "+hx(in), "receiver changed to %v", ub)
				}
				if yi < 2 && (mb < 15 || mb > 250) && (db < 34 || db > 250) {
					c.Op("date.unbin " + hx(in))
				}
			}
		}
	}
	c.NT(int64(len(ys)) * 65536)
	// versions and lengths
	good := []byte{1, 0, 0, 7, 232, 2, 29}
	for v := 0; v < 256; v++ {
		in := append([]byte{}, good...)
		in[0] = byte(v)
		var ub date.Date
		err := ub.UnmarshalBinary(in)
		c.Check("")
		if v == 1 && err != nil || v != 1 && !errors.Is(err, date.ErrUnsupportedVersion) {
			c.Fail("C11.version", "date.unbin "+hx(in), "%v", err)
		}
		c.Op("date.unbin " + hx(in))
	}
	for l := 0; l <= 16; l++ {
		for _, first := range []byte{1, 0, 2} {
			in := make([]byte, l)
			for i := range in {
				in[i] = byte(1 + i%12)
			}
			if l > 0 {
				in[0] = first
			}
			var ub date.Date
			err := ub.UnmarshalBinary(in)
			c.Check("")
			switch {
			case l == 0:
				if !errors.Is(err, date.ErrInvalidLength) {
					c.Fail("C11.length", "date.unbin "+hx(in), "%v", err)
				}
			case first != 1:
				if !errors.Is(err, date.ErrUnsupportedVersion) {
					c.Fail("C11.length.version", "date.unbin "+hx(in), "%v", err)
				}
			case l != 7:
				if !errors.Is(err, date.ErrInvalidLength) {
					c.Fail("C11.length", "date.unbin "+hx(in), "%v", err)
				}
			}
			c.Op("date.unbin " + hx(in))
		}
	}
	// a valid encoding with something after it, cut short, or under another version number: seven bytes and version 1
	// are the only thing accepted, whatever the extra bytes are (NUL or 0xff padding, a blank, a repeat of the encoding)
	for _, ymd := range [][3]int{{2024, 2, 29}, {1, 1, 1}, {0, 12, 31}, {9999, 12, 31}, {-999999999, 1, 1}, {999999999, 12, 31}, {-1, 6, 15}, {c.R.Intn(10000), 1 + c.R.Intn(12), 1 + c.R.Intn(28)}} {
		y := ymd[0]
		good7 := []byte{1, byte(uint32(y) >> 24), byte(uint32(y) >> 16), byte(uint32(y) >> 8), byte(uint32(y)), byte(ymd[1]), byte(ymd[2])}
		probe := func(in []byte, want error, key string) {
			ub := date.New(1999, 9, 9)
			err := ub.UnmarshalBinary(in)
			c.Check("")
			if !errors.Is(err, want) {
				c.Fail(key, "date.unbin "+hx(in), "%v -> %v, want %v", err, ub, want)
			} else if !dateIs(ub, 1999, 9, 9) {
				c.Fail("C11.bytes.recv", "date.unbin "+hx(in), "receiver changed to %v", ub)
			}
			c.Op("date.unbin " + hx(in))
		}
		var ub date.Date
		if err := ub.UnmarshalBinary(good7); err != nil || !dateIs(ub, ymd[0], ymd[1], ymd[2]) {
			c.Fail("C11.roundtrip", "date.unbin "+hx(good7), "%v %v", ub, err)
		}
		for n := 1; n <= 9; n++ {
			for _, fill := range []int{0x00, 0xff, 0x20, 0x01, -1, -2} {
				pad := make([]byte, n)
				for i := range pad {
					switch fill {
					case -1:
						pad[i] = good7[i%7] // the encoding once more
					case -2:
						pad[i] = byte(c.R.Next())
					default:
						pad[i] = byte(fill)
					}
				}
				probe(append(append([]byte{}, good7...), pad...), date.ErrInvalidLength, "C11.length")
			}
		}
		for _, n := range []int{7 + 256 - 7, 256, 7 + 256, 7 + 65536} { // lengths that are 7 modulo a power of two, or wrap a byte
			probe(append(append([]byte{}, good7...), make([]byte, n-7)...), date.ErrInvalidLength, "C11.length")
		}
		for n := 1; n < 7; n++ {
			probe(good7[:n], date.ErrInvalidLength, "C11.length")
		}
		// the OTHER encoding of the same date — its text, bare, quoted, as a timestamp — is not a binary encoding: the first byte is not
		// the version (what a confused caller or a column of mixed content really hands over)
		if ymd[0] >= 0 {
			ext := digits(ymd[0], 4) + "-" + digits(ymd[1], 2) + "-" + digits(ymd[2], 2)
			bas := digits(ymd[0], 4) + digits(ymd[1], 2) + digits(ymd[2], 2)
			for _, txt := range []string{ext, bas, `"` + ext + `"`, ext + "T00:00:00Z", ext + "\n", bas[:7], "v1:" + ext} {
				probe([]byte(txt), date.ErrUnsupportedVersion, "C11.version")
			}
			probe([]byte("\x01"+bas), date.ErrInvalidLength, "C11.length")  // the version byte and then the text
			probe([]byte("\x01"+ext[:6]), date.ErrInvalidDate, "C11.bytes") // seven bytes, version 1: the month and day bytes are ASCII characters
		}
		for _, v := range []byte{0, 2, 3, 0x10, 0x31, 0x81, 0xff} {
			in := append([]byte{}, good7...)
			in[0] = v
			probe(in, date.ErrUnsupportedVersion, "C11.version")
			probe(append(in, 0), date.ErrUnsupportedVersion, "C11.length.version")
		}
	}
	for i := 0; i < 4000; i++ {
		in := make([]byte, 7)
		for j := range in {
			in[j] = byte(c.R.Next())
		}
		if i%2 == 0 {
			in[0] = 1
			in[5] = byte(c.R.Intn(14))
			in[6] = byte(c.R.Intn(33))
		}
		c.Op("date.unbin " + hx(in))
		var ub date.Date
		if err := ub.UnmarshalBinary(in); err == nil {
			y, m, d := ub.Date()
			c.Check("")
			if int(m) < 1 || int(m) > 12 || d < 1 || d > dim(y, int(m)) {
				c.Fail("C11.random", "date.unbin "+hx(in), "-> %v", ub)
			}
		}
	}
}

// ---------------------------------------------------------------------------------------- C15
func propC15(c *Ctx) {
	bs := boundaryDates()
	start := 400
	if c.Seed != 0 {
		start = c.R.Intn(len(bs) - 60)
	}
	win := bs[start : start+60]
	// a window that really spans day, month, year and leap boundaries
	// the zero value of Date (0001-01-01) and its neighbours must behave like any other bound
	win = append(append([][3]int{}, win...), [3]int{1, 1, 1}, [3]int{1, 1, 2}, [3]int{0, 12, 31}, [3]int{0, 1, 1}, [3]int{9999, 12, 31}, [3]int{2023, 12, 31}, [3]int{2024, 1, 1}, [3]int{2024, 2, 28}, [3]int{2024, 2, 29}, [3]int{2024, 3, 1}, [3]int{2023, 2, 28}, [3]int{2023, 3, 1})
	stepF := 3
	if c.Thorough {
		stepF = 1
	}
	mk := func(a [3]int) *date.Date { d := date.New(a[0], time.Month(a[1]), a[2]); return &d }
	tok := func(i int) string {
		if i < 0 {
			return "- - -"
		}
		return fmt.Sprintf("%d %d %d", win[i][0], win[i][1], win[i][2])
	}
	// bound indices: the stepped grid plus, always, every special date appended above (the zero value of Date, year 0,
	// leap-day neighbours) — in the quick tier the step must not skip them
	var idx []int
	for i := -1; i < len(win); i += stepF {
		idx = append(idx, i)
	}
	for i := len(win) - 12; i < len(win); i++ {
		if (i+1)%stepF != 0 {
			idx = append(idx, i)
		}
	}
	for _, fi := range idx {
		for _, ti := range idx {
			var fp, tp *date.Date
			var fo, to int64
			if fi >= 0 {
				fp, fo = mk(win[fi]), ordinal(win[fi][0], win[fi][1], win[fi][2])
			}
			if ti >= 0 {
				tp, to = mk(win[ti]), ordinal(win[ti][0], win[ti][1], win[ti][2])
			}
			flt, err := date.FilterFromTo(fp, tp)
			wantErr := fp != nil && tp != nil && fo > to
			in := "date.filter " + tok(fi) + " " + tok(ti) + " " + tok(0)
			c.Check("")
			if (err != nil) != wantErr || (err != nil && !errors.Is(err, date.ErrInvalidFromOrTo)) {
				c.Fail("C15.err", in, "%v %v %v", fp, tp, err)
				continue
			}
			if err != nil {
				c.Op(in)
				continue
			}
			if fp != nil {
				*fp = date.New(1, 1, 1)
			}
			if tp != nil {
				*tp = date.New(9999, 1, 1)
			}
			for pi, p := range win {
				po := ordinal(p[0], p[1], p[2])
				want := (fi < 0 || po >= fo) && (ti < 0 || po <= to)
				c.Check("")
				line := "date.filter " + tok(fi) + " " + tok(ti) + " " + tok(pi)
				if flt.Contains(date.New(p[0], time.Month(p[1]), p[2])) != want {
					c.Fail("C15.contains", line, "want %v", want)
				}
				if (pi+fi+ti)%5 == 0 {
					c.Op(line)
				}
			}
		}
	}
	c.NT(int64(len(idx) * len(idx) * len(win)))
	// Several filters alive at once: all of them are built first (every kind: no bound, from, to, single day, range; some with the same
	// bounds twice), the callers' variables are changed, and only then every filter is probed — interleaved, forwards and backwards.
	// A filter keeps the bounds IT was built with: building another filter (a shared or recycled filter object, a one-entry cache)
	// must not change an earlier one.
	{
		type kept struct {
			flt    date.Filter
			fi, ti int
			fo, to int64
		}
		var ks []kept
		pool := append(append([][3]int{}, win[len(win)-12:]...), win[c.R.Intn(60)], win[c.R.Intn(60)], win[c.R.Intn(60)], [3]int{-500, 3, 1}, [3]int{123456, 7, 8})
		ptok := func(i int) string {
			if i < 0 {
				return "- - -"
			}
			return fmt.Sprintf("%d %d %d", pool[i][0], pool[i][1], pool[i][2])
		}
		for round := 0; round < 2; round++ {
			for fi := -1; fi < len(pool); fi++ {
				for ti := -1; ti < len(pool); ti++ {
					if (fi+2*ti+round)%3 != 0 && fi != ti && fi >= 0 && ti >= 0 { // every one-bound and single-day filter, a third of the ranges per round
						continue
					}
					var fp, tp *date.Date
					k := kept{fi: fi, ti: ti}
					if fi >= 0 {
						fp, k.fo = mk(pool[fi]), ordinal(pool[fi][0], pool[fi][1], pool[fi][2])
					}
					if ti >= 0 {
						tp, k.to = mk(pool[ti]), ordinal(pool[ti][0], pool[ti][1], pool[ti][2])
					}
					if fp != nil && tp != nil && k.fo > k.to {
						continue
					}
					flt, err := date.FilterFromTo(fp, tp)
					c.Check("")
					if err != nil || flt == nil {
						c.Fail("C15.err", "date.filter "+ptok(fi)+" "+ptok(ti)+" "+ptok(0), "%v %v %v", fp, tp, err)
						continue
					}
					k.flt = flt
					ks = append(ks, k)
					if fp != nil {
						*fp = date.New(2999, 1, 1)
					}
					if tp != nil {
						*tp = date.New(1, 1, 1)
					}
				}
			}
		}
		probe := func(k kept, pi int) {
			p := pool[pi]
			po := ordinal(p[0], p[1], p[2])
			want := (k.fi < 0 || po >= k.fo) && (k.ti < 0 || po <= k.to)
			c.Check("")
			if k.flt.Contains(date.New(p[0], time.Month(p[1]), p[2])) != want {
				c.Fail("C15.keeps", "date.filter "+ptok(k.fi)+" "+ptok(k.ti)+" "+ptok(pi), "want %v from a filter probed after %d other filters were built", want, len(ks)-1)
			}
		}
		for pi := range pool {
			for i := range ks {
				probe(ks[i], pi)
			}
		}
		for i := len(ks) - 1; i >= 0; i-- {
			for pi := len(pool) - 1; pi >= 0; pi-- {
				probe(ks[i], pi)
				probe(ks[(i*7+3)%len(ks)], pi)
			}
		}
		c.NT(int64(len(ks) * len(pool)))
		c.Note("C15: %d filters kept alive and probed interleaved", len(ks))
	}
	// bounds and probes over the whole range a Date can hold: the int32 extremes of the stored year, the documented
	// +-999,999,999, powers of two and mid-range millions (a packed or scaled comparison key overflows somewhere in between)
	far := [][3]int{{-2147483647, 1, 1}, {-2147483647, 12, 31}, {-1073741824, 6, 15}, {-999999999, 1, 1}, {-999999999, 12, 31}, {-16777216, 2, 29}, {-6000000, 6, 15}, {-5772805, 1, 1}, {-5000000, 3, 1}, {-4194305, 1, 1},
		{-70000, 2, 28}, {-1, 12, 31}, {0, 1, 1}, {1, 1, 1}, {2024, 2, 29}, {9999, 12, 31}, {10000, 1, 1}, {65536, 1, 1}, {4194304, 12, 31}, {5000000, 1, 1}, {5772805, 1, 1}, {6000000, 6, 15}, {7000000, 1, 1},
		{16777216, 3, 3}, {134217728, 1, 31}, {999999999, 12, 31}, {1073741824, 1, 1}, {2147483647, 1, 1}, {2147483647, 12, 31}}
	for i := 0; i < 10; i++ {
		y := c.R.Intn(2*999999999+1) - 999999999
		if i >= 7 {
			y = int(int32(c.R.Next()))
			if y == -2147483648 {
				y++
			}
		}
		m := 1 + c.R.Intn(12)
		far = append(far, [3]int{y, m, 1 + c.R.Intn(dim(y, m))})
	}
	ftok := func(i int) string {
		if i < 0 {
			return "- - -"
		}
		return fmt.Sprintf("%d %d %d", far[i][0], far[i][1], far[i][2])
	}
	for fi := -1; fi < len(far); fi++ {
		for ti := -1; ti < len(far); ti++ {
			var fp, tp *date.Date
			var fo, to int64
			if fi >= 0 {
				fp, fo = mk(far[fi]), ordinal(far[fi][0], far[fi][1], far[fi][2])
			}
			if ti >= 0 {
				tp, to = mk(far[ti]), ordinal(far[ti][0], far[ti][1], far[ti][2])
			}
			flt, err := date.FilterFromTo(fp, tp)
			wantErr := fp != nil && tp != nil && fo > to
			in := "date.filter " + ftok(fi) + " " + ftok(ti) + " " + ftok(0)
			c.Check("")
			if (err != nil) != wantErr || (err != nil && !errors.Is(err, date.ErrInvalidFromOrTo)) {
				c.Fail("C15.err", in, "%v %v %v", fp, tp, err)
				continue
			}
			if err != nil {
				if (fi+ti)%7 == 0 {
					c.Op(in)
				}
				continue
			}
			for pi, p := range far {
				po := ordinal(p[0], p[1], p[2])
				want := (fi < 0 || po >= fo) && (ti < 0 || po <= to)
				c.Check("")
				line := "date.filter " + ftok(fi) + " " + ftok(ti) + " " + ftok(pi)
				if flt.Contains(date.New(p[0], time.Month(p[1]), p[2])) != want {
					c.Fail("C15.contains", line, "want %v", want)
				}
				if (pi+fi*3+ti*5)%11 == 0 {
					c.Op(line)
				}
			}
		}
	}
	c.NT(int64((len(far) + 1) * (len(far) + 1) * len(far)))
	// random triples over years 0000-9999
	for i := 0; i < 20000; i++ {
		rd := func() [3]int {
			y, m := c.R.Intn(10000), 1+c.R.Intn(12)
			return [3]int{y, m, 1 + c.R.Intn(dim(y, m))}
		}
		a, b, p := rd(), rd(), rd()
		if i%3 == 0 {
			b = [3]int{a[0], a[1], 1 + c.R.Intn(dim(a[0], a[1]))}
		}
		switch i % 37 {
		case 3:
			a = [3]int{-5000000, 3, 1}
		case 4:
			b = [3]int{5000000, 3, 1}
		case 5:
			p = [3]int{4194305 * (1 - 2*(i%2)), 1, 1}
		case 0:
			a = [3]int{1, 1, 1}
		case 1:
			b = [3]int{1, 1, 1}
		case 2:
			p = [3]int{1, 1, 1}
		}
		if i%4 == 0 {
			p = [3]int{a[0], a[1], 1 + c.R.Intn(dim(a[0], a[1]))}
		}
		if i%37 == 0 && i%2 == 0 { // a zero-valued lower bound is still a bound: probe just before it
			p = [][3]int{{0, 12, 31}, {0, 1, 1}, {-500, 3, 1}, {1, 1, 1}}[(i/74)%4]
		}
		if i%37 == 1 && i%2 == 0 { // and a zero-valued upper bound
			p = [][3]int{{1, 1, 2}, {1, 2, 1}, {2024, 2, 29}, {1, 1, 1}}[(i/74)%4]
		}
		mode := c.R.Intn(4)
		var fp, tp *date.Date
		ft, tt := "- - -", "- - -"
		if mode&1 != 0 {
			fp, ft = mk(a), fmt.Sprintf("%d %d %d", a[0], a[1], a[2])
		}
		if mode&2 != 0 {
			tp, tt = mk(b), fmt.Sprintf("%d %d %d", b[0], b[1], b[2])
		}
		line := fmt.Sprintf("date.filter %s %s %d %d %d", ft, tt, p[0], p[1], p[2])
		if i < 6000 {
			c.Op(line)
		}
		flt, err := date.FilterFromTo(fp, tp)
		oa, ob, op := ordinal(a[0], a[1], a[2]), ordinal(b[0], b[1], b[2]), ordinal(p[0], p[1], p[2])
		wantErr := fp != nil && tp != nil && oa > ob
		c.Check("")
		if (err != nil) != wantErr {
			c.Fail("C15.err", line, "%v", err)
			continue
		}
		if err == nil {
			want := (fp == nil || op >= oa) && (tp == nil || op <= ob)
			if flt.Contains(date.New(p[0], time.Month(p[1]), p[2])) != want {
				c.Fail("C15.contains", line, "want %v", want)
			}
		}
	}
}
