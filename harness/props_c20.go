package main

import (
	"bytes"
	"errors"
	"fmt"
	"regexp"
	"strconv"
	"strings"

	"go.lstv.dev/util/test"
)

// ---------------------------------------------------------------------------------------------
// scripted types for the six helpers of package test (protocol: see Main.lean `test.run`)

type tkScript struct {
	// marshal
	mKind byte // 'd' data, 'e' error, 'p' panic
	mData []byte
	mNil  bool // produced slice is nil
	mText string
	// unmarshal
	uKind byte // 'o' ok, 'e' error, 'p' panic
	uSet  bool
	uVal  int
	uText string
}

type tkWorld struct {
	scripts    []tkScript
	rec        *tkRec
	hookPanics int // rotates the dynamic type of the value a panicking hook panics with
}

var tkW *tkWorld // the world of the helper call in progress (helpers are run one at a time)

type tkRec struct {
	cur      int   // case the next Errorf belongs to (-1: before any case)
	reported []int // Errorf calls per case
	early    int   // Errorf calls before any case started
	failNow  int
}

func (r *tkRec) Errorf(string, ...any) {
	if r.cur < 0 {
		r.early++
		return
	}
	r.reported[r.cur]++
}
func (r *tkRec) FailNow() { r.failNow++ }
func (r *tkRec) Helper()  {}

func tkMarshal(idx int) ([]byte, error) {
	tkW.rec.cur = idx
	s := tkW.scripts[idx]
	var out []byte
	if !s.mNil {
		out = append([]byte{}, s.mData...)
	}
	switch s.mKind {
	case 'd':
		return out, nil
	case 'e':
		return out, errors.New(s.mText)
	default:
		tkPanic(s.mText)
		return nil, nil
	}
}

func tkUnmarshal(data []byte, set func(int)) error {
	idx, _ := strconv.Atoi(string(data))
	tkW.rec.cur = idx
	s := tkW.scripts[idx]
	if s.uSet {
		set(s.uVal)
	}
	switch s.uKind {
	case 'o':
		return nil
	case 'e':
		return errors.New(s.uText)
	default:
		tkPanic(s.uText)
		return nil
	}
}

// tkBoom is a panic value that is neither a string nor an error.
type tkBoom struct {
	Code int
	What string
}

type tkErrCode int

func (e tkErrCode) Error() string { return "code " + strconv.Itoa(int(e)) }

var tkZero int // not a constant: the index expressions below must compile

// tkPanicTexts: scripted panic texts whose panic value is not a string. The protocol (and the model) carry the text the
// helper will format with %v; which dynamic type produces that text is the harness's business: real runtime errors
// (nil-map write, index out of range, nil dereference, failed type assertion, integer division by zero), error values,
// an int, a struct, a Stringer-less pointer-free value, panic(nil).
var tkPanicTexts = []string{
	"assignment to entry in nil map",
	"runtime error: index out of range [3] with length 0",
	"runtime error: invalid memory address or nil pointer dereference",
	"runtime error: integer divide by zero",
	"interface conversion: interface {} is string, not int",
	"plain error value",
	"wrapped: inner cause",
	"code 7",
	"42",
	"{7 overflow}",
	"[1 2 3]",
	"panic called with nil argument",
}

// tkPanic panics with a value whose %v rendering is text.
func tkPanic(text string) {
	switch text {
	case "assignment to entry in nil map":
		var m map[string]int
		m["x"] = 1
	case "runtime error: index out of range [3] with length 0":
		var sl []int
		_ = sl[3+tkZero]
	case "runtime error: invalid memory address or nil pointer dereference":
		var p *tkBoom
		_ = p.Code
	case "runtime error: integer divide by zero":
		_ = 1 / tkZero
	case "interface conversion: interface {} is string, not int":
		var x any = "s"
		_ = x.(int)
	case "plain error value":
		panic(errors.New(text))
	case "wrapped: inner cause":
		panic(fmt.Errorf("wrapped: %w", errors.New("inner cause")))
	case "code 7":
		panic(tkErrCode(7))
	case "42":
		panic(42)
	case "{7 overflow}":
		panic(tkBoom{7, "overflow"})
	case "[1 2 3]":
		panic([]int{1, 2, 3})
	case "panic called with nil argument":
		panic(nil)
	}
	panic(text)
}

// tv: value-receiver Marshal*, pointer-receiver Unmarshal*
type tv struct{ Idx, X int }

func (v tv) MarshalText() ([]byte, error)    { return tkMarshal(v.Idx) }
func (v tv) MarshalBinary() ([]byte, error)  { return tkMarshal(v.Idx) }
func (v tv) MarshalJSON() ([]byte, error)    { return tkMarshal(v.Idx) }
func (v *tv) UnmarshalText(d []byte) error   { return tkUnmarshal(d, func(x int) { v.X = x }) }
func (v *tv) UnmarshalBinary(d []byte) error { return tkUnmarshal(d, func(x int) { v.X = x }) }
func (v *tv) UnmarshalJSON(d []byte) error   { return tkUnmarshal(d, func(x int) { v.X = x }) }

// tp: pointer receivers only
type tp struct{ Idx, X int }

func (v *tp) MarshalText() ([]byte, error)   { return tkMarshal(v.Idx) }
func (v *tp) MarshalBinary() ([]byte, error) { return tkMarshal(v.Idx) }
func (v *tp) MarshalJSON() ([]byte, error)   { return tkMarshal(v.Idx) }
func (v *tp) UnmarshalText(d []byte) error   { return tkUnmarshal(d, func(x int) { v.X = x }) }
func (v *tp) UnmarshalBinary(d []byte) error { return tkUnmarshal(d, func(x int) { v.X = x }) }
func (v *tp) UnmarshalJSON(d []byte) error   { return tkUnmarshal(d, func(x int) { v.X = x }) }

// tn: no methods
type tn struct{ Idx, X int }

// tkEdit is what a scripted hook writes into the *Case it is handed (protocol: `;`-separated items after the hook kind:
// d=<hex|nil> Data, v=<int> the number of Value, r=<pred> Error, c=<n> Constraint)
type tkEdit struct {
	hasData, dataNil, hasValue, hasPred, hasConstraint bool
	data                                               []byte
	value, constraint                                  int
	pred                                               string
}

func (e tkEdit) any() bool { return e.hasData || e.hasValue || e.hasPred || e.hasConstraint }

type tkCase struct {
	constraint            int
	before, after         byte // n o e p
	beforeEdit, afterEdit tkEdit
	pred                  string
	script                tkScript
	data                  []byte
	dataNil               bool
	value                 int
}

func parseTkHook(s string, allowValue bool) (byte, tkEdit) {
	parts := strings.Split(s, ";")
	if len(parts[0]) != 1 || !strings.Contains("noep", parts[0]) || (parts[0] == "n" && len(parts) > 1) {
		panic("bad hook " + s)
	}
	var e tkEdit
	for _, it := range parts[1:] {
		switch {
		case strings.HasPrefix(it, "d="):
			e.hasData = true
			e.data, e.dataNil = optBytesOf(it[2:])
		case strings.HasPrefix(it, "v=") && allowValue:
			e.hasValue, e.value = true, atoi(it[2:])
		case strings.HasPrefix(it, "r="):
			e.hasPred, e.pred = true, it[2:]
			tkPredFunc(e.pred) // validates
		case strings.HasPrefix(it, "c="):
			e.hasConstraint, e.constraint = true, atoi(it[2:])
			if e.constraint < 0 {
				panic("bad hook " + s)
			}
		default:
			panic("bad hook " + s)
		}
	}
	return parts[0][0], e
}

// tkEffective is the case as completed by its hooks (the literal with the last thing a present hook wrote into Data,
// Value and Error; a Constraint written by a hook comes too late to matter): what the independent oracle judges.
func tkEffective(c tkCase) tkCase {
	e := c
	for _, h := range []struct {
		kind byte
		ed   tkEdit
	}{{c.before, c.beforeEdit}, {c.after, c.afterEdit}} {
		if h.kind == 'n' {
			continue
		}
		if h.ed.hasData {
			e.data, e.dataNil = h.ed.data, h.ed.dataNil
		}
		if h.ed.hasValue {
			e.value = h.ed.value
		}
		if h.ed.hasPred {
			e.pred = h.ed.pred
		}
	}
	return e
}

func optBytesOf(s string) ([]byte, bool) { // (bytes, isNil)
	if s == "nil" {
		return nil, true
	}
	return mustHex(s), false
}

func parseTkCase(s string) tkCase {
	f := strings.Split(s, "/")
	if len(f) != 8 {
		panic("bad case " + s)
	}
	c := tkCase{constraint: atoi(f[0]), pred: f[3], value: atoi(f[7])}
	c.before, c.beforeEdit = parseTkHook(f[1], true)
	c.after, c.afterEdit = parseTkHook(f[2], false)
	m := strings.Split(f[4], ":")
	c.script.mKind = m[0][0]
	switch m[0] {
	case "d":
		c.script.mData, c.script.mNil = optBytesOf(m[1])
	case "e":
		c.script.mText = string(mustHex(m[1]))
		c.script.mData, c.script.mNil = optBytesOf(m[2])
	case "p":
		c.script.mText = string(mustHex(m[1]))
		c.script.mNil = true
	default:
		panic("bad mbeh")
	}
	u := strings.Split(f[5], ":")
	c.script.uKind = u[0][0]
	setOf := func(x string) {
		if x != "_" {
			c.script.uSet, c.script.uVal = true, atoi(x)
		}
	}
	switch u[0] {
	case "o":
		setOf(u[1])
	case "e", "p":
		c.script.uText = string(mustHex(u[1]))
		setOf(u[2])
	default:
		panic("bad ubeh")
	}
	c.data, c.dataNil = optBytesOf(f[6])
	return c
}

func tkPredFunc(p string) test.AssertErrorFunc {
	f := strings.Split(p, ":")
	switch f[0] {
	case "-":
		return nil
	case "any":
		return test.AnyError
	case "eq":
		return test.Error(string(mustHex(f[1])))
	case "pre":
		return test.ErrorHasPrefix(string(mustHex(f[1])))
	case "suf":
		return test.ErrorHasSuffix(string(mustHex(f[1])))
	case "re":
		return test.ErrorMatch(string(mustHex(f[3])))
	}
	panic("bad pred " + p)
}

// tkHelperBeh scripts a custom test.TypeHelper (protocol: trailing field `h:<start>,<addArg>,<emptyIs>,<eqMod>`;
// `h:-` or no field = nil helper). Its three methods deliberately differ from the nil-helper defaults.
type tkHelperBeh struct {
	start   int // New(value) returns a fresh value holding start (+ value's number when addArg)
	addArg  bool
	emptyIs int // AssertEmpty reports iff the number != emptyIs
	eqMod   int // AssertEqual(expected, actual) reports iff actual mod eqMod != expected (mod 0 = identity)
}

func parseTkHelper(s string) *tkHelperBeh {
	s = strings.TrimPrefix(s, "h:")
	if s == "-" {
		return nil
	}
	f := strings.Split(s, ",")
	if len(f) != 4 || (f[1] != "0" && f[1] != "1") {
		panic("bad helper " + s)
	}
	return &tkHelperBeh{start: atoi(f[0]), addArg: f[1] == "1", emptyIs: atoi(f[2]), eqMod: atoi(f[3])}
}

func (b *tkHelperBeh) String() string {
	if b == nil {
		return "h:-"
	}
	return fmt.Sprintf("h:%d,%s,%d,%d", b.start, b01(b.addArg), b.emptyIs, b.eqMod)
}

// emod is the Euclidean remainder (what `%` on Int is in the Lean model); m = 0 is the identity
func emod(a, m int) int {
	if m == 0 {
		return a
	}
	r := a % m
	if r < 0 {
		r += m
	}
	return r
}

// tkTypeHelper is the real test.TypeHelper[T] with the scripted semantics. fresh builds a new value
// (a fresh pointer for the pointer kind) holding a number, num reads it (false: nil pointer).
type tkTypeHelper[T any] struct {
	b     tkHelperBeh
	fresh func(x int) T
	num   func(T) (int, bool)
}

func (h *tkTypeHelper[T]) New(value T) T {
	x := h.b.start
	if h.b.addArg {
		if n, ok := h.num(value); ok {
			x += n
		}
	}
	return h.fresh(x)
}

func (h *tkTypeHelper[T]) AssertEmpty(t test.TestingT, value T, failInfo string) {
	t.Helper()
	if n, ok := h.num(value); !ok || n != h.b.emptyIs {
		t.Errorf("%s: value %v is not empty (custom helper: empty is %d)", failInfo, n, h.b.emptyIs)
	}
}

func (h *tkTypeHelper[T]) AssertEqual(t test.TestingT, expected, actual T, failInfo string) {
	t.Helper()
	e, ok1 := h.num(expected)
	a, ok2 := h.num(actual)
	if !ok1 || !ok2 || emod(a, h.b.eqMod) != e {
		t.Errorf("%s: expected %d, actual %d (custom helper: modulo %d)", failInfo, e, a, h.b.eqMod)
	}
}

func tkHook[C any](k byte, idx int, edit func(*C)) func(int, *C) error {
	switch k {
	case 'o':
		return func(_ int, c *C) error { tkW.rec.cur = idx; edit(c); return nil }
	case 'e':
		return func(_ int, c *C) error { tkW.rec.cur = idx; edit(c); return errors.New("hook failed") }
	case 'p':
		return func(_ int, c *C) error {
			tkW.rec.cur = idx
			edit(c)
			tkPanic(tkPanicTexts[(idx+tkW.hookPanics)%len(tkPanicTexts)])
			return nil
		}
	}
	return nil
}

// runTk runs one helper over the cases with values of type T built by mk; hb != nil: the Unmarshal
// helpers get a custom TypeHelper[T] (num reads the number a T holds).
func runTk[T any](helper string, cases []tkCase, hb *tkHelperBeh, mk func(idx, x int) T, num func(T) (int, bool)) {
	var th test.TypeHelper[T] // stays a nil interface without a scripted helper
	if hb != nil {
		th = &tkTypeHelper[T]{b: *hb, fresh: func(x int) T { return mk(0, x) }, num: num}
	}
	switch helper {
	case "MT", "UT":
		var cs []test.CaseText[T]
		for i, c := range cases {
			v := mk(i, c.value)
			d := string(c.data)
			if helper == "UT" {
				d = strconv.Itoa(i)
			}
			i := i
			ed := func(e tkEdit) func(*test.CaseText[T]) {
				return func(cc *test.CaseText[T]) {
					if e.hasData && helper[0] == 'M' { // (the Unmarshal scripts are addressed by Data: left alone there)
						cc.Data = string(e.data)
					}
					if e.hasValue {
						cc.Value = mk(i, e.value)
					}
					if e.hasPred {
						cc.Error = tkPredFunc(e.pred)
					}
					if e.hasConstraint {
						cc.Constraint = test.Constraint(e.constraint)
					}
				}
			}
			cs = append(cs, test.CaseText[T]{Constraint: test.Constraint(c.constraint), Before: tkHook[test.CaseText[T]](c.before, i, ed(c.beforeEdit)),
				After: tkHook[test.CaseText[T]](c.after, i, ed(c.afterEdit)), Error: tkPredFunc(c.pred), Data: d, Value: v})
		}
		if helper == "MT" {
			test.MarshalText(tkW.rec, cs)
		} else {
			test.UnmarshalText(tkW.rec, cs, th)
		}
	case "MJ", "UJ":
		var cs []test.CaseJSON[T]
		for i, c := range cases {
			v := mk(i, c.value)
			d := string(c.data)
			if helper == "UJ" {
				d = strconv.Itoa(i)
			}
			i := i
			ed := func(e tkEdit) func(*test.CaseJSON[T]) {
				return func(cc *test.CaseJSON[T]) {
					if e.hasData && helper[0] == 'M' {
						cc.Data = string(e.data)
					}
					if e.hasValue {
						cc.Value = mk(i, e.value)
					}
					if e.hasPred {
						cc.Error = tkPredFunc(e.pred)
					}
					if e.hasConstraint {
						cc.Constraint = test.Constraint(e.constraint)
					}
				}
			}
			cs = append(cs, test.CaseJSON[T]{Constraint: test.Constraint(c.constraint), Before: tkHook[test.CaseJSON[T]](c.before, i, ed(c.beforeEdit)),
				After: tkHook[test.CaseJSON[T]](c.after, i, ed(c.afterEdit)), Error: tkPredFunc(c.pred), Data: d, Value: v})
		}
		if helper == "MJ" {
			test.MarshalJSON(tkW.rec, cs)
		} else {
			test.UnmarshalJSON(tkW.rec, cs, th)
		}
	case "MB", "UB":
		var cs []test.CaseBinary[T]
		for i, c := range cases {
			v := mk(i, c.value)
			var d []byte
			if !c.dataNil {
				d = append([]byte{}, c.data...)
			}
			if helper == "UB" {
				d = []byte(strconv.Itoa(i))
			}
			i := i
			ed := func(e tkEdit) func(*test.CaseBinary[T]) {
				return func(cc *test.CaseBinary[T]) {
					if e.hasData && helper[0] == 'M' {
						cc.Data = nil
						if !e.dataNil {
							cc.Data = append([]byte{}, e.data...)
						}
					}
					if e.hasValue {
						cc.Value = mk(i, e.value)
					}
					if e.hasPred {
						cc.Error = tkPredFunc(e.pred)
					}
					if e.hasConstraint {
						cc.Constraint = test.Constraint(e.constraint)
					}
				}
			}
			cs = append(cs, test.CaseBinary[T]{Constraint: test.Constraint(c.constraint), Before: tkHook[test.CaseBinary[T]](c.before, i, ed(c.beforeEdit)),
				After: tkHook[test.CaseBinary[T]](c.after, i, ed(c.afterEdit)), Error: tkPredFunc(c.pred), Data: d, Value: v})
		}
		if helper == "MB" {
			test.MarshalBinary(tkW.rec, cs)
		} else {
			test.UnmarshalBinary(tkW.rec, cs, th)
		}
	default:
		panic("bad helper " + helper)
	}
}

// tkRun executes one `test.run` line; returns the canonical answer and whether a panic escaped.
func tkRun(helper, typ string, hb *tkHelperBeh, cases []tkCase) (out string, escaped any) {
	w := &tkWorld{rec: &tkRec{cur: -1, reported: make([]int, len(cases))}}
	for _, c := range cases { // which value a panicking hook panics with depends on the line only (replays agree)
		w.hookPanics += 3*len(c.script.mText) + 5*len(c.script.uText) + 7*len(c.data) + c.value + c.constraint + 1
	}
	for _, c := range cases {
		w.scripts = append(w.scripts, c.script)
	}
	tkW = w
	isMarshal := helper[0] == 'M'
	if isMarshal {
		hb = nil // the Marshal helpers take no TypeHelper
	}
	func() {
		defer func() { escaped = recover() }()
		switch typ {
		case "tv":
			runTk(helper, cases, hb, func(idx, x int) tv {
				if isMarshal {
					return tv{Idx: idx, X: x}
				}
				return tv{X: x}
			}, func(v tv) (int, bool) { return v.X, true })
		case "tp":
			runTk(helper, cases, hb, func(idx, x int) tp {
				if isMarshal {
					return tp{Idx: idx, X: x}
				}
				return tp{X: x}
			}, func(v tp) (int, bool) { return v.X, true })
		case "ptp":
			runTk(helper, cases, hb, func(idx, x int) *tp {
				if isMarshal {
					return &tp{Idx: idx, X: x}
				}
				return &tp{X: x} // a fresh pointer every time
			}, func(v *tp) (int, bool) {
				if v == nil {
					return 0, false
				}
				return v.X, true
			})
		case "tn":
			runTk(helper, cases, hb, func(idx, x int) tn { return tn{X: x} }, func(v tn) (int, bool) { return v.X, true })
		default:
			panic("bad type " + typ)
		}
	}()
	var b strings.Builder
	b.WriteByte('=')
	if w.rec.failNow > 0 {
		b.WriteByte('F')
	}
	for i := range cases {
		if w.rec.reported[i] > 0 {
			b.WriteByte('r')
		} else {
			b.WriteByte('-')
		}
	}
	if escaped != nil {
		return "panic-escaped", escaped
	}
	if w.rec.failNow > 0 && w.rec.early == 0 {
		return "FAILNOW-WITHOUT-ERRORF", nil
	}
	if w.rec.failNow == 0 && w.rec.early > 0 {
		return "EARLY-ERRORF", nil
	}
	return b.String(), nil
}

// splitTkHelper takes the optional trailing `h:` field off the case fields
func splitTkHelper(f []string) ([]string, *tkHelperBeh) {
	if n := len(f); n > 0 && strings.HasPrefix(f[n-1], "h:") {
		return f[:n-1], parseTkHelper(f[n-1])
	}
	return f, nil
}

func testRun(f []string) string {
	cs, hb := splitTkHelper(f[2:])
	cases := make([]tkCase, 0, len(cs))
	for _, s := range cs {
		cases = append(cases, parseTkCase(s))
	}
	out, _ := tkRun(f[0], f[1], hb, cases)
	return out
}

// ---------------------------------------------------------------------------------------------
// independent oracle: is the case satisfied for that direction? (written from the property text,
// not from the helpers' code)

type tkVerdict struct {
	applicable, satisfied, k1, offDomain bool
	byValue                              bool // hooks, error and predicate are fine: the verdict hangs on the data/value judgement alone
}

func tkPredMet(p string, errText string, hasErr bool) (met bool, k1 bool) {
	f := strings.Split(p, ":")
	if !hasErr {
		return false, false
	}
	switch f[0] {
	case "any":
		return true, false
	case "eq":
		return errText == string(mustHex(f[1])), false
	case "pre":
		return strings.HasPrefix(errText, string(mustHex(f[1]))), false
	case "suf":
		return strings.HasSuffix(errText, string(mustHex(f[1]))), false
	case "re":
		re, err := regexp.Compile(string(mustHex(f[3])))
		if err != nil {
			return false, false
		}
		ok := re.MatchString(errText)
		return ok, !ok
	}
	return false, false
}

// tkHelperAccepts: does the scripted helper take `actual` for `expected`? Own arithmetic: actual is
// expected plus a whole number of moduli and expected is a proper remainder (modulus 0: plain equality).
func tkHelperAccepts(hb *tkHelperBeh, expected, actual int) bool {
	if hb.eqMod == 0 {
		return expected == actual
	}
	if expected < 0 || expected >= hb.eqMod {
		return false
	}
	d := actual - expected
	return (d/hb.eqMod)*hb.eqMod == d
}

// hb is the TypeHelper given to an Unmarshal helper (nil = none)
func tkOracle(helper string, hb *tkHelperBeh, c tkCase) tkVerdict {
	isMarshal := helper[0] == 'M'
	binary := helper[1] == 'B'
	var v tkVerdict
	if isMarshal {
		v.applicable = c.constraint == 0 || c.constraint == 1
	} else {
		v.applicable = c.constraint == 0 || c.constraint == 2
	}
	if !v.applicable {
		return v
	}
	if c.before == 'e' || c.before == 'p' || c.after == 'e' || c.after == 'p' {
		return v // a failing hook: not satisfied
	}
	var hasErr bool
	var errText string
	var produced []byte
	var producedNil bool
	var val int
	if isMarshal {
		switch c.script.mKind {
		case 'd':
			produced, producedNil = c.script.mData, c.script.mNil
		case 'e':
			hasErr, errText = true, c.script.mText
			produced, producedNil = c.script.mData, c.script.mNil
		case 'p':
			hasErr, errText, producedNil = true, "panic: "+c.script.mText+"\n", true
		}
	} else {
		// the receiver starts as a zero value, or as whatever the custom helper's New makes of the case's value
		if hb != nil {
			val = hb.start
			if hb.addArg {
				val += c.value
			}
		}
		if c.script.uSet {
			val = c.script.uVal
		}
		switch c.script.uKind {
		case 'e':
			hasErr, errText = true, c.script.uText
		case 'p':
			hasErr, errText = true, "panic: "+c.script.uText+"\n"
		}
	}
	if c.pred == "-" {
		if hasErr {
			return v // unexpected error
		}
		v.byValue = true
		if isMarshal {
			if binary {
				v.satisfied = (c.dataNil == producedNil) && string(c.data) == string(produced)
			} else {
				v.satisfied = string(c.data) == string(produced)
			}
		} else if hb == nil {
			v.satisfied = val == c.value
		} else {
			v.satisfied = tkHelperAccepts(hb, c.value, val) // the helper's verdict replaces the comparison
		}
		return v
	}
	met, k1 := tkPredMet(c.pred, errText, hasErr)
	if !met {
		v.k1 = k1
		return v
	}
	v.byValue = true
	if isMarshal {
		// an expected error must come without a result; an empty non-nil slice is outside the
		// property's wording ("non-empty result") — flagged as off-domain
		if !producedNil && len(produced) == 0 {
			v.offDomain = true
		}
		v.satisfied = producedNil
	} else if hb == nil {
		v.satisfied = val == 0
	} else {
		v.satisfied = val == hb.emptyIs // the helper's idea of an empty value
	}
	return v
}

// ---------------------------------------------------------------------------------------------

func init() { props["C20"] = propC20 }

func hxs(s string) string { return hx([]byte(s)) }

func propC20(c *Ctx) {
	msgs := []string{"boom", "bad thing", "e", "boom: nested: deep", "multi\nline failure", "crlf\r\nfailure", "tab\tseparated", "said \"no\"", "naïve café ✓", "trailing blank ", "ends with newline\n",
		"\x00\xff raw", "Boom", "ＢＯＯＭ"}
	nasty := []byte{' ', '\n', '\r', '\t', 0, '!', '"', '\\', '.', 'a', 'B', '0', 0xff, 0xc3, 0xa9, '{', ':'}
	// edit1 applies one generic single-byte edit (substitute / insert / delete at a random position, CRLF <-> LF,
	// case flip, a byte appended or prepended); the result always differs from b
	edit1 := func(b []byte) []byte {
		r := c.R
		o := append([]byte{}, b...)
		switch k := r.Intn(8); {
		case k == 0 && len(o) > 0:
			o[r.Intn(len(o))] = nasty[r.Intn(len(nasty))]
		case k == 1 && len(o) > 0:
			i := r.Intn(len(o))
			o = append(o[:i], o[i+1:]...)
		case k == 2:
			i := r.Intn(len(o) + 1)
			o = append(o[:i], append([]byte{nasty[r.Intn(len(nasty))]}, o[i:]...)...)
		case k == 3:
			switch {
			case bytes.Contains(o, []byte("\r\n")):
				o = bytes.Replace(o, []byte("\r\n"), []byte("\n"), 1)
			case bytes.Contains(o, []byte("\n")):
				o = bytes.Replace(o, []byte("\n"), []byte("\r\n"), 1)
			default:
				o = append(o, '\r', '\n')
			}
		case k == 4 && len(o) > 0:
			i := r.Intn(len(o))
			for j := 0; j < len(o); j++ {
				if ch := o[(i+j)%len(o)]; ch >= 'a' && ch <= 'z' || ch >= 'A' && ch <= 'Z' {
					o[(i+j)%len(o)] = ch ^ 0x20
					break
				}
			}
		case k == 5:
			o = append(o, nasty[r.Intn(5)])
		case k == 6:
			o = append([]byte{nasty[r.Intn(5)]}, o...)
		case len(o) > 0:
			o = o[:len(o)-1]
		}
		if bytes.Equal(o, b) {
			o = append(o, '!')
		}
		return o
	}
	optB := func(b []byte, isNil bool) string {
		if isNil {
			return "nil"
		}
		return hx(b)
	}
	genCase := func(marshal bool, hb *tkHelperBeh) string {
		r := c.R
		constraint := []int{0, 0, 0, 1, 2, 3}[r.Intn(6)]
		hook := func() string {
			if hb != nil && r.Intn(2) == 0 {
				return []string{"n", "o"}[r.Intn(2)] // let the custom helper have the last word more often
			}
			return []string{"n", "o", "n", "o", "o", "e", "p"}[r.Intn(7)]
		}
		// marshal behaviour
		data := [][]byte{[]byte("abc"), []byte("x"), {}, []byte("{\"a\":1}"), []byte("a\nb"), []byte("a\r\nb"), []byte("line\n"), []byte("tab\there \"q\""), []byte("héllo wörld ✓"), {0, 0xff, '\n'},
			[]byte("{\"k\": \"v\\n\",\n\t\"n\": [1, 2]}"), []byte(" padded ")}[r.Intn(12)]
		mkind := []string{"d", "d", "d", "e", "e", "ed", "p", "dn", "ez"}[r.Intn(9)]
		msg := msgs[r.Intn(len(msgs))]
		if mkind == "p" && r.Bool() {
			msg = tkPanicTexts[r.Intn(len(tkPanicTexts))] // a panic value that is not a string
		}
		var mbeh, errText string
		panicked := false
		switch mkind {
		case "d":
			mbeh = "d:" + hx(data)
		case "dn":
			mbeh = "d:nil"
		case "e":
			mbeh, errText = "e:"+hxs(msg)+":nil", msg
		case "ed":
			mbeh, errText = "e:"+hxs(msg)+":"+hx([]byte("abc")), msg
		case "ez":
			mbeh, errText = "e:"+hxs(msg)+":-", msg
		case "p":
			mbeh, errText, panicked = "p:"+hxs(msg), "panic: "+msg+"\n", true
		}
		// unmarshal behaviour
		val := r.Intn(3)
		if hb != nil {
			val = r.Intn(5) // wide enough to wrap around the helper's modulus
		}
		ukind := []string{"o", "o", "o", "k", "e", "e", "es", "p", "ps"}[r.Intn(9)]
		umsg := msgs[r.Intn(len(msgs))]
		if (ukind == "p" || ukind == "ps") && r.Bool() {
			umsg = tkPanicTexts[r.Intn(len(tkPanicTexts))]
		}
		var ubeh, uErrText string
		uPanicked := false
		switch ukind {
		case "o":
			ubeh = "o:" + strconv.Itoa(val)
		case "k":
			ubeh = "o:_"
		case "e":
			ubeh, uErrText = "e:"+hxs(umsg)+":_", umsg
		case "es":
			ubeh, uErrText = "e:"+hxs(umsg)+":"+strconv.Itoa(1+r.Intn(2)), umsg
		case "p":
			ubeh, uErrText, uPanicked = "p:"+hxs(umsg)+":_", "panic: "+umsg+"\n", true
		case "ps":
			ubeh, uErrText, uPanicked = "p:"+hxs(umsg)+":"+strconv.Itoa(1+r.Intn(2)), "panic: "+umsg+"\n", true
		}
		et, pk := errText, panicked
		if !marshal {
			et, pk = uErrText, uPanicked
		}
		// predicate (evaluated against the error text of the direction this case will be run in)
		pred := "-"
		if r.Intn(2) == 0 {
			switch k := r.Intn(6); {
			case k == 0:
				pred = "any"
			case k == 1 && !pk:
				pred = "eq:" + hxs(msgs[r.Intn(len(msgs))])
				if et != "" && r.Intn(2) == 0 { // the text itself and its near misses (a lenient comparison would forgive them)
					pred = "eq:" + hxs([]string{et, strings.ToUpper(et), et + "\n", " " + et, et[:len(et)-1], et + " ", string(edit1([]byte(et))), string(edit1([]byte(et))), et}[r.Intn(9)])
				}
			case k == 2:
				p := []string{"b", "boom", "bad", "zz", "", "panic: ", "panic: boom", "e", "B", "Boom", " b", "oom"}[r.Intn(12)]
				if et != "" && r.Intn(2) == 0 { // a real prefix of the text, or a one-byte edit of one
					p = et[:r.Intn(len(et)+1)]
					if pk && len(p) > len(et)-3 {
						p = et[:len(et)-3] // the edit may add two bytes: stay inside the known part of a panic text
					}
					if r.Intn(2) == 0 {
						p = string(edit1([]byte(p)))
					}
				}
				if pk && len(p) > len(et) {
					p = "panic: "
				}
				pred = "pre:" + hxs(p)
			case k == 3 && !pk:
				sfx := []string{"m", "boom", "thing", "zz", "", "deep", "M", "Thing", "deep ", "boo"}[r.Intn(10)]
				if et != "" && r.Intn(2) == 0 {
					sfx = et[r.Intn(len(et)+1):]
					if r.Intn(2) == 0 {
						sfx = string(edit1([]byte(sfx)))
					}
				}
				pred = "suf:" + hxs(sfx)
			case k == 4:
				pat := []string{"^boom", "o+", "^nomatch", "thing", "^panic: boom", "^bad", "b.d"}[r.Intn(7)]
				if pk {
					// the panic text continues with a stack trace the script cannot know: anchored patterns only
					pat = []string{"^boom", "^nomatch", "^panic: boom", "^bad", "^panic: e\n", "^panic: b"}[r.Intn(6)]
				}
				hit := et != "" && regexp.MustCompile(pat).MatchString(et)
				pred = fmt.Sprintf("re:1:%s:%s", b01(hit), hxs(pat))
			case k == 5:
				pred = "re:0:0:" + hxs("ab(.")
			default:
				pred = "any"
			}
		}
		if hb != nil && r.Intn(3) > 0 {
			// custom helper: mostly cases that get as far as asking it (predicate iff the call fails)
			if uErrText == "" {
				pred = "-"
			} else if pred == "-" {
				pred = "any"
			}
		}
		// expectations: mostly right, sometimes wrong
		expData, expNil := data, false
		if mkind == "dn" {
			expData, expNil = nil, true
			if r.Intn(3) == 0 {
				expData, expNil = []byte{}, false // nil vs empty: differs only for the binary helper
			}
		}
		if r.Intn(5) == 0 {
			// near misses of every kind: "differing data" means any difference, also one a lenient comparison would forgive
			d := append([]byte{}, data...)
			switch r.Intn(14) {
			case 7, 8, 9, 10, 11, 12, 13:
				d = edit1(d)
			case 0:
				d = append(d, '!')
			case 1:
				d = append(d, '\n')
			case 2:
				d = append([]byte{' '}, d...)
			case 3:
				d = bytes.ToUpper(d)
			case 4:
				if len(d) > 0 {
					d = d[:len(d)-1]
				}
			case 5:
				d = append(append([]byte{'\t'}, d...), ' ')
			case 6:
				d = bytes.ReplaceAll(d, []byte(":"), []byte(": "))
			}
			expData, expNil = d, false
		}
		expVal := val
		if ukind == "k" {
			expVal = 0
		}
		if r.Intn(6) == 0 {
			expVal = val + 1
		}
		if hb != nil {
			// with a custom helper: mostly what *it* accepts, sometimes what only plain equality would
			// accept (kept from above), sometimes off by one
			right := 0
			switch {
			case ukind != "k":
				right = emod(val, hb.eqMod)
			case !hb.addArg:
				right = emod(hb.start, hb.eqMod)
			default:
				for e := 0; e < 6; e++ {
					if emod(hb.start+e, hb.eqMod) == e {
						right = e
						break
					}
				}
			}
			switch k := r.Intn(10); {
			case k < 6:
				expVal = right
			case k < 7:
				expVal = right + 1
			case k < 8 && hb.eqMod > 0:
				expVal = right + hb.eqMod // equal modulo, but not a remainder: the asymmetric helper rejects it
			}
		}
		// hooks that edit the case they are handed: each present hook may write Data / Value / Error / Constraint; what it
		// writes is the generated ("mostly right") expectation or a decoy, and when it writes the right one the literal
		// often holds a decoy instead - the helper must judge the case as completed by its hooks
		bh, ah := hook(), hook()
		litData, litPred, litVal := optB(expData, expNil), pred, expVal
		rightData, rightPred, rightVal := litData, pred, expVal
		decoyPred := func() string {
			switch {
			case rightPred == "-":
				return "any"
			case r.Bool():
				return "-"
			}
			return "eq:" + hxs("decoy")
		}
		for hi, hk := range []*string{&bh, &ah} {
			if *hk == "n" || r.Intn(4) != 0 {
				continue
			}
			for k := 1 + r.Intn(2); k > 0; k-- {
				right := r.Bool()
				switch f := r.Intn(4); {
				case f == 0 && !strings.Contains(*hk, ";d="):
					if right {
						*hk += ";d=" + rightData
						if r.Bool() {
							litData = optB(edit1(expData), false)
						}
					} else {
						*hk += ";d=" + optB(edit1(expData), false)
					}
				case f == 1 && !strings.Contains(*hk, ";r="):
					if right {
						*hk += ";r=" + rightPred
						if r.Bool() {
							litPred = decoyPred()
						}
					} else {
						*hk += ";r=" + decoyPred()
					}
				case f == 2 && hi == 0 && !strings.Contains(*hk, ";v="):
					if right {
						*hk += ";v=" + strconv.Itoa(rightVal)
						if r.Bool() {
							litVal = rightVal + 1 + r.Intn(2)
						}
					} else {
						*hk += ";v=" + strconv.Itoa(rightVal+1+r.Intn(2))
					}
				case f == 3 && !strings.Contains(*hk, ";c="):
					*hk += ";c=" + strconv.Itoa(r.Intn(4))
				}
			}
		}
		return fmt.Sprintf("%d/%s/%s/%s/%s/%s/%s/%d", constraint, bh, ah, litPred, mbeh, ubeh, litData, litVal)
	}
	helpers := []string{"MT", "UT", "MB", "UB", "MJ", "UJ"}
	types := []string{"tv", "tv", "tv", "ptp", "ptp", "tp", "tn"}
	iters := 30000
	if c.Thorough {
		iters = 400000
	}
	k1Seen, withHelper := 0, 0
	helperVsNil := map[string]int{} // custom helper's verdict vs what the nil helper would have said
	// runLine executes one helper run as a protocol line and judges it with the independent oracle
	runLine := func(helper, typ string, hb *tkHelperBeh, cs []string) {
		n := len(cs)
		line := strings.TrimRight("test.run "+helper+" "+typ+" "+strings.Join(cs, " "), " ")
		if hb != nil {
			line += " " + hb.String()
		}
		got := c.Op(line)
		// ---- direct oracle
		c.Check(line)
		if got == "panic-escaped" || got == "panic" {
			c.Fail("C20.escape", line, "a panic escaped the helper")
			return
		}
		if !strings.HasPrefix(got, "=") {
			c.Fail("C20.protocol", line, "%s", got)
			return
		}
		cases := make([]tkCase, 0, n)
		for _, s := range cs {
			cases = append(cases, parseTkCase(s))
		}
		lacks := typ == "tn" || (typ == "tp" && helper[0] == 'M')
		failNow := strings.HasPrefix(got, "=F")
		marks := strings.TrimPrefix(strings.TrimPrefix(got, "="), "F")
		if lacks {
			// a type lacking the interface: a failure must be reported (FailNow) as soon as there is a case
			if (n > 0) != failNow {
				c.Fail("C20.failtype", line, "got %s", got)
			}
			return
		}
		if failNow {
			c.Fail("C20.failnow.unexpected", line, "got %s", got)
			return
		}
		for i, lit := range cases {
			cs := tkEffective(lit) // the case as completed by its hooks
			v := tkOracle(helper, hb, cs)
			if hb != nil && v.applicable && !v.byValue {
				helperVsNil["helper-not-asked"]++
			} else if hb != nil && v.applicable {
				if nv := tkOracle(helper, nil, cs); nv.satisfied != v.satisfied {
					helperVsNil[fmt.Sprintf("helper-satisfied=%v,nil-satisfied=%v", v.satisfied, nv.satisfied)]++
				} else {
					helperVsNil[fmt.Sprintf("both-satisfied=%v", v.satisfied)]++
				}
			}
			reported := i < len(marks) && marks[i] == 'r'
			switch {
			case !v.applicable:
				if reported {
					c.Fail("C20.other-direction", line, "case %d is for the other direction but was reported", i)
				}
			case v.offDomain:
				// empty non-nil result next to an expected error: outside the property's wording
			case v.satisfied:
				if reported {
					c.Fail("C20.false-alarm", line, "case %d is satisfied but was reported (%s)", i, got)
				}
			default:
				if !reported {
					if v.k1 {
						k1Seen++
						c.Fail("C20.K1", line, "case %d: ErrorMatch pattern compiles, error non-nil, no match: not reported", i)
					} else {
						c.Fail("C20.missed", line, "case %d is not satisfied but nothing was reported (%s)", i, got)
					}
				}
			}
		}
	}
	for it := 0; it < iters; it++ {
		helper := helpers[c.R.Intn(6)]
		typ := types[c.R.Intn(len(types))]
		n := c.R.Intn(5)
		if it%10 == 0 {
			n = 1
		}
		// a custom TypeHelper in about a third of the Unmarshal-helper runs (the Marshal helpers take none)
		var hb *tkHelperBeh
		if helper[0] == 'U' && c.R.Intn(3) == 0 {
			hb = &tkHelperBeh{start: []int{0, 0, 1, 2, 5}[c.R.Intn(5)], addArg: c.R.Intn(3) == 0, eqMod: []int{0, 0, 2, 3}[c.R.Intn(4)]}
			hb.emptyIs = []int{0, hb.start, hb.start, 1, 2, 7}[c.R.Intn(6)]
			withHelper++
		}
		var cs []string
		for i := 0; i < n; i++ {
			cs = append(cs, genCase(helper[0] == 'M', hb))
		}
		runLine(helper, typ, hb, cs)
	}
	// ---- deterministic tables (no stride, no probability): every hand-picked datum and error text against each of its
	// near misses; every panic value kind in the marshaler, the unmarshaler and both hooks, for all six helpers
	nearOf := func(b []byte) [][]byte {
		var out [][]byte
		add := func(x []byte) {
			if !bytes.Equal(x, b) {
				out = append(out, x)
			}
		}
		cat := func(parts ...[]byte) []byte { return bytes.Join(parts, nil) }
		add(bytes.ReplaceAll(b, []byte("\r\n"), []byte("\n")))
		add(bytes.ReplaceAll(bytes.ReplaceAll(b, []byte("\r\n"), []byte("\n")), []byte("\n"), []byte("\r\n")))
		add(bytes.ReplaceAll(b, []byte("\n"), []byte("\r")))
		add(bytes.ReplaceAll(b, []byte("\t"), []byte(" ")))
		add(bytes.ReplaceAll(b, []byte(" "), []byte("\u00a0")))
		add(bytes.ReplaceAll(b, []byte(" "), nil))
		add(bytes.ReplaceAll(b, []byte("\""), []byte("'")))
		add(bytes.ReplaceAll(b, []byte("é"), []byte("e\u0301")))
		add(bytes.ReplaceAll(b, []byte("é"), []byte("e")))
		add(bytes.ReplaceAll(b, []byte(": "), []byte(":")))
		add(bytes.ReplaceAll(b, []byte(":"), []byte(": ")))
		for _, w := range []string{"\n", "\r\n", "\r", " ", "\t", "\x00", "\ufeff", "!", "."} {
			add(cat(b, []byte(w)))
			add(cat([]byte(w), b))
		}
		add(bytes.ToUpper(b))
		add(bytes.ToLower(b))
		add(bytes.TrimSpace(b))
		add(bytes.TrimRight(b, "\n"))
		if len(b) > 0 {
			add(b[:len(b)-1])
			add(b[1:])
			add(cat(b, b[len(b)-1:]))
		}
		return out
	}
	datums := [][]byte{[]byte("abc"), []byte("x"), []byte("{\"a\":1}"), []byte("a\nb"), []byte("a\r\nb"), []byte("line\n"), []byte("tab\there \"q\""), []byte("héllo wörld ✓"), {0, 0xff, '\n'},
		[]byte("{\"k\": \"v\\n\",\n\t\"n\": [1, 2]}"), []byte(" padded "), []byte("two\r\nlines\r\n")}
	tn := 0
	for di, d := range datums {
		for _, nm := range nearOf(d) {
			for hi, helper := range []string{"MT", "MB", "MJ"} {
				tn++
				typ := []string{"tv", "ptp"}[(di+hi)%2]
				runLine(helper, typ, nil, []string{"0/n/n/-/d:" + hx(d) + "/o:_/" + hx(nm) + "/0"})                                                // produced d, expected the near miss
				runLine(helper, typ, nil, []string{"0/o/o/-/d:" + hx(nm) + "/o:_/" + hx(d) + "/0", "1/n/n/-/d:" + hx(d) + "/o:_/" + hx(d) + "/0"}) // and the reverse
			}
		}
	}
	for mi, m := range msgs {
		for _, nm := range append(nearOf([]byte(m)), []byte(m)) {
			for ki, kind := range []string{"eq", "pre", "suf"} {
				tn++
				helper := helpers[(mi+ki+tn)%6]
				cs := "0/n/n/" + kind + ":" + hx(nm) + "/e:" + hxs(m) + ":nil/e:" + hxs(m) + ":_/nil/0"
				runLine(helper, []string{"tv", "ptp"}[tn%2], nil, []string{cs})
				runLine(helper, "tv", nil, []string{"0/n/n/" + kind + ":" + hxs(m) + "/e:" + hx(nm) + ":nil/e:" + hx(nm) + ":_/nil/0"})
			}
		}
	}
	for pi, pt := range append(append([]string{}, tkPanicTexts...), msgs...) {
		for hi, helper := range helpers {
			typ := []string{"tv", "ptp"}[(pi+hi)%2]
			h := hxs(pt)
			tn++
			runLine(helper, typ, nil, []string{"0/n/n/-/p:" + h + "/p:" + h + ":_/-/0"})                                                                         // unexpected panic: reported, never escapes
			runLine(helper, typ, nil, []string{"0/o/o/pre:" + hxs("panic: ") + "/p:" + h + "/p:" + h + ":_/nil/0", "0/n/n/any/p:" + h + "/p:" + h + ":1/nil/0"}) // expected
			runLine(helper, typ, nil, []string{"0/n/n/pre:" + hxs("panic: "+pt+"\n") + "/p:" + h + "/p:" + h + ":_/nil/0"})
			// panicking hooks: the value kind rotates with the case's number
			runLine(helper, typ, nil, []string{fmt.Sprintf("0/p/n/-/d:61/o:%d/61/%d", pi, pi), fmt.Sprintf("0/n/p/-/d:61/o:%d/61/%d", pi, pi), fmt.Sprintf("0/p/p/any/e:%s:nil/e:%s:_/nil/%d", h, h, pi)})
		}
	}
	// hooks that edit the case: complete a wrong literal, spoil a right one, set the predicate, write the constraint
	// (too late to matter), After writes last, absent hooks write nothing - all six helpers
	for hi, helper := range helpers {
		typ := []string{"tv", "ptp"}[hi%2]
		for di, d := range datums {
			if di%3 != hi%3 {
				continue
			}
			tn++
			w, g, m := hx(append(append([]byte{}, d...), '?')), hx(d), hxs(msgs[di%len(msgs)])
			runLine(helper, typ, nil, []string{
				"0/o;d=" + g + "/n/-/d:" + g + "/o:0/" + w + "/0",             // Before completes Data
				"0/o;d=" + w + "/n/-/d:" + g + "/o:0/" + g + "/0",             // Before spoils Data
				"0/o;d=" + w + "/o;d=" + g + "/-/d:" + g + "/o:0/" + w + "/0", // After writes last
				"0/o/o;d=" + w + "/-/d:" + g + "/o:0/" + g + "/0",             // After spoils
			})
			runLine(helper, typ, nil, []string{
				"0/o;r=eq:" + m + "/n/-/e:" + m + ":nil/e:" + m + ":_/nil/0", // Before sets the expected error
				"0/o;r=-/n/eq:" + m + "/e:" + m + ":nil/e:" + m + ":_/nil/0", // Before removes it: the error is unexpected
				"0/n/o;r=any/-/e:" + m + ":nil/e:" + m + ":_/nil/0",          // After sets it
				"0/o;r=eq:" + m + "/o;r=pre:" + hxs("zz") + "/-/e:" + m + ":nil/e:" + m + ":_/nil/0",
			})
			runLine(helper, typ, nil, []string{
				"0/o;c=1/n/-/d:" + g + "/o:0/" + w + "/1", "0/o;c=2/n/-/d:" + g + "/o:0/" + w + "/1", "1/o;c=2/o;c=2/-/d:" + g + "/o:0/" + w + "/1", "2/o;c=1/n/-/d:" + g + "/o:0/" + w + "/1", // a written Constraint comes too late
			})
			runLine(helper, typ, nil, []string{
				fmt.Sprintf("0/o;v=%d/n/-/d:%s/o:%d/%s/%d", di, g, di, g, di+1),         // Before completes Value
				fmt.Sprintf("0/o;v=%d/n/-/d:%s/o:%d/%s/%d", di+1, g, di, g, di),         // Before spoils Value
				fmt.Sprintf("0/e;v=%d;d=%s/n/-/d:%s/o:%d/%s/%d", di, g, g, di, w, di+1), // a failing hook is reported whatever it wrote
			})
			if helper[0] == 'U' {
				hbs := tkHelperBeh{start: 1, addArg: true, emptyIs: 0, eqMod: 0}
				runLine(helper, typ, &hbs, []string{
					fmt.Sprintf("0/o;v=%d/n/-/d:nil/o:_/nil/%d", 2, 5), // New gets the Value Before wrote: receiver 1+2, expected 2 -> reported
					fmt.Sprintf("0/o;v=%d/n/-/d:nil/o:_/nil/%d", 0, 5), // receiver 1+0, expected 0 -> reported
					fmt.Sprintf("0/o;v=%d/n/-/d:nil/o:3/nil/%d", 3, 5), // stored 3, expected 3
				})
			}
		}
	}
	c.Note("deterministic tables: %d table rows (data near misses, error-text near misses, panic value kinds)", tn)
	c.Note("K1 instances seen: %d", k1Seen)
	c.Note("runs with a custom TypeHelper: %d; applicable cases by verdict: %v", withHelper, helperVsNil)
}
