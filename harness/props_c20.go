package main

import (
	"bytes"
	"errors"
	"fmt"
	"regexp"
	"strconv"
	"strings"

	"go.lstv.dev/util/test"
)

// ---------------------------------------------------------------------------------------------
// scripted types for the six helpers of package test (protocol: see Main.lean `test.run`)

type tkScript struct {
	// marshal
	mKind  byte // 'd' data, 'e' error, 'p' panic
	mData  []byte
	mNil   bool // produced slice is nil
	mText  string
	// unmarshal
	uKind byte // 'o' ok, 'e' error, 'p' panic
	uSet  bool
	uVal  int
	uText string
}

type tkWorld struct {
	scripts []tkScript
	rec     *tkRec
}

var tkW *tkWorld // the world of the helper call in progress (helpers are run one at a time)

type tkRec struct {
	cur      int   // case the next Errorf belongs to (-1: before any case)
	reported []int // Errorf calls per case
	early    int   // Errorf calls before any case started
	failNow  int
}

func (r *tkRec) Errorf(string, ...any) {
	if r.cur < 0 {
		r.early++
		return
	}
	r.reported[r.cur]++
}
func (r *tkRec) FailNow() { r.failNow++ }
func (r *tkRec) Helper()  {}

func tkMarshal(idx int) ([]byte, error) {
	tkW.rec.cur = idx
	s := tkW.scripts[idx]
	var out []byte
	if !s.mNil {
		out = append([]byte{}, s.mData...)
	}
	switch s.mKind {
	case 'd':
		return out, nil
	case 'e':
		return out, errors.New(s.mText)
	default:
		panic(s.mText)
	}
}

func tkUnmarshal(data []byte, set func(int)) error {
	idx, _ := strconv.Atoi(string(data))
	tkW.rec.cur = idx
	s := tkW.scripts[idx]
	if s.uSet {
		set(s.uVal)
	}
	switch s.uKind {
	case 'o':
		return nil
	case 'e':
		return errors.New(s.uText)
	default:
		panic(s.uText)
	}
}

// tv: value-receiver Marshal*, pointer-receiver Unmarshal*
type tv struct{ Idx, X int }

func (v tv) MarshalText() ([]byte, error)    { return tkMarshal(v.Idx) }
func (v tv) MarshalBinary() ([]byte, error)  { return tkMarshal(v.Idx) }
func (v tv) MarshalJSON() ([]byte, error)    { return tkMarshal(v.Idx) }
func (v *tv) UnmarshalText(d []byte) error   { return tkUnmarshal(d, func(x int) { v.X = x }) }
func (v *tv) UnmarshalBinary(d []byte) error { return tkUnmarshal(d, func(x int) { v.X = x }) }
func (v *tv) UnmarshalJSON(d []byte) error   { return tkUnmarshal(d, func(x int) { v.X = x }) }

// tp: pointer receivers only
type tp struct{ Idx, X int }

func (v *tp) MarshalText() ([]byte, error)   { return tkMarshal(v.Idx) }
func (v *tp) MarshalBinary() ([]byte, error) { return tkMarshal(v.Idx) }
func (v *tp) MarshalJSON() ([]byte, error)   { return tkMarshal(v.Idx) }
func (v *tp) UnmarshalText(d []byte) error   { return tkUnmarshal(d, func(x int) { v.X = x }) }
func (v *tp) UnmarshalBinary(d []byte) error { return tkUnmarshal(d, func(x int) { v.X = x }) }
func (v *tp) UnmarshalJSON(d []byte) error   { return tkUnmarshal(d, func(x int) { v.X = x }) }

// tn: no methods
type tn struct{ Idx, X int }

type tkCase struct {
	constraint    int
	before, after byte // n o e p
	pred          string
	script        tkScript
	data          []byte
	dataNil       bool
	value         int
}

func optBytesOf(s string) ([]byte, bool) { // (bytes, isNil)
	if s == "nil" {
		return nil, true
	}
	return mustHex(s), false
}

func parseTkCase(s string) tkCase {
	f := strings.Split(s, "/")
	if len(f) != 8 {
		panic("bad case " + s)
	}
	c := tkCase{constraint: atoi(f[0]), before: f[1][0], after: f[2][0], pred: f[3], value: atoi(f[7])}
	m := strings.Split(f[4], ":")
	c.script.mKind = m[0][0]
	switch m[0] {
	case "d":
		c.script.mData, c.script.mNil = optBytesOf(m[1])
	case "e":
		c.script.mText = string(mustHex(m[1]))
		c.script.mData, c.script.mNil = optBytesOf(m[2])
	case "p":
		c.script.mText = string(mustHex(m[1]))
		c.script.mNil = true
	default:
		panic("bad mbeh")
	}
	u := strings.Split(f[5], ":")
	c.script.uKind = u[0][0]
	setOf := func(x string) {
		if x != "_" {
			c.script.uSet, c.script.uVal = true, atoi(x)
		}
	}
	switch u[0] {
	case "o":
		setOf(u[1])
	case "e", "p":
		c.script.uText = string(mustHex(u[1]))
		setOf(u[2])
	default:
		panic("bad ubeh")
	}
	c.data, c.dataNil = optBytesOf(f[6])
	return c
}

func tkPredFunc(p string) test.AssertErrorFunc {
	f := strings.Split(p, ":")
	switch f[0] {
	case "-":
		return nil
	case "any":
		return test.AnyError
	case "eq":
		return test.Error(string(mustHex(f[1])))
	case "pre":
		return test.ErrorHasPrefix(string(mustHex(f[1])))
	case "suf":
		return test.ErrorHasSuffix(string(mustHex(f[1])))
	case "re":
		return test.ErrorMatch(string(mustHex(f[3])))
	}
	panic("bad pred " + p)
}

// tkHelperBeh scripts a custom test.TypeHelper (protocol: trailing field `h:<start>,<addArg>,<emptyIs>,<eqMod>`;
// `h:-` or no field = nil helper). Its three methods deliberately differ from the nil-helper defaults.
type tkHelperBeh struct {
	start   int // New(value) returns a fresh value holding start (+ value's number when addArg)
	addArg  bool
	emptyIs int // AssertEmpty reports iff the number != emptyIs
	eqMod   int // AssertEqual(expected, actual) reports iff actual mod eqMod != expected (mod 0 = identity)
}

func parseTkHelper(s string) *tkHelperBeh {
	s = strings.TrimPrefix(s, "h:")
	if s == "-" {
		return nil
	}
	f := strings.Split(s, ",")
	if len(f) != 4 || (f[1] != "0" && f[1] != "1") {
		panic("bad helper " + s)
	}
	return &tkHelperBeh{start: atoi(f[0]), addArg: f[1] == "1", emptyIs: atoi(f[2]), eqMod: atoi(f[3])}
}

func (b *tkHelperBeh) String() string {
	if b == nil {
		return "h:-"
	}
	return fmt.Sprintf("h:%d,%s,%d,%d", b.start, b01(b.addArg), b.emptyIs, b.eqMod)
}

// emod is the Euclidean remainder (what `%` on Int is in the Lean model); m = 0 is the identity
func emod(a, m int) int {
	if m == 0 {
		return a
	}
	r := a % m
	if r < 0 {
		r += m
	}
	return r
}

// tkTypeHelper is the real test.TypeHelper[T] with the scripted semantics. fresh builds a new value
// (a fresh pointer for the pointer kind) holding a number, num reads it (false: nil pointer).
type tkTypeHelper[T any] struct {
	b     tkHelperBeh
	fresh func(x int) T
	num   func(T) (int, bool)
}

func (h *tkTypeHelper[T]) New(value T) T {
	x := h.b.start
	if h.b.addArg {
		if n, ok := h.num(value); ok {
			x += n
		}
	}
	return h.fresh(x)
}

func (h *tkTypeHelper[T]) AssertEmpty(t test.TestingT, value T, failInfo string) {
	t.Helper()
	if n, ok := h.num(value); !ok || n != h.b.emptyIs {
		t.Errorf("%s: value %v is not empty (custom helper: empty is %d)", failInfo, n, h.b.emptyIs)
	}
}

func (h *tkTypeHelper[T]) AssertEqual(t test.TestingT, expected, actual T, failInfo string) {
	t.Helper()
	e, ok1 := h.num(expected)
	a, ok2 := h.num(actual)
	if !ok1 || !ok2 || emod(a, h.b.eqMod) != e {
		t.Errorf("%s: expected %d, actual %d (custom helper: modulo %d)", failInfo, e, a, h.b.eqMod)
	}
}

func tkHook[C any](k byte, idx int) func(int, *C) error {
	switch k {
	case 'o':
		return func(int, *C) error { tkW.rec.cur = idx; return nil }
	case 'e':
		return func(int, *C) error { tkW.rec.cur = idx; return errors.New("hook failed") }
	case 'p':
		return func(int, *C) error { tkW.rec.cur = idx; panic("hook panicked") }
	}
	return nil
}

// runTk runs one helper over the cases with values of type T built by mk; hb != nil: the Unmarshal
// helpers get a custom TypeHelper[T] (num reads the number a T holds).
func runTk[T any](helper string, cases []tkCase, hb *tkHelperBeh, mk func(idx, x int) T, num func(T) (int, bool)) {
	var th test.TypeHelper[T] // stays a nil interface without a scripted helper
	if hb != nil {
		th = &tkTypeHelper[T]{b: *hb, fresh: func(x int) T { return mk(0, x) }, num: num}
	}
	switch helper {
	case "MT", "UT":
		var cs []test.CaseText[T]
		for i, c := range cases {
			v := mk(i, c.value)
			d := string(c.data)
			if helper == "UT" {
				d = strconv.Itoa(i)
			}
			cs = append(cs, test.CaseText[T]{Constraint: test.Constraint(c.constraint), Before: tkHook[test.CaseText[T]](c.before, i),
				After: tkHook[test.CaseText[T]](c.after, i), Error: tkPredFunc(c.pred), Data: d, Value: v})
		}
		if helper == "MT" {
			test.MarshalText(tkW.rec, cs)
		} else {
			test.UnmarshalText(tkW.rec, cs, th)
		}
	case "MJ", "UJ":
		var cs []test.CaseJSON[T]
		for i, c := range cases {
			v := mk(i, c.value)
			d := string(c.data)
			if helper == "UJ" {
				d = strconv.Itoa(i)
			}
			cs = append(cs, test.CaseJSON[T]{Constraint: test.Constraint(c.constraint), Before: tkHook[test.CaseJSON[T]](c.before, i),
				After: tkHook[test.CaseJSON[T]](c.after, i), Error: tkPredFunc(c.pred), Data: d, Value: v})
		}
		if helper == "MJ" {
			test.MarshalJSON(tkW.rec, cs)
		} else {
			test.UnmarshalJSON(tkW.rec, cs, th)
		}
	case "MB", "UB":
		var cs []test.CaseBinary[T]
		for i, c := range cases {
			v := mk(i, c.value)
			var d []byte
			if !c.dataNil {
				d = append([]byte{}, c.data...)
			}
			if helper == "UB" {
				d = []byte(strconv.Itoa(i))
			}
			cs = append(cs, test.CaseBinary[T]{Constraint: test.Constraint(c.constraint), Before: tkHook[test.CaseBinary[T]](c.before, i),
				After: tkHook[test.CaseBinary[T]](c.after, i), Error: tkPredFunc(c.pred), Data: d, Value: v})
		}
		if helper == "MB" {
			test.MarshalBinary(tkW.rec, cs)
		} else {
			test.UnmarshalBinary(tkW.rec, cs, th)
		}
	default:
		panic("bad helper " + helper)
	}
}

// tkRun executes one `test.run` line; returns the canonical answer and whether a panic escaped.
func tkRun(helper, typ string, hb *tkHelperBeh, cases []tkCase) (out string, escaped any) {
	w := &tkWorld{rec: &tkRec{cur: -1, reported: make([]int, len(cases))}}
	for _, c := range cases {
		w.scripts = append(w.scripts, c.script)
	}
	tkW = w
	isMarshal := helper[0] == 'M'
	if isMarshal {
		hb = nil // the Marshal helpers take no TypeHelper
	}
	func() {
		defer func() { escaped = recover() }()
		switch typ {
		case "tv":
			runTk(helper, cases, hb, func(idx, x int) tv {
				if isMarshal {
					return tv{Idx: idx, X: x}
				}
				return tv{X: x}
			}, func(v tv) (int, bool) { return v.X, true })
		case "tp":
			runTk(helper, cases, hb, func(idx, x int) tp {
				if isMarshal {
					return tp{Idx: idx, X: x}
				}
				return tp{X: x}
			}, func(v tp) (int, bool) { return v.X, true })
		case "ptp":
			runTk(helper, cases, hb, func(idx, x int) *tp {
				if isMarshal {
					return &tp{Idx: idx, X: x}
				}
				return &tp{X: x} // a fresh pointer every time
			}, func(v *tp) (int, bool) {
				if v == nil {
					return 0, false
				}
				return v.X, true
			})
		case "tn":
			runTk(helper, cases, hb, func(idx, x int) tn { return tn{X: x} }, func(v tn) (int, bool) { return v.X, true })
		default:
			panic("bad type " + typ)
		}
	}()
	var b strings.Builder
	b.WriteByte('=')
	if w.rec.failNow > 0 {
		b.WriteByte('F')
	}
	for i := range cases {
		if w.rec.reported[i] > 0 {
			b.WriteByte('r')
		} else {
			b.WriteByte('-')
		}
	}
	if escaped != nil {
		return "panic-escaped", escaped
	}
	if w.rec.failNow > 0 && w.rec.early == 0 {
		return "FAILNOW-WITHOUT-ERRORF", nil
	}
	if w.rec.failNow == 0 && w.rec.early > 0 {
		return "EARLY-ERRORF", nil
	}
	return b.String(), nil
}

// splitTkHelper takes the optional trailing `h:` field off the case fields
func splitTkHelper(f []string) ([]string, *tkHelperBeh) {
	if n := len(f); n > 0 && strings.HasPrefix(f[n-1], "h:") {
		return f[:n-1], parseTkHelper(f[n-1])
	}
	return f, nil
}

func testRun(f []string) string {
	cs, hb := splitTkHelper(f[2:])
	cases := make([]tkCase, 0, len(cs))
	for _, s := range cs {
		cases = append(cases, parseTkCase(s))
	}
	out, _ := tkRun(f[0], f[1], hb, cases)
	return out
}

// ---------------------------------------------------------------------------------------------
// independent oracle: is the case satisfied for that direction? (written from the property text,
// not from the helpers' code)

type tkVerdict struct {
	applicable, satisfied, k1, offDomain bool
	byValue                              bool // hooks, error and predicate are fine: the verdict hangs on the data/value judgement alone
}

func tkPredMet(p string, errText string, hasErr bool) (met bool, k1 bool) {
	f := strings.Split(p, ":")
	if !hasErr {
		return false, false
	}
	switch f[0] {
	case "any":
		return true, false
	case "eq":
		return errText == string(mustHex(f[1])), false
	case "pre":
		return strings.HasPrefix(errText, string(mustHex(f[1]))), false
	case "suf":
		return strings.HasSuffix(errText, string(mustHex(f[1]))), false
	case "re":
		re, err := regexp.Compile(string(mustHex(f[3])))
		if err != nil {
			return false, false
		}
		ok := re.MatchString(errText)
		return ok, !ok
	}
	return false, false
}

// tkHelperAccepts: does the scripted helper take `actual` for `expected`? Own arithmetic: actual is
// expected plus a whole number of moduli and expected is a proper remainder (modulus 0: plain equality).
func tkHelperAccepts(hb *tkHelperBeh, expected, actual int) bool {
	if hb.eqMod == 0 {
		return expected == actual
	}
	if expected < 0 || expected >= hb.eqMod {
		return false
	}
	d := actual - expected
	return (d/hb.eqMod)*hb.eqMod == d
}

// hb is the TypeHelper given to an Unmarshal helper (nil = none)
func tkOracle(helper string, hb *tkHelperBeh, c tkCase) tkVerdict {
	isMarshal := helper[0] == 'M'
	binary := helper[1] == 'B'
	var v tkVerdict
	if isMarshal {
		v.applicable = c.constraint == 0 || c.constraint == 1
	} else {
		v.applicable = c.constraint == 0 || c.constraint == 2
	}
	if !v.applicable {
		return v
	}
	if c.before == 'e' || c.before == 'p' || c.after == 'e' || c.after == 'p' {
		return v // a failing hook: not satisfied
	}
	var hasErr bool
	var errText string
	var produced []byte
	var producedNil bool
	var val int
	if isMarshal {
		switch c.script.mKind {
		case 'd':
			produced, producedNil = c.script.mData, c.script.mNil
		case 'e':
			hasErr, errText = true, c.script.mText
			produced, producedNil = c.script.mData, c.script.mNil
		case 'p':
			hasErr, errText, producedNil = true, "panic: "+c.script.mText+"\n", true
		}
	} else {
		// the receiver starts as a zero value, or as whatever the custom helper's New makes of the case's value
		if hb != nil {
			val = hb.start
			if hb.addArg {
				val += c.value
			}
		}
		if c.script.uSet {
			val = c.script.uVal
		}
		switch c.script.uKind {
		case 'e':
			hasErr, errText = true, c.script.uText
		case 'p':
			hasErr, errText = true, "panic: "+c.script.uText+"\n"
		}
	}
	if c.pred == "-" {
		if hasErr {
			return v // unexpected error
		}
		v.byValue = true
		if isMarshal {
			if binary {
				v.satisfied = (c.dataNil == producedNil) && string(c.data) == string(produced)
			} else {
				v.satisfied = string(c.data) == string(produced)
			}
		} else if hb == nil {
			v.satisfied = val == c.value
		} else {
			v.satisfied = tkHelperAccepts(hb, c.value, val) // the helper's verdict replaces the comparison
		}
		return v
	}
	met, k1 := tkPredMet(c.pred, errText, hasErr)
	if !met {
		v.k1 = k1
		return v
	}
	v.byValue = true
	if isMarshal {
		// an expected error must come without a result; an empty non-nil slice is outside the
		// property's wording ("non-empty result") — flagged as off-domain
		if !producedNil && len(produced) == 0 {
			v.offDomain = true
		}
		v.satisfied = producedNil
	} else if hb == nil {
		v.satisfied = val == 0
	} else {
		v.satisfied = val == hb.emptyIs // the helper's idea of an empty value
	}
	return v
}

// ---------------------------------------------------------------------------------------------

func init() { props["C20"] = propC20 }

func hxs(s string) string { return hx([]byte(s)) }

func propC20(c *Ctx) {
	msgs := []string{"boom", "bad thing", "e", "boom: nested: deep"}
	optB := func(b []byte, isNil bool) string {
		if isNil {
			return "nil"
		}
		return hx(b)
	}
	genCase := func(marshal bool, hb *tkHelperBeh) string {
		r := c.R
		constraint := []int{0, 0, 0, 1, 2, 3}[r.Intn(6)]
		hook := func() string {
			if hb != nil && r.Intn(2) == 0 {
				return []string{"n", "o"}[r.Intn(2)] // let the custom helper have the last word more often
			}
			return []string{"n", "o", "n", "o", "o", "e", "p"}[r.Intn(7)]
		}
		// marshal behaviour
		data := [][]byte{[]byte("abc"), []byte("x"), {}, []byte("{\"a\":1}")}[r.Intn(4)]
		mkind := []string{"d", "d", "d", "e", "e", "ed", "p", "dn", "ez"}[r.Intn(9)]
		msg := msgs[r.Intn(len(msgs))]
		var mbeh, errText string
		panicked := false
		switch mkind {
		case "d":
			mbeh = "d:" + hx(data)
		case "dn":
			mbeh = "d:nil"
		case "e":
			mbeh, errText = "e:"+hxs(msg)+":nil", msg
		case "ed":
			mbeh, errText = "e:"+hxs(msg)+":"+hx([]byte("abc")), msg
		case "ez":
			mbeh, errText = "e:"+hxs(msg)+":-", msg
		case "p":
			mbeh, errText, panicked = "p:"+hxs(msg), "panic: "+msg+"\n", true
		}
		// unmarshal behaviour
		val := r.Intn(3)
		if hb != nil {
			val = r.Intn(5) // wide enough to wrap around the helper's modulus
		}
		ukind := []string{"o", "o", "o", "k", "e", "e", "es", "p", "ps"}[r.Intn(9)]
		umsg := msgs[r.Intn(len(msgs))]
		var ubeh, uErrText string
		uPanicked := false
		switch ukind {
		case "o":
			ubeh = "o:" + strconv.Itoa(val)
		case "k":
			ubeh = "o:_"
		case "e":
			ubeh, uErrText = "e:"+hxs(umsg)+":_", umsg
		case "es":
			ubeh, uErrText = "e:"+hxs(umsg)+":"+strconv.Itoa(1+r.Intn(2)), umsg
		case "p":
			ubeh, uErrText, uPanicked = "p:"+hxs(umsg)+":_", "panic: "+umsg+"\n", true
		case "ps":
			ubeh, uErrText, uPanicked = "p:"+hxs(umsg)+":"+strconv.Itoa(1+r.Intn(2)), "panic: "+umsg+"\n", true
		}
		et, pk := errText, panicked
		if !marshal {
			et, pk = uErrText, uPanicked
		}
		// predicate (evaluated against the error text of the direction this case will be run in)
		pred := "-"
		if r.Intn(2) == 0 {
			switch k := r.Intn(6); {
			case k == 0:
				pred = "any"
			case k == 1 && !pk:
				pred = "eq:" + hxs(msgs[r.Intn(len(msgs))])
				if et != "" && r.Intn(2) == 0 { // the text itself and its near misses (a lenient comparison would forgive them)
					pred = "eq:" + hxs([]string{et, strings.ToUpper(et), et + "\n", " " + et, et[:len(et)-1], et + " "}[r.Intn(6)])
				}
			case k == 2:
				p := []string{"b", "boom", "bad", "zz", "", "panic: ", "panic: boom", "e", "B", "Boom", " b", "oom"}[r.Intn(12)]
				if pk && len(p) > len(et) {
					p = "panic: "
				}
				pred = "pre:" + hxs(p)
			case k == 3 && !pk:
				pred = "suf:" + hxs([]string{"m", "boom", "thing", "zz", "", "deep", "M", "Thing", "deep ", "boo"}[r.Intn(10)])
			case k == 4:
				pat := []string{"^boom", "o+", "^nomatch", "thing", "^panic: boom", "^bad", "b.d"}[r.Intn(7)]
				if pk {
					// the panic text continues with a stack trace the script cannot know: anchored patterns only
					pat = []string{"^boom", "^nomatch", "^panic: boom", "^bad", "^panic: e\n", "^panic: b"}[r.Intn(6)]
				}
				hit := et != "" && regexp.MustCompile(pat).MatchString(et)
				pred = fmt.Sprintf("re:1:%s:%s", b01(hit), hxs(pat))
			case k == 5:
				pred = "re:0:0:" + hxs("ab(.")
			default:
				pred = "any"
			}
		}
		if hb != nil && r.Intn(3) > 0 {
			// custom helper: mostly cases that get as far as asking it (predicate iff the call fails)
			if uErrText == "" {
				pred = "-"
			} else if pred == "-" {
				pred = "any"
			}
		}
		// expectations: mostly right, sometimes wrong
		expData, expNil := data, false
		if mkind == "dn" {
			expData, expNil = nil, true
			if r.Intn(3) == 0 {
				expData, expNil = []byte{}, false // nil vs empty: differs only for the binary helper
			}
		}
		if r.Intn(5) == 0 {
			// near misses of every kind: "differing data" means any difference, also one a lenient comparison would forgive
			d := append([]byte{}, data...)
			switch r.Intn(7) {
			case 0:
				d = append(d, '!')
			case 1:
				d = append(d, '\n')
			case 2:
				d = append([]byte{' '}, d...)
			case 3:
				d = bytes.ToUpper(d)
			case 4:
				if len(d) > 0 {
					d = d[:len(d)-1]
				}
			case 5:
				d = append(append([]byte{'\t'}, d...), ' ')
			case 6:
				d = bytes.ReplaceAll(d, []byte(":"), []byte(": "))
			}
			expData, expNil = d, false
		}
		expVal := val
		if ukind == "k" {
			expVal = 0
		}
		if r.Intn(6) == 0 {
			expVal = val + 1
		}
		if hb != nil {
			// with a custom helper: mostly what *it* accepts, sometimes what only plain equality would
			// accept (kept from above), sometimes off by one
			right := 0
			switch {
			case ukind != "k":
				right = emod(val, hb.eqMod)
			case !hb.addArg:
				right = emod(hb.start, hb.eqMod)
			default:
				for e := 0; e < 6; e++ {
					if emod(hb.start+e, hb.eqMod) == e {
						right = e
						break
					}
				}
			}
			switch k := r.Intn(10); {
			case k < 6:
				expVal = right
			case k < 7:
				expVal = right + 1
			case k < 8 && hb.eqMod > 0:
				expVal = right + hb.eqMod // equal modulo, but not a remainder: the asymmetric helper rejects it
			}
		}
		return fmt.Sprintf("%d/%s/%s/%s/%s/%s/%s/%d", constraint, hook(), hook(), pred, mbeh, ubeh, optB(expData, expNil), expVal)
	}
	helpers := []string{"MT", "UT", "MB", "UB", "MJ", "UJ"}
	types := []string{"tv", "tv", "tv", "ptp", "ptp", "tp", "tn"}
	iters := 30000
	if c.Thorough {
		iters = 400000
	}
	k1Seen, withHelper := 0, 0
	helperVsNil := map[string]int{} // custom helper's verdict vs what the nil helper would have said
	for it := 0; it < iters; it++ {
		helper := helpers[c.R.Intn(6)]
		typ := types[c.R.Intn(len(types))]
		n := c.R.Intn(5)
		if it%10 == 0 {
			n = 1
		}
		// a custom TypeHelper in about a third of the Unmarshal-helper runs (the Marshal helpers take none)
		var hb *tkHelperBeh
		if helper[0] == 'U' && c.R.Intn(3) == 0 {
			hb = &tkHelperBeh{start: []int{0, 0, 1, 2, 5}[c.R.Intn(5)], addArg: c.R.Intn(3) == 0, eqMod: []int{0, 0, 2, 3}[c.R.Intn(4)]}
			hb.emptyIs = []int{0, hb.start, hb.start, 1, 2, 7}[c.R.Intn(6)]
			withHelper++
		}
		var cs []string
		for i := 0; i < n; i++ {
			cs = append(cs, genCase(helper[0] == 'M', hb))
		}
		line := strings.TrimRight("test.run "+helper+" "+typ+" "+strings.Join(cs, " "), " ")
		if hb != nil {
			line += " " + hb.String()
		}
		got := c.Op(line)
		// ---- direct oracle
		c.Check(line)
		if got == "panic-escaped" || got == "panic" {
			c.Fail("C20.escape", line, "a panic escaped the helper")
			continue
		}
		if !strings.HasPrefix(got, "=") {
			c.Fail("C20.protocol", line, "%s", got)
			continue
		}
		cases := make([]tkCase, 0, n)
		for _, s := range cs {
			cases = append(cases, parseTkCase(s))
		}
		lacks := typ == "tn" || (typ == "tp" && helper[0] == 'M')
		failNow := strings.HasPrefix(got, "=F")
		marks := strings.TrimPrefix(strings.TrimPrefix(got, "="), "F")
		if lacks {
			// a type lacking the interface: a failure must be reported (FailNow) as soon as there is a case
			if (n > 0) != failNow {
				c.Fail("C20.failtype", line, "got %s", got)
			}
			continue
		}
		if failNow {
			c.Fail("C20.failnow.unexpected", line, "got %s", got)
			continue
		}
		for i, cs := range cases {
			v := tkOracle(helper, hb, cs)
			if hb != nil && v.applicable && !v.byValue {
				helperVsNil["helper-not-asked"]++
			} else if hb != nil && v.applicable {
				if nv := tkOracle(helper, nil, cs); nv.satisfied != v.satisfied {
					helperVsNil[fmt.Sprintf("helper-satisfied=%v,nil-satisfied=%v", v.satisfied, nv.satisfied)]++
				} else {
					helperVsNil[fmt.Sprintf("both-satisfied=%v", v.satisfied)]++
				}
			}
			reported := i < len(marks) && marks[i] == 'r'
			switch {
			case !v.applicable:
				if reported {
					c.Fail("C20.other-direction", line, "case %d is for the other direction but was reported", i)
				}
			case v.offDomain:
				// empty non-nil result next to an expected error: outside the property's wording
			case v.satisfied:
				if reported {
					c.Fail("C20.false-alarm", line, "case %d is satisfied but was reported (%s)", i, got)
				}
			default:
				if !reported {
					if v.k1 {
						k1Seen++
						c.Fail("C20.K1", line, "case %d: ErrorMatch pattern compiles, error non-nil, no match: not reported", i)
					} else {
						c.Fail("C20.missed", line, "case %d is not satisfied but nothing was reported (%s)", i, got)
					}
				}
			}
		}
	}
	c.Note("K1 instances seen: %d", k1Seen)
	c.Note("runs with a custom TypeHelper: %d; applicable cases by verdict: %v", withHelper, helperVsNil)
}
