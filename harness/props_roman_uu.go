package main

import (
	"errors"
	"fmt"
	"math/big"
	"math/bits"
	"math/rand"
	"runtime"
	"sort"
	"strconv"
	"strings"
	"sync"
	"sync/atomic"

	"go.lstv.dev/util/roman"
	"go.lstv.dev/util/uu"
)

func init() {
	props["C02"] = propC02
	props["C10"] = propC10
	props["C05"] = propC05
	props["C19"] = propC19
}

// ------------------------------------------------------------------------------ shared helpers

// ruRep collects oracle results of one worker; merged into the Ctx after the workers joined
// (Ctx itself is not safe for concurrent use).
type ruRep struct {
	evals, nt int64
	counts    map[string]int64
	ex        []Failure
}

func (r *ruRep) fail(key, input, format string, a ...any) {
	if r.counts == nil {
		r.counts = map[string]int64{}
	}
	r.counts[key]++
	if r.counts[key] <= 5 {
		r.ex = append(r.ex, Failure{Key: key, Input: input, Detail: fmt.Sprintf(format, a...)})
	}
}

// merge has the effect of evals × c.Check(""), c.NT(nt) and one c.Fail per recorded failure.
func (r *ruRep) merge(c *Ctx) {
	c.Evals += r.evals
	c.NT(r.nt)
	for _, f := range r.ex {
		have := 0
		for _, g := range c.Fails {
			if g.Key == f.Key {
				have++
			}
		}
		if have < 5 {
			c.Fails = append(c.Fails, f)
		}
	}
	for k, n := range r.counts {
		c.FailCounts[k] += n
	}
}

// ruGuard turns a panic of the implementation into a recorded failure.
func ruGuard(rep *ruRep, key string, input func() string, f func()) {
	defer func() {
		if r := recover(); r != nil {
			rep.fail(key+".panic", input(), "panic: %v", r)
		}
	}()
	f()
}

// ruPar runs body(i) for i in [0, items) on several goroutines. The body may only read package
// globals of the implementation (the caller sets them before and restores them after).
func ruPar(c *Ctx, items int, body func(i int, rep *ruRep)) { ruParChunk(c, items, 128, body) }

// ruParChunk: ruPar with the number of consecutive items a worker takes at a time (1 for few, expensive items).
func ruParChunk(c *Ctx, items, chunk int, body func(i int, rep *ruRep)) {
	workers := runtime.GOMAXPROCS(0)
	if workers > 16 {
		workers = 16
	}
	if workers < 1 {
		workers = 1
	}
	var next int64
	reps := make([]*ruRep, workers)
	var wg sync.WaitGroup
	for w := range reps {
		reps[w] = &ruRep{}
		wg.Add(1)
		go func(rep *ruRep) {
			defer wg.Done()
			for {
				lo := int(atomic.AddInt64(&next, int64(chunk))) - chunk
				if lo >= items {
					return
				}
				hi := lo + chunk
				if hi > items {
					hi = items
				}
				for i := lo; i < hi; i++ {
					body(i, rep)
				}
			}
		}(reps[w])
	}
	wg.Wait()
	for _, r := range reps {
		r.merge(c)
	}
}

func ruSetRomanMax(n int) func() {
	old := roman.MaxInputLength
	roman.MaxInputLength = n
	return func() { roman.MaxInputLength = old }
}

func ruMix(x uint64) uint64 {
	x += 0x9e3779b97f4a7c15
	x = (x ^ (x >> 30)) * 0xbf58476d1ce4e5b9
	x = (x ^ (x >> 27)) * 0x94d049bb133111eb
	return x ^ (x >> 31)
}

// ------------------------------------------------------------------------------ roman oracles

const ruAlpha = "IVXLCDM"

// digit table: shape of decimal digit d over the symbols a = one, b = five, c = ten of the group
var ruDigitShort = [10]string{"", "a", "aa", "aaa", "ab", "b", "ba", "baa", "baaa", "ac"}

const (
	ruDigitLong4 = "aaaa"
	ruDigitLong9 = "baaaa"
)

func ruDigit(d int, one, five, ten byte, long4, long9 bool) string {
	pat := ruDigitShort[d]
	if d == 4 && long4 {
		pat = ruDigitLong4
	}
	if d == 9 && long9 {
		pat = ruDigitLong9
	}
	out := make([]byte, len(pat))
	for i := 0; i < len(pat); i++ {
		switch pat[i] {
		case 'a':
			out[i] = one
		case 'b':
			out[i] = five
		default:
			out[i] = ten
		}
	}
	return string(out)
}

// ruLower / ruUpper change the case of the seven roman letters only.
func ruLower(s string) string {
	b := []byte(s)
	for i, ch := range b {
		if strings.IndexByte(ruAlpha, ch) >= 0 {
			b[i] = ch + 32
		}
	}
	return string(b)
}

func ruUpper(s string) string {
	b := []byte(s)
	for i, ch := range b {
		if ch >= 'a' && ch <= 'z' && strings.IndexByte(ruAlpha, ch-32) >= 0 {
			b[i] = ch - 32
		}
	}
	return string(b)
}

// ruNumeral is the canonical numeral of n. Flag bits as documented: 1 long 4, 2 long 40,
// 4 long 400, 8 long 9, 16 long 90, 32 long 900, 64 lower case.
func ruNumeral(n uint64, flags int) string {
	s := strings.Repeat("M", int(n/1000)) +
		ruDigit(int(n/100%10), 'C', 'D', 'M', flags&4 != 0, flags&32 != 0) +
		ruDigit(int(n/10%10), 'X', 'L', 'C', flags&2 != 0, flags&16 != 0) +
		ruDigit(int(n%10), 'I', 'V', 'X', flags&1 != 0, flags&8 != 0)
	if flags&64 != 0 {
		s = ruLower(s)
	}
	return s
}

func ruSymValue(b byte) uint64 {
	switch b {
	case 'I', 'i':
		return 1
	case 'V', 'v':
		return 5
	case 'X', 'x':
		return 10
	case 'L', 'l':
		return 50
	case 'C', 'c':
		return 100
	case 'D', 'd':
		return 500
	case 'M', 'm':
		return 1000
	}
	return 0
}

// ruEvalSymbols is the classic symbol-by-symbol evaluator (a symbol before a larger one is
// subtracted). It is only meaningful on well-formed numerals.
func ruEvalSymbols(s string) uint64 {
	var v uint64
	for i := 0; i < len(s); i++ {
		x := ruSymValue(s[i])
		if i+1 < len(s) && x < ruSymValue(s[i+1]) {
			v -= x
		} else {
			v += x
		}
	}
	return v
}

// ruLang is the documented language without the leading M run: every concatenation of a
// hundreds, a tens and a units group, each additive (optional five, up to four ones) or
// subtractive (four or nine form), with its value.
type ruLang map[string]uint64

func ruGroupForms(one, five, ten byte, unit uint64) map[string]uint64 {
	forms := map[string]uint64{}
	for f := 0; f < 2; f++ {
		for ones := 0; ones <= 4; ones++ {
			s := strings.Repeat(string(rune(five)), f) + strings.Repeat(string(rune(one)), ones)
			forms[s] = (uint64(5*f) + uint64(ones)) * unit
		}
	}
	forms[string([]byte{one, five})] = 4 * unit
	forms[string([]byte{one, ten})] = 9 * unit
	return forms
}

func ruBuildLang() (ruLang, error) {
	l := ruLang{}
	hs, ts, us := ruGroupForms('C', 'D', 'M', 100), ruGroupForms('X', 'L', 'C', 10), ruGroupForms('I', 'V', 'X', 1)
	if len(hs) != 12 || len(ts) != 12 || len(us) != 12 {
		return nil, fmt.Errorf("group tables have %d %d %d forms", len(hs), len(ts), len(us))
	}
	for h, hv := range hs {
		for t, tv := range ts {
			for u, uv := range us {
				s := h + t + u
				if old, dup := l[s]; dup && old != hv+tv+uv {
					return nil, fmt.Errorf("ambiguous numeral %q: %d and %d", s, old, hv+tv+uv)
				}
				l[s] = hv + tv + uv
			}
		}
	}
	if len(l) != 1728 {
		return nil, fmt.Errorf("%d distinct tails, expected 1728", len(l))
	}
	return l, nil
}

// recognise decides membership and value of s: M* followed by a tail of the table.
func (l ruLang) recognise(s string) (uint64, bool) {
	up := ruUpper(s)
	k := 0
	for k < len(up) && up[k] == 'M' {
		k++
	}
	v, ok := l[up[k:]]
	if !ok {
		return 0, false
	}
	return uint64(k)*1000 + v, true
}

func ruRomanTyped[T string | []byte](err error) bool {
	if _, ok := err.(*roman.NumberFormatError[T]); ok {
		return true
	}
	typed, _ := romanPE(err)
	return typed
}

// ruCheckRoman evaluates C10 on one text of at most MaxInputLength bytes: rule × {string, []byte} ×
// {DefaultParser, Valid} and UnmarshalText, against the expectation (v, ok) of the recogniser.
func ruCheckRoman(rep *ruRep, s string, v uint64, ok bool) {
	for rule := 0; rule < 2; rule++ {
		ruCheckRomanRule(rep, s, v, ok, rule)
	}
	ruCheckRomanUnmarshal(rep, s, v, ok)
}

// ruCheckRomanRule: DefaultParser and Valid, string and []byte, under one rule value (any int: the rule is tested bit by bit).
// ruClip quotes a text for a failure message; long ones by length, head and tail.
func ruClip(s string) string {
	if len(s) <= 200 {
		return strconv.Quote(s)
	}
	return fmt.Sprintf("%d bytes %q…%q", len(s), s[:40], s[len(s)-30:])
}

func ruCheckRomanRule(rep *ruRep, s string, v uint64, ok bool, rule int) {
	{
		line := func() string { return fmt.Sprintf("roman.parse %d %d %s", roman.MaxInputLength, rule, hx([]byte(s))) }
		ruGuard(rep, "C10", line, func() {
			rep.evals++
			wantOK := ok && !(len(s) == 0 && rule&1 != 0)
			r := roman.Rule(rule)
			n1, e1 := roman.DefaultParser(s, r)
			n2, e2 := roman.DefaultParser([]byte(s), r)
			for i, p := range []struct {
				n roman.Number
				e error
			}{{n1, e1}, {n2, e2}} {
				switch {
				case (p.e == nil) != wantOK:
					if wantOK {
						rep.fail("C10.reject", line(), "%s (input type %d) rejected: %v", ruClip(s), i, p.e)
					} else {
						rep.fail("C10.accept", line(), "%s (input type %d) accepted as %d", ruClip(s), i, uint64(p.n))
					}
				case wantOK && uint64(p.n) != v:
					rep.fail("C10.value", line(), "%s (input type %d) -> %d, want %d", ruClip(s), i, uint64(p.n), v)
				}
				if p.e != nil && p.n != 0 {
					rep.fail("C10.zero", line(), "%s -> %d next to error", ruClip(s), uint64(p.n))
				}
			}
			if e1 != nil && !ruRomanTyped[string](e1) {
				rep.fail("C10.typed", line(), "%T", e1)
			}
			if e2 != nil && !ruRomanTyped[[]byte](e2) {
				rep.fail("C10.typed", line(), "%T", e2)
			}
			ev1 := roman.Valid(s, r)
			ev2 := roman.Valid([]byte(s), r)
			if (ev1 == nil) != wantOK || (ev2 == nil) != wantOK {
				rep.fail("C10.valid", fmt.Sprintf("roman.valid %d %d %s", roman.MaxInputLength, rule, hx([]byte(s))), "%s: Valid -> %v / %v, want ok=%v", ruClip(s), ev1, ev2, wantOK)
			}
			if ev1 != nil && !ruRomanTyped[string](ev1) || ev2 != nil && !ruRomanTyped[[]byte](ev2) {
				rep.fail("C10.typed", line(), "Valid: %T %T", ev1, ev2)
			}
		})
	}
}

// ruCheckRomanUnmarshal: UnmarshalText against the same expectation (default rule).
func ruCheckRomanUnmarshal(rep *ruRep, s string, v uint64, ok bool) {
	line := func() string { return fmt.Sprintf("roman.parse %d 0 %s", roman.MaxInputLength, hx([]byte(s))) }
	ruGuard(rep, "C10.unmarshal", line, func() {
		rep.evals++
		const sentinel = roman.Number(987654321)
		datas := [][]byte{[]byte(s)}
		if s == "" {
			// the empty text as a nil slice, an empty one and an empty one with capacity: all three are "empty text is zero"
			datas = [][]byte{nil, {}, make([]byte, 0, 4)}
		}
		for _, data := range datas {
			u := sentinel
			err := u.UnmarshalText(data)
			switch {
			case (err == nil) != ok:
				rep.fail("C10.unmarshal", line(), "%s (nil data: %v): UnmarshalText -> %d %v, want ok=%v", ruClip(s), data == nil, uint64(u), err, ok)
			case ok && uint64(u) != v:
				rep.fail("C10.unmarshal.value", line(), "%s (nil data: %v): UnmarshalText onto a receiver holding %d -> %d, want %d", ruClip(s), data == nil, uint64(sentinel), uint64(u), v)
			case !ok && u != sentinel:
				rep.fail("C10.unmarshal.recv", line(), "%s: receiver changed to %d on error", ruClip(s), uint64(u))
			}
			if err != nil {
				if typed, _ := romanPE(err); !typed {
					rep.fail("C10.typed", line(), "UnmarshalText: %T", err)
				}
			}
		}
	})
}

// ------------------------------------------------------------------------------------------ C02

var ruSpecialN = []uint64{0, 1, 3, 4, 5, 8, 9, 10, 14, 19, 39, 40, 44, 49, 50, 89, 90, 94, 99, 100, 399, 400, 404, 409, 440, 444,
	449, 490, 494, 499, 500, 888, 899, 900, 904, 909, 940, 944, 949, 990, 994, 999, 1000, 1444, 1994, 1999, 2024, 3888, 3999,
	4000, 4444, 4999, 9999, 49999, 99999, 100000, 112999, 113000, 113999, 114000, 127999, 128000, 128001, 129999, 130000}

// ruC02Check evaluates C02 for one number under one flag set df, which is also the current
// roman.DefaultFormat (set by the caller).
func ruC02Check(rep *ruRep, n uint64, df int) {
	fmtLine := func() string { return fmt.Sprintf("roman.format %d %d -", n, df) }
	ruGuard(rep, "C02", fmtLine, func() {
		rep.evals++
		want := ruNumeral(n, df)
		if ruEvalSymbols(want) != n || (n == 0) != (want == "") {
			rep.fail("C02.oracle", fmtLine(), "own builder and own evaluator disagree: %q -> %d", want, ruEvalSymbols(want))
		}
		N := roman.Number(n)
		b, err := roman.DefaultFormatter(nil, N, roman.Format(df))
		if err != nil || string(b) != want {
			rep.fail("C02.canonical", fmtLine(), "got %q %v, want %q", b, err, want)
			return
		}
		if df&64 != 0 {
			// the lower-case flag changes the letter case and nothing else
			ub, _ := roman.DefaultFormatter(nil, N, roman.Format(df&^64))
			for _, ch := range ub {
				if strings.IndexByte(ruAlpha, ch) < 0 {
					rep.fail("C02.case", fmt.Sprintf("roman.format %d %d -", n, df&^64), "byte %q in %q", ch, ub)
					break
				}
			}
			if ruLower(string(ub)) != string(b) {
				rep.fail("C02.case", fmtLine(), "%q is not the lower-cased %q", b, ub)
			}
		}
		parseLine := func() string { return fmt.Sprintf("roman.parse %d 0 %s", roman.MaxInputLength, hx(b)) }
		fits := len(want) <= roman.MaxInputLength
		var p1, p2 roman.Number
		var e1, e2 error
		if (n+uint64(df))&1 == 0 {
			p1, e1 = roman.DefaultParser(b, 0)
			p2, e2 = roman.DefaultParser(string(b), roman.RuleDisableEmptyAsZero)
		} else {
			p1, e1 = roman.DefaultParser(string(b), 0)
			p2, e2 = roman.DefaultParser(b, roman.RuleDisableEmptyAsZero)
		}
		ev := roman.Valid(string(b), 0)
		const sentinel = roman.Number(987654321)
		u := sentinel
		eu := u.UnmarshalText(b)
		if fits {
			if e1 != nil || uint64(p1) != n {
				rep.fail("C02.roundtrip", parseLine(), "%q -> %d %v, want %d", b, uint64(p1), e1, n)
			}
			if n != 0 && (e2 != nil || uint64(p2) != n) || n == 0 && (e2 == nil || p2 != 0) {
				rep.fail("C02.roundtrip.rule", fmt.Sprintf("roman.parse %d 1 %s", roman.MaxInputLength, hx(b)), "%q -> %d %v", b, uint64(p2), e2)
			}
			if ev != nil {
				rep.fail("C02.valid", fmt.Sprintf("roman.valid %d 0 %s", roman.MaxInputLength, hx(b)), "%q: %v", b, ev)
			}
			if eu != nil || uint64(u) != n {
				rep.fail("C02.unmarshal", parseLine(), "%q -> %d %v", b, uint64(u), eu)
			}
		} else {
			if !errors.Is(e1, roman.ErrInputTooLong) || !errors.Is(e2, roman.ErrInputTooLong) || !errors.Is(ev, roman.ErrInputTooLong) ||
				!errors.Is(eu, roman.ErrInputTooLong) || p1 != 0 || p2 != 0 || u != sentinel {
				rep.fail("C02.limit", parseLine(), "%d bytes: %d %v / %d %v / %v / %d %v", len(b), uint64(p1), e1, uint64(p2), e2, ev, uint64(u), eu)
			}
		}
		pathsLine := func() string { return fmt.Sprintf("roman.paths %d %d", n, df) }
		if mt, err := N.MarshalText(); err != nil || string(mt) != want {
			rep.fail("C02.MarshalText", pathsLine(), "%q %v, want %q", mt, err, want)
		}
		if s := N.String(); s != want {
			rep.fail("C02.String", pathsLine(), "%q, want %q", s, want)
		}
		got := fmt.Sprintf("%R|%r|%L|%l|%s", N, N, N, N, N)
		exp := ruNumeral(n, 0) + "|" + ruNumeral(n, 64) + "|" + ruNumeral(n, 63) + "|" + ruNumeral(n, 127) + "|" + want
		if got != exp {
			rep.fail("C02.verbs", pathsLine(), "%q, want %q", got, exp)
		}
	})
}

func propC02(c *Ctx) {
	defer ruSetRomanMax(128)()
	oldDF := roman.DefaultFormat
	defer func() { roman.DefaultFormat = oldDF }()

	c.Check("flag-constants")
	if roman.FormatLong4 != 1 || roman.FormatLong40 != 2 || roman.FormatLong400 != 4 || roman.FormatLong9 != 8 || roman.FormatLong90 != 16 ||
		roman.FormatLong900 != 32 || roman.FormatLowerCase != 64 || roman.FormatLong4x != 7 || roman.FormatLong9x != 56 || roman.FormatLong != 63 {
		c.Fail("C02.constants", "", "format flag constants differ from the documented bits")
	}

	// ---- correspondence lines
	roundtrip := func(n uint64, fl int, valid bool) {
		out := c.Op(fmt.Sprintf("roman.format %d %d -", n, fl))
		if strings.HasPrefix(out, "err") || out == "panic" {
			return
		}
		c.Op("roman.parse 128 0 " + out)
		if valid {
			c.Op("roman.valid 128 0 " + out)
		}
		if out != "-" && len(out) > 256 {
			c.Op("roman.parse 0 0 " + out)
			c.Op(fmt.Sprintf("roman.parse %d 1 %s", len(out)/2, out))
			c.Op(fmt.Sprintf("roman.valid %d 0 %s", len(out)/2-1, out))
		}
	}
	for n := uint64(0); n <= 4000; n++ {
		if c.Thorough {
			for fl := 0; fl < 128; fl++ {
				roundtrip(n, fl, fl%4 == int(n%4))
			}
			continue
		}
		for i, fl := range []int{0, 63, 64, 127, c.R.Intn(128), c.R.Intn(128)} {
			roundtrip(n, fl, i%3 == int(n%3))
		}
	}
	for _, n := range ruSpecialN {
		for fl := 0; fl < 128; fl++ {
			if n > 4000 || !c.Thorough {
				roundtrip(n, fl, true)
			}
			c.Op(fmt.Sprintf("roman.paths %d %d", n, fl))
		}
		c.Op(fmt.Sprintf("roman.parse 128 1 %s", hx([]byte(ruNumeral(n, 0)))))
	}
	nRandOps, nPaths := 1500, 2000
	if c.Thorough {
		nRandOps, nPaths = 20000, 40000
	}
	for i := 0; i < nRandOps; i++ {
		n := uint64(c.R.Intn(130001))
		roundtrip(n, c.R.Intn(128), true)
		roundtrip(n, []int{0, 63, 64, 127}[c.R.Intn(4)], false)
	}
	for i := 0; i < nPaths; i++ {
		c.Op(fmt.Sprintf("roman.paths %d %d", c.R.Intn(4001), c.R.Intn(128)))
	}
	// the formatter appends to the caller's buffer and lower-cases only what it appended
	for i := 0; i < 300; i++ {
		pre := []string{"4d43", "6d63", "58587878", "00ff49", "2d"}[c.R.Intn(5)]
		c.Op(fmt.Sprintf("roman.format %d %d %s", c.R.Intn(5000), c.R.Intn(128), pre))
	}

	// ---- direct oracle: every chosen n under every flag set, which is also the DefaultFormat
	var ns []uint64
	if c.Thorough {
		for n := uint64(0); n <= 130000; n++ {
			ns = append(ns, n)
		}
	} else {
		seen := map[uint64]bool{}
		add := func(n uint64) {
			if !seen[n] {
				seen[n] = true
				ns = append(ns, n)
			}
		}
		for n := uint64(0); n <= 4000; n++ {
			add(n)
		}
		for _, n := range ruSpecialN {
			add(n)
		}
		for i := 0; i < 4000; i++ {
			add(uint64(c.R.Intn(130001)))
		}
	}
	for df := 0; df < 128; df++ {
		roman.DefaultFormat = roman.Format(df)
		d := df
		ruPar(c, len(ns), func(i int, rep *ruRep) { ruC02Check(rep, ns[i], d) })
	}
	roman.DefaultFormat = oldDF
	c.NT(int64(len(ns)) * 128)
	fit := 0
	for _, n := range ns {
		for _, fl := range []int{0, 63} {
			if len(ruNumeral(n, fl)) <= 128 {
				fit++
			}
		}
	}
	c.Note("direct oracle: %d numbers x 128 flag sets; %d of the (n, short/long) numerals fit 128 bytes", len(ns), fit)

	// ---- format flags are tested bit by bit: unknown extra bits (and negative values) change nothing
	rep0 := &ruRep{}
	for ni, n := range ruSpecialN {
		if n > 5000 {
			continue
		}
		for _, fl := range extValues(128) {
			if fl >= 0 && fl < 128 {
				continue
			}
			want := ruNumeral(n, fl)
			b, err := roman.DefaultFormatter(nil, roman.Number(n), roman.Format(fl))
			rep0.evals++
			line := fmt.Sprintf("roman.format %d %d -", n, fl)
			if err != nil || string(b) != want || want != ruNumeral(n, fl&127) {
				rep0.fail("C02.flagbits", line, "got %q %v, want %q", b, err, want)
			} else if p, err := roman.DefaultParser(b, 0); err != nil || uint64(p) != n {
				rep0.fail("C02.flagbits.roundtrip", "roman.parse 128 0 "+hx(b), "%q -> %d %v, want %d", b, uint64(p), err, n)
			}
			// the same bit pattern as the package's DefaultFormat: MarshalText, String and %s read it bit by bit as well
			func() {
				defer ruSetDefaultFormat(roman.Format(fl))()
				N := roman.Number(n)
				pl := fmt.Sprintf("roman.paths %d %d", n, fl)
				ruGuard(rep0, "C02.flagbits.default", func() string { return pl }, func() {
					rep0.evals++
					mt, err := N.MarshalText()
					if st, sv := N.String(), fmt.Sprintf("%s", N); err != nil || string(mt) != want || st != want || sv != want {
						rep0.fail("C02.flagbits.default", pl, "DefaultFormat = %d: MarshalText %q %v, String %q, %%s %q, want %q", fl, mt, err, st, sv, want)
					}
				})
			}()
			if ni%9 == 4 || n == 0 || n == 3999 {
				c.Op(line)
			}
		}
	}
	rep0.merge(c)

	// ---- numbers far above the usual range with the limit switched off: Number is a uint64 and every numeral "fits" then
	func() {
		defer ruSetRomanMax(0)()
		repL := &ruRep{}
		for _, n := range []uint64{130001, 200000, 1000000, 65535999, 65536000, 65536001, 1<<20*1000 + 999, 70000004} {
			for _, fl := range []int{0, 63, 64, 127} {
				if n > 1000000 && fl != 0 && (fl != 127 || n > 70000004) {
					continue // a numeral of a mebibyte takes a third of a second to parse: one flag set is enough there
				}
				n, fl := n, fl
				line := func() string { return fmt.Sprintf("roman.format %d %d -", n, fl) }
				ruGuard(repL, "C02.large", line, func() {
					repL.evals++
					want := strings.Repeat("M", int(n/1000))
					if fl&64 != 0 {
						want = strings.Repeat("m", int(n/1000))
					}
					want += ruNumeral(n%1000, fl)
					b, err := roman.DefaultFormatter(nil, roman.Number(n), roman.Format(fl))
					if err != nil || string(b) != want {
						repL.fail("C02.large.canonical", line(), "numeral of %d bytes (%v), want %d bytes: %d x M + %q", len(b), err, len(want), n/1000, ruNumeral(n%1000, fl))
						return
					}
					p1, e1 := roman.DefaultParser(b, 0)
					ev := roman.Valid(b, 0)
					p2, e2, u, eu := p1, e1, p1, e1
					if n <= 70000004 {
						p2, e2 = roman.DefaultParser(string(b), roman.RuleDisableEmptyAsZero)
						u = roman.Number(987654321)
						eu = u.UnmarshalText(b)
					}
					if e1 != nil || e2 != nil || ev != nil || eu != nil || uint64(p1) != n || uint64(p2) != n || uint64(u) != n {
						repL.fail("C02.large.roundtrip", line(), "limit off, numeral of %d bytes -> %d %v / %d %v / %v / %d %v, want %d", len(b), uint64(p1), e1, uint64(p2), e2, ev, uint64(u), eu, n)
					}
				})
			}
			if n <= 1000000 {
				roundtripOff := c.Op(fmt.Sprintf("roman.format %d 0 -", n))
				c.Op("roman.parse 0 0 " + roundtripOff)
				c.Op("roman.valid 0 1 " + roundtripOff)
			}
		}
		// around 2^32: the formatter is judged on the whole numeral (4.3 MB: length, thousands, tail), the parser on one of
		// them (about a second); a numeral for 2^33 and beyond is not affordable in the quick tier
		for i, n := range []uint64{1<<32 - 1, 1 << 32, 1<<32 + 1994} {
			n := n
			line := func() string { return fmt.Sprintf("roman.format %d 0 -", n) }
			ruGuard(repL, "C02.large", line, func() {
				repL.evals++
				k, tail := int(n/1000), ruNumeral(n%1000, 0)
				b, err := roman.DefaultFormatter(nil, roman.Number(n), 0)
				if err != nil || len(b) != k+len(tail) || strings.Count(string(b[:min(k, len(b))]), "M") != min(k, len(b)) || !strings.HasSuffix(string(b), tail) {
					repL.fail("C02.large.canonical", line(), "numeral of %d bytes (%v), want %d bytes: %d x M + %q", len(b), err, k+len(tail), k, tail)
					return
				}
				if i == 2 {
					p, err := roman.DefaultParser(b, 0)
					if err != nil || uint64(p) != n {
						repL.fail("C02.large.roundtrip", line(), "limit off, numeral of %d bytes -> %d %v, want %d", len(b), uint64(p), err, n)
					}
				}
			})
		}
		repL.merge(c)
	}()

	// ---- long numerals under EVERY flag set (the block above uses the four all-or-nothing sets only): random numbers of
	// 131 to 1500 thousands, and hand-picked thousands counts beyond 2^12 / 2^16 / 2^20 with the tails that have a 4 or a 9
	// in every position. The formatter is judged on the whole numeral under all 128 flag sets; the parser and the validity
	// check (limit off) on every DISTINCT numeral of a number while it stays below about 5 KB (the regexp needs a quarter
	// of a second per mebibyte).
	func() {
		defer ruSetRomanMax(0)()
		var lns []uint64
		for i := 0; i < 200; i++ {
			lns = append(lns, uint64(131+c.R.Intn(1370))*1000+uint64(c.R.Intn(1000)))
		}
		for _, k := range []uint64{257, 4097, 5000, 65536, 70001} {
			for _, t := range []uint64{444, 999, 449, 494, 944, 499, 949, 994} {
				lns = append(lns, k*1000+t)
			}
		}
		lns = append(lns, 1<<20*1000+444, 1<<20*1000+999)
		ruParChunk(c, len(lns), 1, func(i int, rep *ruRep) {
			n := lns[i]
			k := int(n / 1000)
			parsed := map[string]bool{}
			rep.nt++
			for fl := 0; fl < 128; fl++ {
				fl := fl
				line := func() string { return fmt.Sprintf("roman.format %d %d -", n, fl) }
				ruGuard(rep, "C02.large", line, func() {
					rep.evals++
					tail := ruNumeral(n%1000, fl)
					m := "M"
					if fl&64 != 0 {
						m = "m"
					}
					b, err := roman.DefaultFormatter(nil, roman.Number(n), roman.Format(fl))
					if err != nil || len(b) != k+len(tail) || strings.Count(string(b[:k]), m) != k || string(b[k:]) != tail {
						got := string(b)
						if len(got) > 12 {
							got = "…" + got[len(got)-12:]
						}
						rep.fail("C02.large.canonical", line(), "numeral of %d bytes ending in %q (%v), want %d bytes: %d x %s + %q", len(b), got, err, k+len(tail), k, m, tail)
						return
					}
					if k > 5000 || parsed[string(b)] {
						return
					}
					parsed[string(b)] = true
					p, e := roman.DefaultParser(b, 0)
					ev := roman.Valid(string(b), 0)
					if e != nil || ev != nil || uint64(p) != n {
						rep.fail("C02.large.roundtrip", line(), "limit off, numeral of %d bytes (%d x %s + %q) -> %d %v / %v, want %d", len(b), k, m, tail, uint64(p), e, ev, n)
					}
				})
			}
		})
	}()

	// ---- the property is stated relative to the parser's input limit: under the limit the package ships with (captured
	// before anything changed it) exactly the numerals that fit it round-trip, the longer ones are refused as too long
	func() {
		defer ruSetRomanMax(shipped.romanML)()
		repS := &ruRep{}
		for _, n := range ruSpecialN {
			for _, fl := range []int{0, 63, 64, 127} {
				want := ruNumeral(n, fl)
				fits := shipped.romanML == 0 || len(want) <= shipped.romanML
				p, err := roman.DefaultParser(want, 0)
				u := roman.Number(987654321)
				eu := u.UnmarshalText([]byte(want))
				ev := roman.Valid(want, 0)
				repS.evals++
				line := fmt.Sprintf("roman.parse %d 0 %s", shipped.romanML, hx([]byte(want)))
				if fits && (err != nil || eu != nil || ev != nil || uint64(p) != n || uint64(u) != n) {
					repS.fail("C02.shipped", line, "under the shipped MaxInputLength %d the numeral of %d (%d bytes) -> %d %v / %d %v / %v", shipped.romanML, n, len(want), uint64(p), err, uint64(u), eu, ev)
				}
				if !fits && (!errors.Is(err, roman.ErrInputTooLong) || !errors.Is(eu, roman.ErrInputTooLong) || !errors.Is(ev, roman.ErrInputTooLong)) {
					repS.fail("C02.shipped.limit", line, "%d bytes over the shipped limit %d: %v / %v / %v", len(want), shipped.romanML, err, eu, ev)
				}
			}
		}
		repS.merge(c)
	}()

	// ---- near misses of numerals through the model (the rejecting side belongs to C10; here only correspondence)
	for _, base := range []string{"MCMXCIV", "mmxxiv", "", "MMMDCCCLXXXVIII"} {
		for _, s := range nearMissTexts(base) {
			c.Op("roman.parse 128 0 " + hx([]byte(s)))
			c.Op("roman.valid 0 0 " + hx([]byte(s)))
		}
	}

	// ---- the limit is the only obstacle: numerals longer than 128 bytes round-trip once the limit allows them
	step := uint64(37)
	if c.Thorough {
		step = 1
	}
	rep := &ruRep{}
	for n := uint64(112000) + c.Seed%step; n <= 130000; n += step {
		for _, fl := range []int{0, 63, 64, 127} {
			want := ruNumeral(n, fl)
			for _, ml := range []int{0, len(want), len(want) - 1} {
				restore := ruSetRomanMax(ml)
				p, err := roman.DefaultParser(want, 0)
				ev := roman.Valid([]byte(want), 0)
				restore()
				rep.evals++
				line := fmt.Sprintf("roman.parse %d 0 %s", ml, hx([]byte(want)))
				if ml == len(want)-1 {
					if !errors.Is(err, roman.ErrInputTooLong) || !errors.Is(ev, roman.ErrInputTooLong) || p != 0 {
						rep.fail("C02.limit.below", line, "%d %v %v", uint64(p), err, ev)
					}
				} else if err != nil || uint64(p) != n || ev != nil {
					rep.fail("C02.limit.lifted", line, "%d %v %v, want %d", uint64(p), err, ev, n)
				}
			}
		}
	}
	rep.merge(c)
}

// ------------------------------------------------------------------------------------------ C10

// ruMutateRoman applies one random edit to a numeral.
func ruMutateRoman(r *Rng, s string) string {
	b := []byte(s)
	letter := func() byte { return ruAlpha[r.Intn(7)] }
	switch op := r.Intn(5); {
	case op == 0 || len(b) == 0:
		p := r.Intn(len(b) + 1)
		b = append(b[:p], append([]byte{letter()}, b[p:]...)...)
	case op == 1:
		p := r.Intn(len(b))
		b = append(b[:p], b[p+1:]...)
	case op == 2:
		b[r.Intn(len(b))] = letter()
	case op == 3 && len(b) >= 2:
		p := r.Intn(len(b) - 1)
		b[p], b[p+1] = b[p+1], b[p]
	default:
		p := r.Intn(len(b))
		b = append(b[:p+1], b[p:]...)
	}
	return string(b)
}

func ruRandCase(r *Rng, s string) string {
	b := []byte(s)
	mode := r.Intn(6)
	for i := range b {
		if mode == 1 || mode >= 2 && r.Bool() {
			b[i] |= 0x20
		}
	}
	return string(b)
}

// ruSetDefaultFormat sets roman.DefaultFormat (an output setting: the parser and the validity check are specified without it).
func ruSetDefaultFormat(f roman.Format) func() {
	old := roman.DefaultFormat
	roman.DefaultFormat = f
	return func() { roman.DefaultFormat = old }
}

// ruCrossFormats: every parser / Valid / UnmarshalText expectation of C10 once more under each output format setting.
func ruCrossFormats(c *Ctx) {
	type tc struct {
		s  string
		v  uint64
		ok bool
	}
	var cases []tc
	for _, n := range []uint64{0, 1, 4, 9, 14, 40, 49, 90, 400, 444, 900, 999, 1994, 2024, 3888, 3999, 4000, 12345} {
		for _, fl := range []int{0, 63, 64, 127, 9, 36 | 64} {
			t := ruNumeral(n, fl)
			cases = append(cases, tc{t, n, true}, tc{ruUpper(t), n, true}, tc{ruLower(t), n, true})
			if len(t) > 1 {
				cases = append(cases, tc{ruUpper(t[:1]) + ruLower(t[1:]), n, true}, tc{ruLower(t[:1]) + ruUpper(t[1:]), n, true})
			}
		}
	}
	for _, bad := range []string{"IIIII", "iiiii", "IC", "ic", "VX", "MCMXCIVX", "abc", "ABC", "I I", "i\n", " I", "IVI", "ivi", "XM", "Z", "z"} {
		cases = append(cases, tc{bad, 0, false})
	}
	// every one of the 128 defined output settings (crossRomanFormats is a table of eight): the numerals of the table in
	// their short and long spelling, upper and lower case, and the malformed texts
	var small []tc
	for _, x := range cases {
		if !x.ok || x.s == ruUpper(x.s) || x.s == ruLower(x.s) {
			small = append(small, x)
		}
	}
	for fi := 0; fi < 128; fi++ {
		func() {
			f := roman.Format(fi)
			defer ruSetDefaultFormat(f)()
			rep := &ruRep{}
			seen := map[string]bool{}
			for _, x := range small {
				if seen[x.s] {
					continue
				}
				seen[x.s] = true
				n0 := len(rep.ex)
				ruCheckRomanRule(rep, x.s, x.v, x.ok, 0)
				ruCheckRomanUnmarshal(rep, x.s, x.v, x.ok)
				for i := n0; i < len(rep.ex); i++ {
					rep.ex[i].Detail += fmt.Sprintf(" [roman.DefaultFormat = %d]", fi)
				}
			}
			rep.merge(c)
		}()
	}
	for _, f := range crossRomanFormats {
		func() {
			defer ruSetDefaultFormat(f)()
			rep := &ruRep{}
			for _, x := range cases {
				n0 := len(rep.ex)
				ruCheckRoman(rep, x.s, x.v, x.ok)
				for i := n0; i < len(rep.ex); i++ {
					rep.ex[i].Detail += fmt.Sprintf(" [roman.DefaultFormat = %d]", int(f))
				}
			}
			rep.nt = int64(len(cases))
			rep.merge(c)
		}()
	}
}

func propC10(c *Ctx) {
	defer ruSetRomanMax(128)()
	// the whole property runs under an output format other than the default (which one: by seed); the table of ruCrossFormats
	// runs under every one of them
	defer ruSetDefaultFormat(crossRomanFormats[1+int(c.Seed%uint64(len(crossRomanFormats)-1))])()
	defer ruCrossFormats(c)
	lang, err := ruBuildLang()
	c.Check("language-table")
	if err != nil {
		c.Fail("C10.oracle", "", "%v", err)
		return
	}
	// oracle self-check: on every member the table value equals the symbol-by-symbol value
	for tail, v := range lang {
		c.Check("")
		if ruEvalSymbols(tail) != v || ruEvalSymbols("MM"+tail) != v+2000 {
			c.Fail("C10.oracle", "", "table value %d of %q differs from symbol evaluation %d", v, tail, ruEvalSymbols(tail))
		}
	}
	c.NT(int64(len(lang)))

	maxLen, maskLen := 6, 4
	if c.Thorough {
		maxLen, maskLen = 8, 5
	}
	off := []int{0}
	pow := 1
	for l := 0; l <= maxLen; l++ {
		off = append(off, off[l]+pow)
		pow *= 7
	}
	total := off[maxLen+1]
	decode := func(i int) []byte {
		l := 0
		for off[l+1] <= i {
			l++
		}
		idx := i - off[l]
		b := make([]byte, l)
		for k := l - 1; k >= 0; k-- {
			b[k] = ruAlpha[idx%7]
			idx /= 7
		}
		return b
	}
	withMask := func(up []byte, mask uint64) string {
		b := append([]byte(nil), up...)
		for k := range b {
			if mask>>uint(k)&1 == 1 {
				b[k] |= 0x20
			}
		}
		return string(b)
	}
	mixMask := func(i, l int) uint64 {
		all := uint64(1)<<uint(l) - 1
		m := ruMix(uint64(i)) & all
		if m == 0 {
			m = 1
		}
		if m == all {
			m = all - 1
		}
		return m
	}

	// ---- correspondence: every string up to a length, then the members and a sample of the longer ones
	opLen := 5
	sample := 13
	if c.Thorough {
		opLen, sample = 6, 101
	}
	nMember := 0
	for i := 0; i < total; i++ {
		up := decode(i)
		_, member := lang.recognise(string(up))
		if member {
			nMember++
		}
		if len(up) > opLen && !member && (i+int(c.Seed))%sample != 0 {
			continue
		}
		var s string
		switch i % 3 {
		case 0:
			s = string(up)
		case 1:
			s = withMask(up, ^uint64(0))
		default:
			if len(up) >= 2 {
				s = withMask(up, mixMask(i, len(up)))
			} else {
				s = string(up)
			}
		}
		c.Op(fmt.Sprintf("roman.parse 128 %d %s", i&1, hx([]byte(s))))
		if member || i%2 == 0 {
			c.Op(fmt.Sprintf("roman.valid 128 %d %s", (i>>1)&1, hx([]byte(s))))
		}
	}
	c.Note("strings over {I,V,X,L,C,D,M} up to length %d: %d, of which %d are numerals", maxLen, total, nMember)
	for _, r := range []int{0, 1} {
		c.Op(fmt.Sprintf("roman.parse 128 %d -", r))
		c.Op(fmt.Sprintf("roman.valid 128 %d -", r))
		c.Op(fmt.Sprintf("roman.parse 0 %d -", r))
	}

	// ---- direct: the whole enumeration in upper, lower and two mixed cases
	ruPar(c, total, func(i int, rep *ruRep) {
		up := decode(i)
		v, ok := lang.recognise(string(up))
		rep.nt++
		ruCheckRoman(rep, string(up), v, ok)
		if len(up) == 0 {
			return
		}
		all := uint64(1)<<uint(len(up)) - 1
		ruCheckRoman(rep, withMask(up, all), v, ok)
		if len(up) >= 2 {
			m := mixMask(i, len(up))
			ruCheckRoman(rep, withMask(up, m), v, ok)
			ruCheckRoman(rep, withMask(up, all&^m), v, ok)
		}
		if len(up) <= maskLen {
			// every case pattern of the short strings
			for m := uint64(1); m < all; m++ {
				s := withMask(up, m)
				rep.evals++
				p, err := roman.DefaultParser(s, 0)
				ev := roman.Valid([]byte(s), 0)
				if (err == nil) != ok || (ev == nil) != ok || ok && uint64(p) != v || !ok && p != 0 {
					rep.fail("C10.case", "roman.parse 128 0 "+hx([]byte(s)), "%q -> %d %v / %v, want %d ok=%v", s, uint64(p), err, ev, v, ok)
				}
			}
		}
	})

	// ---- one foreign byte: every byte value inserted at and substituted for every position
	bases := []string{"", "MCMXCIV", "mmxxiv", "DCCCLXXXVIII", "mDcLxVi", "IIII", "MMMCMXCIX", "cdxliv"}
	rep := &ruRep{}
	nForeign := 0
	for bi, base := range bases {
		for pos := 0; pos <= len(base); pos++ {
			for b := 0; b < 256; b++ {
				ins := base[:pos] + string([]byte{byte(b)}) + base[pos:]
				texts := []string{ins}
				if pos < len(base) {
					texts = append(texts, base[:pos]+string([]byte{byte(b)})+base[pos+1:])
				}
				for ti, s := range texts {
					v, ok := lang.recognise(s)
					if ok && strings.IndexByte(ruAlpha+"ivxlcdm", byte(b)) < 0 {
						rep.fail("C10.oracle", "", "recogniser accepts %q", s)
					}
					rep.nt++
					nForeign++
					ruCheckRoman(rep, s, v, ok)
					if bi < 4 && (c.Thorough || ti == 0 || b%4 == int(c.Seed%4)) {
						c.Op(fmt.Sprintf("roman.parse 128 %d %s", b&1, hx([]byte(s))))
						if b%3 == 0 {
							c.Op(fmt.Sprintf("roman.valid 128 %d %s", (b>>1)&1, hx([]byte(s))))
						}
					}
				}
			}
		}
	}
	// letters that case-fold or look like roman symbols outside ASCII are foreign as well
	for _, r := range []string{"ſ", "K", "İ", "ı", "Ⅰ", "Ⅴ", "Ⅿ", "ⅿ", "Ｍ", "ｉ", "Ⅽ", "ⅰ", "Í", "Ι"} {
		for _, base := range []string{"", "MCMXCIV", "xiv"} {
			for pos := 0; pos <= len(base); pos++ {
				s := base[:pos] + r + base[pos:]
				v, ok := lang.recognise(s)
				if ok {
					rep.fail("C10.oracle", "", "recogniser accepts %q", s)
				}
				rep.nt++
				ruCheckRoman(rep, s, v, ok)
				c.Op("roman.parse 128 0 " + hx([]byte(s)))
				c.Op("roman.valid 128 0 " + hx([]byte(s)))
			}
		}
	}
	// near misses a lenient parser would forgive — a line terminator, a CRLF, blanks, NUL, a BOM, a doubled end letter glued
	// to a numeral (two or more foreign bytes, which the one-byte sweep above cannot build), and one letter replaced by
	// a multi-byte look-alike (full-width, Cyrillic, Greek, Roman-numeral code points, dotless / dotted i)
	nNear := 0
	for _, base := range bases {
		for _, s := range nearMissTexts(base) {
			v, ok := lang.recognise(s)
			rep.nt++
			nNear++
			ruCheckRoman(rep, s, v, ok)
			c.Op("roman.parse 128 0 " + hx([]byte(s)))
			c.Op("roman.valid 128 1 " + hx([]byte(s)))
			c.Op("roman.parse 0 1 " + hx([]byte(s)))
		}
	}
	// the rule is a set of flags: the empty text is refused exactly when the RuleDisableEmptyAsZero bit is set
	for _, s := range []string{"", "MCMXCIV", "mmxxiv", "IIII", "IM", "MCMXCIV\n", " ", "i"} {
		v, ok := lang.recognise(s)
		for _, rule := range extValues(2) {
			ruCheckRomanRule(rep, s, v, ok, rule)
			c.Op(fmt.Sprintf("roman.parse 128 %d %s", rule, hx([]byte(s))))
			c.Op(fmt.Sprintf("roman.valid 128 %d %s", rule, hx([]byte(s))))
		}
	}
	rep.merge(c)
	c.Note("foreign-byte texts: %d, near-miss texts: %d", nForeign, nNear)

	// ---- longer texts: numerals built from the group table, then edited and re-cased
	var tails []string
	for t := range lang {
		tails = append(tails, t)
	}
	sort.Strings(tails)
	nLong, nLongOps := 40000, 6000
	if c.Thorough {
		nLong, nLongOps = 600000, 60000
	}
	long := make([]string, 0, nLong)
	for i := 0; i < nLong; i++ {
		k := c.R.Intn(12)
		if c.R.Intn(6) == 0 {
			k = c.R.Intn(125)
		}
		s := strings.Repeat("M", k) + tails[c.R.Intn(len(tails))]
		if c.R.Intn(2) == 0 {
			s = ruMutateRoman(c.R, s)
			if c.R.Intn(4) == 0 {
				s = ruMutateRoman(c.R, s)
			}
		}
		if len(s) > 128 {
			s = s[:128]
		}
		s = ruRandCase(c.R, s)
		long = append(long, s)
		if i < nLongOps {
			c.Op(fmt.Sprintf("roman.parse 128 %d %s", i&1, hx([]byte(s))))
			if i%4 == 0 {
				c.Op(fmt.Sprintf("roman.valid 128 %d %s", i&1, hx([]byte(s))))
			}
		}
	}
	var accepted int64
	ruPar(c, len(long), func(i int, rep *ruRep) {
		v, ok := lang.recognise(long[i])
		if ok {
			atomic.AddInt64(&accepted, 1)
			if ruEvalSymbols(long[i]) != v {
				rep.fail("C10.oracle", "", "%q: table %d, symbols %d", long[i], v, ruEvalSymbols(long[i]))
			}
		}
		ruCheckRoman(rep, long[i], v, ok)
	})
	distinctLong := map[string]struct{}{}
	for _, s := range long {
		distinctLong[s] = struct{}{}
	}
	c.NT(int64(len(distinctLong)))
	c.Note("structured long texts: %d (%d distinct), of which %d are numerals", len(long), len(distinctLong), accepted)

	// ---- the input limit: longer texts are rejected as too long whatever they contain
	rep = &ruRep{}
	for _, ml := range []int{0, 1, 5, 127, 128, 129, 200} {
		for _, l := range []int{1, 2, 5, 6, 127, 128, 129, 130, 200, 201, 300} {
			for _, s := range []string{strings.Repeat("M", l), strings.Repeat("m", l-1) + "I", strings.Repeat("M", l-1) + "?"} {
				restore := ruSetRomanMax(ml)
				p, err := roman.DefaultParser(s, 0)
				ev := roman.Valid([]byte(s), 0)
				restore()
				rep.evals++
				line := fmt.Sprintf("roman.parse %d 0 %s", ml, hx([]byte(s)))
				v, ok := lang.recognise(s)
				tooLong := ml != 0 && l > ml
				switch {
				case tooLong:
					if !errors.Is(err, roman.ErrInputTooLong) || !errors.Is(ev, roman.ErrInputTooLong) || p != 0 {
						rep.fail("C10.limit", line, "%d %v %v", uint64(p), err, ev)
					}
				case (err == nil) != ok || (ev == nil) != ok || ok && uint64(p) != v || !ok && p != 0:
					rep.fail("C10.limit.lang", line, "%d %v %v, want %d ok=%v", uint64(p), err, ev, v, ok)
				case err != nil && (errors.Is(err, roman.ErrInputTooLong) || !ruRomanTyped[string](err)):
					rep.fail("C10.limit.class", line, "%v", err)
				}
				c.Op(line)
				c.Op(fmt.Sprintf("roman.valid %d 1 %s", ml, hx([]byte(s))))
			}
		}
	}
	rep.merge(c)
	// ---- "any number of M": thousands counts around 2^16 and up to 2^20 with the limit off, tails of every style, through
	// C10's own oracle (a count kept in 16 bits, or capped, loses them). 2^32 thousands would be a text of 4 GiB.
	func() {
		defer ruSetRomanMax(0)()
		repM := &ruRep{}
		for ki, k := range []int{65535, 65536, 65537, 70000, 131072} {
			for ti, tail := range []string{"CDXLIV", "dccclxxxviii", "IIIII"} {
				ms := strings.Repeat("M", k)
				if (ki+ti)%2 == 1 {
					ms = strings.Repeat("m", k)
				}
				s := ms + tail
				v, ok := lang.recognise(s)
				if ok && v != uint64(k)*1000+ruEvalSymbols(ruUpper(tail)) {
					repM.fail("C10.oracle", "", "recogniser value %d for %d x M + %q", v, k, tail)
				}
				repM.nt++
				if (k == 65536 || k == 65537) && ti == ki%2 {
					ruCheckRoman(repM, s, v, ok) // every entry point, both rules
					continue
				}
				// the regexp needs some 20 ms per call on these texts: the parser and the validity check once each
				repM.evals++
				p, err := roman.DefaultParser(s, 0)
				ev := roman.Valid([]byte(s), 0)
				if (err == nil) != ok || (ev == nil) != ok || ok && uint64(p) != v || !ok && p != 0 {
					repM.fail("C10.value", "roman.parse 0 0 "+hx([]byte(s)), "%d x %s + %q: %d %v / %v, want %d ok=%v", k, ms[:1], tail, uint64(p), err, ev, v, ok)
				}
			}
		}
		big := strings.Repeat("M", 1<<20) + "mcdxliv"
		p, err := roman.DefaultParser(big, 0)
		repM.evals++
		if want := uint64(1<<20+1)*1000 + 444; err != nil || uint64(p) != want {
			repM.fail("C10.value", fmt.Sprintf("roman.parse 0 0 <%d x M + mcdxliv>", 1<<20), "%d %v, want %d", uint64(p), err, want)
		}
		repM.merge(c)
	}()
	// ---- texts longer than the default limit with EVERY tail of the language (the block above has three tails): with
	// the limit off, each of the 1728 tails behind 129 to 528 thousands, re-cased, one in four edited, through every entry
	// point and both rules; and thousands counts of 1000, 2^12+1, 10,000 and 66,000 with twelve tails that between them
	// show every form of every group (parser and validity check, string and []byte, default rule).
	func() {
		defer ruSetRomanMax(0)()
		texts := make([]string, 0, len(tails))
		for _, t := range tails {
			s := strings.Repeat("M", 129+c.R.Intn(400)) + t
			if c.R.Intn(4) == 0 {
				s = ruMutateRoman(c.R, s)
			}
			texts = append(texts, ruRandCase(c.R, s))
		}
		for i := 0; i < 40; i++ {
			c.Op("roman.parse 0 0 " + hx([]byte(texts[(i*43+int(c.Seed))%len(texts)])))
		}
		ruParChunk(c, len(texts), 16, func(i int, rep *ruRep) {
			v, ok := lang.recognise(texts[i])
			rep.nt++
			ruCheckRoman(rep, texts[i], v, ok)
		})
		forms := func(one, five, ten byte) []string {
			var fs []string
			for f := range ruGroupForms(one, five, ten, 1) {
				fs = append(fs, f)
			}
			sort.Strings(fs)
			return fs
		}
		hs, ts, us := forms('C', 'D', 'M'), forms('X', 'L', 'C'), forms('I', 'V', 'X')
		var big []string
		for _, k := range []int{1000, 4097, 10000, 66000} {
			for i := 0; i < 12; i++ {
				s := strings.Repeat("M", k) + hs[i] + ts[(i+5)%12] + us[(i+7)%12]
				switch i % 3 {
				case 1:
					s = ruLower(s)
				case 2:
					s = ruRandCase(c.R, s)
				}
				big = append(big, s)
			}
		}
		ruParChunk(c, len(big), 1, func(i int, rep *ruRep) {
			v, ok := lang.recognise(big[i])
			if !ok {
				rep.fail("C10.oracle", "", "recogniser rejects a numeral of %d bytes", len(big[i]))
			}
			rep.nt++
			ruCheckRomanRule(rep, big[i], v, ok, 0)
		})
	}()
}

// ------------------------------------------------------------------------------ uu oracles

const uuoHex = "0123456789abcdef"

// uuoFormat is the canonical text of the 128-bit number hi·2^64 + lo, via math/big.
func uuoFormat(hi, lo uint64) string {
	v := new(big.Int).SetUint64(hi)
	v.Lsh(v, 64)
	v.Add(v, new(big.Int).SetUint64(lo))
	h := v.Text(16)
	h = strings.Repeat("0", 32-len(h)) + h
	return h[0:8] + "-" + h[8:12] + "-" + h[12:16] + "-" + h[16:20] + "-" + h[20:32]
}

// uuoFormatBits is a second formatter: bit i (0 = most significant of 128) by bit.
func uuoFormatBits(hi, lo uint64) string {
	out := make([]byte, 0, 36)
	for k := 0; k < 32; k++ {
		nib := 0
		for j := 0; j < 4; j++ {
			i := 4*k + j
			w := hi
			if i >= 64 {
				w = lo
			}
			nib = nib<<1 | int(w>>uint(63-i%64)&1)
		}
		out = append(out, uuoHex[nib])
		if k == 7 || k == 11 || k == 15 || k == 19 {
			out = append(out, '-')
		}
	}
	return string(out)
}

// uuoUpper upper-cases hex digits and the letters urn of a prefix, nothing else.
func uuoUpper(s string) string {
	b := []byte(s)
	start := 0
	if strings.HasPrefix(s, "urn:uuid:") {
		b[0], b[1], b[2] = 'U', 'R', 'N'
		start = 9
	}
	for i := start; i < len(b); i++ {
		if b[i] >= 'a' && b[i] <= 'f' {
			b[i] -= 32
		}
	}
	return string(b)
}

// uuoParse is the strict recogniser: 36 bytes 8-4-4-4-12, or 45 bytes with urn (either case)
// followed by exactly ":uuid:"; digits accumulate most significant first.
func uuoParse(s string, disableURN, disableUpper bool) (hi, lo uint64, ok bool) {
	body := s
	switch len(s) {
	case 36:
	case 45:
		if disableURN {
			return 0, 0, false
		}
		if (s[0] != 'u' && s[0] != 'U') || (s[1] != 'r' && s[1] != 'R') || (s[2] != 'n' && s[2] != 'N') || s[3:9] != ":uuid:" {
			return 0, 0, false
		}
		body = s[9:]
	default:
		return 0, 0, false
	}
	parts := strings.Split(body, "-")
	if len(parts) != 5 {
		return 0, 0, false
	}
	for i, w := range []int{8, 4, 4, 4, 12} {
		if len(parts[i]) != w {
			return 0, 0, false
		}
	}
	digits := strings.Join(parts, "")
	for k := 0; k < 32; k++ {
		ch := digits[k]
		var v uint64
		switch {
		case ch >= '0' && ch <= '9':
			v = uint64(ch - '0')
		case ch >= 'a' && ch <= 'f':
			v = uint64(ch-'a') + 10
		case ch >= 'A' && ch <= 'F' && !disableUpper:
			v = uint64(ch-'A') + 10
		default:
			return 0, 0, false
		}
		if k < 16 {
			hi = hi<<4 | v
		} else {
			lo = lo<<4 | v
		}
	}
	return hi, lo, true
}

func uuoTyped[T string | []byte](err error) bool {
	if _, ok := err.(*uu.ParseError[T]); ok {
		return true
	}
	typed, _ := uuPE(err)
	return typed
}

// uuoCheck evaluates the parser on one text under one limit and rule, for both input types (and
// UnmarshalText under rule 0), against the strict recogniser.
func uuoCheck(c *Ctx, s string, maxlen, rule int) {
	line := fmt.Sprintf("uu.parse %d %d %s", maxlen, rule, hx([]byte(s)))
	defer func() {
		if r := recover(); r != nil {
			c.Fail("C05.panic", line, "panic: %v", r)
		}
	}()
	uu.MaxInputLength = maxlen
	c.Check("")
	tooLong := maxlen != 0 && len(s) > maxlen
	whi, wlo, wok := uuoParse(s, rule&1 != 0, rule&2 != 0)
	if tooLong {
		wok = false
	}
	g1, e1 := uu.DefaultParser(s, uu.Rule(rule))
	g2, e2 := uu.DefaultParser([]byte(s), uu.Rule(rule))
	type res struct {
		id   uu.ID
		err  error
		what string
	}
	rs := []res{{g1, e1, "string"}, {g2, e2, "[]byte"}}
	const sh, sl = 0x1111222233334444, 0x5555666677778888
	if rule == 0 {
		u := uu.ID{Higher: sh, Lower: sl}
		eu := u.UnmarshalText([]byte(s))
		if eu != nil {
			if u != (uu.ID{Higher: sh, Lower: sl}) {
				c.Fail("C05.unmarshal.recv", line, "receiver changed to %v on error", u)
			}
			u = uu.ID{}
		}
		rs = append(rs, res{u, eu, "UnmarshalText"})
	}
	for _, r := range rs {
		switch {
		case (r.err == nil) != wok:
			if wok {
				c.Fail("C05.reject", line, "%q (%s) rejected: %v", s, r.what, r.err)
			} else {
				c.Fail("C05.accept", line, "%q (%s) accepted as %v", s, r.what, r.id)
			}
		case wok && (r.id.Higher != whi || r.id.Lower != wlo):
			c.Fail("C05.value", line, "%q (%s) -> %016x %016x, want %016x %016x", s, r.what, r.id.Higher, r.id.Lower, whi, wlo)
		}
		if r.err != nil {
			if r.id != (uu.ID{}) {
				c.Fail("C05.zero", line, "%v next to error", r.id)
			}
			if tooLong && !errors.Is(r.err, uu.ErrInputTooLong) {
				c.Fail("C05.toolong", line, "%v", r.err)
			}
			if !tooLong && errors.Is(r.err, uu.ErrInputTooLong) {
				c.Fail("C05.toolong.spurious", line, "%v", r.err)
			}
		}
	}
	if e1 != nil && !uuoTyped[string](e1) || e2 != nil && !uuoTyped[[]byte](e2) {
		c.Fail("C05.typed", line, "%T %T", e1, e2)
	}
	if len(rs) == 3 && rs[2].err != nil {
		if typed, _ := uuPE(rs[2].err); !typed {
			c.Fail("C05.typed", line, "UnmarshalText: %T", rs[2].err)
		}
	}
}

// uuoTexts are the accepted spellings of one canonical text.
func uuoTexts(want string) []string {
	up := uuoUpper(want)
	mixed := []byte(want)
	for i := range mixed {
		if i%2 == 0 && mixed[i] >= 'a' && mixed[i] <= 'f' {
			mixed[i] -= 32
		}
	}
	return []string{want, up, "urn:uuid:" + want, "URN:uuid:" + up, "uRn:uuid:" + string(mixed), "urN:uuid:" + up}
}

// uuoCheckID evaluates format, accessors and round trip for one ID.
func uuoCheckID(c *Ctx, hi, lo uint64, rules []int) {
	id := uu.ID{Higher: hi, Lower: lo}
	want := uuoFormat(hi, lo)
	fl := fmt.Sprintf("uu.format %d %d 0 -", hi, lo)
	uu.MaxInputLength = 45
	c.Check("")
	if want != uuoFormatBits(hi, lo) || len(want) != 36 {
		c.Fail("C05.oracle", fl, "own formatters disagree: %s %s", want, uuoFormatBits(hi, lo))
	}
	b0, e0 := uu.DefaultFormatter(nil, id, 0)
	b1, e1 := uu.DefaultFormatter(nil, id, uu.FormatURN)
	mt, e2 := id.MarshalText()
	if e0 != nil || e1 != nil || e2 != nil || string(b0) != want || string(b1) != "urn:uuid:"+want || string(mt) != want {
		c.Fail("C05.format", fl, "%q %q %q, want %q", b0, b1, mt, want)
	}
	if s := fmt.Sprintf("%s|%u|%v", id, id, id); s != want+"|urn:uuid:"+want+"|"+want || id.String() != want || id.URN() != "urn:uuid:"+want {
		c.Fail("C05.format.paths", fmt.Sprintf("uu.fields %d %d", hi, lo), "%q %q %q", s, id.String(), id.URN())
	}
	// accessors against the text: version = 13th hex digit, variant = leading one-bits of the 17th (at most 3)
	wv := strings.IndexByte(uuoHex, want[14])
	nib := strings.IndexByte(uuoHex, want[19])
	wvar := 0
	switch {
	case nib < 8:
		wvar = 0
	case nib < 12:
		wvar = 1
	case nib < 14:
		wvar = 2
	default:
		wvar = 3
	}
	if id.Version() != wv || id.Variant() != wvar {
		c.Fail("C05.fields", fmt.Sprintf("uu.fields %d %d", hi, lo), "%s: version %d variant %d, want %d %d", want, id.Version(), id.Variant(), wv, wvar)
	}
	for _, txt := range uuoTexts(want) {
		if phi, plo, ok := uuoParse(txt, false, false); !ok || phi != hi || plo != lo {
			c.Fail("C05.oracle", "", "own parser on %q: %x %x %v", txt, phi, plo, ok)
		}
		for _, r := range rules {
			uuoCheck(c, txt, 45, r)
		}
		// the round trip itself, whatever the recogniser says
		got, err := uu.DefaultParser(txt, 0)
		if err != nil || got != id {
			c.Fail("C05.roundtrip", "uu.parse 45 0 "+hx([]byte(txt)), "%q -> %v %v", txt, got, err)
		}
		if len(txt) == 45 {
			_, err := uu.DefaultParser([]byte(txt), uu.RuleDisableURN)
			if !errors.Is(err, uu.ErrURNFormatDisabled) {
				c.Fail("C05.urnDisabled", "uu.parse 45 1 "+hx([]byte(txt)), "%v", err)
			}
		}
	}
}

func propC05(c *Ctx) {
	oldMax := uu.MaxInputLength
	defer func() { uu.MaxInputLength = oldMax }()
	c.Check("constants")
	if uu.RuleDisableURN != 1 || uu.RuleDisableUpperCaseDigits != 2 || uu.FormatURN != 1 || uu.IDLength != 36 || uu.URNPrefix != "urn:uuid:" {
		c.Fail("C05.constants", "", "rule/format constants differ from the documented values")
	}
	allRules := []int{0, 1, 2, 3}
	rnd := func() [2]uint64 { return [2]uint64{c.R.Next(), c.R.Next()} }
	bgs := [][2]uint64{{0, 0}, {^uint64(0), ^uint64(0)}, {0x0123456789abcdef, 0xfedcba9876543210}, {0xa5a5a5a55a5a5a5a, 0x5a5a5a5aa5a5a5a5}}
	nBg := 4
	if c.Thorough {
		nBg = 28
	}
	for i := 0; i < nBg; i++ {
		bgs = append(bgs, rnd())
	}
	emitID := func(hi, lo uint64, rule int) {
		out := c.Op(fmt.Sprintf("uu.format %d %d 0 -", hi, lo))
		c.Op(fmt.Sprintf("uu.parse 45 %d %s", rule, out))
		out = c.Op(fmt.Sprintf("uu.format %d %d 1 -", hi, lo))
		c.Op(fmt.Sprintf("uu.parse 45 %d %s", rule, out))
		c.Op(fmt.Sprintf("uu.fields %d %d", hi, lo))
	}

	// ---- every bit position over every background
	for bi, bg := range bgs {
		for bit := 0; bit < 128; bit++ {
			hi, lo := bg[0], bg[1]
			if bit < 64 {
				hi ^= 1 << uint(63-bit)
			} else {
				lo ^= 1 << uint(127-bit)
			}
			uuoCheckID(c, hi, lo, allRules)
			if bi < 6 {
				emitID(hi, lo, (bit+bi)&3)
			}
		}
		uuoCheckID(c, bg[0], bg[1], allRules)
		emitID(bg[0], bg[1], 0)
	}
	c.NT(int64(len(bgs)) * 129)

	// ---- every hex position x digit value x case over every background, plain and URN, all rules
	for bi, bg := range bgs {
		base := uuoFormat(bg[0], bg[1])
		for k := 0; k < 32; k++ {
			idx := k
			for _, h := range []int{8, 12, 16, 20} {
				if k >= h {
					idx++
				}
			}
			for d := 0; d < 16; d++ {
				ehi, elo := bg[0], bg[1]
				if k < 16 {
					sh := uint(60 - 4*k)
					ehi = ehi&^(0xf<<sh) | uint64(d)<<sh
				} else {
					sh := uint(60 - 4*(k-16))
					elo = elo&^(0xf<<sh) | uint64(d)<<sh
				}
				for cs := 0; cs < 4; cs++ { // 0 lower digit in lower text, 1 upper in lower, 2 lower in upper, 3 upper in upper
					t := []byte(base)
					if cs >= 2 {
						t = []byte(uuoUpper(base))
					}
					t[idx] = uuoHex[d]
					if cs&1 == 1 && d >= 10 {
						t[idx] -= 32
					}
					for _, pre := range []string{"", "urn:uuid:", "URN:uuid:"} {
						s := pre + string(t)
						phi, plo, pok := uuoParse(s, false, false)
						if !pok || phi != ehi || plo != elo {
							c.Fail("C05.oracle", "", "own parser on %q: %x %x %v, want %x %x", s, phi, plo, pok, ehi, elo)
						}
						for _, r := range allRules {
							uuoCheck(c, s, 45, r)
						}
						if bi < 3 && (pre == "" || (k+d)%4 == 0) && cs != 2 {
							c.Op(fmt.Sprintf("uu.parse 45 %d %s", (k+d+cs)&3, hx([]byte(s))))
						}
					}
				}
			}
		}
	}
	c.NT(int64(len(bgs)) * 32 * 16 * 4 * 3)

	// ---- random IDs
	nRand, nRandOps := 40000, 5000
	if c.Thorough {
		nRand, nRandOps = 400000, 50000
	}
	for i := 0; i < nRand; i++ {
		p := rnd()
		switch i % 8 {
		case 1:
			p[0] = p[0]&^0xf000 | uint64(i>>3&15)<<12 // every version
		case 2:
			p[1] = p[1]&^(7<<61) | uint64(i>>3&7)<<61 // every variant pattern
		case 3:
			p[0] &= c.R.Next() & c.R.Next() // sparse
			p[1] &= c.R.Next() & c.R.Next()
		}
		uuoCheckID(c, p[0], p[1], allRules[i&3:i&3+1])
		if i < nRandOps {
			emitID(p[0], p[1], c.R.Intn(4))
			c.Op(fmt.Sprintf("uu.parse 45 %d %s", c.R.Intn(4), hx([]byte(uuoTexts(uuoFormat(p[0], p[1]))[1+c.R.Intn(5)]))))
		}
	}
	c.NT(int64(nRand))

	// ---- mutations of valid texts: substitution by every byte value, deletion, insertion of every byte value
	var texts []string
	p1, p2, p3 := rnd(), rnd(), rnd()
	texts = append(texts, uuoFormat(0x0123456789abcdef, 0xfedcba9876543210), "URN:uuid:"+uuoUpper(uuoFormat(p1[0], p1[1])))
	if c.Thorough {
		texts = append(texts, uuoFormat(0, 0), "urn:uuid:"+uuoFormat(^uint64(0), ^uint64(0)), uuoUpper(uuoFormat(p2[0], p2[1])),
			uuoTexts(uuoFormat(p3[0], p3[1]))[4], "urn:uuid:"+uuoFormat(p2[0], p2[1]))
	}
	nMut := 0
	for ti, txt := range texts {
		for pos := 0; pos < len(txt); pos++ {
			for b := 0; b < 256; b++ {
				s := txt[:pos] + string([]byte{byte(b)}) + txt[pos+1:]
				for _, r := range allRules {
					uuoCheck(c, s, 45, r)
				}
				for _, ml := range []int{0, 36, 44} {
					uuoCheck(c, s, ml, 0)
				}
				nMut++
				interesting := b == '-' || b == ':' || (b >= '/' && b <= ':') || (b|0x20 >= 'a'-1 && b|0x20 <= 'g') || b == 0 || b == 0xff
				if c.Thorough || (ti < 2 && interesting) {
					for _, r := range allRules {
						c.Op(fmt.Sprintf("uu.parse 45 %d %s", r, hx([]byte(s))))
					}
				} else if ti < 2 {
					c.Op(fmt.Sprintf("uu.parse 45 %d %s", (pos+b)&3, hx([]byte(s))))
				}
			}
			del := txt[:pos] + txt[pos+1:]
			for _, r := range allRules {
				uuoCheck(c, del, 45, r)
				c.Op(fmt.Sprintf("uu.parse 45 %d %s", r, hx([]byte(del))))
			}
			nMut++
		}
		for pos := 0; pos <= len(txt); pos++ {
			for b := 0; b < 256; b++ {
				s := txt[:pos] + string([]byte{byte(b)}) + txt[pos:]
				for _, r := range allRules {
					uuoCheck(c, s, 45, r)
				}
				uuoCheck(c, s, 0, (b>>2)&3)
				uuoCheck(c, s, 46, b&3)
				nMut++
				if b == '-' || b == '0' || b == 'a' || b == 'F' || b == ' ' || b == 0 || b == ':' || (c.Thorough && ti < 3) {
					c.Op(fmt.Sprintf("uu.parse 45 %d %s", pos&3, hx([]byte(s))))
					c.Op(fmt.Sprintf("uu.parse 0 %d %s", (pos+1)&3, hx([]byte(s))))
				}
			}
		}
		// a hyphen moved to every other position, two positions swapped
		for from := 0; from < len(txt); from++ {
			if txt[from] != '-' {
				continue
			}
			for to := 0; to < len(txt); to++ {
				b := []byte(txt[:from] + txt[from+1:])
				s := string(b[:to]) + "-" + string(b[to:])
				for _, r := range []int{0, 3} {
					uuoCheck(c, s, 45, r)
				}
				c.Op(fmt.Sprintf("uu.parse 45 0 %s", hx([]byte(s))))
				nMut++
			}
		}
	}
	c.NT(int64(nMut))
	c.Note("mutated texts: %d from %d valid texts", nMut, len(texts))

	// ---- near misses a lenient parser would forgive: a complete valid text with a line terminator, CRLF, blank, NUL, BOM,
	// a doubled end digit … before or after it (two and more extra bytes included), and one hex digit, hyphen or prefix
	// letter replaced by a multi-byte look-alike
	nmBases := []string{uuoFormat(0x0123456789abcdef, 0xfedcba9876543210), "urn:uuid:" + uuoFormat(p1[0], p1[1]), uuoUpper(uuoFormat(p2[0], p2[1])), "URN:uuid:" + uuoUpper(uuoFormat(p3[0], p3[1]))}
	nNear := 0
	for _, base := range nmBases {
		for _, s := range nearMissTexts(base) {
			for _, r := range allRules {
				for _, ml := range []int{45, 0, 64, len(s)} {
					uuoCheck(c, s, ml, r)
				}
			}
			nNear++
			c.Op(fmt.Sprintf("uu.parse 0 %d %s", nNear&3, hx([]byte(s))))
			c.Op(fmt.Sprintf("uu.parse 64 0 %s", hx([]byte(s))))
		}
	}
	c.NT(int64(nNear))

	// ---- rules and format flags are sets of bits: unknown extra bits (and negative values) change nothing
	for _, s := range []string{nmBases[0], nmBases[1], nmBases[2], nmBases[3], "uRn:uuid:" + nmBases[2], nmBases[0][:35] + "g", nmBases[0] + "\n", ""} {
		for _, r := range extValues(4) {
			uuoCheck(c, s, 45, r)
			c.Op(fmt.Sprintf("uu.parse 45 %d %s", r, hx([]byte(s))))
		}
	}
	for _, bg := range bgs[:4] {
		want := uuoFormat(bg[0], bg[1])
		for _, fl := range extValues(2) {
			line := fmt.Sprintf("uu.format %d %d %d -", bg[0], bg[1], fl)
			c.Op(line)
			w := want
			if fl&1 != 0 {
				w = "urn:uuid:" + want
			}
			b, err := uu.DefaultFormatter(nil, uu.ID{Higher: bg[0], Lower: bg[1]}, uu.Format(fl))
			c.Check(line)
			if err != nil || string(b) != w {
				c.Fail("C05.format.flagbits", line, "flag %d: %q %v, want %q", fl, b, err, w)
			}
		}
	}

	// ---- the property names no setting: both forms parse back under the input limit the package ships with (captured
	// before anything changed it)
	for _, bg := range bgs {
		id := uu.ID{Higher: bg[0], Lower: bg[1]}
		for _, txt := range uuoTexts(uuoFormat(bg[0], bg[1])) {
			uu.MaxInputLength = shipped.uuML
			line := fmt.Sprintf("uu.parse %d 0 %s", shipped.uuML, hx([]byte(txt)))
			g1, e1 := uu.DefaultParser(txt, 0)
			g2, e2 := uu.DefaultParser([]byte(txt), 0)
			u := uu.ID{Higher: 0x1111222233334444, Lower: 0x5555666677778888} // non-zero receiver (the zero ID is one of the backgrounds)
			eu := u.UnmarshalText([]byte(txt))
			c.Check(line)
			if e1 != nil || e2 != nil || eu != nil || g1 != id || g2 != id || u != id {
				c.Fail("C05.shipped", line, "under the shipped MaxInputLength %d: %q -> %v %v / %v %v / %v %v", shipped.uuML, txt, g1, e1, g2, e2, u, eu)
			}
		}
	}

	// ---- prefixes, lengths and limits
	body := uuoFormat(p1[0], p1[1])
	for _, pre := range []string{"urn:uuid:", "URN:uuid:", "URN:UUID:", "urn:UUID:", "urn:Uuid:", "Urn:uuid:", "uRN:uuid:", "urn;uuid:", "urn:uuid;", "uuid:urn:",
		"urn:uuid-", "         ", "\x00\x00\x00\x00\x00\x00\x00\x00\x00", "urn:uuid", "urn:uuid::", "rn:uuid:", "", "{", "urn:guid:", "urn:uuid:", "µrn:uuid:"} {
		for _, bd := range []string{body, uuoUpper(body)} {
			s := pre + bd
			for _, r := range allRules {
				for _, ml := range []int{45, 0, 36, 44, 46} {
					uuoCheck(c, s, ml, r)
					c.Op(fmt.Sprintf("uu.parse %d %d %s", ml, r, hx([]byte(s))))
				}
			}
		}
	}
	full := "urn:uuid:" + body + "-0123456789"
	for l := 0; l <= len(full); l++ {
		for _, s := range []string{full[:l], full[len(full)-l:]} {
			for _, r := range allRules {
				for _, ml := range []int{45, 0, l, l - 1} {
					if ml < 0 {
						continue
					}
					uuoCheck(c, s, ml, r)
					if r == 0 || r == 3 {
						c.Op(fmt.Sprintf("uu.parse %d %d %s", ml, r, hx([]byte(s))))
					}
				}
			}
		}
	}
	// braces, missing hyphens, other layouts of the same digits
	compact := strings.ReplaceAll(body, "-", "")
	for _, s := range []string{compact, "{" + body + "}", compact + "----", "----" + compact, compact[:8] + "-" + compact[8:12] + "-" + compact[12:16] + "-" + compact[16:20] + compact[20:] + "-",
		strings.ReplaceAll(body, "-", "_"), strings.ReplaceAll(body, "-", " "), strings.ReplaceAll(body, "-", "‐")[:36], body[:35] + "\n", " " + body[:35], body[:35] + "g", body[:35] + "G", "0x" + body[2:], "+" + body[1:]} {
		for _, r := range allRules {
			uuoCheck(c, s, 45, r)
			uuoCheck(c, s, 0, r)
			c.Op(fmt.Sprintf("uu.parse 45 %d %s", r, hx([]byte(s))))
		}
	}
}

// ------------------------------------------------------------------------------------------ C19

// c19Expect is the ID that the two 63-bit draws a, b stand for: the 48 high bits of a, the version
// nibble 0100, the 12 low bits of a; the variant bits 10 and the 62 high bits of b.
func c19Expect(a, b uint64) (hi, lo uint64) {
	for i := 0; i < 48; i++ {
		if a>>uint(15+i)&1 == 1 {
			hi |= 1 << uint(16+i)
		}
	}
	hi |= 4 << 12
	for i := 0; i < 12; i++ {
		if a>>uint(i)&1 == 1 {
			hi |= 1 << uint(i)
		}
	}
	lo = 1 << 63
	for i := 0; i < 62; i++ {
		if b>>uint(1+i)&1 == 1 {
			lo |= 1 << uint(i)
		}
	}
	return hi, lo
}

const (
	c19FreeHi = ^uint64(0xf000)
	c19FreeLo = ^uint64(3 << 62)
)

func c19Draw(seed, k uint64) uint64 { return ruMix(seed^ruMix(k)) >> 1 }

// c19Counting is a source whose k-th draw is a pure function of k; the counter is atomic so that
// a generator that forgot its lock still yields a well-defined (and wrong) result.
type c19Counting struct {
	n     int64
	seed  uint64
	yield bool
}

func (s *c19Counting) Int63() int64 {
	k := atomic.AddInt64(&s.n, 1) - 1
	if s.yield {
		runtime.Gosched()
	}
	return int64(c19Draw(s.seed, uint64(k)))
}
func (s *c19Counting) Seed(int64) {}

var _ rand.Source = (*c19Counting)(nil)

var (
	c19PanicMu sync.Mutex
	c19Panics  []string
)

// c19Run draws total IDs from g goroutines that start together.
func c19Run(g, total int) []uu.ID {
	out := make([]uu.ID, total)
	start := make(chan struct{})
	var wg sync.WaitGroup
	for w := 0; w < g; w++ {
		lo, hi := total*w/g, total*(w+1)/g
		wg.Add(1)
		go func(part []uu.ID) {
			defer wg.Done()
			// a generator corrupted by unsynchronised use may panic inside math/rand: record it as a
			// finding instead of letting it kill the harness
			defer func() {
				if r := recover(); r != nil {
					c19PanicMu.Lock()
					c19Panics = append(c19Panics, fmt.Sprint(r))
					c19PanicMu.Unlock()
				}
			}()
			<-start
			for i := range part {
				part[i] = uu.RandomID()
			}
		}(out[lo:hi])
	}
	close(start)
	wg.Wait()
	return out
}

func c19Sort(ids []uu.ID) {
	sort.Slice(ids, func(i, j int) bool {
		if ids[i].Higher != ids[j].Higher {
			return ids[i].Higher < ids[j].Higher
		}
		return ids[i].Lower < ids[j].Lower
	})
}

func propC19(c *Ctx) {
	defer func() {
		c19PanicMu.Lock()
		defer c19PanicMu.Unlock()
		if len(c19Panics) > 0 {
			c.Fail("C19.concurrent.panic", "", "%d goroutines panicked inside RandomID under concurrent use, first: %s", len(c19Panics), c19Panics[0])
		}
	}()
	oldProcs := runtime.GOMAXPROCS(0)
	defer runtime.GOMAXPROCS(oldProcs)

	// ---- correspondence lines, with the draw-to-ID mapping checked on each (needs the `verif` hook: in the build of
	// the library as it ships — no tag — this part and the seeded/counting generators below are skipped, and only the
	// shipped generator is judged; bin/check runs both builds for C19)
	var orHi, orLo, andHi, andLo uint64 = 0, 0, ^uint64(0), ^uint64(0)
	draw := func(a, b uint64) (uint64, uint64) {
		if !hookBuild {
			return 0, 0
		}
		line := fmt.Sprintf("uu.random %d %d", a, b)
		out := c.Op(line)
		var hi, lo uint64
		c.Check(line)
		if n, err := fmt.Sscanf(out, "%d %d", &hi, &lo); n != 2 || err != nil {
			c.Fail("C19.op", line, "%s", out)
			return 0, 0
		}
		ehi, elo := c19Expect(a, b)
		if hi != ehi || lo != elo {
			c.Fail("C19.map", line, "%016x %016x, want %016x %016x", hi, lo, ehi, elo)
		}
		id := uu.ID{Higher: hi, Lower: lo}
		if id.Version() != 4 || id.Variant() != 1 || hi>>12&0xf != 4 || lo>>62 != 2 {
			c.Fail("C19.version", line, "%016x %016x: version %d variant %d", hi, lo, id.Version(), id.Variant())
		}
		orHi, orLo, andHi, andLo = orHi|hi, orLo|lo, andHi&hi, andLo&lo
		return hi, lo
	}
	const all63 = uint64(1)<<63 - 1
	if hookBuild {
		zhi, zlo := draw(0, 0)
		fhi, flo := draw(all63, all63)
		draw(0, all63)
		draw(all63, 0)
		// every single draw bit moves at most one ID bit; together they reach exactly the 122 free bits
		var reachHi, reachLo, reachHi1, reachLo1 uint64
		for i := 0; i < 63; i++ {
			h1, l1 := draw(1<<uint(i), 0)
			h2, l2 := draw(0, 1<<uint(i))
			h3, l3 := draw(all63^1<<uint(i), all63)
			h4, l4 := draw(all63, all63^1<<uint(i))
			draw(1<<uint(i), 1<<uint(i))
			draw(all63^1<<uint(i), all63^1<<uint(i))
			c.Check("")
			if bits.OnesCount64(h1^zhi)+bits.OnesCount64(l1^zlo) > 1 || bits.OnesCount64(h2^zhi)+bits.OnesCount64(l2^zlo) > 1 ||
				bits.OnesCount64(h3^fhi)+bits.OnesCount64(l3^flo) > 1 || bits.OnesCount64(h4^fhi)+bits.OnesCount64(l4^flo) > 1 || l1 != zlo || h2 != zhi || l3 != flo || h4 != fhi {
				c.Fail("C19.bitmove", fmt.Sprintf("uu.random %d 0", uint64(1)<<uint(i)), "draw bit %d moves more than one ID bit", i)
			}
			reachHi |= h1 ^ zhi
			reachLo |= l2 ^ zlo
			reachHi1 |= h3 ^ fhi
			reachLo1 |= l4 ^ flo
		}
		c.Check("free-bits-reachable")
		if reachHi != c19FreeHi || reachLo != c19FreeLo || reachHi1 != c19FreeHi || reachLo1 != c19FreeLo {
			c.Fail("C19.reach", "", "bits reached from single draw bits: %016x %016x / %016x %016x", reachHi, reachLo, reachHi1, reachLo1)
		}
		nRandOps := 20000
		if c.Thorough {
			nRandOps = 300000
		}
		for i := 0; i < nRandOps; i++ {
			a, b := c.R.Next()>>1, c.R.Next()>>1
			switch i % 8 {
			case 1:
				a &= c.R.Next()
				b &= c.R.Next()
			case 2:
				a |= c.R.Next() >> 1
				b |= c.R.Next() >> 1
			}
			draw(a, b)
		}
		c.Check("op-bits")
		if orHi != ^uint64(0xb000) || andHi != 0x4000 || orLo != ^uint64(1<<62) || andLo != 1<<63 {
			c.Fail("C19.opbits", "", "or %016x %016x and %016x %016x", orHi, orLo, andHi, andLo)
		}
	} // hookBuild

	// ---- concurrent generation
	perRun, perCount := 10000, 4000
	if c.Thorough {
		perRun, perCount = 160000, 50000
	}
	gs := []int{1, 2, 3, 4, 8, 16, 32, 64}
	ps := []int{1, 2, 4, runtime.NumCPU()}
	if runtime.NumCPU() <= 4 {
		ps = []int{1, 2, 3, 8}
	}
	// every ID of the generator as shipped goes into ONE set for the whole run ("no duplicate within a run": a generator
	// that replays its stream after some tens of thousands of calls has no duplicate inside any single batch)
	runSeen := make(map[uu.ID]struct{}, 1<<20)
	runDup := 0
	noteRun := func(key string, ids []uu.ID) {
		for _, id := range ids {
			if _, dup := runSeen[id]; dup {
				runDup++
				if runDup <= 3 {
					c.Fail("C19.duplicate.run", "", "%s: %v was already generated earlier in this run (%d IDs so far)", key, id, len(runSeen))
				}
			}
			runSeen[id] = struct{}{}
		}
	}
	examine := func(key string, ids []uu.ID) {
		var oh, ol, ah, al uint64 = 0, 0, ^uint64(0), ^uint64(0)
		seen := make(map[uu.ID]struct{}, len(ids))
		if strings.HasPrefix(key, "shipped") {
			noteRun(key, ids)
		}
		for _, id := range ids {
			if id.Version() != 4 || id.Variant() != 1 || id.Higher>>12&0xf != 4 || id.Lower>>62 != 2 {
				c.Fail("C19.version", "", "%s: %v has version %d variant %d", key, id, id.Version(), id.Variant())
			}
			if _, dup := seen[id]; dup {
				c.Fail("C19.duplicate", "", "%s: %v twice", key, id)
			}
			seen[id] = struct{}{}
			oh, ol, ah, al = oh|id.Higher, ol|id.Lower, ah&id.Higher, al&id.Lower
		}
		c.Evals += int64(len(ids))
		c.NT(int64(len(seen))) // distinct IDs
		if oh != ^uint64(0xb000) || ah != 0x4000 || ol != ^uint64(1<<62) || al != 1<<63 {
			c.Fail("C19.bits", "", "%s: or %016x %016x and %016x %016x", key, oh, ol, ah, al)
		}
	}
	var totalIDs int64
	for _, p := range ps {
		runtime.GOMAXPROCS(p)
		for _, g := range gs {
			// the generator as shipped
			key := fmt.Sprintf("shipped p=%d g=%d", p, g)
			c.Check(key)
			ids := c19Run(g, perRun)
			examine(key, ids)
			totalIDs += int64(len(ids))

			if !hookBuild {
				continue
			}
			// a seeded generator behind the same lock
			key = fmt.Sprintf("seeded p=%d g=%d", p, g)
			c.Check(key)
			restore := setRandomSource(rand.NewSource(int64(c.R.Next() >> 1)))
			ids = c19Run(g, perRun)
			restore()
			examine(key, ids)
			totalIDs += int64(len(ids))

			// a counting source: 2N draws for N calls, and every ID is made of draws 2k and 2k+1
			for _, yield := range []bool{false, true} {
				n := perCount
				if yield {
					n = perCount / 4
				}
				key = fmt.Sprintf("counting p=%d g=%d yield=%v", p, g, yield)
				c.Check(key)
				src := &c19Counting{seed: c.R.Next(), yield: yield}
				restore := setRandomSource(src)
				ids = c19Run(g, n)
				restore()
				totalIDs += int64(len(ids))
				if used := atomic.LoadInt64(&src.n); used != int64(2*n) {
					c.Fail("C19.draws", "", "%s: %d calls consumed %d draws", key, n, used)
				}
				want := make([]uu.ID, n)
				for k := range want {
					h, l := c19Expect(c19Draw(src.seed, uint64(2*k)), c19Draw(src.seed, uint64(2*k+1)))
					want[k] = uu.ID{Higher: h, Lower: l}
				}
				// the same pairs drawn by a single caller, which cannot interleave with anybody
				if g == 1 || g == 64 {
					serial := &c19Counting{seed: src.seed}
					restore := setRandomSource(serial)
					for k := range want {
						if id := uu.RandomID(); id != want[k] {
							c.Fail("C19.map", fmt.Sprintf("uu.random %d %d", c19Draw(src.seed, uint64(2*k)), c19Draw(src.seed, uint64(2*k+1))), "%v, want %v", id, want[k])
						}
					}
					restore()
				}
				examine(key, ids)
				c19Sort(ids)
				c19Sort(want)
				bad := 0
				for k := range want {
					if ids[k] != want[k] {
						bad++
					}
				}
				if bad != 0 {
					c.Fail("C19.interleaved", "", "%s: %d of %d IDs are not made of a consecutive draw pair", key, bad, n)
				}
			}
		}
	}
	runtime.GOMAXPROCS(oldProcs)
	// a long sequential stretch of the shipped generator (one goroutine, then four), into the same set
	nSeq := 300000
	if c.Thorough {
		nSeq = 1500000
	}
	c.Check("shipped sequential")
	seq := c19Run(1, nSeq)
	examine("shipped sequential", seq)
	seq = c19Run(4, nSeq/4)
	examine("shipped sequential g=4", seq)
	totalIDs += int64(nSeq + nSeq/4)
	if runDup > 0 {
		c.Fail("C19.duplicate.run.count", "", "%d duplicates among the %d IDs the shipped generator produced in this run", runDup, len(runSeen)+runDup)
	}
	c.Note("shipped generator: %d distinct IDs in one set over the whole run", len(runSeen))
	c.Note("concurrent runs: %d GOMAXPROCS values x %d goroutine counts x 4 generators, %d IDs in total", len(ps), len(gs), totalIDs)
}
