import UtilModel.Model.Date
import UtilModel.Model.Roman
import UtilModel.Model.Sem
import UtilModel.Model.Size
import UtilModel.Model.UU
import UtilModel.Model.Hist
import UtilModel.Model.TestKit
import UtilModel.Model.Extra
/-!
# Line-protocol driver: one operation per input line, one result line per operation.
Byte strings are lower-case hex, `-` for the empty string. See DESIGN.md Appendix A.
-/
open U

def hexNib (c : Char) : Option Nat :=
  if '0' ≤ c ∧ c ≤ '9' then some (c.toNat - 48)
  else if 'a' ≤ c ∧ c ≤ 'f' then some (c.toNat - 87)
  else none

def unhexL : List Char → Option Bytes
  | [] => some []
  | a :: b :: t => do
    let x ← hexNib a
    let y ← hexNib b
    let r ← unhexL t
    pure ((x * 16 + y) :: r)
  | _ => none

def unhex (s : String) : Option Bytes := if s == "-" then some [] else unhexL s.toList

def hexc (n : Nat) : Char := Char.ofNat (if n < 10 then 48 + n else 87 + n)

def hex (b : Bytes) : String :=
  if b.isEmpty then "-" else String.ofList (b.flatMap fun c => [hexc (c / 16 % 16), hexc (c % 16)])

def outcomeStr {α} (f : α → String) : Outcome α → String
  | .ok a => "ok" ++ (let s := f a; if s.isEmpty then "" else " " ++ s)
  | .err e => "err " ++ e.name
  | .panic => "panic"

def b01 (b : Bool) : String := if b then "1" else "0"

/-- Rule and format fields are Go `int`s that the library tests bit by bit: a negative value stands for
its 64-bit two's-complement pattern (so `-1` has every bit set). -/
def bitsField (s : String) : Option Nat :=
  s.toInt?.map fun r => (r % 18446744073709551616).toNat

def dateStr (d : Date.Date) : String :=
  let (y, m, dd) := d.date
  s!"{y} {m} {dd}"

def verStr (v : Sem.Ver) : String := s!"{v.major} {v.minor} {v.patch} {hex v.pre} {hex v.build}"

def semEntry : String → Option Sem.Entry
  | "Parse" => some .parse | "ParseVersion" => some .parseVersion | "ParseTag" => some .parseTag
  | "Default" => some .default | "DefaultNoTag" => some .defaultNoTag | _ => none

def sizeKind : String → Option Size.Kind
  | "int" => some .int | "int8" => some .int8 | "int16" => some .int16 | "int32" => some .int32
  | "int64" => some .int64 | "uint" => some .uint | "uint8" => some .uint8 | "uint16" => some .uint16
  | "uint32" => some .uint32 | "uint64" => some .uint64 | "float32" => some .float32
  | "float64" => some .float64 | _ => none

def parseNum (s : String) : Option Size.Num :=
  match s.splitOn ":" with
  | ["i", v] => v.toInt?.map .int
  | ["f", "nan"] => some .nan
  | ["f", "+inf"] => some (.inf false)
  | ["f", "-inf"] => some (.inf true)
  | ["f", m, e] => do let m ← m.toInt?; let e ← e.toInt?; pure (.fin m e)
  | _ => none

def tokStr : GoJson.Tok → String
  | .delim c => "D" ++ hex [c]
  | .str s => "S" ++ hex s
  | .num s => "N" ++ hex s
  | .bool true => "T" | .bool false => "F" | .null => "Z"

def jerrStr : GoJson.JErr → String
  | .syntax => "syntax" | .eof => "eof" | .unexpectedEOF => "unexpectedEOF"

/-- token stream with `More()` before every `Token()`, until the first error -/
def tokensF : Nat → GoJson.Dec → List String
  | 0, _ => ["fuel"]
  | f + 1, d =>
    let m := b01 d.more
    match d.token with
    | .error e => [m ++ "E:" ++ jerrStr e]
    | .ok (t, d') => (m ++ tokStr t) :: tokensF f d'

def optDate (a b c : String) : Option (Option Date.Date) :=
  if a == "-" then some none
  else do let y ← a.toInt?; let m ← b.toInt?; let d ← c.toInt?; pure (some (Date.new y m d))

def unixToAbs : Int := 62135596800

def recvStr : Hist.Recv → String
  | .date d => dateStr d
  | .roman n => toString n
  | .sem v => verStr v
  | .size n => toString n
  | .uu i => s!"{i.hi.toNat} {i.lo.toNat}"

def resStr : Hist.Res → String
  | .ok => "ok" | .err e => "err " ++ e.name | .panic => "panic" | .unsupported => "unsupported"

def parseHOp (s : String) : Option Hist.HOp :=
  match s.splitOn ":" with
  | ["T", h] => (unhex h).map .text
  | ["J", h] => (unhex h).map .json
  | ["B", h] => (unhex h).map .binary
  | ["S", "t", sec, nsec, off] => do
    let sec ← sec.toInt?; let nsec ← nsec.toInt?; let off ← off.toInt?
    pure (.scanTime sec nsec off)
  | ["S", "x"] => some .scanOther
  | _ => none

def tkHook : String → Option TestKit.Hook
  | "n" => some .nil | "o" => some .ok | "e" => some .err | "p" => some .panic | _ => none

def optBytes (s : String) : Option (Option Bytes) :=
  if s == "nil" then some none else (unhex s).map some

def optInt (s : String) : Option (Option Int) :=
  if s == "_" then some none else s.toInt?.map some

def tkPred (s : String) : Option TestKit.Pred :=
  match s.splitOn ":" with
  | ["-"] => some .none
  | ["any"] => some .any
  | ["eq", h] => (unhex h).map .eq
  | ["pre", h] => (unhex h).map .pre
  | ["suf", h] => (unhex h).map .suf
  | ["re", c, m, _] => some (.re (c == "1") (m == "1"))
  | _ => none

def tkMBeh (s : String) : Option TestKit.MBeh :=
  match s.splitOn ":" with
  | ["d", d] => (optBytes d).map .data
  | ["e", t, d] => do let t ← unhex t; let d ← optBytes d; pure (.err t d)
  | ["p", t] => (unhex t).map .panic
  | _ => none

def tkUBeh (s : String) : Option TestKit.UBeh :=
  match s.splitOn ":" with
  | ["o", x] => (optInt x).map .ok
  | ["e", t, x] => do let t ← unhex t; let x ← optInt x; pure (.err t x)
  | ["p", t, x] => do let t ← unhex t; let x ← optInt x; pure (.panic t x)
  | _ => none

def tkCase (s : String) : Option TestKit.Case :=
  match s.splitOn "/" with
  | [c, b, a, p, m, u, d, v] => do
    let c ← c.toNat?; let b ← tkHook b; let a ← tkHook a; let p ← tkPred p
    let m ← tkMBeh m; let u ← tkUBeh u; let d ← optBytes d; let v ← v.toInt?
    pure ⟨c, b, a, p, m, u, d, v⟩
  | _ => none

/-- the edit a hook performs on the case it is handed: `;`-separated `d=<hex|nil>`, `v=<int>`, `r=<pred>`, `c=<nat>` -/
def tkEdit (allowValue : Bool) (items : List String) : Option TestKit.Edit :=
  items.foldlM (fun (e : TestKit.Edit) (it : String) =>
    if it.startsWith "d=" then (optBytes ((it.drop 2).toString)).map fun d => { e with data := some d }
    else if it.startsWith "v=" then (if allowValue then ((it.drop 2).toString.toInt?).map fun v => { e with value := some v } else none)
    else if it.startsWith "r=" then (tkPred ((it.drop 2).toString)).map fun p => { e with pred := some p }
    else if it.startsWith "c=" then ((it.drop 2).toString.toNat?).map fun n => { e with constraint := some n }
    else none) TestKit.Edit.none

/-- hook field: `<kind>` or `<kind>;<edit items>` -/
def tkHookX (allowValue : Bool) (s : String) : Option (TestKit.Hook × TestKit.Edit) :=
  match s.splitOn ";" with
  | k :: items => do
    let k ← tkHook k
    let e ← tkEdit allowValue items
    if k == .nil && !items.isEmpty then none
    pure (k, e)
  | [] => none

def tkXCase (s : String) : Option TestKit.XCase :=
  match s.splitOn "/" with
  | [c, b, a, p, m, u, d, v] => do
    let c ← c.toNat?; let (b, be) ← tkHookX true b; let (a, ae) ← tkHookX false a; let p ← tkPred p
    let m ← tkMBeh m; let u ← tkUBeh u; let d ← optBytes d; let v ← v.toInt?
    pure ⟨⟨c, b, a, p, m, u, d, v⟩, be, ae⟩
  | _ => none

def tkHelper : String → Option TestKit.Helper
  | "MT" => some .mt | "UT" => some .ut | "MB" => some .mb | "UB" => some .ub | "MJ" => some .mj | "UJ" => some .uj
  | _ => none

def tkType : String → Option TestKit.TypeKind
  | "tv" => some .tv | "tp" => some .tp | "ptp" => some .ptp | "tn" => some .tn | _ => none

/-- `-` = nil helper; `<start>,<addArg>,<emptyIs>,<eqMod>` = scripted custom `TypeHelper` -/
def tkHelperBeh (s : String) : Option (Option TestKit.HelperBeh) :=
  if s == "-" then some none else
  match s.splitOn "," with
  | [st, ad, em, m] => do
    let st ← st.toInt?; let em ← em.toInt?; let m ← m.toNat?
    if ad != "0" && ad != "1" then none
    pure (some ⟨st, ad == "1", em, m⟩)
  | _ => none

def initRecv : String → Option Hist.Recv
  | "date" => some (.date Date.zero) | "roman" => some (.roman 0) | "sem" => some (.sem Sem.Ver.zero)
  | "size" => some (.size 0) | "uu" => some (.uu UU.ID.zero) | _ => none


/-! ### EXTRA ops (DESIGN.md §9.5): behaviour outside the twenty properties -/

/-- `d` = the package's default function stays in the variable; `s:<outhex>:<mode>:<tag>` = scripted replacement -/
def xScript (s : String) : Option (Option Extra.Script) :=
  if s == "d" then some none else
  match s.splitOn ":" with
  | ["s", h, m, t] => do let o ← unhex h; let m ← m.toNat?; let t ← t.toNat?; pure (some ⟨o, m, t⟩)
  | _ => none

def xFmt {V} (dflt : Extra.Fmt V) : Option Extra.Script → Extra.Fmt V
  | none => dflt
  | some s => s.fmt

/-- `d` or `s:<v1,v2,…>:<mode>:<tag>`; the value fields are parsed by `val` -/
def xPScript {V} (val : List String → Option V) (s : String) : Option (Option (Extra.PScript V)) :=
  if s == "d" then some none else
  match s.splitOn ":" with
  | ["s", v, m, t] => do let v ← val (v.splitOn ","); let m ← m.toNat?; let t ← t.toNat?; pure (some ⟨v, m, t⟩)
  | _ => none

def xRes : Extra.Res → String
  | .ok b => hex b | .err t => s!"E{t}" | .panic => "P"

def xPRes : Extra.PRes → String
  | .ok => "ok" | .err (.lib e) => "err " ++ e.name | .err (.custom t) => s!"err custom:{t}" | .panic => "panic"

def xNumVal : Constraint.NumVal → String
  | .int v => s!"i:{v}" | .flt m e => s!"f:{m}:{e}"

/-- kinds of `constraint.info`; named types have the kind of their underlying type -/
def xKind (s : String) : Option Size.Kind :=
  match s with
  | "myInt16" => some .int16 | "myFloat64" => some .float64 | _ => sizeKind s

def xDateVal : List String → Option Date.Date
  | [y, m, d] => do let y ← y.toInt?; let m ← m.toInt?; let d ← d.toInt?; pure (Date.new y m d)
  | _ => none

def xSemVal : List String → Option Sem.Ver
  | [ma, mi, pa, pre, build] => do
    let ma ← ma.toNat?; let mi ← mi.toNat?; let pa ← pa.toNat?; let pre ← unhex pre; let build ← unhex build
    pure ⟨ma, mi, pa, pre, build⟩
  | _ => none

def xUUVal : List String → Option UU.ID
  | [hi, lo] => do let hi ← hi.toNat?; let lo ← lo.toNat?; pure ⟨BitVec.ofNat 64 hi, BitVec.ofNat 64 lo⟩
  | _ => none

def xNatVal : List String → Option Nat
  | [n] => n.toNat?
  | _ => none

def xErrPkg : String → Option ErrMsg.Pkg
  | "date" => some .date | "sem" => some .sem | "roman" => some .roman | "uu" => some .uu | "size" => some .size
  | _ => none

def stepExtra (line : String) : String :=
  let bad := "bad-op"
  match line.splitOn " " with
  | "sem.new" :: ma :: mi :: pa :: extra =>
    (do let ma ← ma.toNat?; let mi ← mi.toNat?; let pa ← pa.toNat?; let ex ← extra.mapM unhex
        pure (outcomeStr verStr (Sem.new ma mi pa ex))).getD bad
  | ["sem.misc", ma, mi, pa, pre, build] =>
    (do let v ← xSemVal [ma, mi, pa, pre, build]
        pure s!"{verStr v.core} {b01 v.isZero} {v.compare v.core} {v.core.compare v}").getD bad
  | ["sem.consts"] => s!"{hex Sem.zeroString} {hex Sem.zeroStringTag}"
  | ["errmsg", pkg, fn, inp, cause] =>
    (do let p ← xErrPkg pkg; let fn ← unhex fn; let inp ← unhex inp
        if !ErrMsg.quoteModelled inp then none
        let e ← (match cause.splitOn ":" with
          | ["nil"] => some none
          | ["l", l, m] => (do let l ← l.toNat?; let m ← m.toNat?; pure (some (ErrMsg.tooLongText l m)))
          | ["t", h] => (do let t ← unhex h; pure (some t))
          | _ => none)
        pure s!"{hex (ErrMsg.message p fn inp e)} 1").getD bad
  | ["errmsg.digit", c] =>
    (do let c ← c.toNat?
        if c ≥ 256 then none
        pure (hex (ErrMsg.invalidDigitText c))).getD bad
  | ["errmsg.real", pkg, fn, inp, max] =>
    (do let p ← xErrPkg pkg; let fn ← unhex fn; let inp ← unhex inp; let max ← max.toNat?
        if max = 0 || inp.length ≤ max then none
        pure (hex (ErrMsg.unmarshalTextTooLong p fn inp max))).getD bad
  | ["date.acc", y, m, d] =>
    (do let x ← xDateVal [y, m, d]
        let (cy, cm, cd) := x.timeCivil
        let v := match x.value with | .ok t => s!"ok {t - unixToAbs}" | .err e => "err " ++ e.name | .panic => "panic"
        pure s!"{x.yearOf} {x.monthOf} {x.dayOf} {dateStr x} {x.timeAbs - unixToAbs} {cy} {cm} {cd} {v}").getD bad
  | ["fmtvar", "date", y, m, d, sc] =>
    (do let x ← xDateVal [y, m, d]; let sc ← xScript sc
        let F := xFmt Date.defaultFmt sc
        let f := fun (verb : Nat) => hex (Date.formatVerbWith F x verb)
        pure s!"{xRes (Date.marshalTextWith F x)} {hex (Date.stringWith F x)} {f 115} {f 101} {f 98} {f 118}").getD bad
  | ["fmtvar", "roman", n, df, sc] =>
    (do let n ← n.toNat?; let df ← df.toNat?; let sc ← xScript sc
        let F := xFmt Roman.defaultFmt sc
        let f := fun (verb : Nat) => hex (Roman.formatVerbWith F df n verb)
        pure s!"{xRes (Roman.marshalTextWith F df n)} {hex (Roman.stringWith F df n)} {f 82} {f 114} {f 76} {f 108} {f 115}").getD bad
  | ["fmtvar", "sem", ma, mi, pa, pre, build, sc] =>
    (do let v ← xSemVal [ma, mi, pa, pre, build]; let sc ← xScript sc
        let F := xFmt Sem.defaultFmt sc
        let f := fun (verb : Nat) => hex (Sem.formatVerbWith F v verb)
        pure s!"{xRes (Sem.marshalTextWith F v)} {hex (Sem.stringWith F v)} {hex (Sem.stringTagWith F v)} {f 115} {f 116} {f 118}").getD bad
  | ["fmtvar", "size", n, cfg, sc] =>
    (do let n ← n.toNat?; let c ← cfg.toNat?; let sc ← xScript sc
        let mc : Size.MarshalCfg := ⟨c % 2 == 1, c / 2 % 2 == 1, c / 4 % 2 == 1⟩
        let F := xFmt Size.defaultFmt sc
        pure s!"{hex (Size.stringWith F n)} {xRes (Size.prettyStringWith F n)} {xRes (Size.prettyHTMLWith F n)} {xRes (Size.marshalTextWith mc F n)} {xRes (Size.marshalJSONWith mc F n)} {hex (Size.bytesString n)}").getD bad
  | ["fmtvar", "uu", hi, lo, sc] =>
    (do let i ← xUUVal [hi, lo]; let sc ← xScript sc
        let F := xFmt UU.defaultFmt sc
        let f := fun (verb : Nat) => hex (UU.formatVerbWith F i verb)
        pure s!"{xRes (UU.marshalTextWith F i)} {hex (UU.stringWith F i)} {hex (UU.urnWith F i)} {f 115} {f 117} {f 118}").getD bad
  | ["parservar", "date", y, m, d, sc, h] =>
    (do let r ← xDateVal [y, m, d]; let sc ← xPScript xDateVal sc; let s ← unhex h
        let P := match sc with | none => Date.defaultPrs | some p => p.prs
        let (r', res) := Date.unmarshalTextWith P r s
        pure s!"{xPRes res} = {dateStr r'}").getD bad
  | ["parservar", "roman", n, sc, h] =>
    (do let r ← n.toNat?; let sc ← xPScript xNatVal sc; let s ← unhex h
        let P := match sc with | none => Roman.defaultPrs | some p => p.prsNat
        let (r', res) := Roman.unmarshalTextWith P r s
        pure s!"{xPRes res} = {r'}").getD bad
  | ["parservar", "sem", ma, mi, pa, pre, build, sc, h] =>
    (do let r ← xSemVal [ma, mi, pa, pre, build]; let sc ← xPScript xSemVal sc; let s ← unhex h
        let P := match sc with | none => Sem.defaultPrs | some p => p.prs
        let (r', res) := Sem.unmarshalTextWith P r s
        pure s!"{xPRes res} = {verStr r'}").getD bad
  | ["parservar", "size", which, dr, n, sc, h] =>
    (do let dr ← dr.toNat?; let r ← n.toNat?; let sc ← xPScript xNatVal sc; let s ← unhex h
        let P := match sc with | none => Size.defaultPrs | some p => p.prsNat
        let (r', res) ← (match which with
          | "t" => some (Size.unmarshalTextWith P dr r s)
          | "j" => some (Size.unmarshalJSONWith P dr r s)
          | _ => none)
        pure s!"{xPRes res} = {r'}").getD bad
  | ["parservar", "uu", hi, lo, sc, h] =>
    (do let r ← xUUVal [hi, lo]; let sc ← xPScript xUUVal sc; let s ← unhex h
        let P := match sc with | none => UU.defaultPrs | some p => p.prs
        let (r', res) := UU.unmarshalTextWith P r s
        pure s!"{xPRes res} = {r'.hi.toNat} {r'.lo.toNat}").getD bad
  | ["constraint.info", kind] =>
    (do let k ← xKind kind
        pure s!"{b01 (Constraint.isFloat k)} {b01 (Constraint.isSigned k)} {xNumVal (Constraint.min k)} {xNumVal (Constraint.max k)} {xNumVal (Constraint.smallestNonzero k)} {Constraint.sizeBytes k} {Constraint.sizeBits k}").getD bad
  | _ => bad

def step (line : String) : String :=
  let bad := "bad-op"
  match line.splitOn " " with
  -- ------------------------------------------------------------------ date
  | ["date.format", y, m, d, basic, pre] =>
    (do let y ← y.toInt?; let m ← m.toInt?; let d ← d.toInt?; let p ← unhex pre
        let fl ← bitsField basic
        pure (hex (Date.format p (Date.new y m d) (Date.isBasic fl)))).getD bad
  | ["date.paths", y, m, d] =>
    (do let y ← y.toInt?; let m ← m.toInt?; let d ← d.toInt?
        let x := Date.new y m d
        let f := fun (verb : Nat) => hex (Date.formatVerb x verb)
        pure s!"{hex (Date.marshalText x)} {hex (Date.toString x)} {f 115} {f 101} {f 98} {f 118}").getD bad
  | ["date.verb", y, m, d, h] =>
    -- `fmt.Sprintf(format, date)` for a format `%[flags][width][.prec]verb` (hex): Date.Format ignores flags, width and precision
    -- and chooses the layout by the verb alone (documented table: %b basic; %e, %s and every other verb extended)
    (do let y ← y.toInt?; let m ← m.toInt?; let d ← d.toInt?; let f ← unhex h
        let verb ← f.getLast?
        pure (hex (Date.formatVerb (Date.new y m d) verb))).getD bad
  | ["date.parse", maxlen, rule, h] =>
    (do let ml ← maxlen.toNat?; let r ← bitsField rule; let s ← unhex h
        pure (outcomeStr dateStr (Date.parse ml (Date.ruleDisableBasic r) s))).getD bad
  | ["date.unbin", h] =>
    (do let s ← unhex h; pure (outcomeStr dateStr (Date.unmarshalBinary s))).getD bad
  | ["date.bin", y, m, d] =>
    (do let y ← y.toInt?; let m ← m.toInt?; let d ← d.toInt?
        pure (hex (Date.marshalBinary (Date.new y m d)))).getD bad
  | ["date.cmp", y1, m1, d1, y2, m2, d2] =>
    (do let y1 ← y1.toInt?; let m1 ← m1.toInt?; let d1 ← d1.toInt?
        let y2 ← y2.toInt?; let m2 ← m2.toInt?; let d2 ← d2.toInt?
        let a := Date.new y1 m1 d1; let b := Date.new y2 m2 d2
        pure s!"{b01 (a.before b)} {b01 (a.equal b)} {b01 (a.after b)}").getD bad
  | ["date.sub", y1, m1, d1, y2, m2, d2] =>
    (do let y1 ← y1.toInt?; let m1 ← m1.toInt?; let d1 ← d1.toInt?
        let y2 ← y2.toInt?; let m2 ← m2.toInt?; let d2 ← d2.toInt?
        let a := Date.new y1 m1 d1; let b := Date.new y2 m2 d2
        pure s!"{a.sub b} {a.daysBetween b}").getD bad
  | ["date.add", y, m, d, dy, dm, dd] =>
    (do let y ← y.toInt?; let m ← m.toInt?; let d ← d.toInt?
        let dy ← dy.toInt?; let dm ← dm.toInt?; let dd ← dd.toInt?
        pure (dateStr ((Date.new y m d).add dy dm dd))).getD bad
  | ["date.adddur", y, m, d, ns] =>
    (do let y ← y.toInt?; let m ← m.toInt?; let d ← d.toInt?; let ns ← ns.toInt?
        pure (dateStr ((Date.new y m d).addDuration ns))).getD bad
  | ["date.fromtime", sec, nsec, off] =>
    (do let sec ← sec.toInt?; let nsec ← nsec.toInt?; let off ← off.toInt?
        pure (dateStr (Date.fromTime (sec + unixToAbs) nsec off))).getD bad
  | ["date.new", y, m, d] =>
    (do let y ← y.toInt?; let m ← m.toInt?; let d ← d.toInt?
        pure (dateStr (Date.new y m d))).getD bad
  | ["date.filter", fy, fm, fd, ty, tm, td, py, pm, pd] =>
    (do let f ← optDate fy fm fd; let t ← optDate ty tm td
        let py ← py.toInt?; let pm ← pm.toInt?; let pd ← pd.toInt?
        pure (match Date.filterFromTo f t with
          | .ok flt => b01 (flt.contains (Date.new py pm pd))
          | .err e => "err " ++ e.name
          | .panic => "panic")).getD bad
  -- ------------------------------------------------------------------ roman
  | ["roman.format", n, flags, pre] =>
    (do let n ← n.toNat?; let f ← bitsField flags; let p ← unhex pre
        pure (hex (Roman.format p n f))).getD bad
  | ["roman.paths", n, df] =>
    (do let n ← n.toNat?; let df ← df.toNat?
        let f := fun (verb : Nat) => hex (Roman.format [] n (Roman.flagsByVerb verb df))
        pure s!"{hex (Roman.format [] n df)} {hex (Roman.format [] n df)} {f 82} {f 114} {f 76} {f 108} {f 115}").getD bad
  | ["roman.parse", maxlen, rule, h] =>
    (do let ml ← maxlen.toNat?; let r ← bitsField rule; let s ← unhex h
        pure (outcomeStr toString (Roman.parse ml (r % 2 == 1) s))).getD bad
  | ["roman.valid", maxlen, rule, h] =>
    (do let ml ← maxlen.toNat?; let r ← bitsField rule; let s ← unhex h
        pure (outcomeStr (fun _ => "") (Roman.valid ml (r % 2 == 1) s))).getD bad
  -- ------------------------------------------------------------------ sem
  | ["sem.parse", entry, maxlen, h] =>
    -- `Default:<n>`: DefaultParser under the rule value n (a flag set, read as a bit pattern): the tag form is
    -- allowed iff the RuleDisableTag bit (bit 0) is clear, whatever other bits are set
    if entry.startsWith "Default:" then
      (do let r ← bitsField (entry.drop 8).toString; let ml ← maxlen.toNat?; let s ← unhex h
          pure (outcomeStr verStr (Sem.unmarshalText ml true (r % 2 == 0) s))).getD bad
    else
    (do let e ← semEntry entry; let ml ← maxlen.toNat?; let s ← unhex h
        pure (outcomeStr verStr (Sem.parseEntry ml e s))).getD bad
  | ["sem.format", ma, mi, pa, pre, build, tag, prefix_] =>
    (do let ma ← ma.toNat?; let mi ← mi.toNat?; let pa ← pa.toNat?
        let pre ← unhex pre; let build ← unhex build; let p ← unhex prefix_
        pure (hex (Sem.format p ⟨ma, mi, pa, pre, build⟩ (tag == "1")))).getD bad
  | ["sem.paths", ma, mi, pa, pre, build] =>
    (do let ma ← ma.toNat?; let mi ← mi.toNat?; let pa ← pa.toNat?
        let pre ← unhex pre; let build ← unhex build
        let v : Sem.Ver := ⟨ma, mi, pa, pre, build⟩
        let f := fun (verb : Nat) => hex (Sem.formatVerb v verb)
        pure s!"{hex (Sem.marshalText v)} {hex (Sem.toString v)} {hex (Sem.stringTag v)} {f 115} {f 116} {f 118}").getD bad
  | ["sem.valid", pre, build] =>
    (do let pre ← unhex pre; let build ← unhex build
        pure (outcomeStr (fun _ => "") (Sem.Ver.valid ⟨0, 0, 0, pre, build⟩))).getD bad
  | ["sem.cmppre", a, b] =>
    (do let a ← unhex a; let b ← unhex b; pure (toString (Sem.comparePre a b))).getD bad
  | ["sem.cmp", ma, mi, pa, pre, build, ma2, mi2, pa2, pre2, build2] =>
    (do let ma ← ma.toNat?; let mi ← mi.toNat?; let pa ← pa.toNat?
        let pre ← unhex pre; let build ← unhex build
        let ma2 ← ma2.toNat?; let mi2 ← mi2.toNat?; let pa2 ← pa2.toNat?
        let pre2 ← unhex pre2; let build2 ← unhex build2
        let v : Sem.Ver := ⟨ma, mi, pa, pre, build⟩; let w : Sem.Ver := ⟨ma2, mi2, pa2, pre2, build2⟩
        pure s!"{v.compare w} ok {verStr (v.latest w)}").getD bad
  | ["sem.cmpstr", entry, maxlen, a, b] =>
    (do let e ← semEntry entry; let ml ← maxlen.toNat?; let a ← unhex a; let b ← unhex b
        pure (outcomeStr toString (Sem.compareStr ml e a b))).getD bad
  | ["sem.latest", entry, maxlen, a, b] =>
    (do let e ← semEntry entry; let ml ← maxlen.toNat?; let a ← unhex a; let b ← unhex b
        pure (outcomeStr verStr (Sem.latestStr ml e a b))).getD bad
  | ["sem.next", which, ma, mi, pa, pre, build] =>
    (do let ma ← ma.toNat?; let mi ← mi.toNat?; let pa ← pa.toNat?
        let pre ← unhex pre; let build ← unhex build
        let v : Sem.Ver := ⟨ma, mi, pa, pre, build⟩
        let r ← (match which with
          | "major" => some v.nextMajor | "minor" => some v.nextMinor | "patch" => some v.nextPatch | _ => none)
        pure (outcomeStr verStr r)).getD bad
  -- ------------------------------------------------------------------ size
  | ["size.shorten", n] =>
    (do let n ← n.toNat?; let (v, u) := Size.shorten n; pure s!"{v} {hex u}").getD bad
  | ["size.paths", n] =>
    (do let n ← n.toNat?
        pure s!"{hex (Size.toString n)} {hex (Size.prettyString n)} {hex (Size.prettyHTML n)} {hex (Size.bytesString n)} {hex (Size.bytesString n)}").getD bad
  | ["size.format", n, flags, pre] =>
    (do let n ← n.toNat?; let f ← flags.toNat?; let p ← unhex pre
        pure (hex (Size.format p n f))).getD bad
  | ["size.marshal", n, cfg, which] =>
    (do let n ← n.toNat?; let c ← cfg.toNat?
        let mc : Size.MarshalCfg := ⟨c % 2 == 1, c / 2 % 2 == 1, c / 4 % 2 == 1⟩
        match which with
        | "text" => pure (hex (Size.marshalText mc n))
        | "json" => pure (hex (Size.marshalJSON mc n))
        | _ => none).getD bad
  | ["size.parse", maxlen, maxkeys, rule, h] =>
    (do let ml ← maxlen.toNat?; let mk ← maxkeys.toNat?; let r ← rule.toNat?; let s ← unhex h
        pure (outcomeStr toString (Size.parse ml mk (Size.Rule.ofNat r) s))).getD bad
  | ["size.new", _kind, v, unit] =>
    (do let v ← parseNum v; let u ← unhex unit
        pure (outcomeStr toString (Size.newSizeNum v u))).getD bad
  | ["size.bytes", kind, n] =>
    (do let k ← sizeKind kind; let n ← n.toNat?
        let (v, ok) := Size.bytesAs k n
        pure s!"{v} {b01 ok}").getD bad
  | ["json.tokens", h] =>
    (do let s ← unhex h
        pure (" ".intercalate (tokensF (s.length + 2) (GoJson.Dec.init s)))).getD bad
  -- ------------------------------------------------------------------ uu
  | ["uu.format", hi, lo, urn, pre] =>
    (do let hi ← hi.toNat?; let lo ← lo.toNat?; let p ← unhex pre; let fl ← bitsField urn
        pure (hex (UU.format p ⟨BitVec.ofNat 64 hi, BitVec.ofNat 64 lo⟩ (UU.isURN fl)))).getD bad
  | ["uu.parse", maxlen, rule, h] =>
    (do let ml ← maxlen.toNat?; let r ← bitsField rule; let s ← unhex h
        pure (outcomeStr (fun (i : UU.ID) => s!"{i.hi.toNat} {i.lo.toNat}")
          (UU.parse ml (UU.ruleDisableURN r) (UU.ruleDisableUpper r) s))).getD bad
  | ["uu.paths", hi, lo] =>
    (do let hi ← hi.toNat?; let lo ← lo.toNat?
        let i : UU.ID := ⟨BitVec.ofNat 64 hi, BitVec.ofNat 64 lo⟩
        let f := fun (verb : Nat) => hex (UU.formatVerb i verb)
        pure s!"{hex (UU.marshalText i)} {hex (UU.toString i)} {hex i.urn} {f 115} {f 117} {f 118}").getD bad
  | ["uu.fields", hi, lo] =>
    (do let hi ← hi.toNat?; let lo ← lo.toNat?
        let i : UU.ID := ⟨BitVec.ofNat 64 hi, BitVec.ofNat 64 lo⟩
        pure s!"{i.version} {i.variant} {hex i.urn}").getD bad
  | ["uu.random", a, b] =>
    (do let a ← a.toNat?; let b ← b.toNat?
        let i := UU.randomID (BitVec.ofNat 64 a) (BitVec.ofNat 64 b)
        pure s!"{i.hi.toNat} {i.lo.toNat}").getD bad
  | "test.run" :: h :: tk :: rest =>
    -- optional trailing field: the TypeHelper of the Unmarshal helpers, `h:-` (nil, the default) or
    -- `h:<start>,<addArg 0|1>,<emptyIs>,<eqMod>`
    (do let h ← tkHelper h; let tk ← tkType tk
        let (cases, hb) ← (match rest.getLast? with
          | some l => if l.startsWith "h:" then (tkHelperBeh ((l.drop 2).toString)).map fun hb => (rest.dropLast, hb)
                      else some (rest, none)
          | none => some (rest, none))
        let cs ← cases.mapM tkXCase
        let (fn, reps) := TestKit.runX h tk hb cs
        pure ("=" ++ (if fn then "F" else "") ++ String.ofList (reps.map fun (r : Bool) => if r then 'r' else '-'))).getD bad
  | "hist" :: ty :: ops =>
    (do let r ← initRecv ty
        let ops ← ops.mapM parseHOp
        pure (" | ".intercalate ((Hist.run r ops).map fun (r', res) => resStr res ++ " = " ++ recvStr r'))).getD bad
  | _ => stepExtra line

partial def loop (h : IO.FS.Stream) (out : IO.FS.Stream) : IO Unit := do
  let line ← h.getLine
  if line.isEmpty then return ()
  let l := if line.endsWith "\n" then (line.dropEnd 1).toString else line
  out.putStrLn (step l)
  loop h out

def main : IO Unit := do
  let out ← IO.getStdout
  loop (← IO.getStdin) out
  out.flush
