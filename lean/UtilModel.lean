import UtilModel.Model.Prelude
import UtilModel.Model.GoTime
import UtilModel.Model.Date
