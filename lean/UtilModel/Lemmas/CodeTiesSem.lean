import UtilModel.Model.Sem
import UtilModel.Lemmas.TieTactics
/-! # package `sem`: the model agrees with `Ver.Compare` as translated from the source on this run -/
namespace U.CodeTies
open U

theorem compare_tie (v w : Sem.Ver) :
    v.compare w = Gen.sem_Compare Sem.comparePre v.major v.minor v.patch v.pre w.major w.minor w.patch w.pre := by
  unfold Sem.Ver.compare Gen.sem_Compare
  ifchain

end U.CodeTies
