import UtilModel.Model.Sem
import UtilModel.Lemmas.SemOrder
import UtilModel.Lemmas.TieTactics
/-! # package `sem`: the model agrees with `Ver.Compare`, `IsZero`, `Core`, `Next*`, `Latest` as translated from the source on this run -/
set_option linter.unusedSimpArgs false
namespace U.CodeTies
open U

theorem compare_tie (v w : Sem.Ver) :
    v.compare w = Gen.sem_Compare Sem.comparePre v.major v.minor v.patch v.pre w.major w.minor w.patch w.pre := by
  unfold Sem.Ver.compare Gen.sem_Compare
  ifchain

/-! ## `IsZero`, `Core`, `NextMajor/NextMinor/NextPatch` (`bits.Add64` carry → panic → `none`), `Latest`

Results are compared as tuples of the `Ver` fields; every branch of both sides is split and each leaf closed
arithmetically, so an explicit `== math.MaxUint64` guard instead of the carry, `>= 0` instead of `!= -1`, swapped
`Compare` operands (antisymmetry) or reordered branches keep the ties true. -/

/-- a `Ver` as the translation writes it: its fields in declaration order -/
def verTuple (v : Sem.Ver) : Nat × Nat × Nat × List Nat × List Nat := (v.major, v.minor, v.patch, v.pre, v.build)

/-- `panic` → `none` (the `Next*` methods return no error) -/
def verOpt : Outcome Sem.Ver → Option (Nat × Nat × Nat × List Nat × List Nat)
  | .ok v => some (verTuple v) | _ => none

/-- leaves of a decision tree returning `Ver` tuples: equal results, or contradictory path conditions -/
macro "verleaf" : tactic =>
  `(tactic| first
      | rfl
      | omega
      | (simp only [verOpt, verTuple, Option.some.injEq, Prod.mk.injEq, reduceCtorEq, and_true, true_and, bne_iff_ne, ne_eq, beq_iff_eq,
           Bool.and_eq_true, Bool.or_eq_true, Bool.not_eq_true', decide_eq_true_eq, beq_eq_false_iff_ne, decide_eq_false_iff_not,
           Nat.add_zero] at *
         omega)
      | (simp_all [verOpt, verTuple]; done)
      | (simp_all [verOpt, verTuple]; omega))

theorem isZero_ver_tie (v : Sem.Ver) : v.isZero = Gen.sem_IsZero v.major v.minor v.patch v.pre v.build := by
  unfold Sem.Ver.isZero Gen.sem_IsZero
  first
    | rfl
    | (rw [Bool.eq_iff_iff]
       simp only [Bool.and_eq_true, Bool.or_eq_true, Bool.not_eq_true', beq_iff_eq, bne_iff_ne, ne_eq, beq_eq_false_iff_ne]
       try (repeat' split)
       all_goals first | omega | (simp_all; done) | (constructor <;> intro h <;> simp_all))

theorem core_tie (v : Sem.Ver) : verTuple v.core = Gen.sem_Core v.major v.minor v.patch v.pre v.build := by
  unfold Sem.Ver.core Gen.sem_Core
  try (repeat' split)
  all_goals verleaf

theorem nextMajor_tie (v : Sem.Ver) (h : v.major < two64) :
    verOpt v.nextMajor = Gen.sem_NextMajor v.major v.minor v.patch v.pre v.build := by
  unfold Sem.Ver.nextMajor Gen.sem_NextMajor two64 at *
  try simp only []
  repeat' split
  all_goals verleaf

theorem nextMinor_tie (v : Sem.Ver) (h : v.minor < two64) :
    verOpt v.nextMinor = Gen.sem_NextMinor v.major v.minor v.patch v.pre v.build := by
  unfold Sem.Ver.nextMinor Gen.sem_NextMinor two64 at *
  try simp only []
  repeat' split
  all_goals verleaf

theorem nextPatch_tie (v : Sem.Ver) (h : v.patch < two64) :
    verOpt v.nextPatch = Gen.sem_NextPatch v.major v.minor v.patch v.pre v.build := by
  unfold Sem.Ver.nextPatch Gen.sem_NextPatch two64 at *
  try simp only []
  repeat' split
  all_goals verleaf

theorem latest_tie (v w : Sem.Ver) :
    verTuple (v.latest w) = Gen.sem_Latest Sem.comparePre v.major v.minor v.patch v.pre v.build
      w.major w.minor w.patch w.pre w.build := by
  unfold Sem.Ver.latest Gen.sem_Latest
  simp only [← compare_tie]
  have hr := Sem.Ver.compare_range v w
  try simp only [Sem.Ver.compare_antisymm w v]
  generalize v.compare w = c at *
  repeat' split
  all_goals verleaf

end U.CodeTies
