import UtilModel.Model.GoJson
import UtilModel.Spec.SizeJson
/-!
# Lemmas about the streaming tokenizer model (`GoJson.tokenF`, `Dec.token`, `Dec.more`)

State and stack facts about one call of `Token` (all for arbitrary input, malformed or not):

* 1(a) `token_key` (`tokenF_objectStart'`, `tokenF_objectComma'`, `tokenF_objectKey'`): where a member key
  is expected — state `objectStart`/`objectComma` with `More() = true`, or `objectKey` — the call fails or
  returns a *string* and leaves `st = objectColon`, stack unchanged.
* 1(b) `token_value` (`ValueStep`): from `objectColon` the call fails, or returns a scalar with
  `st = objectComma` and the stack unchanged, or `[`/`{` with the member's frame `objectValue` pushed.
* 1(c) `token_stackStep` (`StackStep`): an opening delimiter pushes exactly one frame, a closing one
  pops exactly one and sets `st = valueEnd` of it, any other token leaves the stack alone; only the four
  delimiters occur.
* `token_top` (`TopStep`), `token_topValue_eof`: the first token of a document; at the top level `Token`
  reports `io.EOF` exactly when only white space is left.
* `token_shorter`: every token consumes input (`d'.rest` is a proper suffix of `d.rest`).

1(d) (`skipLoop`/`decodeAndSkipNested` restore state and stack) is in `Lemmas/SizeObject.lean`.
(Own namespace: `Lemmas/JsonScan.lean` of C04 has computation lemmas with similar names in `U.GoJson`.)
-/
namespace U.JsonTokens
open U U.GoJson
open U.Props.C12 (allSpace)

theorem scanScalar_not_delim {s : Bytes} {tok : Tok} {r : Bytes}
    (h : scanScalar s = .ok (tok, r)) : ∀ c, tok ≠ .delim c := by
  intro c hc
  subst hc
  unfold scanScalar at h
  split at h
  · simp at h
  · split at h <;> simp at h
  · split at h <;> simp at h
  · split at h <;> simp at h
  · split at h <;> simp at h
  · split at h
    · split at h <;> simp at h
    · simp at h

/-- the effect of one token on the stack of open containers -/
def StackStep (d : Dec) (tok : Tok) (d' : Dec) : Prop :=
  (∃ c x, tok = .delim c ∧ (c = 91 ∨ c = 123) ∧ d'.stack = x :: d.stack) ∨
  (∃ c p, tok = .delim c ∧ (c = 93 ∨ c = 125) ∧ d.stack = p :: d'.stack ∧ d'.st = valueEnd p) ∨
  ((∀ c, tok ≠ .delim c) ∧ d'.stack = d.stack)

theorem tokenF_stackStep {f : Nat} {d : Dec} {tok : Tok} {d' : Dec}
    (h : tokenF f d = .ok (tok, d')) : StackStep d tok d' := by
  induction f generalizing d with
  | zero => simp [tokenF] at h
  | succ f ih =>
    simp only [tokenF] at h
    split at h
    · simp at h
    · split at h
      · split at h
        · simp at h
        · simp only [Except.ok.injEq, Prod.mk.injEq] at h
          obtain ⟨rfl, rfl⟩ := h
          exact .inl ⟨91, d.st, rfl, .inl rfl, rfl⟩
      · split at h
        · split at h
          · simp at h
          · split at h
            · simp at h
            · rename_i p ps hst
              simp only [Except.ok.injEq, Prod.mk.injEq] at h
              obtain ⟨rfl, rfl⟩ := h
              exact .inr (.inl ⟨93, p, rfl, .inl rfl, hst, rfl⟩)
        · split at h
          · split at h
            · simp at h
            · simp only [Except.ok.injEq, Prod.mk.injEq] at h
              obtain ⟨rfl, rfl⟩ := h
              exact .inl ⟨123, d.st, rfl, .inr rfl, rfl⟩
          · split at h
            · split at h
              · simp at h
              · split at h
                · simp at h
                · rename_i p ps hst
                  simp only [Except.ok.injEq, Prod.mk.injEq] at h
                  obtain ⟨rfl, rfl⟩ := h
                  exact .inr (.inl ⟨125, p, rfl, .inr rfl, hst, rfl⟩)
            · split at h
              · split at h
                · simp at h
                · have := ih h; exact this
              · split at h
                · split at h
                  · have := ih h; exact this
                  · split at h
                    · have := ih h; exact this
                    · simp at h
                · split at h
                  · split at h
                    · rename_i hs
                      simp only [Except.ok.injEq, Prod.mk.injEq] at h
                      obtain ⟨rfl, rfl⟩ := h
                      exact .inr (.inr ⟨scanScalar_not_delim hs, rfl⟩)
                    · simp at h
                  · split at h
                    · simp at h
                    · split at h
                      · rename_i hs
                        simp only [Except.ok.injEq, Prod.mk.injEq] at h
                        obtain ⟨rfl, rfl⟩ := h
                        exact .inr (.inr ⟨scanScalar_not_delim hs, rfl⟩)
                      · simp at h

theorem scanScalar_quote {t : Bytes} {tok : Tok} {r : Bytes}
    (h : scanScalar (34 :: t) = .ok (tok, r)) : ∃ s, tok = .str s := by
  simp only [scanScalar] at h
  split at h
  · simp only [Except.ok.injEq, Prod.mk.injEq] at h
    exact ⟨_, h.1.symm⟩
  · simp at h

theorem tokenF_objectKey' {f : Nat} {rest : Bytes} {S : List TState} {tok : Tok} {d' : Dec}
    (h : tokenF f ⟨rest, .objectKey, S⟩ = .ok (tok, d')) :
    (∃ s, tok = .str s) ∧ d'.st = .objectColon ∧ d'.stack = S := by
  cases f with
  | zero => simp [tokenF] at h
  | succ f =>
    simp only [tokenF] at h
    split at h
    · simp at h
    · repeat' split at h
      all_goals try (simp_all [valueAllowed]; done)
      rename_i hc _ _ _ hs
      simp only [Bool.and_eq_true, beq_iff_eq] at hc
      rw [hc.1] at hs
      simp only [Except.ok.injEq, Prod.mk.injEq] at h
      obtain ⟨rfl, rfl⟩ := h
      exact ⟨scanScalar_quote hs, rfl, rfl⟩

theorem tokenF_objectStart' {f : Nat} {rest : Bytes} {S : List TState} {tok : Tok} {d' : Dec}
    (hm : Dec.more ⟨rest, .objectStart, S⟩ = true)
    (h : tokenF f ⟨rest, .objectStart, S⟩ = .ok (tok, d')) :
    (∃ s, tok = .str s) ∧ d'.st = .objectColon ∧ d'.stack = S := by
  cases f with
  | zero => simp [tokenF] at h
  | succ f =>
    simp only [tokenF] at h
    simp only [Dec.more] at hm
    split at h
    · simp at h
    · rename_i c t hsk
      rw [hsk] at hm
      simp only [Bool.and_eq_true, bne_iff_ne, ne_eq] at hm
      repeat' split at h
      all_goals try (simp_all [valueAllowed]; done)
      rename_i hc _ _ _ hs
      simp only [Bool.and_eq_true, beq_iff_eq] at hc
      rw [hc.1] at hs
      simp only [Except.ok.injEq, Prod.mk.injEq] at h
      obtain ⟨rfl, rfl⟩ := h
      exact ⟨scanScalar_quote hs, rfl, rfl⟩

theorem tokenF_objectComma' {f : Nat} {rest : Bytes} {S : List TState} {tok : Tok} {d' : Dec}
    (hm : Dec.more ⟨rest, .objectComma, S⟩ = true)
    (h : tokenF f ⟨rest, .objectComma, S⟩ = .ok (tok, d')) :
    (∃ s, tok = .str s) ∧ d'.st = .objectColon ∧ d'.stack = S := by
  cases f with
  | zero => simp [tokenF] at h
  | succ f =>
    simp only [tokenF] at h
    simp only [Dec.more] at hm
    split at h
    · simp at h
    · rename_i c t hsk
      rw [hsk] at hm
      simp only [Bool.and_eq_true, bne_iff_ne, ne_eq] at hm
      repeat' split at h
      all_goals try (simp_all [valueAllowed]; done)
      exact tokenF_objectKey' h

def Shorter (r s : Bytes) : Prop := r <:+ s ∧ r.length < s.length

theorem Shorter.cons {r s : Bytes} (c : Nat) (h : Shorter r s) : Shorter r (c :: s) :=
  ⟨List.IsSuffix.trans h.1 (List.suffix_cons _ _), by simp; have := h.2; omega⟩

theorem Shorter.of_suffix_cons {r s : Bytes} (c : Nat) (h : r <:+ s) : Shorter r (c :: s) :=
  ⟨List.IsSuffix.trans h (List.suffix_cons _ _), by simp; have := h.length_le; omega⟩

theorem Shorter.suffix {r s : Bytes} (h : Shorter r s) : r <:+ s := h.1

theorem Shorter.trans_suffix {r s u : Bytes} (h : Shorter r s) (h2 : s <:+ u) : Shorter r u :=
  ⟨h.1.trans h2, by have := h.2; have := h2.length_le; omega⟩

theorem skipSpace_suffix (s : Bytes) : skipSpace s <:+ s := by
  induction s with
  | nil => simp [skipSpace]
  | cons c t ih =>
    unfold skipSpace
    split
    · exact List.IsSuffix.trans ih (List.suffix_cons _ _)
    · exact List.suffix_refl _

theorem scanString_shorter {s acc raw r : Bytes} (h : scanString s acc = .ok (raw, r)) :
    Shorter r s := by
  induction s, acc using scanString.induct with
  | case1 => simp [scanString] at h
  | case2 t acc =>
    simp only [scanString, Except.ok.injEq, Prod.mk.injEq] at h
    obtain ⟨_, rfl⟩ := h
    exact .of_suffix_cons _ (List.suffix_refl _)
  | case3 => simp [scanString] at h
  | case4 acc a b c d t hx ih =>
    simp only [scanString, hx, if_true] at h
    exact (((((ih h).cons _).cons _).cons _).cons _).cons _ |>.cons _
  | case5 acc a b c d t hx => simp [scanString, hx] at h
  | case6 acc t' hh hne =>
    simp only [scanString] at h
    split at h <;> simp at h
  | case7 acc t' hh hne =>
    simp only [scanString] at h
    split at h <;> simp at h
  | case8 acc e t' hne he ih =>
    rw [scanString.eq_def] at h
    simp only at h
    rw [if_pos he] at h
    exact ((ih h).cons _).cons _
  | case9 acc e t' hne he =>
    rw [scanString.eq_def] at h
    simp only at h
    rw [if_neg he] at h
    simp at h
  | case10 c t acc h1 h2 h3 =>
    rw [scanString.eq_def] at h
    simp only at h
    rw [if_pos h3] at h
    simp at h
  | case11 c t acc h1 h2 h3 ih =>
    rw [scanString.eq_def] at h
    simp only at h
    rw [if_neg h3] at h
    exact (ih h).cons _

theorem scanLit_suffix {want s r : Bytes} (h : scanLit want s = .ok r) : r <:+ s := by
  induction want, s using scanLit.induct with
  | case1 r' => simp only [scanLit, Except.ok.injEq] at h; subst h; exact List.suffix_refl _
  | case2 => simp [scanLit] at h
  | case3 ws c t ih =>
    simp only [scanLit, if_true] at h
    exact (ih h).trans (List.suffix_cons _ _)
  | case4 w ws c t hne => simp [scanLit, hne] at h

theorem spanDigits_suffix (s : Bytes) : (spanDigits s).2 <:+ s := by
  induction s with
  | nil => simp [spanDigits]
  | cons c t ih =>
    simp only [spanDigits]
    split
    · exact ih.trans (List.suffix_cons _ _)
    · exact List.suffix_refl _

private theorem intPart_shorter (s1 s2 ip : Bytes) (hip : (match s1 with
    | [] => Except.error JErr.unexpectedEOF
    | 48 :: t => Except.ok ([48], t)
    | c :: t =>
      if isDigit c = true then Except.ok (c :: (spanDigits t).fst, (spanDigits t).snd) else Except.error JErr.syntax) =
    Except.ok (ip, s2)) : s2 <:+ s1 ∧ s2.length < s1.length := by
  split at hip
  · simp at hip
  · simp only [Except.ok.injEq, Prod.mk.injEq] at hip
    obtain ⟨_, rfl⟩ := hip
    exact ⟨List.suffix_cons _ _, by simp⟩
  · split at hip
    · simp only [Except.ok.injEq, Prod.mk.injEq] at hip
      obtain ⟨_, rfl⟩ := hip
      rename_i t _ _ _
      have := spanDigits_suffix t
      exact ⟨this.trans (List.suffix_cons _ _), by have := this.length_le; simp; omega⟩
    · simp at hip

private theorem expPart_suffix (e : Nat) (p : Bytes × Bytes) (ep s4 : Bytes) (hep : (match p.snd with
        | [] => Except.error JErr.unexpectedEOF
        | c :: _ =>
          if isDigit c = true then
            Except.ok (e :: p.fst ++ (spanDigits p.snd).fst, (spanDigits p.snd).snd)
          else Except.error JErr.syntax) = Except.ok (ep, s4)) : s4 <:+ p.2 := by
  split at hep
  · simp at hep
  · split at hep
    · simp only [Except.ok.injEq, Prod.mk.injEq] at hep
      obtain ⟨_, rfl⟩ := hep
      exact spanDigits_suffix _
    · simp at hep

private theorem negPart_suffix (s : Bytes) :
    (match s with | 45 :: t => ([45], t) | _ => ([], s) : Bytes × Bytes).snd <:+ s := by
  split
  · exact List.suffix_cons _ _
  · exact List.suffix_refl _

private theorem sgnPart_suffix (t : Bytes) :
    (match t with | 43 :: u => ([43], u) | 45 :: t => ([45], t) | _ => ([], t) : Bytes × Bytes).2 <:+ t := by
  split
  · exact List.suffix_cons _ _
  · exact List.suffix_cons _ _
  · exact List.suffix_refl _

theorem scanNumber_shorter {s lit r : Bytes} (h : scanNumber s = .ok (lit, r)) : Shorter r s := by
  unfold scanNumber at h
  simp only at h
  split at h
  · simp at h
  · rename_i ip s2 hip
    split at h
    · simp at h
    · rename_i fp s3 hfp
      split at h
      · simp at h
      · rename_i ep s4 hep
        simp only [Except.ok.injEq, Prod.mk.injEq] at h
        obtain ⟨_, rfl⟩ := h
        have h1 : s2 <:+ s ∧ s2.length < s.length := by
          have hs1' := negPart_suffix s
          have := intPart_shorter _ _ _ hip
          exact ⟨this.1.trans hs1', Nat.lt_of_lt_of_le this.2 hs1'.length_le⟩
        have h2 : s3 <:+ s2 := by
          split at hfp
          · split at hfp
            · simp at hfp
            · split at hfp
              · simp only [Except.ok.injEq, Prod.mk.injEq] at hfp
                obtain ⟨_, rfl⟩ := hfp
                exact (spanDigits_suffix _).trans (List.suffix_cons _ _)
              · simp at hfp
          · simp only [Except.ok.injEq, Prod.mk.injEq] at hfp
            obtain ⟨_, rfl⟩ := hfp
            exact List.suffix_refl _
        have h3 : s4 <:+ s3 := by
          split at hep
          · split at hep
            · rename_i e t _
              have hp := sgnPart_suffix t
              exact ((expPart_suffix e _ _ _ hep).trans hp).trans (List.suffix_cons _ _)
            · simp only [Except.ok.injEq, Prod.mk.injEq] at hep
              obtain ⟨_, rfl⟩ := hep
              exact List.suffix_refl _
          · simp only [Except.ok.injEq, Prod.mk.injEq] at hep
            obtain ⟨_, rfl⟩ := hep
            exact List.suffix_refl _
        exact ⟨(h3.trans h2).trans h1.1, by have := h3.length_le; have := h2.length_le; omega⟩


theorem scanScalar_shorter {s : Bytes} {tok : Tok} {r : Bytes} (h : scanScalar s = .ok (tok, r)) :
    Shorter r s := by
  unfold scanScalar at h
  split at h
  · simp at h
  · split at h
    · rename_i hs
      simp only [Except.ok.injEq, Prod.mk.injEq] at h
      obtain ⟨_, rfl⟩ := h
      exact (scanString_shorter hs).cons _
    · simp at h
  · split at h
    · rename_i hs
      simp only [Except.ok.injEq, Prod.mk.injEq] at h
      obtain ⟨_, rfl⟩ := h
      exact .of_suffix_cons _ (scanLit_suffix hs)
    · simp at h
  · split at h
    · rename_i hs
      simp only [Except.ok.injEq, Prod.mk.injEq] at h
      obtain ⟨_, rfl⟩ := h
      exact .of_suffix_cons _ (scanLit_suffix hs)
    · simp at h
  · split at h
    · rename_i hs
      simp only [Except.ok.injEq, Prod.mk.injEq] at h
      obtain ⟨_, rfl⟩ := h
      exact .of_suffix_cons _ (scanLit_suffix hs)
    · simp at h
  · split at h
    · split at h
      · rename_i hs
        simp only [Except.ok.injEq, Prod.mk.injEq] at h
        obtain ⟨_, rfl⟩ := h
        exact scanNumber_shorter hs
      · simp at h
    · simp at h

/-- every token consumes input: the remaining input is a proper suffix of the previous one -/
theorem tokenF_shorter {f : Nat} {d : Dec} {tok : Tok} {d' : Dec}
    (h : tokenF f d = .ok (tok, d')) : Shorter d'.rest d.rest := by
  induction f generalizing d with
  | zero => simp [tokenF] at h
  | succ f ih =>
    simp only [tokenF] at h
    split at h
    · simp at h
    · rename_i c t hsk
      have hsuf : (c :: t) <:+ d.rest := hsk ▸ skipSpace_suffix d.rest
      have ht : Shorter t d.rest := (Shorter.of_suffix_cons c (List.suffix_refl t)).trans_suffix hsuf
      repeat' split at h
      all_goals try (simp at h; done)
      all_goals try (
        simp only [Except.ok.injEq, Prod.mk.injEq] at h
        obtain ⟨_, rfl⟩ := h
        first
          | exact ht
          | exact (scanScalar_shorter ‹_›).trans_suffix hsuf)
      all_goals (
        have h2 := ih h
        exact ⟨h2.1.trans ht.1, Nat.lt_trans h2.2 ht.2⟩)


/-- result of a token read where a member value is expected -/
def ValueStep (S : List TState) (tok : Tok) (d' : Dec) : Prop :=
  (tok = .delim 91 ∧ d'.st = .arrayStart ∧ d'.stack = .objectValue :: S) ∨
  (tok = .delim 123 ∧ d'.st = .objectStart ∧ d'.stack = .objectValue :: S) ∨
  ((∀ c, tok ≠ .delim c) ∧ d'.st = .objectComma ∧ d'.stack = S)

theorem tokenF_objectValue' {f : Nat} {rest : Bytes} {S : List TState} {tok : Tok} {d' : Dec}
    (h : tokenF f ⟨rest, .objectValue, S⟩ = .ok (tok, d')) : ValueStep S tok d' := by
  cases f with
  | zero => simp [tokenF] at h
  | succ f =>
    simp only [tokenF] at h
    split at h
    · simp at h
    · repeat' split at h
      all_goals try (simp_all [valueAllowed]; done)
      all_goals (
        simp only [Except.ok.injEq, Prod.mk.injEq] at h
        obtain ⟨rfl, rfl⟩ := h)
      · exact .inl ⟨rfl, rfl, rfl⟩
      · exact .inr (.inl ⟨rfl, rfl, rfl⟩)
      · exact .inr (.inr ⟨scanScalar_not_delim ‹_›, rfl, rfl⟩)

theorem tokenF_objectColon' {f : Nat} {rest : Bytes} {S : List TState} {tok : Tok} {d' : Dec}
    (h : tokenF f ⟨rest, .objectColon, S⟩ = .ok (tok, d')) : ValueStep S tok d' := by
  cases f with
  | zero => simp [tokenF] at h
  | succ f =>
    simp only [tokenF] at h
    split at h
    · simp at h
    · repeat' split at h
      all_goals try (simp_all [valueAllowed]; done)
      exact tokenF_objectValue' h


theorem skipSpace_eq_nil {s : Bytes} : skipSpace s = [] ↔ allSpace s = true := by
  induction s with
  | nil => simp [skipSpace, allSpace]
  | cons c t ih =>
    unfold skipSpace
    by_cases hc : isSpace c = true
    · rw [if_pos hc, ih]; simp [allSpace, hc]
    · rw [if_neg hc]; simp [allSpace, hc]

theorem scanString_ne_eof (s acc : Bytes) : scanString s acc ≠ .error .eof := by
  induction s, acc using scanString.induct with
  | case1 => simp [scanString]
  | case2 t acc => simp [scanString]
  | case3 => simp [scanString]
  | case4 acc a b c d t hx ih => simpa only [scanString, hx, if_true] using ih
  | case5 acc a b c d t hx => simp [scanString, hx]
  | case6 acc t' hh hne => simp only [scanString]; split <;> simp
  | case7 acc t' hh hne => simp only [scanString]; split <;> simp
  | case8 acc e t' hne he ih =>
    rw [scanString.eq_def]; simp only; rw [if_pos he]; exact ih
  | case9 acc e t' hne he =>
    rw [scanString.eq_def]; simp only; rw [if_neg he]; simp
  | case10 c t acc h1 h2 h3 =>
    rw [scanString.eq_def]; simp only; rw [if_pos h3]; simp
  | case11 c t acc h1 h2 h3 ih =>
    rw [scanString.eq_def]; simp only; rw [if_neg h3]; exact ih

theorem scanLit_ne_eof (want s : Bytes) : scanLit want s ≠ .error .eof := by
  induction want, s using scanLit.induct with
  | case1 r' => simp [scanLit]
  | case2 => simp [scanLit]
  | case3 ws c t ih => simpa only [scanLit, if_true] using ih
  | case4 w ws c t hne => simp [scanLit, hne]

theorem scanNumber_ne_eof (s : Bytes) : scanNumber s ≠ .error .eof := by
  intro h
  unfold scanNumber at h
  simp only at h
  repeat' split at h
  all_goals try (simp at h; done)
  all_goals (
    simp only [Except.error.injEq] at h
    subst h
    rename_i heq
    repeat' split at heq
    all_goals simp at heq)

theorem scanScalar_ne_eof (c : Nat) (t : Bytes) : scanScalar (c :: t) ≠ .error .eof := by
  intro h
  unfold scanScalar at h
  split at h
  · rename_i heq; simp at heq
  · split at h
    · simp at h
    · rename_i e he
      simp only [Except.error.injEq] at h; subst h
      exact scanString_ne_eof _ _ he
  · split at h
    · simp at h
    · rename_i e he
      simp only [Except.error.injEq] at h; subst h
      exact scanLit_ne_eof _ _ he
  · split at h
    · simp at h
    · rename_i e he
      simp only [Except.error.injEq] at h; subst h
      exact scanLit_ne_eof _ _ he
  · split at h
    · simp at h
    · rename_i e he
      simp only [Except.error.injEq] at h; subst h
      exact scanLit_ne_eof _ _ he
  · split at h
    · split at h
      · simp at h
      · rename_i e he
        simp only [Except.error.injEq] at h; subst h
        exact scanNumber_ne_eof _ he
    · simp at h

/-- at the top level (`st = topValue`) `Token` reports `io.EOF` exactly when only white space is left -/
theorem token_topValue_eof {rest : Bytes} {S : List TState} :
    Dec.token ⟨rest, .topValue, S⟩ = .error .eof ↔ allSpace rest = true := by
  rw [← skipSpace_eq_nil]
  unfold Dec.token
  simp only [tokenF]
  constructor
  · intro h
    split at h
    · assumption
    · exfalso
      repeat' split at h
      all_goals try (simp_all [valueAllowed]; done)
      all_goals (
        simp only [Except.error.injEq] at h; subst h
        exact scanScalar_ne_eof _ _ ‹_›)
  · intro h
    rw [h]

/-- the first token of a top-level value -/
def TopStep (S : List TState) (tok : Tok) (d' : Dec) : Prop :=
  (tok = .delim 91 ∧ d'.st = .arrayStart ∧ d'.stack = .topValue :: S) ∨
  (tok = .delim 123 ∧ d'.st = .objectStart ∧ d'.stack = .topValue :: S) ∨
  ((∀ c, tok ≠ .delim c) ∧ d'.st = .topValue ∧ d'.stack = S)

theorem tokenF_topValue' {f : Nat} {rest : Bytes} {S : List TState} {tok : Tok} {d' : Dec}
    (h : tokenF f ⟨rest, .topValue, S⟩ = .ok (tok, d')) : TopStep S tok d' := by
  cases f with
  | zero => simp [tokenF] at h
  | succ f =>
    simp only [tokenF] at h
    split at h
    · simp at h
    · repeat' split at h
      all_goals try (simp_all [valueAllowed]; done)
      all_goals (
        simp only [Except.ok.injEq, Prod.mk.injEq] at h
        obtain ⟨rfl, rfl⟩ := h)
      · exact .inl ⟨rfl, rfl, rfl⟩
      · exact .inr (.inl ⟨rfl, rfl, rfl⟩)
      · exact .inr (.inr ⟨scanScalar_not_delim ‹_›, rfl, rfl⟩)


/-! ## the same facts for an arbitrary decoder value and `Dec.token` -/

/-- 1(a): where a member key is expected the next token is a string and the decoder then expects `:` -/
theorem token_key {d : Dec} {tok : Tok} {d' : Dec}
    (hst : ((d.st = .objectStart ∨ d.st = .objectComma) ∧ d.more = true) ∨ d.st = .objectKey)
    (h : d.token = .ok (tok, d')) :
    (∃ s, tok = .str s) ∧ d'.st = .objectColon ∧ d'.stack = d.stack := by
  obtain ⟨rest, st, S⟩ := d
  simp only at hst
  unfold Dec.token at h
  rcases hst with ⟨hst | hst, hm⟩ | hst <;> subst hst
  · exact tokenF_objectStart' hm h
  · exact tokenF_objectComma' hm h
  · exact tokenF_objectKey' h

/-- 1(b): after a member key the next token is a scalar (then `,`/`}` is expected and the stack is
unchanged) or an opening delimiter (then the member's frame `objectValue` has been pushed) -/
theorem token_value {d : Dec} {tok : Tok} {d' : Dec} (hst : d.st = .objectColon)
    (h : d.token = .ok (tok, d')) : ValueStep d.stack tok d' := by
  obtain ⟨rest, st, S⟩ := d
  simp only at hst
  subst hst
  exact tokenF_objectColon' h

/-- 1(c): the stack discipline of `Dec.token` -/
theorem token_stackStep {d : Dec} {tok : Tok} {d' : Dec} (h : d.token = .ok (tok, d')) :
    StackStep d tok d' := tokenF_stackStep h

theorem token_shorter {d : Dec} {tok : Tok} {d' : Dec} (h : d.token = .ok (tok, d')) :
    Shorter d'.rest d.rest := tokenF_shorter h

theorem token_top {d : Dec} {tok : Tok} {d' : Dec} (hst : d.st = .topValue)
    (h : d.token = .ok (tok, d')) : TopStep d.stack tok d' := by
  obtain ⟨rest, st, S⟩ := d
  simp only at hst
  subst hst
  exact tokenF_topValue' h

end U.JsonTokens
