import UtilModel.Model.UU
/-! # Hexadecimal codec lemmas (analogue of `Lemmas/Dec.lean`) -/
namespace U

theorem fixedHex_length (w n : Nat) : (fixedHex w n).length = w := by
  induction w generalizing n with
  | zero => rfl
  | succ w ih => simp [fixedHex, ih]

/-- digit `k` (most significant first) of `fixedHex w n` -/
theorem fixedHex_getElem? (w n k : Nat) (h : k < w) :
    (fixedHex w n)[k]? = some (hexDigit (n / 16 ^ (w - 1 - k) % 16)) := by
  induction w generalizing n k with
  | zero => omega
  | succ w ih =>
    simp only [fixedHex]
    by_cases hk : k < w
    · rw [List.getElem?_append_left (by rw [fixedHex_length]; exact hk), ih _ _ hk]
      have : w + 1 - 1 - k = (w - 1 - k) + 1 := by omega
      rw [this, Nat.pow_succ, Nat.mul_comm, Nat.div_div_eq_div_mul]
    · have : k = w := by omega
      subst this
      rw [List.getElem?_append_right (by rw [fixedHex_length]; omega), fixedHex_length]
      simp

theorem nhexF_le (f k n : Nat) (hk1 : 1 ≤ k) (hn : n < 16 ^ k) : nhexF f n ≤ k := by
  induction f generalizing n k with
  | zero => simp [nhexF]
  | succ f ih =>
    simp only [nhexF]
    split
    · omega
    · rename_i h16
      cases k with
      | zero => omega
      | succ k =>
        have hk1' : 1 ≤ k := by
          cases k with
          | zero => simp at hn; omega
          | succ k => omega
        have hn' : n / 16 < 16 ^ k := by
          rw [Nat.pow_succ] at hn
          exact Nat.div_lt_of_lt_mul (by rw [Nat.mul_comm]; exact hn)
        have := ih k (n / 16) hk1' hn'
        omega

theorem nhex_le (k n : Nat) (hk1 : 1 ≤ k) (hn : n < 16 ^ k) : nhex n ≤ k :=
  nhexF_le _ k n hk1 hn

/-- `%0Wx` of a number below `16^w` is exactly `w` digits -/
theorem padHex_small (w n : Nat) (hw : 1 ≤ w) (h : n < 16 ^ w) : padHex w n = fixedHex w n := by
  unfold padHex
  have := nhex_le w n hw h
  rw [Nat.max_eq_left this]

theorem hexDigit_lower (v : Nat) (h : v < 16) :
    (48 ≤ hexDigit v ∧ hexDigit v ≤ 57) ∨ (97 ≤ hexDigit v ∧ hexDigit v ≤ 102) := by
  unfold hexDigit; split <;> omega

theorem fixedHex8 (n : Nat) : fixedHex 8 n =
    [hexDigit (n / 268435456 % 16), hexDigit (n / 16777216 % 16), hexDigit (n / 1048576 % 16),
     hexDigit (n / 65536 % 16), hexDigit (n / 4096 % 16), hexDigit (n / 256 % 16),
     hexDigit (n / 16 % 16), hexDigit (n % 16)] := by
  simp [fixedHex, Nat.div_div_eq_div_mul]

theorem fixedHex4 (n : Nat) : fixedHex 4 n =
    [hexDigit (n / 4096 % 16), hexDigit (n / 256 % 16), hexDigit (n / 16 % 16), hexDigit (n % 16)] := by
  simp [fixedHex, Nat.div_div_eq_div_mul]

theorem fixedHex12 (n : Nat) : fixedHex 12 n =
    [hexDigit (n / 17592186044416 % 16), hexDigit (n / 1099511627776 % 16),
     hexDigit (n / 68719476736 % 16), hexDigit (n / 4294967296 % 16),
     hexDigit (n / 268435456 % 16), hexDigit (n / 16777216 % 16), hexDigit (n / 1048576 % 16),
     hexDigit (n / 65536 % 16), hexDigit (n / 4096 % 16), hexDigit (n / 256 % 16),
     hexDigit (n / 16 % 16), hexDigit (n % 16)] := by
  simp [fixedHex, Nat.div_div_eq_div_mul]

end U
