import UtilModel.Model.LockProto
namespace U.LockProto

/-- completed calls hold aligned consecutive pairs: the k-th has positions (2k, 2k+1) -/
def DoneOk : List (Nat × Nat × Nat) → Nat → Prop
  | [], _ => True
  | (_, a, b) :: rest, k => a = 2 * k ∧ b = 2 * k + 1 ∧ DoneOk rest (k + 1)

theorem doneOk_append (l : List (Nat × Nat × Nat)) (k t a b : Nat) (h : DoneOk l k)
    (ha : a = 2 * (k + l.length)) (hb : b = a + 1) : DoneOk (l ++ [(t, a, b)]) k := by
  induction l generalizing k with
  | nil => simp [DoneOk] at *; omega
  | cons x xs ih =>
    obtain ⟨t', a', b'⟩ := x
    simp only [DoneOk, List.cons_append] at h ⊢
    refine ⟨h.1, h.2.1, ih (k + 1) h.2.2 ?_⟩
    simp only [List.length_cons] at ha; omega

structure Inv (s : St) : Prop where
  excl : ∀ t, s.pcs t ≠ .idle → s.holder = some t
  held : ∀ t, s.holder = some t → s.pcs t ≠ .idle
  free : s.holder = none → s.pos = 2 * s.done.length
  inCS : ∀ t, s.holder = some t →
    (s.pcs t = .locked → s.pos = 2 * s.done.length) ∧
    (∀ a, s.pcs t = .drew1 a → a = 2 * s.done.length ∧ s.pos = a + 1) ∧
    (∀ a b, s.pcs t = .drew2 a b → a = 2 * s.done.length ∧ b = a + 1 ∧ s.pos = a + 2)
  done : DoneOk s.done 0

theorem inv_init : Inv init := by
  refine ⟨?_, ?_, ?_, ?_, ?_⟩ <;> simp [init, DoneOk]

theorem inv_step (s : St) (t : Nat) (h : Inv s) : Inv (step s t) := by
  obtain ⟨excl, held, free, inCS, hdone⟩ := h
  unfold step
  cases hp : s.pcs t with
  | idle =>
    simp only
    split
    · rename_i hfree
      refine ⟨?_, ?_, ?_, ?_, hdone⟩
      · intro u hu
        simp only [setPC] at hu
        by_cases e : u = t
        · subst e; rfl
        · rw [if_neg e] at hu
          have := excl u hu; rw [hfree] at this; cases this
      · intro u hu
        simp only [Option.some.injEq] at hu
        subst hu
        simp [setPC]
      · intro hn; cases hn
      · intro u hu
        simp only [Option.some.injEq] at hu
        subst hu
        simp only [setPC, if_true]
        refine ⟨fun _ => free hfree, ?_, ?_⟩ <;> intros <;> simp_all
    · exact ⟨excl, held, free, inCS, hdone⟩
  | locked =>
    have hh : s.holder = some t := excl t (by rw [hp]; simp)
    have hpos := (inCS t hh).1 hp
    refine ⟨?_, ?_, ?_, ?_, hdone⟩
    · intro u hu
      simp only [setPC] at hu
      by_cases e : u = t
      · subst e; exact hh
      · rw [if_neg e] at hu; exact excl u hu
    · intro u hu
      simp only at hu
      have : u = t := by rw [hh] at hu; cases hu; rfl
      subst this; simp [setPC]
    · intro hn; simp only at hn; rw [hh] at hn; cases hn
    · intro u hu
      simp only at hu
      have : u = t := by rw [hh] at hu; cases hu; rfl
      subst this
      simp only [setPC, if_true]
      refine ⟨(by intro h; cases h), ?_, (by intro a b h; cases h)⟩
      intro a ha
      simp only [PC.drew1.injEq] at ha
      subst ha
      exact ⟨hpos, rfl⟩
  | drew1 a =>
    have hh : s.holder = some t := excl t (by rw [hp]; simp)
    have ha := (inCS t hh).2.1 a hp
    refine ⟨?_, ?_, ?_, ?_, hdone⟩
    · intro u hu
      simp only [setPC] at hu
      by_cases e : u = t
      · subst e; exact hh
      · rw [if_neg e] at hu; exact excl u hu
    · intro u hu
      simp only at hu
      have : u = t := by rw [hh] at hu; cases hu; rfl
      subst this; simp [setPC]
    · intro hn; simp only at hn; rw [hh] at hn; cases hn
    · intro u hu
      simp only at hu
      have : u = t := by rw [hh] at hu; cases hu; rfl
      subst this
      simp only [setPC, if_true]
      refine ⟨(by intro h; cases h), (by intro a h; cases h), ?_⟩
      intro a' b' hab
      simp only [PC.drew2.injEq] at hab
      obtain ⟨rfl, rfl⟩ := hab
      exact ⟨ha.1, ha.2.symm ▸ rfl, by omega⟩
  | drew2 a b =>
    have hh : s.holder = some t := excl t (by rw [hp]; simp)
    have hab := (inCS t hh).2.2 a b hp
    refine ⟨?_, ?_, ?_, ?_, ?_⟩
    · intro u hu
      simp only [setPC] at hu
      by_cases e : u = t
      · subst e; simp at hu
      · rw [if_neg e] at hu
        have := excl u hu
        rw [hh] at this; cases this; exact absurd rfl e
    · intro u hu; cases hu
    · intro _
      simp only [List.length_append, List.length_singleton]
      omega
    · intro u hu; cases hu
    · exact doneOk_append s.done 0 t a b hdone (by omega) hab.2.1

theorem inv_exec (sched : List Nat) : Inv (exec sched) := by
  unfold exec
  have : ∀ s, Inv s → Inv (sched.foldl step s) := by
    induction sched with
    | nil => intro s h; exact h
    | cons t ts ih => intro s h; exact ih _ (inv_step s t h)
  exact this _ inv_init

end U.LockProto
