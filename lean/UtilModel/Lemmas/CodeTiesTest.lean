import UtilModel.Model.TestKit
import UtilModel.Gen.Facts
import UtilModel.Lemmas.TieTactics
/-! # package `test`: the model agrees with the constraint predicates translated from the source on this run -/
namespace U.CodeTies
open U

theorem isFor_tie (c : Nat) : TestKit.isForMarshal c = Gen.test_isForMarshal c ∧ TestKit.isForUnmarshal c = Gen.test_isForUnmarshal c := by
  unfold TestKit.isForMarshal TestKit.isForUnmarshal Gen.test_isForMarshal Gen.test_isForUnmarshal
  constructor <;> first | rfl | boolprop

end U.CodeTies
