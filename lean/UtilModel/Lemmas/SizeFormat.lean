import UtilModel.Model.Size
import UtilModel.Lemmas.Dec
namespace U.Size
open U

theorem and_mask (v : Nat) : v &&& Gen.size_shortenMask = v % 1024 := by
  show v &&& 1023 = v % 1024
  exact Nat.and_two_pow_sub_one_eq_mod v 10

theorem shr_shift (v : Nat) : v >>> Gen.size_shortenShift = v / 1024 := by
  show v >>> 10 = v / 1024
  rw [Nat.shiftRight_eq_div_pow]

/-- the loop stops at the first position where the remaining value is not a multiple of 1024 -/
theorem shortenLoop_spec (us : List Bytes) (v : Nat) :
    ∃ j, j ≤ us.length ∧ v = (shortenLoop us v).1 * 1024 ^ j ∧
      (j < us.length → (shortenLoop us v).1 % 1024 ≠ 0 ∧ us[j]? = some (shortenLoop us v).2) ∧
      (j = us.length → (shortenLoop us v).2 = Gen.size_shortenLast) := by
  induction us generalizing v with
  | nil => exact ⟨0, by simp, by simp [shortenLoop], by simp, by simp [shortenLoop]⟩
  | cons u us ih =>
    unfold shortenLoop
    rw [and_mask, shr_shift]
    by_cases h : v % 1024 ≠ 0
    · rw [if_pos h]
      exact ⟨0, by simp, by simp, fun _ => ⟨h, by simp⟩, by simp⟩
    · rw [if_neg h]
      obtain ⟨j, hj, hv, h1, h2⟩ := ih (v / 1024)
      refine ⟨j + 1, by simp; omega, ?_, ?_, ?_⟩
      · rw [Nat.pow_succ, ← Nat.mul_assoc, ← hv]; omega
      · intro hlt
        have := h1 (by simp at hlt; omega)
        exact ⟨this.1, by simpa using this.2⟩
      · intro he
        exact h2 (by simp at he; omega)


/-- each digit followed by the separator exactly when `cond` of its index holds -/
def withSeps (sep : Bytes) (cond : Nat → Bool) : Bytes → Nat → Bytes
  | [], _ => []
  | d :: ds, i => (if cond i then d :: sep else [d]) ++ withSeps sep cond ds (i + 1)

theorem groupLoop_eq (sep : Bytes) (offset : Nat) (ds : Bytes) (i : Nat) :
    groupLoop sep offset ds i = withSeps sep (fun k => decide ((k + offset) % 3 = 2)) ds i := by
  induction ds generalizing i with
  | nil => rfl
  | cons d ds ih => simp only [groupLoop, withSeps, ih, decide_eq_true_eq]

theorem withSeps_congr (sep : Bytes) (c1 c2 : Nat → Bool) (ds : Bytes) (i : Nat)
    (h : ∀ k, i ≤ k → k < i + ds.length → c1 k = c2 k) : withSeps sep c1 ds i = withSeps sep c2 ds i := by
  induction ds generalizing i with
  | nil => rfl
  | cons d ds ih =>
    simp only [withSeps]
    rw [h i (Nat.le_refl _) (by simp), ih (i + 1) (fun k hk1 hk2 => h k (by omega) (by simp at hk2 ⊢; omega))]

theorem withSeps_nil (cond : Nat → Bool) (ds : Bytes) (i : Nat) : withSeps [] cond ds i = ds := by
  induction ds generalizing i with
  | nil => rfl
  | cons d ds ih => simp [withSeps, ih]

end U.Size
