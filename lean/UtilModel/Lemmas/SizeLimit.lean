import UtilModel.Model.Size
namespace U.Size
open U U.GoJson

theorem jerr_ne (e : JErr) : jerr e ≠ .tooLong := by cases e <;> simp [jerr]

theorem newSize_ne (v : Nat) (u : Bytes) : newSize v u ≠ .err .tooLong := by
  unfold newSize
  repeat' split
  all_goals simp

theorem unmarshalText_ne (du : Bool) (s : Bytes) : unmarshalText du s ≠ .err .tooLong := by
  unfold unmarshalText
  simp only
  repeat' split
  all_goals first | (simp; done) | exact newSize_ne _ _

theorem parseUintLit_ne (l : Bytes) : parseUintLit l ≠ .err .tooLong := by
  unfold parseUintLit
  repeat' split
  all_goals simp

theorem decodeValue_ne (d : Dec) : decodeValue d ≠ .err .tooLong := by
  unfold decodeValue
  split
  · simp [jerr_ne]
  · unfold Outcome.map
    have := parseUintLit_ne ‹_›
    split <;> simp_all
  · simp

theorem decodeUnit_ne (d : Dec) : decodeUnit d ≠ .err .tooLong := by
  unfold decodeUnit
  split <;> simp [jerr_ne]

theorem skipLoop_ne (f depth : Nat) (d : Dec) : skipLoop f depth d ≠ .err .tooLong := by
  induction f generalizing depth d with
  | zero => simp [skipLoop]
  | succ f ih =>
    have aux : ∀ (X : Int) (d' : Dec), (if X = 0 then Outcome.ok d' else skipLoop f X.toNat d') ≠ .err .tooLong := by
      intro X d'
      split
      · simp
      · exact ih _ _
    simp only [skipLoop]
    split
    · simp [jerr_ne]
    · exact aux _ _

theorem decodeAndSkipNested_ne (d : Dec) : decodeAndSkipNested d ≠ .err .tooLong := by
  unfold decodeAndSkipNested
  split
  · simp [jerr_ne]
  · exact skipLoop_ne _ _ _
  · simp

theorem newOrError_ne (v : Option Nat) (u : Option Bytes) : newOrError v u ≠ .err .tooLong := by
  unfold newOrError
  split
  · simp
  · simp
  · exact newSize_ne _ _

theorem objectLoop_ne (mk : Nat) (du : Bool) (f i : Nat) (d : Dec) (v : Option Nat) (u : Option Bytes) :
    objectLoop mk du f i d v u ≠ .err .tooLong := by
  induction f generalizing i d v u with
  | zero => simp [objectLoop]
  | succ f ih =>
    simp only [objectLoop]
    split
    · simp
    · split
      · unfold Outcome.map
        have := newOrError_ne v u
        split <;> simp_all
      · split
        · simp [jerr_ne]
        · split
          · split
            · simp
            · have := decodeValue_ne ‹_›
              split
              · exact ih _ _ _ _
              · simp_all
              · simp
          · split
            · split
              · simp
              · have := decodeUnit_ne ‹_›
                split
                · exact ih _ _ _ _
                · simp_all
                · simp
            · split
              · simp
              · have := decodeAndSkipNested_ne ‹_›
                split
                · exact ih _ _ _ _
                · simp_all
                · simp
        · simp

theorem expectEOF_ne (d : Dec) : expectEOF d ≠ .err .tooLong := by
  unfold expectEOF
  split
  · simp
  · simp [jerr_ne]
  · simp

theorem unmarshalJSON_ne (mk : Nat) (r : Rule) (s : Bytes) : unmarshalJSON mk r s ≠ .err .tooLong := by
  unfold unmarshalJSON
  split
  · simp [jerr_ne]
  · split
    · simp
    · split
      · simp
      · have := objectLoop_ne mk r.disallowUnknown (s.length + 2) 0 ‹_› none none
        split
        · simp_all
        · simp
        · split
          · simp
          · simp [jerr_ne]
          · unfold Outcome.map
            have := expectEOF_ne ‹_›
            split <;> simp_all
          · simp
  · unfold Outcome.bind
    have := expectEOF_ne ‹_›
    split
    · exact unmarshalText_ne _ _
    · simp_all
    · simp
  · split
    · simp
    · unfold Outcome.bind
      have := expectEOF_ne ‹_›
      split
      · exact unmarshalText_ne _ _
      · simp_all
      · simp
  · simp

theorem parse_limit (maxLen maxKeys : Nat) (r : Rule) (s : Bytes) :
    parse maxLen maxKeys r s = .err .tooLong ↔ maxLen ≠ 0 ∧ s.length > maxLen := by
  constructor
  · intro h
    unfold parse at h
    split at h
    · assumption
    · exfalso
      split at h
      · exact unmarshalJSON_ne _ _ _ h
      · exact unmarshalText_ne _ _ h
  · intro h
    unfold parse
    rw [if_pos h]

end U.Size
