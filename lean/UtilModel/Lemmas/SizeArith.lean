import UtilModel.Model.Size
import UtilModel.Lemmas.Dec
import UtilModel.Spec.SizeText
namespace U.Size
open U U.Props.C08

theorem two64_eq : two64 = 2 ^ 64 := by decide

theorem unitTable_eq : Gen.size_unitToValues =
    [([66], 1), ([107, 66], 1000), ([77, 66], 1000 ^ 2), ([71, 66], 1000 ^ 3), ([84, 66], 1000 ^ 4),
     ([80, 66], 1000 ^ 5), ([69, 66], 1000 ^ 6), ([75, 105, 66], 1024), ([77, 105, 66], 1024 ^ 2),
     ([71, 105, 66], 1024 ^ 3), ([84, 105, 66], 1024 ^ 4), ([80, 105, 66], 1024 ^ 5),
     ([69, 105, 66], 1024 ^ 6)] := by decide

theorem lookupUnit_eq_mult (u : Bytes) : lookupUnit u = mult u := by
  unfold lookupUnit
  rw [unitTable_eq]
  generalize hm : mult u = r
  unfold mult at hm
  split at hm <;> subst hm <;> first | rfl | skip
  rename_i h1 h2 h3 h4 h5 h6 h7 h8 h9 h10 h11 h12 h13
  have e : ∀ (k : Bytes), (u = k → False) → (k == u) = false := by
    intro k hk
    cases hb : k == u
    · rfl
    · exact absurd (beq_iff_eq.mp hb).symm hk
  simp only [List.find?_cons, List.find?_nil, e _ h1, e _ h2, e _ h3, e _ h4, e _ h5, e _ h6, e _ h7,
    e _ h8, e _ h9, e _ h10, e _ h11, e _ h12, e _ h13]

theorem mult_ne_none_iff (u : Bytes) : mult u ≠ none ↔ u ∈ unitNames := by
  constructor
  · intro h
    unfold mult at h
    split at h <;> first | (simp [unitNames]; done) | exact absurd rfl h
  · intro h
    simp only [unitNames, List.mem_cons, List.not_mem_nil, or_false] at h
    rcases h with h | h | h | h | h | h | h | h | h | h | h | h | h <;> subst h <;> simp [mult]

theorem zeroUnits_mem (u : Bytes) :
    u ∈ Gen.size_zeroUnits ↔ u = [] ∨ u ∈ unitNames ∨ u ∈ bigUnits := by
  simp only [Gen.size_zeroUnits, unitNames, bigUnits, List.mem_cons, List.not_mem_nil, or_false]
  constructor
  · intro h
    rcases h with h | h | h | h | h | h | h | h | h | h | h | h | h | h | h | h | h | h <;> simp [h]
  · intro h
    rcases h with h | (h | h | h | h | h | h | h | h | h | h | h | h | h) | (h | h | h | h) <;> simp [h]

theorem mult_nil : mult [] = none := rfl

theorem mult_big (u : Bytes) (h : u ∈ bigUnits) : mult u = none := by
  simp only [bigUnits, List.mem_cons, List.not_mem_nil, or_false] at h
  rcases h with h | h | h | h <;> subst h <;> rfl


theorem contains_zeroUnits (u : Bytes) :
    Gen.size_zeroUnits.contains u = true ↔ u = [] ∨ mult u ≠ none ∨ u ∈ bigUnits := by
  rw [List.contains_iff_mem, zeroUnits_mem, mult_ne_none_iff]

theorem newSize_zero (u : Bytes) :
    newSize 0 u = if u = [] ∨ mult u ≠ none ∨ u ∈ bigUnits then .ok 0 else .err .invalidUnit := by
  unfold newSize
  rw [if_pos rfl]
  by_cases h : Gen.size_zeroUnits.contains u = true
  · rw [if_pos h, if_pos ((contains_zeroUnits u).mp h)]
  · rw [if_neg h, if_neg (fun h' => h ((contains_zeroUnits u).mpr h'))]

theorem newSize_pos (v : Nat) (u : Bytes) (hv : 0 < v) :
    newSize v u = if u = [] then .ok v else
      match mult u with
      | none => .err .invalidUnit
      | some m => if v * m < 2 ^ 64 then .ok (v * m) else .err .invalidValue := by
  unfold newSize
  rw [if_neg (by omega), lookupUnit_eq_mult, two64_eq]
  cases u with
  | nil => rfl
  | cons c t =>
    simp only [List.isEmpty_cons, Bool.false_eq_true, if_false, reduceCtorEq]
    cases mult (c :: t) with
    | none => rfl
    | some m =>
      simp only
      by_cases h : v * m < 2 ^ 64
      · rw [if_neg (by omega), if_pos h]
      · rw [if_pos (by omega), if_neg h]

theorem div_exact_iff (a d v : Nat) (hd : 0 < d) : (a % d = 0 ∧ a / d = v) ↔ a = v * d := by
  constructor
  · rintro ⟨h1, rfl⟩
    have := Nat.div_add_mod a d
    rw [h1, Nat.mul_comm] at this
    omega
  · rintro rfl
    exact ⟨Nat.mul_mod_left _ _, Nat.mul_div_cancel _ hd⟩

theorem finToNat_some (m e : Int) (v : Nat) :
    finToNat m e = some v ↔
      0 ≤ m ∧ v < 2 ^ 64 ∧
        ((0 ≤ e ∧ v = m.toNat * 2 ^ e.toNat) ∨ (e < 0 ∧ m.toNat = v * 2 ^ (-e).toNat)) := by
  unfold finToNat
  rw [two64_eq]
  by_cases hm : m < 0
  · rw [if_pos hm]
    constructor
    · intro h; simp at h
    · intro h; omega
  · rw [if_neg hm]
    by_cases he : e ≥ 0
    · rw [if_pos he]
      simp only
      constructor
      · intro h
        split at h
        · rename_i hlt
          have : m.toNat * 2 ^ e.toNat = v := by simpa using h
          exact ⟨by omega, by omega, .inl ⟨he, this.symm⟩⟩
        · simp at h
      · rintro ⟨_, hlt, ⟨_, rfl⟩ | ⟨h, _⟩⟩
        · rw [if_pos hlt]
        · omega
    · rw [if_neg he]
      simp only
      have hd : 0 < 2 ^ (-e).toNat := Nat.pow_pos (by decide)
      generalize 2 ^ (-e).toNat = d at hd
      constructor
      · intro h
        split at h
        · rename_i hmod
          split at h
          · rename_i hlt
            have hq : m.toNat / d = v := by simpa using h
            exact ⟨by omega, by omega, .inr ⟨by omega, (div_exact_iff _ _ _ hd).mp ⟨hmod, hq⟩⟩⟩
          · simp at h
        · simp at h
      · rintro ⟨_, hlt, ⟨h, _⟩ | ⟨_, h⟩⟩
        · omega
        · obtain ⟨h1, h2⟩ := (div_exact_iff _ _ _ hd).mpr h
          rw [if_pos h1, h2, if_pos hlt]

end U.Size
