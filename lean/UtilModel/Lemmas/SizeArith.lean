import UtilModel.Model.Size
import UtilModel.Lemmas.Dec
import UtilModel.Spec.SizeText
/-! # Helper lemmas for C08 (size arithmetic, text scanner, `Bytes[N]`) -/
namespace U.Size
open U U.Props.C08

theorem two64_eq : two64 = 2 ^ 64 := by decide

/-- the generated unit table (emitted in the extractor's canonical order: a Go map literal is unordered) -/
theorem unitTable_eq : Gen.size_unitToValues =
    [([107, 66], 1000), ([66], 1), ([69, 105, 66], 1024 ^ 6), ([69, 66], 1000 ^ 6), ([71, 105, 66], 1024 ^ 3),
     ([71, 66], 1000 ^ 3), ([75, 105, 66], 1024), ([77, 105, 66], 1024 ^ 2), ([77, 66], 1000 ^ 2),
     ([80, 105, 66], 1024 ^ 5), ([80, 66], 1000 ^ 5), ([84, 105, 66], 1024 ^ 4), ([84, 66], 1000 ^ 4)] := by decide

theorem lookupUnit_eq_mult (u : Bytes) : lookupUnit u = mult u := by
  unfold lookupUnit
  rw [unitTable_eq]
  generalize hm : mult u = r
  unfold mult at hm
  split at hm <;> subst hm <;> first | rfl | skip
  rename_i h1 h2 h3 h4 h5 h6 h7 h8 h9 h10 h11 h12 h13
  have e : ∀ (k : Bytes), (u = k → False) → (k == u) = false := by
    intro k hk
    cases hb : k == u
    · rfl
    · exact absurd (beq_iff_eq.mp hb).symm hk
  simp only [List.find?_cons, List.find?_nil, e _ h1, e _ h2, e _ h3, e _ h4, e _ h5, e _ h6, e _ h7,
    e _ h8, e _ h9, e _ h10, e _ h11, e _ h12, e _ h13]

theorem mult_ne_none_iff (u : Bytes) : mult u ≠ none ↔ u ∈ unitNames := by
  constructor
  · intro h
    unfold mult at h
    split at h <;> first | (simp [unitNames]; done) | exact absurd rfl h
  · intro h
    simp only [unitNames, List.mem_cons, List.not_mem_nil, or_false] at h
    rcases h with h | h | h | h | h | h | h | h | h | h | h | h | h <;> subst h <;> simp [mult]

theorem zeroUnits_mem (u : Bytes) :
    u ∈ Gen.size_zeroUnits ↔ u = [] ∨ u ∈ unitNames ∨ u ∈ bigUnits := by
  simp only [Gen.size_zeroUnits, unitNames, bigUnits, List.mem_cons, List.not_mem_nil, or_false]
  constructor
  · intro h
    rcases h with h | h | h | h | h | h | h | h | h | h | h | h | h | h | h | h | h | h <;> simp [h]
  · intro h
    rcases h with h | (h | h | h | h | h | h | h | h | h | h | h | h | h) | (h | h | h | h) <;> simp [h]

theorem mult_nil : mult [] = none := rfl

theorem mult_big (u : Bytes) (h : u ∈ bigUnits) : mult u = none := by
  simp only [bigUnits, List.mem_cons, List.not_mem_nil, or_false] at h
  rcases h with h | h | h | h <;> subst h <;> rfl


theorem contains_zeroUnits (u : Bytes) :
    Gen.size_zeroUnits.contains u = true ↔ u = [] ∨ mult u ≠ none ∨ u ∈ bigUnits := by
  rw [List.contains_iff_mem, zeroUnits_mem, mult_ne_none_iff]

theorem newSize_zero (u : Bytes) :
    newSize 0 u = if u = [] ∨ mult u ≠ none ∨ u ∈ bigUnits then .ok 0 else .err .invalidUnit := by
  unfold newSize
  rw [if_pos rfl]
  by_cases h : Gen.size_zeroUnits.contains u = true
  · rw [if_pos h, if_pos ((contains_zeroUnits u).mp h)]
  · rw [if_neg h, if_neg (fun h' => h ((contains_zeroUnits u).mpr h'))]

theorem newSize_pos (v : Nat) (u : Bytes) (hv : 0 < v) :
    newSize v u = if u = [] then .ok v else
      match mult u with
      | none => .err .invalidUnit
      | some m => if v * m < 2 ^ 64 then .ok (v * m) else .err .invalidValue := by
  unfold newSize
  rw [if_neg (by omega), lookupUnit_eq_mult, two64_eq]
  cases u with
  | nil => rfl
  | cons c t =>
    simp only [List.isEmpty_cons, Bool.false_eq_true, if_false, reduceCtorEq]
    cases mult (c :: t) with
    | none => rfl
    | some m =>
      simp only
      by_cases h : v * m < 2 ^ 64
      · rw [if_neg (by omega), if_pos h]
      · rw [if_pos (by omega), if_neg h]

theorem div_exact_iff (a d v : Nat) (hd : 0 < d) : (a % d = 0 ∧ a / d = v) ↔ a = v * d := by
  constructor
  · rintro ⟨h1, rfl⟩
    have := Nat.div_add_mod a d
    rw [h1, Nat.mul_comm] at this
    omega
  · rintro rfl
    exact ⟨Nat.mul_mod_left _ _, Nat.mul_div_cancel _ hd⟩

theorem finToNat_some (m e : Int) (v : Nat) :
    finToNat m e = some v ↔
      0 ≤ m ∧ v < 2 ^ 64 ∧
        ((0 ≤ e ∧ v = m.toNat * 2 ^ e.toNat) ∨ (e < 0 ∧ m.toNat = v * 2 ^ (-e).toNat)) := by
  unfold finToNat
  rw [two64_eq]
  by_cases hm : m < 0
  · rw [if_pos hm]
    constructor
    · intro h; simp at h
    · intro h; omega
  · rw [if_neg hm]
    by_cases he : e ≥ 0
    · rw [if_pos he]
      simp only
      constructor
      · intro h
        split at h
        · rename_i hlt
          have : m.toNat * 2 ^ e.toNat = v := by simpa using h
          exact ⟨by omega, by omega, .inl ⟨he, this.symm⟩⟩
        · simp at h
      · rintro ⟨_, hlt, ⟨_, rfl⟩ | ⟨h, _⟩⟩
        · rw [if_pos hlt]
        · omega
    · rw [if_neg he]
      simp only
      have hd : 0 < 2 ^ (-e).toNat := Nat.pow_pos (by decide)
      generalize 2 ^ (-e).toNat = d at hd
      constructor
      · intro h
        split at h
        · rename_i hmod
          split at h
          · rename_i hlt
            have hq : m.toNat / d = v := by simpa using h
            exact ⟨by omega, by omega, .inr ⟨by omega, (div_exact_iff _ _ _ hd).mp ⟨hmod, hq⟩⟩⟩
          · simp at h
        · simp at h
      · rintro ⟨_, hlt, ⟨h, _⟩ | ⟨_, h⟩⟩
        · omega
        · obtain ⟨h1, h2⟩ := (div_exact_iff _ _ _ hd).mpr h
          rw [if_pos h1, h2, if_pos hlt]

/-! ## the text scanner -/

theorem isDigit_iff (c : Nat) : isDigit c = true ↔ Digit c := by
  simp only [isDigit, Digit, Bool.and_eq_true, decide_eq_true_eq]

/-! ### scanner steps -/

theorem pn_cons (c : Nat) (t n : Bytes) : prepareNumber (c :: t) n =
    if c = 32 then prepareNumber t n
    else if !n.isEmpty && c = 95 then prepareNumber t n
    else if isDigit c then prepareNumber t (c :: n)
    else match t with
      | c1 :: t' =>
        if !n.isEmpty && c = 0xC2 && c1 = 0xA0 then prepareNumber t' n
        else (n.reverse, trimRightSp (c :: t))
      | [] => (n.reverse, trimRightSp (c :: t)) := by
  rw [prepareNumber.eq_def]
  rfl

theorem pn_spaces (k : Nat) (s n : Bytes) :
    prepareNumber (List.replicate k 32 ++ s) n = prepareNumber s n := by
  induction k with
  | zero => rfl
  | succ k ih =>
    rw [List.replicate_succ, List.cons_append, pn_cons, if_pos rfl, ih]

theorem pn_digit (d : Nat) (s n : Bytes) (hd : Digit d) :
    prepareNumber (d :: s) n = prepareNumber s (d :: n) := by
  have h1 : d ≠ 32 := by unfold Digit at hd; omega
  have h2 : d ≠ 95 := by unfold Digit at hd; omega
  rw [pn_cons, if_neg h1]
  simp only [h2, decide_false, Bool.and_false, Bool.false_eq_true, if_false]
  rw [if_pos ((isDigit_iff d).mpr hd)]

theorem pn_sep (x : Sep) (s n : Bytes) (hn : n ≠ []) :
    prepareNumber (x.bytes ++ s) n = prepareNumber s n := by
  have hne : n.isEmpty = false := by cases n with
    | nil => exact absurd rfl hn
    | cons _ _ => rfl
  cases x with
  | sp => simp only [Sep.bytes, List.cons_append, List.nil_append]; rw [pn_cons, if_pos rfl]
  | us =>
    simp only [Sep.bytes, List.cons_append, List.nil_append]
    rw [pn_cons, if_neg (by decide)]
    simp only [hne, Bool.not_false, Bool.true_and, decide_true, if_true]
  | nbsp =>
    simp only [Sep.bytes, List.cons_append, List.nil_append]
    rw [pn_cons, if_neg (by decide)]
    simp only [hne, Bool.not_false, Bool.true_and]
    rw [if_neg (by decide), if_neg (by decide)]
    simp only [decide_true, Bool.and_self, if_true]

theorem pn_seps (xs : List Sep) (s n : Bytes) (hn : n ≠ []) :
    prepareNumber (xs.flatMap Sep.bytes ++ s) n = prepareNumber s n := by
  induction xs with
  | nil => rfl
  | cons x xs ih => rw [List.flatMap_cons, List.append_assoc, pn_sep x _ n hn, ih]

theorem pn_body (ds : List (Nat × List Sep)) (s n : Bytes) (hd : ∀ p ∈ ds, Digit p.1) :
    prepareNumber (body ds ++ s) n = prepareNumber s ((digitsOf ds).reverse ++ n) := by
  induction ds generalizing n with
  | nil => rfl
  | cons p ds ih =>
    have hp := hd p (List.mem_cons_self)
    have hds : ∀ q ∈ ds, Digit q.1 := fun q hq => hd q (List.mem_cons_of_mem _ hq)
    show prepareNumber ((p.1 :: p.2.flatMap Sep.bytes ++ body ds) ++ s) n = _
    rw [List.append_assoc, List.cons_append, pn_digit _ _ _ hp, pn_seps _ _ _ (by simp), ih _ hds]
    simp [digitsOf]

/-! ### trimming -/

theorem dropWhile_replicate (k : Nat) (s : Bytes) :
    (List.replicate k 32 ++ s).dropWhile (· == 32) = s.dropWhile (· == 32) := by
  induction k with
  | zero => rfl
  | succ k ih => rw [List.replicate_succ, List.cons_append, List.dropWhile_cons]; simp [ih]

theorem trimRightSp_append (u : Bytes) (k : Nat) (hl : u.getLast? ≠ some 32) :
    trimRightSp (u ++ List.replicate k 32) = u := by
  unfold trimRightSp
  rw [List.reverse_append, List.reverse_replicate, dropWhile_replicate]
  have : u.reverse.dropWhile (· == 32) = u.reverse := by
    rw [List.getLast?_eq_head?_reverse] at hl
    cases hr : u.reverse with
    | nil => rfl
    | cons c t =>
      rw [hr] at hl
      have hc : c ≠ 32 := by intro h; subst h; exact hl rfl
      rw [List.dropWhile_cons]
      simp [hc]
  rw [this, List.reverse_reverse]

theorem pn_unit (u : Bytes) (k : Nat) (n : Bytes) (hu : UnitOk u) :
    prepareNumber (u ++ List.replicate k 32) n = (n.reverse, u) := by
  obtain ⟨h32, h95, hdig, hnb, hlast⟩ := hu
  cases u with
  | nil =>
    have := pn_spaces k [] n
    rw [List.append_nil] at this
    rw [List.nil_append, this]; rfl
  | cons c t =>
    have hc32 : c ≠ 32 := by intro h; subst h; exact h32 rfl
    have hc95 : c ≠ 95 := by intro h; subst h; exact h95 rfl
    have hcd : isDigit c = false := by
      cases hd : isDigit c
      · rfl
      · exact absurd ((isDigit_iff c).mp hd) (hdig c rfl)
    have htrim := trimRightSp_append (c :: t) k hlast
    rw [List.cons_append] at htrim ⊢
    rw [pn_cons, if_neg hc32]
    simp only [hc95, decide_false, Bool.and_false, Bool.false_eq_true, if_false, hcd]
    split
    · rename_i c1 t' heq
      rw [if_neg, htrim]
      intro hcond
      simp only [Bool.and_eq_true, decide_eq_true_eq] at hcond
      obtain ⟨⟨_, hc⟩, hc1⟩ := hcond
      subst hc; subst hc1
      cases t with
      | nil =>
        cases k with
        | zero => simp at heq
        | succ k => rw [List.nil_append, List.replicate_succ] at heq; injection heq with h _; omega
      | cons a t2 =>
        rw [List.cons_append] at heq
        injection heq with h _
        subst h
        exact hnb (by simp)
    · rw [htrim]

theorem pn_render (lead : Nat) (ds : List (Nat × List Sep)) (unit : Bytes) (trail : Nat)
    (h : WellFormed ds unit) :
    prepareNumber (render lead ds unit trail) [] = (digitsOf ds, unit) := by
  obtain ⟨_, hd, hu⟩ := h
  unfold render
  rw [List.append_assoc, List.append_assoc, pn_spaces, pn_body _ _ _ hd, pn_unit _ _ _ hu]
  simp


theorem digitsOf_ne_nil (ds : List (Nat × List Sep)) (h : ds ≠ []) : digitsOf ds ≠ [] := by
  cases ds with
  | nil => exact absurd rfl h
  | cons p ds => simp [digitsOf]

theorem unmarshalText_of_pn (du : Bool) (s num unit : Bytes) (h : prepareNumber s [] = (num, unit))
    (hnum : num ≠ []) :
    unmarshalText du s =
      if val num ≥ 2 ^ 64 then .err .numRange
      else if unit = [] then .ok (val num)
      else if du then .err .unitDisabled
      else newSize (val num) unit := by
  unfold unmarshalText
  rw [h, two64_eq]
  simp only
  have h1 : num.isEmpty = false := by cases num with
    | nil => exact absurd rfl hnum
    | cons _ _ => rfl
  rw [h1]
  simp only [Bool.false_eq_true, if_false]
  cases unit with
  | nil => simp
  | cons c t => simp

theorem unmarshalText_invalid (du : Bool) (s : Bytes) (h : (prepareNumber s []).1 = []) :
    unmarshalText du s = .err .invalid := by
  unfold unmarshalText
  simp only
  rw [h]
  rfl

/-! ### soundness of the scanner -/

theorem dropWhile_spec (l : Bytes) :
    ∃ k, l = List.replicate k 32 ++ l.dropWhile (· == 32) ∧ (l.dropWhile (· == 32)).head? ≠ some 32 := by
  induction l with
  | nil => exact ⟨0, rfl, by simp⟩
  | cons c t ih =>
    by_cases hc : c = 32
    · subst hc
      obtain ⟨k, h1, h2⟩ := ih
      refine ⟨k + 1, ?_, ?_⟩
      · rw [List.dropWhile_cons]
        simp only [beq_self_eq_true, if_true]
        rw [List.replicate_succ, List.cons_append, ← h1]
      · rw [List.dropWhile_cons]; simpa using h2
    · refine ⟨0, ?_, ?_⟩
      · rw [List.dropWhile_cons]; simp [hc]
      · rw [List.dropWhile_cons]; simp [hc]

theorem trimRightSp_spec (s : Bytes) :
    ∃ k, s = trimRightSp s ++ List.replicate k 32 ∧ (trimRightSp s).getLast? ≠ some 32 := by
  obtain ⟨k, h1, h2⟩ := dropWhile_spec s.reverse
  refine ⟨k, ?_, ?_⟩
  · unfold trimRightSp
    have := congrArg List.reverse h1
    rw [List.reverse_reverse, List.reverse_append, List.reverse_replicate] at this
    exact this
  · unfold trimRightSp
    rw [List.getLast?_reverse]
    exact h2

/-- where the scanner stops, an admissible unit (plus trailing spaces) begins -/
theorem unit_stop (c : Nat) (t : Bytes) (h32 : c ≠ 32) (h95 : c ≠ 95) (hd : isDigit c = false)
    (hnb : ∀ t', t = 0xA0 :: t' → c ≠ 0xC2) :
    UnitOk (trimRightSp (c :: t)) ∧ ∃ k, c :: t = trimRightSp (c :: t) ++ List.replicate k 32 := by
  obtain ⟨k, h1, h2⟩ := trimRightSp_spec (c :: t)
  refine ⟨?_, k, h1⟩
  generalize trimRightSp (c :: t) = u at h1 h2
  cases u with
  | nil =>
    cases k with
    | zero => simp at h1
    | succ k => rw [List.nil_append, List.replicate_succ] at h1; injection h1 with h _; omega
  | cons c' t2 =>
    rw [List.cons_append] at h1
    injection h1 with hc ht
    subst hc
    refine ⟨by simpa using h32, by simpa using h95, ?_, ?_, h2⟩
    · intro c0 h0 hdig
      simp only [List.head?_cons, Option.some.injEq] at h0
      subst h0
      rw [(isDigit_iff c).mpr hdig] at hd
      exact absurd hd (by decide)
    · intro hp
      cases t2 with
      | nil => simp at hp
      | cons a t3 =>
        simp only [List.cons_prefix_cons, List.nil_prefix, and_true] at hp
        obtain ⟨hc, ha⟩ := hp
        rw [List.cons_append] at ht
        exact hnb _ (by rw [ht, ← ha]) hc.symm

theorem pn_sound_acc (s n : Bytes) (hn : n ≠ []) :
    ∃ (xs : List Sep) (ds : List (Nat × List Sep)) (trail : Nat), s = xs.flatMap Sep.bytes ++ body ds ++ (prepareNumber s n).2 ++ List.replicate trail 32 ∧
      (∀ p ∈ ds, Digit p.1) ∧ UnitOk (prepareNumber s n).2 ∧
      (prepareNumber s n).1 = n.reverse ++ digitsOf ds := by
  induction s, n using prepareNumber.induct with
  | case1 n =>
    refine ⟨[], [], 0, ?_, by simp, ?_, ?_⟩
    · simp [prepareNumber, body]
    · simp [prepareNumber, UnitOk]
    · simp [prepareNumber, digitsOf]
  | case2 t n ih =>
    obtain ⟨xs, ds, trail, h1, h2, h3, h4⟩ := ih hn
    rw [pn_cons, if_pos rfl]
    refine ⟨.sp :: xs, ds, trail, ?_, h2, h3, h4⟩
    rw [List.flatMap_cons]
    simp only [Sep.bytes, List.cons_append, List.nil_append]
    rw [← h1]
  | case3 c t n h32 h95 ih =>
    obtain ⟨xs, ds, trail, h1, h2, h3, h4⟩ := ih hn
    rw [pn_cons, if_neg h32, if_pos h95]
    have hc : c = 95 := by simp only [Bool.and_eq_true, decide_eq_true_eq] at h95; exact h95.2
    subst hc
    refine ⟨.us :: xs, ds, trail, ?_, h2, h3, h4⟩
    rw [List.flatMap_cons]
    simp only [Sep.bytes, List.cons_append, List.nil_append]
    rw [← h1]
  | case4 c t n h32 h95 hd ih =>
    obtain ⟨xs, ds, trail, h1, h2, h3, h4⟩ := ih (by simp)
    rw [pn_cons, if_neg h32, if_neg h95, if_pos hd]
    refine ⟨[], (c, xs) :: ds, trail, ?_, ?_, h3, ?_⟩
    · show c :: t = [] ++ ((c :: xs.flatMap Sep.bytes) ++ body ds) ++ _ ++ _
      rw [List.nil_append, List.cons_append, List.cons_append, List.cons_append, ← h1]
    · intro p hp
      rcases List.mem_cons.mp hp with rfl | hp
      · exact (isDigit_iff _).mp hd
      · exact h2 p hp
    · rw [h4]; simp [digitsOf]
  | case5 c n h32 h95 hd c1 t' hcond ih =>
    obtain ⟨xs, ds, trail, h1, h2, h3, h4⟩ := ih hn
    rw [pn_cons, if_neg h32, if_neg h95, if_neg hd]
    simp only
    rw [if_pos hcond]
    simp only [Bool.and_eq_true, decide_eq_true_eq] at hcond
    obtain ⟨⟨_, hc⟩, hc1⟩ := hcond
    subst hc; subst hc1
    refine ⟨.nbsp :: xs, ds, trail, ?_, h2, h3, h4⟩
    rw [List.flatMap_cons]
    simp only [Sep.bytes, List.cons_append, List.nil_append]
    rw [← h1]
  | case6 c n h32 h95 hd c1 t' hcond =>
    rw [pn_cons, if_neg h32, if_neg h95, if_neg hd]
    simp only
    rw [if_neg hcond]
    have hne : n.isEmpty = false := by cases n with
      | nil => exact absurd rfl hn
      | cons _ _ => rfl
    have h95' : c ≠ 95 := by
      intro h; apply h95; simp [hne, h]
    have hd' : isDigit c = false := by simpa using hd
    obtain ⟨hu, k, hk⟩ := unit_stop c (c1 :: t') h32 h95' hd' (by
      intro t2 ht hc
      injection ht with h1 _
      apply hcond; simp [hne, hc, h1])
    exact ⟨[], [], k, by simpa [body] using hk, by simp, hu, by simp [digitsOf]⟩
  | case7 c n h32 h95 hd =>
    rw [pn_cons, if_neg h32, if_neg h95, if_neg hd]
    simp only
    have hne : n.isEmpty = false := by cases n with
      | nil => exact absurd rfl hn
      | cons _ _ => rfl
    have h95' : c ≠ 95 := by
      intro h; apply h95; simp [hne, h]
    have hd' : isDigit c = false := by simpa using hd
    obtain ⟨hu, k, hk⟩ := unit_stop c [] h32 h95' hd' (by intro t2 ht; simp at ht)
    exact ⟨[], [], k, by simpa [body] using hk, by simp, hu, by simp [digitsOf]⟩

theorem pn_sound (s : Bytes) (h : (prepareNumber s []).1 ≠ []) :
    ∃ lead ds trail, s = render lead ds (prepareNumber s []).2 trail ∧
      WellFormed ds (prepareNumber s []).2 ∧ (prepareNumber s []).1 = digitsOf ds := by
  induction s with
  | nil => exact absurd rfl h
  | cons c t ih =>
    rw [pn_cons] at h ⊢
    by_cases h32 : c = 32
    · subst h32
      rw [if_pos rfl] at h ⊢
      obtain ⟨lead, ds, trail, h1, h2, h3⟩ := ih h
      refine ⟨lead + 1, ds, trail, ?_, h2, h3⟩
      unfold render at h1 ⊢
      rw [List.replicate_succ, List.cons_append, List.cons_append, List.cons_append, ← h1]
    · rw [if_neg h32] at h ⊢
      simp only [List.isEmpty_nil, Bool.not_true, Bool.false_and, Bool.false_eq_true, if_false] at h ⊢
      by_cases hd : isDigit c = true
      · rw [if_pos hd] at h ⊢
        obtain ⟨xs, ds, trail, h1, h2, h3, h4⟩ := pn_sound_acc t [c] (by simp)
        refine ⟨0, (c, xs) :: ds, trail, ?_, ⟨by simp, ?_, h3⟩, ?_⟩
        · show c :: t = [] ++ ((c :: xs.flatMap Sep.bytes) ++ body ds) ++ _ ++ _
          rw [List.nil_append, List.cons_append, List.cons_append, List.cons_append, ← h1]
        · intro p hp
          rcases List.mem_cons.mp hp with rfl | hp
          · exact (isDigit_iff _).mp hd
          · exact h2 p hp
        · rw [h4]; simp [digitsOf]
      · rw [if_neg hd] at h
        exfalso
        split at h <;> simp at h

/-- no digit before anything else: nothing is scanned -/
theorem pn_nodigit (s : Bytes)
    (h : ∀ c, (s.dropWhile (· == 32)).head? = some c → ¬ Digit c) : (prepareNumber s []).1 = [] := by
  induction s with
  | nil => rfl
  | cons c t ih =>
    rw [pn_cons]
    by_cases h32 : c = 32
    · subst h32
      rw [if_pos rfl]
      apply ih
      simpa [List.dropWhile_cons] using h
    · rw [if_neg h32]
      simp only [List.isEmpty_nil, Bool.not_true, Bool.false_and, Bool.false_eq_true, if_false]
      have hd : ¬ isDigit c = true := by
        intro hd
        apply h c _ ((isDigit_iff c).mp hd)
        rw [List.dropWhile_cons]; simp [h32]
      rw [if_neg hd]
      split <;> rfl

/-! ## `Bytes[N]` -/

theorem bitLen_zero : bitLen 0 = 0 := by decide

theorem bitLen_pos (n : Nat) (h : n ≠ 0) : bitLen n = Nat.log2 n + 1 := by
  unfold bitLen; rw [if_neg h]

/-- `bitLen n` is the number of binary digits of `n` -/
theorem lt_two_pow_bitLen (n : Nat) : n < 2 ^ bitLen n := by
  by_cases h : n = 0
  · subst h; decide
  · rw [bitLen_pos n h]; exact Nat.lt_log2_self

theorem two_pow_bitLen_le (n : Nat) (h : n ≠ 0) : 2 ^ (bitLen n - 1) ≤ n := by
  rw [bitLen_pos n h, Nat.add_sub_cancel]; exact Nat.log2_self_le h

theorem roundToBits_small (p n : Nat) (h : bitLen n ≤ p) : roundToBits p n = n := by
  unfold roundToBits
  simp only
  rw [if_pos h]

/-- rounding leaves `s` unchanged exactly when the bits below the `p` leading ones are all zero -/
theorem roundToBits_fix_iff (p s : Nat) :
    roundToBits p s = s ↔ (bitLen s ≤ p ∨ s % 2 ^ (bitLen s - p) = 0) := by
  by_cases hl : bitLen s ≤ p
  · rw [roundToBits_small p s hl]
    exact ⟨fun _ => .inl hl, fun _ => rfl⟩
  · unfold roundToBits
    simp only
    rw [if_neg hl]
    generalize bitLen s = l at hl
    have hsh : l - p = (l - p - 1) + 1 := by omega
    generalize hd : 2 ^ (l - p) = d
    generalize hh : 2 ^ (l - p - 1) = half
    have hdh : d = 2 * half := by
      rw [← hd, ← hh]
      conv => lhs; rw [hsh, Nat.pow_succ]
      omega
    have hhalf : 0 < half := by rw [← hh]; exact Nat.pow_pos (by decide)
    rw [Nat.shiftRight_eq_div_pow, Nat.shiftLeft_eq, hd]
    have hs : s = (s / d) * d + s % d := by
      have := Nat.div_add_mod s d; rw [Nat.mul_comm] at this; omega
    have hr : s % d < d := Nat.mod_lt _ (by omega)
    generalize s / d = q at hs ⊢
    generalize s % d = r at hs hr ⊢
    constructor
    · intro h
      refine .inr ?_
      split at h
      · rename_i hc
        simp only [Bool.or_eq_true, decide_eq_true_eq, Bool.and_eq_true, beq_iff_eq] at hc
        rw [Nat.add_mul] at h
        generalize q * d = X at h hs
        omega
      · generalize q * d = X at h hs
        omega
    · rintro (h | h)
      · omega
      · subst h
        rw [if_neg]
        · omega
        · simp only [Bool.or_eq_true, decide_eq_true_eq, Bool.and_eq_true, beq_iff_eq]
          omega

/-- the same condition, as "`s` has at most `p` significant bits" -/
theorem fits_iff (p s : Nat) :
    (bitLen s ≤ p ∨ s % 2 ^ (bitLen s - p) = 0) ↔ ∃ m e, m < 2 ^ p ∧ s = m * 2 ^ e := by
  constructor
  · rintro (h | h)
    · refine ⟨s, 0, ?_, by simp⟩
      exact Nat.lt_of_lt_of_le (lt_two_pow_bitLen s) (Nat.pow_le_pow_right (by decide) h)
    · by_cases hl : bitLen s ≤ p
      · refine ⟨s, 0, ?_, by simp⟩
        exact Nat.lt_of_lt_of_le (lt_two_pow_bitLen s) (Nat.pow_le_pow_right (by decide) hl)
      · refine ⟨s / 2 ^ (bitLen s - p), bitLen s - p, ?_, ?_⟩
        · apply Nat.div_lt_of_lt_mul
          rw [← Nat.pow_add]
          have : bitLen s - p + p = bitLen s := by omega
          rw [this]
          exact lt_two_pow_bitLen s
        · have := Nat.div_add_mod s (2 ^ (bitLen s - p))
          rw [h, Nat.mul_comm] at this
          omega
  · rintro ⟨m, e, hm, hs⟩
    by_cases hl : bitLen s ≤ p
    · exact .inl hl
    · refine .inr ?_
      have hs0 : s ≠ 0 := by
        intro h0; rw [h0, bitLen_zero] at hl; omega
      have h1 := two_pow_bitLen_le s hs0
      have h2 : s < 2 ^ (p + e) := by
        rw [hs, Nat.pow_add]
        exact (Nat.mul_lt_mul_right (Nat.pow_pos (by decide))).mpr hm
      have h3 : bitLen s - 1 < p + e := by
        apply Nat.lt_of_not_le
        intro hle
        have := Nat.pow_le_pow_right (show 0 < 2 by decide) hle
        omega
      generalize bitLen s = l at h3 hl ⊢
      have he : e = (e - (l - p)) + (l - p) := by omega
      rw [hs]
      conv => lhs; rw [he, Nat.pow_add, ← Nat.mul_assoc]
      exact Nat.mul_mod_left _ _

theorem roundToBits_two63 : roundToBits 24 (2 ^ 63) = 2 ^ 63 ∧ roundToBits 53 (2 ^ 63) = 2 ^ 63 := by
  decide

theorem bytesAs_float (k : Kind) (p : Nat) (hk : (k = .float32 ∧ p = 24) ∨ (k = .float64 ∧ p = 53))
    (s : Nat) (hs64 : s < 2 ^ 64) :
    bytesAs k s = if roundToBits p s = s then (s, true) else (0, false) := by
  have key : ∀ f : Nat, roundToBits p (2 ^ 63) = 2 ^ 63 → f = roundToBits p s →
      (if s = (if f ≥ two64 then 2 ^ 63 else f) then (f, true) else ((0 : Nat), false)) =
        if f = s then (s, true) else (0, false) := by
    intro f h63 hf
    by_cases hge : f ≥ two64
    · rw [if_pos hge]
      by_cases hs : s = 2 ^ 63
      · exfalso
        rw [hs, h63] at hf
        rw [hf] at hge
        exact absurd hge (by decide)
      · rw [if_neg hs, if_neg]
        intro hfs
        rw [two64_eq] at hge
        omega
    · rw [if_neg hge]
      by_cases hfs : f = s
      · rw [if_pos hfs.symm, if_pos hfs, hfs]
      · rw [if_neg (fun h => hfs h.symm), if_neg hfs]
  rcases hk with ⟨rfl, rfl⟩ | ⟨rfl, rfl⟩
  · exact key _ roundToBits_two63.1 rfl
  · exact key _ roundToBits_two63.2 rfl

theorem bytesAs_int (k : Kind) (hk : k ≠ .float32 ∧ k ≠ .float64) (s : Nat) :
    bytesAs k s = if s ≤ k.maxInt then (s, true) else (0, false) := by
  cases k <;> first | rfl | (exfalso; simp at hk)

end U.Size
