import UtilModel.Spec.SizeJson
import UtilModel.Lemmas.SizeObject
/-!
# The abstract object semantics `evalMembers`: order-free characterisation, permutations, defects

`evalLoop_ok_iff`/`evalMembers_ok_iff` (success ⇔ `Denotes`, which does not mention order),
`Denotes.perm`, `evalMembers_perm_ok`/`_err`, `evalMembers_err_iff` (rejection ⇔ `Defect`),
`evalLoop_eq_newSize`/`evalMembers_object_value`, `evalMembers_delete_unknown`/`_insert_unknown`,
`evalLoop_tooBig_iff`, `evalLoop_unlimited`.
-/
namespace U.Props.C12
open U U.Size U.SizeObject

/-- value seen so far `v`, remaining `value` members `l`: together they amount to exactly one good value `n` -/
def ValState (v : Option Nat) (l : List Member) (n : Nat) : Prop :=
  (v = some n ∧ l = []) ∨ (v = none ∧ ∃ k lit, l = [(k, .num lit)] ∧ parseUintLit lit = .ok n)

def UnitState (u : Option Bytes) (l : List Member) (s : Bytes) : Prop :=
  (u = some s ∧ l = []) ∨ (u = none ∧ ∃ k, l = [(k, .str s)])

theorem finish_ok_iff {v : Option Nat} {u : Option Bytes} {z : Nat} :
    finish v u = .ok z ↔ ∃ n s, v = some n ∧ u = some s ∧ newSize n s = .ok z := by
  unfold finish
  split <;> simp

theorem step_value_ok {du : Bool} {v : Option Nat} {u : Option Bytes} {m : Member} (hk : kind m = .value)
    {v' : Option Nat} {u' : Option Bytes} :
    step du v u m = .ok (v', u') ↔
      v = none ∧ u' = u ∧ ∃ lit n, m.2 = .num lit ∧ parseUintLit lit = .ok n ∧ v' = some n := by
  unfold step
  rw [hk]
  simp only
  cases v with
  | some x => simp
  | none =>
    simp only [Option.isSome_none, Bool.false_eq_true, if_false, true_and]
    split
    · rename_i lit hl
      unfold Outcome.map
      split
      · rename_i n hn
        simp only [Outcome.ok.injEq, Prod.mk.injEq, hl, MVal.num.injEq]
        constructor
        · rintro ⟨rfl, rfl⟩; exact ⟨rfl, lit, n, rfl, hn, rfl⟩
        · rintro ⟨rfl, lit', n', rfl, hn', rfl⟩
          rw [hn] at hn'
          simp only [Outcome.ok.injEq] at hn'
          exact ⟨by rw [hn'], rfl⟩
      · rename_i e he
        simp only [hl, MVal.num.injEq, false_iff, reduceCtorEq]
        rintro ⟨_, lit', n', rfl, hn', _⟩
        rw [he] at hn'; simp at hn'
      · rename_i he
        simp only [hl, MVal.num.injEq, false_iff, reduceCtorEq]
        rintro ⟨_, lit', n', rfl, hn', _⟩
        rw [he] at hn'; simp at hn'
    · rename_i hnn
      simp only [false_iff, reduceCtorEq]
      rintro ⟨_, lit, n, hl, _⟩
      exact hnn lit hl

theorem step_unit_ok {du : Bool} {v : Option Nat} {u : Option Bytes} {m : Member} (hk : kind m = .unit)
    {v' : Option Nat} {u' : Option Bytes} :
    step du v u m = .ok (v', u') ↔ u = none ∧ v' = v ∧ ∃ s, m.2 = .str s ∧ u' = some s := by
  unfold step
  rw [hk]
  simp only
  cases u with
  | some x => simp
  | none =>
    simp only [Option.isSome_none, Bool.false_eq_true, if_false, true_and]
    split
    · rename_i s hs
      simp only [Outcome.ok.injEq, Prod.mk.injEq, hs, MVal.str.injEq]
      constructor
      · rintro ⟨rfl, rfl⟩; exact ⟨rfl, s, rfl, rfl⟩
      · rintro ⟨rfl, s', rfl, rfl⟩; exact ⟨rfl, rfl⟩
    · rename_i hnn
      simp only [false_iff, reduceCtorEq]
      rintro ⟨_, s, hs, _⟩
      exact hnn s hs

theorem step_unknown_ok {du : Bool} {v : Option Nat} {u : Option Bytes} {m : Member} (hk : kind m = .unknown)
    {v' : Option Nat} {u' : Option Bytes} :
    step du v u m = .ok (v', u') ↔ du = false ∧ v' = v ∧ u' = u := by
  unfold step
  rw [hk]
  cases du <;> simp [eq_comm]


theorem evalLoop_cons_ok {mk : Nat} {du : Bool} {i : Nat} {v : Option Nat} {u : Option Bytes} {m : Member}
    {ms : List Member} {z : Nat} :
    evalLoop mk du i v u (m :: ms) = .ok z ↔
      ¬(mk ≠ 0 ∧ i > mk) ∧ ∃ v' u', step du v u m = .ok (v', u') ∧ evalLoop mk du (i + 1) v' u' ms = .ok z := by
  simp only [evalLoop]
  split
  · simp [*]
  · rename_i hlim
    simp only [hlim, not_false_eq_true, true_and]
    split
    · rename_i v' u' hs
      simp only [hs, Outcome.ok.injEq, Prod.mk.injEq]
      constructor
      · intro h; exact ⟨v', u', ⟨rfl, rfl⟩, h⟩
      · rintro ⟨_, _, ⟨rfl, rfl⟩, h⟩; exact h
    · rename_i hs
      simp [hs]
    · rename_i hs
      simp [hs]

theorem vals_cons (m : Member) (ms : List Member) :
    vals (m :: ms) = if kind m = .value then m :: vals ms else vals ms := by
  simp only [vals, List.filter_cons, decide_eq_true_eq]

theorem units_cons (m : Member) (ms : List Member) :
    units (m :: ms) = if kind m = .unit then m :: units ms else units ms := by
  simp only [units, List.filter_cons, decide_eq_true_eq]

theorem unknowns_cons (m : Member) (ms : List Member) :
    unknowns (m :: ms) = if kind m = .unknown then m :: unknowns ms else unknowns ms := by
  simp only [unknowns, List.filter_cons, decide_eq_true_eq]

/-- the loop, from any state, described without reference to order -/
theorem evalLoop_ok_iff {mk : Nat} {du : Bool} {i : Nat} {v : Option Nat} {u : Option Bytes}
    {ms : List Member} {z : Nat} :
    evalLoop mk du i v u ms = .ok z ↔
      (mk = 0 ∨ i + ms.length ≤ mk) ∧ (du = true → unknowns ms = []) ∧
      ∃ n s, ValState v (vals ms) n ∧ UnitState u (units ms) s ∧ newSize n s = .ok z := by
  induction ms generalizing i v u with
  | nil =>
    simp only [evalLoop, List.length_nil, Nat.add_zero, vals, units, unknowns, List.filter_nil, implies_true,
      true_and, ValState, UnitState, and_true]
    split
    · rename_i h
      simp only [reduceCtorEq, false_iff, not_and]
      intro h'; omega
    · rename_i h
      rw [finish_ok_iff]
      have : mk = 0 ∨ i ≤ mk := by omega
      simp [this]
  | cons m ms ih =>
    rw [evalLoop_cons_ok, vals_cons, units_cons, unknowns_cons]
    have hlen : (¬(mk ≠ 0 ∧ i > mk) ∧ (mk = 0 ∨ i + 1 + ms.length ≤ mk)) ↔ (mk = 0 ∨ i + (m :: ms).length ≤ mk) := by
      simp only [List.length_cons]; omega
    rw [← hlen]
    cases hk : kind m with
    | value =>
      simp only [step_value_ok hk, ih, reduceCtorEq, if_true, if_false]
      constructor
      · rintro ⟨hl, v', u', ⟨rfl, rfl, lit, n, hm, hn, rfl⟩, hl', hu, n', s, hv, hus, hz⟩
        refine ⟨⟨hl, hl'⟩, hu, n', s, ?_, hus, hz⟩
        rcases hv with ⟨h1, h2⟩ | ⟨h1, _⟩
        · simp only [Option.some.injEq] at h1
          subst h1
          exact .inr ⟨rfl, m.1, lit, by rw [h2, ← hm], hn⟩
        · simp at h1
      · rintro ⟨⟨hl, hl'⟩, hu, n, s, hv, hus, hz⟩
        rcases hv with ⟨_, h2⟩ | ⟨h1, k, lit, h2, hn⟩
        · simp at h2
        · simp only [List.cons.injEq] at h2
          refine ⟨hl, some n, u, ⟨h1, rfl, lit, n, by rw [h2.1], hn, rfl⟩, hl', hu, n, s, .inl ⟨rfl, h2.2⟩, hus, hz⟩
    | unit =>
      simp only [step_unit_ok hk, ih, reduceCtorEq, if_true, if_false]
      constructor
      · rintro ⟨hl, v', u', ⟨rfl, rfl, s0, hm, rfl⟩, hl', hu, n', s, hv, hus, hz⟩
        refine ⟨⟨hl, hl'⟩, hu, n', s, hv, ?_, hz⟩
        rcases hus with ⟨h1, h2⟩ | ⟨h1, _⟩
        · simp only [Option.some.injEq] at h1
          subst h1
          exact .inr ⟨rfl, m.1, by rw [h2, ← hm]⟩
        · simp at h1
      · rintro ⟨⟨hl, hl'⟩, hu, n, s, hv, hus, hz⟩
        rcases hus with ⟨_, h2⟩ | ⟨h1, k, h2⟩
        · simp at h2
        · simp only [List.cons.injEq] at h2
          refine ⟨hl, v, some s, ⟨h1, rfl, s, by rw [h2.1], rfl⟩, hl', hu, n, s, hv, .inl ⟨rfl, h2.2⟩, hz⟩
    | unknown =>
      simp only [step_unknown_ok hk, ih, reduceCtorEq, if_true, if_false]
      constructor
      · rintro ⟨hl, v', u', ⟨hdu, rfl, rfl⟩, hl', hu, n', s, hv, hus, hz⟩
        exact ⟨⟨hl, hl'⟩, by simp [hdu], n', s, hv, hus, hz⟩
      · rintro ⟨⟨hl, hl'⟩, hu, n, s, hv, hus, hz⟩
        have hdu : du = false := by
          cases du
          · rfl
          · simp at hu
        exact ⟨hl, v, u, ⟨hdu, rfl, rfl⟩, hl', by simp [hdu], n, s, hv, hus, hz⟩

theorem evalMembers_ok_iff {mk : Nat} {du : Bool} {ms : List Member} {z : Nat} :
    evalMembers mk du ms = .ok z ↔ Denotes mk du ms z := by
  unfold evalMembers Denotes
  rw [evalLoop_ok_iff]
  simp only [Nat.zero_add, ValState, UnitState, reduceCtorEq, false_and, true_and, false_or]
  constructor
  · rintro ⟨h1, h2, n, s, ⟨kv, lit, hv, hn⟩, ⟨ku, hu⟩, hz⟩
    exact ⟨h1, h2, kv, lit, n, ku, s, hv, hn, hu, hz⟩
  · rintro ⟨h1, h2, kv, lit, n, ku, s, hv, hn, hu, hz⟩
    exact ⟨h1, h2, n, s, ⟨kv, lit, hv, hn⟩, ⟨ku, hu⟩, hz⟩


theorem step_ne_panic (du : Bool) (v : Option Nat) (u : Option Bytes) (m : Member) : step du v u m ≠ .panic := by
  unfold step
  split
  · split
    · simp
    · split
      · unfold Outcome.map
        have := parseUintLit_ne_panic ‹_›
        split <;> simp_all
      · simp
  · split
    · simp
    · split <;> simp
  · split <;> simp

theorem finish_ne_panic (v : Option Nat) (u : Option Bytes) : finish v u ≠ .panic := by
  unfold finish
  split
  · simp
  · simp
  · exact newSize_ne_panic _ _

theorem evalLoop_ne_panic (mk : Nat) (du : Bool) (i : Nat) (v : Option Nat) (u : Option Bytes) (ms : List Member) :
    evalLoop mk du i v u ms ≠ .panic := by
  induction ms generalizing i v u with
  | nil =>
    simp only [evalLoop]
    split
    · simp
    · exact finish_ne_panic _ _
  | cons m ms ih =>
    simp only [evalLoop]
    split
    · simp
    · have := step_ne_panic du v u m
      split
      · exact ih _ _ _
      · simp
      · simp_all

theorem evalMembers_ne_panic (mk : Nat) (du : Bool) (ms : List Member) : evalMembers mk du ms ≠ .panic :=
  evalLoop_ne_panic _ _ _ _ _ _

theorem Denotes.perm {mk : Nat} {du : Bool} {ms ms' : List Member} {z : Nat} (hp : ms.Perm ms')
    (h : Denotes mk du ms z) : Denotes mk du ms' z := by
  obtain ⟨h1, h2, kv, lit, n, ku, s, hv, hn, hu, hz⟩ := h
  refine ⟨by rw [← hp.length_eq]; exact h1, ?_, kv, lit, n, ku, s, ?_, hn, ?_, hz⟩
  · intro hdu
    have := (hp.filter (fun m => kind m = .unknown)).symm
    unfold unknowns at h2 ⊢
    rw [h2 hdu] at this
    exact this.eq_nil
  · have := (hp.filter (fun m => kind m = .value)).symm
    unfold vals at hv ⊢
    rw [hv] at this
    exact List.perm_singleton.mp this
  · have := (hp.filter (fun m => kind m = .unit)).symm
    unfold units at hu ⊢
    rw [hu] at this
    exact List.perm_singleton.mp this

theorem Denotes.unique {mk : Nat} {du : Bool} {ms : List Member} {z z' : Nat}
    (h : Denotes mk du ms z) (h' : Denotes mk du ms z') : z = z' := by
  have h1 := evalMembers_ok_iff.mpr h
  have h2 := evalMembers_ok_iff.mpr h'
  rw [h1] at h2
  simpa using h2

theorem Defect.not_denotes {mk : Nat} {du : Bool} {ms : List Member} {z : Nat}
    (hd : Defect mk du ms) : ¬Denotes mk du ms z := by
  rintro ⟨h1, h2, kv, lit, n, ku, s, hv, hn, hu, hz⟩
  cases hd with
  | tooManyMembers h0 h => omega
  | duplicateValue h => rw [hv] at h; simp at h
  | duplicateUnit h => rw [hu] at h; simp at h
  | missingValue h => rw [hv] at h; simp at h
  | missingUnit h => rw [hu] at h; simp at h
  | valueNotNumber m hm h =>
    rw [hv, List.mem_singleton] at hm
    subst hm
    exact h lit rfl
  | valueNotUint k lit' e hm h =>
    rw [hv, List.mem_singleton] at hm
    simp only [Prod.mk.injEq, MVal.num.injEq] at hm
    rw [hm.2, hn] at h
    simp at h
  | unitNotString m hm h =>
    rw [hu, List.mem_singleton] at hm
    subst hm
    exact h s rfl
  | unknownKey h m hm =>
    rw [h2 h] at hm
    simp at hm
  | arithmetic kv' lit' n' ku' s' e hv' hn' hu' h =>
    rw [hv, List.mem_singleton] at hv'
    rw [hu, List.mem_singleton] at hu'
    simp only [Prod.mk.injEq, MVal.num.injEq, MVal.str.injEq] at hv' hu'
    rw [hv'.2, hn] at hn'
    simp only [Outcome.ok.injEq] at hn'
    rw [← hn', hu'.2, hz] at h
    simp at h

theorem denotes_of_no_defect {mk : Nat} {du : Bool} {ms : List Member}
    (hd : ¬Defect mk du ms) : ∃ z, Denotes mk du ms z := by
  have h1 : mk = 0 ∨ ms.length ≤ mk := by
    by_cases h0 : mk = 0
    · exact .inl h0
    · by_cases h : ms.length ≤ mk
      · exact .inr h
      · exact (hd (.tooManyMembers h0 (by omega))).elim
  have h2 : du = true → unknowns ms = [] := by
    intro hdu
    cases hu : unknowns ms with
    | nil => rfl
    | cons m l => exact (hd (.unknownKey hdu m (by rw [hu]; simp))).elim
  -- the value member
  obtain ⟨kv, lit, n, hv, hn⟩ : ∃ kv lit n, vals ms = [(kv, .num lit)] ∧ parseUintLit lit = .ok n := by
    match hv : vals ms with
    | [] => exact (hd (.missingValue hv)).elim
    | _ :: _ :: _ => exact (hd (.duplicateValue (by rw [hv]; simp))).elim
    | [(kv, mv)] =>
      cases mv with
      | num lit =>
        cases hn : parseUintLit lit with
        | ok n => exact ⟨kv, lit, n, rfl, hn⟩
        | err e => exact (hd (.valueNotUint kv lit e (by rw [hv]; simp) hn)).elim
        | panic => exact (parseUintLit_ne_panic _ hn).elim
      | str s => exact (hd (.valueNotNumber (kv, .str s) (by rw [hv]; simp) (by simp))).elim
      | other => exact (hd (.valueNotNumber (kv, .other) (by rw [hv]; simp) (by simp))).elim
  obtain ⟨ku, s, hu⟩ : ∃ ku s, units ms = [(ku, .str s)] := by
    match hu : units ms with
    | [] => exact (hd (.missingUnit hu)).elim
    | _ :: _ :: _ => exact (hd (.duplicateUnit (by rw [hu]; simp))).elim
    | [(ku, mv)] =>
      cases mv with
      | str s => exact ⟨ku, s, rfl⟩
      | num lit => exact (hd (.unitNotString (ku, .num lit) (by rw [hu]; simp) (by simp))).elim
      | other => exact (hd (.unitNotString (ku, .other) (by rw [hu]; simp) (by simp))).elim
  cases hz : newSize n s with
  | ok z => exact ⟨z, h1, h2, kv, lit, n, ku, s, hv, hn, hu, hz⟩
  | err e => exact (hd (.arithmetic kv lit n ku s e (by rw [hv]; simp) hn (by rw [hu]; simp) hz)).elim
  | panic => exact (newSize_ne_panic _ _ hz).elim

/-- rejection is exactly the presence of a defect -/
theorem evalMembers_err_iff {mk : Nat} {du : Bool} {ms : List Member} :
    (∃ e, evalMembers mk du ms = .err e) ↔ Defect mk du ms := by
  constructor
  · rintro ⟨e, he⟩
    apply Classical.byContradiction
    intro hd
    obtain ⟨z, hz⟩ := denotes_of_no_defect hd
    rw [evalMembers_ok_iff.mpr hz] at he
    simp at he
  · intro hd
    cases h : evalMembers mk du ms with
    | ok z => exact (hd.not_denotes (evalMembers_ok_iff.mp h)).elim
    | err e => exact ⟨e, rfl⟩
    | panic => exact (evalMembers_ne_panic _ _ _ h).elim

theorem evalMembers_perm_ok {mk : Nat} {du : Bool} {ms ms' : List Member} (hp : ms.Perm ms') (z : Nat) :
    evalMembers mk du ms = .ok z ↔ evalMembers mk du ms' = .ok z := by
  rw [evalMembers_ok_iff, evalMembers_ok_iff]
  exact ⟨Denotes.perm hp, Denotes.perm hp.symm⟩

theorem evalMembers_perm_err {mk : Nat} {du : Bool} {ms ms' : List Member} (hp : ms.Perm ms') :
    (∃ e, evalMembers mk du ms = .err e) → ∃ e, evalMembers mk du ms' = .err e := by
  rintro ⟨e, he⟩
  cases h : evalMembers mk du ms' with
  | ok z => rw [(evalMembers_perm_ok hp z).mpr h] at he; simp at he
  | err e' => exact ⟨e', rfl⟩
  | panic => exact (evalMembers_ne_panic _ _ _ h).elim


/-- the exact result (also when `newSize` refuses) of an object whose members are in order -/
theorem evalLoop_eq_newSize {mk : Nat} {du : Bool} {i : Nat} {v : Option Nat} {u : Option Bytes}
    {ms : List Member} {n : Nat} {s : Bytes}
    (hl : mk = 0 ∨ i + ms.length ≤ mk) (hu : du = true → unknowns ms = [])
    (hv : ValState v (vals ms) n) (hs : UnitState u (units ms) s) :
    evalLoop mk du i v u ms = newSize n s := by
  induction ms generalizing i v u with
  | nil =>
    simp only [evalLoop]
    rw [if_neg (by simp only [List.length_nil] at hl; omega)]
    simp only [vals, units, List.filter_nil, ValState, UnitState] at hv hs
    rcases hv with ⟨rfl, _⟩ | ⟨_, _, _, h, _⟩
    · rcases hs with ⟨rfl, _⟩ | ⟨_, _, h⟩
      · rfl
      · simp at h
    · simp at h
  | cons m ms ih =>
    simp only [evalLoop]
    simp only [List.length_cons] at hl
    rw [if_neg (by omega)]
    rw [vals_cons] at hv
    rw [units_cons] at hs
    rw [unknowns_cons] at hu
    have hl' : mk = 0 ∨ i + 1 + ms.length ≤ mk := by omega
    cases hk : kind m with
    | value =>
      simp only [hk, reduceCtorEq, if_true, if_false] at hv hs hu
      rcases hv with ⟨_, h⟩ | ⟨rfl, k, lit, h, hn⟩
      · simp at h
      · simp only [List.cons.injEq] at h
        have : step du none u m = .ok (some n, u) :=
          (step_value_ok hk).mpr ⟨rfl, rfl, lit, n, by rw [h.1], hn, rfl⟩
        rw [this]
        exact ih hl' hu (.inl ⟨rfl, h.2⟩) hs
    | unit =>
      simp only [hk, reduceCtorEq, if_true, if_false] at hv hs hu
      rcases hs with ⟨_, h⟩ | ⟨rfl, k, h⟩
      · simp at h
      · simp only [List.cons.injEq] at h
        have : step du v none m = .ok (v, some s) :=
          (step_unit_ok hk).mpr ⟨rfl, rfl, s, by rw [h.1], rfl⟩
        rw [this]
        exact ih hl' hu hv (.inl ⟨rfl, h.2⟩)
    | unknown =>
      simp only [hk, reduceCtorEq, if_true, if_false] at hv hs hu
      have hdu : du = false := by
        cases du
        · rfl
        · simp at hu
      have : step du v u m = .ok (v, u) := (step_unknown_ok hk).mpr ⟨hdu, rfl, rfl⟩
      rw [this]
      exact ih hl' (by simp [hdu]) hv hs

theorem parseUintLit_digits {lit : Bytes} (h1 : lit ≠ []) (h2 : allDigits lit = true) (h3 : val lit < two64) :
    parseUintLit lit = .ok (val lit) := by
  unfold parseUintLit
  have : lit.isEmpty = false := by cases lit <;> simp_all
  simp [this, h2]
  omega

theorem evalMembers_object_value {mk : Nat} {du : Bool} {ms : List Member} {kv lit ku s : Bytes}
    (hl : mk = 0 ∨ ms.length ≤ mk) (hv : vals ms = [(kv, .num lit)]) (hu : units ms = [(ku, .str s)])
    (hunk : du = true → unknowns ms = [])
    (h1 : lit ≠ []) (h2 : allDigits lit = true) (h3 : val lit < two64) :
    evalMembers mk du ms = newSize (val lit) s :=
  evalLoop_eq_newSize (by simpa using hl) hunk
    (.inr ⟨rfl, kv, lit, hv, parseUintLit_digits h1 h2 h3⟩) (.inr ⟨rfl, ku, hu⟩)

theorem vals_insert {m : Member} (hk : kind m = .unknown) (l1 l2 : List Member) :
    vals (l1 ++ m :: l2) = vals (l1 ++ l2) := by
  simp [vals, List.filter_append, hk]

theorem units_insert {m : Member} (hk : kind m = .unknown) (l1 l2 : List Member) :
    units (l1 ++ m :: l2) = units (l1 ++ l2) := by
  simp [units, List.filter_append, hk]

/-- deleting an unknown member keeps a successful result -/
theorem evalMembers_delete_unknown {mk : Nat} {du : Bool} {m : Member} {l1 l2 : List Member} {z : Nat}
    (hk : kind m = .unknown) (h : evalMembers mk du (l1 ++ m :: l2) = .ok z) :
    evalMembers mk du (l1 ++ l2) = .ok z := by
  rw [evalMembers_ok_iff] at h ⊢
  obtain ⟨h1, h2, kv, lit, n, ku, s, hv, hn, hu, hz⟩ := h
  refine ⟨?_, ?_, kv, lit, n, ku, s, by rw [← vals_insert hk]; exact hv, hn, by rw [← units_insert hk]; exact hu, hz⟩
  · simp only [List.length_append, List.length_cons] at h1 ⊢; omega
  · intro hdu
    have := h2 hdu
    simp [unknowns, List.filter_append, hk] at this

/-- inserting a permitted unknown member anywhere keeps a successful result, if the member count stays
within the limit -/
theorem evalMembers_insert_unknown {mk : Nat} {du : Bool} {m : Member} {l1 l2 : List Member} {z : Nat}
    (hk : kind m = .unknown) (hdu : du = false) (hl : mk = 0 ∨ (l1 ++ l2).length + 1 ≤ mk)
    (h : evalMembers mk du (l1 ++ l2) = .ok z) :
    evalMembers mk du (l1 ++ m :: l2) = .ok z := by
  rw [evalMembers_ok_iff] at h ⊢
  obtain ⟨h1, h2, kv, lit, n, ku, s, hv, hn, hu, hz⟩ := h
  refine ⟨?_, by simp [hdu], kv, lit, n, ku, s, by rw [vals_insert hk]; exact hv, hn, by rw [units_insert hk]; exact hu, hz⟩
  simp only [List.length_append, List.length_cons] at hl ⊢; omega


theorem parseUintLit_ne_tooBig (l : Bytes) : parseUintLit l ≠ .err .tooBig := by
  unfold parseUintLit
  repeat' split
  all_goals simp

theorem newSize_ne_tooBig (v : Nat) (u : Bytes) : newSize v u ≠ .err .tooBig := by
  unfold newSize
  repeat' split
  all_goals simp

theorem step_ne_tooBig (du : Bool) (v : Option Nat) (u : Option Bytes) (m : Member) : step du v u m ≠ .err .tooBig := by
  unfold step
  split
  · split
    · simp
    · split
      · unfold Outcome.map
        have := parseUintLit_ne_tooBig ‹_›
        split <;> simp_all
      · simp
  · split
    · simp
    · split <;> simp
  · split <;> simp

theorem finish_ne_tooBig (v : Option Nat) (u : Option Bytes) : finish v u ≠ .err .tooBig := by
  unfold finish
  split
  · simp
  · simp
  · exact newSize_ne_tooBig _ _

/-- the key-limit error, from any loop state: the limit is on, there are more members than it
allows, and the members up to and including index `maxKeys` are read without error -/
theorem evalLoop_tooBig_iff {mk : Nat} {du : Bool} {i : Nat} {v : Option Nat} {u : Option Bytes}
    {ms : List Member} :
    evalLoop mk du i v u ms = .err .tooBig ↔
      mk ≠ 0 ∧ i + ms.length > mk ∧ ∃ v' u', runSteps du v u (ms.take (mk + 1 - i)) = .ok (v', u') := by
  induction ms generalizing i v u with
  | nil =>
    simp only [evalLoop, List.length_nil, Nat.add_zero, List.take_nil, runSteps]
    split
    · rename_i h
      simp [h.1, h.2]
    · rename_i h
      have := finish_ne_tooBig v u
      simp only [this, false_iff]
      rintro ⟨h0, h1, _⟩
      exact h ⟨h0, h1⟩
  | cons m ms ih =>
    simp only [evalLoop, List.length_cons]
    split
    · rename_i h
      have : mk + 1 - i = 0 := by omega
      simp only [this, List.take_zero, runSteps, true_iff]
      exact ⟨h.1, by omega, _, _, rfl⟩
    · rename_i h
      by_cases h0 : mk = 0
      · subst h0
        simp only [ne_eq, not_true_eq_false, false_and, iff_false]
        have := step_ne_tooBig du v u m
        split
        · rw [ih]; simp
        · simp_all
        · simp
      · have hi : mk + 1 - i = (mk + 1 - (i + 1)) + 1 := by omega
        rw [hi, List.take_succ_cons]
        simp only [runSteps]
        have := step_ne_tooBig du v u m
        split
        · rw [ih]
          constructor
          · rintro ⟨_, h2, h3⟩; exact ⟨h0, by omega, h3⟩
          · rintro ⟨_, h2, h3⟩; exact ⟨h0, by omega, h3⟩
        · simp_all
        · simp

theorem evalMembers_tooBig_iff {mk : Nat} {du : Bool} {ms : List Member} :
    evalMembers mk du ms = .err .tooBig ↔
      mk ≠ 0 ∧ ms.length > mk ∧ ∃ v u, runSteps du none none (ms.take (mk + 1)) = .ok (v, u) := by
  unfold evalMembers
  rw [evalLoop_tooBig_iff]
  simp

/-- without a key limit the result is the members read in order, then the final check -/
theorem evalLoop_unlimited {du : Bool} {i : Nat} {v : Option Nat} {u : Option Bytes} {ms : List Member} :
    evalLoop 0 du i v u ms = (runSteps du v u ms).bind fun p => finish p.1 p.2 := by
  induction ms generalizing i v u with
  | nil => simp [evalLoop, runSteps, Outcome.bind]
  | cons m ms ih =>
    simp only [evalLoop, runSteps, ne_eq, not_true_eq_false, false_and, if_false]
    split
    · exact ih
    · simp [Outcome.bind]
    · simp [Outcome.bind]


end U.Props.C12
