import UtilModel.Lemmas.Hex
namespace U.UU
open U

/-! ## specification vocabulary -/

/-- the 128-bit value, `Higher` first (big-endian) -/
def ID.value (i : ID) : Nat := i.hi.toNat * 2 ^ 64 + i.lo.toNat

/-- `k`-th hexadecimal digit (0 = most significant … 31) of the 128-bit value -/
def nibble (i : ID) (k : Nat) : Nat := i.value / 16 ^ (31 - k) % 16

/-- text position of digit `k` in the 8-4-4-4-12 layout -/
def pos (k : Nat) : Nat :=
  if k < 8 then k else if k < 12 then k + 1 else if k < 16 then k + 2 else if k < 20 then k + 3 else k + 4

/-- the 36-byte text with digit values `d 0 … d 31` -/
def layoutOf (d : Nat → Nat) : Bytes :=
  [hexDigit (d 0), hexDigit (d 1), hexDigit (d 2), hexDigit (d 3), hexDigit (d 4), hexDigit (d 5),
   hexDigit (d 6), hexDigit (d 7), 45,
   hexDigit (d 8), hexDigit (d 9), hexDigit (d 10), hexDigit (d 11), 45,
   hexDigit (d 12), hexDigit (d 13), hexDigit (d 14), hexDigit (d 15), 45,
   hexDigit (d 16), hexDigit (d 17), hexDigit (d 18), hexDigit (d 19), 45,
   hexDigit (d 20), hexDigit (d 21), hexDigit (d 22), hexDigit (d 23), hexDigit (d 24), hexDigit (d 25),
   hexDigit (d 26), hexDigit (d 27), hexDigit (d 28), hexDigit (d 29), hexDigit (d 30), hexDigit (d 31)]

theorem nibble_lt (i : ID) (k : Nat) : nibble i k < 16 := Nat.mod_lt _ (by decide)

theorem nibble_hi (i : ID) (k : Nat) (h : k < 16) : nibble i k = i.hi.toNat / 16 ^ (15 - k) % 16 := by
  unfold nibble ID.value
  have e : 16 ^ (31 - k) = 2 ^ 64 * 16 ^ (15 - k) := by
    have : 31 - k = 16 + (15 - k) := by omega
    rw [this, Nat.pow_add]
  have hl := i.lo.isLt
  rw [e, ← Nat.div_div_eq_div_mul]
  congr 2
  omega

theorem nibble_lo (i : ID) (k : Nat) (h1 : 16 ≤ k) (h2 : k < 32) :
    nibble i k = i.lo.toNat / 16 ^ (31 - k) % 16 := by
  unfold nibble ID.value
  have e : 2 ^ 64 = 16 ^ (31 - k) * (16 * 16 ^ (k - 16)) := by
    rw [← Nat.pow_succ', ← Nat.pow_add]
    have : 31 - k + (k - 16 + 1) = 16 := by omega
    rw [this]
  rw [e, Nat.add_comm, ← Nat.mul_assoc, Nat.mul_comm i.hi.toNat, Nat.mul_assoc,
    Nat.add_mul_div_left _ _ (Nat.pow_pos (by decide)), Nat.mul_comm i.hi.toNat, Nat.mul_assoc,
    Nat.add_mul_mod_self_left]

/-! ## the formatter fields -/

theorem field0_toNat (hi lo : BitVec 64) : (Gen.uu_field0 hi lo).toNat = hi.toNat / 4294967296 := by
  simp only [Gen.uu_field0, BitVec.toNat_ushiftRight, Nat.shiftRight_eq_div_pow]
theorem field1_toNat (hi lo : BitVec 64) : (Gen.uu_field1 hi lo).toNat = hi.toNat / 65536 % 65536 := by
  simp only [Gen.uu_field1, BitVec.toNat_and, BitVec.toNat_ushiftRight, Nat.shiftRight_eq_div_pow]
  exact Nat.and_two_pow_sub_one_eq_mod _ 16
theorem field2_toNat (hi lo : BitVec 64) : (Gen.uu_field2 hi lo).toNat = hi.toNat % 65536 := by
  simp only [Gen.uu_field2, BitVec.toNat_and]
  exact Nat.and_two_pow_sub_one_eq_mod _ 16
theorem field3_toNat (hi lo : BitVec 64) : (Gen.uu_field3 hi lo).toNat = lo.toNat / 281474976710656 := by
  simp only [Gen.uu_field3, BitVec.toNat_ushiftRight, Nat.shiftRight_eq_div_pow]
theorem field4_toNat (hi lo : BitVec 64) : (Gen.uu_field4 hi lo).toNat = lo.toNat % 281474976710656 := by
  simp only [Gen.uu_field4, BitVec.toNat_and]
  exact Nat.and_two_pow_sub_one_eq_mod _ 48

theorem cons_hex {a b : Nat} {s t : Bytes} (h : a = b) (h2 : s = t) : hexDigit a :: s = hexDigit b :: t := by
  rw [h, h2]
theorem cons45 {s t : Bytes} (h2 : s = t) : (45 :: s : Bytes) = 45 :: t := by rw [h2]

/-- the formatted text is the layout of the 32 nibbles -/
theorem format_eq_layout (i : ID) : format [] i false = layoutOf (nibble i) := by
  have hh := i.hi.isLt
  have hl := i.lo.isLt
  unfold format
  rw [padHex_small 8 _ (by decide) (by rw [field0_toNat]; omega),
      padHex_small 4 _ (by decide) (by rw [field1_toNat]; omega),
      padHex_small 4 _ (by decide) (by rw [field2_toNat]; omega),
      padHex_small 4 _ (by decide) (by rw [field3_toNat]; omega),
      padHex_small 12 _ (by decide) (by rw [field4_toNat]; omega)]
  rw [fixedHex8, fixedHex4, fixedHex4, fixedHex4, fixedHex12,
    field0_toNat, field1_toNat, field2_toNat, field3_toNat, field4_toNat]
  simp (config := {decide := true}) only [layoutOf, nibble_hi, nibble_lo, Nat.reducePow, Nat.reduceSub,
    Nat.reduceLT, Nat.reduceLeDiff]
  repeat' (first | rfl | apply cons45 | apply cons_hex)
  all_goals omega

end U.UU

namespace U.UU
open U

/-! ## the digit loop -/

/-- the value of the hex digit at text position `p` (after the offset), if there is one -/
def digitVal (s : Bytes) (off : Nat) (u : Bool) (p : Nat) : Option Nat :=
  match s[off + p]? with
  | none => none
  | some c => parseDigit c u

/-- the accumulation the loop performs when every digit is good -/
def placeAll (f : Nat → Nat) : List Nat → Nat → BitVec 64 × BitVec 64 → BitVec 64 × BitVec 64
  | [], _, n => n
  | p :: ps, i, n => placeAll f ps (i + 1) (place (place n i 0 (f p)) i 1 (f (p + 1)))

/-- the text positions the loop visits, in order -/
def flat : List Nat → List Nat
  | [] => []
  | p :: ps => p :: (p + 1) :: flat ps

theorem digits_ok_iff (s : Bytes) (off : Nat) (u : Bool) (st : List Nat) (i : Nat)
    (n n' : BitVec 64 × BitVec 64) :
    digits s off u st i n = .ok n' ↔
      (∀ p ∈ st, (digitVal s off u p).isSome ∧ (digitVal s off u (p + 1)).isSome) ∧
      n' = placeAll (fun p => (digitVal s off u p).getD 0) st i n := by
  induction st generalizing i n with
  | nil =>
    simp only [digits, placeAll, Outcome.ok.injEq]
    constructor
    · intro h; exact ⟨by simp, h.symm⟩
    · intro h; exact h.2.symm
  | cons p ps ih =>
    have hp : off + (p + 1) = off + p + 1 := by omega
    simp only [digits, placeAll, List.mem_cons, forall_eq_or_imp, digitVal, hp]
    cases h0 : s[off + p]? with
    | none => simp
    | some c0 =>
      cases h1 : s[off + p + 1]? with
      | none => simp
      | some c1 =>
        simp only []
        cases hv0 : parseDigit c0 u with
        | none => simp
        | some v0 =>
          cases hv1 : parseDigit c1 u with
          | none => simp
          | some v1 =>
            simp only [Option.isSome_some, true_and, Option.getD_some]
            rw [ih]
            simp only [digitVal]

theorem digits_ne_panic (s : Bytes) (off : Nat) (u : Bool) (st : List Nat) (i : Nat)
    (n : BitVec 64 × BitVec 64) (hr : ∀ p ∈ st, off + p + 1 < s.length) :
    digits s off u st i n ≠ .panic := by
  induction st generalizing i n with
  | nil => simp [digits]
  | cons p ps ih =>
    have hp := hr p (by simp)
    simp only [digits]
    rw [List.getElem?_eq_getElem (by omega : off + p < s.length), List.getElem?_eq_getElem hp]
    simp only []
    split
    · simp
    · split
      · simp
      · exact ih _ _ (fun q hq => hr q (by simp [hq]))

/-- an error of the digit loop is always `invalidDigit b` for a byte `b` of the input that is not a digit -/
theorem digits_err_class (s : Bytes) (off : Nat) (u : Bool) (st : List Nat) (i : Nat)
    (n : BitVec 64 × BitVec 64) (e : Err) (h : digits s off u st i n = .err e) :
    ∃ b, e = .invalidDigit b ∧ b ∈ s ∧ parseDigit b u = none := by
  induction st generalizing i n with
  | nil => simp [digits] at h
  | cons p ps ih =>
    simp only [digits] at h
    split at h
    · rename_i c0 c1 h0 h1
      split at h
      · rename_i hv0
        simp only [Outcome.err.injEq] at h
        exact ⟨c0, h.symm, List.mem_of_getElem? h0, hv0⟩
      · split at h
        · rename_i hv1
          simp only [Outcome.err.injEq] at h
          exact ⟨c1, h.symm, List.mem_of_getElem? h1, hv1⟩
        · exact ih _ _ h
    · simp at h

/-- the first bad digit (in text order) is the one reported -/
theorem digits_first_bad (s : Bytes) (off : Nat) (u : Bool) (st : List Nat) (i : Nat)
    (n : BitVec 64 × BitVec 64) (t q b : Nat)
    (hr : ∀ p ∈ st, off + p + 1 < s.length)
    (hgood : ∀ t' < t, ∀ p, (flat st)[t']? = some p → (digitVal s off u p).isSome)
    (hq : (flat st)[t]? = some q) (hb : s[off + q]? = some b) (hbad : parseDigit b u = none) :
    digits s off u st i n = .err (.invalidDigit b) := by
  induction st generalizing i n t with
  | nil => simp [flat] at hq
  | cons p ps ih =>
    have hp := hr p (by simp)
    simp only [digits]
    rw [List.getElem?_eq_getElem (by omega : off + p < s.length), List.getElem?_eq_getElem hp]
    simp only []
    match t, hgood, hq with
    | 0, _, hq =>
      simp only [flat, List.getElem?_cons_zero, Option.some.injEq] at hq
      subst hq
      rw [List.getElem?_eq_getElem (by omega : off + p < s.length), Option.some.injEq] at hb
      rw [hb, hbad]
    | 1, hgood, hq =>
      simp only [flat, List.getElem?_cons_succ, List.getElem?_cons_zero, Option.some.injEq] at hq
      subst hq
      have g0 := hgood 0 (by omega) p (by simp [flat])
      simp only [digitVal, List.getElem?_eq_getElem (by omega : off + p < s.length)] at g0
      rw [show off + (p + 1) = off + p + 1 by omega, List.getElem?_eq_getElem hp, Option.some.injEq] at hb
      cases hv0 : parseDigit s[off + p] u with
      | none => rw [hv0] at g0; simp at g0
      | some v0 => simp only []; rw [hb, hbad]
    | t + 2, hgood, hq =>
      simp only [flat, List.getElem?_cons_succ] at hq
      have g0 := hgood 0 (by omega) p (by simp [flat])
      have g1 := hgood 1 (by omega) (p + 1) (by simp [flat])
      simp only [digitVal, List.getElem?_eq_getElem (by omega : off + p < s.length)] at g0
      simp only [digitVal, show off + (p + 1) = off + p + 1 by omega, List.getElem?_eq_getElem hp] at g1
      cases hv0 : parseDigit s[off + p] u with
      | none => rw [hv0] at g0; simp at g0
      | some v0 =>
        cases hv1 : parseDigit s[off + p + 1] u with
        | none => rw [hv1] at g1; simp at g1
        | some v1 =>
          simp only []
          exact ih _ _ t (fun q hq => hr q (by simp [hq]))
            (fun t' ht' p' hp' => hgood (t' + 2) (by omega) p' (by simpa [flat] using hp')) hq

end U.UU
