import UtilModel.Lemmas.Hex
namespace U.UU
open U

/-! ## specification vocabulary -/

/-- the 128-bit value, `Higher` first (big-endian) -/
def ID.value (i : ID) : Nat := i.hi.toNat * 2 ^ 64 + i.lo.toNat

/-- `k`-th hexadecimal digit (0 = most significant … 31) of the 128-bit value -/
def nibble (i : ID) (k : Nat) : Nat := i.value / 16 ^ (31 - k) % 16

/-- text position of digit `k` in the 8-4-4-4-12 layout -/
def pos (k : Nat) : Nat :=
  if k < 8 then k else if k < 12 then k + 1 else if k < 16 then k + 2 else if k < 20 then k + 3 else k + 4

/-- the 36-byte text with digit values `d 0 … d 31` -/
def layoutOf (d : Nat → Nat) : Bytes :=
  [hexDigit (d 0), hexDigit (d 1), hexDigit (d 2), hexDigit (d 3), hexDigit (d 4), hexDigit (d 5),
   hexDigit (d 6), hexDigit (d 7), 45,
   hexDigit (d 8), hexDigit (d 9), hexDigit (d 10), hexDigit (d 11), 45,
   hexDigit (d 12), hexDigit (d 13), hexDigit (d 14), hexDigit (d 15), 45,
   hexDigit (d 16), hexDigit (d 17), hexDigit (d 18), hexDigit (d 19), 45,
   hexDigit (d 20), hexDigit (d 21), hexDigit (d 22), hexDigit (d 23), hexDigit (d 24), hexDigit (d 25),
   hexDigit (d 26), hexDigit (d 27), hexDigit (d 28), hexDigit (d 29), hexDigit (d 30), hexDigit (d 31)]

theorem nibble_lt (i : ID) (k : Nat) : nibble i k < 16 := Nat.mod_lt _ (by decide)

theorem nibble_hi (i : ID) (k : Nat) (h : k < 16) : nibble i k = i.hi.toNat / 16 ^ (15 - k) % 16 := by
  unfold nibble ID.value
  have e : 16 ^ (31 - k) = 2 ^ 64 * 16 ^ (15 - k) := by
    have : 31 - k = 16 + (15 - k) := by omega
    rw [this, Nat.pow_add]
  have hl := i.lo.isLt
  rw [e, ← Nat.div_div_eq_div_mul]
  congr 2
  omega

theorem nibble_lo (i : ID) (k : Nat) (h1 : 16 ≤ k) (h2 : k < 32) :
    nibble i k = i.lo.toNat / 16 ^ (31 - k) % 16 := by
  unfold nibble ID.value
  have e : 2 ^ 64 = 16 ^ (31 - k) * (16 * 16 ^ (k - 16)) := by
    rw [← Nat.pow_succ', ← Nat.pow_add]
    have : 31 - k + (k - 16 + 1) = 16 := by omega
    rw [this]
  rw [e, Nat.add_comm, ← Nat.mul_assoc, Nat.mul_comm i.hi.toNat, Nat.mul_assoc,
    Nat.add_mul_div_left _ _ (Nat.pow_pos (by decide)), Nat.mul_comm i.hi.toNat, Nat.mul_assoc,
    Nat.add_mul_mod_self_left]

/-! ## the formatter fields -/

theorem field0_toNat (hi lo : BitVec 64) : (Gen.uu_field0 hi lo).toNat = hi.toNat / 4294967296 := by
  simp only [Gen.uu_field0, BitVec.toNat_ushiftRight, Nat.shiftRight_eq_div_pow]
theorem field1_toNat (hi lo : BitVec 64) : (Gen.uu_field1 hi lo).toNat = hi.toNat / 65536 % 65536 := by
  simp only [Gen.uu_field1, BitVec.toNat_and, BitVec.toNat_ushiftRight, Nat.shiftRight_eq_div_pow]
  exact Nat.and_two_pow_sub_one_eq_mod _ 16
theorem field2_toNat (hi lo : BitVec 64) : (Gen.uu_field2 hi lo).toNat = hi.toNat % 65536 := by
  simp only [Gen.uu_field2, BitVec.toNat_and]
  exact Nat.and_two_pow_sub_one_eq_mod _ 16
theorem field3_toNat (hi lo : BitVec 64) : (Gen.uu_field3 hi lo).toNat = lo.toNat / 281474976710656 := by
  simp only [Gen.uu_field3, BitVec.toNat_ushiftRight, Nat.shiftRight_eq_div_pow]
theorem field4_toNat (hi lo : BitVec 64) : (Gen.uu_field4 hi lo).toNat = lo.toNat % 281474976710656 := by
  simp only [Gen.uu_field4, BitVec.toNat_and]
  exact Nat.and_two_pow_sub_one_eq_mod _ 48

theorem cons_hex {a b : Nat} {s t : Bytes} (h : a = b) (h2 : s = t) : hexDigit a :: s = hexDigit b :: t := by
  rw [h, h2]
theorem cons45 {s t : Bytes} (h2 : s = t) : (45 :: s : Bytes) = 45 :: t := by rw [h2]

/-- the formatted text is the layout of the 32 nibbles -/
theorem format_eq_layout (i : ID) : format [] i false = layoutOf (nibble i) := by
  have hh := i.hi.isLt
  have hl := i.lo.isLt
  unfold format
  rw [padHex_small 8 _ (by decide) (by rw [field0_toNat]; omega),
      padHex_small 4 _ (by decide) (by rw [field1_toNat]; omega),
      padHex_small 4 _ (by decide) (by rw [field2_toNat]; omega),
      padHex_small 4 _ (by decide) (by rw [field3_toNat]; omega),
      padHex_small 12 _ (by decide) (by rw [field4_toNat]; omega)]
  rw [fixedHex8, fixedHex4, fixedHex4, fixedHex4, fixedHex12,
    field0_toNat, field1_toNat, field2_toNat, field3_toNat, field4_toNat]
  simp (config := {decide := true}) only [layoutOf, nibble_hi, nibble_lo, Nat.reducePow, Nat.reduceSub,
    Nat.reduceLT, Nat.reduceLeDiff]
  repeat' (first | rfl | apply cons45 | apply cons_hex)
  all_goals omega

end U.UU

namespace U.UU
open U

/-! ## the digit loop -/

/-- the value of the hex digit at text position `p` (after the offset), if there is one -/
def digitVal (s : Bytes) (off : Nat) (u : Bool) (p : Nat) : Option Nat :=
  match s[off + p]? with
  | none => none
  | some c => parseDigit c u

/-- the accumulation the loop performs when every digit is good -/
def placeAll (f : Nat → Nat) : List Nat → Nat → BitVec 64 × BitVec 64 → BitVec 64 × BitVec 64
  | [], _, n => n
  | p :: ps, i, n => placeAll f ps (i + 1) (place (place n i 0 (f p)) i 1 (f (p + 1)))

/-- the text positions the loop visits, in order -/
def flat : List Nat → List Nat
  | [] => []
  | p :: ps => p :: (p + 1) :: flat ps

theorem digits_ok_iff (s : Bytes) (off : Nat) (u : Bool) (st : List Nat) (i : Nat)
    (n n' : BitVec 64 × BitVec 64) :
    digits s off u st i n = .ok n' ↔
      (∀ p ∈ st, (digitVal s off u p).isSome ∧ (digitVal s off u (p + 1)).isSome) ∧
      n' = placeAll (fun p => (digitVal s off u p).getD 0) st i n := by
  induction st generalizing i n with
  | nil =>
    simp only [digits, placeAll, Outcome.ok.injEq]
    constructor
    · intro h; exact ⟨by simp, h.symm⟩
    · intro h; exact h.2.symm
  | cons p ps ih =>
    have hp : off + (p + 1) = off + p + 1 := by omega
    simp only [digits, placeAll, List.mem_cons, forall_eq_or_imp, digitVal, hp]
    cases h0 : s[off + p]? with
    | none => simp
    | some c0 =>
      cases h1 : s[off + p + 1]? with
      | none => simp
      | some c1 =>
        simp only []
        cases hv0 : parseDigit c0 u with
        | none => simp
        | some v0 =>
          cases hv1 : parseDigit c1 u with
          | none => simp
          | some v1 =>
            simp only [Option.isSome_some, true_and, Option.getD_some]
            rw [ih]
            simp only [digitVal]

theorem digits_ne_panic (s : Bytes) (off : Nat) (u : Bool) (st : List Nat) (i : Nat)
    (n : BitVec 64 × BitVec 64) (hr : ∀ p ∈ st, off + p + 1 < s.length) :
    digits s off u st i n ≠ .panic := by
  induction st generalizing i n with
  | nil => simp [digits]
  | cons p ps ih =>
    have hp := hr p (by simp)
    simp only [digits]
    rw [List.getElem?_eq_getElem (by omega : off + p < s.length), List.getElem?_eq_getElem hp]
    simp only []
    split
    · simp
    · split
      · simp
      · exact ih _ _ (fun q hq => hr q (by simp [hq]))

/-- an error of the digit loop is always `invalidDigit b` for a byte `b` of the input that is not a digit -/
theorem digits_err_class (s : Bytes) (off : Nat) (u : Bool) (st : List Nat) (i : Nat)
    (n : BitVec 64 × BitVec 64) (e : Err) (h : digits s off u st i n = .err e) :
    ∃ b, e = .invalidDigit b ∧ b ∈ s ∧ parseDigit b u = none := by
  induction st generalizing i n with
  | nil => simp [digits] at h
  | cons p ps ih =>
    simp only [digits] at h
    split at h
    · rename_i c0 c1 h0 h1
      split at h
      · rename_i hv0
        simp only [Outcome.err.injEq] at h
        exact ⟨c0, h.symm, List.mem_of_getElem? h0, hv0⟩
      · split at h
        · rename_i hv1
          simp only [Outcome.err.injEq] at h
          exact ⟨c1, h.symm, List.mem_of_getElem? h1, hv1⟩
        · exact ih _ _ h
    · simp at h

/-- the first bad digit (in text order) is the one reported -/
theorem digits_first_bad (s : Bytes) (off : Nat) (u : Bool) (st : List Nat) (i : Nat)
    (n : BitVec 64 × BitVec 64) (t q b : Nat)
    (hr : ∀ p ∈ st, off + p + 1 < s.length)
    (hgood : ∀ t' < t, ∀ p, (flat st)[t']? = some p → (digitVal s off u p).isSome)
    (hq : (flat st)[t]? = some q) (hb : s[off + q]? = some b) (hbad : parseDigit b u = none) :
    digits s off u st i n = .err (.invalidDigit b) := by
  induction st generalizing i n t with
  | nil => simp [flat] at hq
  | cons p ps ih =>
    have hp := hr p (by simp)
    simp only [digits]
    rw [List.getElem?_eq_getElem (by omega : off + p < s.length), List.getElem?_eq_getElem hp]
    simp only []
    match t, hgood, hq with
    | 0, _, hq =>
      simp only [flat, List.getElem?_cons_zero, Option.some.injEq] at hq
      subst hq
      rw [List.getElem?_eq_getElem (by omega : off + p < s.length), Option.some.injEq] at hb
      rw [hb, hbad]
    | 1, hgood, hq =>
      simp only [flat, List.getElem?_cons_succ, List.getElem?_cons_zero, Option.some.injEq] at hq
      subst hq
      have g0 := hgood 0 (by omega) p (by simp [flat])
      simp only [digitVal, List.getElem?_eq_getElem (by omega : off + p < s.length)] at g0
      rw [show off + (p + 1) = off + p + 1 by omega, List.getElem?_eq_getElem hp, Option.some.injEq] at hb
      cases hv0 : parseDigit s[off + p] u with
      | none => rw [hv0] at g0; simp at g0
      | some v0 => simp only []; rw [hb, hbad]
    | t + 2, hgood, hq =>
      simp only [flat, List.getElem?_cons_succ] at hq
      have g0 := hgood 0 (by omega) p (by simp [flat])
      have g1 := hgood 1 (by omega) (p + 1) (by simp [flat])
      simp only [digitVal, List.getElem?_eq_getElem (by omega : off + p < s.length)] at g0
      simp only [digitVal, show off + (p + 1) = off + p + 1 by omega, List.getElem?_eq_getElem hp] at g1
      cases hv0 : parseDigit s[off + p] u with
      | none => rw [hv0] at g0; simp at g0
      | some v0 =>
        cases hv1 : parseDigit s[off + p + 1] u with
        | none => rw [hv1] at g1; simp at g1
        | some v1 =>
          simp only []
          exact ih _ _ t (fun q hq => hr q (by simp [hq]))
            (fun t' ht' p' hp' => hgood (t' + 2) (by omega) p' (by simpa [flat] using hp')) hq

end U.UU
namespace U.UU
open U

/-! ## the accumulated words -/

/-- sixteen 4-bit values OR-ed into a word, first value in the top nibble (the loop's order) -/
def packW (g : Nat → Nat) : BitVec 64 :=
  0#64 ||| BitVec.ofNat 64 (g 0) <<< 60 ||| BitVec.ofNat 64 (g 1) <<< 56
    ||| BitVec.ofNat 64 (g 2) <<< 52 ||| BitVec.ofNat 64 (g 3) <<< 48
    ||| BitVec.ofNat 64 (g 4) <<< 44 ||| BitVec.ofNat 64 (g 5) <<< 40
    ||| BitVec.ofNat 64 (g 6) <<< 36 ||| BitVec.ofNat 64 (g 7) <<< 32
    ||| BitVec.ofNat 64 (g 8) <<< 28 ||| BitVec.ofNat 64 (g 9) <<< 24
    ||| BitVec.ofNat 64 (g 10) <<< 20 ||| BitVec.ofNat 64 (g 11) <<< 16
    ||| BitVec.ofNat 64 (g 12) <<< 12 ||| BitVec.ofNat 64 (g 13) <<< 8
    ||| BitVec.ofNat 64 (g 14) <<< 4 ||| BitVec.ofNat 64 (g 15) <<< 0

theorem placeAll_starts (f : Nat → Nat) :
    placeAll f Gen.uu_starts 0 (0#64, 0#64) = (packW (fun k => f (pos (k + 16))), packW (fun k => f (pos k))) := by
  simp [placeAll, Gen.uu_starts, place, Gen.uu_digitPos, Gen.uu_digitWord, Gen.uu_digitShift, packW, pos]

theorem or_shl_step (A : BitVec 64) (S v sh : Nat) (hA : A.toNat = S * 2 ^ (sh + 4)) (hv : v < 16)
    (hS : (S * 16 + v) * 2 ^ sh < 2 ^ 64) :
    (A ||| BitVec.ofNat 64 v <<< sh).toNat = (S * 16 + v) * 2 ^ sh := by
  have hpos : 0 < 2 ^ sh := Nat.pow_pos (by decide)
  have hvs : v * 2 ^ sh < 2 ^ 64 := by
    refine Nat.lt_of_le_of_lt ?_ hS
    exact Nat.mul_le_mul_right _ (by omega)
  have hb : v * 2 ^ sh < 2 ^ (sh + 4) := by
    rw [Nat.pow_add, Nat.mul_comm]
    exact Nat.mul_lt_mul_of_pos_left hv hpos
  rw [BitVec.toNat_or, BitVec.toNat_shiftLeft, BitVec.toNat_ofNat, Nat.mod_eq_of_lt (by omega : v < 2 ^ 64),
    Nat.shiftLeft_eq, Nat.mod_eq_of_lt hvs, hA, ← Nat.shiftLeft_eq, ← Nat.shiftLeft_add_eq_or_of_lt hb,
    Nat.shiftLeft_eq, Nat.pow_add, Nat.add_mul, Nat.mul_assoc, Nat.mul_comm 16, Nat.mul_comm (2 ^ sh) (2 ^ 4)]

/-- the packed word as a number (Horner form) -/
theorem packW_toNat (g : Nat → Nat) (hg : ∀ k, g k < 16) :
    (packW g).toNat = ((((((((((((((((0 * 16 + g 0) * 16 + g 1) * 16 + g 2) * 16 + g 3) * 16 + g 4) * 16 + g 5) * 16
      + g 6) * 16 + g 7) * 16 + g 8) * 16 + g 9) * 16 + g 10) * 16 + g 11) * 16 + g 12) * 16 + g 13) * 16
      + g 14) * 16 + g 15) * 2 ^ 0 := by
  have h0 := or_shl_step 0#64 0 (g 0) 60 (by simp) (hg 0) (by have := hg 0; omega)
  have h1 := or_shl_step _ _ (g 1) 56 h0 (hg 1) (by have := hg 0; have := hg 1; omega)
  have h2 := or_shl_step _ _ (g 2) 52 h1 (hg 2) (by have := hg 0; have := hg 1; have := hg 2; omega)
  have h3 := or_shl_step _ _ (g 3) 48 h2 (hg 3) (by have := hg 0; have := hg 1; have := hg 2; have := hg 3; omega)
  have h4 := or_shl_step _ _ (g 4) 44 h3 (hg 4) (by have := hg 0; have := hg 1; have := hg 2; have := hg 3; have := hg 4; omega)
  have h5 := or_shl_step _ _ (g 5) 40 h4 (hg 5) (by have := hg 0; have := hg 1; have := hg 2; have := hg 3; have := hg 4; have := hg 5; omega)
  have h6 := or_shl_step _ _ (g 6) 36 h5 (hg 6) (by have := hg 0; have := hg 1; have := hg 2; have := hg 3; have := hg 4; have := hg 5; have := hg 6; omega)
  have h7 := or_shl_step _ _ (g 7) 32 h6 (hg 7) (by have := hg 0; have := hg 1; have := hg 2; have := hg 3; have := hg 4; have := hg 5; have := hg 6; have := hg 7; omega)
  have h8 := or_shl_step _ _ (g 8) 28 h7 (hg 8) (by have := hg 0; have := hg 1; have := hg 2; have := hg 3; have := hg 4; have := hg 5; have := hg 6; have := hg 7; have := hg 8; omega)
  have h9 := or_shl_step _ _ (g 9) 24 h8 (hg 9) (by have := hg 0; have := hg 1; have := hg 2; have := hg 3; have := hg 4; have := hg 5; have := hg 6; have := hg 7; have := hg 8; have := hg 9; omega)
  have h10 := or_shl_step _ _ (g 10) 20 h9 (hg 10) (by have := hg 0; have := hg 1; have := hg 2; have := hg 3; have := hg 4; have := hg 5; have := hg 6; have := hg 7; have := hg 8; have := hg 9; have := hg 10; omega)
  have h11 := or_shl_step _ _ (g 11) 16 h10 (hg 11) (by have := hg 0; have := hg 1; have := hg 2; have := hg 3; have := hg 4; have := hg 5; have := hg 6; have := hg 7; have := hg 8; have := hg 9; have := hg 10; have := hg 11; omega)
  have h12 := or_shl_step _ _ (g 12) 12 h11 (hg 12) (by have := hg 0; have := hg 1; have := hg 2; have := hg 3; have := hg 4; have := hg 5; have := hg 6; have := hg 7; have := hg 8; have := hg 9; have := hg 10; have := hg 11; have := hg 12; omega)
  have h13 := or_shl_step _ _ (g 13) 8 h12 (hg 13) (by have := hg 0; have := hg 1; have := hg 2; have := hg 3; have := hg 4; have := hg 5; have := hg 6; have := hg 7; have := hg 8; have := hg 9; have := hg 10; have := hg 11; have := hg 12; have := hg 13; omega)
  have h14 := or_shl_step _ _ (g 14) 4 h13 (hg 14) (by have := hg 0; have := hg 1; have := hg 2; have := hg 3; have := hg 4; have := hg 5; have := hg 6; have := hg 7; have := hg 8; have := hg 9; have := hg 10; have := hg 11; have := hg 12; have := hg 13; have := hg 14; omega)
  have h15 := or_shl_step _ _ (g 15) 0 h14 (hg 15) (by have := hg 0; have := hg 1; have := hg 2; have := hg 3; have := hg 4; have := hg 5; have := hg 6; have := hg 7; have := hg 8; have := hg 9; have := hg 10; have := hg 11; have := hg 12; have := hg 13; have := hg 14; have := hg 15; omega)
  exact h15

theorem packW_digit (g : Nat → Nat) (hg : ∀ k, g k < 16) (k : Nat) (hk : k < 16) :
    (packW g).toNat / 16 ^ (15 - k) % 16 = g k := by
  rw [packW_toNat g hg]
  have := hg 0
  have := hg 1
  have := hg 2
  have := hg 3
  have := hg 4
  have := hg 5
  have := hg 6
  have := hg 7
  have := hg 8
  have := hg 9
  have := hg 10
  have := hg 11
  have := hg 12
  have := hg 13
  have := hg 14
  have := hg 15
  have hc : k = 0 ∨ k = 1 ∨ k = 2 ∨ k = 3 ∨ k = 4 ∨ k = 5 ∨ k = 6 ∨ k = 7 ∨ k = 8 ∨ k = 9 ∨ k = 10 ∨ k = 11 ∨ k = 12 ∨ k = 13 ∨ k = 14 ∨ k = 15 := by omega
  rcases hc with rfl | rfl | rfl | rfl | rfl | rfl | rfl | rfl | rfl | rfl | rfl | rfl | rfl | rfl | rfl | rfl
  all_goals (simp only [Nat.reduceSub, Nat.reducePow]; omega)

/-- digit `k` of the ID assembled by the loop is the `k`-th digit value read -/
theorem nibble_pack (f : Nat → Nat) (hf : ∀ p, f p < 16) (k : Nat) (hk : k < 32) :
    nibble ⟨packW (fun k => f (pos k)), packW (fun k => f (pos (k + 16)))⟩ k = f (pos k) := by
  by_cases h : k < 16
  · rw [nibble_hi _ _ h]
    exact packW_digit (fun k => f (pos k)) (fun _ => hf _) k h
  · rw [nibble_lo _ _ (by omega) hk]
    have := packW_digit (fun k => f (pos (k + 16))) (fun _ => hf _) (k - 16) (by omega)
    rw [show 15 - (k - 16) = 31 - k by omega, show k - 16 + 16 = k by omega] at this
    exact this

theorem mod_pow_ext (a b m : Nat) (h : ∀ k, k < m → a / 16 ^ k % 16 = b / 16 ^ k % 16) :
    a % 16 ^ m = b % 16 ^ m := by
  induction m with
  | zero => simp [Nat.mod_one]
  | succ m ih =>
    rw [Nat.mod_pow_succ, Nat.mod_pow_succ, ih (fun k hk => h k (by omega)), h m (by omega)]

theorem word_ext (a b : Nat) (ha : a < 2 ^ 64) (hb : b < 2 ^ 64)
    (h : ∀ k, k < 16 → a / 16 ^ (15 - k) % 16 = b / 16 ^ (15 - k) % 16) : a = b := by
  have := mod_pow_ext a b 16 (fun k hk => by
    have := h (15 - k) (by omega)
    rwa [show 15 - (15 - k) = k by omega] at this)
  rwa [Nat.mod_eq_of_lt (by omega), Nat.mod_eq_of_lt (by omega)] at this

/-- an ID is determined by its 32 hex digits -/
theorem ID.ext_nibble (i j : ID) (h : ∀ k, k < 32 → nibble i k = nibble j k) : i = j := by
  obtain ⟨ih, il⟩ := i
  obtain ⟨jh, jl⟩ := j
  have e1 : ih = jh := by
    apply BitVec.eq_of_toNat_eq
    apply word_ext _ _ ih.isLt jh.isLt
    intro k hk
    have := h k (by omega)
    rwa [nibble_hi _ _ hk, nibble_hi _ _ hk] at this
  have e2 : il = jl := by
    apply BitVec.eq_of_toNat_eq
    apply word_ext _ _ il.isLt jl.isLt
    intro k hk
    have := h (k + 16) (by omega)
    rw [nibble_lo _ _ (by omega) (by omega), nibble_lo _ _ (by omega) (by omega),
      show 31 - (k + 16) = 15 - k by omega] at this
    exact this
  rw [e1, e2]

end U.UU
namespace U.UU
open U

/-! ## the parser -/

/-- what the parser does once the offset is known: hyphen test, then the digit loop -/
def core (s : Bytes) (offset : Nat) (u : Bool) : Outcome ID :=
  match s[offset + 8]?, s[offset + 13]?, s[offset + 18]?, s[offset + 23]? with
  | some h1, some h2, some h3, some h4 =>
    if h1 ≠ 45 ∨ h2 ≠ 45 ∨ h3 ≠ 45 ∨ h4 ≠ 45 then .err .invalid
    else
      match digits s offset u Gen.uu_starts 0 (0#64, 0#64) with
      | .ok n => .ok ⟨n.2, n.1⟩
      | .err e => .err e
      | .panic => .panic
  | _, _, _, _ => .panic

/-- `parse` as a decision list -/
theorem parse_eq (maxLen : Nat) (dURN dUpper : Bool) (s : Bytes) :
    parse maxLen dURN dUpper s =
      if maxLen ≠ 0 ∧ s.length > maxLen then .err .tooLong
      else if s.length = 36 then core s 0 (!dUpper)
      else if s.length = 45 then
        if dURN then .err .urnDisabled
        else match hasURNPrefix s with
          | .ok true => core s 9 (!dUpper)
          | .ok false => .err .invalid
          | .err e => .err e
          | .panic => .panic
      else .err .invalid := by
  unfold parse
  simp only [Gen.uu_IDLength, Gen.uu_URNPrefix, List.length_cons, List.length_nil, Nat.reduceAdd]
  by_cases h1 : maxLen ≠ 0 ∧ s.length > maxLen
  · rw [if_pos h1, if_pos h1]
  · rw [if_neg h1, if_neg h1]
    by_cases h36 : s.length = 36
    · simp only [h36, ↓reduceIte]; rfl
    · simp only [h36, ↓reduceIte]
      by_cases h45 : s.length = 45
      · simp only [h45, ↓reduceIte]
        cases dURN with
        | true => simp
        | false =>
          simp only [Bool.false_eq_true, if_false]
          cases hasURNPrefix s with
          | ok b => cases b <;> rfl
          | err e => rfl
          | panic => rfl
      · simp only [h45, ↓reduceIte]

theorem parseDigit_lt (c : Nat) (u : Bool) (v : Nat) (h : parseDigit c u = some v) : v < 16 := by
  unfold parseDigit at h
  repeat' split at h
  all_goals first
    | (simp only [Option.some.injEq] at h; omega)
    | simp at h

theorem digitVal_getD_lt (s : Bytes) (off : Nat) (u : Bool) (p : Nat) : (digitVal s off u p).getD 0 < 16 := by
  cases h : digitVal s off u p with
  | none => simp
  | some v =>
    simp only [Option.getD_some]
    unfold digitVal at h
    split at h
    · simp at h
    · exact parseDigit_lt _ _ _ h

theorem digitVal_eq_some (s : Bytes) (off : Nat) (u : Bool) (p v : Nat) :
    digitVal s off u p = some v ↔ ∃ c, s[off + p]? = some c ∧ parseDigit c u = some v := by
  unfold digitVal
  cases s[off + p]? with
  | none => simp
  | some c => simp

theorem pos_mem_starts (k : Nat) (hk : k < 32) : ∃ p, p ∈ Gen.uu_starts ∧ (pos k = p ∨ pos k = p + 1) := by
  have hc : k = 0 ∨ k = 1 ∨ k = 2 ∨ k = 3 ∨ k = 4 ∨ k = 5 ∨ k = 6 ∨ k = 7 ∨ k = 8 ∨ k = 9 ∨ k = 10 ∨ k = 11 ∨ k = 12 ∨ k = 13 ∨ k = 14 ∨ k = 15 ∨ k = 16 ∨ k = 17 ∨ k = 18 ∨ k = 19 ∨ k = 20 ∨ k = 21 ∨ k = 22 ∨ k = 23 ∨ k = 24 ∨ k = 25 ∨ k = 26 ∨ k = 27 ∨ k = 28 ∨ k = 29 ∨ k = 30 ∨ k = 31 := by omega
  rcases hc with rfl | rfl | rfl | rfl | rfl | rfl | rfl | rfl | rfl | rfl | rfl | rfl | rfl | rfl | rfl | rfl | rfl | rfl | rfl | rfl | rfl | rfl | rfl | rfl | rfl | rfl | rfl | rfl | rfl | rfl | rfl | rfl
  · exact ⟨0, by decide, Or.inl (by decide)⟩
  · exact ⟨0, by decide, Or.inr (by decide)⟩
  · exact ⟨2, by decide, Or.inl (by decide)⟩
  · exact ⟨2, by decide, Or.inr (by decide)⟩
  · exact ⟨4, by decide, Or.inl (by decide)⟩
  · exact ⟨4, by decide, Or.inr (by decide)⟩
  · exact ⟨6, by decide, Or.inl (by decide)⟩
  · exact ⟨6, by decide, Or.inr (by decide)⟩
  · exact ⟨9, by decide, Or.inl (by decide)⟩
  · exact ⟨9, by decide, Or.inr (by decide)⟩
  · exact ⟨11, by decide, Or.inl (by decide)⟩
  · exact ⟨11, by decide, Or.inr (by decide)⟩
  · exact ⟨14, by decide, Or.inl (by decide)⟩
  · exact ⟨14, by decide, Or.inr (by decide)⟩
  · exact ⟨16, by decide, Or.inl (by decide)⟩
  · exact ⟨16, by decide, Or.inr (by decide)⟩
  · exact ⟨19, by decide, Or.inl (by decide)⟩
  · exact ⟨19, by decide, Or.inr (by decide)⟩
  · exact ⟨21, by decide, Or.inl (by decide)⟩
  · exact ⟨21, by decide, Or.inr (by decide)⟩
  · exact ⟨24, by decide, Or.inl (by decide)⟩
  · exact ⟨24, by decide, Or.inr (by decide)⟩
  · exact ⟨26, by decide, Or.inl (by decide)⟩
  · exact ⟨26, by decide, Or.inr (by decide)⟩
  · exact ⟨28, by decide, Or.inl (by decide)⟩
  · exact ⟨28, by decide, Or.inr (by decide)⟩
  · exact ⟨30, by decide, Or.inl (by decide)⟩
  · exact ⟨30, by decide, Or.inr (by decide)⟩
  · exact ⟨32, by decide, Or.inl (by decide)⟩
  · exact ⟨32, by decide, Or.inr (by decide)⟩
  · exact ⟨34, by decide, Or.inl (by decide)⟩
  · exact ⟨34, by decide, Or.inr (by decide)⟩
theorem starts_are_pos (p : Nat) (hp : p ∈ Gen.uu_starts) : ∃ k, k < 31 ∧ pos k = p ∧ pos (k + 1) = p + 1 := by
  simp only [Gen.uu_starts, List.mem_cons, List.not_mem_nil, or_false] at hp
  rcases hp with rfl | rfl | rfl | rfl | rfl | rfl | rfl | rfl | rfl | rfl | rfl | rfl | rfl | rfl | rfl | rfl
  · exact ⟨0, by decide, by decide, by decide⟩
  · exact ⟨2, by decide, by decide, by decide⟩
  · exact ⟨4, by decide, by decide, by decide⟩
  · exact ⟨6, by decide, by decide, by decide⟩
  · exact ⟨8, by decide, by decide, by decide⟩
  · exact ⟨10, by decide, by decide, by decide⟩
  · exact ⟨12, by decide, by decide, by decide⟩
  · exact ⟨14, by decide, by decide, by decide⟩
  · exact ⟨16, by decide, by decide, by decide⟩
  · exact ⟨18, by decide, by decide, by decide⟩
  · exact ⟨20, by decide, by decide, by decide⟩
  · exact ⟨22, by decide, by decide, by decide⟩
  · exact ⟨24, by decide, by decide, by decide⟩
  · exact ⟨26, by decide, by decide, by decide⟩
  · exact ⟨28, by decide, by decide, by decide⟩
  · exact ⟨30, by decide, by decide, by decide⟩

theorem nibble_pack' (f : Nat → Nat) (hf : ∀ p, f p < 16) (n : BitVec 64 × BitVec 64)
    (hn : n = placeAll f Gen.uu_starts 0 (0#64, 0#64)) (k : Nat) (hk : k < 32) :
    nibble ⟨n.2, n.1⟩ k = f (pos k) := by
  subst hn
  rw [placeAll_starts]
  exact nibble_pack f hf k hk

/-- the digit loop succeeds exactly when all 32 digit positions hold digits, and then the ID's
`k`-th digit is the value of the `k`-th digit read -/
theorem digits_starts_ok_iff (s : Bytes) (off : Nat) (u : Bool) (i : ID) :
    (∃ n, digits s off u Gen.uu_starts 0 (0#64, 0#64) = .ok n ∧ i = ⟨n.2, n.1⟩) ↔
      ∀ k, k < 32 → ∃ c, s[off + pos k]? = some c ∧ parseDigit c u = some (nibble i k) := by
  constructor
  · rintro ⟨n, hn, rfl⟩ k hk
    rw [digits_ok_iff, placeAll_starts] at hn
    obtain ⟨hsome, rfl⟩ := hn
    rw [← digitVal_eq_some]
    simp only
    rw [nibble_pack (fun p => (digitVal s off u p).getD 0) (fun p => digitVal_getD_lt s off u p) k hk]
    obtain ⟨p, hp, hpk⟩ := pos_mem_starts k hk
    have := hsome p hp
    rcases hpk with e | e <;> rw [e]
    · cases h : digitVal s off u p with
      | none => rw [h] at this; simp at this
      | some v => simp
    · cases h : digitVal s off u (p + 1) with
      | none => rw [h] at this; simp at this
      | some v => simp
  · intro h
    have hv : ∀ k, k < 32 → digitVal s off u (pos k) = some (nibble i k) :=
      fun k hk => (digitVal_eq_some _ _ _ _ _).mpr (h k hk)
    refine ⟨_, (digits_ok_iff _ _ _ _ _ _ _).mpr ⟨?_, rfl⟩, ?_⟩
    · intro p hp
      obtain ⟨k, hk, e1, e2⟩ := starts_are_pos p hp
      subst e1
      rw [← e2, hv k (by omega), hv (k + 1) (by omega)]
      simp
    · refine ID.ext_nibble _ _ (fun k hk => ?_)
      have e := nibble_pack' (fun p => (digitVal s off u p).getD 0) (fun p => digitVal_getD_lt s off u p)
        (placeAll (fun p => (digitVal s off u p).getD 0) Gen.uu_starts 0 (0#64, 0#64)) rfl k hk
      have e2 : (digitVal s off u (pos k)).getD 0 = nibble i k := by
        rw [hv k hk, Option.getD_some]
      exact (e.trans e2).symm

theorem core_ok_iff (s : Bytes) (off : Nat) (u : Bool) (i : ID) :
    core s off u = .ok i ↔
      (s[off + 8]? = some 45 ∧ s[off + 13]? = some 45 ∧ s[off + 18]? = some 45 ∧ s[off + 23]? = some 45) ∧
      ∀ k, k < 32 → ∃ c, s[off + pos k]? = some c ∧ parseDigit c u = some (nibble i k) := by
  rw [← digits_starts_ok_iff]
  unfold core
  split
  · rename_i h1 h2 h3 h4 e1 e2 e3 e4
    rw [e1, e2, e3, e4]
    by_cases hh : h1 ≠ 45 ∨ h2 ≠ 45 ∨ h3 ≠ 45 ∨ h4 ≠ 45
    · rw [if_pos hh]
      simp only [Option.some.injEq, false_iff, reduceCtorEq]
      omega
    · rw [if_neg hh]
      have : h1 = 45 ∧ h2 = 45 ∧ h3 = 45 ∧ h4 = 45 := by omega
      obtain ⟨rfl, rfl, rfl, rfl⟩ := this
      simp only [true_and]
      cases hd : digits s off u Gen.uu_starts 0 (0#64, 0#64) with
      | ok n => simp [eq_comm]
      | err e => simp
      | panic => simp
  · rename_i hx
    simp only [reduceCtorEq, false_iff]
    rintro ⟨⟨e1, e2, e3, e4⟩, _⟩
    exact hx _ _ _ _ e1 e2 e3 e4

end U.UU
