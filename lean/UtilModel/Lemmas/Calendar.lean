import UtilModel.Model.GoTime
/-! # The calendar model is a bijection between valid dates and day numbers, monotone in (y, m, d) -/
namespace U.GoTime

theorem isLeap_iff (y : Int) : isLeap y = true ↔ (y % 4 = 0 ∧ y % 100 ≠ 0) ∨ y % 400 = 0 := by
  simp [isLeap]

theorem isLeap_false_iff (y : Int) : isLeap y = false ↔ ¬ ((y % 4 = 0 ∧ y % 100 ≠ 0) ∨ y % 400 = 0) := by
  rw [← isLeap_iff]; simp

theorem dby_cycle (a b c d : Int) (hb : 0 ≤ b ∧ b ≤ 3) (hc : 0 ≤ c ∧ c ≤ 24) (hd : 0 ≤ d ∧ d ≤ 3) :
    dby (1 + 400 * a + 100 * b + 4 * c + d) = 146097 * a + 36524 * b + 1461 * c + 365 * d := by
  unfold dby
  have e : (1 + 400 * a + 100 * b + 4 * c + d - 1) = 400 * a + 100 * b + 4 * c + d := by omega
  rw [e]
  omega

theorem isLeap_cycle (a b c d : Int) (hb : 0 ≤ b ∧ b ≤ 3) (hc : 0 ≤ c ∧ c ≤ 24) (hd : 0 ≤ d ∧ d ≤ 3) :
    isLeap (1 + 400 * a + 100 * b + 4 * c + d) = (d == 3 && (c != 24 || b == 3)) := by
  unfold isLeap
  have h4 : (1 + 400 * a + 100 * b + 4 * c + d) % 4 = (1 + d) % 4 := by omega
  have h100 : (1 + 400 * a + 100 * b + 4 * c + d) % 100 = (1 + 4 * c + d) % 100 := by omega
  have h400 : (1 + 400 * a + 100 * b + 4 * c + d) % 400 = (1 + 100 * b + 4 * c + d) % 400 := by omega
  rw [h4, h100, h400]
  have : d = 0 ∨ d = 1 ∨ d = 2 ∨ d = 3 := by omega
  rcases this with rfl | rfl | rfl | rfl
  · simp; omega
  · simp; omega
  · simp; omega
  · by_cases hc24 : c = 24
    · subst hc24
      have : b = 0 ∨ b = 1 ∨ b = 2 ∨ b = 3 := by omega
      rcases this with rfl | rfl | rfl | rfl <;> decide
    · have h1 : (1 + 4 * c + 3) % 100 ≠ 0 := by omega
      have e1 : ((1 + 4 * c + 3) % 100 != 0) = true := by simp only [bne_iff_ne, ne_eq]; exact h1
      have e2 : (c != 24) = true := by simp only [bne_iff_ne, ne_eq]; exact hc24
      rw [e1, e2]; simp

/-- Go's cycle arithmetic inverts the day count: year and day-of-year of a zero-based day number -/
theorem yearOf_spec (n : Int) :
    dby (yearOf n).1 + (yearOf n).2 = n ∧ 0 ≤ (yearOf n).2 ∧ (yearOf n).2 < yearLen (yearOf n).1 := by
  unfold yearOf
  simp only
  generalize hn400 : n / 146097 = a
  generalize hr0 : n % 146097 = r0
  have hr0b : 0 ≤ r0 ∧ r0 < 146097 := by omega
  have hn : n = 146097 * a + r0 := by omega
  generalize hb' : r0 / 36524 = b'
  generalize hb : (if b' = 4 then 3 else b') = b
  have hbb : 0 ≤ b ∧ b ≤ 3 := by split at hb <;> omega
  generalize hr1 : r0 - 36524 * b = r1
  have hr1b : 0 ≤ r1 ∧ r1 ≤ 36524 ∧ (b ≠ 3 → r1 < 36524) := by split at hb <;> omega
  generalize hc : r1 / 1461 = c
  generalize hr2 : r1 % 1461 = r2
  have hcb : 0 ≤ c ∧ c ≤ 24 ∧ (c = 24 → r2 < 1460 ∨ b = 3) := by omega
  generalize hd' : r2 / 365 = d'
  generalize hd : (if d' = 4 then 3 else d') = d
  have hdb : 0 ≤ d ∧ d ≤ 3 := by split at hd <;> omega
  rw [dby_cycle a b c d hbb ⟨hcb.1, hcb.2.1⟩ hdb]
  unfold yearLen
  rw [isLeap_cycle a b c d hbb ⟨hcb.1, hcb.2.1⟩ hdb]
  refine ⟨by omega, by split at hd <;> omega, ?_⟩
  split <;> rename_i hl
  · split at hd <;> omega
  · simp at hl
    split at hd <;> omega

theorem dby_succ (y : Int) : dby (y + 1) = dby y + yearLen y := by
  unfold yearLen
  by_cases h : isLeap y = true
  · rw [if_pos h]; rw [isLeap_iff] at h; unfold dby; omega
  · rw [if_neg h]; rw [Bool.not_eq_true, isLeap_false_iff] at h; unfold dby; omega

theorem dby_mono {a b : Int} (h : a ≤ b) : dby a ≤ dby b := by
  unfold dby; omega

theorem yearLen_pos (y : Int) : 365 ≤ yearLen y ∧ yearLen y ≤ 366 := by
  unfold yearLen; split <;> omega

/-- a day number lies in exactly one year -/
theorem year_unique {y y' r r' : Int} (h : dby y + r = dby y' + r')
    (hr : 0 ≤ r ∧ r < yearLen y) (hr' : 0 ≤ r' ∧ r' < yearLen y') : y = y' ∧ r = r' := by
  have key : ∀ a b ra rb : Int, dby a + ra = dby b + rb → 0 ≤ ra → ra < yearLen a → 0 ≤ rb → ¬ (a < b) := by
    intro a b ra rb hab h0 h1 h2 hlt
    have := dby_mono (show a + 1 ≤ b by omega)
    rw [dby_succ] at this
    omega
  have h1 := key y y' r r' h hr.1 hr.2 hr'.1
  have h2 := key y' y r' r h.symm hr'.1 hr'.2 hr.1
  have : y = y' := by omega
  subst this
  exact ⟨rfl, by omega⟩

theorem yearOf_unique {y r n : Int} (h : dby y + r = n) (hr : 0 ≤ r ∧ r < yearLen y) :
    yearOf n = (y, r) := by
  obtain ⟨h1, h2, h3⟩ := yearOf_spec n
  have := year_unique (h1.trans h.symm) ⟨h2, h3⟩ hr
  exact Prod.ext this.1 this.2

/-- valid calendar date (spec) -/
def ValidDate (y : Int) (m : Nat) (d : Int) : Prop := 1 ≤ m ∧ m ≤ 12 ∧ 1 ≤ d ∧ d ≤ daysIn y m

instance (y : Int) (m : Nat) (d : Int) : Decidable (ValidDate y m d) := by unfold ValidDate; infer_instance

theorem daysIn_le (y : Int) (m : Nat) : 28 ≤ daysIn y m ∧ daysIn y m ≤ 31 := by
  unfold daysIn daysInL; split <;> (try split) <;> omega

/-- day of year of a valid date is inside the year -/
theorem yday_bounds {y : Int} {m : Nat} {d : Int} (hv : ValidDate y m d) :
    0 ≤ dbm m + leapAdj y m + d - 1 ∧ dbm m + leapAdj y m + d - 1 < yearLen y := by
  obtain ⟨h1, h12, hd1, hd⟩ := hv
  unfold daysIn daysInL at hd
  unfold leapAdj yearLen
  have hm : m = 1 ∨ m = 2 ∨ m = 3 ∨ m = 4 ∨ m = 5 ∨ m = 6 ∨ m = 7 ∨ m = 8 ∨ m = 9 ∨ m = 10 ∨ m = 11 ∨ m = 12 := by omega
  cases hl : isLeap y <;>
    rcases hm with rfl | rfl | rfl | rfl | rfl | rfl | rfl | rfl | rfl | rfl | rfl | rfl <;>
    simp [hl, dbm] at hd ⊢ <;> omega


/-- cumulative days before month `m` -/
def cum (leap : Bool) (m : Nat) : Int := dbm m + (if leap && decide (3 ≤ m) then 1 else 0)

theorem cum_succ (leap : Bool) (m : Nat) (h1 : 1 ≤ m) (h12 : m ≤ 12) :
    cum leap (m + 1) = cum leap m + daysInL leap m := by
  have hm : m = 1 ∨ m = 2 ∨ m = 3 ∨ m = 4 ∨ m = 5 ∨ m = 6 ∨ m = 7 ∨ m = 8 ∨ m = 9 ∨ m = 10 ∨ m = 11 ∨ m = 12 := by omega
  cases leap <;> rcases hm with rfl | rfl | rfl | rfl | rfl | rfl | rfl | rfl | rfl | rfl | rfl | rfl <;> decide

theorem daysInL_bounds (leap : Bool) (m : Nat) : 28 ≤ daysInL leap m ∧ daysInL leap m ≤ 31 := by
  unfold daysInL; cases leap <;> simp <;> split <;> (try split) <;> omega

theorem cum_mono (leap : Bool) (k m : Nat) (hk : 1 ≤ k) (hkm : k ≤ m) (hm : m ≤ 13) : cum leap k ≤ cum leap m := by
  induction m with
  | zero => omega
  | succ m ih =>
    by_cases h : k = m + 1
    · subst h; exact Int.le_refl _
    · have := ih (by omega) (by omega)
      rw [cum_succ leap m (by omega) (by omega)]
      have := daysInL_bounds leap m
      omega

theorem monthDayFrom_of_valid (leap : Bool) (f k m : Nat) (d : Int) (hk : 1 ≤ k) (hkm : k ≤ m) (hm : m ≤ 12)
    (hf : m - k ≤ f) (hd1 : 1 ≤ d) (hd : d ≤ daysInL leap m) :
    monthDayFrom leap f k (cum leap m - cum leap k + d - 1) = (m, d) := by
  induction f generalizing k with
  | zero =>
    have : k = m := by omega
    subst this
    simp only [monthDayFrom]
    refine Prod.ext rfl ?_; simp only; omega
  | succ f ih =>
    simp only [monthDayFrom]
    by_cases h : k = m
    · subst h
      rw [if_pos (by omega)]
      refine Prod.ext rfl ?_; simp only; omega
    · have hmono := cum_mono leap (k + 1) m (by omega) (by omega) (by omega)
      have hs := cum_succ leap k hk (by omega)
      rw [if_neg (by omega)]
      have := ih (k + 1) (by omega) (by omega) (by omega)
      rw [← this]
      congr 1
      omega

theorem monthDayFrom_valid (leap : Bool) (f k : Nat) (yd : Int) (hk : 1 ≤ k) (hf : k + f = 12)
    (h0 : 0 ≤ yd) (h1 : yd < cum leap 13 - cum leap k) :
    ∃ m d, monthDayFrom leap f k yd = (m, d) ∧ k ≤ m ∧ m ≤ 12 ∧ 1 ≤ d ∧ d ≤ daysInL leap m ∧
      cum leap m + d = cum leap k + yd + 1 := by
  induction f generalizing k yd with
  | zero =>
    have : k = 12 := by omega
    subst this
    have h13 : cum leap 13 = cum leap 12 + daysInL leap 12 := cum_succ leap 12 (by omega) (by omega)
    exact ⟨12, yd + 1, rfl, by omega, by omega, by omega, by omega, by omega⟩
  | succ f ih =>
    simp only [monthDayFrom]
    have hs := cum_succ leap k hk (by omega)
    by_cases h : yd < daysInL leap k
    · rw [if_pos h]
      exact ⟨k, yd + 1, rfl, by omega, by omega, by omega, by omega, by omega⟩
    · rw [if_neg h]
      obtain ⟨m, d, e, h2, h3, h4, h5, h6⟩ := ih (k + 1) (yd - daysInL leap k) (by omega) (by omega) (by omega) (by omega)
      exact ⟨m, d, e, by omega, h3, h4, h5, by omega⟩


theorem cum_eq (y : Int) (m : Nat) : cum (isLeap y) m = dbm m + leapAdj y m := rfl

theorem yearLen_eq_cum (y : Int) : yearLen y = cum (isLeap y) 13 - cum (isLeap y) 1 := by
  unfold yearLen cum; cases isLeap y <;> simp [dbm]

theorem monthDay_of_valid {y : Int} {m : Nat} {d : Int} (hv : ValidDate y m d) :
    monthDay (isLeap y) (dbm m + leapAdj y m + d - 1) = (m, d) := by
  obtain ⟨h1, h12, hd1, hd⟩ := hv
  have := monthDayFrom_of_valid (isLeap y) 11 1 m d (by omega) h1 h12 (by omega) hd1 hd
  unfold monthDay
  rw [← this]
  have c1 : cum (isLeap y) 1 = 0 := by cases isLeap y <;> rfl
  rw [cum_eq, c1]
  congr 1
  omega

/-- the month/day split of a day of year is a valid date of that year -/
theorem monthDay_valid (y : Int) (yd : Int) (h : 0 ≤ yd ∧ yd < yearLen y) :
    ∃ m d, monthDay (isLeap y) yd = (m, d) ∧ ValidDate y m d ∧ dbm m + leapAdj y m + d = yd + 1 := by
  rw [yearLen_eq_cum] at h
  obtain ⟨m, d, e, h2, h3, h4, h5, h6⟩ := monthDayFrom_valid (isLeap y) 11 1 yd (by omega) (by omega) h.1 h.2
  refine ⟨m, d, e, ⟨h2, h3, h4, h5⟩, ?_⟩
  have c1 : cum (isLeap y) 1 = 0 := by cases isLeap y <;> rfl
  rw [cum_eq, c1] at h6
  omega
/-- **round trip 1**: `civil ∘ ordinal` is the identity on valid dates -/
theorem civil_ordinal {y : Int} {m : Nat} {d : Int} (hv : ValidDate y m d) :
    civil (ordinal y m d) = (y, m, d) := by
  have hb := yday_bounds hv
  have hy : yearOf (ordinal y m d - 1) = (y, dbm m + leapAdj y m + d - 1) :=
    yearOf_unique (by unfold ordinal; omega) hb
  unfold civil
  rw [hy]
  simp only
  rw [monthDay_of_valid hv]

/-- **round trip 2**: every day number is the ordinal of the valid date `civil` returns -/
theorem ordinal_civil (n : Int) :
    ValidDate (civil n).1 (civil n).2.1 (civil n).2.2 ∧ ordinal (civil n).1 (civil n).2.1 (civil n).2.2 = n := by
  obtain ⟨h1, h2, h3⟩ := yearOf_spec (n - 1)
  obtain ⟨m, d, hmd, hv, hs⟩ := monthDay_valid (yearOf (n - 1)).1 (yearOf (n - 1)).2 ⟨h2, h3⟩
  unfold civil
  simp only [hmd]
  refine ⟨hv, ?_⟩
  unfold ordinal
  omega

theorem ordinal_eq_cum (y : Int) (m : Nat) (d : Int) : ordinal y m d = dby y + cum (isLeap y) m + d := by
  unfold ordinal; rw [cum_eq]; omega

/-- ordinal is strictly monotone in the lexicographic order of valid dates -/
theorem ordinal_lt_iff {y y' : Int} {m m' : Nat} {d d' : Int} (hv : ValidDate y m d) (hv' : ValidDate y' m' d') :
    ordinal y m d < ordinal y' m' d' ↔ y < y' ∨ (y = y' ∧ (m < m' ∨ (m = m' ∧ d < d'))) := by
  have hb := yday_bounds hv
  have hb' := yday_bounds hv'
  obtain ⟨h1, h12, hd1, hd⟩ := hv
  obtain ⟨h1', h12', hd1', hd'⟩ := hv'
  unfold daysIn at hd hd'
  have same : ∀ (l : Bool) (a b : Nat) (x x' : Int), 1 ≤ a → a < b → b ≤ 12 → 1 ≤ x' → x ≤ daysInL l a →
      cum l a + x < cum l b + x' := by
    intro l a b x x' ha hab hb hx' hx
    have := cum_mono l (a + 1) b (by omega) (by omega) (by omega)
    rw [cum_succ l a ha (by omega)] at this
    omega
  constructor
  · intro h
    by_cases hy : y < y'
    · exact Or.inl hy
    · right
      have hyy : y = y' := by
        by_cases hgt : y' < y
        · have := dby_mono (show y' + 1 ≤ y by omega)
          rw [dby_succ] at this
          unfold ordinal at h; omega
        · omega
      subst hyy
      refine ⟨rfl, ?_⟩
      rw [ordinal_eq_cum, ordinal_eq_cum] at h
      by_cases hmm : m = m'
      · subst hmm; right; exact ⟨rfl, by omega⟩
      · left
        by_cases hlt : m < m'
        · exact hlt
        · have := same (isLeap y) m' m d' d h1' (by omega) h12 hd1 hd'
          omega
  · intro h
    rcases h with hy | ⟨rfl, hm | ⟨rfl, hd⟩⟩
    · have := dby_mono (show y + 1 ≤ y' by omega)
      rw [dby_succ] at this
      unfold ordinal; omega
    · rw [ordinal_eq_cum, ordinal_eq_cum]
      have := same (isLeap y) m m' d d' h1 hm h12' hd1' hd
      omega
    · unfold ordinal; omega

end U.GoTime
