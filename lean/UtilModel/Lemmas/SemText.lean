import UtilModel.Model.Sem
import UtilModel.Lemmas.Dec
import UtilModel.Lemmas.SemNumeric
import UtilModel.Spec.SemVerBNF
/-! # The SemVer scanner `shape` is the BNF; the parser on grammar texts; decimal round trip -/
namespace U.Sem
open U U.Props.C03

/-! ## `joinDots` is `List.intercalate [46]` -/

theorem joinDots_eq_intercalate (ids : List Bytes) : joinDots ids = List.intercalate [46] ids := by
  induction ids with
  | nil => rfl
  | cons a r ih =>
    cases r with
    | nil => simp [joinDots, List.intercalate]
    | cons b r' =>
      simp only [joinDots, ih]
      simp [List.intercalate]

/-! ## `cut` -/

theorem cut_cons_eq (sep : Nat) (t : Bytes) : cut sep (sep :: t) = ([], some t) := by
  simp [cut]

theorem cut_cons_ne (sep c : Nat) (t : Bytes) (h : c ≠ sep) :
    cut sep (c :: t) = (c :: (cut sep t).1, (cut sep t).2) := by
  simp [cut, h]

/-- what `cut` returns: the part before has no separator, and the input is put together again -/
theorem cut_spec (sep : Nat) (s : Bytes) :
    sep ∉ (cut sep s).1 ∧
      s = (cut sep s).1 ++ (match (cut sep s).2 with | none => [] | some b => sep :: b) := by
  induction s with
  | nil => simp [cut]
  | cons c t ih =>
    by_cases h : c = sep
    · subst h; rw [cut_cons_eq]; simp
    · rw [cut_cons_ne sep c t h]
      obtain ⟨h1, h2⟩ := ih
      refine ⟨?_, ?_⟩
      · simp only [List.mem_cons, not_or]
        exact ⟨fun e => h e.symm, h1⟩
      · simp only [List.cons_append]
        rw [← h2]

theorem cut_none {sep : Nat} {s a : Bytes} (h : cut sep s = (a, none)) : s = a ∧ sep ∉ a := by
  have := cut_spec sep s
  rw [h] at this
  simpa using this.symm

theorem cut_some {sep : Nat} {s a b : Bytes} (h : cut sep s = (a, some b)) :
    s = a ++ sep :: b ∧ sep ∉ a := by
  have := cut_spec sep s
  rw [h] at this
  exact ⟨this.2, this.1⟩

theorem cut_of_not_mem {sep : Nat} {a : Bytes} (h : sep ∉ a) : cut sep a = (a, none) := by
  induction a with
  | nil => rfl
  | cons c t ih =>
    simp only [List.mem_cons, not_or] at h
    rw [cut_cons_ne sep c t (fun e => h.1 e.symm), ih h.2]

theorem cut_append {sep : Nat} {a : Bytes} (b : Bytes) (h : sep ∉ a) :
    cut sep (a ++ sep :: b) = (a, some b) := by
  induction a with
  | nil => exact cut_cons_eq sep b
  | cons c t ih =>
    simp only [List.mem_cons, not_or] at h
    rw [List.cons_append, cut_cons_ne sep c _ (fun e => h.1 e.symm), ih h.2]

/-- both cases at once, with the optional tail as an `Option` -/
theorem cut_opt {sep : Nat} {a : Bytes} (b? : Option Bytes) (h : sep ∉ a) :
    cut sep (a ++ (match b? with | some b => sep :: b | none => [])) = (a, b?) := by
  cases b? with
  | none => simpa using cut_of_not_mem h
  | some b => exact cut_append b h

/-! ## `splitDot` and `joinDots` -/

theorem splitDot_cons_dot (t : Bytes) : splitDot (46 :: t) = [] :: splitDot t := by
  simp [splitDot]

theorem splitDot_ne_nil (s : Bytes) : splitDot s ≠ [] := by
  induction s with
  | nil => simp [splitDot]
  | cons c t ih =>
    unfold splitDot
    split
    · simp
    · split <;> simp

theorem splitDot_cons_ne (c : Nat) (t : Bytes) (h : c ≠ 46) :
    ∃ p ps, splitDot t = p :: ps ∧ splitDot (c :: t) = (c :: p) :: ps := by
  cases hs : splitDot t with
  | nil => exact absurd hs (splitDot_ne_nil t)
  | cons p ps => exact ⟨p, ps, rfl, by simp [splitDot, h, hs]⟩

theorem splitDot_of_not_mem {a : Bytes} (h : 46 ∉ a) : splitDot a = [a] := by
  induction a with
  | nil => rfl
  | cons c t ih =>
    simp only [List.mem_cons, not_or] at h
    have hc : c ≠ 46 := fun e => h.1 e.symm
    simp [splitDot, hc, ih h.2]

theorem splitDot_append_dot {a : Bytes} (b : Bytes) (h : 46 ∉ a) :
    splitDot (a ++ 46 :: b) = a :: splitDot b := by
  induction a with
  | nil => exact splitDot_cons_dot b
  | cons c t ih =>
    simp only [List.mem_cons, not_or] at h
    have hc : c ≠ 46 := fun e => h.1 e.symm
    simp [splitDot, hc, ih h.2]

/-- splitting a dot-joined list of dot-free pieces gives the pieces back -/
theorem splitDot_joinDots (ids : List Bytes) (hne : ids ≠ []) (h : ∀ i ∈ ids, 46 ∉ i) :
    splitDot (joinDots ids) = ids := by
  induction ids with
  | nil => exact absurd rfl hne
  | cons a r ih =>
    have ha : 46 ∉ a := h a (by simp)
    cases r with
    | nil => simpa [joinDots] using splitDot_of_not_mem ha
    | cons b r' =>
      simp only [joinDots]
      rw [splitDot_append_dot _ ha, ih (by simp) (fun i hi => h i (List.mem_cons_of_mem _ hi))]

theorem joinDots_cons_cons (c : Nat) (p : Bytes) (ps : List Bytes) :
    joinDots ((c :: p) :: ps) = c :: joinDots (p :: ps) := by
  cases ps <;> simp [joinDots]

/-- joining the pieces of any string with dots gives the string back -/
theorem joinDots_splitDot (s : Bytes) : joinDots (splitDot s) = s := by
  induction s with
  | nil => rfl
  | cons c t ih =>
    by_cases h : c = 46
    · subst h
      rw [splitDot_cons_dot]
      cases hs : splitDot t with
      | nil => exact absurd hs (splitDot_ne_nil t)
      | cons p ps => rw [hs] at ih; simp [joinDots, ih]
    · obtain ⟨p, ps, h1, h2⟩ := splitDot_cons_ne c t h
      rw [h2, joinDots_cons_cons, ← h1, ih]

theorem mem_joinDots {c : Nat} {ids : List Bytes} (h : c ∈ joinDots ids) :
    c = 46 ∨ ∃ i ∈ ids, c ∈ i := by
  induction ids with
  | nil => simp [joinDots] at h
  | cons a r ih =>
    cases r with
    | nil => exact Or.inr ⟨a, by simp, by simpa [joinDots] using h⟩
    | cons b r' =>
      simp only [joinDots, List.mem_append, List.mem_cons] at h
      rcases h with h | h | h
      · exact Or.inr ⟨a, by simp, h⟩
      · exact Or.inl h
      · rcases ih h with h' | ⟨i, hi, hc⟩
        · exact Or.inl h'
        · exact Or.inr ⟨i, List.mem_cons_of_mem _ hi, hc⟩

theorem joinDots_ne_nil {a : Bytes} {r : List Bytes} (ha : a ≠ []) : joinDots (a :: r) ≠ [] := by
  cases r with
  | nil => simpa [joinDots] using ha
  | cons b r' => simp [joinDots, ha]

/-! ## character classes and identifiers -/

theorem isDigit_iff (c : Nat) : isDigit c = true ↔ Digit c := by
  simp [isDigit, Digit]

theorem isIdentChar_iff (c : Nat) : isIdentChar c = true ↔ IdentChar c := by
  simp only [isIdentChar, isDigit, isLetter, isUpper, isLower, Bool.or_eq_true, Bool.and_eq_true,
    decide_eq_true_eq, beq_iff_eq, IdentChar, Digit, Letter]
  omega

theorem allDigits_iff (s : Bytes) : allDigits s = true ↔ ∀ c ∈ s, Digit c := by
  simp only [allDigits, List.all_eq_true, isDigit_iff]

theorem allIdent_iff (s : Bytes) : s.all isIdentChar = true ↔ ∀ c ∈ s, IdentChar c := by
  simp only [List.all_eq_true, isIdentChar_iff]

theorem digit_ne {c : Nat} (h : Digit c) : c ≠ 43 ∧ c ≠ 45 ∧ c ≠ 46 ∧ c ≠ 118 := by
  unfold Digit at h; omega

theorem identChar_ne {c : Nat} (h : IdentChar c) : c ≠ 43 ∧ c ≠ 46 := by
  unfold IdentChar Digit Letter at h; omega

theorem isNumIdent_cons (c : Nat) (t : Bytes) :
    isNumIdent (c :: t) = ((c == 48 && t.isEmpty) || (c != 48 && isDigit c && allDigits t)) := by
  unfold isNumIdent
  split
  · rename_i heq; cases heq
  · rename_i heq; cases heq; rfl
  · rename_i c' t' h1 h2 heq
    cases heq
    by_cases hc : c = 48
    · subst hc
      cases t with
      | nil => exact absurd rfl (h2 rfl)
      | cons d t'' => simp
    · simp [hc]

theorem isNumIdent_iff (s : Bytes) : isNumIdent s = true ↔ NumId s := by
  cases s with
  | nil => simp [isNumIdent, NumId]
  | cons c t =>
    rw [isNumIdent_cons]
    simp only [Bool.or_eq_true, Bool.and_eq_true, beq_iff_eq, bne_iff_ne, List.isEmpty_iff, allDigits_iff,
      isDigit_iff, NumId, List.cons.injEq]
    constructor
    · rintro (⟨rfl, rfl⟩ | ⟨⟨h1, h2⟩, h3⟩)
      · exact Or.inl ⟨rfl, rfl⟩
      · exact Or.inr ⟨c, t, ⟨rfl, rfl⟩, by unfold Digit at h2; unfold PosDigit; omega, h3⟩
    · rintro (⟨rfl, rfl⟩ | ⟨c', t', ⟨rfl, rfl⟩, h2, h3⟩)
      · exact Or.inl ⟨rfl, rfl⟩
      · exact Or.inr ⟨⟨by unfold PosDigit at h2; omega, by unfold PosDigit at h2; unfold Digit; omega⟩, h3⟩

theorem isBuildIdent_iff (s : Bytes) : isBuildIdent s = true ↔ BuildId s := by
  simp only [isBuildIdent, Bool.and_eq_true, Bool.not_eq_true', List.isEmpty_eq_false_iff, allIdent_iff, BuildId]

theorem isPreIdent_iff (s : Bytes) : isPreIdent s = true ↔ PreId s := by
  simp only [isPreIdent, Bool.and_eq_true, Bool.or_eq_true, Bool.not_eq_true', List.isEmpty_eq_false_iff,
    allIdent_iff, isNumIdent_iff, PreId, and_assoc]
  refine and_congr_right fun _ => and_congr_right fun _ => ?_
  rw [← allDigits_iff]
  cases allDigits s <;> simp

/-- facts about numeric identifiers -/
theorem numId_digits {t : Bytes} (h : NumId t) : ∀ c ∈ t, Digit c := by
  rcases h with rfl | ⟨c, r, rfl, hc, hr⟩
  · intro c hc; simp at hc; subst hc; unfold Digit; omega
  · intro d hd
    simp only [List.mem_cons] at hd
    rcases hd with rfl | hd
    · unfold PosDigit at hc; unfold Digit; omega
    · exact hr d hd

theorem numId_ne_nil {t : Bytes} (h : NumId t) : t ≠ [] := by
  rcases h with rfl | ⟨c, r, rfl, _, _⟩ <;> simp

theorem numId_allDigits {t : Bytes} (h : NumId t) : allDigits t = true := (allDigits_iff t).mpr (numId_digits h)

theorem numId_not_mem {t : Bytes} (h : NumId t) : 43 ∉ t ∧ 45 ∉ t ∧ 46 ∉ t :=
  ⟨fun hm => (digit_ne (numId_digits h _ hm)).1 rfl, fun hm => (digit_ne (numId_digits h _ hm)).2.1 rfl,
   fun hm => (digit_ne (numId_digits h _ hm)).2.2.1 rfl⟩

theorem preId_buildId {s : Bytes} (h : PreId s) : BuildId s := ⟨h.1, h.2.1⟩

theorem buildId_not_mem {s : Bytes} (h : BuildId s) : 43 ∉ s ∧ 46 ∉ s :=
  ⟨fun hm => (identChar_ne (h.2 _ hm)).1 rfl, fun hm => (identChar_ne (h.2 _ hm)).2 rfl⟩

/-! ## dot-separated lists -/

theorem validPre_iff (p : Bytes) : validPre p = true ↔ DotList PreId p := by
  constructor
  · intro h
    unfold validPre at h
    rw [List.all_eq_true] at h
    exact ⟨splitDot p, splitDot_ne_nil p, fun i hi => (isPreIdent_iff i).mp (h i hi), (joinDots_splitDot p).symm⟩
  · rintro ⟨ids, hne, hP, rfl⟩
    unfold validPre
    rw [splitDot_joinDots ids hne (fun i hi => (buildId_not_mem (preId_buildId (hP i hi))).2), List.all_eq_true]
    exact fun i hi => (isPreIdent_iff i).mpr (hP i hi)

theorem validBuild_iff (b : Bytes) : validBuild b = true ↔ DotList BuildId b := by
  constructor
  · intro h
    unfold validBuild at h
    rw [List.all_eq_true] at h
    exact ⟨splitDot b, splitDot_ne_nil b, fun i hi => (isBuildIdent_iff i).mp (h i hi), (joinDots_splitDot b).symm⟩
  · rintro ⟨ids, hne, hP, rfl⟩
    unfold validBuild
    rw [splitDot_joinDots ids hne (fun i hi => (buildId_not_mem (hP i hi)).2), List.all_eq_true]
    exact fun i hi => (isBuildIdent_iff i).mpr (hP i hi)

/-- a dot-separated list of build identifiers is non-empty and contains neither `+` nor anything but
identifier characters and dots -/
theorem dotList_build {s : Bytes} (h : DotList BuildId s) : s ≠ [] ∧ 43 ∉ s := by
  obtain ⟨ids, hne, hP, rfl⟩ := h
  constructor
  · cases ids with
    | nil => exact absurd rfl hne
    | cons a r => exact joinDots_ne_nil (hP a (by simp)).1
  · intro hm
    rcases mem_joinDots hm with h | ⟨i, hi, hc⟩
    · omega
    · exact (buildId_not_mem (hP i hi)).1 hc

theorem dotList_pre_build {s : Bytes} (h : DotList PreId s) : DotList BuildId s := by
  obtain ⟨ids, hne, hP, rfl⟩ := h
  exact ⟨ids, hne, fun i hi => preId_buildId (hP i hi), rfl⟩

/-! ## `shape` is the grammar -/

/-- the conjunction of checks inside `shape` -/
def partsOk (ma mi pa : Bytes) (pre? build? : Option Bytes) : Bool :=
  isNumIdent ma && isNumIdent mi && isNumIdent pa
    && (match pre? with | none => true | some p => validPre p)
    && (match build? with | none => true | some b => validBuild b)

theorem partsOk_iff (ma mi pa : Bytes) (pre? build? : Option Bytes) :
    partsOk ma mi pa pre? build? = true ↔
      isNumIdent ma = true ∧ isNumIdent mi = true ∧ isNumIdent pa = true ∧
      (∀ p, pre? = some p → validPre p = true) ∧ (∀ b, build? = some b → validBuild b = true) := by
  unfold partsOk
  cases pre? <;> cases build? <;> simp [and_assoc]

/-- `shape` without the destructuring `let`s -/
theorem shape_eq (s : Bytes) : shape s =
    match splitDot (cut 45 (cut 43 s).1).1 with
    | [ma, mi, pa] =>
      if partsOk ma mi pa (cut 45 (cut 43 s).1).2 (cut 43 s).2 = true
      then some (ma, mi, pa, (cut 45 (cut 43 s).1).2.getD [], (cut 43 s).2.getD []) else none
    | _ => none := rfl

/-- `shape` from the facts about its three scanning steps -/
theorem shape_of_steps {s head core ma mi pa : Bytes} {pre? build? : Option Bytes}
    (h1 : cut 43 s = (head, build?)) (h2 : cut 45 head = (core, pre?)) (h3 : splitDot core = [ma, mi, pa])
    (hma : isNumIdent ma = true) (hmi : isNumIdent mi = true) (hpa : isNumIdent pa = true)
    (hp : ∀ p, pre? = some p → validPre p = true) (hb : ∀ b, build? = some b → validBuild b = true) :
    shape s = some (ma, mi, pa, pre?.getD [], build?.getD []) := by
  rw [shape_eq]
  simp only [h1, h2, h3]
  rw [if_pos ((partsOk_iff ..).mpr ⟨hma, hmi, hpa, hp, hb⟩)]

/-- … and back -/
theorem steps_of_shape {s ma mi pa pre build : Bytes} (h : shape s = some (ma, mi, pa, pre, build)) :
    ∃ head core pre? build?, cut 43 s = (head, build?) ∧ cut 45 head = (core, pre?) ∧
      splitDot core = [ma, mi, pa] ∧ isNumIdent ma = true ∧ isNumIdent mi = true ∧ isNumIdent pa = true ∧
      (∀ p, pre? = some p → validPre p = true) ∧ (∀ b, build? = some b → validBuild b = true) ∧
      pre = pre?.getD [] ∧ build = build?.getD [] := by
  rw [shape_eq] at h
  split at h
  · rename_i ma' mi' pa' h3
    split at h
    · rename_i hc
      simp only [Option.some.injEq, Prod.mk.injEq] at h
      obtain ⟨rfl, rfl, rfl, rfl, rfl⟩ := h
      obtain ⟨hma, hmi, hpa, hp, hb⟩ := (partsOk_iff ..).mp hc
      exact ⟨_, _, _, _, rfl, rfl, h3, hma, hmi, hpa, hp, hb, rfl, rfl⟩
    · cases h
  · cases h

theorem core_eq (ma mi pa : Bytes) : ma ++ [46] ++ mi ++ [46] ++ pa = joinDots [ma, mi, pa] := by
  simp [joinDots]

/-- **completeness of the scanner**: on a text of the grammar, `shape` returns its parts -/
theorem shape_of_parts {s ma mi pa : Bytes} {pre? build? : Option Bytes} (h : Parts s ma mi pa pre? build?) :
    shape s = some (ma, mi, pa, pre?.getD [], build?.getD []) := by
  obtain ⟨hma, hmi, hpa, hp, hb, rfl⟩ := h
  have n43 : 43 ∉ ma ++ [46] ++ mi ++ [46] ++ pa ++ (match pre? with | some p => 45 :: p | none => []) := by
    simp only [List.mem_append, List.mem_singleton, not_or]
    refine ⟨⟨⟨⟨⟨(numId_not_mem hma).1, by omega⟩, (numId_not_mem hmi).1⟩, by omega⟩, (numId_not_mem hpa).1⟩, ?_⟩
    cases pre? with
    | none => simp
    | some p =>
      simp only [List.mem_cons, not_or]
      exact ⟨by omega, (dotList_build (dotList_pre_build (hp p rfl))).2⟩
  have n45 : 45 ∉ ma ++ [46] ++ mi ++ [46] ++ pa := by
    simp only [List.mem_append, List.mem_singleton, not_or]
    exact ⟨⟨⟨⟨(numId_not_mem hma).2.1, by omega⟩, (numId_not_mem hmi).2.1⟩, by omega⟩, (numId_not_mem hpa).2.1⟩
  refine shape_of_steps (cut_opt build? n43) (cut_opt pre? n45) ?_
    ((isNumIdent_iff _).mpr hma) ((isNumIdent_iff _).mpr hmi) ((isNumIdent_iff _).mpr hpa)
    (fun p e => (validPre_iff p).mpr (hp p e)) (fun b e => (validBuild_iff b).mpr (hb b e))
  rw [core_eq]
  apply splitDot_joinDots _ (by simp)
  intro i hi
  simp only [List.mem_cons, List.not_mem_nil, or_false] at hi
  rcases hi with rfl | rfl | rfl
  · exact (numId_not_mem hma).2.2
  · exact (numId_not_mem hmi).2.2
  · exact (numId_not_mem hpa).2.2

/-- **soundness of the scanner**: whatever `shape` returns are parts of the input according to the
grammar; an absent group is reported as the empty text (and only then) -/
theorem parts_of_shape {s ma mi pa pre build : Bytes} (h : shape s = some (ma, mi, pa, pre, build)) :
    ∃ pre? build?, Parts s ma mi pa pre? build? ∧ pre = pre?.getD [] ∧ build = build?.getD [] := by
  obtain ⟨head, core, pre?, build?, h1, h2, h3, hma, hmi, hpa, hp, hb, rfl, rfl⟩ := steps_of_shape h
  refine ⟨pre?, build?, ⟨(isNumIdent_iff _).mp hma, (isNumIdent_iff _).mp hmi, (isNumIdent_iff _).mp hpa,
    fun p e => (validPre_iff p).mp (hp p e), fun b e => (validBuild_iff b).mp (hb b e), ?_⟩, rfl, rfl⟩
  have hcore : core = ma ++ [46] ++ mi ++ [46] ++ pa := by
    rw [core_eq, ← h3, joinDots_splitDot]
  have e1 := (cut_spec 43 s).2
  have e2 := (cut_spec 45 head).2
  rw [h1] at e1; rw [h2] at e2
  simp only at e1 e2
  rw [e1, e2, hcore]
  cases pre? <;> cases build? <;> rfl

theorem shape_none_iff (s : Bytes) : shape s = none ↔ ¬ SemVer s := by
  constructor
  · rintro h ⟨ma, mi, pa, pre?, build?, hp⟩
    rw [shape_of_parts hp] at h; cases h
  · intro h
    cases hs : shape s with
    | none => rfl
    | some r =>
      obtain ⟨ma, mi, pa, pre, build⟩ := r
      obtain ⟨pre?, build?, hp, _, _⟩ := parts_of_shape hs
      exact absurd ⟨ma, mi, pa, pre?, build?, hp⟩ h

/-- an optional group that is present is non-empty, so `getD []` loses nothing -/
theorem getD_eq_nil_pre {pre? : Option Bytes} (h : ∀ p, pre? = some p → DotList PreId p) :
    pre?.getD [] = [] ↔ pre? = none := by
  cases pre? with
  | none => simp
  | some p => simpa using (dotList_build (dotList_pre_build (h p rfl))).1

theorem getD_eq_nil_build {build? : Option Bytes} (h : ∀ b, build? = some b → DotList BuildId b) :
    build?.getD [] = [] ↔ build? = none := by
  cases build? with
  | none => simp
  | some b => simpa using (dotList_build (h b rfl)).1

theorem getD_inj {a b : Option Bytes} (ha : a.getD [] = [] ↔ a = none) (hb : b.getD [] = [] ↔ b = none)
    (h : a.getD [] = b.getD []) : a = b := by
  cases a with
  | none =>
    cases b with
    | none => rfl
    | some y => exact absurd (hb.mp (by simpa using h.symm)) (by simp)
  | some x =>
    cases b with
    | none => exact absurd (ha.mp (by simpa using h)) (by simp)
    | some y => simpa using h

/-- **the decomposition is unique** -/
theorem parts_unique {s ma mi pa ma' mi' pa' : Bytes} {pre? build? pre?' build?' : Option Bytes}
    (h : Parts s ma mi pa pre? build?) (h' : Parts s ma' mi' pa' pre?' build?') :
    ma = ma' ∧ mi = mi' ∧ pa = pa' ∧ pre? = pre?' ∧ build? = build?' := by
  have e := shape_of_parts h
  rw [shape_of_parts h'] at e
  simp only [Option.some.injEq, Prod.mk.injEq] at e
  obtain ⟨e1, e2, e3, e4, e5⟩ := e
  exact ⟨e1.symm, e2.symm, e3.symm,
    (getD_inj (getD_eq_nil_pre h'.2.2.2.1) (getD_eq_nil_pre h.2.2.2.1) e4).symm,
    (getD_inj (getD_eq_nil_build h'.2.2.2.2.1) (getD_eq_nil_build h.2.2.2.2.1) e5).symm⟩

/-! ## decimal round trip: `dec (val t) = t` for numeric identifiers -/

theorem val_concat (L : Bytes) (b : Nat) : val (L ++ [b]) = val L * 10 + (b - 48) := by
  simp [val, ofDigits_append, ofDigits]

theorem fixed_val_aux (n : Nat) : ∀ t : Bytes, t.length = n → allDigits t = true → fixed n (val t) = t := by
  induction n with
  | zero =>
    intro t ht _
    have := List.eq_nil_of_length_eq_zero ht
    subst this; rfl
  | succ n ih =>
    intro t ht hd
    rcases List.eq_nil_or_concat t with h | ⟨L, b, h⟩
    · subst h; simp at ht
    · rw [List.concat_eq_append] at h
      subst h
      simp only [List.length_append, List.length_singleton, Nat.add_right_cancel_iff] at ht
      rw [allDigits_iff] at hd
      have hdL : allDigits L = true := (allDigits_iff L).mpr (fun c hc => hd c (by simp [hc]))
      have hb : Digit b := hd b (by simp)
      unfold Digit at hb
      rw [val_concat]
      simp only [fixed]
      have e1 : (val L * 10 + (b - 48)) / 10 = val L := by omega
      have e2 : 48 + (val L * 10 + (b - 48)) % 10 = b := by omega
      rw [e1, e2, ih L ht hdL]

/-- writing the value of a digit string with as many digits gives the string back -/
theorem fixed_val (t : Bytes) (h : allDigits t = true) : fixed t.length (val t) = t :=
  fixed_val_aux t.length t rfl h

theorem numId_noLead0 {t : Bytes} (h : NumId t) : t = [48] ∨ noLead0 t := by
  rcases h with rfl | ⟨c, r, rfl, hc, _⟩
  · exact Or.inl rfl
  · right
    unfold noLead0
    split
    · rename_i heq
      simp only [List.cons.injEq] at heq
      unfold PosDigit at hc; omega
    · trivial

/-- a numeric identifier has exactly as many characters as its value has decimal digits -/
theorem ndigits_val {t : Bytes} (h : NumId t) : ndigits (val t) = t.length := by
  rcases numId_noLead0 h with rfl | hn
  · decide
  · have hd := numId_allDigits h
    have hne := numId_ne_nil h
    have hlen : 1 ≤ t.length := by
      cases t with
      | nil => exact absurd rfl hne
      | cons _ _ => simp
    have hlt := val_lt t hd
    have hge := val_ge t hd hn hne
    have h1 := ndigits_le t.length (val t) hlen hlt
    have h2 := (ndigits_spec (val t)).2
    have h3 : 10 ^ (t.length - 1) < 10 ^ ndigits (val t) := Nat.lt_of_le_of_lt hge h2
    have h4 := (Nat.pow_lt_pow_iff_right (a := 10) (by decide)).mp h3
    omega

/-- **the decimal writer inverts the decimal reader on numeric identifiers** -/
theorem dec_val {t : Bytes} (h : NumId t) : dec (val t) = t := by
  rw [dec_spec, ndigits_val h, fixed_val t (numId_allDigits h)]

/-- **every number is written as a numeric identifier** (no leading zero) -/
theorem numId_dec (n : Nat) : NumId (dec n) := by
  have hd := allDigits_dec n
  have hl := dec_length_pos n
  have hv := val_dec n
  rw [allDigits_iff] at hd
  cases ht : dec n with
  | nil => rw [ht] at hl; simp at hl
  | cons c r =>
    rw [ht] at hd hv
    have hc : Digit c := hd c (by simp)
    have hr : ∀ d ∈ r, Digit d := fun d hd' => hd d (by simp [hd'])
    by_cases h48 : c = 48
    · subst h48
      cases r with
      | nil => exact Or.inl rfl
      | cons d r' =>
        exfalso
        have hlen : (dec n).length = r'.length + 2 := by rw [ht]; simp
        rw [dec_spec, fixed_length] at hlen
        have hv' : val (d :: r') = n := by rw [← hv, val_cons 48]; simp
        have hlt := val_lt (d :: r') ((allDigits_iff _).mpr hr)
        rw [hv'] at hlt
        have := ndigits_le (d :: r').length n (by simp) hlt
        simp only [List.length_cons] at this
        omega
    · exact Or.inr ⟨c, r, rfl, by unfold Digit at hc; unfold PosDigit; omega, hr⟩

/-! ## the parser in normal form -/

/-- what `unmarshalText` does with the text after the optional `v` -/
def parseBody (t : Bytes) : Outcome Ver :=
  match shape t with
  | none => .err .invalid
  | some (ma, mi, pa, pre, build) =>
    if val ma ≥ two64 then .err .invalidMajor
    else if val mi ≥ two64 then .err .invalidMinor
    else if val pa ≥ two64 then .err .invalidPatch
    else .ok ⟨val ma, val mi, val pa, pre, build⟩

/-- the prefix decision -/
theorem unmarshalText_cons (maxLen : Nat) (aV aT : Bool) (c : Nat) (t : Bytes)
    (hlen : maxLen = 0 ∨ (c :: t).length ≤ maxLen) :
    unmarshalText maxLen aV aT (c :: t) =
      if c = 118 then (if aT = true then parseBody t else .err .tagNotAllowed)
      else (if aV = true then parseBody (c :: t) else .err .expectedTag) := by
  unfold unmarshalText
  simp only [List.length_cons] at hlen ⊢
  rw [if_neg (by omega), if_neg (by omega)]
  simp only [List.getElem?_cons_zero, Gen.sem_tagPrefix, beq_iff_eq]
  by_cases hc : c = 118
  · simp only [hc, if_true]
    cases aT
    · simp
    · rfl
  · simp only [hc, if_false]
    cases aV
    · simp
    · rfl

theorem body_cons (c : Nat) (t : Bytes) : body (c :: t) = if c = 118 then t else c :: t := by
  simp [body]

/-- the whole parser: the five refusals in the order the code checks them, else the body -/
theorem unmarshalText_eq (maxLen : Nat) (aV aT : Bool) (s : Bytes) :
    unmarshalText maxLen aV aT s =
      if s = [] then .err .invalid
      else if maxLen ≠ 0 ∧ s.length > maxLen then .err .tooLong
      else if s.head? = some 118 then (if aT = true then parseBody (body s) else .err .tagNotAllowed)
      else (if aV = true then parseBody (body s) else .err .expectedTag) := by
  cases s with
  | nil => simp [unmarshalText]
  | cons c t =>
    rw [if_neg (by simp)]
    by_cases hl : maxLen ≠ 0 ∧ (c :: t).length > maxLen
    · rw [if_pos hl]
      unfold unmarshalText
      simp only
      rw [if_neg (by simp), if_pos hl]
    · rw [if_neg hl, unmarshalText_cons maxLen aV aT c t (by omega), body_cons]
      simp only [List.head?_cons, Option.some.injEq]
      by_cases hc : c = 118 <;> simp [hc]

theorem parseBody_ok_iff (t : Bytes) (v : Ver) :
    parseBody t = .ok v ↔
      ∃ ma mi pa pre? build?, Parts t ma mi pa pre? build? ∧
        val ma < two64 ∧ val mi < two64 ∧ val pa < two64 ∧
        v = ⟨val ma, val mi, val pa, pre?.getD [], build?.getD []⟩ := by
  unfold parseBody
  constructor
  · intro h
    split at h
    · cases h
    · rename_i ma mi pa pre build hs
      obtain ⟨pre?, build?, hp, rfl, rfl⟩ := parts_of_shape hs
      repeat' split at h
      all_goals first
        | (simp only [Outcome.ok.injEq] at h
           exact ⟨ma, mi, pa, pre?, build?, hp, by omega, by omega, by omega, h.symm⟩)
        | cases h
  · rintro ⟨ma, mi, pa, pre?, build?, hp, h1, h2, h3, rfl⟩
    rw [shape_of_parts hp]
    simp only
    rw [if_neg (by omega), if_neg (by omega), if_neg (by omega)]

/-- the result of `parseBody` on a text of the grammar -/
theorem parseBody_parts {t ma mi pa : Bytes} {pre? build? : Option Bytes} (hp : Parts t ma mi pa pre? build?) :
    parseBody t =
      if val ma ≥ two64 then .err .invalidMajor
      else if val mi ≥ two64 then .err .invalidMinor
      else if val pa ≥ two64 then .err .invalidPatch
      else .ok ⟨val ma, val mi, val pa, pre?.getD [], build?.getD []⟩ := by
  unfold parseBody
  rw [shape_of_parts hp]

theorem parseBody_not_semver {t : Bytes} (h : ¬ SemVer t) : parseBody t = .err .invalid := by
  unfold parseBody
  rw [(shape_none_iff t).mpr h]

theorem parseBody_ne_panic (t : Bytes) : parseBody t ≠ .panic := by
  unfold parseBody
  repeat' split
  all_goals simp

/-- the errors `parseBody` can give -/
theorem parseBody_err {t : Bytes} {e : Err} (h : parseBody t = .err e) :
    e = .invalid ∨ e = .invalidMajor ∨ e = .invalidMinor ∨ e = .invalidPatch := by
  unfold parseBody at h
  repeat' split at h
  all_goals first
    | (simp only [Outcome.err.injEq] at h; subst h; simp)
    | cases h

/-! ## the formatter on the parts of a text -/

theorem format_of_parts {t ma mi pa : Bytes} {pre? build? : Option Bytes}
    (h : Parts t ma mi pa pre? build?) (tag : Bool) :
    format [] ⟨val ma, val mi, val pa, pre?.getD [], build?.getD []⟩ tag =
      (if tag = true then [118] else []) ++ t := by
  obtain ⟨hma, hmi, hpa, hp, hb, rfl⟩ := h
  have np : ∀ p, pre? = some p → p ≠ [] := fun p e => (dotList_build (dotList_pre_build (hp p e))).1
  have nb : ∀ b, build? = some b → b ≠ [] := fun b e => (dotList_build (hb b e)).1
  unfold format
  simp only [dec_val hma, dec_val hmi, dec_val hpa, Gen.sem_tagPrefix]
  clear hp hb
  cases pre? with
  | none =>
    cases build? with
    | none => cases tag <;> simp
    | some b => have := nb b rfl; cases tag <;> simp [this]
  | some p =>
    have h1 := np p rfl
    cases build? with
    | none => cases tag <;> simp [h1]
    | some b => have := nb b rfl; cases tag <;> simp [this, h1]

/-- a formatted version without the tag prefix starts with a digit, never with `v` -/
theorem format_head (v : Ver) : ∃ c t, format [] v false = c :: t ∧ c ≠ 118 := by
  have hn := numId_dec v.major
  have hd := numId_digits hn
  cases hm : dec v.major with
  | nil => exact absurd hm (numId_ne_nil hn)
  | cons c r =>
    rw [hm] at hd
    refine ⟨c, r ++ [46] ++ dec v.minor ++ [46] ++ dec v.patch
      ++ (if v.pre.isEmpty then [] else 45 :: v.pre) ++ (if v.build.isEmpty then [] else 43 :: v.build),
      ?_, (digit_ne (hd c (by simp))).2.2.2⟩
    unfold format
    simp only [hm, Bool.false_eq_true, if_false, List.nil_append, List.cons_append]

/-- a (range-respecting) version with valid or empty optional fields is a text of the grammar -/
theorem parts_format (v : Ver)
    (hp : v.pre ≠ [] → DotList PreId v.pre) (hb : v.build ≠ [] → DotList BuildId v.build) :
    Parts (format [] v false) (dec v.major) (dec v.minor) (dec v.patch)
      (if v.pre = [] then none else some v.pre) (if v.build = [] then none else some v.build) := by
  refine ⟨numId_dec _, numId_dec _, numId_dec _, ?_, ?_, ?_⟩
  · intro p h
    by_cases he : v.pre = []
    · simp [he] at h
    · simp only [he, if_false, Option.some.injEq] at h; subst h; exact hp he
  · intro b h
    by_cases he : v.build = []
    · simp [he] at h
    · simp only [he, if_false, Option.some.injEq] at h; subst h; exact hb he
  · unfold format
    simp only [Bool.false_eq_true, if_false, List.nil_append, List.isEmpty_iff]
    by_cases h1 : v.pre = [] <;> by_cases h2 : v.build = [] <;> simp [h1, h2]

/-! ## acceptance, the tag prefix, validity -/

theorem unmarshalText_ok_iff (maxLen : Nat) (aV aT : Bool) (s : Bytes) (v : Ver) :
    unmarshalText maxLen aV aT s = .ok v ↔
      s ≠ [] ∧ (maxLen = 0 ∨ s.length ≤ maxLen) ∧ (if s.head? = some 118 then aT else aV) = true ∧
      parseBody (body s) = .ok v := by
  rw [unmarshalText_eq]
  by_cases h0 : s = []
  · simp [h0]
  · rw [if_neg h0]
    by_cases hl : maxLen ≠ 0 ∧ s.length > maxLen
    · rw [if_pos hl]
      constructor
      · intro h; cases h
      · rintro ⟨_, h, _⟩; omega
    · rw [if_neg hl]
      have hl' : maxLen = 0 ∨ s.length ≤ maxLen := by omega
      by_cases hv : s.head? = some 118
      · rw [if_pos hv, if_pos hv]
        cases aT <;> simp [h0, hl']
      · rw [if_neg hv, if_neg hv]
        cases aV <;> simp [h0, hl']

/-- the optional `v` and the body make up the text -/
theorem tag_body (s : Bytes) : (if s.head? = some 118 then [118] else []) ++ body s = s := by
  cases s with
  | nil => simp [body]
  | cons c t =>
    rw [body_cons]
    by_cases hc : c = 118 <;> simp [hc]

theorem parseBody_invalid_iff (t : Bytes) : parseBody t = .err .invalid ↔ ¬ SemVer t := by
  constructor
  · rintro h ⟨ma, mi, pa, pre?, build?, hp⟩
    rw [parseBody_parts hp] at h
    repeat' split at h
    all_goals cases h
  · exact parseBody_not_semver

theorem valid_ok_iff (v : Ver) :
    v.valid = .ok () ↔ (v.pre ≠ [] → DotList PreId v.pre) ∧ (v.build ≠ [] → DotList BuildId v.build) := by
  unfold Ver.valid
  rw [← validPre_iff, ← validBuild_iff]
  by_cases h1 : v.pre = [] <;> by_cases h2 : v.build = [] <;>
    cases hp : validPre v.pre <;> cases hb : validBuild v.build <;> simp [h1, h2]

theorem getD_ite (x : Bytes) : (if x = [] then none else some x : Option Bytes).getD [] = x := by
  by_cases h : x = [] <;> simp [h]

end U.Sem
