import UtilModel.Spec.TestOracle
namespace U.TestKit
open U

theorem applyPred_spec (p : Pred) (e : ErrV) (hp : p ≠ .none) (hk : ¬ (p = .re true false ∧ e.isNil = false)) :
    (applyPred p e).1 = (!e.isNil && predHolds p e) ∧ ((applyPred p e).2 = !(applyPred p e).1) := by
  cases p with
  | none => exact absurd rfl hp
  | any => cases e <;> simp [applyPred, predHolds, ErrV.isNil]
  | eq t => cases e <;> simp [applyPred, predHolds, ErrV.isNil, bne]
  | pre t => cases e <;> simp [applyPred, predHolds, ErrV.isNil]
  | suf t => cases e <;> simp [applyPred, predHolds, ErrV.isNil]
  | re c m =>
    cases c <;> cases m <;> cases e <;> simp [applyPred, predHolds, ErrV.isNil] at hk ⊢

/-- in the K1 shape the predicate function says "not met" **without reporting** -/
theorem applyPred_k1 (e : ErrV) (he : e.isNil = false) : applyPred (.re true false) e = (false, false) := by
  cases e <;> simp [applyPred, ErrV.isNil] at he ⊢

theorem marshalCase_spec (binary : Bool) (c : Case) (hk : k1Shape c (marshalResult c.mbeh).2 = false ∨ hooksPass c = false) :
    marshalCase binary c = !satisfiedM binary c := by
  unfold marshalCase satisfiedM hooksPass
  cases hb : hookFails c.before
  · cases ha : hookFails c.after
    · simp only [Bool.false_eq_true, if_false, Bool.not_false, Bool.and_self, Bool.true_and]
      generalize hr : marshalResult c.mbeh = r at hk ⊢
      obtain ⟨b, err⟩ := r
      simp only
      cases hp : c.pred with
      | none => cases err <;> simp [ErrV.isNil]
      | any | eq _ | pre _ | suf _ =>
        have := applyPred_spec c.pred err (by rw [hp]; simp) (by rw [hp]; simp)
        rw [hp] at this
        obtain ⟨h1, h2⟩ := this
        simp only [h2]
        rw [h1]
        cases hx : (!err.isNil && predHolds _ err) <;> simp_all
      | re cc mm =>
        have hk' : ¬ (Pred.re cc mm = .re true false ∧ err.isNil = false) := by
          intro ⟨h1, h2⟩
          simp only [Pred.re.injEq] at h1
          rcases hk with hk | hk
          · simp [k1Shape, hp, h1.1, h1.2, h2] at hk
          · simp [hooksPass, hb, ha] at hk
        have := applyPred_spec (.re cc mm) err (by simp) hk'
        obtain ⟨h1, h2⟩ := this
        simp only [h2]
        rw [h1]
        cases hx : (!err.isNil && predHolds (.re cc mm) err) <;> simp_all
    · simp [ha]
  · simp [hb]

theorem unmarshalCase_spec (c : Case) (hk : k1Shape c (unmarshalResult c.ubeh).2 = false ∨ hooksPass c = false) :
    unmarshalCase c = !satisfiedU c := by
  unfold unmarshalCase satisfiedU hooksPass
  cases hb : hookFails c.before
  · cases ha : hookFails c.after
    · simp only [Bool.false_eq_true, if_false, Bool.not_false, Bool.and_self, Bool.true_and]
      generalize hr : unmarshalResult c.ubeh = r at hk ⊢
      obtain ⟨v, err⟩ := r
      simp only
      cases hp : c.pred with
      | none => cases err <;> simp [ErrV.isNil, bne]
      | any | eq _ | pre _ | suf _ =>
        have := applyPred_spec c.pred err (by rw [hp]; simp) (by rw [hp]; simp)
        rw [hp] at this
        obtain ⟨h1, h2⟩ := this
        simp only [h2]
        rw [h1]
        cases hx : (!err.isNil && predHolds _ err) <;> simp_all [bne]
      | re cc mm =>
        have hk' : ¬ (Pred.re cc mm = .re true false ∧ err.isNil = false) := by
          intro ⟨h1, h2⟩
          simp only [Pred.re.injEq] at h1
          rcases hk with hk | hk
          · simp [k1Shape, hp, h1.1, h1.2, h2] at hk
          · simp [hooksPass, hb, ha] at hk
        have := applyPred_spec (.re cc mm) err (by simp) hk'
        obtain ⟨h1, h2⟩ := this
        simp only [h2]
        rw [h1]
        cases hx : (!err.isNil && predHolds (.re cc mm) err) <;> simp_all [bne]
    · simp [ha]
  · simp [hb]

end U.TestKit
