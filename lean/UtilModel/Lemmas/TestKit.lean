import UtilModel.Spec.TestOracle
namespace U.TestKit
open U

theorem applyPred_spec (p : Pred) (e : ErrV) (hp : p ≠ .none) (hk : ¬ (p = .re true false ∧ e.isNil = false)) :
    (applyPred p e).1 = (!e.isNil && predHolds p e) ∧ ((applyPred p e).2 = !(applyPred p e).1) := by
  cases p with
  | none => exact absurd rfl hp
  | any => cases e <;> simp [applyPred, predHolds, ErrV.isNil]
  | eq t => cases e <;> simp [applyPred, predHolds, ErrV.isNil, bne]
  | pre t => cases e <;> simp [applyPred, predHolds, ErrV.isNil]
  | suf t => cases e <;> simp [applyPred, predHolds, ErrV.isNil]
  | re c m =>
    cases c <;> cases m <;> cases e <;> simp [applyPred, predHolds, ErrV.isNil] at hk ⊢

/-- in the K1 shape the predicate function says "not met" **without reporting** -/
theorem applyPred_k1 (e : ErrV) (he : e.isNil = false) : applyPred (.re true false) e = (false, false) := by
  cases e <;> simp [applyPred, ErrV.isNil] at he ⊢

theorem marshalCase_spec (binary : Bool) (c : Case) (hk : k1Shape c (marshalResult c.mbeh).2 = false ∨ hooksPass c = false) :
    marshalCase binary c = !satisfiedM binary c := by
  unfold marshalCase satisfiedM hooksPass
  cases hb : hookFails c.before
  · cases ha : hookFails c.after
    · simp only [Bool.false_eq_true, if_false, Bool.not_false, Bool.and_self, Bool.true_and]
      generalize hr : marshalResult c.mbeh = r at hk ⊢
      obtain ⟨b, err⟩ := r
      simp only
      cases hp : c.pred with
      | none => cases err <;> simp [ErrV.isNil]
      | any | eq _ | pre _ | suf _ =>
        have := applyPred_spec c.pred err (by rw [hp]; simp) (by rw [hp]; simp)
        rw [hp] at this
        obtain ⟨h1, h2⟩ := this
        simp only [h2]
        rw [h1]
        cases hx : (!err.isNil && predHolds _ err) <;> simp_all
      | re cc mm =>
        have hk' : ¬ (Pred.re cc mm = .re true false ∧ err.isNil = false) := by
          intro ⟨h1, h2⟩
          simp only [Pred.re.injEq] at h1
          rcases hk with hk | hk
          · simp [k1Shape, hp, h1.1, h1.2, h2] at hk
          · simp [hooksPass, hb, ha] at hk
        have := applyPred_spec (.re cc mm) err (by simp) hk'
        obtain ⟨h1, h2⟩ := this
        simp only [h2]
        rw [h1]
        cases hx : (!err.isNil && predHolds (.re cc mm) err) <;> simp_all
    · simp [ha]
  · simp [hb]

/-- the model hands the helper's `New` the case's value and the unmarshaler works on its result -/
theorem unmarshalResult_received (hb : Option HelperBeh) (c : Case) :
    unmarshalResult (helperNew hb c.value) c.ubeh = (received hb c, unmarshalErr c.ubeh) := by
  unfold unmarshalResult received freshValue helperNew
  cases unmarshalStored c.ubeh <;> cases hb <;> rfl

theorem helperAssertEqual_spec (hb : Option HelperBeh) (e a : Int) :
    helperAssertEqual hb e a = !valueAccepted hb e a := by
  cases hb <;> simp [helperAssertEqual, valueAccepted, bne]

theorem helperAssertEmpty_spec (hb : Option HelperBeh) (v : Int) :
    helperAssertEmpty hb v = !emptyAccepted hb v := by
  cases hb <;> simp [helperAssertEmpty, emptyAccepted, bne]

theorem unmarshalCase_spec (hb : Option HelperBeh) (c : Case)
    (hk : k1Shape c (unmarshalErr c.ubeh) = false ∨ hooksPass c = false) :
    unmarshalCase hb c = !satisfiedU hb c := by
  unfold unmarshalCase satisfiedU hooksPass
  rw [unmarshalResult_received]
  cases hb' : hookFails c.before
  · cases ha : hookFails c.after
    · simp only [Bool.false_eq_true, if_false, Bool.not_false, Bool.and_self, Bool.true_and]
      generalize unmarshalErr c.ubeh = err at hk ⊢
      generalize received hb c = v
      simp only [helperAssertEqual_spec, helperAssertEmpty_spec]
      cases hp : c.pred with
      | none => cases err <;> simp [ErrV.isNil]
      | any | eq _ | pre _ | suf _ =>
        have := applyPred_spec c.pred err (by rw [hp]; simp) (by rw [hp]; simp)
        rw [hp] at this
        obtain ⟨h1, h2⟩ := this
        simp only [h2]
        rw [h1]
        cases hx : (!err.isNil && predHolds _ err) <;> simp_all
      | re cc mm =>
        have hk' : ¬ (Pred.re cc mm = .re true false ∧ err.isNil = false) := by
          intro ⟨h1, h2⟩
          simp only [Pred.re.injEq] at h1
          rcases hk with hk | hk
          · simp [k1Shape, hp, h1.1, h1.2, h2] at hk
          · simp [hooksPass, hb', ha] at hk
        have := applyPred_spec (.re cc mm) err (by simp) hk'
        obtain ⟨h1, h2⟩ := this
        simp only [h2]
        rw [h1]
        cases hx : (!err.isNil && predHolds (.re cc mm) err) <;> simp_all
    · simp
  · simp

/-! ## hooks that edit the case: the operational reading (`XCase.eff`) is the declarative one (`XCase.completed`) -/

theorem eff_eq_completed (x : XCase) : x.eff = x.completed := by
  obtain ⟨⟨c, hbf, haf, p, m, u, d, v⟩, ⟨bd, bv, bp, bc⟩, ⟨ad, av, ap, ac⟩⟩ := x
  cases hbf <;> cases haf <;> cases bd <;> cases bv <;> cases bp <;> cases ad <;> cases ap <;> rfl

theorem completed_constraint (x : XCase) : x.completed.constraint = x.base.constraint := rfl

theorem applicable_completed (h : Helper) (x : XCase) : applicable h x.completed = applicable h x.base := rfl
end U.TestKit
